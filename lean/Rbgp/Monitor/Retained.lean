/-
  Rbgp.Monitor.Retained — C18: GR-retained (stale) keys and channel subscribers.  For a key the
  table holds as a retained route, a subscriber that was told about the key (or snapshotted its
  shard) holds what the table holds, or holds nothing and the PeerDown of the key's peer is the last
  thing it was told about the key — in every reachable state.
-/
import Rbgp.Monitor.ConsumerMaster
namespace Rbgp.Monitor
open Rbgp.Monitor.Spec
set_option linter.unusedSimpArgs false

/-- the last thing said about (map, key): `true` = the PeerDown of its peer -/
def dnStep (m : Bool) (key : Key) (b : Bool) (e : Ev) : Bool :=
  match proj m e with
  | some (k, _) => if k = key then false else b
  | none => match e with
    | .down p => if p = key.peer then true else b
    | _ => b

def dnLast (m : Bool) (key : Key) (q : List Ev) : Bool := q.foldl (dnStep m key) false

theorem dnLast_append (m key q evs) : dnLast m key (q ++ evs) = evs.foldl (dnStep m key) (dnLast m key q) := by
  simp [dnLast, List.foldl_append]

theorem dn_untouched (m key) : ∀ (evs : List Ev) (b : Bool), ¬ touched m key evs →
    (∀ e ∈ evs, e ≠ .down key.peer) → evs.foldl (dnStep m key) b = b := by
  intro evs
  induction evs with
  | nil => intro _ _ _; rfl
  | cons e r ih =>
    intro b hu hd
    have h1 : ¬ touched m key r := fun ⟨e', he', v, hv⟩ => hu ⟨e', List.mem_cons_of_mem _ he', v, hv⟩
    simp only [List.foldl_cons]
    have : dnStep m key b e = b := by
      unfold dnStep
      cases hp : proj m e with
      | some kv =>
        obtain ⟨k, v⟩ := kv
        by_cases hk : k = key
        · exact absurd ⟨e, List.mem_cons_self, v, by rw [hp, hk]⟩ hu
        · simp [hk]
      | none =>
        cases e <;> simp
        case down p => intro hpp; exact absurd (by rw [hpp]) (hd _ List.mem_cons_self)
    rw [this]; exact ih _ h1 (fun e' he' => hd e' (List.mem_cons_of_mem _ he'))

/-- the flag is what the checker reads off the history -/
theorem lastDn_hist (m : Bool) (key : Key) : ∀ (q : List Ev) (pre : List Item),
    lastDn (pre ++ (if m then histPost key q else histPre key q)) = q.foldl (dnStep m key) (lastDn pre) := by
  intro q
  induction q with
  | nil => intro pre; cases m <;> simp [histPre, histPost]
  | cons e r ih =>
    intro pre
    have hsnoc : ∀ (it : Item), lastDn (pre ++ [it]) = (it == Item.dn) := by
      intro it; simp [lastDn]
    cases m
    · simp only [Bool.false_eq_true, if_false, List.foldl_cons] at ih ⊢
      cases e with
      | pre k v =>
        by_cases hk : k = key
        · have := ih (pre ++ [itemOf v])
          simp only [List.append_assoc, List.singleton_append] at this
          simp only [histPre, hk, if_true, this, hsnoc, dnStep, proj]
          cases v <;> rfl
        · simp [histPre, hk, dnStep, proj, ih]
      | down p =>
        by_cases hk : p = key.peer
        · have := ih (pre ++ [Item.dn])
          simp only [List.append_assoc, List.singleton_append] at this
          simp only [histPre, hk, if_true, this, hsnoc, dnStep, proj]
          rfl
        · simp [histPre, hk, dnStep, proj, ih]
      | post k v => simp [histPre, dnStep, proj, ih]
      | up p => simp [histPre, dnStep, proj, ih]
      | eos => simp [histPre, dnStep, proj, ih]
    · simp only [if_true, List.foldl_cons] at ih ⊢
      cases e with
      | post k v =>
        by_cases hk : k = key
        · have := ih (pre ++ [itemOf v])
          simp only [List.append_assoc, List.singleton_append] at this
          simp only [histPost, hk, if_true, this, hsnoc, dnStep, proj]
          cases v <;> rfl
        · simp [histPost, hk, dnStep, proj, ih]
      | down p =>
        by_cases hk : p = key.peer
        · have := ih (pre ++ [Item.dn])
          simp only [List.append_assoc, List.singleton_append] at this
          simp only [histPost, hk, if_true, this, hsnoc, dnStep, proj]
          rfl
        · simp [histPost, hk, dnStep, proj, ih]
      | pre k v => simp [histPost, dnStep, proj, ih]
      | up p => simp [histPost, dnStep, proj, ih]
      | eos => simp [histPost, dnStep, proj, ih]

/-- A retained key, per live subscriber that was told about it or snapshotted its shard: it holds
    what the table holds, or nothing with the PeerDown as the last word. -/
def SV (st : St) : Prop :=
  ∀ s ∈ st.subscribers, ∀ m key, staleKey st key → (touched m key (st.queues s) ∨ key.shard ∈ st.done s) →
    view m key (st.queues s) = ribV m st key ∨ (view m key (st.queues s) = none ∧ dnLast m key (st.queues s) = true)

theorem noCtl_noDown {evs : List Ev} (h : noCtl evs) (p : Nat) : ∀ e ∈ evs, e ≠ .down p :=
  fun e he => (h e he p).2

/-- a batch of route events (or EndOfSnapshot) under a shard lock, `done` unchanged -/
theorem sv_route {st st' : St} {subs : List Nat} {evs : List Ev}
    (hq : st'.queues = send st.queues subs evs) (hn : noCtl evs)
    (hsub : st'.subscribers = st.subscribers) (hdone : st'.done = st.done)
    (hkey : ∀ key, staleKey st' key →
      (staleKey st key ∧ (∀ m, ribV m st' key = ribV m st key) ∧ ∀ m, ¬ touched m key evs) ∨
      ((∀ m acc, evs.foldl (stepView m key) acc = ribV m st' key) ∧
        ∀ s ∈ st.subscribers, s ∉ subs → ∀ m, ¬ touched m key (st.queues s) ∧ key.shard ∉ st.done s))
    (h : SV st) : SV st' := by
  intro s hs m key hst hpre
  rw [hsub] at hs
  rw [hq] at hpre ⊢
  rw [hdone] at hpre
  by_cases hin : s ∈ subs
  · rw [send_in hin] at hpre ⊢
    rcases hkey key hst with ⟨h1, h2, h3⟩ | ⟨h1, _⟩
    · rw [view_append, dnLast_append, foldl_untouched m key evs _ (h3 m) (fun e he p hp => absurd hp (hn e he p).2),
        dn_untouched m key evs _ (h3 m) (noCtl_noDown hn _), h2 m]
      apply h s hs m key h1
      rcases hpre with hpre | hpre
      · rw [touched_append] at hpre
        exact Or.inl (hpre.resolve_right (h3 m))
      · exact Or.inr hpre
    · left; rw [view_append]; exact h1 m _
  · rw [send_out hin] at hpre ⊢
    rcases hkey key hst with ⟨h1, h2, _⟩ | ⟨_, h2⟩
    · rw [h2 m]; exact h s hs m key h1 hpre
    · have := h2 s hs hin m
      rcases hpre with hpre | hpre
      · exact absurd hpre this.1
      · exact absurd hpre this.2

/-- nothing is sent; the table / the stale marks may change -/
theorem sv_quiet {st st' : St} (hq : st'.queues = st.queues) (hdone : st'.done = st.done)
    (hsub : ∀ s ∈ st'.subscribers, s ∈ st.subscribers ∨ (st.queues s = [] ∧ st.done s = []))
    (hkey : ∀ key, staleKey st' key →
      (staleKey st key ∧ ∀ m, ribV m st' key = ribV m st key) ∨
      (∀ s ∈ st.subscribers, ∀ m, (touched m key (st.queues s) ∨ key.shard ∈ st.done s) →
        view m key (st.queues s) = ribV m st' key ∨
          (view m key (st.queues s) = none ∧ dnLast m key (st.queues s) = true)))
    (h : SV st) : SV st' := by
  intro s hs m key hst hpre
  rw [hq] at hpre ⊢
  rw [hdone] at hpre
  rcases hsub s hs with hs' | ⟨h1, h2⟩
  · rcases hkey key hst with ⟨h1, h2⟩ | h1
    · rw [h2 m]; exact h s hs' m key h1 hpre
    · exact h1 s hs' m hpre
  · rw [h1, h2] at hpre
    rcases hpre with hpre | hpre
    · exact absurd hpre (touched_nil m key)
    · cases hpre

/-- `peer_up` / `peer_down` -/
theorem sv_ctl {st st' : St} {e : Ev} (he : (∃ p, e = .up p) ∨ (∃ p, e = .down p))
    (hq : st'.queues = send st.queues st.subscribers [e]) (hsub : st'.subscribers = st.subscribers)
    (hdone : st'.done = st.done) (hrib : st'.rib = st.rib) (hsg : st'.staleGens = st.staleGens)
    (h : SV st) : SV st' := by
  intro s hs m key hst hpre
  rw [hsub] at hs
  have hst0 : staleKey st key := by
    obtain ⟨x, hx, hg⟩ := hst
    exact ⟨x, hrib ▸ hx, hsg ▸ hg⟩
  have hrv : ribV m st' key = ribV m st key := by simp [ribV, preOf, postOf, hrib]
  have hnt : ¬ touched m key [e] := by
    intro ⟨e', he', v, hv⟩
    simp only [List.mem_singleton] at he'; subst he'
    rcases he with ⟨p, rfl⟩ | ⟨p, rfl⟩ <;> cases m <;> simp [proj] at hv
  rw [hq, send_in hs] at hpre ⊢
  rw [hdone] at hpre
  have hpre0 : touched m key (st.queues s) ∨ key.shard ∈ st.done s := by
    rcases hpre with hpre | hpre
    · rw [touched_append] at hpre; exact Or.inl (hpre.resolve_right hnt)
    · exact Or.inr hpre
  rw [view_append, dnLast_append, hrv]
  simp only [List.foldl_cons, List.foldl_nil]
  by_cases hd : e = .down key.peer
  · subst hd
    right
    exact ⟨stepView_down_self m key _, by cases m <;> simp [dnStep, proj]⟩
  · have h1 : stepView m key (view m key (st.queues s)) e = view m key (st.queues s) :=
      stepView_miss (fun x hx => hnt ⟨e, List.mem_singleton.mpr rfl, x, hx⟩) hd
    have h2 : dnStep m key (dnLast m key (st.queues s)) e = dnLast m key (st.queues s) :=
      dn_untouched m key [e] _ hnt (fun e' he' => by rw [List.mem_singleton.mp he']; exact hd)
    rw [h1, h2]
    exact h s hs m key hst0 hpre0

theorem ribV_congr {st st' : St} {key : Key} (h : st'.rib key = st.rib key) (m : Bool) :
    ribV m st' key = ribV m st key := by simp [ribV, preOf, postOf, h]

theorem touched_snap_some {st : St} {k m key} (h : touched m key (snapEvents st k)) : ribV m st key ≠ none := by
  rw [snapEvents_eq, touched_append] at h
  rcases h with h | h
  · obtain ⟨hm, hk⟩ := touched_preBatch.mp h
    subst hm
    obtain ⟨e, he⟩ := Option.isSome_iff_exists.mp (mem_shardKeys.mp hk).2.2
    simp [ribV, preOf, he]
  · obtain ⟨hm, hk⟩ := touched_postBatch.mp h
    subst hm
    simp only [List.mem_filter] at hk
    obtain ⟨v, hv⟩ := Option.isSome_iff_exists.mp hk.2
    simp [ribV, hv]

/-- `purge_notifying`: what stays stale was not touched -/
theorem sv_purge {st : St} {me k : Nat} {t' : Thread} (gone : Entry → Bool) (h : SV st) :
    SV (purgeStep st me t' k gone) := by
  unfold purgeStep
  refine sv_route (st := st) (subs := t'.subs) (evs := wdBatch ((peerKeysIn st me k).filter fun key => match st.rib key with
    | some e => gone e
    | none => false)) rfl (wdBatch_noCtl _) rfl rfl ?_ h
  intro key hst
  left
  obtain ⟨e', he', hg⟩ := hst
  simp only at he'
  have hsame : (if key.peer = me ∧ key.shard = k then (st.rib key).bind fun e => if gone e = true then none else some e
      else st.rib key) = st.rib key ∧ ∃ e, st.rib key = some e ∧ ¬ (key.peer = me ∧ key.shard = k ∧ gone e = true) ∧ e = e' := by
    by_cases hc : key.peer = me ∧ key.shard = k
    · simp only [hc, and_self, if_true] at he' ⊢
      cases hr : st.rib key with
      | none => simp [hr] at he'
      | some e =>
        simp only [hr, Option.bind_some] at he' ⊢
        by_cases hgo : gone e = true
        · simp [hgo] at he'
        · simp only [hgo, Bool.false_eq_true, if_false, Option.some.injEq] at he' ⊢
          exact ⟨trivial, e, rfl, fun h => hgo h.2.2, he'⟩
    · simp only [hc, if_false] at he' ⊢
      exact ⟨trivial, e', he', fun h => hc ⟨h.1, h.2.1⟩, rfl⟩
  obtain ⟨h1, e, he, hng, rfl⟩ := hsame
  refine ⟨⟨e, he, hg⟩, fun m => ribV_congr h1 m, ?_⟩
  intro m ht
  have := touched_wdBatch.mp ht
  simp only [List.mem_filter, mem_peerKeysIn] at this
  obtain ⟨⟨_, hp, hk, _⟩, hgo⟩ := this
  simp only [he] at hgo
  exact hng ⟨hp, hk, hgo⟩

theorem step_sv {st st' : St} {me : Nat} {ins : Instr} {rest : List Instr} (hI : Inv st) (h : SV st)
    (hp : (st.threads me).pgm = ins :: rest) (hs : step me st = some st') : SV st' := by
  have hw := hI.wf me
  unfold TWF at hw; rw [hp] at hw
  have quiet : ∀ (st1 : St), st1.queues = st.queues → st1.done = st.done → st1.subscribers = st.subscribers →
      st1.rib = st.rib → st1.staleGens = st.staleGens → SV st1 := by
    intro st1 h1 h2 h3 h4 h5
    refine sv_quiet h1 h2 (fun s hs => Or.inl (h3 ▸ hs)) ?_ h
    intro key ⟨e, he, hg⟩
    exact Or.inl ⟨⟨e, h4 ▸ he, h5 ▸ hg⟩, fun m => ribV_congr (by rw [h4]) m⟩
  cases ins <;> simp only [step, hp] at hs
  case yld y => injection hs with hs; subst hs; cases y <;> exact quiet _ rfl rfl rfl rfl rfl
  case acquire k =>
    split at hs
    · injection hs with hs; subst hs; exact quiet _ rfl rfl rfl rfl rfl
    · cases hs
  case commitIns key a =>
    simp only [wfp, Bool.and_eq_true, decide_eq_true_eq, Option.isNone_iff_eq_none] at hw
    obtain ⟨⟨⟨⟨⟨hheld, hfresh⟩, _⟩, _⟩, _⟩, _⟩ := hw
    split at hs
    · injection hs with hs; subst hs; exact quiet _ rfl rfl rfl rfl rfl
    · injection hs with hs; subst hs
      refine sv_route (st := st) (subs := (st.threads me).subs) rfl ?_ rfl rfl ?_ h
      · intro e he p; simp at he; rcases he with rfl | rfl <;> simp
      · intro key' hst
        by_cases hk : key' = key
        · right
          subst hk
          refine ⟨?_, ?_⟩
          · intro m acc
            rw [view_insEvs]
            cases m <;> simp [ribV, preOf, postOf, updRib]
          · intro s hs hns m
            have := hI.blind me s _ hheld hfresh hs hns
            exact ⟨this.2 m key' rfl, this.1⟩
        · left
          obtain ⟨e, he, hg⟩ := hst
          have hr : updRib st.rib key (some ⟨encVal a, applyImport (st.threads me).pol (encVal a), (st.threads me).gen⟩) key' = st.rib key' := by
            simp [updRib, hk]
          exact ⟨⟨e, hr ▸ he, hg⟩, fun m => ribV_congr hr m, fun m ht => hk (touched_insEvs ht)⟩
  case commitRem key =>
    have hn : noCtl [Ev.pre key none, Ev.post key none] := by
      intro e he p; simp at he; rcases he with rfl | rfl <;> simp
    split at hs
    · injection hs with hs; subst hs
      refine sv_route (st := st) (subs := (st.threads me).subs) rfl hn rfl rfl ?_ h
      intro key' hst
      left
      obtain ⟨e, he, hg⟩ := hst
      by_cases hk : key' = key
      · simp [updRib, hk] at he
      · have hr : updRib st.rib key none key' = st.rib key' := by simp [updRib, hk]
        exact ⟨⟨e, hr ▸ he, hg⟩, fun m => ribV_congr hr m, fun m ht => hk (touched_remEvs ht)⟩
    · rename_i hnone
      injection hs with hs; subst hs
      refine sv_route (st := st) (subs := (st.threads me).subs) rfl hn rfl rfl ?_ h
      intro key' hst
      left
      refine ⟨hst, fun m => rfl, fun m ht => ?_⟩
      have hk := touched_remEvs ht
      obtain ⟨e, he, _⟩ := hst
      rw [hk] at he
      simp only at he
      rw [he] at hnone
      simp at hnone
  case commitSr k p =>
    injection hs with hs; subst hs
    refine sv_route (st := st) (subs := (st.threads me).subs) rfl ?_ rfl rfl ?_ h
    · intro e he q; simp at he; obtain ⟨key, _, rfl⟩ := he; simp
    · intro key' hst
      left
      obtain ⟨e', he', hg⟩ := hst
      simp only at he'
      -- a stale entry is left alone by the soft reset
      have hold : ∃ e, st.rib key' = some e ∧ (key'.peer, e.gen) ∈ st.staleGens ∧
          (if key'.peer = p ∧ key'.shard = k then
            (st.rib key').map fun e => if isStale st p e = true then e else { e with post := applyImport (st.threads me).pol e.pre }
           else st.rib key') = st.rib key' := by
        by_cases hc : key'.peer = p ∧ key'.shard = k
        · simp only [hc, and_self, if_true] at he' ⊢
          cases hr : st.rib key' with
          | none => simp [hr] at he'
          | some e =>
            simp only [hr, Option.map_some, Option.some.injEq] at he' ⊢
            have hge : e'.gen = e.gen := by rw [← he']; split <;> rfl
            have hst0 : (key'.peer, e.gen) ∈ st.staleGens := hge ▸ hg
            have his : isStale st p e = true := by simp [isStale, ← hc.1, hst0]
            exact ⟨e, rfl, by rw [← hc.1]; exact hst0, by simp [his]⟩
        · simp only [hc, if_false] at he' ⊢
          exact ⟨e', he', hg, trivial⟩
      obtain ⟨e, he, hg0, hr⟩ := hold
      refine ⟨⟨e, he, hg0⟩, fun m => ribV_congr hr m, ?_⟩
      intro m ht
      have ht' : touched m key' (postBatch (freshKeysIn st p k) fun key => (st.rib key).bind fun e => applyImport (st.threads me).pol e.pre) := ht
      obtain ⟨_, hin⟩ := touched_postBatch.mp ht'
      obtain ⟨_, hpp, _, e2, he2, hns⟩ := mem_freshKeysIn.mp hin
      rw [he] at he2; injection he2 with he2; subst he2
      simp [isStale, ← hpp, hg0] at hns
  case commitDrop k =>
    injection hs with hs; subst hs
    refine sv_quiet (st := st) rfl rfl (fun s hs => Or.inl hs) ?_ h
    intro key ⟨e, he, hg⟩
    simp only at he
    by_cases hc : key.peer = me ∧ key.shard = k
    · simp [hc] at he
    · simp only [hc, if_false] at he
      exact Or.inl ⟨⟨e, he, hg⟩, fun m => ribV_congr (by simp [hc]) m⟩
  case commitStale k =>
    injection hs with hs; subst hs
    refine sv_quiet (st := st) rfl rfl (fun s hs => Or.inl hs) ?_ h
    intro key ⟨e, he, hg⟩
    simp only [List.mem_append] at hg
    rcases hg with hg | hg
    · exact Or.inl ⟨⟨e, he, hg⟩, fun m => rfl⟩
    · right
      intro s hs m hpre
      have hrv : ∀ m, ribV m { st with staleGens := st.staleGens ++ gensIn st me k, addpath := st.addpath.filter (· != (k, me)), threads := updT st.threads me { (st.threads me) with pgm := rest, drop := some (k :: (st.threads me).drop.getD []) } } key = ribV m st key := fun m => rfl
      rcases hI.viewI s hs m key hpre with h' | h' | h'
      · exact Or.inl h'
      · rcases hI.dropped key h' with h'' | h''
        · simp only at he; rw [he] at h''; cases h''
        · exact h s hs m key h'' hpre
      · exact h s hs m key h' hpre
  case commitDropQuiet k => injection hs with hs; subst hs; exact sv_purge _ h
  case commitPurge k => injection hs with hs; subst hs; exact sv_purge _ h
  case commitLpurge k => injection hs with hs; subst hs; exact sv_purge _ h
  case sendUp =>
    injection hs with hs; subst hs
    exact sv_ctl (st := st) (Or.inl ⟨me, rfl⟩) rfl rfl rfl rfl rfl h
  case sendDown =>
    injection hs with hs; subst hs
    exact sv_ctl (st := st) (Or.inr ⟨me, rfl⟩) rfl rfl rfl rfl rfl h
  case sendDownGr =>
    injection hs with hs; subst hs
    exact sv_ctl (st := st) (Or.inr ⟨me, rfl⟩) rfl rfl rfl rfl rfl h
  case register w k =>
    injection hs with hs; subst hs
    refine sv_quiet (st := st) rfl rfl ?_ ?_ h
    · intro s hs
      simp only [List.mem_append, List.mem_singleton] at hs
      rcases hs with hs | hs
      · exact Or.inl hs
      · exact Or.inr (hI.idsQ s (by omega))
    · intro key hst; exact Or.inl ⟨hst, fun m => rfl⟩
  case snap k =>
    simp only [wfp, Bool.and_eq_true, decide_eq_true_eq] at hw
    split at hs
    · rename_i s0 l hsn
      injection hs with hs; subst hs
      intro s hs m key hst hpre
      have hst0 : staleKey st key := hst
      show view m key (send st.queues [s0] (snapEvents st k) s) = ribV m st key ∨
        (view m key (send st.queues [s0] (snapEvents st k) s) = none ∧
          dnLast m key (send st.queues [s0] (snapEvents st k) s) = true)
      have hpre' : touched m key (send st.queues [s0] (snapEvents st k) s) ∨
          key.shard ∈ (if s = s0 then k :: st.done s else st.done s) := hpre
      by_cases hs0 : s = s0
      · subst hs0
        have hin : s ∈ [s] := by simp
        rw [send_in hin] at hpre' ⊢
        simp only [↓reduceIte] at hpre'
        by_cases hk : key.shard = k
        · rw [view_append, snap_fold hI hk]
          cases hrv : ribV m st key with
          | some v => left; rfl
          | none =>
            simp only
            have hnt : ¬ touched m key (snapEvents st k) := fun ht => touched_snap_some ht hrv
            rw [dnLast_append, dn_untouched m key _ _ hnt (fun e he => snap_no_down st k e he _)]
            by_cases hold : touched m key (st.queues s) ∨ key.shard ∈ st.done s
            · have := h s hs m key hst0 hold
              rw [hrv] at this; exact this
            · left; exact view_untouched m key _ (fun ht => hold (Or.inl ht))
        · have hnt : ¬ touched m key (snapEvents st k) := fun ht => hk (touched_snap ht)
          rw [view_append, dnLast_append, foldl_untouched m key _ _ hnt (fun e he p hp => absurd hp (snap_no_down st k e he p)),
            dn_untouched m key _ _ hnt (fun e he => snap_no_down st k e he _)]
          apply h s hs m key hst0
          rcases hpre' with hpre' | hpre'
          · rw [touched_append] at hpre'; exact Or.inl (hpre'.resolve_right hnt)
          · simp only [List.mem_cons] at hpre'
            rcases hpre' with hpre' | hpre'
            · exact absurd hpre' hk
            · exact Or.inr hpre'
      · have hout : s ∉ [s0] := by simp [hs0]
        rw [send_out hout] at hpre' ⊢
        simp only [hs0, if_false] at hpre'
        exact h s hs m key hst0 hpre'
    · injection hs with hs; subst hs; exact quiet _ rfl rfl rfl rfl rfl
  case sentinel =>
    split at hs
    · injection hs with hs; subst hs
      refine sv_route (st := st) rfl ?_ rfl rfl ?_ h
      · intro e he q; simp at he; subst he; simp
      · intro key hst
        left
        refine ⟨hst, fun m => rfl, fun m ht => ?_⟩
        obtain ⟨e, he, v, hv⟩ := ht
        simp only [List.mem_singleton] at he; subst he
        cases m <;> simp [proj] at hv
    · injection hs with hs; subst hs; exact quiet _ rfl rfl rfl rfl rfl
  case unsubscribe =>
    split at hs
    · injection hs with hs; subst hs
      refine sv_quiet (st := st) rfl rfl (fun s hs => Or.inl (List.mem_filter.mp hs).1) ?_ h
      intro key hst; exact Or.inl ⟨hst, fun m => rfl⟩
    · injection hs with hs; subst hs; exact quiet _ rfl rfl rfl rfl rfl
  all_goals (injection hs with hs; subst hs; exact quiet _ rfl rfl rfl rfl rfl)

theorem reach_sv {c : Case} (hc : caseOk c = true) {st : St} (h : Reach c st) : SV st := by
  induction h with
  | init => intro s hs; simp [init] at hs
  | @step st st' i hr hs ih =>
    cases hp : (st.threads i).pgm with
    | nil => simp [step, hp] at hs
    | cons ins rest => exact step_sv (reach_inv hc hr) ih hp hs

theorem checkKeys_map2 {cl : Key → String → String}
    {fc : List Item × List Item → Option Nat × Option Nat → Option String}
    {esc : Key → List Item × List Item → Option Nat × Option Nat → Bool}
    (f : Key → List Item × List Item) (g : Key → Option Nat × Option Nat) (sf : Key → Bool) :
    ∀ (u : List Key) (pos : Nat),
    (∀ key ∈ u, (sf key = true ∧ esc key (f key) (g key) = true) ∨ (sf key = false ∧ fc (f key) (g key) = none)) →
    Spec.checkKeys cl fc esc pos u (u.map f) (u.map g) (u.map sf) = none := by
  intro u
  induction u with
  | nil => intro _ _; rfl
  | cons k r ih =>
    intro pos h
    have hk : (if (sf k && esc k (f k) (g k)) = true then none else fc (f k) (g k)) = none := by
      rcases h k (by simp) with ⟨h1, h2⟩ | ⟨h1, h2⟩
      · simp [h1, h2]
      · simp [h1, h2]
    simp only [List.map_cons, Spec.checkKeys, hk]
    exact ih _ (fun key hk => h key (by simp [hk]))

/-- a retained key and a channel subscriber that was told about it or snapshotted its shard: its
    own history excuses it (holds what the table holds, or PeerDown was the last word) -/
theorem chan_stale_ok {st : St} (hSV : SV st) {s : Nat} (hs : s ∈ st.subscribers) (m : Bool) (key : Key)
    (hst : staleKey st key) (hpre : touched m key (st.queues s) ∨ key.shard ∈ st.done s) :
    staleOk false (if m then histPost key (st.queues s) else histPre key (st.queues s)) (ribV m st key) = true := by
  have hh : held (if m then histPost key (st.queues s) else histPre key (st.queues s)) = view m key (st.queues s) := by
    cases m
    · simp only [Bool.false_eq_true, if_false]; unfold held view; exact held_histPre key _ none
    · simp only [if_true]; unfold held view; exact held_histPost key _ none
  have hl : lastDn (if m then histPost key (st.queues s) else histPre key (st.queues s)) = dnLast m key (st.queues s) := by
    have := lastDn_hist m key (st.queues s) []
    simpa [lastDn, dnLast] using this
  unfold staleOk
  rw [hh, hl]
  rcases hSV s hs m key hst hpre with h | ⟨h1, h2⟩
  · simp [h]
  · simp [h1, h2]

/-- one channel subscription of the finished run passes the (tightened) checker — GR retention
    included -/
theorem checkSub_chan_ret (c : Case) (hc : caseOk c = true) (i nth : Nat) (r : SubRec)
    (hr' : r ∈ ((run c).threads i).mysubs) (hb : r.kind = 0) :
    Spec.checkSub c (keyUniverse c) ((keyUniverse c).map fun key => (preOf (run c) key, postOf (run c) key))
      ((keyUniverse c).map fun key => match (run c).rib key with
        | some e => isStale (run c) key.peer e
        | none => false)
      (subObs (run c) (keyUniverse c) i nth r) = none := by
  have hr := run_reach c
  have hI := reach_inv hc hr
  have hSV := reach_sv hc hr
  have hfin := run_finished c hc
  have hq := finished_quiescent hI hfin
  unfold Spec.checkSub
  simp only [subObs, hb]
  simp only [show ((0 : Nat) == 1) = false from rfl, show ((0 : Nat) == 2) = false from rfl,
    show ((0 : Nat) == 3) = false from rfl, show ((0 : Nat) == 4) = false from rfl, Bool.or_self,
    Bool.false_eq_true, if_false]
  have hfw : Spec.downsFollowUps (forward (if r.want = true then afterEos ((run c).queues r.sid) else (run c).queues r.sid) []) [] = true :=
    forward_ok _ _ _ (by simp)
  rw [hfw]
  simp only [Bool.not_true, Bool.false_eq_true, if_false]
  by_cases hlive : r.sid ∈ (run c).subscribers
  · simp only [hlive, decide_true, Bool.not_true, Bool.false_eq_true, if_false]
    cases hwant : r.want with
    | true =>
      have hcomp : r.sid ∈ (run c).complete := by
        rcases hI.recs i r hr' hwant with h | ⟨l, hl⟩
        · exact h
        · rw [(quiescent_thread hI hq i).2.2] at hl; cases hl
      have heos : (ctlOf ((run c).queues r.sid)).contains Ev.eos = true := by
        simpa using eos_mem_ctlOf _ (hI.eosI _ hcomp)
      simp only [heos, Bool.not_true, Bool.and_false, Bool.false_eq_true, if_false]
      apply checkKeys_map2
      intro key _
      by_cases hst : staleKey (run c) key
      · left
        refine ⟨stale_flag key hst, ?_⟩
        obtain ⟨e, he, _⟩ := hst
        have hdone : key.shard ∈ (run c).done r.sid := hI.comp _ hcomp _ (hI.sup key e he).2
        have h1 := chan_stale_ok hSV hlive false key ⟨e, he, ‹_›⟩ (Or.inr hdone)
        have h2 := chan_stale_ok hSV hlive true key ⟨e, he, ‹_›⟩ (Or.inr hdone)
        simp only [Bool.false_eq_true, if_false, if_true, ribV] at h1 h2
        simp [Spec.escKey, h1, h2]
      right
      refine ⟨stale_flag_false key hst, ?_⟩
      unfold Spec.checkKey
      have h1 := reconstruct hI hq hlive hcomp false key hst
      have h2 := reconstruct hI hq hlive hcomp true key hst
      simp only [if_true]
      have e1 : Spec.held (histPre key ((run c).queues r.sid)) = preOf (run c) key := by
        unfold Spec.held; rw [held_histPre]; exact h1
      have e2 : Spec.held (histPost key ((run c).queues r.sid)) = postOf (run c) key := by
        unfold Spec.held; rw [held_histPost]; exact h2
      simp only [e1, e2, cmp_self]
    | false =>
      simp only [Bool.false_and, Bool.false_eq_true, if_false]
      apply checkKeys_map2
      intro key _
      by_cases hst : staleKey (run c) key
      · left
        refine ⟨stale_flag key hst, ?_⟩
        have a1 : staleOk false (histPre key ((run c).queues r.sid)) (preOf (run c) key) = true ∨
            Spec.touched (histPre key ((run c).queues r.sid)) = false := by
          cases ht : Spec.touched (histPre key ((run c).queues r.sid)) with
          | false => exact Or.inr rfl
          | true =>
            have := chan_stale_ok hSV hlive false key hst (Or.inl (touched_histPre key _ ht))
            simp only [Bool.false_eq_true, if_false, ribV] at this
            exact Or.inl this
        have a2 : staleOk false (histPost key ((run c).queues r.sid)) (postOf (run c) key) = true ∨
            Spec.touched (histPost key ((run c).queues r.sid)) = false := by
          cases ht : Spec.touched (histPost key ((run c).queues r.sid)) with
          | false => exact Or.inr rfl
          | true =>
            have := chan_stale_ok hSV hlive true key hst (Or.inl (touched_histPost key _ ht))
            simp only [if_true, ribV] at this
            exact Or.inl this
        rcases a1 with a1 | a1 <;> rcases a2 with a2 | a2 <;> simp [Spec.escKey, a1, a2]
      right
      refine ⟨stale_flag_false key hst, ?_⟩
      unfold Spec.checkKey
      simp only [Bool.false_eq_true, if_false]
      have e1 : (if Spec.touched (histPre key ((run c).queues r.sid)) = true then
          Spec.cmp "nosnap-pre" (Spec.held (histPre key ((run c).queues r.sid))) (preOf (run c) key) else none) = none := by
        split
        · rename_i ht
          have := last_current hI hq hlive false key (touched_histPre key _ ht) hst
          have e : Spec.held (histPre key ((run c).queues r.sid)) = preOf (run c) key := by
            unfold Spec.held; rw [held_histPre]; exact this
          rw [e, cmp_self]
        · rfl
      have e2 : (if Spec.touched (histPost key ((run c).queues r.sid)) = true then
          Spec.cmp "nosnap-post" (Spec.held (histPost key ((run c).queues r.sid))) (postOf (run c) key) else none) = none := by
        split
        · rename_i ht
          have := last_current hI hq hlive true key (touched_histPost key _ ht) hst
          have e : Spec.held (histPost key ((run c).queues r.sid)) = postOf (run c) key := by
            unfold Spec.held; rw [held_histPost]; exact this
          rw [e, cmp_self]
        · rfl
      simp only [e1, e2]
  · simp only [hlive, decide_false, Bool.not_false, if_true]

/-- THE MASTER THEOREM for channel subscribers, GR retention included: every case without consumer
    tasks — any operations (GR-retaining session ends and the purges included), any schedule. -/
theorem check_run_ok_chan (c : Case) (hc : caseOk c = true) (hb : noBmp c = true) :
    Spec.check c (observe c (run c)) = .ok := by
  have hfin := run_finished c hc
  have hnb := (reach_NB hb (run_reach c)).2
  unfold Spec.check
  simp only [observe, hfin, Bool.not_true, Bool.false_eq_true, if_false, bne_self_eq_false]
  apply checkSubs_ok
  intro so hso
  simp only [List.mem_flatMap, List.mem_range, List.mem_map] at hso
  obtain ⟨i, _, ⟨p, hp, rfl⟩⟩ := hso
  obtain ⟨nth, r⟩ := p
  have hr' : r ∈ ((run c).threads i).mysubs := mem_enumFrom' _ _ _ hp
  exact checkSub_chan_ret c hc i nth r hr' (hnb i r hr')

/-- … and with consumer tasks in the case: every channel subscription passes whatever the case;
    the consumer connections pass when no session ends with GR retention -/
theorem check_run_ok_partial2 (c : Case) (hc : caseOk c = true) (h : noRetention c = true ∨ noBmp c = true) :
    Spec.check c (observe c (run c)) = .ok := by
  rcases h with h | h
  · exact check_run_ok_full_partial c hc h
  · exact check_run_ok_chan c hc h

end Rbgp.Monitor
