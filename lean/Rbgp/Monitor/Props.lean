/-
  Rbgp.Monitor.Props — C18, the readable statements.

  Everything here is about the MODEL (`Rbgp.Monitor.Model`): a transition system whose atomic
  steps are the critical sections and lock-free loads/stores of daemon/src/table_manager.rs in
  program order.  `Reach c st` = `st` is reachable from the initial state of case `c` by ANY
  interleaving of atomic steps of its threads (any number of shards, writer sessions and
  subscribers; the only constraint is mutex exclusion).  `view m key q` is what a subscriber
  holds for (pre-policy map if `m = false`, post-policy map if `m = true`; `key` = peer, prefix,
  path-id) after applying the queue `q` in order: a reach sets the entry, a withdrawal removes it,
  a PeerDown removes every entry of that peer.  `ribV m st key` is what `iter_reach` /
  `iter_reach_post` yield for that key.

  Scope of the master theorem `C18_full_holds_partial`: every case of the case language, except BMP
  connections / watch streams in cases with a GR-retaining session end (see the theorem for the exact
  gap and finding S28h) — insert / remove /
  soft reset IN (from any thread) / import-policy change / session up with `register_peer` /
  non-retaining session down / GR-retaining session down / the bulk purges (`drop_stale_families`,
  `drop_families`, `mark_llgr_stale`, `drop_llgr_stale_families`; repaired: they withdraw what they
  remove, S28b) / subscribe / unsubscribe / a BMP connection (`BmpClient::serve`: drain to
  EndOfSnapshot, flush, forward) / an MRT updates dump (`MrtDumper`) / a gRPC `watch_event` stream.
  The consumer tasks are transition systems over the events they receive (`consStep` / `consRun`
  in the model, `cvStep` per (map, key) in `Rbgp.Monitor.Consumer`).  For a key the table holds as a
  GR-retained (stale) route of an ended session a subscriber may hold nothing only if its own history
  justifies it (the PeerDown of the key's peer was the last thing it was told about the key; DESIGN §4.0,
  retention itself is C10's subject), otherwise it must hold what the table holds; the route clauses of a BMP connection /
  watch stream are judged (by the checker) only when every session announces routes between its up
  and its down (`sessionsOk`), the MRT clause only for peers that never end a session.

  The proofs are corollaries of `Rbgp.Monitor.Proofs` (the invariant `Inv` is preserved by every
  atomic step: `step_inv`), `Rbgp.Monitor.ProofsRun`, `Rbgp.Monitor.Consumer` (pure lemmas about
  the consumer state machines, for every input stream), `Rbgp.Monitor.ConsumerRun` (the consumer
  invariants `CInv` are preserved by every atomic step) and `Rbgp.Monitor.ConsumerMaster`.
-/
import Rbgp.Monitor.Retained
namespace Rbgp.Monitor.Props
open Rbgp.Monitor

/-! ## 0. The reference checker accepts every model schedule -/

/-- only shard indices that exist (what the case parser guarantees) -/
def shardsOk (c : Case) : Bool := c.threads.all fun t => t.2.all fun o => match o with
  | .ins k _ _ _ => decide (k < c.n) | .rem k _ _ => decide (k < c.n) | _ => true

/-- The full-strength statement: the reference checker accepts every run of every case, the
    consumer tasks (BMP connection, MRT dump, watch stream) included. -/
def C18_full : Prop := ∀ c : Case, shardsOk c = true → Spec.check c (observe c (run c)) = .ok

/-- THE MASTER THEOREM (partial since the checker was tightened, review r-7 item 2): the reference
    checker accepts the observation of the model's run for
    * every case without consumer tasks (`noBmp`): channel subscribers under ANY operations — the
      GR-retaining session end and the purges included — any schedule string, either granularity
      (for a retained key the subscriber holds what the table holds, or nothing with the PeerDown
      of the key's peer as the last thing it was told about the key: invariant `SV`, every
      reachable state); and
    * every case in which no session ends with GR retention (`noRetention`: no `gdown`): any number
      of channel subscribers, BMP connections, MRT dumps and watch streams, any other operations.

    What is missing for `C18_full`: BMP connections / watch streams in cases WITH GR retention.
    There the statement is FALSE (`C18_full_fails`, finding S28h: a connection opened during
    retention never learns the retained routes of a peer that re-establishes); the other shapes of
    such cases are unproved for these two consumer kinds (oracle-backed only).  Channel
    subscriptions and MRT dumps pass in EVERY case (`channel_subscription_ok`, `mrt_dump_ok`). -/
theorem C18_full_holds_partial (c : Case) (h : shardsOk c = true) (hnr : noRetention c = true ∨ noBmp c = true) :
    Spec.check c (observe c (run c)) = .ok := by
  apply check_run_ok_partial2 _ _ hnr
  unfold shardsOk at h
  unfold caseOk
  rw [← h]
  congr 1

/-- every channel subscription of every case passes the checker (GR retention, consumer tasks
    next to it: whatever) -/
theorem channel_subscription_ok (c : Case) (hc : caseOk c = true) (i nth : Nat) (r : SubRec)
    (hr : r ∈ ((run c).threads i).mysubs) (hk : r.kind = 0) :
    Spec.checkSub c (keyUniverse c) ((keyUniverse c).map fun key => (preOf (run c) key, postOf (run c) key))
      ((keyUniverse c).map fun key => match (run c).rib key with
        | some e => isStale (run c) key.peer e
        | none => false)
      (subObs (run c) (keyUniverse c) i nth r) = none := checkSub_chan_ret c hc i nth r hr hk

/-- every MRT updates dump of every case passes the checker -/
theorem mrt_dump_ok (c : Case) (hc : caseOk c = true) (i nth : Nat) (r : SubRec)
    (hr : r ∈ ((run c).threads i).mysubs) (hk : r.kind = 2) :
    Spec.checkSub c (keyUniverse c) ((keyUniverse c).map fun key => (preOf (run c) key, postOf (run c) key))
      ((keyUniverse c).map fun key => match (run c).rib key with
        | some e => isStale (run c) key.peer e
        | none => false)
      (subObs (run c) (keyUniverse c) i nth r) = none := checkSub_mrt c hc i nth r hr hk

/-- The invariant behind the channel part: in every state reachable by any interleaving, for a key
    the table holds as a GR-retained route, a live subscriber that was told about the key or has
    snapshotted its shard holds what the table holds, or holds nothing and the PeerDown of the key's
    peer is the last thing it was told about the key. -/
theorem retained_key_invariant (c : Case) (hc : caseOk c = true) (st : St) (h : Reach c st) : SV st :=
  reach_sv hc h

/-- A connection opened while a peer's routes are GR-retained, the peer re-established afterwards:
    the BMP station is told PeerUp but never the retained route the table still holds. -/
def retainedLateWitness : Case :=
  { n := 1, gran := 0, limit := 0
    threads := [(true, [.up, .ins 0 0 0 5, .gdown, .up]), (false, [.bmp])]
    sched := [0, 0, 0, 0, 0, 1, 1, 0, 0] }

example : Spec.check retainedLateWitness (observe retainedLateWitness (run retainedLateWitness)) =
    .fail 0 0 "purge-retained-bmp-pre-missing" := by decide

/-- the full statement does not hold (finding S28h) -/
theorem C18_full_fails : ¬ C18_full := by
  intro h
  have := h retainedLateWitness (by decide)
  revert this
  decide

/-- the same moment for a channel subscriber: the retained route is in its snapshot -/
def retainedLateChan : Case :=
  { n := 1, gran := 0, limit := 0
    threads := [(true, [.up, .ins 0 0 0 5, .gdown, .up]), (false, [.sub true])]
    sched := [0, 0, 0, 0, 0, 1, 1, 0, 0] }

example : (observe retainedLateChan (run retainedLateChan)).stale = [true] ∧
    view false ⟨0, 0, 0, 0⟩ ((run retainedLateChan).queues 0) = some 10005 ∧
    Spec.check retainedLateChan (observe retainedLateChan (run retainedLateChan)) = .ok := by decide

/-- every case without consumer tasks (channel subscribers; GR retention included) -/
theorem check_run_ok (c : Case) (hc : caseOk c = true) (hb : noBmp c = true) :
    Spec.check c (observe c (run c)) = .ok :=
  check_run_ok_chan c hc hb

/-- The case that refuted the property before the purges were repaired (S28b): a session ends with
    GR negotiated (PeerDown is sent, the routes are retained as stale), a subscriber then subscribes
    and gets the stale route in its snapshot, `drop_stale_families` purges it.  The subscriber now
    receives the withdrawal: it holds nothing, like the table. -/
def purgeWitness : Case :=
  { n := 1, gran := 0, limit := 0
    threads := [(true, [.up, .ins 0 0 0 5, .gdown, .purge]), (false, [.sub true])]
    sched := [0, 0, 0, 0, 0, 1, 1] }

example : caseOk purgeWitness = true ∧ noBmp purgeWitness = true := by decide

example : Spec.check purgeWitness (observe purgeWitness (run purgeWitness)) = .ok := by decide

example : histPre ⟨0, 0, 0, 0⟩ ((run purgeWitness).queues 0) = [.val 10005, .wd] ∧
    (run purgeWitness).rib ⟨0, 0, 0, 0⟩ = none := by decide

/-- while the route is only retained (no purge yet) the table holds it as stale and the key is not
    judged: the subscriber that saw the PeerDown holds nothing -/
def retainWitness : Case :=
  { n := 1, gran := 0, limit := 0
    threads := [(true, [.up, .ins 0 0 0 5, .gdown]), (false, [.sub true])]
    sched := [1, 1, 0, 0, 0, 0, 0] }

example : (observe retainWitness (run retainWitness)).stale = [true] ∧
    view false ⟨0, 0, 0, 0⟩ ((run retainWitness).queues 0) = none ∧
    Spec.check retainWitness (observe retainWitness (run retainWitness)) = .ok := by decide

/-- instances of the full statement with consumer tasks (not covered by the theorem): a BMP
    connection, an MRT dump and a watch stream next to a purge -/
def consumerWitness : Case :=
  { n := 2, gran := 0, limit := 0
    threads := [(true, [.up, .ins 0 0 0 5, .ins 1 2 0 6, .gdown, .up, .purge]), (false, [.bmp]), (false, [.mrt, .watch true false])]
    sched := [0, 0, 0, 0, 0, 1, 1, 2, 2, 2, 0, 0, 1, 2, 0, 0, 0, 0] }

example : Spec.check consumerWitness (observe consumerWitness (run consumerWitness)) = .ok := by decide

/-- The invariant holds in every state reachable by any interleaving. -/
theorem reachable_inv (c : Case) (hc : caseOk c = true) (st : St) (h : Reach c st) : Inv st :=
  reach_inv hc h

/-- The deterministic scheduler only produces reachable states … -/
theorem run_reachable (c : Case) : Reach c (run c) := run_reach c

/-- … and always runs every thread to completion (no deadlock, the fuel suffices). -/
theorem run_finishes (c : Case) (hc : caseOk c = true) : finished (run c) = true := run_finished c hc

/-- Every compiled program respects the lock discipline the proof needs (route events and table
    mutations under the shard's lock, with the subscriber list loaded under that same lock; a
    teardown drops every shard before PeerDown; a snapshot walks every shard before the sentinel). -/
theorem compile_wf (n me : Nat) (ops : List Op) (h : ops.all (opOk n) = true) (f : Bool) :
    wfp n me (compileAll n me ops) none f none none = true :=
  Rbgp.Monitor.compile_wf n me ops h f

/-! ## 1. The per-shard snapshot invariant (every reachable state, every interleaving) -/

/-- For a registered subscriber `s` and a shard `k`:
    * after the snapshot step of `k`: for every key of the shard, `s` holds exactly what the table
      holds — unless the key's peer is being torn down and has already dropped this shard, in which
      case the PeerDown that clears it is still to come, or the table holds the key only as a
      GR-retained stale route;
    * before it: the queue holds nothing of that shard but the live events since registration — a
      key no event touched is not held, and a key some event touched is held as the table holds it. -/
theorem snapshot_invariant (c : Case) (hc : caseOk c = true) (st : St) (h : Reach c st)
    (s : Nat) (hs : s ∈ st.subscribers) (k : Nat) :
    (k ∈ st.done s → ∀ m key, key.shard = k →
        view m key (st.queues s) = ribV m st key ∨ droppedShard st key ∨ staleKey st key) ∧
    (k ∉ st.done s → ∀ m key, key.shard = k →
        (touched m key (st.queues s) →
          view m key (st.queues s) = ribV m st key ∨ droppedShard st key ∨ staleKey st key) ∧
        (¬ touched m key (st.queues s) → view m key (st.queues s) = none)) :=
  snapshot_inv (reach_inv hc h) hs k

/-! ## 2. Exact reconstruction once the writers have finished -/

/-- Whatever the interleaving and wherever in the history the subscription was made: once every
    thread has finished, a still-subscribed subscriber whose snapshot was completed holds, for
    EVERY (peer, prefix, path-id) the table does not hold as a GR-retained stale route (in particular
    for every key the table does not hold at all), exactly the pre-policy (`m = false`) and the post-policy
    (`m = true`) Adj-RIB-In of the table.  In particular no update is missing from both the
    snapshot and the live stream, and nothing the table no longer has is still held. -/
theorem reconstruct_exact (c : Case) (hc : caseOk c = true) (st : St) (h : Reach c st)
    (hq : quiescent st) (s : Nat) (hs : s ∈ st.subscribers) (hcomp : s ∈ st.complete)
    (m : Bool) (key : Key) (hns : ¬ staleKey st key) : view m key (st.queues s) = ribV m st key :=
  reconstruct (reach_inv hc h) hq hs hcomp m key hns

/-- Per (peer, prefix, path-id), the last event delivered is the current state — also for a
    subscriber that asked for no snapshot: every key it ever received a route event for is held
    exactly as the table holds it. -/
theorem last_event_is_current (c : Case) (hc : caseOk c = true) (st : St) (h : Reach c st)
    (hq : quiescent st) (s : Nat) (hs : s ∈ st.subscribers) (m : Bool) (key : Key)
    (ht : touched m key (st.queues s)) (hns : ¬ staleKey st key) : view m key (st.queues s) = ribV m st key :=
  last_current (reach_inv hc h) hq hs m key ht hns

/-! ## 3. The consumer side (bmp.rs) -/

/-- Peer-down is reported only for peers whose peer-up was reported: for ANY event stream and ANY
    set `sent` of peers already announced, in the stream forwarded by `send_peer_up` /
    `send_peer_down` (`track_peer_up` / `track_peer_down`) every PeerDown(p) follows a PeerUp(p)
    (or p ∈ sent) not yet answered. -/
theorem peerdown_after_peerup (evs : List Ev) (sent : List Nat) :
    Spec.downsFollowUps (forward evs sent) sent = true :=
  forward_ok evs sent sent (fun _ h => h)

/-- The snapshot phase of `BmpClient::serve` (`apply_snapshot` on route events, the peer's
    entries dropped on a PeerDown — the repaired behaviour) computes per key the same fold as
    `view`, up to `EndOfSnapshot`. -/
theorem apply_snapshot_is_fold (key : Key) (q : List Ev) :
    (drainSnapshot q ([], [])).1.get key = foldSnap false key q none ∧
    (drainSnapshot q ([], [])).2.get key = foldSnap true key q none := by
  simpa [SnapMap.get] using drain_get key q [] []

/-! ## Non-vacuity -/

/-- two shards, one session inserting into both (the second prefix is IPv6), a subscriber whose
    snapshot of shard 0 comes before and whose snapshot of shard 1 comes after the inserts, a
    soft reset requested by another thread; fine granularity -/
def exCase : Case :=
  { n := 2, gran := 1, limit := 0
    threads := [(true, [.up, .ins 0 0 0 5, .ins 1 2 0 6, .rem 0 0 0]), (false, [.sub true]), (true, [.sr 0])]
    sched := [1, 1, 1, 1, 0, 0, 0, 0, 0, 0, 0, 0, 0, 0, 0, 0, 0, 1, 1, 2] }

example : caseOk exCase = true ∧ noBmp exCase = true := by decide

/-- the hypotheses of `reconstruct_exact` are met by a run with a non-empty table: the subscriber
    (id 0) is live and complete, the table holds (peer 0, shard 1, prefix 2, path 0) ↦ 20006 and
    the subscriber holds it too -/
example : quiescent (run exCase) ∧ 0 ∈ (run exCase).subscribers ∧ 0 ∈ (run exCase).complete ∧
    ribV false (run exCase) ⟨0, 1, 2, 0⟩ = some 20006 ∧
    view false ⟨0, 1, 2, 0⟩ ((run exCase).queues 0) = some 20006 := by
  have hI := reach_inv (c := exCase) (by decide) (run_reach exCase)
  refine ⟨finished_quiescent hI (by decide), by decide, by decide, by decide, by decide⟩

/-- a state in the middle of a snapshot (shard 0 done, shard 1 not): both halves of
    `snapshot_invariant` have instances -/
def exMid : St := runSched 1 5 [1, 1, 1, 1, 1] (init exCase)

example : Reach exCase exMid ∧ 0 ∈ exMid.subscribers ∧ 0 ∈ exMid.done 0 ∧ 1 ∉ exMid.done 0 :=
  ⟨runSched_reach _ _ _ _ Reach.init, by decide, by decide, by decide⟩

/-- a subscriber that asked for no snapshot (`last_event_is_current` is not vacuous for it):
    it holds the route announced after it subscribed and nothing of the one announced before -/
def exNoSnap : Case :=
  { n := 1, gran := 0, limit := 0
    threads := [(true, [.up, .ins 0 0 0 1, .ins 0 1 0 2]), (false, [.sub false])]
    sched := [0, 0, 0, 1, 1] }

example : 0 ∈ (run exNoSnap).subscribers ∧ 0 ∉ (run exNoSnap).complete ∧
    touched false ⟨0, 0, 1, 0⟩ ((run exNoSnap).queues 0) ∧
    view false ⟨0, 0, 1, 0⟩ ((run exNoSnap).queues 0) = some 30002 ∧
    view false ⟨0, 0, 0, 0⟩ ((run exNoSnap).queues 0) = none ∧
    ribV false (run exNoSnap) ⟨0, 0, 0, 0⟩ = some 20001 :=
  ⟨by decide, by decide, ⟨.pre ⟨0, 0, 1, 0⟩ (some 30002), by decide, some 30002, rfl⟩, by decide, by decide, by decide⟩

/-- the `droppedShard` disjunct of `snapshot_invariant` is needed: in the middle of a session
    teardown (shard 0 dropped, PeerDown not yet sent) a subscriber that snapshotted shard 0 before
    still holds the route the table has already lost -/
def exDrop : Case :=
  { n := 2, gran := 1, limit := 0
    threads := [(true, [.up, .ins 0 0 0 5, .down]), (false, [.sub true])]
    sched := [] }

def exDropMid : St := runSched 1 21 [0, 0, 0, 0, 0, 0, 0, 0, 0, 0, 0, 0, 0, 1, 1, 1, 1, 0, 0, 0, 0] (init exDrop)

example : Reach exDrop exDropMid ∧ 0 ∈ exDropMid.subscribers ∧ 0 ∈ exDropMid.done 0 ∧
    view false ⟨0, 0, 0, 0⟩ (exDropMid.queues 0) = some 10005 ∧ ribV false exDropMid ⟨0, 0, 0, 0⟩ = none ∧
    (exDropMid.threads 0).drop = some [0] :=
  ⟨runSched_reach _ _ _ _ Reach.init, by decide, by decide, by decide, by decide, by decide⟩

/-- a limit-1 session whose second insert is rejected: the subscriber is told nothing about it
    (regression for S28a, fixed in insert_route) -/
def exLimit : Case :=
  { n := 2, gran := 0, limit := 1
    threads := [(true, [.ins 0 0 0 5, .ins 1 0 0 6]), (false, [.sub true])]
    sched := [1, 1, 1, 1, 1] }

example : (run exLimit).queues 0 = [.eos, .pre ⟨0, 0, 0, 0⟩ (some 10005), .post ⟨0, 0, 0, 0⟩ (some 10005)] ∧
    ((run exLimit).threads 0).rets = [.ok, .limit] := by decide

/-- soft reset after a policy change reaches a subscriber that registered after the reset
    started but before the shard's critical section (regression for S28c, fixed in soft_reset_in) -/
def exSr : Case :=
  { n := 2, gran := 1, limit := 0
    threads := [(true, [.ins 1 0 0 5, .pol .reject, .sr 0]), (false, [.sub true])]
    sched := [0, 0, 0, 0, 0, 0, 0, 0, 1, 1, 1, 1, 1, 1, 1, 1, 1, 1] }

example : view true ⟨0, 1, 0, 0⟩ ((run exSr).queues 0) = none ∧ ribV true (run exSr) ⟨0, 1, 0, 0⟩ = none ∧
    view false ⟨0, 1, 0, 0⟩ ((run exSr).queues 0) = some 10005 := by decide

/-! ## The consumer tasks -/

/-- "Peer-down is reported only for peers whose peer-up was reported", BMP connection: for EVERY
    stream of events the task receives and every set of peers it finds established at
    EndOfSnapshot, the PeerUp / PeerDown messages about any peer `p` written on the connection
    never contain a PeerDown that does not answer a PeerUp. -/
theorem bmp_peerdown_after_peerup (p : Nat) (q : List Ev) (e0 : List Nat) :
    Spec.downsFollowUps (wireCtl p q e0) [] = true := wireCtl_ok p q e0

/-- the same for a gRPC watch stream -/
theorem watch_peerdown_after_peerup (p : Nat) (q : List Ev) (e0 : List Nat) :
    Spec.downsFollowUps (watchCtl p q e0) [] = true := watchCtl_ok p q e0

/-- Refinement: what the client of a watch stream holds for (map, key) is the fold (`view`) of the
    events the task let through (`consRun`, the transition system of the task). -/
theorem watch_view_is_fold (m : Bool) (key : Key) (q : List Ev) (e0 : List Nat) :
    Spec.held (watchHist m key q e0) = view m key (consRun q e0) := by
  unfold Spec.held watchHist view
  exact held_consHist m key q e0 none

/-- For every input stream: the station of a BMP connection / the client of a watch stream holds,
    per (map, key), either what a channel subscriber of the same channel holds, or nothing; and
    nothing about a peer that is not announced on the connection. -/
theorem consumer_view_or_nothing (m : Bool) (key : Key) (e0 : List Nat) (b0 : Bool) (q : List Ev) :
    Good key (cvFold m key e0 b0 q) (view m key q) := good_fold m key e0 b0 q

/-- The consumer invariants in every state reachable by any interleaving (cases whose sessions
    announce routes between their up and their down): a peer in session is announced on every
    consumer connection that has read the peer table, and the station agrees with the channel view
    on every key of an announced peer unless the key is on its way out. -/
theorem reachable_cinv (c : Case) (hc : caseOk c = true) (hso : Spec.sessionsOk c = true) (st : St)
    (h : Reach c st) : CInv st := reach_cinv hc hso h

/-- the refinement step: wherever a channel subscriber of the same channel holds what the table
    holds, so does the consumer's station -/
theorem consumer_refines_channel (c : Case) (hc : caseOk c = true) (hso : Spec.sessionsOk c = true) (st : St)
    (h : Reach c st) (hq : quiescent st) (i : Nat) (r : SubRec) (hr : r ∈ (st.threads i).mysubs)
    (hk0 : r.kind ≠ 0) (hk2 : r.kind ≠ 2) (m : Bool) (key : Key) (hns : ¬ staleKey st key)
    (hv : view m key (st.queues r.sid) = ribV m st key) :
    (cvFold m key r.e0 (r.kind != 1) (st.queues r.sid)).w = ribV m st key :=
  cons_end (reach_inv hc h) (reach_cinv hc hso h) hq hr hk0 hk2 m key hns hv

/-- the hypotheses of the consumer theorems are satisfiable: a case with a BMP connection, an MRT
    dump and a watch stream next to a purge -/
example : caseOk consumerWitness = true ∧ Spec.sessionsOk consumerWitness = true := by decide

/-- the "or nothing" of `consumer_view_or_nothing` happens: a watch stream that found no peer
    established drops the route event of a peer it has not announced, a channel subscriber of the
    same channel holds it -/
example : (cvFold false ⟨0, 0, 0, 0⟩ [] true [.pre ⟨0, 0, 0, 0⟩ (some 5)]).w = none ∧
    view false ⟨0, 0, 0, 0⟩ [.pre ⟨0, 0, 0, 0⟩ (some 5)] = some 5 := by decide

/-- … and a PeerUp alone does not repair it (why the invariant `CI` needs its escape clauses and
    the session-phase invariant `PHI`): announced, the station holds nothing, the channel view 5 -/
example : 0 ∈ ann [] (cvFold false ⟨0, 0, 0, 0⟩ [] true [.pre ⟨0, 0, 0, 0⟩ (some 5), .up 0]) ∧
    (cvFold false ⟨0, 0, 0, 0⟩ [] true [.pre ⟨0, 0, 0, 0⟩ (some 5), .up 0]).w = none := by decide

/-- a BMP connection drains to EndOfSnapshot, flushes the routes of the peers it finds established
    and then forwards: the PeerDown of peer 0 clears what was flushed -/
example : (cvFold false ⟨0, 0, 0, 0⟩ [0] false [.pre ⟨0, 0, 0, 0⟩ (some 5), .eos]).w = some 5 ∧
    (cvFold false ⟨0, 0, 0, 0⟩ [0] false [.pre ⟨0, 0, 0, 0⟩ (some 5), .eos, .down 0]).w = none ∧
    (cvFold false ⟨0, 0, 0, 0⟩ [] false [.pre ⟨0, 0, 0, 0⟩ (some 5), .eos]).w = none := by decide

/-- the forwarded stream of a consumer that never saw the PeerUp drops the PeerDown -/
example : forward [.down 3, .up 3, .down 3, .down 3] [] = [.up 3, .down 3] := by decide

/-- the snapshot phase drops the buffered routes of a peer that went down (S28d, repaired) -/
example : (drainSnapshot [.pre ⟨0, 0, 0, 0⟩ (some 7), .down 0, .up 0, .eos] ([], [])).1.get ⟨0, 0, 0, 0⟩ = none := by
  decide

end Rbgp.Monitor.Props

#print axioms Rbgp.Monitor.Props.C18_full_holds_partial
#print axioms Rbgp.Monitor.Props.C18_full_fails
#print axioms Rbgp.Monitor.Props.channel_subscription_ok
#print axioms Rbgp.Monitor.Props.mrt_dump_ok
#print axioms Rbgp.Monitor.Props.retained_key_invariant
#print axioms Rbgp.Monitor.Props.check_run_ok
#print axioms Rbgp.Monitor.Props.bmp_peerdown_after_peerup
#print axioms Rbgp.Monitor.Props.watch_peerdown_after_peerup
#print axioms Rbgp.Monitor.Props.watch_view_is_fold
#print axioms Rbgp.Monitor.Props.consumer_view_or_nothing
#print axioms Rbgp.Monitor.Props.reachable_cinv
#print axioms Rbgp.Monitor.Props.consumer_refines_channel
#print axioms Rbgp.Monitor.Props.reachable_inv
#print axioms Rbgp.Monitor.Props.snapshot_invariant
#print axioms Rbgp.Monitor.Props.reconstruct_exact
#print axioms Rbgp.Monitor.Props.last_event_is_current
#print axioms Rbgp.Monitor.Props.peerdown_after_peerup
#print axioms Rbgp.Monitor.Props.apply_snapshot_is_fold
#print axioms Rbgp.Monitor.Props.run_reachable
#print axioms Rbgp.Monitor.Props.run_finishes
#print axioms Rbgp.Monitor.Props.compile_wf
