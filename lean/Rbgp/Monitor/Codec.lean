/- Term encoding of C18 cases and observations (same syntax as harness/daemon/c18.rs). -/
import Rbgp.Term
import Rbgp.Monitor.Model
namespace Rbgp.Monitor.Codec
open Rbgp Rbgp.Term Rbgp.Monitor

def maxShards : Nat := 3
def maxIdx : Nat := 3
def maxPid : Nat := 3
def maxThreads : Nat := 5

def polOf? : Term → Option Pol
  | .atom "none" => some .none | .atom "reject" => some .reject | .atom "tag" => some .tag
  | _ => none

/-- (is a writer operation, operation); `me` = index of the thread, `nt` = number of threads -/
def opOf? (n me nt : Nat) : Term → Option (Bool × Op)
  | .atom "up" => some (true, .up)
  | .atom "down" => some (true, .down)
  | .atom "sr" => some (true, .sr me)
  | .atom "gdown" => some (true, .gdown)
  | .atom "purge" => some (true, .purge)
  | .atom "dropfam" => some (true, .dropfam)
  | .atom "llgr" => some (true, .llgr)
  | .atom "lpurge" => some (true, .lpurge)
  | .atom "unsub" => some (false, .unsub)
  | .atom "bmp" => some (false, .bmp)
  | .atom "mrt" => some (false, .mrt)
  | .list [.atom "watch", i, po] => do pure (false, .watch (← asBool? i) (← asBool? po))
  | .list [.atom "sr", p] => do
      let p ← asNat? p
      if p < nt then some (true, .sr p) else none
  | .list [.atom "ins", k, j, p, a] => do
      let k ← asNat? k; let j ← asNat? j; let p ← asNat? p; let a ← asNat? a
      if k < n ∧ j < maxIdx ∧ p < maxPid ∧ a < 1000 then some (true, .ins k j p a) else none
  | .list [.atom "rem", k, j, p] => do
      let k ← asNat? k; let j ← asNat? j; let p ← asNat? p
      if k < n ∧ j < maxIdx ∧ p < maxPid then some (true, .rem k j p) else none
  | .list [.atom "pol", x] => (polOf? x).map fun p => (true, .pol p)
  | .list [.atom "sub", w] => (asBool? w).map fun w => (false, .sub w)
  | _ => none

def threadOf? (n nt : Nat) (me : Nat) : Term → Option (Bool × List Op)
  | .list (.atom kind :: ops) => do
      let writer ← (match kind with | "w" => some true | "wa" => some true | "s" => some false | _ => none)
      let ps ← ops.mapM (opOf? n me nt)
      if ps.all (fun p => p.1 == writer) then some (writer, ps.map (·.2)) else none
  | _ => none

def mapIdxM {α β} (f : Nat → α → Option β) : Nat → List α → Option (List β)
  | _, [] => some []
  | i, a :: r => do
      let b ← f i a
      let bs ← mapIdxM f (i + 1) r
      pure (b :: bs)

/-- `(sr p)` must name a writer thread -/
def srOk (ths : List (Bool × List Op)) : Bool :=
  ths.all fun t => t.2.all fun o => match o with
    | .sr p => (match ths[p]? with | some (w, _) => w | none => false)
    | _ => true

def caseOf? : Term → Option Case
  | .list [.atom "case", .list [.atom "cfg", n, g, l], .list (.atom "threads" :: ths), .list (.atom "sched" :: sc)] => do
      let n ← asNat? n; let g ← asNat? g; let l ← asNat? l
      if n = 0 ∨ n > maxShards ∨ g > 1 ∨ l > 9 then none
      if ths.isEmpty ∨ ths.length > maxThreads then none
      let threads ← mapIdxM (threadOf? n ths.length) 0 ths
      if !srOk threads then none
      -- a BMP connection of a peer without ADD-PATH carries no path ids: such cases use path id 0 only
      let hasBmp := threads.any fun t => t.2.any fun o => match o with
        | .bmp => true | .mrt => true | .watch _ _ => true | _ => false
      let hasPid := threads.any fun t => t.2.any fun o => match o with
        | .ins _ _ p _ => p != 0 | .rem _ _ p => p != 0 | _ => false
      if hasBmp && hasPid then none
      let sc ← sc.mapM asNat?
      let aps := (List.range ths.length).filter fun i => match ths[i]? with
        | some (.list (.atom "wa" :: _)) => true
        | _ => false
      some { n := n, gran := g, limit := l, threads := threads, sched := sc, addpath := aps }
  | _ => none

/-! ### observations -/

def retT : Ret → Term
  | .ok => sym "ok" | .limit => sym "limit" | .dash => sym "-"
def retOf? : Term → Option Ret
  | .atom "ok" => some .ok | .atom "limit" => some .limit | .atom "-" => some .dash | _ => none

def itemT : Item → Term
  | .val v => nat v | .wd => sym "w" | .dn => sym "d"
def itemOf? : Term → Option Item
  | .atom "w" => some .wd
  | .atom "d" => some .dn
  | t => (asNat? t).map .val

def ctlT : Ev → Term
  | .up p => tag "up" [nat p]
  | .down p => tag "down" [nat p]
  | .eos => sym "eos"
  | _ => sym "?"
def ctlOf? : Term → Option Ev
  | .list [.atom "up", p] => (asNat? p).map .up
  | .list [.atom "down", p] => (asNat? p).map .down
  | .atom "eos" => some .eos
  | _ => none

def optNatT : Option Nat → Term
  | some v => nat v | none => sym "none"
def optNatOf? : Term → Option (Option Nat)
  | .atom "none" => some none
  | t => (asNat? t).map some

def pairT (p : Option Nat × Option Nat) : Term := list [optNatT p.1, optNatT p.2]
def pairOf? : Term → Option (Option Nat × Option Nat)
  | .list [a, b] => do pure ((← optNatOf? a), (← optNatOf? b))
  | _ => none

def histT (h : List Item × List Item) : Term := list [ofList itemT h.1, ofList itemT h.2]
def histOf? : Term → Option (List Item × List Item)
  | .list [a, b] => do pure ((← asListOf? itemOf? a), (← asListOf? itemOf? b))
  | _ => none

def apsT (a : List Bool × List Bool) : Term := list [ofList bool a.1, ofList bool a.2]
def apsOf? : Term → Option (List Bool × List Bool)
  | .list [a, b] => do pure ((← asListOf? asBool? a), (← asListOf? asBool? b))
  | _ => none

def subT (s : SubObs) : Term :=
  match s.kind with
  | 0 =>
    tag "sub" [nat s.tid, nat s.nth, bool s.want, bool s.live,
      tag "ctl" (s.ctl.map ctlT), tag "hist" (s.hist.map histT), tag "snap" (s.snap.map pairT),
      tag "fwd" (s.fwd.map ctlT), tag "aps" (s.aps.map apsT)]
  | 1 =>
    tag "bmp" [nat s.tid, nat s.nth, tag "whist" (s.whist.map histT),
      tag "wctl" (s.wctl.map fun l => list (l.map ctlT))]
  | 2 => tag "mrt" [nat s.tid, nat s.nth, tag "whist" (s.whist.map histT), tag "aps" (s.aps.map apsT)]
  | k =>
    tag "watch" [nat s.tid, nat s.nth, bool s.want, bool (k == 4), tag "whist" (s.whist.map histT),
      tag "wctl" (s.wctl.map fun l => list (l.map ctlT))]
def subOf? : Term → Option SubObs
  | .list [.atom "sub", tid, nth, want, live, .list (.atom "ctl" :: ctl), .list (.atom "hist" :: hist),
           .list (.atom "snap" :: snap), .list (.atom "fwd" :: fwd), .list (.atom "aps" :: aps)] => do
      pure { tid := ← asNat? tid, nth := ← asNat? nth, want := ← asBool? want, live := ← asBool? live, kind := 0
             ctl := ← ctl.mapM ctlOf?, hist := ← hist.mapM histOf?, snap := ← snap.mapM pairOf?
             fwd := ← fwd.mapM ctlOf?, whist := [], wctl := [], aps := ← aps.mapM apsOf? }
  | .list [.atom "bmp", tid, nth, .list (.atom "whist" :: wh), .list (.atom "wctl" :: wc)] => do
      pure { tid := ← asNat? tid, nth := ← asNat? nth, want := true, live := true, kind := 1
             ctl := [], hist := [], snap := [], fwd := [], aps := []
             whist := ← wh.mapM histOf?, wctl := ← wc.mapM (asListOf? ctlOf?) }
  | .list [.atom "mrt", tid, nth, .list (.atom "whist" :: wh), .list (.atom "aps" :: aps)] => do
      pure { tid := ← asNat? tid, nth := ← asNat? nth, want := false, live := true, kind := 2
             ctl := [], hist := [], snap := [], fwd := [], wctl := []
             whist := ← wh.mapM histOf?, aps := ← aps.mapM apsOf? }
  | .list [.atom "watch", tid, nth, init, post, .list (.atom "whist" :: wh), .list (.atom "wctl" :: wc)] => do
      pure { tid := ← asNat? tid, nth := ← asNat? nth, want := ← asBool? init, live := true
             kind := if (← asBool? post) then 4 else 3
             ctl := [], hist := [], snap := [], fwd := [], aps := []
             whist := ← wh.mapM histOf?, wctl := ← wc.mapM (asListOf? ctlOf?) }
  | _ => none

def obsT (o : Obs) : Term :=
  if o.finished then
    tag "obs" [tag "rets" (o.rets.map (ofList retT)), tag "subs" (o.subs.map subT),
      tag "rib" (o.rib.map pairT), tag "stale" (o.stale.map bool), tag "rows" [nat o.rows.1, nat o.rows.2],
      tag "extra" [nat o.extra]]
  else list [sym "stuck"]

def obsOf? : Term → Option Obs
  | .list [.atom "obs", .list (.atom "rets" :: rets), .list (.atom "subs" :: subs), .list (.atom "rib" :: rib),
           .list (.atom "stale" :: stale), .list [.atom "rows", a, b], .list [.atom "extra", e]] => do
      pure { rets := ← rets.mapM (asListOf? retOf?), subs := ← subs.mapM subOf?, rib := ← rib.mapM pairOf?
             stale := ← stale.mapM asBool?
             rows := (← asNat? a, ← asNat? b), extra := ← asNat? e, staleList := false, finished := true }
  | .list [.atom "hang"] =>
      some { rets := [], subs := [], rib := [], stale := [], rows := (0, 0), extra := 0, staleList := false, finished := false }
  | .list [.atom "stuck"] =>
      some { rets := [], subs := [], rib := [], stale := [], rows := (0, 0), extra := 0, staleList := false, finished := false }
  | .list [.atom "stale-subscriber-list"] =>
      some { rets := [], subs := [], rib := [], stale := [], rows := (0, 0), extra := 0, staleList := true, finished := true }
  | _ => none

end Rbgp.Monitor.Codec
