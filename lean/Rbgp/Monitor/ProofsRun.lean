/-
  Rbgp.Monitor.ProofsRun — C18: compiled programs are well-formed, the invariant holds in every
  reachable state, what it means once the writers have finished, the scheduler `run` reaches
  such a state, and the reference checker accepts its observation.
-/
import Rbgp.Monitor.Proofs
namespace Rbgp.Monitor

/-! ## Compiled programs are well-formed -/

def opOk (n : Nat) : Op → Bool
  | .ins k _ _ _ => decide (k < n)
  | .rem k _ _ => decide (k < n)
  | _ => true

/-- the case only names shards that exist (the parser enforces it) -/
def caseOk (c : Case) : Bool := c.threads.all fun t => t.2.all (opOk c.n)

def dAfter (ks : List Nat) (d : Option (List Nat)) : Option (List Nat) :=
  ks.foldl (fun d k => some (k :: d.getD [])) d

theorem dAfter_mem : ∀ (ks : List Nat) (d : Option (List Nat)) (x : Nat),
    (x ∈ ks ∨ x ∈ d.getD []) → x ∈ (dAfter ks d).getD [] := by
  intro ks
  induction ks with
  | nil => intro d x h; simpa [dAfter] using h
  | cons k r ih =>
    intro d x h
    simp only [dAfter, List.foldl_cons]
    apply ih
    simp at h ⊢
    rcases h with (rfl | h) | h
    · right; left; rfl
    · left; exact h
    · right; right; exact h

theorem wfp_dropLoop (n me : Nat) (tail : List Instr) : ∀ (ks : List Nat) (f : Bool) (d : Option (List Nat)),
    (∀ k ∈ ks, k < n) → (∀ f', wfp n me tail none f' (dAfter ks d) none = true) →
    wfp n me (ks.flatMap (fun k => lockSec k [.commitDrop k]) ++ tail) none f d none = true := by
  simp only [lockSec]
  intro ks
  induction ks with
  | nil => intro f d _ h; simpa [dAfter] using h f
  | cons k r ih =>
    intro f d hk h
    have hk0 : k < n := hk k (by simp)
    simp only [List.flatMap_cons, List.cons_append, List.nil_append, wfp]
    simp [hk0]
    exact ih false _ (fun k' hk' => hk k' (by simp [hk'])) (by simpa [dAfter] using h)

theorem wfp_staleLoop (n me : Nat) (tail : List Instr) : ∀ (ks : List Nat) (f : Bool) (d : Option (List Nat)),
    (∀ k ∈ ks, k < n) → (∀ f', wfp n me tail none f' (dAfter ks d) none = true) →
    wfp n me (ks.flatMap (fun k => lockSec k [.commitStale k]) ++ tail) none f d none = true := by
  simp only [lockSec]
  intro ks
  induction ks with
  | nil => intro f d _ h; simpa [dAfter] using h f
  | cons k r ih =>
    intro f d hk h
    have hk0 : k < n := hk k (by simp)
    simp only [List.flatMap_cons, List.cons_append, List.nil_append, wfp]
    simp [hk0]
    exact ih false _ (fun k' hk' => hk k' (by simp [hk'])) (by simpa [dAfter] using h)

/-- the loops of the bulk purges: load under the lock, one body step per shard -/
theorem wfp_purgeLoop (n me : Nat) (body : Nat → Instr) (tail : List Instr)
    (hb : ∀ k r, wfp n me (body k :: r) (some k) true none none = wfp n me r (some k) true none none) :
    ∀ (ks : List Nat) (f : Bool),
    (∀ k ∈ ks, k < n) → (∀ f', wfp n me tail none f' none none = true) →
    wfp n me (ks.flatMap (fun k => lockSec k [.loadSubs, .yld .loaded, body k]) ++ tail) none f none none = true := by
  simp only [lockSec]
  intro ks
  induction ks with
  | nil => intro f _ h; simpa using h f
  | cons k r ih =>
    intro f hk h
    have hk0 : k < n := hk k (by simp)
    simp only [List.flatMap_cons, List.cons_append, List.nil_append, wfp]
    simp only [Option.isNone_none, Bool.true_and, hk0, decide_true, Option.isSome_some, hb]
    simp only [wfp, decide_true, Bool.true_and]
    exact ih false (fun k' hk' => hk k' (by simp [hk'])) h

theorem wfp_srLoop (n me p : Nat) (tail : List Instr) : ∀ (ks : List Nat) (f : Bool),
    (∀ k ∈ ks, k < n) → (∀ f', wfp n me tail none f' none none = true) →
    wfp n me (ks.flatMap (fun k => lockSec k [.loadSubs, .yld .loaded, .commitSr k p]) ++ tail) none f none none = true := by
  simp only [lockSec]
  intro ks
  induction ks with
  | nil => intro f _ h; simpa using h f
  | cons k r ih =>
    intro f hk h
    have hk0 : k < n := hk k (by simp)
    simp only [List.flatMap_cons, List.cons_append, List.nil_append, wfp]
    simp [hk0]
    exact ih false (fun k' hk' => hk k' (by simp [hk'])) h

theorem wfp_regLoop (n me : Nat) (tail : List Instr) : ∀ (ks : List Nat) (f : Bool),
    (∀ k ∈ ks, k < n) → (∀ f', wfp n me tail none f' none none = true) →
    wfp n me (ks.flatMap (fun k => lockSec k [.regShard k]) ++ tail) none f none none = true := by
  simp only [lockSec]
  intro ks
  induction ks with
  | nil => intro f _ h; simpa using h f
  | cons k r ih =>
    intro f hk h
    have hk0 : k < n := hk k (by simp)
    simp only [List.flatMap_cons, List.cons_append, List.nil_append, wfp]
    simp [hk0]
    exact ih false (fun k' hk' => hk k' (by simp [hk'])) h

theorem wfp_snapLoop (n me : Nat) (tail : List Instr) : ∀ (ks : List Nat) (f : Bool) (l : List Nat),
    (∀ k ∈ ks, k < n) → (∀ f', wfp n me tail none f' none (some (ks.reverse ++ l)) = true) →
    wfp n me (ks.flatMap (fun k => lockSec k [.snap k]) ++ tail) none f none (some l) = true := by
  simp only [lockSec]
  intro ks
  induction ks with
  | nil => intro f l _ h; simpa using h f
  | cons k r ih =>
    intro f l hk h
    have hk0 : k < n := hk k (by simp)
    simp only [List.flatMap_cons, List.cons_append, List.nil_append, wfp]
    simp [hk0]
    exact ih false _ (fun k' hk' => hk k' (by simp [hk'])) (by simpa using h)

theorem cover_range_rev (n : Nat) (l : List Nat) : cover n ((List.range n).reverse ++ l) = true := by
  simp [cover]
  intro k hk; left; exact hk

theorem compile_wf_op (n me : Nat) (op : Op) (hop : opOk n op = true) (rest : List Instr)
    (hrest : ∀ f', wfp n me rest none f' none none = true) (f : Bool) :
    wfp n me (compile n me op ++ rest) none f none none = true := by
  have hr : ∀ k ∈ List.range n, k < n := fun k hk => List.mem_range.mp hk
  cases op with
  | up =>
    simp only [compile, perShard, List.cons_append, List.nil_append, List.append_assoc, wfp]
    apply wfp_regLoop n me _ (List.range n) f hr
    intro f'; simp only [wfp]; simpa using hrest f'
  | down =>
    simp only [compile, bulk, perShard, List.cons_append, List.nil_append, List.append_assoc, wfp]
    simp
    apply wfp_dropLoop n me _ (List.range n) false none hr
    intro f'
    simp only [wfp]
    simp
    refine ⟨?_, hrest f'⟩
    simp [cover]
    intro k hk
    exact dAfter_mem (List.range n) none k (Or.inl (List.mem_range.mpr hk))
  | ins k j pid a =>
    simp [opOk] at hop
    simp [compile, lockSec, wfp, hop]; exact hrest false
  | rem k j pid =>
    simp [opOk] at hop
    simp [compile, lockSec, wfp, hop]; exact hrest false
  | sr p =>
    simp only [compile, perShard, List.cons_append, List.nil_append, List.append_assoc, wfp]
    apply wfp_srLoop n me p _ (List.range n) f hr
    intro f'; simpa [wfp] using hrest f'
  | pol p => simp only [compile, List.cons_append, List.nil_append, wfp]; simpa using hrest f
  | gdown =>
    simp only [compile, bulk, perShard, List.cons_append, List.nil_append, List.append_assoc, wfp]
    simp
    apply wfp_staleLoop n me _ (List.range n) false none hr
    intro f'
    simp only [wfp]
    simp
    refine ⟨?_, hrest f'⟩
    simp [cover]
    intro k hk
    exact dAfter_mem (List.range n) none k (Or.inl (List.mem_range.mpr hk))
  | purge =>
    simp only [compile, purgeLoop, perShard, List.cons_append, List.nil_append, List.append_assoc, wfp]
    apply wfp_purgeLoop n me _ _ (by intro k r; simp [wfp]) (List.range n) f hr
    intro f'; simpa [wfp] using hrest f'
  | dropfam =>
    simp only [compile, purgeLoop, perShard, List.cons_append, List.nil_append, List.append_assoc, wfp]
    apply wfp_purgeLoop n me _ _ (by intro k r; simp [wfp]) (List.range n) f hr
    intro f'; simpa [wfp] using hrest f'
  | llgr =>
    simp only [compile, purgeLoop, perShard, List.cons_append, List.nil_append, List.append_assoc, wfp]
    apply wfp_purgeLoop n me _ _ (by intro k r; simp [wfp]) (List.range n) f hr
    intro f'; simpa [wfp] using hrest f'
  | lpurge =>
    simp only [compile, purgeLoop, perShard, List.cons_append, List.nil_append, List.append_assoc, wfp]
    apply wfp_purgeLoop n me _ _ (by intro k r; simp [wfp]) (List.range n) f hr
    intro f'; simpa [wfp] using hrest f'
  | sub want =>
    cases want with
    | false => simp [compile, wfp]; exact hrest f
    | true =>
      simp only [compile, perShard, if_true, List.cons_append, List.nil_append, List.append_assoc, wfp]
      simp
      apply wfp_snapLoop n me _ (List.range n) f [] hr
      intro f'
      simp only [wfp]
      simp
      exact ⟨by simpa using cover_range_rev n [], hrest f'⟩
  | bmp =>
    simp only [compile, perShard, List.cons_append, List.nil_append, List.append_assoc, wfp]
    simp
    apply wfp_snapLoop n me _ (List.range n) f [] hr
    intro f'
    simp only [wfp]
    simp
    exact ⟨by simpa using cover_range_rev n [], hrest f'⟩
  | mrt => simp [compile, wfp]; exact hrest f
  | watch init post =>
    cases init with
    | false => simp [compile, wfp]; exact hrest f
    | true =>
      simp only [compile, perShard, if_true, List.cons_append, List.nil_append, List.append_assoc, wfp]
      simp
      apply wfp_snapLoop n me _ (List.range n) f [] hr
      intro f'
      simp only [wfp]
      simp
      exact ⟨by simpa using cover_range_rev n [], hrest f'⟩
  | unsub => simp only [compile, List.cons_append, List.nil_append, wfp]; simpa using hrest f

/-- every compiled program is well-formed -/
theorem compile_wf (n me : Nat) : ∀ (ops : List Op), (ops.all (opOk n) = true) → ∀ f,
    wfp n me (compileAll n me ops) none f none none = true := by
  intro ops
  induction ops with
  | nil => intro _ f; simp [compileAll, wfp]
  | cons op r ih =>
    intro h f
    simp at h
    simp only [compileAll, List.flatMap_cons]
    exact compile_wf_op n me op h.1 _ (fun f' => ih (by simpa using h.2) f') f

/-! ## Reachable states -/

theorem init_inv (c : Case) (hc : caseOk c = true) : Inv (init c) := by
  constructor <;> simp only [init]
  · intro i hi
    have : c.threads[i]? = none := by simp; exact hi
    simp [initThreads, this]
  · intro i
    unfold TWF
    cases h : c.threads[i]? with
    | none => simp [initThreads, h, wfp]
    | some t =>
      obtain ⟨w, ops⟩ := t
      simp only [initThreads, h, Option.map_none]
      apply compile_wf
      have hmem : (w, ops) ∈ c.threads := List.mem_of_getElem? h
      unfold caseOk at hc
      exact (List.all_eq_true.mp hc) _ hmem
  · intro i j k hi; cases h : c.threads[i]? <;> simp [initThreads, h] at hi
  · intro i k hi; cases h : c.threads[i]? <;> simp [initThreads, h] at hi
  · intro key e h; cases h
  · intro s hs; cases hs
  · intro i s hs; cases h : c.threads[i]? <;> simp [initThreads, h] at hs
  · intro i s l hs; cases h : c.threads[i]? <;> simp [initThreads, h] at hs
  · intro s _; simp
  · intro i s l hs; cases h : c.threads[i]? <;> simp [initThreads, h] at hs
  · intro s hs; cases hs
  · intro i r hr; cases h : c.threads[i]? <;> simp [initThreads, h] at hr
  · intro s m key h; exact absurd h (touched_nil m key)
  · intro s hs; cases hs
  · intro key ⟨l, hl, _⟩; cases h : c.threads[key.peer]? <;> simp [initThreads, h] at hl
  · intro i s k hi; cases h : c.threads[i]? <;> simp [initThreads, h] at hi
  · intro s hs; cases hs

/-- States reachable by ANY interleaving of atomic steps of the threads of the case. -/
inductive Reach (c : Case) : St → Prop
  | init : Reach c (init c)
  | step {st st' : St} {i : Nat} : Reach c st → step i st = some st' → Reach c st'

theorem reach_inv {c : Case} (hc : caseOk c = true) {st : St} (h : Reach c st) : Inv st := by
  induction h with
  | init => exact init_inv c hc
  | step _ hs ih => exact step_inv ih hs

/-! ## Once the writers have finished -/

/-- every thread has run to completion -/
def quiescent (st : St) : Prop := ∀ i, (st.threads i).pgm = []

theorem quiescent_thread {st : St} (hI : Inv st) (hq : quiescent st) (i : Nat) :
    (st.threads i).held = none ∧ (st.threads i).drop = none ∧ (st.threads i).snapping = none := by
  have hw := hI.wf i
  unfold TWF at hw; rw [hq i] at hw
  simp only [wfp, Bool.and_eq_true, Option.isNone_iff_eq_none] at hw
  refine ⟨hw.1.1, hw.1.2, ?_⟩
  cases h : (st.threads i).snapping <;> simp [h] at hw ⊢

theorem quiescent_not_dropped {st : St} (hI : Inv st) (hq : quiescent st) (key : Key) : ¬ droppedShard st key := by
  intro ⟨l, hl, _⟩
  rw [(quiescent_thread hI hq key.peer).2.1] at hl; cases hl

/-- `snapshot_invariant`, per shard and at every reachable state: after the shard's snapshot step
    the subscriber holds, for every key of the shard, exactly what the table holds; before it, it
    holds nothing but what the live events since its registration delivered, and every key they
    touched is current.  (While a session teardown is between dropping the shard and PeerDown, the
    subscriber may still hold that peer's routes of the shard.) -/
theorem snapshot_inv {st : St} (hI : Inv st) {s : Nat} (hs : s ∈ st.subscribers) (k : Nat) :
    (k ∈ st.done s → ∀ m key, key.shard = k →
        view m key (st.queues s) = ribV m st key ∨ droppedShard st key ∨ staleKey st key) ∧
    (k ∉ st.done s → ∀ m key, key.shard = k →
        (touched m key (st.queues s) →
          view m key (st.queues s) = ribV m st key ∨ droppedShard st key ∨ staleKey st key) ∧
        (¬ touched m key (st.queues s) → view m key (st.queues s) = none)) := by
  constructor
  · intro hk m key hkey
    exact hI.viewI s hs m key (Or.inr (hkey ▸ hk))
  · intro _ m key _
    exact ⟨fun h => hI.viewI s hs m key (Or.inl h), fun h => view_untouched m key _ h⟩

/-- `reconstruct_exact`: once all writers have finished, a live subscriber whose snapshot was
    completed holds exactly the pre-policy and the post-policy Adj-RIB-In of the table. -/
theorem reconstruct {st : St} (hI : Inv st) (hq : quiescent st) {s : Nat} (hs : s ∈ st.subscribers)
    (hc : s ∈ st.complete) (m : Bool) (key : Key) (hns : ¬ staleKey st key) :
    view m key (st.queues s) = ribV m st key := by
  by_cases hk : key.shard < st.n
  · rcases hI.viewI s hs m key (Or.inr (hI.comp s hc key.shard hk)) with h | h | h
    · exact h
    · exact absurd h (quiescent_not_dropped hI hq key)
    · exact absurd h hns
  · have hu : ¬ touched m key (st.queues s) := fun h => hk (hI.tshard s m key h)
    rw [view_untouched m key _ hu]
    have : st.rib key = none := by
      cases h : st.rib key with
      | none => rfl
      | some e => exact absurd (hI.sup key e h).2 hk
    cases m <;> simp [ribV, preOf, postOf, this]

/-- `last_event_is_current`: once all writers have finished, for a live subscriber (snapshot or
    not) every (peer, prefix, path-id) it ever received a route event for is held exactly as the
    table holds it. -/
theorem last_current {st : St} (hI : Inv st) (hq : quiescent st) {s : Nat} (hs : s ∈ st.subscribers)
    (m : Bool) (key : Key) (ht : touched m key (st.queues s)) (hns : ¬ staleKey st key) :
    view m key (st.queues s) = ribV m st key := by
  rcases hI.viewI s hs m key (Or.inl ht) with h | h | h
  · exact h
  · exact absurd h (quiescent_not_dropped hI hq key)
  · exact absurd h hns

/-! ## The scheduler -/

/-- a step pops one instruction of the stepping thread and leaves the other programs alone -/
theorem step_frame {st st' : St} {i : Nat} {ins : Instr} {rest : List Instr}
    (hp : (st.threads i).pgm = ins :: rest) (hs : step i st = some st') :
    st'.nthreads = st.nthreads ∧ (st'.threads i).pgm = rest ∧ ∀ j, j ≠ i → st'.threads j = st.threads j := by
  cases ins <;> simp only [step, hp] at hs
  case yld y => injection hs with hs; subst hs; cases y <;> exact ⟨rfl, by simp, fun j hj => updT_ne _ _ hj⟩
  case acquire k =>
    split at hs
    · injection hs with hs; subst hs; exact ⟨rfl, by simp, fun j hj => updT_ne _ _ hj⟩
    · cases hs
  case commitIns key a =>
    split at hs <;> (injection hs with hs; subst hs; exact ⟨rfl, by simp, fun j hj => updT_ne _ _ hj⟩)
  case commitRem key =>
    split at hs <;> (injection hs with hs; subst hs; exact ⟨rfl, by simp, fun j hj => updT_ne _ _ hj⟩)
  case snap k =>
    split at hs <;> (injection hs with hs; subst hs; exact ⟨rfl, by simp, fun j hj => updT_ne _ _ hj⟩)
  case sentinel =>
    split at hs <;> (injection hs with hs; subst hs; exact ⟨rfl, by simp, fun j hj => updT_ne _ _ hj⟩)
  case unsubscribe =>
    split at hs <;> (injection hs with hs; subst hs; exact ⟨rfl, by simp, fun j hj => updT_ne _ _ hj⟩)
  all_goals (injection hs with hs; subst hs; exact ⟨rfl, by simp [purgeStep], fun j hj => by simp [purgeStep, updT_ne _ _ hj]⟩)

theorem sum_range_update (f g : Nat → Nat) (i : Nat) : ∀ n, i < n → (∀ j, j ≠ i → f j = g j) → f i = g i + 1 →
    ((List.range n).map f).sum = ((List.range n).map g).sum + 1 := by
  intro n
  induction n with
  | zero => intro h; omega
  | succ n ih =>
    intro hi hne hfi
    simp only [List.range_succ, List.map_append, List.sum_append, List.map_cons, List.map_nil, List.sum_cons,
      List.sum_nil, Nat.add_zero]
    by_cases h : i = n
    · subst h
      have : (List.range i).map f = (List.range i).map g := by
        apply List.map_congr_left
        intro j hj; exact hne j (by have := List.mem_range.mp hj; omega)
      rw [this, hfi]; omega
    · have := ih (by omega) hne hfi
      rw [this, hne n (fun e => h e.symm)]; omega

theorem step_total {st st' : St} {i : Nat} (hi : i < st.nthreads) (hs : step i st = some st') :
    totalInstrs st = totalInstrs st' + 1 := by
  cases hp : (st.threads i).pgm with
  | nil => simp [step, hp] at hs
  | cons ins rest =>
    obtain ⟨h1, h2, h3⟩ := step_frame hp hs
    unfold totalInstrs
    rw [h1]
    exact sum_range_update _ _ i st.nthreads hi (fun j hj => by rw [h3 j hj]) (by rw [hp, h2]; simp)

theorem runSeg_reach {c : Case} (gran : Nat) : ∀ (f i : Nat) (st : St), Reach c st → Reach c (runSeg gran f i st) := by
  intro f
  induction f with
  | zero => intro i st h; exact h
  | succ f ih =>
    intro i st h
    simp only [runSeg]
    cases hs : step i st with
    | none => exact h
    | some st' =>
      have h' := Reach.step h hs
      dsimp only
      split
      · exact h'
      · split
        · exact h'
        · exact ih i st' h'
      · exact ih i st' h'

theorem runSeg_total {gran : Nat} : ∀ (f i : Nat) (st : St), i < st.nthreads →
    totalInstrs (runSeg gran f i st) ≤ totalInstrs st ∧ (runSeg gran f i st).nthreads = st.nthreads := by
  intro f
  induction f with
  | zero => intro i st _; exact ⟨Nat.le_refl _, rfl⟩
  | succ f ih =>
    intro i st hi
    simp only [runSeg]
    cases hs : step i st with
    | none => exact ⟨Nat.le_refl _, rfl⟩
    | some st' =>
      have ht := step_total hi hs
      have hn : st'.nthreads = st.nthreads := by
        cases hp : (st.threads i).pgm with
        | nil => simp [step, hp] at hs
        | cons ins rest => exact (step_frame hp hs).1
      dsimp only
      split
      · exact ⟨by omega, hn⟩
      · split
        · exact ⟨by omega, hn⟩
        · have := ih i st' (by omega); exact ⟨by omega, by omega⟩
      · have := ih i st' (by omega); exact ⟨by omega, by omega⟩

/-- a released thread makes progress -/
theorem runSeg_progress {gran : Nat} {f i : Nat} {st st' : St} (hi : i < st.nthreads)
    (hs : step i st = some st') : totalInstrs (runSeg gran (f + 1) i st) < totalInstrs st := by
  have ht := step_total hi hs
  have hn : st'.nthreads = st.nthreads := by
    cases hp : (st.threads i).pgm with
    | nil => simp [step, hp] at hs
    | cons ins rest => exact (step_frame hp hs).1
  simp only [runSeg, hs]
  split
  · omega
  · split
    · omega
    · have := (runSeg_total (gran := gran) f i st' (by omega)).1; omega
  · have := (runSeg_total (gran := gran) f i st' (by omega)).1; omega

theorem enabled_step {st : St} {i : Nat} (h : schedEnabled st i = true) : ∃ st', step i st = some st' := by
  unfold schedEnabled at h
  cases hp : (st.threads i).pgm with
  | nil => simp [hp] at h
  | cons ins rest =>
    cases ins <;> simp only [step, hp]
    case acquire k => simp [hp] at h; simp [h]
    case commitIns key a => split <;> exact ⟨_, rfl⟩
    case commitRem key => split <;> exact ⟨_, rfl⟩
    case snap k => split <;> exact ⟨_, rfl⟩
    case sentinel => split <;> exact ⟨_, rfl⟩
    case unsubscribe => split <;> exact ⟨_, rfl⟩
    all_goals exact ⟨_, rfl⟩

/-- no deadlock: while some thread is unfinished, some thread can be released -/
theorem some_enabled {st : St} (hI : Inv st) (hnf : finished st = false) :
    ∃ j, j < st.nthreads ∧ schedEnabled st j = true := by
  simp only [finished, ← Bool.not_eq_true, List.all_eq_true, List.mem_range] at hnf
  simp only [Classical.not_forall] at hnf
  obtain ⟨i, hi, hne⟩ := hnf
  by_cases he : schedEnabled st i = true
  · exact ⟨i, hi, he⟩
  · -- i waits for a lock; its holder can run
    have hlock : ∃ k, lockFree st k i = false := by
      unfold schedEnabled at he
      cases hp : (st.threads i).pgm with
      | nil => simp [hp] at hne
      | cons ins rest =>
        cases ins <;> simp [hp] at he
        case yld y => cases y <;> simp at he; exact ⟨_, he⟩
        case acquire k => exact ⟨k, he⟩
    obtain ⟨k, hk⟩ := hlock
    simp only [lockFree, ← Bool.not_eq_true, List.all_eq_true, List.mem_range] at hk
    simp only [Classical.not_forall] at hk
    obtain ⟨j, hj, hjh⟩ := hk
    simp at hjh
    refine ⟨j, hj, ?_⟩
    have hw := hI.wf j
    unfold TWF at hw
    unfold schedEnabled
    cases hp : (st.threads j).pgm with
    | nil => rw [hp] at hw; simp [wfp, hjh.2] at hw
    | cons ins rest =>
      rw [hp] at hw
      cases ins <;> try rfl
      case yld y => cases y <;> first | rfl | (simp [wfp, hjh.2] at hw)
      case acquire k' => simp [wfp, hjh.2] at hw

theorem getD_mem {α} (l : List α) (n : Nat) (d : α) (hd : d ∈ l) : l.getD n d ∈ l := by
  simp only [List.getD_eq_getElem?_getD]
  cases h : l[n]? with
  | none => simpa using hd
  | some a => simpa using List.mem_of_getElem? h

theorem runSched_reach {c : Case} (gran : Nat) : ∀ (f : Nat) (sched : List Nat) (st : St),
    Reach c st → Reach c (runSched gran f sched st) := by
  intro f
  induction f with
  | zero => intro _ st h; exact h
  | succ f ih =>
    intro sched st h
    simp only [runSched]
    split
    · exact h
    · exact ih _ _ (runSeg_reach gran _ _ _ h)

theorem runSched_finishes {c : Case} (hc : caseOk c = true) (gran : Nat) : ∀ (f : Nat) (sched : List Nat) (st : St),
    Reach c st → totalInstrs st < f → finished (runSched gran f sched st) = true := by
  intro f
  induction f with
  | zero => intro _ st _ h; omega
  | succ f ih =>
    intro sched st hr hf
    have hI := reach_inv hc hr
    simp only [runSched]
    split
    · rename_i hen
      cases hfin : finished st with
      | true => rfl
      | false =>
        obtain ⟨j, hj, hje⟩ := some_enabled hI hfin
        have : j ∈ (List.range st.nthreads).filter (schedEnabled st) := by simp [hj, hje]
        rw [hen] at this; cases this
    · rename_i e0 es hen
      have hmem : ∀ x, x ∈ e0 :: es → x < st.nthreads ∧ schedEnabled st x = true := by
        intro x hx; rw [← hen] at hx; simpa using hx
      have key : ∀ idx, finished (runSched gran f sched.tail
          (runSeg gran (totalInstrs st + 1) ((e0 :: es).getD idx e0) st)) = true := by
        intro idx
        have hpick := getD_mem (e0 :: es) idx e0 (by simp)
        obtain ⟨hlt, hen'⟩ := hmem _ hpick
        obtain ⟨st', hs⟩ := enabled_step hen'
        have hprog := runSeg_progress (gran := gran) (f := totalInstrs st) hlt hs
        exact ih _ _ (runSeg_reach gran _ _ _ hr) (by omega)
      rw [hen]
      exact key _

theorem run_reach (c : Case) : Reach c (run c) := runSched_reach _ _ _ _ Reach.init

theorem run_finished (c : Case) (hc : caseOk c = true) : finished (run c) = true :=
  runSched_finishes hc _ _ _ _ Reach.init (Nat.lt_succ_self _)

theorem finished_quiescent {st : St} (hI : Inv st) (h : finished st = true) : quiescent st := by
  intro i
  by_cases hi : i < st.nthreads
  · simp only [finished, List.all_eq_true, List.mem_range] at h
    simpa using h i hi
  · exact (hI.idle i (Nat.le_of_not_lt hi)).1

open Rbgp.Monitor.Spec

/-! ## The observation and the reference checker -/

theorem apply1_itemOf (acc : Option Nat) (v : Option Nat) : apply1 acc (itemOf v) = v := by
  cases v <;> rfl

theorem held_histPre (key : Key) : ∀ (q : List Ev) (acc : Option Nat),
    (histPre key q).foldl apply1 acc = q.foldl (stepView false key) acc := by
  intro q
  induction q with
  | nil => intro acc; rfl
  | cons e r ih =>
    intro acc
    cases e with
    | pre k v =>
      by_cases h : k = key
      · simp [histPre, h, stepView, proj, apply1_itemOf, ih]
      · simp [histPre, h, stepView, proj, ih]
    | down p =>
      by_cases h : p = key.peer
      · simp [histPre, h, stepView, proj, apply1, ih]
      · simp [histPre, h, stepView, proj, ih]
    | post k v => simp [histPre, stepView, proj, ih]
    | up p => simp [histPre, stepView, proj, ih]
    | eos => simp [histPre, stepView, proj, ih]

theorem held_histPost (key : Key) : ∀ (q : List Ev) (acc : Option Nat),
    (histPost key q).foldl apply1 acc = q.foldl (stepView true key) acc := by
  intro q
  induction q with
  | nil => intro acc; rfl
  | cons e r ih =>
    intro acc
    cases e with
    | post k v =>
      by_cases h : k = key
      · simp [histPost, h, stepView, proj, apply1_itemOf, ih]
      · simp [histPost, h, stepView, proj, ih]
    | down p =>
      by_cases h : p = key.peer
      · simp [histPost, h, stepView, proj, apply1, ih]
      · simp [histPost, h, stepView, proj, ih]
    | pre k v => simp [histPost, stepView, proj, ih]
    | up p => simp [histPost, stepView, proj, ih]
    | eos => simp [histPost, stepView, proj, ih]

theorem itemOf_ne_dn (v : Option Nat) : (itemOf v != Item.dn) = true := by cases v <;> rfl

theorem touched_histPre (key : Key) : ∀ (q : List Ev), Spec.touched (histPre key q) = true → touched false key q := by
  intro q
  induction q with
  | nil => intro h; simp [histPre, Spec.touched] at h
  | cons e r ih =>
    intro h
    rw [touched_cons]
    cases e with
    | pre k v =>
      by_cases hk : k = key
      · left; exact ⟨v, by simp [proj, hk]⟩
      · right; apply ih; simpa [histPre, hk] using h
    | down p =>
      right; apply ih
      by_cases hp : p = key.peer
      · simpa [histPre, hp, Spec.touched] using h
      · simpa [histPre, hp] using h
    | post k v => right; apply ih; simpa [histPre] using h
    | up p => right; apply ih; simpa [histPre] using h
    | eos => right; apply ih; simpa [histPre] using h

theorem touched_histPost (key : Key) : ∀ (q : List Ev), Spec.touched (histPost key q) = true → touched true key q := by
  intro q
  induction q with
  | nil => intro h; simp [histPost, Spec.touched] at h
  | cons e r ih =>
    intro h
    rw [touched_cons]
    cases e with
    | post k v =>
      by_cases hk : k = key
      · left; exact ⟨v, by simp [proj, hk]⟩
      · right; apply ih; simpa [histPost, hk] using h
    | down p =>
      right; apply ih
      by_cases hp : p = key.peer
      · simpa [histPost, hp, Spec.touched] using h
      · simpa [histPost, hp] using h
    | pre k v => right; apply ih; simpa [histPost] using h
    | up p => right; apply ih; simpa [histPost] using h
    | eos => right; apply ih; simpa [histPost] using h

theorem cmp_self (pfx : String) (x : Option Nat) : Spec.cmp pfx x x = none := by
  cases x <;> simp [Spec.cmp]

/-- `peerdown_after_peerup`: whatever the event stream and whatever set of peers the consumer has
    already announced, the consumer (`track_peer_up` / `track_peer_down`) forwards a PeerDown
    only after a PeerUp of that peer not yet answered by a PeerDown. -/
theorem forward_ok : ∀ (evs : List Ev) (sent ups : List Nat), (∀ p ∈ sent, p ∈ ups) →
    Spec.downsFollowUps (forward evs sent) ups = true := by
  intro evs
  induction evs with
  | nil => intro _ _ _; rfl
  | cons e r ih =>
    intro sent ups hsub
    cases e with
    | up p =>
      simp only [forward, Spec.downsFollowUps]
      apply ih
      intro x hx
      simp only [trackPeerUp] at hx
      split at hx
      · exact List.mem_cons_of_mem _ (hsub x hx)
      · simp at hx ⊢; exact hx.imp id (hsub x)
    | down p =>
      simp only [forward, trackPeerDown]
      have hsub' : ∀ x ∈ sent.filter (· != p), x ∈ ups.filter (· != p) := by
        intro x hx; simp at hx ⊢; exact ⟨hsub x hx.1, hx.2⟩
      by_cases hp : p ∈ sent
      · simp only [hp, decide_true, if_true, Spec.downsFollowUps, Bool.and_eq_true, decide_eq_true_eq]
        exact ⟨hsub p hp, ih _ _ hsub'⟩
      · simp only [hp, decide_false, Bool.false_eq_true, if_false]
        exact ih _ _ (fun x hx => hsub x (List.mem_filter.mp hx).1)
    | pre k v => simp only [forward]; exact ih _ _ hsub
    | post k v => simp only [forward]; exact ih _ _ hsub
    | eos => simp only [forward]; exact ih _ _ hsub

theorem checkKeys_map {cl : Key → String → String}
    {fc : List Item × List Item → Option Nat × Option Nat → Option String}
    {esc : Key → List Item × List Item → Option Nat × Option Nat → Bool}
    (f : Key → List Item × List Item) (g : Key → Option Nat × Option Nat) (sf : Key → Bool) :
    ∀ (u : List Key) (pos : Nat), (∀ key ∈ u, sf key = false ∧ fc (f key) (g key) = none) →
    Spec.checkKeys cl fc esc pos u (u.map f) (u.map g) (u.map sf) = none := by
  intro u
  induction u with
  | nil => intro _ _; rfl
  | cons k r ih =>
    intro pos h
    obtain ⟨h1, h2⟩ := h k (by simp)
    simp only [List.map_cons, Spec.checkKeys, h1, Bool.false_and, Bool.false_eq_true, if_false, h2]
    exact ih _ (fun key hk => h key (by simp [hk]))

theorem stale_flag_false {st : St} (key : Key) (h : ¬ staleKey st key) :
    (match st.rib key with
      | some e => isStale st key.peer e
      | none => false) = false := by
  cases hr : st.rib key with
  | none => rfl
  | some e =>
    simp only [isStale, decide_eq_false_iff_not]
    exact fun hg => h ⟨e, hr, hg⟩

theorem checkSubs_ok (c : Case) (u : List Key) (rib : List (Option Nat × Option Nat)) (sl : List Bool) :
    ∀ (l : List SubObs) (i : Nat),
    (∀ s ∈ l, Spec.checkSub c u rib sl s = none) → Spec.checkSubs c u rib sl i l = .ok := by
  intro l
  induction l with
  | nil => intro _ _; rfl
  | cons s r ih =>
    intro i h
    simp only [Spec.checkSubs, h s (by simp)]
    exact ih _ (fun s' hs' => h s' (by simp [hs']))

theorem mem_enumFrom' {α} : ∀ (l : List α) (i : Nat) (p : Nat × α), p ∈ enumFrom' i l → p.2 ∈ l := by
  intro l
  induction l with
  | nil => intro i p h; simp [enumFrom'] at h
  | cons a r ih =>
    intro i p h
    simp only [enumFrom', List.mem_cons] at h
    rcases h with rfl | h
    · simp
    · exact List.mem_cons_of_mem _ (ih _ _ h)

theorem eos_mem_ctlOf : ∀ (q : List Ev), Ev.eos ∈ q → Ev.eos ∈ ctlOf q := by
  intro q
  induction q with
  | nil => intro h; cases h
  | cons e r ih =>
    intro h
    cases e with
    | eos => simp [ctlOf]
    | up p => simp at h; simp [ctlOf, ih h]
    | down p => simp at h; simp [ctlOf, ih h]
    | pre k v => simp at h; simpa [ctlOf] using ih h
    | post k v => simp at h; simpa [ctlOf] using ih h

/-- no BMP client connection in the case (that clause of the checker is backed by the
    correspondence run and the oracle on the real connection, not by this theorem) -/
def noBmp (c : Case) : Bool := c.threads.all fun t => t.2.all fun o => match o with
  | .bmp => false | .mrt => false | .watch _ _ => false | _ => true

/-- every subscription record of a thread without `bmp` operations is a channel subscription -/
def NoBmpRecs (st : St) : Prop := ∀ i, ∀ r ∈ (st.threads i).mysubs, r.kind = 0

/-- one channel subscription of the finished run passes the checker -/
theorem checkSub_chan (c : Case) (hc : caseOk c = true) (i nth : Nat) (r : SubRec)
    (hr' : r ∈ ((run c).threads i).mysubs) (hb : r.kind = 0) (hnst : ∀ key, ¬ staleKey (run c) key) :
    Spec.checkSub c (keyUniverse c) ((keyUniverse c).map fun key => (preOf (run c) key, postOf (run c) key))
      ((keyUniverse c).map fun key => match (run c).rib key with
        | some e => isStale (run c) key.peer e
        | none => false)
      (subObs (run c) (keyUniverse c) i nth r) = none := by
  have hr := run_reach c
  have hI := reach_inv hc hr
  have hfin := run_finished c hc
  have hq := finished_quiescent hI hfin
  unfold Spec.checkSub
  simp only [subObs, hb]
  simp only [show ((0 : Nat) == 1) = false from rfl, show ((0 : Nat) == 2) = false from rfl,
    show ((0 : Nat) == 3) = false from rfl, show ((0 : Nat) == 4) = false from rfl, Bool.or_self,
    Bool.false_eq_true, if_false]
  have hfw : Spec.downsFollowUps (forward (if r.want = true then afterEos ((run c).queues r.sid) else (run c).queues r.sid) []) [] = true :=
    forward_ok _ _ _ (by simp)
  rw [hfw]
  simp only [Bool.not_true, Bool.false_eq_true, if_false]
  by_cases hlive : r.sid ∈ (run c).subscribers
  · simp only [hlive, decide_true, Bool.not_true, Bool.false_eq_true, if_false]
    cases hwant : r.want with
    | true =>
      have hcomp : r.sid ∈ (run c).complete := by
        rcases hI.recs i r hr' hwant with h | ⟨l, hl⟩
        · exact h
        · rw [(quiescent_thread hI hq i).2.2] at hl; cases hl
      have heos : (ctlOf ((run c).queues r.sid)).contains Ev.eos = true := by
        simpa using eos_mem_ctlOf _ (hI.eosI _ hcomp)
      simp only [heos, Bool.not_true, Bool.and_false, Bool.false_eq_true, if_false]
      apply checkKeys_map
      intro key _
      have hst := hnst key
      refine ⟨stale_flag_false key hst, ?_⟩
      unfold Spec.checkKey
      have h1 := reconstruct hI hq hlive hcomp false key hst
      have h2 := reconstruct hI hq hlive hcomp true key hst
      simp only [if_true]
      have e1 : Spec.held (histPre key ((run c).queues r.sid)) = preOf (run c) key := by
        unfold Spec.held; rw [held_histPre]; exact h1
      have e2 : Spec.held (histPost key ((run c).queues r.sid)) = postOf (run c) key := by
        unfold Spec.held; rw [held_histPost]; exact h2
      simp only [e1, e2, cmp_self]
    | false =>
      simp only [Bool.false_and, Bool.false_eq_true, if_false]
      apply checkKeys_map
      intro key _
      have hst := hnst key
      refine ⟨stale_flag_false key hst, ?_⟩
      unfold Spec.checkKey
      simp only [Bool.false_eq_true, if_false]
      have e1 : (if Spec.touched (histPre key ((run c).queues r.sid)) = true then
          Spec.cmp "nosnap-pre" (Spec.held (histPre key ((run c).queues r.sid))) (preOf (run c) key) else none) = none := by
        split
        · rename_i ht
          have := last_current hI hq hlive false key (touched_histPre key _ ht) hst
          have e : Spec.held (histPre key ((run c).queues r.sid)) = preOf (run c) key := by
            unfold Spec.held; rw [held_histPre]; exact this
          rw [e, cmp_self]
        · rfl
      have e2 : (if Spec.touched (histPost key ((run c).queues r.sid)) = true then
          Spec.cmp "nosnap-post" (Spec.held (histPost key ((run c).queues r.sid))) (postOf (run c) key) else none) = none := by
        split
        · rename_i ht
          have := last_current hI hq hlive true key (touched_histPost key _ ht) hst
          have e : Spec.held (histPost key ((run c).queues r.sid)) = postOf (run c) key := by
            unfold Spec.held; rw [held_histPost]; exact this
          rw [e, cmp_self]
        · rfl
      simp only [e1, e2]
  · simp only [hlive, decide_false, Bool.not_false, if_true]

/-- The master theorem for cases whose subscriptions are all channel subscriptions — any number of
    shards, writer sessions and subscribers, any operations, any schedule. -/
theorem check_run_ok (c : Case) (hc : caseOk c = true) (hnb : NoBmpRecs (run c))
    (hnst : ∀ key, ¬ staleKey (run c) key) :
    Spec.check c (observe c (run c)) = .ok := by
  have hfin := run_finished c hc
  unfold Spec.check
  simp only [observe, hfin, Bool.not_true, Bool.false_eq_true, if_false, bne_self_eq_false]
  apply checkSubs_ok
  intro so hso
  simp only [List.mem_flatMap, List.mem_range, List.mem_map] at hso
  obtain ⟨i, _, ⟨p, hp, rfl⟩⟩ := hso
  obtain ⟨nth, r⟩ := p
  have hr' : r ∈ ((run c).threads i).mysubs := mem_enumFrom' _ _ _ hp
  exact checkSub_chan c hc i nth r hr' (hnb i r hr') hnst

/-! ## The consumer's snapshot maps (bmp.rs `apply_snapshot`) -/

theorem SnapMap.get_erase (m : SnapMap) (k k' : Key) :
    (m.erase k).get k' = if k' = k then none else m.get k' := by
  induction m with
  | nil => simp [SnapMap.erase, SnapMap.get]
  | cons kv r ih =>
    simp only [SnapMap.erase, SnapMap.get] at ih ⊢
    by_cases h1 : kv.1 = k
    · by_cases h2 : k' = k
      · simp [h1, h2] at ih ⊢
      · have hk : ¬ k = k' := fun e => h2 e.symm
        simp [h1, h2, hk] at ih ⊢; exact ih
    · by_cases h2 : k' = k
      · subst h2
        simp [h1] at ih ⊢
      · by_cases h3 : kv.1 = k'
        · simp [h2, h3]
        · simp [h1, h2, h3] at ih ⊢; exact ih

theorem SnapMap.get_insert (m : SnapMap) (k k' : Key) (v : Nat) :
    (m.insert k v).get k' = if k' = k then some v else m.get k' := by
  have he := SnapMap.get_erase m k k'
  simp only [SnapMap.insert, SnapMap.get, List.find?_append] at he ⊢
  by_cases h : k' = k
  · subst h
    simp only [if_true] at he ⊢
    cases hf : List.find? (fun kv => decide (kv.1 = k')) (m.erase k') with
    | none => simp
    | some x => rw [hf] at he; simp at he
  · simp only [h, if_false] at he ⊢
    cases hf : List.find? (fun kv => decide (kv.1 = k')) (m.erase k) with
    | none =>
      rw [hf] at he
      have : ¬ k = k' := fun e => h e.symm
      simp [this]; simpa using he
    | some x => rw [hf] at he; simpa using he

theorem SnapMap.get_dropPeer (m : SnapMap) (p : Nat) (k' : Key) :
    (m.dropPeer p).get k' = if k'.peer = p then none else m.get k' := by
  induction m with
  | nil => simp [SnapMap.dropPeer, SnapMap.get]
  | cons kv r ih =>
    simp only [SnapMap.dropPeer, SnapMap.get] at ih ⊢
    by_cases h1 : kv.1.peer = p
    · by_cases h2 : k'.peer = p
      · simp [h1, h2] at ih ⊢; exact ih
      · have hk : ¬ kv.1 = k' := fun e => h2 (by rw [← e, h1])
        simp [h1, h2, hk] at ih ⊢; exact ih
    · by_cases h2 : k'.peer = p
      · have hk : ¬ kv.1 = k' := fun e => h1 (by rw [e, h2])
        simp [h1, h2, hk] at ih ⊢; exact ih
      · by_cases h3 : kv.1 = k'
        · simp [h2, h3]
        · simp [h1, h2, h3] at ih ⊢; exact ih

/-- the same fold as `view` (a PeerDown clears the peer's entries), up to `EndOfSnapshot` -/
def foldSnap (m : Bool) (key : Key) : List Ev → Option Nat → Option Nat
  | [], acc => acc
  | .eos :: _, acc => acc
  | .down p :: r, acc => foldSnap m key r (if p = key.peer then none else acc)
  | e :: r, acc =>
      foldSnap m key r (match proj m e with | some (k, v) => if k = key then v else acc | none => acc)

/-- `apply_snapshot_is_fold`: the two maps `BmpClient::serve` builds with `apply_snapshot` while
    draining the channel up to `EndOfSnapshot` hold, per key, the last route event of that key. -/
theorem drain_get (key : Key) : ∀ (q : List Ev) (a b : SnapMap),
    (drainSnapshot q (a, b)).1.get key = foldSnap false key q (a.get key) ∧
    (drainSnapshot q (a, b)).2.get key = foldSnap true key q (b.get key) := by
  intro q
  induction q with
  | nil => intro a b; simp [drainSnapshot, foldSnap]
  | cons e r ih =>
    intro a b
    cases e with
    | eos => simp [drainSnapshot, foldSnap]
    | up p => simpa [drainSnapshot, foldSnap, proj] using ih a b
    | down p =>
      have := ih (a.dropPeer p) (b.dropPeer p)
      simp only [drainSnapshot, foldSnap]
      rw [this.1, this.2, SnapMap.get_dropPeer, SnapMap.get_dropPeer]
      by_cases h : p = key.peer
      · simp [h]
      · have : ¬ key.peer = p := fun e => h e.symm
        simp [h, this]
    | pre k v =>
      have := ih (applySnapshot a k v) b
      simp only [drainSnapshot, foldSnap, proj]
      refine ⟨?_, this.2⟩
      rw [this.1]
      congr 1
      cases v with
      | none => simp only [applySnapshot, SnapMap.get_erase]; by_cases h : key = k <;> simp [h, eq_comm]
      | some x => simp only [applySnapshot, SnapMap.get_insert]; by_cases h : key = k <;> simp [h, eq_comm]
    | post k v =>
      have := ih a (applySnapshot b k v)
      simp only [drainSnapshot, foldSnap, proj]
      refine ⟨this.1, ?_⟩
      rw [this.2]
      congr 1
      cases v with
      | none => simp only [applySnapshot, SnapMap.get_erase]; by_cases h : key = k <;> simp [h, eq_comm]
      | some x => simp only [applySnapshot, SnapMap.get_insert]; by_cases h : key = k <;> simp [h, eq_comm]

theorem markDead_kind : ∀ (l : List SubRec) {s l'}, markDead l = some (s, l') →
    ∀ r' ∈ l', ∃ r ∈ l, r.kind = r'.kind := by
  intro l
  induction l with
  | nil => intro s l' h; simp [markDead] at h
  | cons r rest ih =>
    intro s l' h r' hr'
    simp only [markDead] at h
    cases hm : markDead rest with
    | some p =>
      obtain ⟨s1, rest'⟩ := p
      simp [hm] at h
      obtain ⟨_, rfl⟩ := h
      simp at hr'
      rcases hr' with rfl | hr'
      · exact ⟨r', by simp, rfl⟩
      · obtain ⟨r0, hr0, h1⟩ := ih hm r' hr'
        exact ⟨r0, by simp [hr0], h1⟩
    | none =>
      simp [hm] at h
      obtain ⟨_, _, rfl⟩ := h
      simp at hr'
      rcases hr' with rfl | hr'
      · exact ⟨r, by simp, rfl⟩
      · exact ⟨r', by simp [hr'], rfl⟩

/-- the subscription records after a step: old ones (same kind), or the one a `register`
    step has just created -/
theorem step_mysubs {st st' : St} {i : Nat} {ins : Instr} {rest : List Instr}
    (hp : (st.threads i).pgm = ins :: rest) (hs : step i st = some st') (j : Nat) :
    ∀ r' ∈ (st'.threads j).mysubs, (∃ r ∈ (st.threads j).mysubs, r.kind = r'.kind) ∨
      (∃ w, ins = .register w r'.kind) := by
  have hother : ∀ (t' : Thread), j ≠ i → ∀ r' ∈ (updT st.threads i t' j).mysubs,
      (∃ r ∈ (st.threads j).mysubs, r.kind = r'.kind) ∨ (∃ w, ins = .register w r'.kind) := by
    intro t' hj r' hr'; rw [updT_ne _ _ hj] at hr'; exact Or.inl ⟨r', hr', rfl⟩
  have hsame : ∀ (t' : Thread), t'.mysubs = (st.threads i).mysubs → ∀ r' ∈ (updT st.threads i t' j).mysubs,
      (∃ r ∈ (st.threads j).mysubs, r.kind = r'.kind) ∨ (∃ w, ins = .register w r'.kind) := by
    intro t' ht r' hr'
    by_cases hj : j = i
    · subst hj; simp only [updT_self, ht] at hr'; exact Or.inl ⟨r', hr', rfl⟩
    · exact hother t' hj r' hr'
  cases ins <;> simp only [step, hp] at hs
  case yld y => injection hs with hs; subst hs; cases y <;> exact hsame _ rfl
  case acquire k =>
    split at hs
    · injection hs with hs; subst hs; exact hsame _ rfl
    · cases hs
  case commitIns key a => split at hs <;> (injection hs with hs; subst hs; exact hsame _ rfl)
  case commitRem key => split at hs <;> (injection hs with hs; subst hs; exact hsame _ rfl)
  case snap k => split at hs <;> (injection hs with hs; subst hs; exact hsame _ rfl)
  case sentinel => split at hs <;> (injection hs with hs; subst hs; exact hsame _ rfl)
  case register w b =>
    injection hs with hs; subst hs
    intro r' hr'
    by_cases hj : j = i
    · subst hj
      simp only [updT_self, List.mem_append, List.mem_singleton] at hr'
      rcases hr' with hr' | rfl
      · exact Or.inl ⟨r', hr', rfl⟩
      · exact Or.inr ⟨w, rfl⟩
    · exact hother _ hj r' hr'
  case captureE0 =>
    injection hs with hs; subst hs
    intro r' hr'
    by_cases hj : j = i
    · subst hj
      simp only [updT_self] at hr'
      obtain ⟨r0, hr0, hrr⟩ := mem_setLast hr'
      refine Or.inl ⟨r0, hr0, ?_⟩
      rcases hrr with rfl | rfl <;> rfl
    · exact hother _ hj r' hr'
  case unsubscribe =>
    split at hs
    · rename_i s ms hm
      injection hs with hs; subst hs
      intro r' hr'
      by_cases hj : j = i
      · subst hj
        simp only [updT_self] at hr'
        obtain ⟨r0, hr0, hb⟩ := markDead_kind _ hm r' hr'
        exact Or.inl ⟨r0, hr0, hb⟩
      · exact hother _ hj r' hr'
    · injection hs with hs; subst hs; exact hsame _ rfl
  all_goals (injection hs with hs; subst hs; exact hsame _ rfl)

def isConsumer : Op → Bool
  | .bmp | .mrt | .watch _ _ => true
  | _ => false

theorem compile_noBmp (n me : Nat) (op : Op) (h : isConsumer op = false) (w : Bool) (k : Nat) (hk : k ≠ 0) :
    Instr.register w k ∉ compile n me op := by
  cases op <;> simp [compile, lockSec, bulk, purgeLoop, perShard, isConsumer] at h ⊢
  all_goals (intro _ hk'; exact hk hk')

/-- no thread will ever create a consumer subscription, and none exists -/
def NB (st : St) : Prop :=
  (∀ i w k, k ≠ 0 → Instr.register w k ∉ (st.threads i).pgm) ∧ NoBmpRecs st

theorem init_NB (c : Case) (h : noBmp c = true) : NB (init c) := by
  constructor
  · intro i w k hk hm
    simp only [init, initThreads] at hm
    cases ht : c.threads[i]? with
    | none => simp [ht] at hm
    | some t =>
      obtain ⟨wr, ops⟩ := t
      simp only [ht, compileAll, List.mem_flatMap] at hm
      obtain ⟨op, hop, hin⟩ := hm
      have hmem : (wr, ops) ∈ c.threads := List.mem_of_getElem? ht
      have : isConsumer op = false := by
        simp only [noBmp, List.all_eq_true] at h
        have := h _ hmem op hop
        cases op <;> simp_all [isConsumer]
      exact compile_noBmp c.n i op this w k hk hin
  · intro i r hr
    simp only [init, initThreads] at hr
    cases ht : c.threads[i]? <;> simp [ht] at hr

theorem step_NB {st st' : St} {i : Nat} (h : NB st) (hs : step i st = some st') : NB st' := by
  cases hp : (st.threads i).pgm with
  | nil => simp [step, hp] at hs
  | cons ins rest =>
    obtain ⟨_, h2, h3⟩ := step_frame hp hs
    constructor
    · intro j w k hk hm
      by_cases hj : j = i
      · subst hj; rw [h2] at hm
        exact h.1 j w k hk (by rw [hp]; exact List.mem_cons_of_mem _ hm)
      · rw [h3 j hj] at hm; exact h.1 j w k hk hm
    · intro j r' hr'
      rcases step_mysubs hp hs j r' hr' with ⟨r, hr, hb⟩ | ⟨w, hw⟩
      · rw [← hb]; exact h.2 j r hr
      · by_cases hk : r'.kind = 0
        · exact hk
        · exact absurd (by rw [hp, hw]; exact List.mem_cons_self) (h.1 i w r'.kind hk)

theorem reach_NB {c : Case} (hc : noBmp c = true) {st : St} (h : Reach c st) : NB st := by
  induction h with
  | init => exact init_NB c hc
  | step _ hs ih => exact step_NB ih hs

/-- the master theorem with both hypotheses on the case -/
theorem check_run_ok_of_noBmp (c : Case) (hc : caseOk c = true) (hb : noBmp c = true)
    (hnst : ∀ key, ¬ staleKey (run c) key) :
    Spec.check c (observe c (run c)) = .ok :=
  check_run_ok c hc (reach_NB hb (run_reach c)).2 hnst

end Rbgp.Monitor
