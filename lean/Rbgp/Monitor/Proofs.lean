/-
  Rbgp.Monitor.Proofs — C18: the invariant of the transition system of `Rbgp.Monitor.Model`
  and its preservation by every atomic step of every thread (any interleaving).
-/
import Rbgp.Monitor.Spec
namespace Rbgp.Monitor
open Rbgp.Monitor

/-! ## What a subscriber holds -/

/-- which map: `false` = pre-policy, `true` = post-policy -/
def proj : Bool → Ev → Option (Key × Option Nat)
  | false, .pre k v => some (k, v)
  | true, .post k v => some (k, v)
  | _, _ => none

def stepView (m : Bool) (key : Key) (acc : Option Nat) (e : Ev) : Option Nat :=
  match proj m e with
  | some (k, v) => if k = key then v else acc
  | none => match e with
    | .down p => if p = key.peer then none else acc
    | _ => acc

/-- What a subscriber holds for (map `m`, `key`) after applying the queue in order: a reach sets
    the entry, a withdrawal removes it, a PeerDown removes every entry of that peer. -/
def view (m : Bool) (key : Key) (q : List Ev) : Option Nat := q.foldl (stepView m key) none

/-- some route event (reach or withdrawal) for (map `m`, `key`) is in the queue -/
def touched (m : Bool) (key : Key) (q : List Ev) : Prop := ∃ e ∈ q, ∃ v, proj m e = some (key, v)

/-- what the RIB holds: `iter_reach` (m = false) / `iter_reach_post` (m = true) -/
def ribV (m : Bool) (st : St) (key : Key) : Option Nat := if m then postOf st key else preOf st key

theorem view_append (m key q evs) : view m key (q ++ evs) = evs.foldl (stepView m key) (view m key q) := by
  simp [view, List.foldl_append]

theorem touched_append (m key q evs) : touched m key (q ++ evs) ↔ touched m key q ∨ touched m key evs := by
  simp [touched, List.mem_append, or_and_right, exists_or]

theorem touched_nil (m key) : ¬ touched m key [] := by simp [touched]

theorem touched_cons (m key e r) : touched m key (e :: r) ↔ (∃ v, proj m e = some (key, v)) ∨ touched m key r := by
  simp [touched]

/-- events that neither touch (m, key) nor are a PeerDown of its peer leave the entry alone -/
theorem foldl_untouched (m key) : ∀ (evs : List Ev) (acc : Option Nat), ¬ touched m key evs →
    (∀ e ∈ evs, ∀ p, e = .down p → p ≠ key.peer) → evs.foldl (stepView m key) acc = acc := by
  intro evs
  induction evs with
  | nil => intro acc _ _; rfl
  | cons e r ih =>
    intro acc hu hd
    have h1 : ¬ touched m key r := fun ⟨e', he', v, hv⟩ => hu ⟨e', List.mem_cons_of_mem _ he', v, hv⟩
    have h2 : ∀ e' ∈ r, ∀ p, e' = .down p → p ≠ key.peer := fun e' he' => hd e' (List.mem_cons_of_mem _ he')
    simp only [List.foldl_cons]
    have : stepView m key acc e = acc := by
      unfold stepView
      cases hp : proj m e with
      | some kv =>
        obtain ⟨k, v⟩ := kv
        by_cases hk : k = key
        · exact absurd ⟨e, List.mem_cons_self, v, by rw [hp, hk]⟩ hu
        · simp [hk]
      | none =>
        cases e <;> simp
        case down p => exact fun h => absurd h (hd _ List.mem_cons_self p rfl)
    rw [this]; exact ih _ h1 h2

theorem foldl_untouched_none (m key) : ∀ (evs : List Ev), ¬ touched m key evs →
    evs.foldl (stepView m key) none = none := by
  intro evs
  induction evs with
  | nil => intro _; rfl
  | cons e r ih =>
    intro hu
    have h1 : ¬ touched m key r := fun ⟨e', he', v, hv⟩ => hu ⟨e', List.mem_cons_of_mem _ he', v, hv⟩
    simp only [List.foldl_cons]
    have : stepView m key none e = none := by
      unfold stepView
      cases hp : proj m e with
      | some kv =>
        obtain ⟨k, v⟩ := kv
        by_cases hk : k = key
        · exact absurd ⟨e, List.mem_cons_self, v, by rw [hp, hk]⟩ hu
        · simp [hk]
      | none => cases e <;> simp
    rw [this]; exact ih h1

/-- a (map, key) never touched by a route event is not held -/
theorem view_untouched (m key q) (h : ¬ touched m key q) : view m key q = none :=
  foldl_untouched_none m key q h

/-- A batch of route events of one map in which `key` occurs only with value `v`, at least once:
    afterwards the subscriber holds `v`. -/
theorem foldl_batch_hit (m key v) : ∀ (evs : List Ev) (acc : Option Nat),
    (∀ e ∈ evs, ∀ p, e ≠ .down p) →
    (∀ e ∈ evs, ∀ w, proj m e = some (key, w) → w = v) →
    touched m key evs → evs.foldl (stepView m key) acc = v := by
  intro evs
  induction evs with
  | nil => intro acc _ _ ht; exact absurd ht (touched_nil m key)
  | cons e r ih =>
    intro acc hnd hval ht
    simp only [List.foldl_cons]
    by_cases hr : touched m key r
    · exact ih _ (fun e' he' => hnd e' (List.mem_cons_of_mem _ he'))
        (fun e' he' => hval e' (List.mem_cons_of_mem _ he')) hr
    · rw [touched_cons] at ht
      rcases ht with ⟨w, hw⟩ | ht
      · have hwv := hval e List.mem_cons_self w hw
        have : stepView m key acc e = v := by unfold stepView; rw [hw]; simp [hwv]
        rw [this]
        exact foldl_untouched m key r v hr (fun e' he' p hp => absurd hp (hnd e' (List.mem_cons_of_mem _ he') p))
      · exact absurd ht hr

/-! ## Well-formed programs (type-state of the remaining program of a thread) -/

def cover (n : Nat) (l : List Nat) : Bool := (List.range n).all fun k => decide (k ∈ l)

theorem cover_mem {n l k} (h : cover n l = true) (hk : k < n) : k ∈ l := by
  simp [cover] at h; exact h k hk

/-- `wfp n me pgm held fresh drop snapping`: the remaining program respects the lock discipline of
    table_manager.rs: route events and table mutations only under the shard's lock with the
    subscriber list loaded under that same lock; a teardown drops every shard before PeerDown;
    a snapshot walks every shard before EndOfSnapshot. -/
def wfp (n me : Nat) : List Instr → Option Nat → Bool → Option (List Nat) → Option (List Nat) → Bool
  | [], h, _, d, sn => h.isNone && d.isNone && sn.isNone
  | .yld (.lock _) :: r, h, f, d, sn => h.isNone && wfp n me r h f d sn
  | .yld _ :: r, h, f, d, sn => wfp n me r h f d sn
  | .loadPol :: r, h, f, d, sn => wfp n me r h f d sn
  | .acquire k :: r, h, _, d, sn => h.isNone && decide (k < n) && wfp n me r (some k) false d sn
  | .release k :: r, h, _, d, sn => decide (h = some k) && wfp n me r none false d sn
  | .loadSubs :: r, h, _, d, sn => wfp n me r h h.isSome d sn
  | .commitIns key _ :: r, h, f, d, sn =>
      decide (h = some key.shard) && f && d.isNone && sn.isNone && decide (key.peer = me) && wfp n me r h f d sn
  | .commitRem key :: r, h, f, d, sn =>
      decide (h = some key.shard) && f && d.isNone && sn.isNone && decide (key.peer = me) && wfp n me r h f d sn
  | .commitSr k _ :: r, h, f, d, sn => decide (h = some k) && f && sn.isNone && wfp n me r h f d sn
  | .commitDrop k :: r, h, f, d, sn => decide (h = some k) && sn.isNone && wfp n me r h f (some (k :: d.getD [])) sn
  | .commitStale k :: r, h, f, d, sn => decide (h = some k) && sn.isNone && wfp n me r h f (some (k :: d.getD [])) sn
  | .commitDropQuiet k :: r, h, f, d, sn => decide (h = some k) && f && d.isNone && sn.isNone && wfp n me r h f d sn
  | .commitPurge k :: r, h, f, d, sn => decide (h = some k) && f && d.isNone && sn.isNone && wfp n me r h f d sn
  | .commitLlgr k :: r, h, f, d, sn => decide (h = some k) && wfp n me r h f d sn
  | .commitLpurge k :: r, h, f, d, sn => decide (h = some k) && f && d.isNone && sn.isNone && wfp n me r h f d sn
  | .sendDownGr :: r, h, f, d, sn => h.isNone && sn.isNone && cover n (d.getD []) && wfp n me r h f none sn
  | .setEst _ :: r, h, f, d, sn => wfp n me r h f d sn
  | .regShard k :: r, h, f, d, sn => decide (h = some k) && wfp n me r h f d sn
  | .captureE0 :: r, h, f, d, sn => sn.isNone && wfp n me r h f d sn
  | .sendUp :: r, h, f, d, sn => h.isNone && d.isNone && wfp n me r h f d sn
  | .sendDown :: r, h, f, d, sn => h.isNone && sn.isNone && cover n (d.getD []) && wfp n me r h f none sn
  | .setPol _ :: r, h, f, d, sn => wfp n me r h f d sn
  | .register w _ :: r, h, f, d, sn =>
      h.isNone && d.isNone && sn.isNone && wfp n me r h f d (if w then some [] else none)
  | .snap k :: r, h, f, d, sn =>
      decide (h = some k) && !f && d.isNone &&
        (match sn with | some l => wfp n me r h f d (some (k :: l)) | none => false)
  | .sentinel :: r, h, f, d, sn =>
      h.isNone && (match sn with | some l => cover n l && wfp n me r h f d none | none => false)
  | .unsubscribe :: r, h, f, d, sn => sn.isNone && wfp n me r h f d sn
  | .ret :: r, h, f, d, sn => wfp n me r h f d sn

def TWF (n me : Nat) (t : Thread) : Prop :=
  wfp n me t.pgm t.held t.fresh t.drop (t.snapping.map (·.2)) = true

/-! ## The invariant -/

/-- the peer of `key` is being torn down and the shard of `key` has already been dropped -/
def droppedShard (st : St) (key : Key) : Prop :=
  ∃ l, (st.threads key.peer).drop = some l ∧ key.shard ∈ l

/-- the table holds `key` as a route of a session whose `Source` has been marked stale -/
def staleKeyR (R : Key → Option Entry) (G : List (Nat × Nat)) (key : Key) : Prop :=
  ∃ e, R key = some e ∧ (key.peer, e.gen) ∈ G

def staleKey (st : St) (key : Key) : Prop := staleKeyR st.rib st.staleGens key

theorem staleKeyR_congr {R R' : Key → Option Entry} {G : List (Nat × Nat)} {key : Key} (h : R key = R' key) :
    staleKeyR R G key ↔ staleKeyR R' G key := by simp [staleKeyR, h]

/-- carry the two escape disjuncts of `viewI` over to a table that agrees on `key` -/
theorem escape_congr {R : Key → Option Entry} {st : St} {key : Key} {P D : Prop} (h : R key = st.rib key) :
    P ∨ D ∨ staleKey st key → P ∨ D ∨ staleKeyR R st.staleGens key :=
  Or.imp id (Or.imp id (staleKeyR_congr h).mpr)

structure Inv (st : St) : Prop where
  idle : ∀ i, st.nthreads ≤ i → (st.threads i).pgm = [] ∧ (st.threads i).held = none
  wf : ∀ i, TWF st.n i (st.threads i)
  excl : ∀ i j k, (st.threads i).held = some k → (st.threads j).held = some k → i = j
  heldlt : ∀ i k, (st.threads i).held = some k → k < st.n
  sup : ∀ key e, st.rib key = some e → key ∈ st.keys ∧ key.shard < st.n
  idsS : ∀ s ∈ st.subscribers, s < st.nextSub
  idsT : ∀ i, ∀ s ∈ (st.threads i).subs, s < st.nextSub
  idsN : ∀ i s l, (st.threads i).snapping = some (s, l) → s < st.nextSub
  idsQ : ∀ s, st.nextSub ≤ s → st.queues s = [] ∧ st.done s = []
  snapl : ∀ i s l, (st.threads i).snapping = some (s, l) → ∀ k ∈ l, k ∈ st.done s
  comp : ∀ s ∈ st.complete, ∀ k, k < st.n → k ∈ st.done s
  recs : ∀ i, ∀ r ∈ (st.threads i).mysubs, r.want = true →
          r.sid ∈ st.complete ∨ ∃ l, (st.threads i).snapping = some (r.sid, l)
  tshard : ∀ s m key, touched m key (st.queues s) → key.shard < st.n
  /-- a completed snapshot has its EndOfSnapshot in the queue -/
  eosI : ∀ s ∈ st.complete, Ev.eos ∈ st.queues s
  dropped : ∀ key, droppedShard st key → st.rib key = none ∨ staleKey st key
  /-- a lock holder whose subscriber list (loaded under the lock) lacks a live subscriber: that
      subscriber has neither snapshotted the shard nor received any event of it -/
  blind : ∀ i s k, (st.threads i).held = some k → (st.threads i).fresh = true → s ∈ st.subscribers →
            s ∉ (st.threads i).subs →
            k ∉ st.done s ∧ ∀ m key, key.shard = k → ¬ touched m key (st.queues s)
  /-- per (map, key): once the shard was snapshotted or the key was touched, the subscriber holds
      what the RIB holds (or the peer's teardown has already dropped that shard and PeerDown is
      still to come) -/
  viewI : ∀ s ∈ st.subscribers, ∀ m key, (touched m key (st.queues s) ∨ key.shard ∈ st.done s) →
            view m key (st.queues s) = ribV m st key ∨ droppedShard st key ∨ staleKey st key

/-! ## Preservation: helpers -/

@[simp] theorem updT_self (f : Nat → Thread) (i t) : updT f i t i = t := by simp [updT]
theorem updT_ne (f : Nat → Thread) {i j} (t) (h : j ≠ i) : updT f i t j = f j := by simp [updT, h]

theorem send_mono {q : Nat → List Ev} {subs evs s e} (h : e ∈ q s) : e ∈ send q subs evs s := by
  unfold send; split
  · exact List.mem_append_left _ h
  · exact h

theorem me_lt {st me i rest} (hI : Inv st) (hp : (st.threads me).pgm = i :: rest) : me < st.nthreads := by
  apply Nat.lt_of_not_le
  intro h
  have := (hI.idle me h).1
  rw [hp] at this; cases this

theorem lockFree_spec {st : St} {k me : Nat} (hI : Inv st) (h : lockFree st k me = true) :
    ∀ j, j ≠ me → (st.threads j).held ≠ some k := by
  intro j hj hh
  by_cases hlt : j < st.nthreads
  · simp only [lockFree, List.all_eq_true, List.mem_range] at h
    have := h j hlt
    simp [hj, hh] at this
  · have := (hI.idle j (Nat.le_of_not_lt hlt)).2
    rw [this] at hh; cases hh

/-- A step of thread `me` that touches no shared data except the policy, and in the thread only
    pgm / subs / pol / held / fresh / dirty / count / rets. -/
theorem inv_core {st : St} {me : Nat} {t' : Thread} {p : Pol} {E : List Nat} {A L : List (Nat × Nat)} (hI : Inv st)
    (hme : me < st.nthreads)
    (hd : t'.drop = (st.threads me).drop) (hsn : t'.snapping = (st.threads me).snapping)
    (hms : ∀ r' ∈ t'.mysubs, ∃ r ∈ (st.threads me).mysubs, r.sid = r'.sid ∧ r.want = r'.want)
    (hwf : TWF st.n me t')
    (hheld : ∀ k, t'.held = some k → k < st.n ∧ ∀ j, j ≠ me → (st.threads j).held ≠ some k)
    (hsubs : ∀ s ∈ t'.subs, s < st.nextSub)
    (hblind : ∀ s k, t'.held = some k → t'.fresh = true → s ∈ st.subscribers → s ∉ t'.subs →
        k ∉ st.done s ∧ ∀ m key, key.shard = k → ¬ touched m key (st.queues s)) :
    Inv { st with policy := p, established := E, addpath := A, llgrGens := L, threads := updT st.threads me t' } := by
  have hdrop : ∀ i, (updT st.threads me t' i).drop = (st.threads i).drop := by
    intro i; by_cases h : i = me
    · subst h; simp [hd]
    · simp [updT_ne _ _ h]
  have hsnap : ∀ i, (updT st.threads me t' i).snapping = (st.threads i).snapping := by
    intro i; by_cases h : i = me
    · subst h; simp [hsn]
    · simp [updT_ne _ _ h]
  have hmys : ∀ i, ∀ r' ∈ (updT st.threads me t' i).mysubs, ∃ r ∈ (st.threads i).mysubs, r.sid = r'.sid ∧ r.want = r'.want := by
    intro i r' hr'; by_cases h : i = me
    · subst h; simp only [updT_self] at hr'; exact hms r' hr'
    · simp only [updT_ne _ _ h] at hr'; exact ⟨r', hr', rfl, rfl⟩
  have hds : ∀ key, droppedShard { st with policy := p, established := E, addpath := A, llgrGens := L, threads := updT st.threads me t' } key ↔ droppedShard st key := by
    intro key; simp [droppedShard, hdrop]
  constructor <;> dsimp only
  · intro i hi
    have : i ≠ me := by omega
    simp only [updT_ne _ _ this]
    exact hI.idle i hi
  · intro i
    by_cases h : i = me
    · subst h; simpa using hwf
    · simpa [updT_ne _ _ h] using hI.wf i
  · intro i j k hi hj
    by_cases h1 : i = me <;> by_cases h2 : j = me
    · rw [h1, h2]
    · subst h1; simp only [updT_self] at hi; simp only [updT_ne _ _ h2] at hj
      exact absurd hj ((hheld k hi).2 j h2)
    · subst h2; simp only [updT_self] at hj; simp only [updT_ne _ _ h1] at hi
      exact absurd hi ((hheld k hj).2 i h1)
    · simp only [updT_ne _ _ h1] at hi; simp only [updT_ne _ _ h2] at hj
      exact hI.excl i j k hi hj
  · intro i k hi
    by_cases h : i = me
    · subst h; simp only [updT_self] at hi; exact (hheld k hi).1
    · simp only [updT_ne _ _ h] at hi; exact hI.heldlt i k hi
  · exact hI.sup
  · exact hI.idsS
  · intro i s hs
    by_cases h : i = me
    · subst h; simp only [updT_self] at hs; exact hsubs s hs
    · simp only [updT_ne _ _ h] at hs; exact hI.idsT i s hs
  · intro i s l hs; rw [hsnap] at hs; exact hI.idsN i s l hs
  · exact hI.idsQ
  · intro i s l hs; rw [hsnap] at hs; exact hI.snapl i s l hs
  · exact hI.comp
  · intro i r hr hw
    obtain ⟨r0, hr0, h1, h2⟩ := hmys i r hr
    rw [hsnap, ← h1]
    exact hI.recs i r0 hr0 (h2 ▸ hw)
  · exact hI.tshard
  · exact hI.eosI
  · intro key hdk
    exact hI.dropped key ((hds key).mp hdk)
  · intro i s k hh hf hs hns
    by_cases h : i = me
    · subst h; simp only [updT_self] at hh hf hns; exact hblind s k hh hf hs hns
    · simp only [updT_ne _ _ h] at hh hf hns; exact hI.blind i s k hh hf hs hns
  · intro s hs m key hpre
    rcases hI.viewI s hs m key hpre with h | h | h
    · left; exact h
    · right; left; exact (hds key).mpr h
    · right; right; exact h

/-- `ribV` through the table only -/
def ribVr (m : Bool) (R : Key → Option Entry) (key : Key) : Option Nat :=
  if m then (R key).bind (·.post) else (R key).map (·.pre)

theorem ribV_eq (m st key) : ribV m st key = ribVr m st.rib key := by
  simp [ribV, ribVr, postOf, preOf]

/-- A step of thread `me` under its lock that changes the table, the key list and the queues,
    and in the thread only pgm / count / rets. -/
theorem inv_data {st : St} {me : Nat} {t' : Thread} {AQ : Nat → List Bool} (hI : Inv st)
    (R : Key → Option Entry) (K : List Key) (Q : Nat → List Ev)
    (hme : me < st.nthreads)
    (hsu : t'.subs = (st.threads me).subs) (hh : t'.held = (st.threads me).held)
    (hf : t'.fresh = (st.threads me).fresh)
    (hd : t'.drop = (st.threads me).drop) (hsn : t'.snapping = (st.threads me).snapping)
    (hms : t'.mysubs = (st.threads me).mysubs)
    (hwf : TWF st.n me t')
    (hmono : ∀ s e, e ∈ st.queues s → e ∈ Q s)
    (hsup : ∀ key e, R key = some e → key ∈ K ∧ key.shard < st.n)
    (hidsQ : ∀ s, st.nextSub ≤ s → Q s = [])
    (htshard : ∀ s m key, touched m key (Q s) → key.shard < st.n)
    (hdropped : ∀ key, droppedShard st key → R key = none ∨ staleKeyR R st.staleGens key)
    (hblind : ∀ i s k, (st.threads i).held = some k → (st.threads i).fresh = true → s ∈ st.subscribers →
        s ∉ (st.threads i).subs → ∀ m key, key.shard = k → ¬ touched m key (Q s))
    (hview : ∀ s ∈ st.subscribers, ∀ m key, (touched m key (Q s) ∨ key.shard ∈ st.done s) →
        view m key (Q s) = ribVr m R key ∨ droppedShard st key ∨ staleKeyR R st.staleGens key) :
    Inv { st with rib := R, keys := K, queues := Q, apq := AQ, threads := updT st.threads me t' } := by
  have hth : ∀ i, (updT st.threads me t' i).subs = (st.threads i).subs ∧
      (updT st.threads me t' i).held = (st.threads i).held ∧
      (updT st.threads me t' i).fresh = (st.threads i).fresh ∧
      (updT st.threads me t' i).drop = (st.threads i).drop ∧
      (updT st.threads me t' i).snapping = (st.threads i).snapping ∧
      (updT st.threads me t' i).mysubs = (st.threads i).mysubs := by
    intro i
    by_cases h : i = me
    · subst h; simp [*]
    · simp [updT_ne _ _ h]
  have hds : ∀ key, droppedShard { st with rib := R, keys := K, queues := Q, apq := AQ, threads := updT st.threads me t' } key
      ↔ droppedShard st key := by
    intro key; simp [droppedShard, (hth _).2.2.2.1]
  constructor <;> dsimp only
  · intro i hi
    have : i ≠ me := by omega
    simp only [updT_ne _ _ this]
    exact hI.idle i hi
  · intro i
    by_cases h : i = me
    · subst h; simpa using hwf
    · simpa [updT_ne _ _ h] using hI.wf i
  · intro i j k hi hj
    rw [(hth i).2.1] at hi; rw [(hth j).2.1] at hj
    exact hI.excl i j k hi hj
  · intro i k hi
    rw [(hth i).2.1] at hi; exact hI.heldlt i k hi
  · exact hsup
  · exact hI.idsS
  · intro i s hs; rw [(hth i).1] at hs; exact hI.idsT i s hs
  · intro i s l hs; rw [(hth i).2.2.2.2.1] at hs; exact hI.idsN i s l hs
  · intro s hs; exact ⟨hidsQ s hs, (hI.idsQ s hs).2⟩
  · intro i s l hs; rw [(hth i).2.2.2.2.1] at hs; exact hI.snapl i s l hs
  · exact hI.comp
  · intro i r hr hw
    rw [(hth i).2.2.2.2.2] at hr; rw [(hth i).2.2.2.2.1]
    exact hI.recs i r hr hw
  · exact htshard
  · intro s hs; exact hmono s _ (hI.eosI s hs)
  · intro key hdk
    exact hdropped key ((hds key).mp hdk)
  · intro i s k hh' hf' hs hns
    rw [(hth i).2.1] at hh'; rw [(hth i).2.2.1] at hf'; rw [(hth i).1] at hns
    exact ⟨(hI.blind i s k hh' hf' hs hns).1, hblind i s k hh' hf' hs hns⟩
  · intro s hs m key hpre
    rcases hview s hs m key hpre with h | h | h
    · left; rw [ribV_eq]; exact h
    · right; left; exact (hds key).mpr h
    · right; right; exact h

/-! ## Preservation: one lemma per atomic step -/

theorem send_in {q : Nat → List Ev} {subs evs s} (h : s ∈ subs) : send q subs evs s = q s ++ evs := by simp [send, h]
theorem send_out {q : Nat → List Ev} {subs evs s} (h : s ∉ subs) : send q subs evs s = q s := by simp [send, h]

theorem touched_send {q : Nat → List Ev} {subs evs s m key} (h : touched m key (send q subs evs s)) :
    touched m key (q s) ∨ (s ∈ subs ∧ touched m key evs) := by
  by_cases hs : s ∈ subs
  · rw [send_in hs, touched_append] at h
    rcases h with h | h
    · exact Or.inl h
    · exact Or.inr ⟨hs, h⟩
  · rw [send_out hs] at h; exact Or.inl h

theorem mem_addKey {keys : List Key} {k k' : Key} : k' ∈ addKey keys k ↔ k' ∈ keys ∨ k' = k := by
  unfold addKey
  by_cases h : k ∈ keys
  · simp [h]; intro h'; subst h'; exact h
  · simp [h]

theorem touched_insEvs {m key key' a post} :
    touched m key' [Ev.pre key (some a), Ev.post key post] → key' = key := by
  intro ⟨e, he, v, hv⟩
  simp at he
  rcases he with rfl | rfl <;> cases m <;> simp [proj] at hv <;> exact hv.1.symm

theorem view_insEvs {m key a post acc} :
    [Ev.pre key (some a), Ev.post key post].foldl (stepView m key) acc = if m then post else some a := by
  cases m <;> simp [stepView, proj]

theorem step_commitIns {st st' : St} {me key a rest} (hI : Inv st)
    (hp : (st.threads me).pgm = .commitIns key a :: rest) (hs : step me st = some st') : Inv st' := by
  have hme := me_lt hI hp
  have hw := hI.wf me
  unfold TWF at hw; rw [hp] at hw
  simp only [wfp, Bool.and_eq_true, decide_eq_true_eq, Option.isNone_iff_eq_none] at hw
  obtain ⟨⟨⟨⟨⟨hheld, hfresh⟩, hdrop⟩, hsnap⟩, hpeer⟩, hrest⟩ := hw
  simp only [step, hp] at hs
  split at hs
  · -- prefix limit exceeded: nothing happens
    injection hs with hs; subst hs
    exact inv_core (p := st.policy) (E := st.established) (A := st.addpath) (L := st.llgrGens) hI hme rfl rfl (fun r hr => ⟨r, hr, rfl, rfl⟩)
      (by unfold TWF; simpa [hheld, hfresh, hdrop] using hrest)
      (fun k hk => ⟨hI.heldlt me k hk, fun j hj hh => hj (hI.excl j me k hh hk)⟩)
      (hI.idsT me)
      (fun s k hk hf hs hns => hI.blind me s k hk hf hs hns)
  · injection hs with hs; subst hs
    have hR : ∀ k', updRib st.rib key (some ⟨encVal a, applyImport (st.threads me).pol (encVal a), (st.threads me).gen⟩) k' =
        if k' = key then some ⟨encVal a, applyImport (st.threads me).pol (encVal a), (st.threads me).gen⟩ else st.rib k' := fun k' => rfl
    refine inv_data hI _ _ _ hme rfl rfl rfl rfl rfl rfl
      (by unfold TWF; simpa [hheld, hfresh, hdrop] using hrest) (fun s e h => send_mono h) ?_ ?_ ?_ ?_ ?_ ?_
    · -- sup
      intro k' e he
      rw [hR] at he
      by_cases hk : k' = key
      · subst hk; exact ⟨mem_addKey.mpr (Or.inr rfl), hI.heldlt me _ hheld⟩
      · simp only [hk, if_false] at he
        exact ⟨mem_addKey.mpr (Or.inl (hI.sup k' e he).1), (hI.sup k' e he).2⟩
    · -- idsQ
      intro s hs
      have : s ∉ (st.threads me).subs := fun h => Nat.lt_irrefl _ (Nat.lt_of_lt_of_le (hI.idsT me s h) hs)
      rw [send_out this]; exact (hI.idsQ s hs).1
    · -- tshard
      intro s m k' htch
      rcases touched_send htch with h | ⟨_, h⟩
      · exact hI.tshard s m k' h
      · rw [touched_insEvs h]; exact hI.heldlt me _ hheld
    · -- dropped
      intro k' hdk
      rw [hR]
      by_cases hk : k' = key
      · subst hk
        obtain ⟨l, hl, _⟩ := hdk
        rw [hpeer, hdrop] at hl; cases hl
      · simp only [hk, if_false]
        exact (hI.dropped k' hdk).imp id (staleKeyR_congr (by rw [hR]; simp [hk])).mpr
    · -- blind
      intro i s k hh hf hs hns m k' hk' htch
      rcases touched_send htch with h | ⟨hin, h⟩
      · exact (hI.blind i s k hh hf hs hns).2 m k' hk' h
      · have := touched_insEvs h; subst this
        have : i = me := hI.excl i me _ (hk' ▸ hh) hheld
        subst this; exact hns hin
    · -- view
      intro s hs m k' hpre
      by_cases hin : s ∈ (st.threads me).subs
      · rw [send_in hin] at hpre ⊢
        by_cases hk : k' = key
        · subst hk
          left
          rw [view_append, view_insEvs]
          cases m <;> simp [ribVr, hR]
        · have hnt : ¬ touched m k' [Ev.pre key (some (encVal a)), Ev.post key (applyImport (st.threads me).pol (encVal a))] :=
            fun h => hk (touched_insEvs h)
          rw [view_append, foldl_untouched m k' _ _ hnt (by simp)]
          have hpre' : touched m k' (st.queues s) ∨ k'.shard ∈ st.done s := by
            rcases hpre with h | h
            · rw [touched_append] at h; exact h.elim Or.inl (fun h => absurd h hnt)
            · exact Or.inr h
          have : ribVr m (updRib st.rib key (some ⟨encVal a, applyImport (st.threads me).pol (encVal a), (st.threads me).gen⟩)) k' = ribV m st k' := by
            rw [ribV_eq]; simp [ribVr, hR, hk]
          rw [this]; exact escape_congr (by rw [hR]; simp [hk]) (hI.viewI s hs m k' hpre')
      · rw [send_out hin] at hpre ⊢
        have hb := hI.blind me s _ hheld hfresh hs hin
        by_cases hk : k' = key
        · subst hk
          rcases hpre with h | h
          · exact absurd h (hb.2 m _ rfl)
          · exact absurd h hb.1
        · have : ribVr m (updRib st.rib key (some ⟨encVal a, applyImport (st.threads me).pol (encVal a), (st.threads me).gen⟩)) k' = ribV m st k' := by
            rw [ribV_eq]; simp [ribVr, hR, hk]
          rw [this]; exact escape_congr (by rw [hR]; simp [hk]) (hI.viewI s hs m k' hpre)

theorem touched_remEvs {m key key'} :
    touched m key' [Ev.pre key none, Ev.post key none] → key' = key := by
  intro ⟨e, he, v, hv⟩
  simp at he
  rcases he with rfl | rfl <;> cases m <;> simp [proj] at hv <;> exact hv.1.symm

theorem view_remEvs {m key acc} :
    [Ev.pre key none, Ev.post key none].foldl (stepView m key) acc = none := by
  cases m <;> simp [stepView, proj]

/-- shared by both branches of `commitRem`: the table afterwards has no entry for `key` and is
    otherwise unchanged -/
theorem inv_rem {st : St} {me key} {t' : Thread} {R : Key → Option Entry} {AQ : Nat → List Bool} (hI : Inv st)
    (hme : me < st.nthreads)
    (hheld : (st.threads me).held = some key.shard) (hfresh : (st.threads me).fresh = true)
    (hsu : t'.subs = (st.threads me).subs) (hh : t'.held = (st.threads me).held)
    (hf : t'.fresh = (st.threads me).fresh)
    (hd : t'.drop = (st.threads me).drop) (hsn : t'.snapping = (st.threads me).snapping)
    (hms : t'.mysubs = (st.threads me).mysubs)
    (hwf : TWF st.n me t')
    (hR : ∀ k', R k' = if k' = key then none else st.rib k') :
    Inv { st with rib := R, queues := send st.queues (st.threads me).subs [Ev.pre key none, Ev.post key none],
                  apq := AQ, threads := updT st.threads me t' } := by
  refine inv_data hI _ _ _ hme hsu hh hf hd hsn hms hwf (fun s e h => send_mono h) ?_ ?_ ?_ ?_ ?_ ?_
  · intro k' e he
    rw [hR] at he
    by_cases hk : k' = key
    · simp [hk] at he
    · simp only [hk, if_false] at he; exact hI.sup k' e he
  · intro s hs
    have : s ∉ (st.threads me).subs := fun h => Nat.lt_irrefl _ (Nat.lt_of_lt_of_le (hI.idsT me s h) hs)
    rw [send_out this]; exact (hI.idsQ s hs).1
  · intro s m k' htch
    rcases touched_send htch with h | ⟨_, h⟩
    · exact hI.tshard s m k' h
    · rw [touched_remEvs h]; exact hI.heldlt me _ hheld
  · intro k' hdk
    rw [hR]
    by_cases hk : k' = key
    · simp [hk]
    · simp only [hk, if_false]
      exact (hI.dropped k' hdk).imp id (staleKeyR_congr (by rw [hR]; simp [hk])).mpr
  · intro i s k hh' hf' hs hns m k' hk' htch
    rcases touched_send htch with h | ⟨hin, h⟩
    · exact (hI.blind i s k hh' hf' hs hns).2 m k' hk' h
    · have := touched_remEvs h; subst this
      have : i = me := hI.excl i me _ (hk' ▸ hh') hheld
      subst this; exact hns hin
  · intro s hs m k' hpre
    by_cases hin : s ∈ (st.threads me).subs
    · rw [send_in hin] at hpre ⊢
      by_cases hk : k' = key
      · subst hk
        left
        rw [view_append, view_remEvs]
        cases m <;> simp [ribVr, hR]
      · have hnt : ¬ touched m k' [Ev.pre key none, Ev.post key none] := fun h => hk (touched_remEvs h)
        rw [view_append, foldl_untouched m k' _ _ hnt (by simp)]
        have hpre' : touched m k' (st.queues s) ∨ k'.shard ∈ st.done s := by
          rcases hpre with h | h
          · rw [touched_append] at h; exact h.elim Or.inl (fun h => absurd h hnt)
          · exact Or.inr h
        have : ribVr m R k' = ribV m st k' := by rw [ribV_eq]; simp [ribVr, hR, hk]
        rw [this]; exact escape_congr (by rw [hR]; simp [hk]) (hI.viewI s hs m k' hpre')
    · rw [send_out hin] at hpre ⊢
      have hb := hI.blind me s _ hheld hfresh hs hin
      by_cases hk : k' = key
      · subst hk
        rcases hpre with h | h
        · exact absurd h (hb.2 m _ rfl)
        · exact absurd h hb.1
      · have : ribVr m R k' = ribV m st k' := by rw [ribV_eq]; simp [ribVr, hR, hk]
        rw [this]; exact escape_congr (by rw [hR]; simp [hk]) (hI.viewI s hs m k' hpre)

theorem step_commitRem {st st' : St} {me key rest} (hI : Inv st)
    (hp : (st.threads me).pgm = .commitRem key :: rest) (hs : step me st = some st') : Inv st' := by
  have hme := me_lt hI hp
  have hw := hI.wf me
  unfold TWF at hw; rw [hp] at hw
  simp only [wfp, Bool.and_eq_true, decide_eq_true_eq, Option.isNone_iff_eq_none] at hw
  obtain ⟨⟨⟨⟨⟨hheld, hfresh⟩, hdrop⟩, hsnap⟩, hpeer⟩, hrest⟩ := hw
  simp only [step, hp] at hs
  split at hs
  · injection hs with hs; subst hs
    exact inv_rem (key := key) hI hme hheld hfresh rfl rfl rfl rfl rfl rfl
      (by unfold TWF; simpa [hheld, hfresh, hdrop] using hrest) (fun k' => rfl)
  · rename_i hnone
    injection hs with hs; subst hs
    have hkn : st.rib key = none := by simpa using hnone
    exact inv_rem (key := key) (R := st.rib) hI hme hheld hfresh rfl rfl rfl rfl rfl rfl
      (by unfold TWF; simpa [hheld, hfresh, hdrop] using hrest)
      (fun k' => by by_cases hk : k' = key <;> simp [hk, hkn])

/-- a batch of post-policy events, one per listed key -/
def postBatch (ks : List Key) (f : Key → Option Nat) : List Ev := ks.map fun key => Ev.post key (f key)

theorem postBatch_no_down (ks f) : ∀ e ∈ postBatch ks f, ∀ p, e ≠ .down p := by
  intro e he p; simp [postBatch] at he; obtain ⟨k, _, rfl⟩ := he; simp

theorem touched_postBatch {m key ks f} : touched m key (postBatch ks f) ↔ m = true ∧ key ∈ ks := by
  constructor
  · intro ⟨e, he, v, hv⟩
    simp [postBatch] at he; obtain ⟨k, hk, rfl⟩ := he
    cases m <;> simp [proj] at hv
    exact ⟨rfl, hv.1 ▸ hk⟩
  · intro ⟨hm, hk⟩
    subst hm
    exact ⟨Ev.post key (f key), by simp [postBatch]; exact ⟨key, hk, rfl, rfl⟩, f key, rfl⟩

theorem postBatch_val {m key ks f} : ∀ e ∈ postBatch ks f, ∀ w, proj m e = some (key, w) → w = f key := by
  intro e he w hw
  simp [postBatch] at he; obtain ⟨k, _, rfl⟩ := he
  cases m <;> simp [proj] at hw
  obtain ⟨rfl, rfl⟩ := hw; rfl

theorem mem_peerKeysIn {st : St} {p k key} :
    key ∈ peerKeysIn st p k ↔ key ∈ st.keys ∧ key.peer = p ∧ key.shard = k ∧ (st.rib key).isSome = true := by
  simp [peerKeysIn, and_assoc]

theorem mem_freshKeysIn {st : St} {p k key} :
    key ∈ freshKeysIn st p k ↔ key ∈ st.keys ∧ key.peer = p ∧ key.shard = k ∧
      ∃ e, st.rib key = some e ∧ isStale st p e = false := by
  unfold freshKeysIn
  rw [List.mem_filter, mem_peerKeysIn]
  constructor
  · rintro ⟨⟨h1, h2, h3, h4⟩, h5⟩
    obtain ⟨e, he⟩ := Option.isSome_iff_exists.mp h4
    exact ⟨h1, h2, h3, e, he, by simpa [he] using h5⟩
  · rintro ⟨h1, h2, h3, e, he, hs⟩
    exact ⟨⟨h1, h2, h3, by simp [he]⟩, by simp [he, hs]⟩

theorem step_commitSr {st st' : St} {me k p rest} (hI : Inv st)
    (hp : (st.threads me).pgm = .commitSr k p :: rest) (hs : step me st = some st') : Inv st' := by
  have hme := me_lt hI hp
  have hw := hI.wf me
  unfold TWF at hw; rw [hp] at hw
  simp only [wfp, Bool.and_eq_true, decide_eq_true_eq, Option.isNone_iff_eq_none] at hw
  obtain ⟨⟨⟨hheld, hfresh⟩, hsnap⟩, hrest⟩ := hw
  simp only [step, hp] at hs
  injection hs with hs; subst hs
  let pol := (st.threads me).pol
  let np : Key → Option Nat := fun key => (st.rib key).bind fun e => applyImport pol e.pre
  -- the table afterwards
  let R : Key → Option Entry := fun key => if key.peer = p ∧ key.shard = k then
      (st.rib key).map fun e => if isStale st p e = true then e else
        { e with post := applyImport (st.threads me).pol e.pre } else st.rib key
  have hevs : (freshKeysIn st p k).map (fun key => Ev.post key ((st.rib key).bind fun e => applyImport (st.threads me).pol e.pre))
      = postBatch (freshKeysIn st p k) np := rfl
  rw [hevs]
  -- the entry of a key keeps its session and its pre-policy attributes
  have hRsome : ∀ k' e, st.rib k' = some e → ∃ e', R k' = some e' ∧ e'.gen = e.gen ∧ e'.pre = e.pre := by
    intro k' e he
    by_cases hc : k'.peer = p ∧ k'.shard = k
    · by_cases hst : isStale st p e = true
      · exact ⟨e, by simp [R, hc, he, hst], rfl, rfl⟩
      · exact ⟨{ e with post := applyImport (st.threads me).pol e.pre }, by simp [R, hc, he, hst], rfl, rfl⟩
    · exact ⟨e, by simp [R, hc, he], rfl, rfl⟩
  have hRnone : ∀ k', st.rib k' = none → R k' = none := by
    intro k' he
    by_cases hc : k'.peer = p ∧ k'.shard = k <;> simp [R, hc, he]
  have hstale : ∀ k', staleKey st k' → staleKeyR R st.staleGens k' := by
    intro k' ⟨e, he, hg⟩
    obtain ⟨e', he', hgen, _⟩ := hRsome k' e he
    exact ⟨e', he', hgen ▸ hg⟩
  refine inv_data hI R _ _ hme rfl rfl rfl rfl rfl rfl
    (by unfold TWF; simpa [hheld, hfresh] using hrest) (fun s e h => send_mono h) ?_ ?_ ?_ ?_ ?_ ?_
  · intro k' e he
    cases h : st.rib k' with
    | none => rw [hRnone k' h] at he; cases he
    | some e0 => exact hI.sup k' e0 h
  · intro s hs
    have : s ∉ (st.threads me).subs := fun h => Nat.lt_irrefl _ (Nat.lt_of_lt_of_le (hI.idsT me s h) hs)
    rw [send_out this]; exact (hI.idsQ s hs).1
  · intro s m k' htch
    rcases touched_send htch with h | ⟨_, h⟩
    · exact hI.tshard s m k' h
    · have := (mem_freshKeysIn.mp (touched_postBatch.mp h).2).2.2.1
      rw [this]; exact hI.heldlt me _ hheld
  · intro k' hdk
    rcases hI.dropped k' hdk with h | h
    · left; exact hRnone k' h
    · right; exact hstale k' h
  · intro i s k0 hh hf hs hns' m k' hk' htch
    rcases touched_send htch with h | ⟨hin, h⟩
    · exact (hI.blind i s k0 hh hf hs hns').2 m k' hk' h
    · have hsh := (mem_freshKeysIn.mp (touched_postBatch.mp h).2).2.2.1
      have : i = me := hI.excl i me _ hh (by rw [← hk', hsh]; exact hheld)
      subst this; exact hns' hin
  · intro s hs m k' hpre
    -- what the table holds afterwards, per map
    have hribF : m = true → k' ∈ freshKeysIn st p k → ribVr m R k' = np k' := by
      intro hm hk
      obtain ⟨_, h2, h3, e, he, hst⟩ := mem_freshKeysIn.mp hk
      subst hm
      simp [ribVr, R, h2, h3, he, hst, np, pol]
    have hribO : ¬ (m = true ∧ k' ∈ freshKeysIn st p k) → ribVr m R k' = ribV m st k' := by
      intro hno
      rw [ribV_eq]
      cases he : st.rib k' with
      | none => simp [ribVr, hRnone k' he, he]
      | some e =>
        by_cases hc : k'.peer = p ∧ k'.shard = k
        · by_cases hst : isStale st p e = true
          · simp [ribVr, R, hc, he, hst]
          · cases m with
            | false => simp [ribVr, R, hc, he, hst]
            | true =>
              exact absurd ⟨rfl, mem_freshKeysIn.mpr ⟨(hI.sup k' e he).1, hc.1, hc.2, e, he, by simpa using hst⟩⟩ hno
        · simp [ribVr, R, hc, he]
    by_cases hin : s ∈ (st.threads me).subs
    · rw [send_in hin] at hpre ⊢
      by_cases hmem : m = true ∧ k' ∈ freshKeysIn st p k
      · -- re-announced key
        left
        rw [view_append, foldl_batch_hit m k' (np k') _ _ (postBatch_no_down _ _) postBatch_val
          (touched_postBatch.mpr hmem), hribF hmem.1 hmem.2]
      · have hnt : ¬ touched m k' (postBatch (freshKeysIn st p k) np) := fun h => hmem (touched_postBatch.mp h)
        rw [view_append, foldl_untouched m k' _ _ hnt (fun e he p hp => absurd hp (postBatch_no_down _ _ e he p))]
        have hpre' : touched m k' (st.queues s) ∨ k'.shard ∈ st.done s := by
          rcases hpre with h | h
          · rw [touched_append] at h; exact h.elim Or.inl (fun h => absurd h hnt)
          · exact Or.inr h
        rw [hribO hmem]
        exact (hI.viewI s hs m k' hpre').imp id (Or.imp id (hstale k'))
    · rw [send_out hin] at hpre ⊢
      have hb := hI.blind me s _ hheld hfresh hs hin
      by_cases hmem : m = true ∧ k' ∈ freshKeysIn st p k
      · have hsh := (mem_freshKeysIn.mp hmem.2).2.2.1
        rcases hpre with h | h
        · exact absurd h (hb.2 m _ hsh)
        · exact absurd (hsh ▸ h) hb.1
      · rw [hribO hmem]
        exact (hI.viewI s hs m k' hpre).imp id (Or.imp id (hstale k'))

theorem keepCore {st : St} {me : Nat} (hI : Inv st) :
    (∀ k, (st.threads me).held = some k → k < st.n ∧ ∀ j, j ≠ me → (st.threads j).held ≠ some k) ∧
    (∀ s k, (st.threads me).held = some k → (st.threads me).fresh = true → s ∈ st.subscribers →
        s ∉ (st.threads me).subs → k ∉ st.done s ∧ ∀ m key, key.shard = k → ¬ touched m key (st.queues s)) :=
  ⟨fun k hk => ⟨hI.heldlt me k hk, fun j hj hh => hj (hI.excl j me k hh hk)⟩,
   fun s k hk hf hs hns => hI.blind me s k hk hf hs hns⟩

theorem step_yld {st st' : St} {me y rest} (hI : Inv st)
    (hp : (st.threads me).pgm = .yld y :: rest) (hs : step me st = some st') : Inv st' := by
  have hme := me_lt hI hp
  have hw := hI.wf me
  unfold TWF at hw; rw [hp] at hw
  have hrest : wfp st.n me rest (st.threads me).held (st.threads me).fresh (st.threads me).drop
      ((st.threads me).snapping.map (·.2)) = true := by
    cases y <;> simp only [wfp, Bool.and_eq_true] at hw <;> first | exact hw | exact hw.2
  simp only [step, hp] at hs
  injection hs with hs; subst hs
  cases y <;>
    exact inv_core (p := st.policy) (E := st.established) (A := st.addpath) (L := st.llgrGens) hI hme rfl rfl (fun r hr => ⟨r, hr, rfl, rfl⟩) (by unfold TWF; simpa using hrest)
      (keepCore hI).1 (hI.idsT me) (keepCore hI).2

theorem step_loadPol {st st' : St} {me rest} (hI : Inv st)
    (hp : (st.threads me).pgm = .loadPol :: rest) (hs : step me st = some st') : Inv st' := by
  have hme := me_lt hI hp
  have hw := hI.wf me
  unfold TWF at hw; rw [hp] at hw
  simp only [wfp] at hw
  simp only [step, hp] at hs
  injection hs with hs; subst hs
  exact inv_core (p := st.policy) (E := st.established) (A := st.addpath) (L := st.llgrGens) hI hme rfl rfl (fun r hr => ⟨r, hr, rfl, rfl⟩) (by unfold TWF; simpa using hw)
    (keepCore hI).1 (hI.idsT me) (keepCore hI).2

theorem step_setPol {st st' : St} {me p rest} (hI : Inv st)
    (hp : (st.threads me).pgm = .setPol p :: rest) (hs : step me st = some st') : Inv st' := by
  have hme := me_lt hI hp
  have hw := hI.wf me
  unfold TWF at hw; rw [hp] at hw
  simp only [wfp] at hw
  simp only [step, hp] at hs
  injection hs with hs; subst hs
  exact inv_core (p := p) (E := st.established) (A := st.addpath) (L := st.llgrGens) hI hme rfl rfl (fun r hr => ⟨r, hr, rfl, rfl⟩) (by unfold TWF; simpa using hw)
    (keepCore hI).1 (hI.idsT me) (keepCore hI).2

theorem step_setEst {st st' : St} {me b rest} (hI : Inv st)
    (hp : (st.threads me).pgm = .setEst b :: rest) (hs : step me st = some st') : Inv st' := by
  have hme := me_lt hI hp
  have hw := hI.wf me
  unfold TWF at hw; rw [hp] at hw
  simp only [wfp] at hw
  simp only [step, hp] at hs
  injection hs with hs; subst hs
  exact inv_core (p := st.policy) (A := st.addpath) (L := st.llgrGens) hI hme rfl rfl (fun r hr => ⟨r, hr, rfl, rfl⟩) (by unfold TWF; simpa using hw)
    (keepCore hI).1 (hI.idsT me) (keepCore hI).2

theorem mem_setLast {l : List SubRec} {f : SubRec → SubRec} {r : SubRec} (h : r ∈ setLast l f) :
    ∃ r0 ∈ l, r = r0 ∨ r = f r0 := by
  unfold setLast at h
  cases hl : l.reverse with
  | nil => simp [hl] at h
  | cons x rest =>
    simp only [hl, List.mem_reverse, List.mem_cons] at h
    have hx : x ∈ l := List.mem_reverse.mp (by rw [hl]; simp)
    rcases h with h | h
    · exact ⟨x, hx, Or.inr h⟩
    · exact ⟨r, List.mem_reverse.mp (by rw [hl]; simp [h]), Or.inl rfl⟩

theorem step_regShard {st st' : St} {me k rest} (hI : Inv st)
    (hp : (st.threads me).pgm = .regShard k :: rest) (hs : step me st = some st') : Inv st' := by
  have hme := me_lt hI hp
  have hw := hI.wf me
  unfold TWF at hw; rw [hp] at hw
  simp only [wfp, Bool.and_eq_true, decide_eq_true_eq] at hw
  simp only [step, hp] at hs
  injection hs with hs; subst hs
  exact inv_core (p := st.policy) (E := st.established) (L := st.llgrGens) hI hme rfl rfl (fun r hr => ⟨r, hr, rfl, rfl⟩)
    (by unfold TWF; simpa using hw.2) (keepCore hI).1 (hI.idsT me) (keepCore hI).2

theorem step_captureE0 {st st' : St} {me rest} (hI : Inv st)
    (hp : (st.threads me).pgm = .captureE0 :: rest) (hs : step me st = some st') : Inv st' := by
  have hme := me_lt hI hp
  have hw := hI.wf me
  unfold TWF at hw; rw [hp] at hw
  simp only [wfp, Bool.and_eq_true] at hw
  simp only [step, hp] at hs
  injection hs with hs; subst hs
  refine inv_core (p := st.policy) (E := st.established) (A := st.addpath) (L := st.llgrGens) hI hme rfl rfl ?_
    (by unfold TWF; simpa using hw.2) (keepCore hI).1 (hI.idsT me) (keepCore hI).2
  intro r' hr'
  obtain ⟨r0, hr0, hrr⟩ := mem_setLast hr'
  refine ⟨r0, hr0, ?_⟩
  rcases hrr with rfl | rfl <;> exact ⟨rfl, rfl⟩

theorem step_ret {st st' : St} {me rest} (hI : Inv st)
    (hp : (st.threads me).pgm = .ret :: rest) (hs : step me st = some st') : Inv st' := by
  have hme := me_lt hI hp
  have hw := hI.wf me
  unfold TWF at hw; rw [hp] at hw
  simp only [wfp] at hw
  simp only [step, hp] at hs
  injection hs with hs; subst hs
  exact inv_core (p := st.policy) (E := st.established) (A := st.addpath) (L := st.llgrGens) hI hme rfl rfl (fun r hr => ⟨r, hr, rfl, rfl⟩) (by unfold TWF; simpa using hw)
    (keepCore hI).1 (hI.idsT me) (keepCore hI).2

theorem step_acquire {st st' : St} {me k rest} (hI : Inv st)
    (hp : (st.threads me).pgm = .acquire k :: rest) (hs : step me st = some st') : Inv st' := by
  have hme := me_lt hI hp
  have hw := hI.wf me
  unfold TWF at hw; rw [hp] at hw
  simp only [wfp, Bool.and_eq_true, decide_eq_true_eq, Option.isNone_iff_eq_none] at hw
  obtain ⟨⟨hnone, hk⟩, hrest⟩ := hw
  simp only [step, hp] at hs
  split at hs
  · rename_i hfree
    injection hs with hs; subst hs
    refine inv_core (p := st.policy) (E := st.established) (A := st.addpath) (L := st.llgrGens) hI hme rfl rfl (fun r hr => ⟨r, hr, rfl, rfl⟩) (by unfold TWF; simpa using hrest) ?_ (hI.idsT me) ?_
    · intro k' hk'
      simp at hk'; subst hk'
      exact ⟨hk, lockFree_spec hI hfree⟩
    · intro s k' _ hf; simp at hf
  · cases hs

theorem step_release {st st' : St} {me k rest} (hI : Inv st)
    (hp : (st.threads me).pgm = .release k :: rest) (hs : step me st = some st') : Inv st' := by
  have hme := me_lt hI hp
  have hw := hI.wf me
  unfold TWF at hw; rw [hp] at hw
  simp only [wfp, Bool.and_eq_true, decide_eq_true_eq] at hw
  obtain ⟨_, hrest⟩ := hw
  simp only [step, hp] at hs
  injection hs with hs; subst hs
  refine inv_core (p := st.policy) (E := st.established) (A := st.addpath) (L := st.llgrGens) hI hme rfl rfl (fun r hr => ⟨r, hr, rfl, rfl⟩) (by unfold TWF; simpa using hrest) ?_ (hI.idsT me) ?_
  · intro k' hk'; simp at hk'
  · intro s k' hk'; simp at hk'

theorem step_loadSubs {st st' : St} {me rest} (hI : Inv st)
    (hp : (st.threads me).pgm = .loadSubs :: rest) (hs : step me st = some st') : Inv st' := by
  have hme := me_lt hI hp
  have hw := hI.wf me
  unfold TWF at hw; rw [hp] at hw
  simp only [wfp] at hw
  simp only [step, hp] at hs
  injection hs with hs; subst hs
  refine inv_core (p := st.policy) (E := st.established) (A := st.addpath) (L := st.llgrGens) hI hme rfl rfl (fun r hr => ⟨r, hr, rfl, rfl⟩) (by unfold TWF; simpa using hw)
    (keepCore hI).1 (fun s hs => hI.idsS s hs) ?_
  intro s k _ _ hs hns
  exact absurd hs hns

theorem step_sendUp {st st' : St} {me rest} (hI : Inv st)
    (hp : (st.threads me).pgm = .sendUp :: rest) (hs : step me st = some st') : Inv st' := by
  have hme := me_lt hI hp
  have hw := hI.wf me
  unfold TWF at hw; rw [hp] at hw
  simp only [wfp, Bool.and_eq_true, Option.isNone_iff_eq_none] at hw
  obtain ⟨⟨hnone, hdrop⟩, hrest⟩ := hw
  simp only [step, hp] at hs
  injection hs with hs; subst hs
  have hnt : ∀ m key, ¬ touched m key [Ev.up me] := by
    intro m key ⟨e, he, v, hv⟩; simp at he; subst he; cases m <;> simp [proj] at hv
  have hq : ∀ s m key, touched m key (send st.queues st.subscribers [Ev.up me] s) ↔ touched m key (st.queues s) := by
    intro s m key
    constructor
    · intro h; rcases touched_send h with h | ⟨_, h⟩
      · exact h
      · exact absurd h (hnt m key)
    · intro h
      by_cases hin : s ∈ st.subscribers
      · rw [send_in hin, touched_append]; exact Or.inl h
      · rw [send_out hin]; exact h
  have hv : ∀ s m key, view m key (send st.queues st.subscribers [Ev.up me] s) = view m key (st.queues s) := by
    intro s m key
    by_cases hin : s ∈ st.subscribers
    · rw [send_in hin, view_append, foldl_untouched m key _ _ (hnt m key) (by simp)]
    · rw [send_out hin]
  refine inv_data hI st.rib st.keys _ hme rfl rfl rfl rfl rfl rfl
    (by unfold TWF; simpa using hrest) (fun s e h => send_mono h) hI.sup ?_ ?_ hI.dropped ?_ ?_
  · intro s hs
    have : s ∉ st.subscribers := fun h => Nat.lt_irrefl _ (Nat.lt_of_lt_of_le (hI.idsS s h) hs)
    rw [send_out this]; exact (hI.idsQ s hs).1
  · intro s m key h; exact hI.tshard s m key ((hq s m key).mp h)
  · intro i s k hh hf hs hns m key hk h
    exact (hI.blind i s k hh hf hs hns).2 m key hk ((hq s m key).mp h)
  · intro s hs m key hpre
    rw [hv, ← ribV_eq]
    exact hI.viewI s hs m key (hpre.imp_left (hq s m key).mp)

theorem step_commitDrop {st st' : St} {me k rest} (hI : Inv st)
    (hp : (st.threads me).pgm = .commitDrop k :: rest) (hs : step me st = some st') : Inv st' := by
  have hme := me_lt hI hp
  have hw := hI.wf me
  unfold TWF at hw; rw [hp] at hw
  simp only [wfp, Bool.and_eq_true, decide_eq_true_eq, Option.isNone_iff_eq_none] at hw
  obtain ⟨⟨hheld, hsnap⟩, hrest⟩ := hw
  simp only [step, hp] at hs
  injection hs with hs; subst hs
  -- dropped shards only grow
  have hds : ∀ key, droppedShard st key → droppedShard
      { st with rib := fun key => if key.peer = me ∧ key.shard = k then none else st.rib key,
                threads := updT st.threads me { (st.threads me) with pgm := rest, drop := some (k :: (st.threads me).drop.getD []) } } key := by
    intro key ⟨l, hl, hk⟩
    by_cases h : key.peer = me
    · refine ⟨k :: (st.threads me).drop.getD [], by simp [h], ?_⟩
      rw [h] at hl; simp [hl, hk]
    · exact ⟨l, by simp [updT_ne _ _ h]; exact hl, hk⟩
  constructor <;> dsimp only
  · intro i hi
    have : i ≠ me := by omega
    simp only [updT_ne _ _ this]; exact hI.idle i hi
  · intro i
    by_cases h : i = me
    · subst h; unfold TWF; simpa using hrest
    · simpa [updT_ne _ _ h] using hI.wf i
  · intro i j k' hi hj
    have e : ∀ i, (updT st.threads me { (st.threads me) with pgm := rest, drop := some (k :: (st.threads me).drop.getD []) } i).held
        = (st.threads i).held := by
      intro i; by_cases h : i = me
      · subst h; simp
      · simp [updT_ne _ _ h]
    rw [e] at hi hj; exact hI.excl i j k' hi hj
  · intro i k' hi
    by_cases h : i = me
    · subst h; simp at hi; exact hI.heldlt i k' hi
    · simp [updT_ne _ _ h] at hi; exact hI.heldlt i k' hi
  · intro key e he
    split at he
    · cases he
    · exact hI.sup key e he
  · exact hI.idsS
  · intro i s hs
    by_cases h : i = me
    · subst h; simp at hs; exact hI.idsT i s hs
    · simp [updT_ne _ _ h] at hs; exact hI.idsT i s hs
  · intro i s l hs
    by_cases h : i = me
    · subst h; simp at hs; exact hI.idsN i s l hs
    · simp [updT_ne _ _ h] at hs; exact hI.idsN i s l hs
  · exact hI.idsQ
  · intro i s l hs
    by_cases h : i = me
    · subst h; simp at hs; exact hI.snapl i s l hs
    · simp [updT_ne _ _ h] at hs; exact hI.snapl i s l hs
  · exact hI.comp
  · intro i r hr hw
    by_cases h : i = me
    · subst h; simp at hr ⊢; exact hI.recs i r hr hw
    · simp [updT_ne _ _ h] at hr ⊢; exact hI.recs i r hr hw
  · exact hI.tshard
  · exact hI.eosI
  · intro key hdk
    by_cases hc : key.peer = me ∧ key.shard = k
    · left; simp [hc]
    · have hold : droppedShard st key := by
        obtain ⟨l, hl, hk⟩ := hdk
        by_cases h : key.peer = me
        · rw [h] at hl; simp at hl; subst hl
          simp at hk
          rcases hk with hk | hk
          · exact absurd ⟨h, hk⟩ hc
          · refine ⟨(st.threads me).drop.getD [], ?_, hk⟩
            rw [h]
            cases hd : (st.threads me).drop with
            | none => simp [hd] at hk
            | some l => simp
        · simp [updT_ne _ _ h] at hl; exact ⟨l, hl, hk⟩
      rcases hI.dropped key hold with h | ⟨e, he, hg⟩
      · left; simp [hc, h]
      · right; exact ⟨e, by simp [hc, he], hg⟩
  · intro i s k' hh hf hs hns
    by_cases h : i = me
    · subst h; simp at hh hf hns; exact hI.blind i s k' hh hf hs hns
    · simp [updT_ne _ _ h] at hh hf hns; exact hI.blind i s k' hh hf hs hns
  · intro s hs m key hpre
    have hnew : key.peer = me ∧ key.shard = k → droppedShard
        { st with rib := fun key => if key.peer = me ∧ key.shard = k then none else st.rib key,
                  threads := updT st.threads me { (st.threads me) with pgm := rest, drop := some (k :: (st.threads me).drop.getD []) } } key :=
      fun hc => ⟨k :: (st.threads me).drop.getD [], by simp [hc.1], by simp [hc.2]⟩
    by_cases hc : key.peer = me ∧ key.shard = k
    · right; left; exact hnew hc
    · rcases hI.viewI s hs m key hpre with h | h | ⟨e, he, hg⟩
      · left
        rw [h, ribV_eq, ribV_eq]; cases m <;> simp [ribVr, hc]
      · right; left; exact hds key h
      · right; right; exact ⟨e, by simp [hc, he], hg⟩

theorem step_sendDown {st st' : St} {me rest} (hI : Inv st)
    (hp : (st.threads me).pgm = .sendDown :: rest) (hs : step me st = some st') : Inv st' := by
  have hme := me_lt hI hp
  have hw := hI.wf me
  unfold TWF at hw; rw [hp] at hw
  simp only [wfp, Bool.and_eq_true, Option.isNone_iff_eq_none] at hw
  obtain ⟨⟨⟨hheld, hsnap⟩, hcov⟩, hrest⟩ := hw
  simp only [step, hp] at hs
  injection hs with hs; subst hs
  have hnt : ∀ m key, ¬ touched m key [Ev.down me] := by
    intro m key ⟨e, he, v, hv⟩; simp at he; subst he; cases m <;> simp [proj] at hv
  have hq : ∀ s m key, touched m key (send st.queues st.subscribers [Ev.down me] s) ↔ touched m key (st.queues s) := by
    intro s m key
    constructor
    · intro h; rcases touched_send h with h | ⟨_, h⟩
      · exact h
      · exact absurd h (hnt m key)
    · intro h
      by_cases hin : s ∈ st.subscribers
      · rw [send_in hin, touched_append]; exact Or.inl h
      · rw [send_out hin]; exact h
  -- every key of this peer is gone from the table: all shards were dropped
  have hgone : ∀ key, key.peer = me → st.rib key = none ∨ staleKey st key := by
    intro key hk
    cases h : st.rib key with
    | none => exact Or.inl rfl
    | some e =>
      have hlt := (hI.sup key e h).2
      have hmem := cover_mem hcov hlt
      have : droppedShard st key := by
        refine ⟨(st.threads me).drop.getD [], ?_, hmem⟩
        rw [hk]
        cases hd : (st.threads me).drop with
        | none => simp [hd] at hmem
        | some l => simp
      rcases hI.dropped key this with h' | h'
      · rw [h'] at h; cases h
      · exact Or.inr h'
  constructor <;> dsimp only
  · intro i hi
    have : i ≠ me := by omega
    simp only [updT_ne _ _ this]; exact hI.idle i hi
  · intro i
    by_cases h : i = me
    · subst h; unfold TWF; simpa using hrest
    · simpa [updT_ne _ _ h] using hI.wf i
  · intro i j k' hi hj
    have hi' : (st.threads i).held = some k' := by
      by_cases h : i = me
      · subst h; simpa using hi
      · simpa [updT_ne _ _ h] using hi
    have hj' : (st.threads j).held = some k' := by
      by_cases h : j = me
      · subst h; simpa using hj
      · simpa [updT_ne _ _ h] using hj
    exact hI.excl i j k' hi' hj'
  · intro i k' hi
    by_cases h : i = me
    · subst h; simp at hi; exact hI.heldlt i k' hi
    · simp [updT_ne _ _ h] at hi; exact hI.heldlt i k' hi
  · exact hI.sup
  · exact hI.idsS
  · intro i s hs
    by_cases h : i = me
    · subst h; simp at hs; exact hI.idsT i s hs
    · simp [updT_ne _ _ h] at hs; exact hI.idsT i s hs
  · intro i s l hs
    by_cases h : i = me
    · subst h; simp at hs; exact hI.idsN i s l hs
    · simp [updT_ne _ _ h] at hs; exact hI.idsN i s l hs
  · intro s hs
    have : s ∉ st.subscribers := fun h => Nat.lt_irrefl _ (Nat.lt_of_lt_of_le (hI.idsS s h) hs)
    rw [send_out this]; exact hI.idsQ s hs
  · intro i s l hs
    by_cases h : i = me
    · subst h; simp at hs; exact hI.snapl i s l hs
    · simp [updT_ne _ _ h] at hs; exact hI.snapl i s l hs
  · exact hI.comp
  · intro i r hr hw
    by_cases h : i = me
    · subst h; simp at hr ⊢; exact hI.recs i r hr hw
    · simp [updT_ne _ _ h] at hr ⊢; exact hI.recs i r hr hw
  · intro s m key h; exact hI.tshard s m key ((hq s m key).mp h)
  · intro s hs; exact send_mono (hI.eosI s hs)
  · intro key ⟨l, hl, hk⟩
    by_cases h : key.peer = me
    · rw [h] at hl; simp at hl
    · simp [updT_ne _ _ h] at hl; exact hI.dropped key ⟨l, hl, hk⟩
  · intro i s k' hh hf hs hns
    have hb : k' ∉ st.done s ∧ ∀ m key, key.shard = k' → ¬ touched m key (st.queues s) := by
      by_cases h : i = me
      · subst h; simp at hh hf hns; exact hI.blind i s k' hh hf hs hns
      · simp [updT_ne _ _ h] at hh hf hns; exact hI.blind i s k' hh hf hs hns
    exact ⟨hb.1, fun m key hk h => hb.2 m key hk ((hq s m key).mp h)⟩
  · intro s hs m key hpre
    rw [send_in hs, view_append]
    have hpre' : touched m key (st.queues s) ∨ key.shard ∈ st.done s := hpre.imp_left (hq s m key).mp
    by_cases h : key.peer = me
    · have : [Ev.down me].foldl (stepView m key) (view m key (st.queues s)) = none := by
        cases m <;> simp [stepView, proj, h]
      rw [this]
      rcases hgone key h with hn | hst
      · left; rw [ribV_eq]; cases m <;> simp [ribVr, hn]
      · right; right; exact hst
    · have : [Ev.down me].foldl (stepView m key) (view m key (st.queues s)) = view m key (st.queues s) := by
        have : me ≠ key.peer := fun e => h e.symm
        cases m <;> simp [stepView, proj, this]
      rw [this]
      rcases hI.viewI s hs m key hpre' with hv | ⟨l, hl, hk⟩ | hst
      · left; exact hv
      · right; left; exact ⟨l, by simp [updT_ne _ _ h]; exact hl, hk⟩
      · right; right; exact hst

theorem step_sendDownGr {st st' : St} {me rest} (hI : Inv st)
    (hp : (st.threads me).pgm = .sendDownGr :: rest) (hs : step me st = some st') : Inv st' := by
  have hme := me_lt hI hp
  have hw := hI.wf me
  unfold TWF at hw; rw [hp] at hw
  simp only [wfp, Bool.and_eq_true, Option.isNone_iff_eq_none] at hw
  obtain ⟨⟨⟨hheld, hsnap⟩, hcov⟩, hrest⟩ := hw
  simp only [step, hp] at hs
  injection hs with hs; subst hs
  have hnt : ∀ m key, ¬ touched m key [Ev.down me] := by
    intro m key ⟨e, he, v, hv⟩; simp at he; subst he; cases m <;> simp [proj] at hv
  have hq : ∀ s m key, touched m key (send st.queues st.subscribers [Ev.down me] s) ↔ touched m key (st.queues s) := by
    intro s m key
    constructor
    · intro h; rcases touched_send h with h | ⟨_, h⟩
      · exact h
      · exact absurd h (hnt m key)
    · intro h
      by_cases hin : s ∈ st.subscribers
      · rw [send_in hin, touched_append]; exact Or.inl h
      · rw [send_out hin]; exact h
  -- every key of this peer is gone from the table: all shards were dropped
  have hgone : ∀ key, key.peer = me → st.rib key = none ∨ staleKey st key := by
    intro key hk
    cases h : st.rib key with
    | none => exact Or.inl rfl
    | some e =>
      have hlt := (hI.sup key e h).2
      have hmem := cover_mem hcov hlt
      have : droppedShard st key := by
        refine ⟨(st.threads me).drop.getD [], ?_, hmem⟩
        rw [hk]
        cases hd : (st.threads me).drop with
        | none => simp [hd] at hmem
        | some l => simp
      rcases hI.dropped key this with h' | h'
      · rw [h'] at h; cases h
      · exact Or.inr h'
  constructor <;> dsimp only
  · intro i hi
    have : i ≠ me := by omega
    simp only [updT_ne _ _ this]; exact hI.idle i hi
  · intro i
    by_cases h : i = me
    · subst h; unfold TWF; simpa using hrest
    · simpa [updT_ne _ _ h] using hI.wf i
  · intro i j k' hi hj
    have hi' : (st.threads i).held = some k' := by
      by_cases h : i = me
      · subst h; simpa using hi
      · simpa [updT_ne _ _ h] using hi
    have hj' : (st.threads j).held = some k' := by
      by_cases h : j = me
      · subst h; simpa using hj
      · simpa [updT_ne _ _ h] using hj
    exact hI.excl i j k' hi' hj'
  · intro i k' hi
    by_cases h : i = me
    · subst h; simp at hi; exact hI.heldlt i k' hi
    · simp [updT_ne _ _ h] at hi; exact hI.heldlt i k' hi
  · exact hI.sup
  · exact hI.idsS
  · intro i s hs
    by_cases h : i = me
    · subst h; simp at hs; exact hI.idsT i s hs
    · simp [updT_ne _ _ h] at hs; exact hI.idsT i s hs
  · intro i s l hs
    by_cases h : i = me
    · subst h; simp at hs; exact hI.idsN i s l hs
    · simp [updT_ne _ _ h] at hs; exact hI.idsN i s l hs
  · intro s hs
    have : s ∉ st.subscribers := fun h => Nat.lt_irrefl _ (Nat.lt_of_lt_of_le (hI.idsS s h) hs)
    rw [send_out this]; exact hI.idsQ s hs
  · intro i s l hs
    by_cases h : i = me
    · subst h; simp at hs; exact hI.snapl i s l hs
    · simp [updT_ne _ _ h] at hs; exact hI.snapl i s l hs
  · exact hI.comp
  · intro i r hr hw
    by_cases h : i = me
    · subst h; simp at hr ⊢; exact hI.recs i r hr hw
    · simp [updT_ne _ _ h] at hr ⊢; exact hI.recs i r hr hw
  · intro s m key h; exact hI.tshard s m key ((hq s m key).mp h)
  · intro s hs; exact send_mono (hI.eosI s hs)
  · intro key ⟨l, hl, hk⟩
    by_cases h : key.peer = me
    · rw [h] at hl; simp at hl
    · simp [updT_ne _ _ h] at hl; exact hI.dropped key ⟨l, hl, hk⟩
  · intro i s k' hh hf hs hns
    have hb : k' ∉ st.done s ∧ ∀ m key, key.shard = k' → ¬ touched m key (st.queues s) := by
      by_cases h : i = me
      · subst h; simp at hh hf hns; exact hI.blind i s k' hh hf hs hns
      · simp [updT_ne _ _ h] at hh hf hns; exact hI.blind i s k' hh hf hs hns
    exact ⟨hb.1, fun m key hk h => hb.2 m key hk ((hq s m key).mp h)⟩
  · intro s hs m key hpre
    rw [send_in hs, view_append]
    have hpre' : touched m key (st.queues s) ∨ key.shard ∈ st.done s := hpre.imp_left (hq s m key).mp
    by_cases h : key.peer = me
    · have : [Ev.down me].foldl (stepView m key) (view m key (st.queues s)) = none := by
        cases m <;> simp [stepView, proj, h]
      rw [this]
      rcases hgone key h with hn | hst
      · left; rw [ribV_eq]; cases m <;> simp [ribVr, hn]
      · right; right; exact hst
    · have : [Ev.down me].foldl (stepView m key) (view m key (st.queues s)) = view m key (st.queues s) := by
        have : me ≠ key.peer := fun e => h e.symm
        cases m <;> simp [stepView, proj, this]
      rw [this]
      rcases hI.viewI s hs m key hpre' with hv | ⟨l, hl, hk⟩ | hst
      · left; exact hv
      · right; left; exact ⟨l, by simp [updT_ne _ _ h]; exact hl, hk⟩
      · right; right; exact hst

theorem step_register {st st' : St} {me w b rest} (hI : Inv st)
    (hp : (st.threads me).pgm = .register w b :: rest) (hs : step me st = some st') : Inv st' := by
  have hme := me_lt hI hp
  have hw := hI.wf me
  unfold TWF at hw; rw [hp] at hw
  simp only [wfp, Bool.and_eq_true, Option.isNone_iff_eq_none] at hw
  obtain ⟨⟨⟨hheld, hdrop⟩, hsnap⟩, hrest⟩ := hw
  have hsnap' : (st.threads me).snapping = none := by
    cases h : (st.threads me).snapping <;> simp [h] at hsnap ⊢
  simp only [step, hp] at hs
  injection hs with hs; subst hs
  have hq0 := hI.idsQ st.nextSub (Nat.le_refl _)
  constructor <;> dsimp only
  · intro i hi
    have : i ≠ me := by omega
    simp only [updT_ne _ _ this]; exact hI.idle i hi
  · intro i
    by_cases h : i = me
    · subst h; unfold TWF
      cases w <;> simpa using hrest
    · simpa [updT_ne _ _ h] using hI.wf i
  · intro i j k' hi hj
    have hi' : (st.threads i).held = some k' := by
      by_cases h : i = me
      · subst h; simpa using hi
      · simpa [updT_ne _ _ h] using hi
    have hj' : (st.threads j).held = some k' := by
      by_cases h : j = me
      · subst h; simpa using hj
      · simpa [updT_ne _ _ h] using hj
    exact hI.excl i j k' hi' hj'
  · intro i k' hi
    by_cases h : i = me
    · subst h; simp at hi; exact hI.heldlt i k' hi
    · simp [updT_ne _ _ h] at hi; exact hI.heldlt i k' hi
  · exact hI.sup
  · intro s hs
    simp at hs
    rcases hs with hs | hs
    · exact Nat.lt_succ_of_lt (hI.idsS s hs)
    · omega
  · intro i s hs
    by_cases h : i = me
    · subst h; simp at hs; exact Nat.lt_succ_of_lt (hI.idsT i s hs)
    · simp [updT_ne _ _ h] at hs; exact Nat.lt_succ_of_lt (hI.idsT i s hs)
  · intro i s l hs
    by_cases h : i = me
    · subst h; simp at hs
      cases w <;> simp at hs
      omega
    · simp [updT_ne _ _ h] at hs; exact Nat.lt_succ_of_lt (hI.idsN i s l hs)
  · intro s hs; exact hI.idsQ s (by omega)
  · intro i s l hs
    by_cases h : i = me
    · subst h; simp at hs
      cases w <;> simp at hs
      obtain ⟨_, rfl⟩ := hs; intro k hk; cases hk
    · simp [updT_ne _ _ h] at hs; exact hI.snapl i s l hs
  · exact hI.comp
  · intro i r hr hwant
    by_cases h : i = me
    · subst h; simp at hr ⊢
      rcases hr with hr | hr
      · rcases hI.recs i r hr hwant with hc | ⟨l, hl⟩
        · exact Or.inl hc
        · rw [hsnap'] at hl; cases hl
      · subst hr; simp at hwant; subst hwant; right; simp
    · simp [updT_ne _ _ h] at hr ⊢; exact hI.recs i r hr hwant
  · exact hI.tshard
  · exact hI.eosI
  · intro key ⟨l, hl, hk⟩
    by_cases h : key.peer = me
    · rw [h] at hl; simp at hl; rw [hdrop] at hl; cases hl
    · simp [updT_ne _ _ h] at hl; exact hI.dropped key ⟨l, hl, hk⟩
  · intro i s k' hh hf hs hns
    have hcore : (st.threads i).held = some k' ∧ (st.threads i).fresh = true ∧ s ∉ (st.threads i).subs := by
      by_cases h : i = me
      · subst h; simp at hh hf hns; exact ⟨hh, hf, hns⟩
      · simp [updT_ne _ _ h] at hh hf hns; exact ⟨hh, hf, hns⟩
    simp at hs
    rcases hs with hs | hs
    · exact hI.blind i s k' hcore.1 hcore.2.1 hs hcore.2.2
    · subst hs
      rw [hq0.1, hq0.2]
      exact ⟨by simp, fun m key _ => touched_nil m key⟩
  · intro s hs m key hpre
    simp at hs
    rcases hs with hs | hs
    · rcases hI.viewI s hs m key hpre with hv | ⟨l, hl, hk⟩ | hst
      · left; exact hv
      · right; left
        refine ⟨l, ?_, hk⟩
        by_cases h : key.peer = me
        · rw [h] at hl ⊢; simp; exact hl
        · simp [updT_ne _ _ h]; exact hl
      · right; right; exact hst
    · subst hs
      rw [hq0.1, hq0.2] at hpre
      rcases hpre with h | h
      · exact absurd h (touched_nil m key)
      · simp at h

theorem step_sentinel {st st' : St} {me rest} (hI : Inv st)
    (hp : (st.threads me).pgm = .sentinel :: rest) (hs : step me st = some st') : Inv st' := by
  have hme := me_lt hI hp
  have hw := hI.wf me
  unfold TWF at hw; rw [hp] at hw
  cases hsn : (st.threads me).snapping with
  | none => simp [wfp, hsn] at hw
  | some sl =>
    obtain ⟨s0, l0⟩ := sl
    simp only [wfp, hsn, Option.map_some, Bool.and_eq_true, Option.isNone_iff_eq_none] at hw
    obtain ⟨hheld, hcov, hrest⟩ := hw
    simp only [step, hp, hsn] at hs
    injection hs with hs; subst hs
    have hs0 := hI.idsN me s0 l0 hsn
    have hnt : ∀ m key, ¬ touched m key [Ev.eos] := by
      intro m key ⟨e, he, v, hv⟩; simp at he; subst he; cases m <;> simp [proj] at hv
    have hq : ∀ s m key, touched m key (send st.queues [s0] [Ev.eos] s) ↔ touched m key (st.queues s) := by
      intro s m key
      constructor
      · intro h; rcases touched_send h with h | ⟨_, h⟩
        · exact h
        · exact absurd h (hnt m key)
      · intro h
        by_cases hin : s ∈ [s0]
        · rw [send_in hin, touched_append]; exact Or.inl h
        · rw [send_out hin]; exact h
    have hv : ∀ s m key, view m key (send st.queues [s0] [Ev.eos] s) = view m key (st.queues s) := by
      intro s m key
      by_cases hin : s ∈ [s0]
      · rw [send_in hin, view_append, foldl_untouched m key _ _ (hnt m key) (by simp)]
      · rw [send_out hin]
    constructor <;> dsimp only
    · intro i hi
      have : i ≠ me := by omega
      simp only [updT_ne _ _ this]; exact hI.idle i hi
    · intro i
      by_cases h : i = me
      · subst h; unfold TWF; simpa using hrest
      · simpa [updT_ne _ _ h] using hI.wf i
    · intro i j k' hi hj
      have hi' : (st.threads i).held = some k' := by
        by_cases h : i = me
        · subst h; simpa using hi
        · simpa [updT_ne _ _ h] using hi
      have hj' : (st.threads j).held = some k' := by
        by_cases h : j = me
        · subst h; simpa using hj
        · simpa [updT_ne _ _ h] using hj
      exact hI.excl i j k' hi' hj'
    · intro i k' hi
      by_cases h : i = me
      · subst h; simp at hi; exact hI.heldlt i k' hi
      · simp [updT_ne _ _ h] at hi; exact hI.heldlt i k' hi
    · exact hI.sup
    · exact hI.idsS
    · intro i s hs
      by_cases h : i = me
      · subst h; simp at hs; exact hI.idsT i s hs
      · simp [updT_ne _ _ h] at hs; exact hI.idsT i s hs
    · intro i s l hs
      by_cases h : i = me
      · subst h; simp at hs
      · simp [updT_ne _ _ h] at hs; exact hI.idsN i s l hs
    · intro s hs
      have : s ∉ [s0] := by simp; omega
      rw [send_out this]; exact hI.idsQ s hs
    · intro i s l hs
      by_cases h : i = me
      · subst h; simp at hs
      · simp [updT_ne _ _ h] at hs; exact hI.snapl i s l hs
    · intro s hs k hk
      simp at hs
      rcases hs with hs | hs
      · subst hs; exact hI.snapl me s l0 hsn k (cover_mem hcov hk)
      · exact hI.comp s hs k hk
    · intro i r hr hwant
      by_cases h : i = me
      · subst h; simp at hr ⊢
        rcases hI.recs i r hr hwant with hc | ⟨l, hl⟩
        · exact Or.inr hc
        · rw [hsn] at hl; simp at hl; exact Or.inl hl.1.symm
      · simp [updT_ne _ _ h] at hr ⊢
        rcases hI.recs i r hr hwant with hc | hl
        · exact Or.inl (Or.inr hc)
        · exact Or.inr hl
    · intro s m key h; exact hI.tshard s m key ((hq s m key).mp h)
    · intro s hs
      simp at hs
      rcases hs with hs | hs
      · subst hs; rw [send_in (by simp)]; simp
      · exact send_mono (hI.eosI s hs)
    · intro key ⟨l, hl, hk⟩
      by_cases h : key.peer = me
      · rw [h] at hl; simp at hl; exact hI.dropped key ⟨l, h ▸ hl, hk⟩
      · simp [updT_ne _ _ h] at hl; exact hI.dropped key ⟨l, hl, hk⟩
    · intro i s k' hh hf hs hns
      have hb : k' ∉ st.done s ∧ ∀ m key, key.shard = k' → ¬ touched m key (st.queues s) := by
        by_cases h : i = me
        · subst h; simp at hh hf hns; exact hI.blind i s k' hh hf hs hns
        · simp [updT_ne _ _ h] at hh hf hns; exact hI.blind i s k' hh hf hs hns
      exact ⟨hb.1, fun m key hk h => hb.2 m key hk ((hq s m key).mp h)⟩
    · intro s hs m key hpre
      rw [hv]
      rcases hI.viewI s hs m key (hpre.imp_left (hq s m key).mp) with hv | ⟨l, hl, hk⟩ | hst
      · left; exact hv
      · right; left
        refine ⟨l, ?_, hk⟩
        by_cases h : key.peer = me
        · rw [h] at hl ⊢; simp; exact hl
        · simp [updT_ne _ _ h]; exact hl
      · right; right; exact hst

def preBatch (ks : List Key) (f : Key → Option Nat) : List Ev := ks.map fun key => Ev.pre key (f key)

theorem preBatch_no_down (ks f) : ∀ e ∈ preBatch ks f, ∀ p, e ≠ .down p := by
  intro e he p; simp [preBatch] at he; obtain ⟨k, _, rfl⟩ := he; simp

theorem touched_preBatch {m key ks f} : touched m key (preBatch ks f) ↔ m = false ∧ key ∈ ks := by
  constructor
  · intro ⟨e, he, v, hv⟩
    simp [preBatch] at he; obtain ⟨k, hk, rfl⟩ := he
    cases m <;> simp [proj] at hv
    exact ⟨rfl, hv.1 ▸ hk⟩
  · intro ⟨hm, hk⟩
    subst hm
    exact ⟨Ev.pre key (f key), by simp [preBatch]; exact ⟨key, hk, rfl, rfl⟩, f key, rfl⟩

theorem preBatch_val {m key ks f} : ∀ e ∈ preBatch ks f, ∀ w, proj m e = some (key, w) → w = f key := by
  intro e he w hw
  simp [preBatch] at he; obtain ⟨k, _, rfl⟩ := he
  cases m <;> simp [proj] at hw
  obtain ⟨rfl, rfl⟩ := hw; rfl

theorem mem_shardKeys {st : St} {k key} :
    key ∈ shardKeys st k ↔ key ∈ st.keys ∧ key.shard = k ∧ (st.rib key).isSome = true := by
  simp [shardKeys]

theorem snapEvents_eq (st : St) (k) : snapEvents st k =
    preBatch (shardKeys st k) (preOf st) ++
    postBatch ((shardKeys st k).filter fun key => (postOf st key).isSome) (postOf st) := rfl

theorem touched_snap {st : St} {k m key} (h : touched m key (snapEvents st k)) : key.shard = k := by
  rw [snapEvents_eq, touched_append] at h
  rcases h with h | h
  · exact (mem_shardKeys.mp (touched_preBatch.mp h).2).2.1
  · have := (touched_postBatch.mp h).2
    simp at this
    exact (mem_shardKeys.mp this.1).2.1

theorem snap_no_down (st : St) (k) : ∀ e ∈ snapEvents st k, ∀ p, e ≠ .down p := by
  intro e he p
  rw [snapEvents_eq, List.mem_append] at he
  rcases he with he | he
  · exact preBatch_no_down _ _ e he p
  · exact postBatch_no_down _ _ e he p

/-- after the snapshot of its shard, the subscriber holds what the table holds for every key the
    table has; keys the table does not have are left as they were -/
theorem snap_fold {st : St} (hI : Inv st) {k m key} (hk : key.shard = k) (acc : Option Nat) :
    (snapEvents st k).foldl (stepView m key) acc =
      match ribV m st key with
      | some v => some v
      | none => acc := by
  rw [snapEvents_eq, List.foldl_append]
  cases m with
  | false =>
    -- the post batch is irrelevant for the pre-policy map
    have hB : ∀ acc', (postBatch ((shardKeys st k).filter fun key => (postOf st key).isSome) (postOf st)).foldl
        (stepView false key) acc' = acc' := fun acc' =>
      foldl_untouched false key _ _ (fun h => by simpa using (touched_postBatch.mp h).1)
        (fun e he p hp => absurd hp (postBatch_no_down _ _ e he p))
    rw [hB]
    cases hr : st.rib key with
    | none =>
      have : ¬ touched false key (preBatch (shardKeys st k) (preOf st)) := fun h => by
        have := (mem_shardKeys.mp (touched_preBatch.mp h).2).2.2; simp [hr] at this
      rw [foldl_untouched false key _ _ this (fun e he p hp => absurd hp (preBatch_no_down _ _ e he p))]
      simp [ribV, preOf, hr]
    | some e =>
      have hmem : key ∈ shardKeys st k := mem_shardKeys.mpr ⟨(hI.sup key e hr).1, hk, by simp [hr]⟩
      rw [foldl_batch_hit false key (preOf st key) _ _ (preBatch_no_down _ _) preBatch_val
        (touched_preBatch.mpr ⟨rfl, hmem⟩)]
      simp [ribV, preOf, hr]
  | true =>
    have hA : (preBatch (shardKeys st k) (preOf st)).foldl (stepView true key) acc = acc :=
      foldl_untouched true key _ _ (fun h => by simpa using (touched_preBatch.mp h).1)
        (fun e he p hp => absurd hp (preBatch_no_down _ _ e he p))
    rw [hA]
    cases hr : postOf st key with
    | none =>
      have : ¬ touched true key (postBatch ((shardKeys st k).filter fun key => (postOf st key).isSome) (postOf st)) :=
        fun h => by
          have := (touched_postBatch.mp h).2; simp [hr] at this
      rw [foldl_untouched true key _ _ this (fun e he p hp => absurd hp (postBatch_no_down _ _ e he p))]
      simp [ribV, hr]
    | some b =>
      have hsome : (st.rib key).isSome = true := by
        cases h : st.rib key with
        | none => simp [postOf, h] at hr
        | some e => rfl
      obtain ⟨e, he⟩ := Option.isSome_iff_exists.mp hsome
      have hmem : key ∈ (shardKeys st k).filter fun key => (postOf st key).isSome := by
        simp [hr]; exact mem_shardKeys.mpr ⟨(hI.sup key e he).1, hk, hsome⟩
      rw [foldl_batch_hit true key (postOf st key) _ _ (postBatch_no_down _ _) postBatch_val
        (touched_postBatch.mpr ⟨rfl, hmem⟩)]
      simp [ribV, hr]

theorem step_snap {st st' : St} {me k rest} (hI : Inv st)
    (hp : (st.threads me).pgm = .snap k :: rest) (hs : step me st = some st') : Inv st' := by
  have hme := me_lt hI hp
  have hw := hI.wf me
  unfold TWF at hw; rw [hp] at hw
  cases hsn : (st.threads me).snapping with
  | none => simp [wfp, hsn] at hw
  | some sl =>
    obtain ⟨s0, l0⟩ := sl
    simp only [wfp, hsn, Option.map_some, Bool.and_eq_true, decide_eq_true_eq, Bool.not_eq_true',
      Option.isNone_iff_eq_none] at hw
    obtain ⟨⟨⟨hheld, hfresh⟩, hdrop⟩, hrest⟩ := hw
    simp only [step, hp, hsn] at hs
    injection hs with hs; subst hs
    have hs0 := hI.idsN me s0 l0 hsn
    have hq : ∀ s, s ≠ s0 → send st.queues [s0] (snapEvents st k) s = st.queues s := by
      intro s h; exact send_out (by simpa using h)
    have hq0 : send st.queues [s0] (snapEvents st k) s0 = st.queues s0 ++ snapEvents st k := send_in (by simp)
    constructor <;> dsimp only
    · intro i hi
      have : i ≠ me := by omega
      simp only [updT_ne _ _ this]; exact hI.idle i hi
    · intro i
      by_cases h : i = me
      · subst h; unfold TWF; simpa [hheld, hfresh, hdrop] using hrest
      · simpa [updT_ne _ _ h] using hI.wf i
    · intro i j k' hi hj
      have hi' : (st.threads i).held = some k' := by
        by_cases h : i = me
        · subst h; simpa using hi
        · simpa [updT_ne _ _ h] using hi
      have hj' : (st.threads j).held = some k' := by
        by_cases h : j = me
        · subst h; simpa using hj
        · simpa [updT_ne _ _ h] using hj
      exact hI.excl i j k' hi' hj'
    · intro i k' hi
      by_cases h : i = me
      · subst h; simp at hi; exact hI.heldlt i k' hi
      · simp [updT_ne _ _ h] at hi; exact hI.heldlt i k' hi
    · exact hI.sup
    · exact hI.idsS
    · intro i s hs
      by_cases h : i = me
      · subst h; simp at hs; exact hI.idsT i s hs
      · simp [updT_ne _ _ h] at hs; exact hI.idsT i s hs
    · intro i s l hs
      by_cases h : i = me
      · subst h; simp at hs; rw [← hs.1]; exact hs0
      · simp [updT_ne _ _ h] at hs; exact hI.idsN i s l hs
    · intro s hs
      have hne : s ≠ s0 := by omega
      rw [hq s hne]; simp only [hne, if_false]; exact hI.idsQ s hs
    · intro i s l hs k' hk'
      by_cases h : i = me
      · subst h; simp at hs
        obtain ⟨rfl, rfl⟩ := hs
        simp at hk' ⊢
        rcases hk' with hk' | hk'
        · exact Or.inl hk'
        · exact Or.inr (hI.snapl i s0 l0 hsn k' hk')
      · simp [updT_ne _ _ h] at hs
        have := hI.snapl i s l hs k' hk'
        by_cases hs' : s = s0
        · simp [hs']; exact Or.inr (hs' ▸ this)
        · simp [hs']; exact this
    · intro s hs k' hk'
      have := hI.comp s hs k' hk'
      by_cases hs' : s = s0
      · simp [hs']; exact Or.inr (hs' ▸ this)
      · simp [hs']; exact this
    · intro i r hr hwant
      by_cases h : i = me
      · subst h; simp at hr ⊢
        rcases hI.recs i r hr hwant with hc | ⟨l, hl⟩
        · exact Or.inl hc
        · rw [hsn] at hl; simp at hl; exact Or.inr hl.1
      · simp [updT_ne _ _ h] at hr ⊢; exact hI.recs i r hr hwant
    · intro s m key h
      by_cases hs' : s = s0
      · subst hs'; rw [hq0, touched_append] at h
        rcases h with h | h
        · exact hI.tshard s m key h
        · rw [touched_snap h]; exact hI.heldlt me k hheld
      · rw [hq s hs'] at h; exact hI.tshard s m key h
    · intro s hs; exact send_mono (hI.eosI s hs)
    · intro key ⟨l, hl, hk⟩
      by_cases h : key.peer = me
      · rw [h] at hl; simp at hl; exact hI.dropped key ⟨l, h ▸ hl, hk⟩
      · simp [updT_ne _ _ h] at hl; exact hI.dropped key ⟨l, hl, hk⟩
    · intro i s k' hh hf hs hns
      by_cases h : i = me
      · subst h; simp at hf; rw [hfresh] at hf; cases hf
      · simp [updT_ne _ _ h] at hh hf hns
        have hb := hI.blind i s k' hh hf hs hns
        by_cases hs' : s = s0
        · subst hs'
          have hkk : k' ≠ k := fun e => h (hI.excl i me k (e ▸ hh) hheld)
          refine ⟨by simp [hkk]; exact hb.1, ?_⟩
          intro m key hkey htch
          rw [hq0, touched_append] at htch
          rcases htch with htch | htch
          · exact hb.2 m key hkey htch
          · exact hkk (hkey ▸ touched_snap htch)
        · rw [hq s hs']; simp only [hs', if_false]; exact hb
    · intro s hs m key hpre
      have hdsh : ∀ key, droppedShard st key → droppedShard
          { st with queues := send st.queues [s0] (snapEvents st k),
                    done := fun s' => if s' = s0 then k :: st.done s' else st.done s',
                    threads := updT st.threads me { (st.threads me) with pgm := rest, snapping := some (s0, k :: l0) } } key := by
        intro key ⟨l, hl, hk⟩
        refine ⟨l, ?_, hk⟩
        by_cases h : key.peer = me
        · rw [h] at hl ⊢; simp; exact hl
        · simp [updT_ne _ _ h]; exact hl
      by_cases hs' : s = s0
      · subst hs'
        rw [hq0] at hpre ⊢
        simp only [if_true] at hpre
        by_cases hk : key.shard = k
        · rw [view_append, snap_fold hI hk]
          change (match ribV m st key with | some v => some v | none => view m key (st.queues s)) = ribV m st key ∨ _
          cases hr : ribV m st key with
          | some v => left; rfl
          | none =>
            dsimp only
            by_cases hold : touched m key (st.queues s) ∨ key.shard ∈ st.done s
            · rcases hI.viewI s hs m key hold with hv | hd | hst
              · left; rw [hv, hr]
              · right; left; exact hdsh key hd
              · right; right; exact hst
            · left
              exact view_untouched m key _ (fun h => hold (Or.inl h))
        · have hnt : ¬ touched m key (snapEvents st k) := fun h => hk (touched_snap h)
          rw [view_append, foldl_untouched m key _ _ hnt (fun e he p hp => absurd hp (snap_no_down st k e he p))]
          have hold : touched m key (st.queues s) ∨ key.shard ∈ st.done s := by
            rcases hpre with h | h
            · rw [touched_append] at h; exact h.elim Or.inl (fun h => absurd h hnt)
            · simp at h; exact h.elim (fun h => absurd h hk) Or.inr
          rcases hI.viewI s hs m key hold with hv | hd | hst
          · left; exact hv
          · right; left; exact hdsh key hd
          · right; right; exact hst
      · rw [hq s hs'] at hpre ⊢
        simp only [hs', if_false] at hpre
        rcases hI.viewI s hs m key hpre with hv | hd | hst
        · left; exact hv
        · right; left; exact hdsh key hd
        · right; right; exact hst

theorem mem_gensIn {st : St} {p k : Nat} {key : Key} {e : Entry} (hkeys : key ∈ st.keys) (hp : key.peer = p)
    (hk : key.shard = k) (he : st.rib key = some e) : (p, e.gen) ∈ gensIn st p k := by
  simp only [gensIn, List.mem_filterMap]
  exact ⟨key, mem_peerKeysIn.mpr ⟨hkeys, hp, hk, by simp [he]⟩, by simp [he]⟩

theorem step_commitStale {st st' : St} {me k rest} (hI : Inv st)
    (hp : (st.threads me).pgm = .commitStale k :: rest) (hs : step me st = some st') : Inv st' := by
  have hme := me_lt hI hp
  have hw := hI.wf me
  unfold TWF at hw; rw [hp] at hw
  simp only [wfp, Bool.and_eq_true, decide_eq_true_eq, Option.isNone_iff_eq_none] at hw
  obtain ⟨⟨hheld, hsnap⟩, hrest⟩ := hw
  simp only [step, hp] at hs
  injection hs with hs; subst hs
  -- stale marks only accumulate
  have hmono : ∀ key, staleKey st key → staleKeyR st.rib (st.staleGens ++ gensIn st me k) key :=
    fun key ⟨e, he, hg⟩ => ⟨e, he, List.mem_append_left _ hg⟩
  have hold : ∀ key, ¬ (key.peer = me ∧ key.shard = k) →
      (∃ l, (updT st.threads me { (st.threads me) with pgm := rest, drop := some (k :: (st.threads me).drop.getD []) } key.peer).drop = some l ∧ key.shard ∈ l) →
      droppedShard st key := by
    intro key hc ⟨l, hl, hk⟩
    by_cases h : key.peer = me
    · rw [h] at hl; simp at hl; subst hl
      simp at hk
      rcases hk with hk | hk
      · exact absurd ⟨h, hk⟩ hc
      · refine ⟨(st.threads me).drop.getD [], ?_, hk⟩
        rw [h]
        cases hd : (st.threads me).drop with
        | none => simp [hd] at hk
        | some l => simp
    · simp [updT_ne _ _ h] at hl; exact ⟨l, hl, hk⟩
  have hds : ∀ key, droppedShard st key →
      (∃ l, (updT st.threads me { (st.threads me) with pgm := rest, drop := some (k :: (st.threads me).drop.getD []) } key.peer).drop = some l ∧ key.shard ∈ l) := by
    intro key ⟨l, hl, hk⟩
    by_cases h : key.peer = me
    · refine ⟨k :: (st.threads me).drop.getD [], by simp [h], ?_⟩
      rw [h] at hl; simp [hl, hk]
    · exact ⟨l, by simp [updT_ne _ _ h]; exact hl, hk⟩
  constructor <;> dsimp only
  · intro i hi
    have : i ≠ me := by omega
    simp only [updT_ne _ _ this]; exact hI.idle i hi
  · intro i
    by_cases h : i = me
    · subst h; unfold TWF; simpa using hrest
    · simpa [updT_ne _ _ h] using hI.wf i
  · intro i j k' hi hj
    have hi' : (st.threads i).held = some k' := by
      by_cases h : i = me
      · subst h; simpa using hi
      · simpa [updT_ne _ _ h] using hi
    have hj' : (st.threads j).held = some k' := by
      by_cases h : j = me
      · subst h; simpa using hj
      · simpa [updT_ne _ _ h] using hj
    exact hI.excl i j k' hi' hj'
  · intro i k' hi
    by_cases h : i = me
    · subst h; simp at hi; exact hI.heldlt i k' hi
    · simp [updT_ne _ _ h] at hi; exact hI.heldlt i k' hi
  · exact hI.sup
  · exact hI.idsS
  · intro i s hs
    by_cases h : i = me
    · subst h; simp at hs; exact hI.idsT i s hs
    · simp [updT_ne _ _ h] at hs; exact hI.idsT i s hs
  · intro i s l hs
    by_cases h : i = me
    · subst h; simp at hs; exact hI.idsN i s l hs
    · simp [updT_ne _ _ h] at hs; exact hI.idsN i s l hs
  · exact hI.idsQ
  · intro i s l hs
    by_cases h : i = me
    · subst h; simp at hs; exact hI.snapl i s l hs
    · simp [updT_ne _ _ h] at hs; exact hI.snapl i s l hs
  · exact hI.comp
  · intro i r hr hw
    by_cases h : i = me
    · subst h; simp at hr ⊢; exact hI.recs i r hr hw
    · simp [updT_ne _ _ h] at hr ⊢; exact hI.recs i r hr hw
  · exact hI.tshard
  · exact hI.eosI
  · intro key hdk
    by_cases hc : key.peer = me ∧ key.shard = k
    · cases he : st.rib key with
      | none => exact Or.inl rfl
      | some e =>
        right
        have hm := mem_gensIn (hI.sup key e he).1 hc.1 hc.2 he
        exact ⟨e, he, List.mem_append_right _ (by rw [hc.1]; exact hm)⟩
    · exact (hI.dropped key (hold key hc hdk)).imp id (hmono key)
  · intro i s k' hh hf hs hns
    by_cases h : i = me
    · subst h; simp at hh hf hns; exact hI.blind i s k' hh hf hs hns
    · simp [updT_ne _ _ h] at hh hf hns; exact hI.blind i s k' hh hf hs hns
  · intro s hs m key hpre
    rcases hI.viewI s hs m key hpre with h | h | h
    · left; exact h
    · right; left; exact hds key h
    · right; right; exact hmono key h

/-! ### the purge class -/

/-- the withdrawals `purge_notifying` sends: pre- and post-policy, one pair per removed key -/
def wdBatch (ks : List Key) : List Ev := ks.flatMap fun key => [Ev.pre key none, Ev.post key none]

theorem wdBatch_no_down (ks) : ∀ e ∈ wdBatch ks, ∀ p, e ≠ .down p := by
  intro e he p
  simp [wdBatch] at he
  obtain ⟨k, _, rfl | rfl⟩ := he <;> simp

theorem touched_wdBatch {m key ks} : touched m key (wdBatch ks) ↔ key ∈ ks := by
  constructor
  · intro ⟨e, he, v, hv⟩
    simp [wdBatch] at he
    obtain ⟨k, hk, rfl | rfl⟩ := he <;> cases m <;> simp [proj] at hv <;> exact hv.1 ▸ hk
  · intro hk
    cases m
    · exact ⟨Ev.pre key none, by simp only [wdBatch, List.mem_flatMap]; exact ⟨key, hk, by simp⟩, none, rfl⟩
    · exact ⟨Ev.post key none, by simp only [wdBatch, List.mem_flatMap]; exact ⟨key, hk, by simp⟩, none, rfl⟩

theorem wdBatch_val {m key ks} : ∀ e ∈ wdBatch ks, ∀ w, proj m e = some (key, w) → w = none := by
  intro e he w hw
  simp [wdBatch] at he
  obtain ⟨k, _, rfl | rfl⟩ := he <;> cases m <;> simp [proj] at hw <;> exact hw.2.symm

/-- `purge_notifying` around a bulk purge: removed paths are withdrawn to the subscribers loaded
    under the lock -/
theorem inv_purge {st : St} {me k : Nat} {t' : Thread} (gone : Entry → Bool) (hI : Inv st)
    (hme : me < st.nthreads)
    (hheld : (st.threads me).held = some k) (hfresh : (st.threads me).fresh = true)
    (hdrop : (st.threads me).drop = none)
    (hsu : t'.subs = (st.threads me).subs) (hh : t'.held = (st.threads me).held)
    (hf : t'.fresh = (st.threads me).fresh)
    (hd : t'.drop = (st.threads me).drop) (hsn : t'.snapping = (st.threads me).snapping)
    (hms : t'.mysubs = (st.threads me).mysubs)
    (hwf : TWF st.n me t') :
    Inv (purgeStep st me t' k gone) := by
  unfold purgeStep
  let ks := (peerKeysIn st me k).filter fun key => match st.rib key with
    | some e => gone e
    | none => false
  let R : Key → Option Entry := fun key =>
    if key.peer = me ∧ key.shard = k then (st.rib key).bind fun e => if gone e then none else some e
    else st.rib key
  have hks : ∀ key, key ∈ ks ↔ key ∈ st.keys ∧ key.peer = me ∧ key.shard = k ∧ ∃ e, st.rib key = some e ∧ gone e = true := by
    intro key
    simp only [ks, List.mem_filter, mem_peerKeysIn]
    constructor
    · rintro ⟨⟨h1, h2, h3, h4⟩, h5⟩
      obtain ⟨e, he⟩ := Option.isSome_iff_exists.mp h4
      exact ⟨h1, h2, h3, e, he, by simpa [he] using h5⟩
    · rintro ⟨h1, h2, h3, e, he, hg⟩
      exact ⟨⟨h1, h2, h3, by simp [he]⟩, by simp [he, hg]⟩
  have hRin : ∀ key, key ∈ ks → R key = none := by
    intro key hk
    obtain ⟨_, h2, h3, e, he, hg⟩ := (hks key).mp hk
    simp [R, h2, h3, he, hg]
  have hRout : ∀ key, key ∉ ks → R key = st.rib key := by
    intro key hk
    by_cases hc : key.peer = me ∧ key.shard = k
    · cases he : st.rib key with
      | none => simp [R, hc, he]
      | some e =>
        have hg : gone e = false := by
          cases hgo : gone e with
          | false => rfl
          | true => exact absurd ((hks key).mpr ⟨(hI.sup key e he).1, hc.1, hc.2, e, he, hgo⟩) hk
        simp [R, hc, he, hg]
    · simp [R, hc]
  show Inv { st with rib := R, queues := send st.queues t'.subs (wdBatch ks), apq := _, threads := _ }
  rw [hsu]
  refine inv_data hI R st.keys _ hme hsu hh hf hd hsn hms hwf (fun s e h => send_mono h) ?_ ?_ ?_ ?_ ?_ ?_
  · intro key e he
    by_cases hk : key ∈ ks
    · rw [hRin key hk] at he; cases he
    · rw [hRout key hk] at he; exact hI.sup key e he
  · intro s hs
    have : s ∉ (st.threads me).subs := fun h => Nat.lt_irrefl _ (Nat.lt_of_lt_of_le (hI.idsT me s h) hs)
    rw [send_out this]; exact (hI.idsQ s hs).1
  · intro s m key htch
    rcases touched_send htch with h | ⟨_, h⟩
    · exact hI.tshard s m key h
    · rw [((hks key).mp (touched_wdBatch.mp h)).2.2.1]; exact hI.heldlt me _ hheld
  · intro key hdk
    have hne : key.peer ≠ me := by
      intro h
      obtain ⟨l, hl, _⟩ := hdk
      rw [h, hdrop] at hl; cases hl
    have hk : key ∉ ks := fun h => hne ((hks key).mp h).2.1
    exact (hI.dropped key hdk).imp (fun h => by rw [hRout key hk]; exact h) (staleKeyR_congr (hRout key hk)).mpr
  · intro i s k0 hh' hf' hs hns m key hk' htch
    rcases touched_send htch with h | ⟨hin, h⟩
    · exact (hI.blind i s k0 hh' hf' hs hns).2 m key hk' h
    · have hsh := ((hks key).mp (touched_wdBatch.mp h)).2.2.1
      have : i = me := hI.excl i me _ hh' (by rw [← hk', hsh]; exact hheld)
      subst this; exact hns hin
  · intro s hs m key hpre
    by_cases hin : s ∈ (st.threads me).subs
    · rw [send_in hin] at hpre ⊢
      by_cases hk : key ∈ ks
      · left
        rw [view_append, foldl_batch_hit m key none _ _ (wdBatch_no_down _) wdBatch_val (touched_wdBatch.mpr hk)]
        cases m <;> simp [ribVr, hRin key hk]
      · have hnt : ¬ touched m key (wdBatch ks) := fun h => hk (touched_wdBatch.mp h)
        rw [view_append, foldl_untouched m key _ _ hnt (fun e he p hp => absurd hp (wdBatch_no_down _ e he p))]
        have hpre' : touched m key (st.queues s) ∨ key.shard ∈ st.done s := by
          rcases hpre with h | h
          · rw [touched_append] at h; exact h.elim Or.inl (fun h => absurd h hnt)
          · exact Or.inr h
        have : ribVr m R key = ribV m st key := by rw [ribV_eq]; simp [ribVr, hRout key hk]
        rw [this]; exact escape_congr (hRout key hk) (hI.viewI s hs m key hpre')
    · rw [send_out hin] at hpre ⊢
      have hb := hI.blind me s _ hheld hfresh hs hin
      by_cases hk : key ∈ ks
      · have hsh := ((hks key).mp hk).2.2.1
        rcases hpre with h | h
        · exact absurd h (hb.2 m _ hsh)
        · exact absurd (hsh ▸ h) hb.1
      · have : ribVr m R key = ribV m st key := by rw [ribV_eq]; simp [ribVr, hRout key hk]
        rw [this]; exact escape_congr (hRout key hk) (hI.viewI s hs m key hpre)

theorem wf_purge {st : St} {me k : Nat} {rest : List Instr} {ins : Instr} (hI : Inv st)
    (hp : (st.threads me).pgm = ins :: rest)
    (hins : ins = .commitPurge k ∨ ins = .commitDropQuiet k ∨ ins = .commitLpurge k) :
    (st.threads me).held = some k ∧ (st.threads me).fresh = true ∧ (st.threads me).drop = none ∧
    wfp st.n me rest (st.threads me).held (st.threads me).fresh (st.threads me).drop
      ((st.threads me).snapping.map (·.2)) = true := by
  have hw := hI.wf me
  unfold TWF at hw; rw [hp] at hw
  rcases hins with rfl | rfl | rfl <;>
    (simp only [wfp, Bool.and_eq_true, decide_eq_true_eq, Option.isNone_iff_eq_none] at hw
     exact ⟨hw.1.1.1.1, hw.1.1.1.2, hw.1.1.2, hw.2⟩)

theorem step_commitPurge {st st' : St} {me k rest} (hI : Inv st)
    (hp : (st.threads me).pgm = .commitPurge k :: rest) (hs : step me st = some st') : Inv st' := by
  obtain ⟨h1, h2, h3, h4⟩ := wf_purge hI hp (Or.inl rfl)
  simp only [step, hp] at hs
  injection hs with hs; subst hs
  exact inv_purge _ hI (me_lt hI hp) h1 h2 h3 rfl rfl rfl rfl rfl rfl (by unfold TWF; simpa using h4)

theorem step_commitDropQuiet {st st' : St} {me k rest} (hI : Inv st)
    (hp : (st.threads me).pgm = .commitDropQuiet k :: rest) (hs : step me st = some st') : Inv st' := by
  obtain ⟨h1, h2, h3, h4⟩ := wf_purge hI hp (Or.inr (Or.inl rfl))
  simp only [step, hp] at hs
  injection hs with hs; subst hs
  exact inv_purge _ hI (me_lt hI hp) h1 h2 h3 rfl rfl rfl rfl rfl rfl (by unfold TWF; simpa using h4)

theorem step_commitLpurge {st st' : St} {me k rest} (hI : Inv st)
    (hp : (st.threads me).pgm = .commitLpurge k :: rest) (hs : step me st = some st') : Inv st' := by
  obtain ⟨h1, h2, h3, h4⟩ := wf_purge hI hp (Or.inr (Or.inr rfl))
  simp only [step, hp] at hs
  injection hs with hs; subst hs
  exact inv_purge _ hI (me_lt hI hp) h1 h2 h3 rfl rfl rfl rfl rfl rfl (by unfold TWF; simpa using h4)

theorem step_commitLlgr {st st' : St} {me k rest} (hI : Inv st)
    (hp : (st.threads me).pgm = .commitLlgr k :: rest) (hs : step me st = some st') : Inv st' := by
  have hme := me_lt hI hp
  have hw := hI.wf me
  unfold TWF at hw; rw [hp] at hw
  simp only [wfp, Bool.and_eq_true, decide_eq_true_eq] at hw
  simp only [step, hp] at hs
  injection hs with hs; subst hs
  exact inv_core (p := st.policy) (E := st.established) (A := st.addpath) hI hme rfl rfl (fun r hr => ⟨r, hr, rfl, rfl⟩)
    (by unfold TWF; simpa using hw.2) (keepCore hI).1 (hI.idsT me) (keepCore hI).2

theorem markDead_spec : ∀ (l : List SubRec) {s l'}, markDead l = some (s, l') →
    ∀ r' ∈ l', ∃ r ∈ l, r.sid = r'.sid ∧ r.want = r'.want := by
  intro l
  induction l with
  | nil => intro s l' h; simp [markDead] at h
  | cons r rest ih =>
    intro s l' h r' hr'
    simp only [markDead] at h
    cases hm : markDead rest with
    | some p =>
      obtain ⟨s1, rest'⟩ := p
      simp [hm] at h
      obtain ⟨_, rfl⟩ := h
      simp at hr'
      rcases hr' with rfl | hr'
      · exact ⟨r', by simp, rfl, rfl⟩
      · obtain ⟨r0, hr0, h1, h2⟩ := ih hm r' hr'
        exact ⟨r0, by simp [hr0], h1, h2⟩
    | none =>
      simp [hm] at h
      obtain ⟨_, _, rfl⟩ := h
      simp at hr'
      rcases hr' with rfl | hr'
      · exact ⟨r, by simp, rfl, rfl⟩
      · exact ⟨r', by simp [hr'], rfl, rfl⟩

theorem step_unsubscribe {st st' : St} {me rest} (hI : Inv st)
    (hp : (st.threads me).pgm = .unsubscribe :: rest) (hs : step me st = some st') : Inv st' := by
  have hme := me_lt hI hp
  have hw := hI.wf me
  unfold TWF at hw; rw [hp] at hw
  simp only [wfp, Bool.and_eq_true, Option.isNone_iff_eq_none] at hw
  obtain ⟨hsnap, hrest⟩ := hw
  have hsnap' : (st.threads me).snapping = none := by
    cases h : (st.threads me).snapping <;> simp [h] at hsnap ⊢
  simp only [step, hp] at hs
  cases hm : markDead (st.threads me).mysubs with
  | none =>
    simp only [hm] at hs
    injection hs with hs; subst hs
    exact inv_core (p := st.policy) (E := st.established) (A := st.addpath) (L := st.llgrGens) hI hme rfl rfl (fun r hr => ⟨r, hr, rfl, rfl⟩) (by unfold TWF; simpa [hsnap'] using hrest)
      (keepCore hI).1 (hI.idsT me) (keepCore hI).2
  | some p =>
    obtain ⟨s0, ms⟩ := p
    simp only [hm] at hs
    injection hs with hs; subst hs
    have hsub : ∀ s, s ∈ st.subscribers.filter (· != s0) → s ∈ st.subscribers := by
      intro s h; exact (List.mem_filter.mp h).1
    constructor <;> dsimp only
    · intro i hi
      have : i ≠ me := by omega
      simp only [updT_ne _ _ this]; exact hI.idle i hi
    · intro i
      by_cases h : i = me
      · subst h; unfold TWF; simpa [hsnap'] using hrest
      · simpa [updT_ne _ _ h] using hI.wf i
    · intro i j k' hi hj
      have hi' : (st.threads i).held = some k' := by
        by_cases h : i = me
        · subst h; simpa using hi
        · simpa [updT_ne _ _ h] using hi
      have hj' : (st.threads j).held = some k' := by
        by_cases h : j = me
        · subst h; simpa using hj
        · simpa [updT_ne _ _ h] using hj
      exact hI.excl i j k' hi' hj'
    · intro i k' hi
      by_cases h : i = me
      · subst h; simp at hi; exact hI.heldlt i k' hi
      · simp [updT_ne _ _ h] at hi; exact hI.heldlt i k' hi
    · exact hI.sup
    · intro s hs; exact hI.idsS s (hsub s hs)
    · intro i s hs
      by_cases h : i = me
      · subst h; simp at hs; exact hI.idsT i s hs
      · simp [updT_ne _ _ h] at hs; exact hI.idsT i s hs
    · intro i s l hs
      by_cases h : i = me
      · subst h; simp at hs; exact hI.idsN i s l hs
      · simp [updT_ne _ _ h] at hs; exact hI.idsN i s l hs
    · exact hI.idsQ
    · intro i s l hs
      by_cases h : i = me
      · subst h; simp at hs; exact hI.snapl i s l hs
      · simp [updT_ne _ _ h] at hs; exact hI.snapl i s l hs
    · exact hI.comp
    · intro i r hr hwant
      by_cases h : i = me
      · subst h; simp at hr ⊢
        obtain ⟨r0, hr0, h1, h2⟩ := markDead_spec _ hm r hr
        rcases hI.recs i r0 hr0 (h2 ▸ hwant) with hc | ⟨l, hl⟩
        · exact Or.inl (h1 ▸ hc)
        · rw [hsnap'] at hl; cases hl
      · simp [updT_ne _ _ h] at hr ⊢; exact hI.recs i r hr hwant
    · exact hI.tshard
    · exact hI.eosI
    · intro key ⟨l, hl, hk⟩
      by_cases h : key.peer = me
      · rw [h] at hl; simp at hl; exact hI.dropped key ⟨l, h ▸ hl, hk⟩
      · simp [updT_ne _ _ h] at hl; exact hI.dropped key ⟨l, hl, hk⟩
    · intro i s k' hh hf hs hns
      by_cases h : i = me
      · subst h; simp at hh hf hns; exact hI.blind i s k' hh hf (hsub s hs) hns
      · simp [updT_ne _ _ h] at hh hf hns; exact hI.blind i s k' hh hf (hsub s hs) hns
    · intro s hs m key hpre
      rcases hI.viewI s (hsub s hs) m key hpre with hv | ⟨l, hl, hk⟩ | hst
      · left; exact hv
      · right; left
        refine ⟨l, ?_, hk⟩
        by_cases h : key.peer = me
        · rw [h] at hl ⊢; simp; exact hl
        · simp [updT_ne _ _ h]; exact hl
      · right; right; exact hst

/-- Every atomic step of every thread preserves the invariant. -/
theorem step_inv {st st' : St} {me : Nat} (hI : Inv st) (hs : step me st = some st') : Inv st' := by
  cases hp : (st.threads me).pgm with
  | nil => simp [step, hp] at hs
  | cons i rest =>
    cases i with
    | yld y => exact step_yld hI hp hs
    | loadPol => exact step_loadPol hI hp hs
    | acquire k => exact step_acquire hI hp hs
    | release k => exact step_release hI hp hs
    | loadSubs => exact step_loadSubs hI hp hs
    | commitIns key a => exact step_commitIns hI hp hs
    | commitRem key => exact step_commitRem hI hp hs
    | commitSr k p => exact step_commitSr hI hp hs
    | setEst b => exact step_setEst hI hp hs
    | regShard k => exact step_regShard hI hp hs
    | captureE0 => exact step_captureE0 hI hp hs
    | commitStale k => exact step_commitStale hI hp hs
    | commitDropQuiet k => exact step_commitDropQuiet hI hp hs
    | commitPurge k => exact step_commitPurge hI hp hs
    | commitLlgr k => exact step_commitLlgr hI hp hs
    | commitLpurge k => exact step_commitLpurge hI hp hs
    | sendDownGr => exact step_sendDownGr hI hp hs
    | commitDrop k => exact step_commitDrop hI hp hs
    | sendUp => exact step_sendUp hI hp hs
    | sendDown => exact step_sendDown hI hp hs
    | setPol p => exact step_setPol hI hp hs
    | register w b => exact step_register hI hp hs
    | snap k => exact step_snap hI hp hs
    | sentinel => exact step_sentinel hI hp hs
    | unsubscribe => exact step_unsubscribe hI hp hs
    | ret => exact step_ret hI hp hs

end Rbgp.Monitor
