/-
  Rbgp.Monitor.ConsumerMaster — C18: the consumer invariants hold in every reachable state, and
  the reference checker accepts every model run, consumer tasks included.
-/
import Rbgp.Monitor.ConsumerRun
namespace Rbgp.Monitor
open Rbgp.Monitor.Spec
set_option linter.unusedSimpArgs false

/-! ## The compiled programs respect the session phases -/

def neutral : Instr → Bool
  | .setEst _ | .sendUp | .sendDown | .sendDownGr | .commitIns _ _ | .register _ _ | .captureE0 => false
  | _ => true

theorem cOk_skip : ∀ (xs r : List Instr) (ph : Nat) (pd : Bool), xs.all neutral = true →
    cOk (xs ++ r) ph pd = cOk r ph pd := by
  intro xs
  induction xs with
  | nil => intro _ _ _ _; rfl
  | cons x xs ih =>
    intro r ph pd h
    simp only [List.all_cons, Bool.and_eq_true] at h
    have := ih r ph pd h.2
    cases x <;> simp [neutral] at h <;> simp [cOk, this]

theorem neutral_shards (n : Nat) (body : Nat → List Instr) (h : ∀ k, (body k).all neutral = true) :
    (perShard n fun k => lockSec k (body k)).all neutral = true := by
  simp only [perShard, List.all_flatMap, List.all_eq_true, List.mem_range]
  intro k _ i hi
  simp only [lockSec, List.mem_append, List.mem_cons, List.mem_singleton, List.not_mem_nil, or_false] at hi
  rcases hi with ((rfl | rfl | rfl) | hi) | rfl | rfl <;> try rfl
  exact List.all_eq_true.mp (h k) i hi

theorem cok_up (n me : Nat) (r : List Instr) (h : cOk r 2 false = true) :
    cOk (compile n me .up ++ r) 0 false = true := by
  simp only [compile, List.append_assoc, List.cons_append, List.nil_append, cOk]
  rw [cOk_skip _ _ _ _ (neutral_shards n (fun k => [.regShard k]) (fun k => rfl))]
  simp [cOk, h]

theorem cok_down (n me : Nat) (r : List Instr) (h : cOk r 0 false = true) :
    cOk (compile n me .down ++ r) 2 false = true := by
  simp only [compile, bulk, List.append_assoc, List.cons_append, List.nil_append, cOk]
  rw [cOk_skip _ _ _ _ (neutral_shards n (fun k => [.commitDrop k]) (fun k => rfl))]
  simp [cOk, h]

theorem cok_gdown (n me : Nat) (r : List Instr) (h : cOk r 0 false = true) :
    cOk (compile n me .gdown ++ r) 2 false = true := by
  simp only [compile, bulk, List.append_assoc, List.cons_append, List.nil_append, cOk]
  rw [cOk_skip _ _ _ _ (neutral_shards n (fun k => [.commitStale k]) (fun k => rfl))]
  simp [cOk, h]

theorem cok_ins (n me k j pid a : Nat) (r : List Instr) (h : cOk r 2 false = true) :
    cOk (compile n me (.ins k j pid a) ++ r) 2 false = true := by
  simp [compile, lockSec, cOk, h]

theorem cok_sub (n me : Nat) (w : Bool) (ph : Nat) (r : List Instr) (h : cOk r ph false = true) :
    cOk (compile n me (.sub w) ++ r) ph false = true := by
  cases w
  · simp [compile, cOk, h]
  · simp only [compile, if_true, List.append_assoc, List.cons_append, List.nil_append, cOk]
    simp only [show ((0 : Nat) != 0 && (0 : Nat) != 2) = false from rfl, Bool.not_false, Bool.true_and,
      show ((0 : Nat) != 1 || true) = true from rfl]
    rw [cOk_skip _ _ _ _ (neutral_shards n (fun k => [.snap k]) (fun k => rfl))]
    simp [cOk, h]

theorem cok_bmp (n me : Nat) (ph : Nat) (r : List Instr) (h : cOk r ph false = true) :
    cOk (compile n me .bmp ++ r) ph false = true := by
  simp only [compile, List.append_assoc, List.cons_append, List.nil_append, cOk]
  simp only [show ((1 : Nat) != 0 && (1 : Nat) != 2) = true from rfl, Bool.not_false, Bool.true_and,
    show ((1 : Nat) != 1 || true) = true from rfl]
  rw [cOk_skip _ _ _ _ (neutral_shards n (fun k => [.snap k]) (fun k => rfl))]
  simp [cOk, h]

theorem cok_mrt (n me : Nat) (ph : Nat) (r : List Instr) (h : cOk r ph false = true) :
    cOk (compile n me .mrt ++ r) ph false = true := by
  simp [compile, cOk, h]

theorem cok_watch (n me : Nat) (init post : Bool) (ph : Nat) (r : List Instr) (h : cOk r ph false = true) :
    cOk (compile n me (.watch init post) ++ r) ph false = true := by
  have hk : ∀ k : Nat, (k = 3 ∨ k = 4) → ((k != 0 && k != 2) = true ∧ (k != 1 || init) = true) := by
    intro k hk; rcases hk with rfl | rfl <;> simp
  have hkk : ((if post = true then 4 else 3 : Nat) = 3 ∨ (if post = true then 4 else 3 : Nat) = 4) := by
    cases post <;> simp
  obtain ⟨h1, h2⟩ := hk _ hkk
  cases init
  · simp only [compile, Bool.false_eq_true, if_false, List.append_assoc, List.cons_append, List.nil_append, cOk,
      List.append_nil]
    simp [h1, h2, cOk, h]
  · simp only [compile, if_true, List.append_assoc, List.cons_append, List.nil_append, cOk]
    rw [h1]
    simp only [Bool.not_false, Bool.true_and, h2]
    rw [cOk_skip _ _ _ _ (neutral_shards n (fun k => [.snap k]) (fun k => rfl))]
    simp [cOk, h]

theorem neutral_purgeLoop (n : Nat) (body : Nat → Instr) (h : ∀ k, neutral (body k) = true) :
    (purgeLoop n body).all neutral = true := by
  unfold purgeLoop
  apply neutral_shards n (fun k => [.loadSubs, .yld .loaded, body k])
  intro k
  simp only [List.all_cons, List.all_nil, Bool.and_true, h k]
  rfl

theorem cok_neutral (n me : Nat) (op : Op) (ph : Nat) (r : List Instr) (h : cOk r ph false = true)
    (hop : (compile n me op).all neutral = true) : cOk (compile n me op ++ r) ph false = true := by
  rw [cOk_skip _ _ _ _ hop]; exact h

theorem neutral_op (n me : Nat) (op : Op)
    (h : match op with
      | .rem _ _ _ | .sr _ | .pol _ | .purge | .dropfam | .llgr | .lpurge | .unsub => True
      | _ => False) : (compile n me op).all neutral = true := by
  cases op <;> simp only at h
  case rem k j pid => simp [compile, lockSec, neutral]
  case sr p =>
    simp only [compile, List.all_append, Bool.and_eq_true]
    exact ⟨⟨rfl, neutral_shards n (fun k => [.loadSubs, .yld .loaded, .commitSr k p]) (fun k => rfl)⟩, rfl⟩
  case pol p => simp [compile, neutral]
  case purge =>
    simp only [compile, List.all_append, Bool.and_eq_true]
    exact ⟨⟨rfl, neutral_purgeLoop n _ (fun k => rfl)⟩, rfl⟩
  case dropfam =>
    simp only [compile, List.all_append, Bool.and_eq_true]
    exact ⟨⟨rfl, neutral_purgeLoop n _ (fun k => rfl)⟩, rfl⟩
  case llgr =>
    simp only [compile, List.all_append, Bool.and_eq_true]
    exact ⟨⟨rfl, neutral_purgeLoop n _ (fun k => rfl)⟩, rfl⟩
  case lpurge =>
    simp only [compile, List.all_append, Bool.and_eq_true]
    exact ⟨⟨rfl, neutral_purgeLoop n _ (fun k => rfl)⟩, rfl⟩
  case unsub => simp [compile, neutral]

/-- `sessionsOk` cases compile to programs that respect the session phases -/
theorem compile_cok (n me : Nat) : ∀ (ops : List Op) (up : Bool), sessionOk up ops = true →
    cOk (compileAll n me ops) (if up then 2 else 0) false = true := by
  intro ops
  induction ops with
  | nil => intro up _; cases up <;> rfl
  | cons op r ih =>
    intro up h
    have hc : compileAll n me (op :: r) = compile n me op ++ compileAll n me r := by simp [compileAll]
    rw [hc]
    cases up
    · simp only [Bool.false_eq_true, if_false]
      cases op <;> simp only [sessionOk, Bool.false_and, Bool.false_eq_true] at h
      case up => exact cok_up n me _ (ih true h)
      case sr p => exact cok_neutral n me _ _ _ (ih false h) (neutral_op n me _ trivial)
      case pol p => exact cok_neutral n me _ _ _ (ih false h) (neutral_op n me _ trivial)
      case purge => exact cok_neutral n me _ _ _ (ih false h) (neutral_op n me _ trivial)
      case dropfam => exact cok_neutral n me _ _ _ (ih false h) (neutral_op n me _ trivial)
      case llgr => exact cok_neutral n me _ _ _ (ih false h) (neutral_op n me _ trivial)
      case lpurge => exact cok_neutral n me _ _ _ (ih false h) (neutral_op n me _ trivial)
      case unsub => exact cok_neutral n me _ _ _ (ih false h) (neutral_op n me _ trivial)
      case sub w => exact cok_sub n me w _ _ (ih false h)
      case bmp => exact cok_bmp n me _ _ (ih false h)
      case mrt => exact cok_mrt n me _ _ (ih false h)
      case watch a b => exact cok_watch n me a b _ _ (ih false h)
    · simp only [if_true]
      cases op <;> simp only [sessionOk, Bool.true_and, Bool.false_eq_true] at h
      case down => exact cok_down n me _ (ih false h)
      case gdown => exact cok_gdown n me _ (ih false h)
      case ins k j pid a => exact cok_ins n me k j pid a _ (ih true h)
      case rem k j pid => exact cok_neutral n me _ _ _ (ih true h) (neutral_op n me _ trivial)
      case sr p => exact cok_neutral n me _ _ _ (ih true h) (neutral_op n me _ trivial)
      case pol p => exact cok_neutral n me _ _ _ (ih true h) (neutral_op n me _ trivial)
      case purge => exact cok_neutral n me _ _ _ (ih true h) (neutral_op n me _ trivial)
      case dropfam => exact cok_neutral n me _ _ _ (ih true h) (neutral_op n me _ trivial)
      case llgr => exact cok_neutral n me _ _ _ (ih true h) (neutral_op n me _ trivial)
      case lpurge => exact cok_neutral n me _ _ _ (ih true h) (neutral_op n me _ trivial)
      case unsub => exact cok_neutral n me _ _ _ (ih true h) (neutral_op n me _ trivial)
      case sub w => exact cok_sub n me w _ _ (ih true h)
      case bmp => exact cok_bmp n me _ _ (ih true h)
      case mrt => exact cok_mrt n me _ _ (ih true h)
      case watch a b => exact cok_watch n me a b _ _ (ih true h)

/-! ## The invariants hold initially -/

theorem init_thread (c : Case) (i : Nat) :
    ((init c).threads i).ph = 0 ∧ ((init c).threads i).mysubs = [] ∧
    (((init c).threads i).pgm = [] ∨ ∃ w ops, c.threads[i]? = some (w, ops) ∧ ((init c).threads i).pgm = compileAll c.n i ops) := by
  simp only [init, initThreads]
  cases ht : c.threads[i]? with
  | none => simp
  | some t => obtain ⟨w, ops⟩ := t; exact ⟨rfl, rfl, Or.inr ⟨w, ops, rfl, rfl⟩⟩

theorem init_cok (c : Case) (h : sessionsOk c = true) : COK (init c) := by
  intro i
  obtain ⟨h1, h2, h3⟩ := init_thread c i
  have hpd : pendingOf ((init c).threads i) = false := by simp [pendingOf, h2]
  rw [h1, hpd]
  rcases h3 with h3 | ⟨w, ops, ht, h3⟩
  · rw [h3]; rfl
  · rw [h3]
    have hmem : (w, ops) ∈ c.threads := List.mem_of_getElem? ht
    simp only [sessionsOk, List.all_eq_true] at h
    exact compile_cok c.n i ops false (h _ hmem)

theorem init_cb (c : Case) : CB (init c) := by
  constructor
  · intro p; simp [(init_thread c p).1]; simp [init]
  · intro i r hr; rw [(init_thread c i).2.1] at hr; cases hr
  · intro i j r hr; rw [(init_thread c i).2.1] at hr; cases hr
  · intro i r hr; rw [(init_thread c i).2.1] at hr; cases hr
  · intro i r hr; rw [(init_thread c i).2.1] at hr; cases hr
  · intro i r hr; rw [(init_thread c i).2.1] at hr; cases hr
  · intro i r hr; rw [(init_thread c i).2.1] at hr; cases hr

theorem init_cb0 (c : Case) : CB0 (init c) := by
  constructor
  · intro i r hr; rw [(init_thread c i).2.1] at hr; cases hr
  · intro i j r hr; rw [(init_thread c i).2.1] at hr; cases hr
  · intro i r hr; rw [(init_thread c i).2.1] at hr; cases hr

def endish : Instr → Bool
  | .sendDown | .sendDownGr | .commitStale _ => true
  | _ => false

theorem noEnd_shards (n : Nat) (body : Nat → List Instr) (h : ∀ k, (body k).all (fun i => !endish i) = true) :
    (perShard n fun k => lockSec k (body k)).all (fun i => !endish i) = true := by
  simp only [perShard, List.all_flatMap, List.all_eq_true, List.mem_range]
  intro k _ i hi
  simp only [lockSec, List.mem_append, List.mem_cons, List.mem_singleton, List.not_mem_nil, or_false] at hi
  rcases hi with ((rfl | rfl | rfl) | hi) | rfl | rfl <;> try rfl
  exact List.all_eq_true.mp (h k) i hi

theorem noEnd_compile (n me : Nat) (op : Op) (h : (grOp op || op == .down) = false) :
    (compile n me op).all (fun i => !endish i) = true := by
  cases op <;> simp [grOp] at h
  case up =>
    simp only [compile, List.all_append, Bool.and_eq_true]
    exact ⟨⟨rfl, noEnd_shards n (fun k => [.regShard k]) (fun k => rfl)⟩, rfl⟩
  case ins k j pid a => simp [compile, lockSec, endish]
  case rem k j pid => simp [compile, lockSec, endish]
  case sr p =>
    simp only [compile, List.all_append, Bool.and_eq_true]
    exact ⟨⟨rfl, noEnd_shards n (fun k => [.loadSubs, .yld .loaded, .commitSr k p]) (fun k => rfl)⟩, rfl⟩
  case pol p => simp [compile, endish]
  case sub w =>
    cases w
    · simp [compile, endish]
    · simp only [compile, if_true, List.all_append, Bool.and_eq_true]
      exact ⟨⟨rfl, ⟨noEnd_shards n (fun k => [.snap k]) (fun k => rfl), rfl⟩⟩, rfl⟩
  case bmp =>
    simp only [compile, List.all_append, Bool.and_eq_true]
    exact ⟨⟨rfl, noEnd_shards n (fun k => [.snap k]) (fun k => rfl)⟩, rfl⟩
  case mrt => simp [compile, endish]
  case watch a b =>
    cases a
    · simp [compile, endish]
    · simp only [compile, if_true, List.all_append, Bool.and_eq_true]
      exact ⟨⟨rfl, ⟨noEnd_shards n (fun k => [.snap k]) (fun k => rfl), rfl⟩⟩, rfl⟩
  case unsub => simp [compile, endish]

theorem init_ne (c : Case) : NE c (init c) := by
  intro p hpe
  refine ⟨?_, fun s hm => by simp [init] at hm, fun g hm => by simp [init] at hm⟩
  intro ins hins
  obtain ⟨_, _, h3⟩ := init_thread c p
  rcases h3 with h3 | ⟨w, ops, ht, h3⟩
  · rw [h3] at hins; cases hins
  · rw [h3] at hins
    simp only [compileAll, List.mem_flatMap] at hins
    obtain ⟨op, hop, hin⟩ := hins
    simp only [peerEnds, ht, List.any_eq_false] at hpe
    have := hpe op hop
    have hall := noEnd_compile c.n p op (by simpa using this)
    have := List.all_eq_true.mp hall ins hin
    cases ins <;> simp [endish] at this ⊢

/-! ## The invariants in every reachable state -/

/-- for every case -/
theorem reach_r0 {c : Case} {st : St} (h : Reach c st) : CB0 st ∧ NE c st := by
  induction h with
  | init => exact ⟨init_cb0 c, init_ne c⟩
  | @step st st' i _ hs ih =>
    cases hp : (st.threads i).pgm with
    | nil => simp [step, hp] at hs
    | cons ins rest => exact ⟨step_cb0 ih.1 hp hs, step_ne ih.2 hp hs⟩

/-- the consumer invariants, for every case whose sessions announce routes only between their
    up and their down -/
structure CInv (st : St) : Prop where
  cok : COK st
  cb : CB st
  phi : PHI st
  pu1 : PU1 st
  pu2 : PU2 st
  ci : CI st

theorem init_cinv (c : Case) (h : sessionsOk c = true) : CInv (init c) := by
  refine ⟨init_cok c h, init_cb c, ?_, ?_, ?_, ?_⟩
  · intro key e hr; simp [init] at hr
  · intro s hs; simp [init] at hs
  · intro i r hr; rw [(init_thread c i).2.1] at hr; cases hr
  · intro s hs; simp [init] at hs

theorem reach_cinv {c : Case} (hc : caseOk c = true) (hso : sessionsOk c = true) {st : St} (h : Reach c st) :
    CInv st := by
  induction h with
  | init => exact init_cinv c hso
  | @step st st' i hr hs ih =>
    have hI := reach_inv hc hr
    cases hp : (st.threads i).pgm with
    | nil => simp [step, hp] at hs
    | cons ins rest =>
      refine ⟨step_cok ih.cok hp hs, step_cb hI ih.cok ih.cb hp hs, step_phi hI ih.cok ih.phi hp hs,
        step_pu1 hI ih.pu1 hp hs, step_pu2 ih.cb ih.pu1 ih.pu2 hp hs, step_ci hI ih.phi ?_ hp hs ih.ci⟩
      intro hi
      have := ih.cok i
      rw [hp, hi] at this
      simp only [cOk, Bool.and_eq_true, beq_iff_eq] at this
      exact this.1

/-! ## Once the writers have finished -/

theorem quiescent_ph {st : St} (hC : CInv st) (hq : quiescent st) (i : Nat) :
    ((st.threads i).ph = 0 ∨ (st.threads i).ph = 2) ∧ pendingOf (st.threads i) = false := by
  have := hC.cok i
  rw [hq i] at this
  simp only [cOk, Bool.and_eq_true, Bool.or_eq_true, beq_iff_eq, Bool.not_eq_true'] at this
  exact this

/-- every BMP connection / watch stream has read the peer table -/
theorem all_capped {st : St} (hC : CInv st) (hq : quiescent st) {i : Nat} {r : SubRec}
    (hr : r ∈ (st.threads i).mysubs) (hk0 : r.kind ≠ 0) (hk2 : r.kind ≠ 2) : r.cap = true := by
  rcases mem_split_last _ _ hr with h | h
  · exact hC.cb.capd i r h hk0 hk2
  · have hpd := (quiescent_ph hC hq i).2
    unfold pendingOf at hpd
    rw [h] at hpd
    simp only [Bool.and_eq_false_iff, bne_eq_false_iff_eq, Bool.not_eq_false'] at hpd
    rcases hpd with (h' | h') | h'
    · exact absurd h' hk0
    · exact absurd h' hk2
    · exact h'

/-- The refinement step of the master theorem: wherever a channel subscriber of the same channel
    holds what the table holds (`reconstruct`, `last_current`), so does the station of a BMP
    connection / the client of a watch stream. -/
theorem cons_end {st : St} (hI : Inv st) (hC : CInv st) (hq : quiescent st) {i : Nat} {r : SubRec}
    (hr : r ∈ (st.threads i).mysubs) (hk0 : r.kind ≠ 0) (hk2 : r.kind ≠ 2) (m : Bool) (key : Key)
    (hns : ¬ staleKey st key) (hv : view m key (st.queues r.sid) = ribV m st key) :
    (cvFold m key r.e0 (r.kind != 1) (st.queues r.sid)).w = ribV m st key := by
  have hcap := all_capped hC hq hr hk0 hk2
  have hsub := hC.cb.cs i r hr hk0
  cases hrib : st.rib key with
  | none =>
    have hg := good_fold m key r.e0 (r.kind != 1) (st.queues r.sid)
    rw [hv, ribV_none m hrib] at hg
    rw [ribV_none m hrib]
    unfold Good at hg
    split at hg
    · rcases hg.2 with h | h <;> exact h
    · exact hg
  | some e =>
    have hph : (st.threads key.peer).ph = 2 := by
      rcases (quiescent_ph hC hq key.peer).1 with h | h
      · exact absurd ⟨e, hrib, hC.phi key e hrib (Or.inl h)⟩ hns
      · exact h
    have hann := hC.pu2 i r hr hk0 hcap key.peer hph m key
    rcases hC.ci _ hsub m key r.e0 (r.kind != 1) with h | h | h
    · rw [h hann, hv]
    · exact absurd h (quiescent_not_dropped hI hq key)
    · exact absurd h hns

theorem mem_consRun : ∀ (q : List Ev) (sent : List Nat) (e : Ev), e ∈ consRun q sent → e ∈ q := by
  intro q
  induction q with
  | nil => intro _ _ h; cases h
  | cons x r ih =>
    intro sent e h
    simp only [consRun, List.mem_append] at h
    rcases h with h | h
    · have : e = x := by
        cases x <;> simp only [consStep] at h
        case pre k v => split at h <;> simp at h; exact h
        case post k v => split at h <;> simp at h; exact h
        case up p => simpa using h
        case down p => split at h <;> simp at h; exact h
        case eos => cases h
      rw [this]; exact List.mem_cons_self
    · exact List.mem_cons_of_mem _ (ih _ _ h)

/-- a route record the consumer wrote out for (map, key) stems from a route event it received -/
theorem touched_consHist (m : Bool) (key : Key) (q : List Ev) (sent : List Nat)
    (h : Spec.touched (consHist m key q sent) = true) : touched m key q := by
  have h' : touched m key (consRun q sent) := by
    cases m
    · simp only [consHist, Bool.false_eq_true, if_false] at h; exact touched_histPre key _ h
    · simp only [consHist, if_true] at h; exact touched_histPost key _ h
  obtain ⟨e, he, v, hv⟩ := h'
  exact ⟨e, mem_consRun _ _ _ he, v, hv⟩

theorem checkMrtKeys_map (c : Case) (f : Key → List Item × List Item) (g : Key → Option Nat × Option Nat) :
    ∀ (u : List Key) (pos : Nat),
    (∀ key ∈ u, (if (Spec.touched (f key).1 && !peerEnds c key.peer) = true then
        Spec.cmp "mrt-pre" (Spec.held (f key).1) (g key).1 else none) = none) →
    Spec.checkMrtKeys c pos u (u.map f) (u.map g) = none := by
  intro u
  induction u with
  | nil => intro _ _; rfl
  | cons k r ih =>
    intro pos h
    simp only [List.map_cons, Spec.checkMrtKeys, h k (by simp)]
    exact ih _ (fun key hk => h key (by simp [hk]))

theorem stale_flag {st : St} (key : Key) (h : staleKey st key) :
    (match st.rib key with
      | some e => isStale st key.peer e
      | none => false) = true := by
  obtain ⟨e, he, hg⟩ := h
  simp [he, isStale, hg]

/-! ## The master theorem, consumer tasks included -/

/-- a BMP connection of the finished run passes the checker -/
theorem checkSub_bmp (c : Case) (hc : caseOk c = true) (i nth : Nat) (r : SubRec)
    (hr' : r ∈ ((run c).threads i).mysubs) (hk : r.kind = 1) (hnst : ∀ key, ¬ staleKey (run c) key) :
    Spec.checkSub c (keyUniverse c) ((keyUniverse c).map fun key => (preOf (run c) key, postOf (run c) key))
      ((keyUniverse c).map fun key => match (run c).rib key with
        | some e => isStale (run c) key.peer e
        | none => false)
      (subObs (run c) (keyUniverse c) i nth r) = none := by
  have hr := run_reach c
  have hI := reach_inv hc hr
  have hfin := run_finished c hc
  have hq := finished_quiescent hI hfin
  unfold Spec.checkSub
  simp only [subObs, hk]
  simp only [show ((1 : Nat) == 1) = true from rfl, if_true]
  have hctl : ((List.range (run c).nthreads).map fun p => wireCtl p ((run c).queues r.sid) r.e0).all
      (fun l => downsFollowUps l []) = true := by
    simp only [List.all_eq_true, List.mem_map]
    rintro l ⟨p, _, rfl⟩
    exact wireCtl_ok p _ _
  rw [hctl]
  simp only [Bool.not_true, Bool.false_eq_true, if_false]
  by_cases hso : sessionsOk c = true
  · simp only [hso, Bool.not_true, Bool.false_eq_true, if_false]
    have hC := reach_cinv hc hso hr
    have hk0 : r.kind ≠ 0 := by rw [hk]; decide
    have hk2 : r.kind ≠ 2 := by rw [hk]; decide
    have hsub := hC.cb.cs i r hr' hk0
    have hcap := all_capped hC hq hr' hk0 hk2
    have heos := hC.cb.cc i r hr' hk hcap
    have hcomp : r.sid ∈ (run c).complete := by
      rcases hI.recs i r hr' (hC.cb.kw i r hr' hk) with h | ⟨l, hl⟩
      · exact h
      · rw [(quiescent_thread hI hq i).2.2] at hl; cases hl
    apply checkKeys_map
    intro key _
    have hst := hnst key
    refine ⟨stale_flag_false key hst, ?_⟩
    have hw : ∀ m, held (wireHist m key ((run c).queues r.sid) r.e0) = ribV m (run c) key := by
      intro m
      rw [held_wireHist m key _ _ heos]
      have := cons_end hI hC hq hr' hk0 hk2 m key hst (reconstruct hI hq hsub hcomp m key hst)
      simpa [hk] using this
    unfold Spec.checkWireKey
    have e1 := hw false
    have e2 := hw true
    simp only [ribV, Bool.false_eq_true, if_false, if_true] at e1 e2
    simp only [e1, e2, cmp_self]
  · simp [hso]

/-- an MRT updates dump of the finished run passes the checker -/
theorem checkSub_mrt (c : Case) (hc : caseOk c = true) (i nth : Nat) (r : SubRec)
    (hr' : r ∈ ((run c).threads i).mysubs) (hk : r.kind = 2) :
    Spec.checkSub c (keyUniverse c) ((keyUniverse c).map fun key => (preOf (run c) key, postOf (run c) key))
      ((keyUniverse c).map fun key => match (run c).rib key with
        | some e => isStale (run c) key.peer e
        | none => false)
      (subObs (run c) (keyUniverse c) i nth r) = none := by
  have hr := run_reach c
  have hI := reach_inv hc hr
  have hfin := run_finished c hc
  have hq := finished_quiescent hI hfin
  obtain ⟨hcb0, hne⟩ := reach_r0 hr
  have hsub := hcb0.cs i r hr' (by rw [hk]; decide)
  unfold Spec.checkSub
  simp only [subObs, hk]
  simp only [show ((2 : Nat) == 1) = false from rfl, show ((2 : Nat) == 2) = true from rfl, Bool.false_eq_true,
    if_false, if_true]
  apply checkMrtKeys_map
  intro key _
  split
  · rename_i hcond
    simp only [Bool.and_eq_true, Bool.not_eq_true'] at hcond
    obtain ⟨ht, hpe⟩ := hcond
    obtain ⟨_, hnd, hng⟩ := hne key.peer hpe
    have heq := mrtHist_eq key ((run c).queues r.sid) (fun e he hd => hnd r.sid (hd ▸ he))
    simp only at ht ⊢
    rw [heq] at ht ⊢
    have hst : ¬ staleKey (run c) key := fun ⟨e, _, hg⟩ => hng _ hg
    have hv := last_current hI hq hsub false key (touched_histPre key _ ht) hst
    have e1 : Spec.held (histPre key ((run c).queues r.sid)) = preOf (run c) key := by
      unfold Spec.held; rw [held_histPre]; exact hv
    rw [e1, cmp_self]
  · rfl

/-- a gRPC watch stream of the finished run passes the checker -/
theorem checkSub_watch (c : Case) (hc : caseOk c = true) (i nth : Nat) (r : SubRec)
    (hr' : r ∈ ((run c).threads i).mysubs) (k : Nat) (hk : r.kind = k + 3)
    (hnst : ∀ key, ¬ staleKey (run c) key) :
    Spec.checkSub c (keyUniverse c) ((keyUniverse c).map fun key => (preOf (run c) key, postOf (run c) key))
      ((keyUniverse c).map fun key => match (run c).rib key with
        | some e => isStale (run c) key.peer e
        | none => false)
      (subObs (run c) (keyUniverse c) i nth r) = none := by
  have hr := run_reach c
  have hI := reach_inv hc hr
  have hfin := run_finished c hc
  have hq := finished_quiescent hI hfin
  have hk0 : r.kind ≠ 0 := by rw [hk]; omega
  have hk1 : r.kind ≠ 1 := by rw [hk]; omega
  have hk2 : r.kind ≠ 2 := by rw [hk]; omega
  have hb0 : (r.kind != 1) = true := by simp [hk1]
  have hctl : ((List.range (run c).nthreads).map fun p => watchCtl p ((run c).queues r.sid) r.e0).all
      (fun l => downsFollowUps l []) = true := by
    simp only [List.all_eq_true, List.mem_map]
    rintro l ⟨p, _, rfl⟩
    exact watchCtl_ok p _ _
  -- what the client holds for (requested map, key) is what the table holds, wherever a channel
  -- subscriber's view is
  have hw : sessionsOk c = true → ∀ m key, ¬ staleKey (run c) key →
      view m key ((run c).queues r.sid) = ribV m (run c) key →
      held (watchHist m key ((run c).queues r.sid) r.e0) = ribV m (run c) key := by
    intro hso m key hst hv
    have hC := reach_cinv hc hso hr
    rw [held_watchHist]
    have := cons_end hI hC hq hr' hk0 hk2 m key hst hv
    rw [hb0] at this
    exact this
  have hkey : sessionsOk c = true → ∀ m key, ¬ staleKey (run c) key →
      (if r.want = true then Spec.cmp (if m = true then "watch-post" else "watch-pre")
          (held (watchHist m key ((run c).queues r.sid) r.e0)) (ribV m (run c) key)
        else if Spec.touched (watchHist m key ((run c).queues r.sid) r.e0) = true then
          Spec.cmp ("nosnap-" ++ if m = true then "watch-post" else "watch-pre")
            (held (watchHist m key ((run c).queues r.sid) r.e0)) (ribV m (run c) key)
        else none) = none := by
    intro hso m key hst
    have hC := reach_cinv hc hso hr
    have hsub := hC.cb.cs i r hr' hk0
    cases hwant : r.want with
    | true =>
      have hcomp : r.sid ∈ (run c).complete := by
        rcases hI.recs i r hr' hwant with h | ⟨l, hl⟩
        · exact h
        · rw [(quiescent_thread hI hq i).2.2] at hl; cases hl
      simp only [if_true]
      rw [hw hso m key hst (reconstruct hI hq hsub hcomp m key hst), cmp_self]
    | false =>
      simp only [Bool.false_eq_true, if_false]
      split
      · rename_i ht
        have ht' := touched_consHist m key _ _ ht
        rw [hw hso m key hst (last_current hI hq hsub m key ht' hst), cmp_self]
      · rfl
  unfold Spec.checkSub
  simp only [subObs, hk]
  generalize (k + 3 != 3) = post
  cases post
  · simp only [Bool.false_eq_true, if_false, show ((3 : Nat) == 1) = false from rfl, show ((3 : Nat) == 2) = false from rfl,
      show ((3 : Nat) == 3) = true from rfl, Bool.true_or, if_true, hctl, Bool.not_true,
      show ((3 : Nat) == 4) = false from rfl]
    by_cases hso : sessionsOk c = true
    · simp only [hso, Bool.not_true, Bool.false_eq_true, if_false]
      apply checkKeys_map
      intro key _
      have hst := hnst key
      refine ⟨stale_flag_false key hst, ?_⟩
      have := hkey hso false key hst
      simpa [Spec.checkWatchKey, ribV] using this
    · simp [hso]
  · simp only [if_true, show ((4 : Nat) == 1) = false from rfl, show ((4 : Nat) == 2) = false from rfl,
      show ((4 : Nat) == 3) = false from rfl, show ((4 : Nat) == 4) = true from rfl, Bool.or_true, Bool.false_eq_true,
      if_false, hctl, Bool.not_true]
    by_cases hso : sessionsOk c = true
    · simp only [hso, Bool.not_true, Bool.false_eq_true, if_false]
      apply checkKeys_map
      intro key _
      have hst := hnst key
      refine ⟨stale_flag_false key hst, ?_⟩
      have := hkey hso true key hst
      simpa [Spec.checkWatchKey, ribV] using this
    · simp [hso]

/-- no session of the case ends with GR retention (`gdown`) -/
def noRetention (c : Case) : Bool := c.threads.all fun t => t.2.all fun o => !(o == .gdown)

theorem init_ng (c : Case) : NG c (init c) := by
  intro p hpe
  refine ⟨?_, fun g hm => by simp [init] at hm⟩
  intro ins hins k hi
  obtain ⟨_, _, h3⟩ := init_thread c p
  rcases h3 with h3 | ⟨w, ops, ht, h3⟩
  · rw [h3] at hins; cases hins
  · rw [h3] at hins
    simp only [compileAll, List.mem_flatMap] at hins
    obtain ⟨op, hop, hin⟩ := hins
    simp only [peerRetains, ht, List.any_eq_false] at hpe
    have hne := hpe op hop
    subst hi
    cases op <;> simp [compile, lockSec, bulk, purgeLoop, perShard] at hin hne

theorem reach_ng {c : Case} {st : St} (h : Reach c st) : NG c st := by
  induction h with
  | init => exact init_ng c
  | @step st st' i _ hs ih =>
    cases hp : (st.threads i).pgm with
    | nil => simp [step, hp] at hs
    | cons ins rest => exact step_ng ih hp hs

/-- without GR retention the table never holds a stale route -/
theorem no_stale {c : Case} (hnr : noRetention c = true) {st : St} (h : Reach c st) (key : Key) :
    ¬ staleKey st key := by
  intro ⟨e, _, hg⟩
  have hp : peerRetains c key.peer = false := by
    unfold peerRetains
    cases ht : c.threads[key.peer]? with
    | none => rfl
    | some t =>
      obtain ⟨w, ops⟩ := t
      simp only [noRetention, List.all_eq_true] at hnr
      have := hnr _ (List.mem_of_getElem? ht)
      simp only [List.any_eq_false]
      intro o ho
      have := this o ho
      simpa using this
  exact ((reach_ng h) key.peer hp).2 _ hg

/-- THE MASTER THEOREM for the tightened checker (review r-7 item 2), consumer tasks included:
    for every case that only names shards that exist and in which no session ends with GR retention
    — any number of shards, writer sessions, channel subscribers, BMP connections, MRT dumps and
    watch streams, any other operations, ANY schedule string, at either granularity — the reference
    checker accepts the observation of the model's run.  PARTIAL: with GR retention (`gdown`) the
    statement is FALSE for BMP connections and watch streams (finding S28h, `C18_full_fails`) and
    unproved for channel subscribers (the escape of a retained key now has to be justified by the
    subscriber's own history: held = table, or PeerDown was the last thing it was told). -/
theorem check_run_ok_full_partial (c : Case) (hc : caseOk c = true) (hnr : noRetention c = true) :
    Spec.check c (observe c (run c)) = .ok := by
  have hfin := run_finished c hc
  have hnst := no_stale hnr (run_reach c)
  unfold Spec.check
  simp only [observe, hfin, Bool.not_true, Bool.false_eq_true, if_false, bne_self_eq_false]
  apply checkSubs_ok
  intro so hso
  simp only [List.mem_flatMap, List.mem_range, List.mem_map] at hso
  obtain ⟨i, _, ⟨p, hp, rfl⟩⟩ := hso
  obtain ⟨nth, r⟩ := p
  have hr' : r ∈ ((run c).threads i).mysubs := mem_enumFrom' _ _ _ hp
  match hk : r.kind with
  | 0 => exact checkSub_chan c hc i nth r hr' hk hnst
  | 1 => exact checkSub_bmp c hc i nth r hr' hk hnst
  | 2 => exact checkSub_mrt c hc i nth r hr' hk
  | k + 3 => exact checkSub_watch c hc i nth r hr' k hk hnst

end Rbgp.Monitor
