/-
  Rbgp.Monitor.Spec — C18 written from the property text as a reference checker over
  observations.  Imports the model only for its observation types (`Obs`, `SubObs`, `Item`,
  `Ev`, `Case`, `Op`, `keyUniverse`); calls no model function that computes behaviour.

  Property (properties.jsonl C18): a subscriber that asks for a snapshot and then applies the
  live events it receives ends with exactly the pre-policy and post-policy Adj-RIB-In held by
  the RIB, for every moment at which it subscribes and every concurrent stream of route updates
  on any shard: no update is missing from both the snapshot and the live stream, and per
  (peer, prefix, path-id) the last event delivered is the current state.  Peer-down is reported
  only for peers whose peer-up was reported.

  Interpretation (DESIGN §4.0): applying an event = a reach sets the entry, a withdrawal removes
  it, a PeerDown removes every entry of that peer (BMP semantics).  The comparison is made once
  all writers have finished.

  Two kinds of subscriber are judged:
  * a channel subscriber (`TableManager::subscribe`): the events are the `BgpEvent`s received;
  * a BMP client (`BmpClient::serve` on a real connection): the events are the BMP messages
    actually written on the connection (Route Monitoring reach / withdrawal, PeerUp, PeerDown),
    i.e. what a monitoring station applies.  This clause is only judged when every session of
    the case is well-formed (routes are announced between a session's up and its down), because
    `serve` flushes snapshot routes only for established peers.
-/
import Rbgp.Monitor.Model
namespace Rbgp.Monitor.Spec
open Rbgp.Monitor

inductive Verdict where
  | ok
  | fail (idx pos : Nat) (clause : String)
  deriving DecidableEq, Repr, Inhabited

/-- What a subscriber holds for one (map, key) after applying the events that concern it, in
    the order delivered: the last one decides. -/
def apply1 (_ : Option Nat) : Item → Option Nat
  | .val v => some v
  | .wd => none
  | .dn => none

def held (h : List Item) : Option Nat := h.foldl apply1 none

/-- Did the subscriber ever receive a route event (not only a PeerDown) for this (map, key)? -/
def touched (h : List Item) : Bool := h.any fun i => i != .dn

/-- Compare what the subscriber holds with what the RIB holds. `none` = agree. -/
def cmp (pfx : String) (sub rib : Option Nat) : Option String :=
  match sub, rib with
  | none, none => none
  | some a, some b => if a = b then none else some (pfx ++ "-stale")
  | none, some _ => some (pfx ++ "-missing")
  | some _, none => some (pfx ++ "-phantom")

/-- The purge class of operations (GR / LLGR retention and its purges, `drop_families`). -/
def grOp : Op → Bool
  | .gdown | .purge | .dropfam | .llgr | .lpurge => true
  | _ => false

/-- Does the session task of this peer use an operation of the purge class?  (Discriminator of
    the failure class: a disagreement on such a peer's routes is reported as `purge-…`.) -/
def peerHasGr (c : Case) (p : Nat) : Bool :=
  match c.threads[p]? with
  | some (_, ops) => ops.any grOp
  | none => false

def cls (c : Case) (key : Key) (clause : String) : String :=
  if peerHasGr c key.peer then "purge-" ++ clause else clause

/-- One universe key of one channel subscription. -/
def checkKey (want : Bool) (h : List Item × List Item) (rib : Option Nat × Option Nat) : Option String :=
  if want then
    -- snapshot + live stream reconstruct the RIB exactly
    match cmp "pre" (held h.1) rib.1 with
    | some c => some c
    | none => cmp "post" (held h.2) rib.2
  else
    -- no snapshot asked: the last event delivered (if any) is the current state
    match (if touched h.1 then cmp "nosnap-pre" (held h.1) rib.1 else none) with
    | some c => some c
    | none => if touched h.2 then cmp "nosnap-post" (held h.2) rib.2 else none

/-- One universe key of one BMP connection: what the station holds = what the RIB holds. -/
def checkWireKey (h : List Item × List Item) (rib : Option Nat × Option Nat) : Option String :=
  match cmp "bmp-pre" (held h.1) rib.1 with
  | some c => some c
  | none => cmp "bmp-post" (held h.2) rib.2

/-- the last thing the subscriber was told about this (map, key) is the PeerDown of its peer -/
def lastDn (h : List Item) : Bool := h.getLast? == some .dn

/-- A key the table holds as a GR-retained (stale) route of an ended session: the subscriber may
    hold nothing for it PROVIDED its own history says why — the PeerDown of that session was the
    last thing it was told about the key (DESIGN §4.0: PeerDown clears the peer's entries;
    retention is C10's subject), or (`quiet`) nothing about the key's peer was ever announced on
    the connection.  A subscriber that subscribed after the session end was told nothing: it must
    hold the retained route like any other. -/
def staleOk (quiet : Bool) (h : List Item) (rib : Option Nat) : Bool :=
  held h == rib || ((held h).isNone && (lastDn h || quiet))

/-- the escape for one universe key of one subscriber (both maps, or the one requested) -/
def escKey (maps : Bool × Bool) (nosnap quiet : Bool) (h : List Item × List Item) (rib : Option Nat × Option Nat) : Bool :=
  (!maps.1 || staleOk quiet h.1 rib.1 || (nosnap && !touched h.1)) &&
  (!maps.2 || staleOk quiet h.2 rib.2 || (nosnap && !touched h.2))

/-- `stale` flags the keys the table holds as GR-retained routes; for those `esc` decides from the
    subscriber's own history whether holding nothing is justified, everything else is judged. -/
def checkKeys (cl : Key → String → String) (f : List Item × List Item → Option Nat × Option Nat → Option String)
    (esc : Key → List Item × List Item → Option Nat × Option Nat → Bool) :
    Nat → List Key → List (List Item × List Item) → List (Option Nat × Option Nat) → List Bool → Option (Nat × String)
  | _, [], [], [], [] => none
  | pos, k :: ks, h :: hs, r :: rs, st :: sts =>
      match (if st && esc k h r then none else f h r) with
      | some c => some (pos, cl k (if st then "retained-" ++ c else c))
      | none => checkKeys cl f esc (pos + 1) ks hs rs sts
  | pos, _, _, _, _ => some (pos, "shape")

/-- failure class on a BMP connection: a disagreement about a peer for which no PeerUp was ever
    written on this connection is reported as `unannounced-…` -/
def wireCls (c : Case) (wctl : List (List Ev)) (key : Key) (clause : String) : String :=
  if peerHasGr c key.peer then "purge-" ++ clause
  else if (wctl.getD key.peer []).isEmpty then "unannounced-" ++ clause else clause

/-- "Peer-down is reported only for peers whose peer-up was reported": in the stream the
    consumer forwards, every PeerDown(p) follows a PeerUp(p) not yet answered by a PeerDown(p). -/
def downsFollowUps : List Ev → List Nat → Bool
  | [], _ => true
  | .up p :: r, ups => downsFollowUps r (p :: ups)
  | .down p :: r, ups => decide (p ∈ ups) && downsFollowUps r (ups.filter (· != p))
  | _ :: r, ups => downsFollowUps r ups

/-- Every session announces routes only between its up and its down. -/
def sessionOk : Bool → List Op → Bool
  | _, [] => true
  | false, .up :: r => sessionOk true r
  | true, .up :: _ => false
  | true, .down :: r => sessionOk false r
  | true, .gdown :: r => sessionOk false r
  | false, .down :: _ => false
  | false, .gdown :: _ => false
  | isUp, .ins _ _ _ _ :: r => isUp && sessionOk isUp r
  | isUp, .rem _ _ _ :: r => isUp && sessionOk isUp r
  | isUp, _ :: r => sessionOk isUp r

def sessionsOk (c : Case) : Bool := c.threads.all fun t => sessionOk false t.2

/-- Does the session task of this peer ever end a session or purge routes?  An MRT updates
    dump has no record for a session end (`MrtDumper` writes BGP4MP UPDATE records only), so for
    such a peer the dump says nothing about the current state. -/
def peerEnds (c : Case) (p : Nat) : Bool :=
  match c.threads[p]? with
  | some (_, ops) => ops.any fun o => grOp o || o == .down
  | none => false

/-- One universe key of one MRT updates dump (no snapshot by design): if the dump has a record
    for the key and the key's peer never ends a session, the last record is the current state. -/
def checkMrtKeys (c : Case) :
    Nat → List Key → List (List Item × List Item) → List (Option Nat × Option Nat) → Option (Nat × String)
  | _, [], [], [] => none
  | pos, k :: ks, h :: hs, r :: rs =>
      match (if touched h.1 && !peerEnds c k.peer then cmp "mrt-pre" (held h.1) r.1 else none) with
      | some cl => some (pos, cl)
      | none => checkMrtKeys c (pos + 1) ks hs rs
  | pos, _, _, _ => some (pos, "shape")

/-- One universe key of one watch stream (one map was requested). -/
def checkWatchKey (init post : Bool) (h : List Item × List Item) (rib : Option Nat × Option Nat) : Option String :=
  let hh := if post then h.2 else h.1
  let rr := if post then rib.2 else rib.1
  let pfx := if post then "watch-post" else "watch-pre"
  if init then cmp pfx (held hh) rr
  else if touched hh then cmp ("nosnap-" ++ pfx) (held hh) rr else none

def checkSub (c : Case) (u : List Key) (rib : List (Option Nat × Option Nat)) (stale : List Bool) (s : SubObs) :
    Option (Nat × String) :=
  if s.kind == 1 then
    if !(s.wctl.all fun l => downsFollowUps l []) then some (0, "bmp-peerdown-without-peerup")
    else if !sessionsOk c then none
    else checkKeys (wireCls c s.wctl) checkWireKey
      (fun key => escKey (true, true) false (s.wctl.getD key.peer []).isEmpty) 0 u s.whist rib stale
  else if s.kind == 2 then checkMrtKeys c 0 u s.whist rib
  else if s.kind == 3 || s.kind == 4 then
    if !(s.wctl.all fun l => downsFollowUps l []) then some (0, "watch-peerdown-without-peerup")
    else if !sessionsOk c then none
    else checkKeys (wireCls c s.wctl) (checkWatchKey s.want (s.kind == 4))
      (fun key => escKey (s.kind != 4, s.kind == 4) (!s.want) (s.wctl.getD key.peer []).isEmpty) 0 u s.whist rib stale
  else if !downsFollowUps s.fwd [] then some (0, "peerdown-without-peerup")
  else if !s.live then none     -- an unsubscribed subscriber is promised nothing more
  else if s.want && !(s.ctl.contains .eos) then some (0, "no-end-of-snapshot")
  else checkKeys (cls c) (checkKey s.want) (fun _ => escKey (true, true) (!s.want) false) 0 u s.hist rib stale

def checkSubs (c : Case) (u : List Key) (rib : List (Option Nat × Option Nat)) (stale : List Bool) :
    Nat → List SubObs → Verdict
  | _, [] => .ok
  | i, s :: r =>
      match checkSub c u rib stale s with
      | some (pos, cl) => .fail i pos cl
      | none => checkSubs c u rib stale (i + 1) r

/-- The reference checker. -/
def check (c : Case) (o : Obs) : Verdict :=
  if !o.finished then .fail 0 0 "not-finished"
  else if o.extra != 0 then .fail 0 0 "unknown-key"
  else if o.staleList then .fail 0 0 "stale-subscriber-list"
  else checkSubs c (keyUniverse c) o.rib o.stale 0 o.subs

end Rbgp.Monitor.Spec
