/-
  Rbgp.Monitor.Spec — C18 written from the property text as a reference checker over
  observations.  Imports the model only for its observation types (`Obs`, `SubObs`, `Item`,
  `Ev`); calls no model function.

  Property (properties.jsonl C18): a subscriber that asks for a snapshot and then applies the
  live events it receives ends with exactly the pre-policy and post-policy Adj-RIB-In held by
  the RIB, for every moment at which it subscribes and every concurrent stream of route updates
  on any shard: no update is missing from both the snapshot and the live stream, and per
  (peer, prefix, path-id) the last event delivered is the current state.  Peer-down is reported
  only for peers whose peer-up was reported.

  Interpretation (DESIGN §4.0): applying an event = a reach sets the entry, a withdrawal removes
  it, a PeerDown removes every entry of that peer (BMP semantics).  The comparison is made once
  all writers have finished.
-/
import Rbgp.Monitor.Model
namespace Rbgp.Monitor.Spec
open Rbgp.Monitor

inductive Verdict where
  | ok
  | fail (idx pos : Nat) (clause : String)
  deriving DecidableEq, Repr, Inhabited

/-- What a subscriber holds for one (map, key) after applying the events that concern it, in
    the order delivered: the last one decides. -/
def apply1 (_ : Option Nat) : Item → Option Nat
  | .val v => some v
  | .wd => none
  | .dn => none

def held (h : List Item) : Option Nat := h.foldl apply1 none

/-- Did the subscriber ever receive a route event (not only a PeerDown) for this (map, key)? -/
def touched (h : List Item) : Bool := h.any fun i => i != .dn

/-- Compare what the subscriber holds with what the RIB holds. `none` = agree. -/
def cmp (pfx : String) (sub rib : Option Nat) : Option String :=
  match sub, rib with
  | none, none => none
  | some a, some b => if a = b then none else some (pfx ++ "-stale")
  | none, some _ => some (pfx ++ "-missing")
  | some _, none => some (pfx ++ "-phantom")

/-- One universe key of one subscription. -/
def checkKey (want : Bool) (h : List Item × List Item) (rib : Option Nat × Option Nat) : Option String :=
  if want then
    -- snapshot + live stream reconstruct the RIB exactly
    match cmp "pre" (held h.1) rib.1 with
    | some c => some c
    | none => cmp "post" (held h.2) rib.2
  else
    -- no snapshot asked: the last event delivered (if any) is the current state
    match (if touched h.1 then cmp "nosnap-pre" (held h.1) rib.1 else none) with
    | some c => some c
    | none => if touched h.2 then cmp "nosnap-post" (held h.2) rib.2 else none

def checkKeys (want : Bool) : Nat → List (List Item × List Item) → List (Option Nat × Option Nat) → Option (Nat × String)
  | _, [], [] => none
  | pos, h :: hs, r :: rs =>
      match checkKey want h r with
      | some c => some (pos, c)
      | none => checkKeys want (pos + 1) hs rs
  | pos, _, _ => some (pos, "shape")

/-- "Peer-down is reported only for peers whose peer-up was reported": in the stream the
    consumer forwards, every PeerDown(p) follows a PeerUp(p) not yet answered by a PeerDown(p). -/
def downsFollowUps : List Ev → List Nat → Bool
  | [], _ => true
  | .up p :: r, ups => downsFollowUps r (p :: ups)
  | .down p :: r, ups => decide (p ∈ ups) && downsFollowUps r (ups.filter (· != p))
  | _ :: r, ups => downsFollowUps r ups

def checkSub (rib : List (Option Nat × Option Nat)) (s : SubObs) : Option (Nat × String) :=
  if !downsFollowUps s.fwd [] then some (0, "peerdown-without-peerup")
  else if !s.live then none     -- an unsubscribed subscriber is promised nothing more
  else checkKeys s.want 0 s.hist rib

def checkSubs (rib : List (Option Nat × Option Nat)) : Nat → List SubObs → Verdict
  | _, [] => .ok
  | i, s :: r =>
      match checkSub rib s with
      | some (pos, c) => .fail i pos c
      | none => checkSubs rib (i + 1) r

/-- The reference checker. -/
def check (_ : Case) (o : Obs) : Verdict :=
  if !o.finished then .fail 0 0 "not-finished"
  else if o.extra != 0 then .fail 0 0 "unknown-key"
  else checkSubs o.rib 0 o.subs

end Rbgp.Monitor.Spec
