/-
  Rbgp.Monitor.Model — C18.  Executable model of the subscription machinery of
  daemon/src/table_manager.rs (`TableManager`: shards behind mutexes, `subscribers` ArcSwap,
  `subscribe`/`unsubscribe`, `insert_route`/`remove_route`/`soft_reset_in`/`unregister_peer`,
  the bulk purges `drop_families`/`drop_stale_families`/`mark_llgr_stale`/
  `drop_llgr_stale_families`, `peer_up`/`peer_down`) and of the consumer in daemon/src/bmp.rs
  (`BmpClient::serve`: `apply_snapshot`, the PeerUp burst from the global peer table,
  `flush_peer_snapshot`, `send_peer_up`/`send_peer_down` with `track_peer_up/down`).

  The model is a labelled transition system.  Every Rust function is compiled (`compile`) into
  the list of its atomic steps in program order — exactly the critical sections and the
  lock-free loads/stores of the Rust — separated by the scheduling points that exist in the
  code under `cfg(osrg_rustybgp_verif)` (`verif_sched::point`: before each shard-lock
  acquisition, after the lock is acquired, after each subscriber-list load, after the guard is
  dropped, after `subscribe`'s rcu, before `peer_up`/`peer_down` load the list) and by one point
  before each operation.  `step i st` executes the next atomic step of thread `i`; ANY
  interleaving of such steps (subject to mutex exclusion) is a behaviour of the model and the
  theorems quantify over all of them.  `run` is the deterministic scheduler the Rust harness
  implements as well: it releases one thread at a time from one *active* scheduling point to the
  next, according to the schedule in the case.

  Import-free (core only).
-/
namespace Rbgp.Monitor

/-- (peer, prefix, path-id); a prefix is (shard it is dealt to, index within the shard; index 2
    is an IPv6 prefix, 0 and 1 are IPv4). -/
structure Key where
  peer : Nat
  shard : Nat
  idx : Nat
  pid : Nat
  deriving DecidableEq, Repr, Inhabited

/-- Import policy: none, reject everything, accept and set LOCAL_PREF (attribute value + 1000). -/
inductive Pol where
  | none | reject | tag
  deriving DecidableEq, Repr, Inhabited

/-- `TableManager::apply_import`: `none` = filtered, `some b` = post-policy attributes. -/
def applyImport : Pol → Nat → Option Nat
  | .none, a => some a
  | .reject, _ => Option.none
  | .tag, a => some (a + 1000)

/-- What is observed of a route's attributes and next hop: MED `a`, the next hop (derived from
    `a` by the harness: 10.9.0.(a mod 5 + 1)) in the ten-thousands, LOCAL_PREF presence (+1000). -/
def encVal (a : Nat) : Nat := a + 10000 * (a % 5 + 1)

/-- `RibEntry`: `original_attr`, (`path.attr` unless FLAG_FILTERED), and the session (`Source`
    Arc) it came from. -/
structure Entry where
  pre : Nat
  post : Option Nat
  gen : Nat
  deriving DecidableEq, Repr, Inhabited

/-- `BgpEvent` as far as C18 is concerned (Loc-RIB / Adj-RIB-Out / EOR events are dropped by
    the harness as well).  `v = none` is a withdrawal. -/
inductive Ev where
  | pre (k : Key) (v : Option Nat)
  | post (k : Key) (v : Option Nat)
  | up (p : Nat)
  | down (p : Nat)
  | eos
  deriving DecidableEq, Repr, Inhabited

inductive Ret where
  | ok | limit | dash
  deriving DecidableEq, Repr, Inhabited

/-- Scheduling points. -/
inductive YK where
  | op                 -- harness: before an operation
  | registered         -- table_manager: after `subscribers.rcu` in `subscribe`
  | lock (k : Nat)     -- table_manager: before `shards[k].lock()`
  | acquired (k : Nat) -- table_manager: `shards[k].lock()` has returned
  | loaded             -- table_manager: after `subscribers.load()`
  | unlocked (k : Nat) -- table_manager: the guard of shard k has been dropped
  | notify             -- table_manager: `peer_up`/`peer_down` about to load the subscriber list
  deriving DecidableEq, Repr, Inhabited

/-- Atomic steps. -/
inductive Instr where
  | yld (y : YK)
  | loadPol                         -- `self.import_policy.load_full()`
  | acquire (k : Nat)               -- `shards[k].lock()`
  | release (k : Nat)               -- guard dropped
  | loadSubs                        -- `self.subscribers.load()`
  | commitIns (key : Key) (a : Nat) -- insert_route body under the lock
  | commitRem (key : Key)           -- remove_route body under the lock
  | commitSr (k p : Nat)            -- TableShard::soft_reset_in(peer p) under the lock
  | commitDrop (k : Nat)            -- unregister_peer: TableShard::disconnected (Table::drop)
  | commitStale (k : Nat)           -- unregister_peer: TableShard::mark_stale (Table::restale)
  | commitDropQuiet (k : Nat)       -- drop_families: TableShard::disconnected
  | commitPurge (k : Nat)           -- drop_stale_families: Table::drop_stale
  | commitLlgr (k : Nat)            -- mark_llgr_stale: Table::restale_llgr (+ drop_no_llgr)
  | commitLpurge (k : Nat)          -- drop_llgr_stale_families: Table::drop_llgr_stale
  | setEst (b : Bool)               -- PeerState.session_addrs.store(Some / None)
  | regShard (k : Nat)              -- register_peer: peer_event_tx / addpath entry of shard k
  | captureE0                       -- a consumer task reads the established peers from the peer table
  | sendUp                          -- peer_up: load subscribers; send
  | sendDown                        -- peer_down after a non-retaining teardown
  | sendDownGr                      -- peer_down after a GR-retaining teardown
  | setPol (p : Pol)                -- import_policy.store
  | register (want : Bool) (kind : Nat) -- subscribe: new id, channel, rcu (kind: see `SubRec`)
  | snap (k : Nat)                  -- subscribe: walk shard k under its lock
  | sentinel                        -- subscribe: EndOfSnapshot (bmp: serve then reads the peer table)
  | unsubscribe
  | ret                             -- operation returns ()
  deriving DecidableEq, Repr, Inhabited

/-- Operations of a case. Writer thread `i` is the session task of peer `i`. -/
inductive Op where
  | up
  | down
  | ins (k j pid a : Nat)
  | rem (k j pid : Nat)
  | sr (p : Nat)          -- soft reset IN of peer p (any thread: the gRPC task in the daemon)
  | pol (p : Pol)
  | gdown                 -- session end with GR negotiated: routes retained as stale
  | purge                 -- drop_stale_families
  | dropfam               -- drop_families
  | llgr                  -- mark_llgr_stale
  | lpurge                -- drop_llgr_stale_families
  | sub (want : Bool)
  | bmp                   -- a BMP client connection: the real `BmpClient::serve`
  | mrt                   -- an MRT updates dump: the real `MrtDumper::serve`
  | watch (init post : Bool) -- a gRPC WatchEvent stream (peer events + Adj-RIB-In pre- or post-policy)
  | unsub
  deriving DecidableEq, Repr, Inhabited

def perShard (n : Nat) (f : Nat → List Instr) : List Instr := (List.range n).flatMap f

/-- `points(LOCK); lock(); points(ACQUIRED); body; drop(guard); points(UNLOCKED)` -/
def lockSec (k : Nat) (body : List Instr) : List Instr :=
  [.yld (.lock k), .acquire k, .yld (.acquired k)] ++ body ++ [.release k, .yld (.unlocked k)]

/-- the bulk mutators: `let subs = self.subscribers.load(); for shard { lock; body; }` -/
def bulk (n : Nat) (body : Nat → Instr) : List Instr :=
  [.loadSubs, .yld .loaded] ++ perShard n (fun k => lockSec k [body k])

/-- the bulk purges (repaired): `for shard { lock; let subs = self.subscribers.load(); body; }` -/
def purgeLoop (n : Nat) (body : Nat → Instr) : List Instr :=
  perShard n (fun k => lockSec k [.loadSubs, .yld .loaded, body k])

/-- The Rust functions as sequences of atomic steps (program order of table_manager.rs). -/
def compile (n me : Nat) : Op → List Instr
  | .up =>
      -- apply_outputs(Established): session_addrs := Some; on_established: register_peer, peer_up
      [.yld .op, .setEst true] ++ perShard n (fun k => lockSec k [.regShard k]) ++ [.yld .notify, .sendUp, .ret]
  | .down =>
      -- apply_outputs(SessionDown): session_addrs := None; finish_session: unregister_peer(addr,
      -- drop_families, []) ; peer_down(..)
      [.yld .op, .setEst false] ++ bulk n .commitDrop ++ [.yld .notify, .sendDown, .ret]
  | .gdown =>
      -- the same with GR negotiated: unregister_peer(addr, [], stale_families)
      [.yld .op, .setEst false] ++ bulk n .commitStale ++ [.yld .notify, .sendDownGr, .ret]
  | .ins k j pid a =>
      [.yld .op, .loadPol] ++ lockSec k [.loadSubs, .yld .loaded, .commitIns ⟨me, k, j, pid⟩ a]
  | .rem k j pid =>
      [.yld .op] ++ lockSec k [.loadSubs, .yld .loaded, .commitRem ⟨me, k, j, pid⟩] ++ [.ret]
  | .sr p =>
      [.yld .op, .loadPol]
      ++ perShard n (fun k => lockSec k [.loadSubs, .yld .loaded, .commitSr k p])
      ++ [.ret]
  | .pol p => [.yld .op, .setPol p, .ret]
  | .purge => [.yld .op] ++ purgeLoop n .commitPurge ++ [.ret]
  | .dropfam => [.yld .op] ++ purgeLoop n .commitDropQuiet ++ [.ret]
  | .llgr => [.yld .op] ++ purgeLoop n .commitLlgr ++ [.ret]
  | .lpurge => [.yld .op] ++ purgeLoop n .commitLpurge ++ [.ret]
  | .sub want =>
      [.yld .op, .register want 0, .yld .registered]
      ++ (if want then perShard n (fun k => lockSec k [.snap k]) ++ [.sentinel] else [])
      ++ [.ret]
  | .bmp =>
      [.yld .op, .register true 1, .yld .registered]
      ++ perShard n (fun k => lockSec k [.snap k]) ++ [.sentinel, .captureE0, .ret]
  | .mrt => [.yld .op, .register false 2, .yld .registered, .ret]
  | .watch init post =>
      [.yld .op, .register init (if post then 4 else 3), .yld .registered]
      ++ (if init then perShard n (fun k => lockSec k [.snap k]) ++ [.sentinel] else [])
      ++ [.captureE0, .ret]
  | .unsub => [.yld .op, .unsubscribe, .ret]

def compileAll (n me : Nat) (ops : List Op) : List Instr := ops.flatMap (compile n me)

/-- A subscription created by a thread: id, snapshot wanted, still subscribed (not `unsub`-ed),
    the kind of consumer, and for the consumers that read the global peer table the established
    peers they found there. -/
structure SubRec where
  sid : Nat
  want : Bool
  live : Bool
  /-- 0 = channel subscription, 1 = BMP connection, 2 = MRT dump, 3 = watch (pre-policy),
      4 = watch (post-policy) -/
  kind : Nat
  e0 : List Nat
  /-- ghost: the consumer task has read the peer table (`e0` is set) -/
  cap : Bool := false
  deriving DecidableEq, Repr, Inhabited

structure Thread where
  pgm : List Instr := []
  /-- register: the subscriber list last loaded -/
  subs : List Nat := []
  /-- register: the import policy last loaded -/
  pol : Pol := .none
  /-- the shard lock held -/
  held : Option Nat := none
  /-- ghost: `subs` was loaded while holding `held` -/
  fresh : Bool := false
  /-- scheduler: a lock section was entered since the last actual yield -/
  dirty : Bool := false
  /-- the session's prefix counter (`AtomicU64`, fresh per session) -/
  count : Nat := 0
  /-- the session's `Source` (a new Arc per session) -/
  gen : Nat := 0
  /-- the peer negotiates ADD-PATH (registered with `register_peer` at every session start) -/
  ap : Bool := false
  /-- ghost: shards already dropped by the teardown in progress -/
  drop : Option (List Nat) := none
  /-- ghost: subscription being snapshotted and the shards already walked -/
  snapping : Option (Nat × List Nat) := none
  /-- ghost: phase of the session task: 0 idle, 1 establishing (`session_addrs` set, PeerUp not yet
      published), 2 up (PeerUp published), 3 teardown (`session_addrs` cleared, PeerDown not yet
      published) -/
  ph : Nat := 0
  mysubs : List SubRec := []
  rets : List Ret := []
  deriving Repr, Inhabited

structure St where
  n : Nat            -- number of shards
  limit : Nat        -- per-session prefix limit, 0 = none
  nthreads : Nat
  rib : Key → Option Entry
  /-- every key ever inserted, without repetition (support of `rib`) -/
  keys : List Key
  /-- `TableManager.subscribers` -/
  subscribers : List Nat
  /-- the channel of each subscription -/
  queues : Nat → List Ev
  nextSub : Nat
  /-- `TableManager.import_policy` -/
  policy : Pol
  /-- peers whose `PeerState.session_addrs` is set (what `Peer::bmp_peer_up` looks at) -/
  established : List Nat
  /-- (peer, session) pairs whose `Source` is marked stale / LLGR-stale -/
  staleGens : List (Nat × Nat)
  llgrGens : List (Nat × Nat)
  /-- `TableShard.addpath`: (shard, peer) pairs registered with ADD-PATH -/
  addpath : List (Nat × Nat)
  /-- the `addpath` flag of every route event of each channel, in order -/
  apq : Nat → List Bool
  threads : Nat → Thread
  /-- ghost: shards whose snapshot has been queued, per subscription -/
  done : Nat → List Nat
  /-- ghost: subscriptions whose EndOfSnapshot has been queued -/
  complete : List Nat
  deriving Inhabited

def updT (f : Nat → Thread) (i : Nat) (t : Thread) : Nat → Thread :=
  fun j => if j = i then t else f j

def updRib (f : Key → Option Entry) (k : Key) (v : Option Entry) : Key → Option Entry :=
  fun k' => if k' = k then v else f k'

/-- `for (_, tx) in subs { tx.send(..) }` for each event in order. -/
def send (q : Nat → List Ev) (subs : List Nat) (evs : List Ev) : Nat → List Ev :=
  fun s => if s ∈ subs then q s ++ evs else q s

/-- the `addpath` flags that go with a batch of route events -/
def sendAp (a : Nat → List Bool) (subs : List Nat) (flags : List Bool) : Nat → List Bool :=
  fun s => if s ∈ subs then a s ++ flags else a s

/-- `TableShard::has_addpath` -/
def hasAp (st : List (Nat × Nat)) (k p : Nat) : Bool := decide ((k, p) ∈ st)

/-- Nobody but `me` holds the lock of shard `k`. -/
def lockFree (st : St) (k me : Nat) : Bool :=
  (List.range st.nthreads).all fun j => j = me || (st.threads j).held != some k

def samePrefix (a b : Key) : Bool := a.peer = b.peer && a.shard = b.shard && a.idx = b.idx

/-- `Table::insert`: the peer has no path (any path-id) for this prefix yet. -/
def isNewPrefix (st : St) (key : Key) : Bool :=
  st.keys.all fun k' => !(samePrefix k' key) || (st.rib k').isNone

def peerHasPath (rib : Key → Option Entry) (keys : List Key) (key : Key) : Bool :=
  keys.any fun k' => samePrefix k' key && (rib k').isSome

def addKey (keys : List Key) (k : Key) : List Key := if k ∈ keys then keys else keys ++ [k]

/-- `AtomicU64::fetch_sub(1)` wraps. -/
def decU64 (c : Nat) : Nat := if c = 0 then 18446744073709551615 else c - 1

def isStale (st : St) (p : Nat) (e : Entry) : Bool := decide ((p, e.gen) ∈ st.staleGens)
def isLlgr (st : St) (p : Nat) (e : Entry) : Bool := decide ((p, e.gen) ∈ st.llgrGens)

/-- keys of peer `p` present in shard `k` -/
def peerKeysIn (st : St) (p k : Nat) : List Key :=
  st.keys.filter fun key => key.peer = p && key.shard = k && (st.rib key).isSome

/-- `collect_adj_in_paths(peer, None, include_stale = false)` -/
def freshKeysIn (st : St) (p k : Nat) : List Key :=
  (peerKeysIn st p k).filter fun key => match st.rib key with
    | some e => !(isStale st p e)
    | none => false

def shardKeys (st : St) (k : Nat) : List Key :=
  st.keys.filter fun key => key.shard = k && (st.rib key).isSome

def preOf (st : St) (key : Key) : Option Nat := (st.rib key).map (·.pre)
def postOf (st : St) (key : Key) : Option Nat := (st.rib key).bind (·.post)

/-- `subscribe`: the snapshot of one shard: `iter_reach`, then `iter_reach_post` (filtered
    entries excluded). -/
def snapEvents (st : St) (k : Nat) : List Ev :=
  (shardKeys st k).map (fun key => Ev.pre key (preOf st key))
  ++ ((shardKeys st k).filter (fun key => (postOf st key).isSome)).map (fun key => Ev.post key (postOf st key))

/-- the most recent live subscription of a thread is unsubscribed -/
def markDead : List SubRec → Option (Nat × List SubRec)
  | [] => none
  | r :: rest =>
      match markDead rest with
      | some (s, rest') => some (s, r :: rest')
      | none => if r.live && r.kind == 0 then some (r.sid, { r with live := false } :: rest) else none

/-- the generations of `p`'s entries present in shard `k` (the `Source`s `restale` marks) -/
def gensIn (st : St) (p k : Nat) : List (Nat × Nat) :=
  (peerKeysIn st p k).filterMap fun key => (st.rib key).map fun e => (p, e.gen)

def setLast (l : List SubRec) (f : SubRec → SubRec) : List SubRec :=
  match l.reverse with
  | [] => []
  | r :: rest => (f r :: rest).reverse

/-- `TableShard::purge_notifying` around one of the bulk purges (`Table::drop`, `drop_stale`,
    `drop_llgr_stale`): the entries of peer `me` in shard `k` that satisfy `gone` leave the table,
    and the subscribers loaded under the lock get the pre- and post-policy withdrawal of each. -/
def purgeStep (st : St) (me : Nat) (t : Thread) (k : Nat) (gone : Entry → Bool) : St :=
  let ks := (peerKeysIn st me k).filter fun key => match st.rib key with
    | some e => gone e
    | none => false
  let rib : Key → Option Entry := fun key =>
    if key.peer = me ∧ key.shard = k then (st.rib key).bind fun e => if gone e then none else some e
    else st.rib key
  { st with rib := rib
            queues := send st.queues t.subs (ks.flatMap fun key => [Ev.pre key none, Ev.post key none])
            apq := sendAp st.apq t.subs (ks.flatMap fun _ => [hasAp st.addpath k me, hasAp st.addpath k me])
            threads := updT st.threads me t }

/-- One atomic step of thread `me` (the head of its program); `none` = nothing to do, or the
    step is `acquire` of a lock somebody else holds. -/
def step (me : Nat) (st : St) : Option St :=
  let t := st.threads me
  match t.pgm with
  | [] => none
  | i :: rest =>
    let t := { t with pgm := rest }
    match i with
    | .yld y =>
        let t := match y with
          | .op => { t with dirty := false }
          | .registered => { t with dirty := false }
          | .notify => { t with dirty := false }
          | .lock _ => { t with dirty := true }
          | .acquired _ => t
          | .loaded => t
          | .unlocked _ => t
        some { st with threads := updT st.threads me t }
    | .loadPol => some { st with threads := updT st.threads me { t with pol := st.policy } }
    | .acquire k =>
        if lockFree st k me then
          some { st with threads := updT st.threads me { t with held := some k, fresh := false } }
        else none
    | .release _ => some { st with threads := updT st.threads me { t with held := none, fresh := false } }
    | .loadSubs =>
        some { st with threads := updT st.threads me { t with subs := st.subscribers, fresh := t.held.isSome } }
    | .commitIns key a =>
        let isNew := isNewPrefix st key
        if isNew && st.limit != 0 && t.count ≥ st.limit then
          -- PrefixLimitExceeded: nothing installed, nobody notified (fixed S28a)
          some { st with threads := updT st.threads me { t with rets := t.rets ++ [.limit] } }
        else
          let v := encVal a
          let post := applyImport t.pol v
          let count := if isNew && st.limit != 0 then t.count + 1 else t.count
          some { st with
            rib := updRib st.rib key (some ⟨v, post, t.gen⟩)
            keys := addKey st.keys key
            queues := send st.queues t.subs [.pre key (some v), .post key post]
            apq := sendAp st.apq t.subs [hasAp st.addpath key.shard key.peer, hasAp st.addpath key.shard key.peer]
            threads := updT st.threads me { t with count := count, rets := t.rets ++ [.ok] } }
    | .commitRem key =>
        let queues := send st.queues t.subs [.pre key none, .post key none]
        let apq := sendAp st.apq t.subs [hasAp st.addpath key.shard key.peer, hasAp st.addpath key.shard key.peer]
        if (st.rib key).isSome then
          let rib := updRib st.rib key none
          let count := if !(peerHasPath rib st.keys key) && st.limit != 0 then decU64 t.count else t.count
          some { st with rib := rib, queues := queues, apq := apq, threads := updT st.threads me { t with count := count } }
        else
          some { st with queues := queues, apq := apq, threads := updT st.threads me t }
    | .commitSr k p =>
        let ks := freshKeysIn st p k
        let evs := ks.map fun key => Ev.post key ((st.rib key).bind fun e => applyImport t.pol e.pre)
        let rib : Key → Option Entry := fun key =>
          if key.peer = p ∧ key.shard = k then
            (st.rib key).map fun e => if isStale st p e then e else { e with post := applyImport t.pol e.pre }
          else st.rib key
        some { st with rib := rib, queues := send st.queues t.subs evs
                       apq := sendAp st.apq t.subs (ks.map fun _ => hasAp st.addpath k p)
                       threads := updT st.threads me t }
    | .commitDrop k =>
        let rib : Key → Option Entry := fun key => if key.peer = me ∧ key.shard = k then none else st.rib key
        some { st with rib := rib, addpath := st.addpath.filter (· != (k, me))
                       threads := updT st.threads me { t with drop := some (k :: t.drop.getD []) } }
    | .commitDropQuiet k => some (purgeStep st me t k fun _ => true)
    | .commitStale k =>
        some { st with staleGens := st.staleGens ++ gensIn st me k, addpath := st.addpath.filter (· != (k, me))
                       threads := updT st.threads me { t with drop := some (k :: t.drop.getD []) } }
    | .commitPurge k => some (purgeStep st me t k (isStale st me))
    | .commitLlgr k =>
        some { st with llgrGens := st.llgrGens ++ gensIn st me k, threads := updT st.threads me t }
    | .commitLpurge k => some (purgeStep st me t k (isLlgr st me))
    | .regShard k =>
        let ap := st.addpath.filter (· != (k, me))
        some { st with addpath := if t.ap then ap ++ [(k, me)] else ap, threads := updT st.threads me t }
    | .captureE0 =>
        let ms := setLast t.mysubs fun r => { r with e0 := st.established, cap := true }
        some { st with threads := updT st.threads me { t with mysubs := ms } }
    | .setEst b =>
        let est := st.established.filter (· != me)
        some { st with established := if b then est ++ [me] else est
                       threads := updT st.threads me { t with ph := if b then 1 else 3 } }
    | .sendUp =>
        some { st with queues := send st.queues st.subscribers [.up me], threads := updT st.threads me { t with ph := 2 } }
    | .sendDown =>
        some { st with queues := send st.queues st.subscribers [.down me]
                       threads := updT st.threads me { t with drop := none, count := 0, gen := t.gen + 1, ph := 0 } }
    | .sendDownGr =>
        some { st with queues := send st.queues st.subscribers [.down me]
                       threads := updT st.threads me { t with drop := none, count := 0, gen := t.gen + 1, ph := 0 } }
    | .setPol p => some { st with policy := p, threads := updT st.threads me t }
    | .register want kind =>
        let s := st.nextSub
        some { st with
          subscribers := st.subscribers ++ [s]
          nextSub := s + 1
          threads := updT st.threads me
            { t with mysubs := t.mysubs ++ [⟨s, want, true, kind, [], false⟩], snapping := if want then some (s, []) else none } }
    | .snap k =>
        match t.snapping with
        | some (s, l) =>
            some { st with
              queues := send st.queues [s] (snapEvents st k)
              apq := sendAp st.apq [s] ((snapEvents st k).map fun e => match e with
                | .pre key _ => hasAp st.addpath k key.peer
                | .post key _ => hasAp st.addpath k key.peer
                | _ => false)
              done := fun s' => if s' = s then k :: st.done s' else st.done s'
              threads := updT st.threads me { t with snapping := some (s, k :: l) } }
        | none => some { st with threads := updT st.threads me t }
    | .sentinel =>
        match t.snapping with
        | some (s, _) =>
            some { st with
              queues := send st.queues [s] [.eos]
              complete := s :: st.complete
              threads := updT st.threads me { t with snapping := none } }
        | none => some { st with threads := updT st.threads me t }
    | .unsubscribe =>
        match markDead t.mysubs with
        | some (s, ms) =>
            some { st with
              subscribers := st.subscribers.filter (· != s)
              threads := updT st.threads me { t with mysubs := ms } }
        | none => some { st with threads := updT st.threads me t }
    | .ret => some { st with threads := updT st.threads me { t with rets := t.rets ++ [.dash] } }

/-! ## The case and the deterministic scheduler -/

structure Case where
  n : Nat
  gran : Nat
  limit : Nat
  /-- (is a writer, operations) -/
  threads : List (Bool × List Op)
  sched : List Nat
  /-- indices of the writer threads whose peer negotiates ADD-PATH -/
  addpath : List Nat := []
  deriving Repr, Inhabited

def initThreads (n : Nat) (ths : List (Bool × List Op)) (aps : List Nat) : Nat → Thread :=
  fun i => match ths[i]? with
    | some (_, ops) => { pgm := compileAll n i ops, ap := decide (i ∈ aps) }
    | none => {}

def init (c : Case) : St :=
  { n := c.n, limit := c.limit, nthreads := c.threads.length
    rib := fun _ => none, keys := [], subscribers := [], queues := fun _ => [], nextSub := 0
    policy := .none, established := [], staleGens := [], llgrGens := [], addpath := [], apq := fun _ => []
    threads := initThreads c.n c.threads c.addpath, done := fun _ => [], complete := [] }

/-- Is the scheduling point an actual yield?  (Same rule in harness/daemon/c18.rs `Sched::point`.)
    Coarse granularity 0: an operation is atomic up to its second lock acquisition. -/
def active (gran : Nat) (t : Thread) : YK → Bool
  | .op => true
  | .registered => true
  | .notify => true
  | .lock _ => gran = 1 || t.dirty
  | .acquired _ => gran = 1
  | .loaded => gran = 1
  | .unlocked _ => gran = 1

/-- A parked thread can be released unless it is about to lock a shard somebody holds. -/
def schedEnabled (st : St) (i : Nat) : Bool :=
  match (st.threads i).pgm with
  | [] => false
  | .yld (.lock k) :: _ => lockFree st k i
  | .acquire k :: _ => lockFree st k i
  | _ => true

/-- Run thread `i` from the point where it is parked to its next active scheduling point. -/
def runSeg (gran : Nat) : Nat → Nat → St → St
  | 0, _, st => st
  | f + 1, i, st =>
    match step i st with
    | none => st
    | some st' =>
      match (st'.threads i).pgm with
      | [] => st'
      | .yld y :: _ => if active gran (st'.threads i) y then st' else runSeg gran f i st'
      | _ => runSeg gran f i st'

def totalInstrs (st : St) : Nat := ((List.range st.nthreads).map fun i => (st.threads i).pgm.length).sum

def runSched (gran : Nat) : Nat → List Nat → St → St
  | 0, _, st => st
  | f + 1, sched, st =>
    let en := (List.range st.nthreads).filter (schedEnabled st)
    match en with
    | [] => st
    | e0 :: _ =>
      let pick := match sched with | [] => 0 | x :: _ => x
      let i := en.getD (pick % en.length) e0
      runSched gran f sched.tail (runSeg gran (totalInstrs st + 1) i st)

def run (c : Case) : St :=
  let st := init c
  runSched c.gran (totalInstrs st + 1) c.sched st

def finished (st : St) : Bool := (List.range st.nthreads).all fun i => (st.threads i).pgm.isEmpty

/-! ## The consumer side (daemon/src/bmp.rs) -/

/-- `SnapshotMap` as an association list keyed by (peer, family+nlri+path-id) = `Key`. -/
abbrev SnapMap := List (Key × Nat)

def SnapMap.erase (m : SnapMap) (k : Key) : SnapMap := m.filter fun kv => kv.1 != k
def SnapMap.insert (m : SnapMap) (k : Key) (v : Nat) : SnapMap := (m.erase k) ++ [(k, v)]
def SnapMap.get (m : SnapMap) (k : Key) : Option Nat := (m.find? fun kv => kv.1 = k).map (·.2)
/-- `snapshot.remove(&peer_addr)` -/
def SnapMap.dropPeer (m : SnapMap) (p : Nat) : SnapMap := m.filter fun kv => kv.1.peer != p

/-- `apply_snapshot`: reach events insert, withdrawal events remove. -/
def applySnapshot (m : SnapMap) (k : Key) : Option Nat → SnapMap
  | some v => m.insert k v
  | none => m.erase k

/-- The snapshot phase of `BmpClient::serve`: until `EndOfSnapshot`, AdjRibIn events go to one
    map, AdjRibInPost events to the other, a PeerDown drops that peer from both maps (repaired:
    it used to be skipped), everything else is skipped. -/
def drainSnapshot : List Ev → SnapMap × SnapMap → SnapMap × SnapMap
  | [], m => m
  | .eos :: _, m => m
  | .pre k v :: r, (a, b) => drainSnapshot r (applySnapshot a k v, b)
  | .post k v :: r, (a, b) => drainSnapshot r (a, applySnapshot b k v)
  | .down p :: r, (a, b) => drainSnapshot r (a.dropPeer p, b.dropPeer p)
  | _ :: r, m => drainSnapshot r m

/-- `track_peer_up` -/
def trackPeerUp (sent : List Nat) (p : Nat) : List Nat := if p ∈ sent then sent else p :: sent
/-- `track_peer_down`: (forward?, new set) -/
def trackPeerDown (sent : List Nat) (p : Nat) : Bool × List Nat := (decide (p ∈ sent), sent.filter (· != p))

/-- The live loop of `BmpClient::serve` restricted to PeerUp/PeerDown: what is forwarded. -/
def forward : List Ev → List Nat → List Ev
  | [], _ => []
  | .up p :: r, sent => .up p :: forward r (trackPeerUp sent p)
  | .down p :: r, sent =>
      let (f, sent') := trackPeerDown sent p
      if f then .down p :: forward r sent' else forward r sent'
  | _ :: r, sent => forward r sent

def afterEos : List Ev → List Ev
  | [] => []
  | .eos :: r => r
  | _ :: r => afterEos r

/-! ## Observation -/

/-- One item of the history of a (map, key): a value, a withdrawal, or a PeerDown of its peer. -/
inductive Item where
  | val (v : Nat) | wd | dn
  deriving DecidableEq, Repr, Inhabited

def itemOf : Option Nat → Item
  | some v => .val v
  | none => .wd

/-- the events of a queue that concern (pre-policy map, key) -/
def histPre (key : Key) : List Ev → List Item
  | [] => []
  | .pre k v :: r => if k = key then itemOf v :: histPre key r else histPre key r
  | .down p :: r => if p = key.peer then .dn :: histPre key r else histPre key r
  | _ :: r => histPre key r

def histPost (key : Key) : List Ev → List Item
  | [] => []
  | .post k v :: r => if k = key then itemOf v :: histPost key r else histPost key r
  | .down p :: r => if p = key.peer then .dn :: histPost key r else histPost key r
  | _ :: r => histPost key r

def ctlOf : List Ev → List Ev
  | [] => []
  | .up p :: r => .up p :: ctlOf r
  | .down p :: r => .down p :: ctlOf r
  | .eos :: r => .eos :: ctlOf r
  | _ :: r => ctlOf r

/-! ### The consumer tasks as transition systems over the events they receive

  All three forwarding consumers (`BmpClient::serve` after EndOfSnapshot, the gRPC `watch_event`
  stream from its first event) keep one piece of state: the set of peers announced on the
  connection (`sent_peer_up`, initialised from the peer table when the task starts forwarding).
  One received event = one transition; the output is the list of events let through. -/

/-- one transition: (new announced set, events written out).  A route event passes only for an
    announced peer (S28e / S28f), a PeerUp always passes and marks the peer announced, a PeerDown
    passes only for an announced peer and un-announces it (S28d / S28g), EndOfSnapshot is consumed. -/
def consStep (sent : List Nat) : Ev → List Nat × List Ev
  | .pre k v => (sent, if k.peer ∈ sent then [.pre k v] else [])
  | .post k v => (sent, if k.peer ∈ sent then [.post k v] else [])
  | .up p => (trackPeerUp sent p, [.up p])
  | .down p => ((trackPeerDown sent p).2, if (trackPeerDown sent p).1 then [.down p] else [])
  | .eos => (sent, [])

/-- the output stream of the task on the input stream `q`, starting with `sent` announced -/
def consRun : List Ev → List Nat → List Ev
  | [], _ => []
  | e :: r, sent => (consStep sent e).2 ++ consRun r (consStep sent e).1

/-- the announced set after the input stream -/
def sentAfter : List Ev → List Nat → List Nat
  | [], sent => sent
  | e :: r, sent => sentAfter r (consStep sent e).1

/-- the items of (map `post?`, `key`) in the output stream -/
def consHist (post : Bool) (key : Key) (q : List Ev) (sent : List Nat) : List Item :=
  if post then histPost key (consRun q sent) else histPre key (consRun q sent)

/-- What `BmpClient::serve` writes on its connection about (map `post?`, `key`): the flushed
    snapshot entry if the key's peer was established at EndOfSnapshot, then every live route
    event of the key whose peer has been announced on the connection (repaired: S28e), and a
    PeerDown of the key's peer whenever `send_peer_down` lets it out. -/
def wireLive (post : Bool) (key : Key) (q : List Ev) (sent : List Nat) : List Item := consHist post key q sent

def wireHist (post : Bool) (key : Key) (q : List Ev) (e0 : List Nat) : List Item :=
  let (sp, spo) := drainSnapshot q ([], [])
  let flushed := if key.peer ∈ e0 then ((if post then spo else sp).get key).map Item.val else none
  flushed.toList ++ wireLive post key (afterEos q) e0

/-- the PeerUp / PeerDown messages about peer `p` on the connection, in order -/
def wireCtl (p : Nat) (q : List Ev) (e0 : List Nat) : List Ev :=
  (if p ∈ e0 then [Ev.up p] else []) ++
    (forward (afterEos q) e0).filter fun e => e = .up p || e = .down p

/-- `MrtDumper::run_loop`: one BGP4MP record per pre-policy Adj-RIB-In event; nothing else. -/
def mrtHist (key : Key) : List Ev → List Item
  | [] => []
  | .pre k v :: r => if k = key then itemOf v :: mrtHist key r else mrtHist key r
  | _ :: r => mrtHist key r

/-- The gRPC `watch_event` stream about (requested map, `key`): every route event of the
    requested map whose peer has been announced on the stream (snapshot and live alike: they are
    forwarded as they are read), and a peer state-down whenever it is let out (repaired: only for
    peers announced on the stream). -/
def watchHist (post : Bool) (key : Key) (q : List Ev) (sent : List Nat) : List Item := consHist post key q sent

/-- the peer events about `p` on a watch stream: TYPE_INIT for the peers established when the
    stream started, then the state changes let out -/
def watchCtl (p : Nat) (q : List Ev) (e0 : List Nat) : List Ev :=
  (if p ∈ e0 then [Ev.up p] else []) ++ (forward q e0).filter fun e => e = .up p || e = .down p

/-- pair every route event of a queue with its `addpath` flag -/
def zipAp : List Ev → List Bool → List (Ev × Bool)
  | [], _ => []
  | .pre k v :: r, f :: fs => (.pre k v, f) :: zipAp r fs
  | .post k v :: r, f :: fs => (.post k v, f) :: zipAp r fs
  | .pre k v :: r, [] => (.pre k v, false) :: zipAp r []
  | .post k v :: r, [] => (.post k v, false) :: zipAp r []
  | e :: r, fs => (e, false) :: zipAp r fs

/-- the addpath flags of the route events of (map, key), in order -/
def apsOf (post : Bool) (key : Key) (l : List (Ev × Bool)) : List Bool :=
  l.filterMap fun (e, f) => match e with
    | .pre k _ => if !post && k = key then some f else none
    | .post k _ => if post && k = key then some f else none
    | _ => none

structure SubObs where
  tid : Nat
  nth : Nat
  want : Bool
  live : Bool
  /-- 0 channel, 1 BMP connection, 2 MRT dump, 3 watch pre-policy, 4 watch post-policy -/
  kind : Nat
  ctl : List Ev
  hist : List (List Item × List Item)     -- per universe key
  snap : List (Option Nat × Option Nat)   -- per universe key: the consumer's snapshot maps
  fwd : List Ev
  whist : List (List Item × List Item)    -- consumers: per universe key, what was written out
  wctl : List (List Ev)                   -- consumers: peer events per thread index (peer)
  aps : List (List Bool × List Bool)      -- channel / MRT: addpath flag of every route event, per key
  deriving DecidableEq, Repr, Inhabited

structure Obs where
  rets : List (List Ret)
  subs : List SubObs
  rib : List (Option Nat × Option Nat)    -- per universe key
  /-- per universe key: the table holds it as a GR-retained (stale) route of an ended session -/
  stale : List Bool
  rows : Nat × Nat
  extra : Nat
  /-- a subscriber list used inside a critical section was not the list of that moment -/
  staleList : Bool
  finished : Bool
  deriving DecidableEq, Repr, Inhabited

def opKey (me : Nat) : Op → Option Key
  | .ins k j pid _ => some ⟨me, k, j, pid⟩
  | .rem k j pid => some ⟨me, k, j, pid⟩
  | _ => none

def dedupKeys : List Key → List Key → List Key
  | acc, [] => acc
  | acc, k :: r => if k ∈ acc then dedupKeys acc r else dedupKeys (acc ++ [k]) r

/-- Keys in order of first mention in the case. -/
def keyUniverse (c : Case) : List Key :=
  let rec go (i : Nat) : List (Bool × List Op) → List Key
    | [] => []
    | (_, ops) :: r => ops.filterMap (opKey i) ++ go (i + 1) r
  dedupKeys [] (go 0 c.threads)

def subObs (st : St) (u : List Key) (tid nth : Nat) (r : SubRec) : SubObs :=
  let q := st.queues r.sid
  let z := zipAp q (st.apq r.sid)
  let peers := List.range st.nthreads
  match r.kind with
  | 0 =>
    let (sp, spost) := if r.want then drainSnapshot q ([], []) else ([], [])
    { tid := tid, nth := nth, want := r.want, live := decide (r.sid ∈ st.subscribers), kind := 0
      ctl := ctlOf q
      hist := u.map fun key => (histPre key q, histPost key q)
      snap := u.map fun key => (sp.get key, spost.get key)
      fwd := forward (if r.want then afterEos q else q) []
      whist := [], wctl := []
      aps := u.map fun key => (apsOf false key z, apsOf true key z) }
  | 1 =>
    { tid := tid, nth := nth, want := true, live := true, kind := 1
      ctl := [], hist := [], snap := [], fwd := [], aps := []
      whist := u.map fun key => (wireHist false key q r.e0, wireHist true key q r.e0)
      wctl := peers.map fun p => wireCtl p q r.e0 }
  | 2 =>
    { tid := tid, nth := nth, want := false, live := true, kind := 2
      ctl := [], hist := [], snap := [], fwd := []
      whist := u.map fun key => (mrtHist key q, [])
      wctl := []
      aps := u.map fun key => (apsOf false key z, []) }
  | k =>
    let post := k != 3
    { tid := tid, nth := nth, want := r.want, live := true, kind := if post then 4 else 3
      ctl := [], hist := [], snap := [], fwd := [], aps := []
      whist := u.map fun key => if post then ([], watchHist true key q r.e0) else (watchHist false key q r.e0, [])
      wctl := peers.map fun p => watchCtl p q r.e0 }

def enumFrom' {α} : Nat → List α → List (Nat × α)
  | _, [] => []
  | i, a :: r => (i, a) :: enumFrom' (i + 1) r

def observe (c : Case) (st : St) : Obs :=
  let u := keyUniverse c
  let tids := List.range st.nthreads
  { rets := tids.map fun i => (st.threads i).rets
    subs := tids.flatMap fun i => (enumFrom' 0 (st.threads i).mysubs).map fun (nth, r) => subObs st u i nth r
    rib := u.map fun key => (preOf st key, postOf st key)
    stale := u.map fun key => match st.rib key with
      | some e => isStale st key.peer e
      | none => false
    rows := ((st.keys.filter fun k => (st.rib k).isSome).length,
             (st.keys.filter fun k => (postOf st k).isSome).length)
    extra := 0
    staleList := false
    finished := finished st }

end Rbgp.Monitor
