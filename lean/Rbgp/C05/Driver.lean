import Rbgp.Wire.UpdateCodec
namespace Rbgp.C05
open Rbgp Rbgp.Term Rbgp.Wire Rbgp.Wire.Codec Rbgp.Wire.UCodec

def caseOf (c : String) : Option UCase :=
  match (parse c).bind ucaseOf? with
  | some k => if renderable k then some k else none
  | none => none

/-- mode `model`: `profile TAB case` ↦ observation of the model;
    mode `oracle`: `profile TAB case TAB observation` ↦ verdict of the C05 reference checker. -/
def isE2E (c : String) : Bool := c.startsWith "(e2e "

def ecaseOf (c : String) : Option ECase := (parse c).bind ecaseOf?

def handlerE (mode : String) (line : String) : String :=
  match mode, line.splitOn "\t" with
  | "model", [p, c] =>
      match profileOf? p, ecaseOf c with
      | some prof, some e => toStr (runECase prof e)
      | none, _ => "(bad-line)"
      | _, none => "(bad-case)"
  | "oracle", [p, c, o] =>
      match profileOf? p, ecaseOf c, parse o with
      | some _, some e, some obs => oracleE e obs
      | none, _, _ => "(bad-line)"
      | _, none, _ => if o == "(bad-case)" then "ok" else "fail clause=bad-case-accepted-by-harness"
      | _, _, none => "fail clause=unparsable-observation"
  | "stats", [_, c, o] =>
      match ecaseOf c, parse o with
      | some e, some obs => statsE e obs
      | _, _ => "unparsable=1"
  | _, _ => "(bad-line)"

def handler (mode : String) (line : String) : String :=
  if (line.splitOn "\t").any isE2E then handlerE mode line else
  match mode, line.splitOn "\t" with
  | "model", [p, c] =>
      match profileOf? p, caseOf c with
      | some prof, some k => toStr (runCase prof k)
      | none, _ => "(bad-line)"
      | _, none => "(bad-case)"
  | "oracle", [p, c, o] =>
      match profileOf? p, caseOf c, parse o with
      | some _, some k, some obs => oracle k obs
      | none, _, _ => "(bad-line)"
      | _, none, _ => "(bad-case)"
      | _, _, none => "fail clause=unparsable-observation"
  | "stats", [_, c, o] =>
      match caseOf c, parse o with
      | some k, some obs => stats k obs
      | _, _ => "unparsable=1"
  | "model", _ => "(bad-line)"
  | "oracle", _ => "(bad-line)"
  | "stats", _ => "(bad-line)"
  | _, _ => "(bad-mode)"

end Rbgp.C05
