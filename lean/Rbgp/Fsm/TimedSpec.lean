/-
  Rbgp.Fsm.TimedSpec — C08 written from the property text, as a checker over the
  timed observations (which timer fired when, what it caused), using only the
  configuration, the events fed and the reported per-role states.
-/
import Rbgp.Fsm.Timed
namespace Rbgp.Fsm.TimedSpec
open Rbgp.Fsm Rbgp.Fsm.Timed

/-- What an observer tracks per connection role. -/
structure R where
  up : Bool := false
  confirmed : Bool := false      -- OPEN exchange done (OpenConfirm or Established)
  neg : Nat := 0                 -- hold time in force = min(local, remote)
  lastRx : Nat := 0              -- last KEEPALIVE/UPDATE (or the OPEN) received
  lastKa : Nat := 0              -- last time the keepalive timer was (re)started
  deriving DecidableEq, Repr, Inhabited

structure S where
  a : R := {}
  p : R := {}
  now : Nat := 0
  deriving DecidableEq, Repr, Inhabited

def S.get (s : S) : Role → R
  | .active => s.a
  | .passive => s.p
def S.set (s : S) (r : Role) (v : R) : S :=
  match r with
  | .active => { s with a := v }
  | .passive => { s with p := v }

def stOf (st : TStep) : Role → State
  | .active => st.stA
  | .passive => st.stP

def isUp (s : State) : Bool := s ≠ .idle
def isConfirmed (s : State) : Bool := s = .openConfirm ∨ s = .established

def openHold? : Ev → Option Nat
  | .rawOpen o => some o.hold
  | .input (.msg (.open o)) => some o.hold
  | _ => none

def hasHoldDown (r : Role) (outs : List POut) : Bool :=
  outs.contains (POut.conn r (.down .holdExpired (some (4, 0))))
def hasKeepalive (r : Role) (outs : List POut) : Bool :=
  outs.contains (POut.conn r .sendKeepalive)

/-- Sync the tracked liveness of both roles with the reported states. -/
def syncDown (s : S) (st : TStep) : S :=
  let f (r : Role) (s : S) : S :=
    if isUp (stOf st r) then s else s.set r {}
  f .active (f .passive s)

/-- An ordinary (untimed) event for role `r`. -/
def onEv (cfg : Cfg) (s : S) (r : Role) (e : Ev) (st : TStep) : Except String S :=
  let before := s.get r
  let after := stOf st r
  let s1 : S :=
    if ¬ before.up ∧ after = .openSent then
      s.set r { up := true }
    else if before.up ∧ ¬ before.confirmed ∧ isConfirmed after then
      match openHold? e with
      | some h => s.set r { before with confirmed := true, neg := min cfg.localHold h,
                                        lastRx := s.now, lastKa := s.now }
      | none => s.set r { before with confirmed := true }
    else if before.up ∧ before.confirmed ∧ isUp after then
      match e with
      | .input (.msg .keepalive) | .input (.msg .update) => s.set r { before with lastRx := s.now }
      | .input .updateSent =>
          if after = .established then s.set r { before with lastKa := s.now } else s
      | _ => s
    else s
  -- a non-timer event never produces a hold-timer expiry
  match st.obs with
  | .step o =>
      if hasHoldDown r (outsOfObs o) then .error "hold-expiry-without-timer"
      else .ok (syncDown s1 st)
  | .fired _ => .error "malformed-observation"

/-- One timer firing reported inside a `wait`. -/
def onFired (s : S) (target : Nat) (f : Fired) : Except String S :=
  let r := s.get f.role
  if f.time < s.now ∨ target < f.time then .error "timer-fired-outside-window"
  else if ¬ r.up then .error "timer-fired-for-dead-connection"
  else if f.isHold then
    if ¬ r.confirmed then
      -- OpenSent: the property does not fix the value of the initial timer
      if hasHoldDown f.role f.outs then .ok ({ s with now := f.time }.set f.role {})
      else .error "hold-expiry-no-session-down"
    else if r.neg = 0 then .error "zero-hold-time-but-hold-timer-fired"
    else if f.time ≠ r.lastRx + r.neg then .error "hold-expired-at-wrong-time"
    else if ¬ hasHoldDown f.role f.outs then .error "hold-expiry-no-session-down"
    else .ok ({ s with now := f.time }.set f.role {})
  else
    if ¬ r.confirmed then .error "keepalive-timer-before-open-exchange"
    else if r.neg = 0 then .error "zero-hold-time-but-keepalive-timer-fired"
    else if f.time ≠ r.lastKa + r.neg / 3 then .error "keepalive-interval-not-a-third"
    else if ¬ hasKeepalive f.role f.outs then .error "keepalive-timer-sent-nothing"
    else .ok ({ s with now := f.time }.set f.role { r with lastKa := f.time })

def onFiredAll (s : S) (target : Nat) : List Fired → Except String S
  | [] => .ok s
  | f :: fs =>
      match onFired s target f with
      | .error e => .error e
      | .ok s' => onFiredAll s' target fs

/-- At the end of a wait nothing may be overdue. -/
def overdue (s : S) (r : Role) (target : Nat) : Option String :=
  let x := s.get r
  if x.up ∧ x.confirmed ∧ x.neg ≠ 0 then
    if x.lastRx + x.neg ≤ target then some "silent-for-hold-time-but-not-torn-down"
    else if x.lastKa + x.neg / 3 ≤ target then some "keepalive-overdue"
    else none
  else none

def onWait (s : S) (d : Nat) (st : TStep) : Except String S :=
  match st.obs with
  | .step _ => .error "malformed-observation"
  | .fired fs =>
      let target := s.now + d
      match onFiredAll s target fs with
      | .error e => .error e
      | .ok s1 =>
          match overdue s1 .active target, overdue s1 .passive target with
          | some e, _ => .error e
          | none, some e => .error e
          | none, none =>
              let s2 := { s1 with now := target }
              -- reported states must agree with what the firings imply
              if (isUp st.stA ≠ s2.a.up) ∨ (isUp st.stP ≠ s2.p.up) then .error "state-after-wait"
              else .ok s2

def stepOk (cfg : Cfg) (s : S) (st : TStep) : Except String S :=
  match st.ev with
  | .ev r e => onEv cfg s r e st
  | .wait d => onWait s d st

inductive Verdict where
  | ok
  | fail (idx : Nat) (clause : String)
  deriving DecidableEq, Repr

def checkFrom (cfg : Cfg) (s : S) (i : Nat) : List TStep → Verdict
  | [] => .ok
  | st :: rest =>
      match stepOk cfg s st with
      | .error c => .fail i c
      | .ok s' => checkFrom cfg s' (i + 1) rest

def check (cfg : Cfg) (tr : List TStep) : Verdict := checkFrom cfg {} 0 tr

/-- Configurations the daemon accepts (config/src/validate.rs): hold time 0 or 3..65535. -/
def cfgValid (cfg : Cfg) : Bool := cfg.localHold = 0 ∨ (3 ≤ cfg.localHold ∧ cfg.localHold ≤ 65535)

/-- Timed histories the driver can actually produce.  In the timed setting the two timer
    inputs are generated by the clock (`wait`), never injected; and an OPEN that reaches the FSM
    already parsed has passed `parse_message`, which rejects hold times 1 and 2 (`parseOpen`;
    a `rawOpen` event goes through that check inside the model and is unrestricted here). -/
def wfEv : Ev → Bool
  | .input .holdTimer => false
  | .input .kaTimer => false
  | .input (.msg (.open o)) => o.hold ≠ 1 ∧ o.hold ≠ 2
  | _ => true

def wfTEv : TEv → Bool
  | .ev _ e => wfEv e
  | .wait _ => true

def wfHist (h : List TEv) : Bool := h.all wfTEv

/-! ### The driver's reading of `Set*Timer` outputs, judged by behaviour (timer probe)

  From the property text: the timers follow the value set; "if the negotiated hold time is zero
  no hold … timer runs".  So, after one `apply_outputs` call on a fresh task:
  the value that counts is the LAST `set-hold n` / `set-ka n` of the call;
  `set-hold 0` (disabled) must not fire; `set-X n`, `n > 0`, must not fire now and must be due in
  exactly `n` seconds; a timer nobody set must not fire.  (`set-ka 0` is outside the property:
  the FSM never emits it for a connection the property speaks about, see `keepalive_third_invariant`.) -/

def lastSet (isHold : Bool) : List POut → Option Nat
  | [] => none
  | o :: rest =>
      match lastSet isHold rest with
      | some n => some n
      | none =>
          match o with
          | .conn _ (.setHold n) => if isHold then some n else none
          | .conn _ (.setKa n) => if isHold then none else some n
          | _ => none

def probeCheck (outs : List POut) (o : ProbeObs) : Option String :=
  let h : Option String :=
    match lastSet true outs with
    | none => if o.hold.fires then some "unarmed-hold-timer-fires" else none
    | some 0 => if o.hold.fires then some "disabled-hold-timer-fires" else none
    | some n =>
        if o.hold.fires then some "hold-timer-fires-early"
        else if o.hold.armed ≠ .secs n then some "hold-deadline-not-the-value-set" else none
  let k : Option String :=
    match lastSet false outs with
    | none => if o.ka.fires then some "unarmed-keepalive-timer-fires" else none
    | some 0 => none
    | some n =>
        if o.ka.fires then some "keepalive-timer-fires-early"
        else if o.ka.armed ≠ .secs n then some "keepalive-deadline-not-the-value-set" else none
  match h with
  | some e => some e
  | none => k

/-- Outputs a probe case may contain (those after which the task carries on and that need no
    session context). -/
def probeOut : POut → Bool
  | .conn _ (.setHold _) => true
  | .conn _ (.setKa _) => true
  | .conn _ .sendKeepalive => true
  | .conn _ (.stateChanged _) => true
  | .stopActiveConnect => true
  | _ => false

end Rbgp.Fsm.TimedSpec
