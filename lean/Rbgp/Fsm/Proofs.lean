/-
  Rbgp.Fsm.Proofs — C07: the model (`Model.lean`) refines the reference checker (`Spec.lean`).

  Structure
    1. `Rel`      simulation relation model state ↔ reference state; `rel_init`.
    2. `StepCore` one arbiter step versus `Spec.next`/`Spec.sees`, proved by case analysis
                  (`stepCore_<role>_<slot>`: acting role × state of its slot × event; the other
                  slot stays opaque except when an OPEN moves the acting slot to OpenConfirm).
    3. `step_sim`, `checkFrom_runFrom`, `check_run_ok` (master theorem).
    4. `Inv`, `reachable_inv`, `process_spec`: bridge used for the model-level properties.
    5. Facts about `Spec.next` (`next_*`) and the model properties on `Inv` states (`inv_*`);
       `Props.lean` restates the latter over all histories.
-/
import Rbgp.Fsm.Spec
namespace Rbgp.Fsm
open Spec

/-- Well-formed connection in a slot: created by `on_connected`, so never Idle/Connect/Active,
    and its configuration fields are the peer's. -/
def ConnOk (cfg : Cfg) (c : Conn) : Prop :=
  (c.state = .openSent ∨ c.state = .openConfirm ∨ c.state = .established) ∧
  c.expectedAsn = cfg.expectedAsn ∧ c.localRid = cfg.localRid ∧ c.localAsn = cfg.localAsn ∧
  c.localHold = cfg.localHold

def SlotOk (cfg : Cfg) : Option Conn → Prop
  | none => True
  | some c => ConnOk cfg c

def stOf : Option Conn → State
  | none => .idle
  | some c => c.state

/-- Simulation relation between the model state and the observer's reference state. -/
structure Rel (cfg : Cfg) (p : Peer) (s : S) : Prop where
  cfgEq : p.cfg = cfg
  eqA : s.a = stOf p.active
  eqP : s.p = stOf p.passive
  okA : SlotOk cfg p.active
  okP : SlotOk cfg p.passive
  one : ¬ (confirmed (stOf p.active) = true ∧ confirmed (stOf p.passive) = true)

theorem rel_init (cfg : Cfg) : Rel cfg (Peer.init cfg) {} := by
  constructor <;> simp [Peer.init, stOf, SlotOk, confirmed]

theorem badRouterId_iff (rid : Nat) : badRouterId rid = !validId rid := by
  unfold badRouterId validId
  by_cases h0 : rid = 0 <;> by_cases h1 : rid = 4294967295 <;>
  by_cases h2 : 224 ≤ rid / 16777216 <;> by_cases h3 : rid / 16777216 ≤ 239 <;>
  simp [h0, h1, h2, h3] <;> omega


@[simp] theorem stOf_none : stOf none = .idle := rfl
@[simp] theorem stOf_some (c : Conn) : stOf (some c) = c.state := rfl

theorem Peer.state_active (p : Peer) : p.state .active = stOf p.active := by
  unfold Peer.state Peer.connection stOf; cases p.active <;> rfl
theorem Peer.state_passive (p : Peer) : p.state .passive = stOf p.passive := by
  unfold Peer.state Peer.connection stOf; cases p.passive <;> rfl

theorem validHold_false {h : Nat} (hv : validHold h = false) : h = 1 ∨ h = 2 := by
  simp [validHold] at hv; omega
theorem validHold_true {h : Nat} (hv : validHold h = true) : ¬ (h = 1 ∨ h = 2) := by
  simp [validHold] at hv; omega

theorem confirmed_cases (s : State) : confirmed s = true ↔ (s = .openConfirm ∨ s = .established) := by
  simp [confirmed]

/-- `stepOk` succeeds with the reference successor as soon as its three checks pass. -/
theorem stepOk_eq_ok (cfg : Cfg) (s : S) (st : Step)
    (h1 : sees st.role st.obs (next cfg st.role s st.ev).2 = true)
    (h2 : st.stA = (next cfg st.role s st.ev).1.a)
    (h3 : st.stP = (next cfg st.role s st.ev).1.p)
    (h4 : ¬ (confirmed (next cfg st.role s st.ev).1.a = true ∧
             confirmed (next cfg st.role s st.ev).1.p = true)) :
    stepOk cfg s st = .ok (next cfg st.role s st.ev).1 := by
  unfold stepOk
  simp only [h1, h2, h3]
  simp [h4]

@[simp] theorem slotOk_none (cfg : Cfg) : SlotOk cfg none := trivial
@[simp] theorem slotOk_some (cfg : Cfg) (c : Conn) : SlotOk cfg (some c) = ConnOk cfg c := rfl

macro "fsm_bash" : tactic => `(tactic|
  (simp [*, arbStep, parseOpen, badRouterId_iff, Peer.process, Peer.onConnected, Peer.connection, Peer.setConn,
      Peer.closeConnection, Peer.checkCollision, Peer.collisionWinner, Peer.newConn, Peer.isDown,
      Conn.process, Conn.onMessage, Conn.onConnected, Conn.onOpen, Conn.onKeepalive, Conn.onUpdate,
      Conn.onNotification, Conn.onRouteRefresh, Conn.onKaTimer, Conn.onHoldTimer, Conn.onUpdateSent,
      Conn.onDisconnected, Conn.onAdminShutdown, Conn.rearmHold, downLocal, fsmErr, State.code, Peer.cease, Role.other,
      next, S.get, S.set, sees, anyDown, hasDown, hasIdle, outsOf, hasEstablishedOut,
      confirmed, asOk, ConnOk, applicable]))

/-- The per-step core of the simulation, in unbundled form. -/
def StepCore (pc : Cfg) (pa pp : Option Conn) (r : Role) (e : Ev) : Prop :=
  (arbStep ⟨pc, pa, pp⟩ r e).1.cfg = pc ∧
  sees r (arbStep ⟨pc, pa, pp⟩ r e).2 (next pc r ⟨stOf pa, stOf pp⟩ e).2 = true ∧
  stOf (arbStep ⟨pc, pa, pp⟩ r e).1.active = (next pc r ⟨stOf pa, stOf pp⟩ e).1.a ∧
  stOf (arbStep ⟨pc, pa, pp⟩ r e).1.passive = (next pc r ⟨stOf pa, stOf pp⟩ e).1.p ∧
  SlotOk pc (arbStep ⟨pc, pa, pp⟩ r e).1.active ∧
  SlotOk pc (arbStep ⟨pc, pa, pp⟩ r e).1.passive ∧
  ¬ (confirmed (next pc r ⟨stOf pa, stOf pp⟩ e).1.a = true ∧
     confirmed (next pc r ⟨stOf pa, stOf pp⟩ e).1.p = true)

/-- A wire OPEN that passes `parse_message` is the same step as the parsed OPEN. -/
theorem stepCore_rawOpen_ok (pc : Cfg) (pa pp : Option Conn) (r : Role) (o : RawOpen)
    (h1 : ¬ (o.hold = 1 ∨ o.hold = 2)) (h2 : validId o.rid = true)
    (h : StepCore pc pa pp r (.input (.msg (.open { asn := o.asn, hold := o.hold, rid := o.rid })))) :
    StepCore pc pa pp r (.rawOpen o) := by
  have e1 : arbStep ⟨pc, pa, pp⟩ r (.rawOpen o) =
      arbStep ⟨pc, pa, pp⟩ r (.input (.msg (.open { asn := o.asn, hold := o.hold, rid := o.rid }))) := by
    simp [arbStep, parseOpen, badRouterId_iff, h1, h2]
  have e2 : next pc r ⟨stOf pa, stOf pp⟩ (.rawOpen o) =
      next pc r ⟨stOf pa, stOf pp⟩ (.input (.msg (.open { asn := o.asn, hold := o.hold, rid := o.rid }))) := by
    have h1' : validHold o.hold = true := by simp [validHold]; omega
    simp [next, h1', h2]
  unfold StepCore
  rw [e1, e2]
  exact h

/- Destructure the acting connection `c` using `oa : ConnOk pc c`, `hs : c.state = _`
   and normalise the at-most-one-confirmed hypothesis `one`. -/
set_option hygiene false in
macro "open_conn" : tactic => `(tactic|
  (obtain ⟨ast, a1, a2, a3, a4, a5, a6, a7, a8, a9⟩ := c
   obtain ⟨-, ha1, ha2, ha3, ha4⟩ := oa
   simp at hs ha1 ha2 ha3 ha4
   subst hs ha1 ha2 ha3 ha4
   simp [confirmed] at one))

/-! ### active acting -/

theorem stepCore_active_none (pc : Cfg) (po : Option Conn) (e : Ev)
    (op : SlotOk pc po) : StepCore pc none po .active e := by
  rcases e with (_ | m | _ | _ | _ | _ | _) | o
  all_goals try (rcases m with o | _ | _ | _ | _)
  case rawOpen =>
    cases hv : validHold o.hold
    · have h1 := validHold_false hv
      unfold StepCore; fsm_bash
    · have h1 := validHold_true hv
      cases h2 : validId o.rid
      · unfold StepCore; fsm_bash
      · apply stepCore_rawOpen_ok _ _ _ _ _ h1 h2
        unfold StepCore; fsm_bash
  case input.connected =>
    unfold StepCore
    by_cases h : pc.localHold = 0 <;> fsm_bash
  all_goals unfold StepCore
  all_goals fsm_bash

theorem stepCore_active_os_open (pc : Cfg) (c : Conn) (po : Option Conn) (o : OpenMsg)
    (oa : ConnOk pc c) (hs : c.state = .openSent) (op : SlotOk pc po) :
    StepCore pc (some c) po .active (.input (.msg (.open o))) := by
  obtain ⟨ast, a1, a2, a3, a4, a5, a6, a7, a8, a9⟩ := c
  obtain ⟨-, ha1, ha2, ha3, ha4⟩ := oa
  simp at hs ha1 ha2 ha3 ha4
  subst hs ha1 ha2 ha3 ha4
  unfold StepCore
  by_cases hok : pc.expectedAsn = 0 ∨ pc.expectedAsn = o.asn
  · by_cases hl : pc.localHold = 0 <;> by_cases hh : o.hold = 0 <;> by_cases hr : o.rid < pc.localRid
    all_goals
      cases po with
      | none => rcases hok with h0 | h1 <;> fsm_bash
      | some c =>
        obtain ⟨pst, b1, b2, b3, b4, b5, b6, b7, b8, b9⟩ := c
        obtain ⟨hpst, hb1, hb2, hb3, hb4⟩ := op
        simp at hpst hb1 hb2 hb3 hb4
        subst hb1 hb2 hb3 hb4
        rcases hpst with rfl | rfl | rfl <;> rcases hok with h0 | h1 <;> fsm_bash
  · have h0 : ¬ pc.expectedAsn = 0 := fun h => hok (Or.inl h)
    have h1 : ¬ pc.expectedAsn = o.asn := fun h => hok (Or.inr h)
    fsm_bash

theorem stepCore_active_os (pc : Cfg) (c : Conn) (po : Option Conn) (e : Ev)
    (oa : ConnOk pc c) (hs : c.state = .openSent) (op : SlotOk pc po)
    (one : ¬ (confirmed (stOf (some c)) = true ∧ confirmed (stOf po) = true)) :
    StepCore pc (some c) po .active e := by
  rcases e with (_ | m | _ | _ | _ | _ | _) | o
  all_goals try (rcases m with o | _ | _ | _ | _)
  case rawOpen =>
    cases hv : validHold o.hold
    · have h1 := validHold_false hv
      open_conn
      unfold StepCore; fsm_bash
    · have h1 := validHold_true hv
      cases h2 : validId o.rid
      · open_conn
        unfold StepCore; fsm_bash
      · apply stepCore_rawOpen_ok _ _ _ _ _ h1 h2
        exact stepCore_active_os_open pc c po _ oa hs op
  case input.msg.open => exact stepCore_active_os_open pc c po o oa hs op
  all_goals
    open_conn
  case input.updateSent => unfold StepCore; by_cases h9 : 0 < a9 <;> fsm_bash
  case input.msg.keepalive => unfold StepCore; by_cases h8 : a8 = 0 <;> fsm_bash
  case input.msg.update => unfold StepCore; by_cases h8 : a8 = 0 <;> fsm_bash
  all_goals unfold StepCore
  all_goals fsm_bash

theorem stepCore_active_oc (pc : Cfg) (c : Conn) (po : Option Conn) (e : Ev)
    (oa : ConnOk pc c) (hs : c.state = .openConfirm) (op : SlotOk pc po)
    (one : ¬ (confirmed (stOf (some c)) = true ∧ confirmed (stOf po) = true)) :
    StepCore pc (some c) po .active e := by
  rcases e with (_ | m | _ | _ | _ | _ | _) | o
  all_goals try (rcases m with o | _ | _ | _ | _)
  case rawOpen =>
    cases hv : validHold o.hold
    · have h1 := validHold_false hv
      open_conn
      unfold StepCore; fsm_bash
    · have h1 := validHold_true hv
      cases h2 : validId o.rid
      · open_conn
        unfold StepCore; fsm_bash
      · apply stepCore_rawOpen_ok _ _ _ _ _ h1 h2
        open_conn
        unfold StepCore; fsm_bash
  all_goals
    open_conn
  case input.updateSent => unfold StepCore; by_cases h9 : 0 < a9 <;> fsm_bash
  case input.msg.keepalive => unfold StepCore; by_cases h8 : a8 = 0 <;> fsm_bash
  case input.msg.update => unfold StepCore; by_cases h8 : a8 = 0 <;> fsm_bash
  all_goals unfold StepCore
  all_goals fsm_bash

theorem stepCore_active_est (pc : Cfg) (c : Conn) (po : Option Conn) (e : Ev)
    (oa : ConnOk pc c) (hs : c.state = .established) (op : SlotOk pc po)
    (one : ¬ (confirmed (stOf (some c)) = true ∧ confirmed (stOf po) = true)) :
    StepCore pc (some c) po .active e := by
  rcases e with (_ | m | _ | _ | _ | _ | _) | o
  all_goals try (rcases m with o | _ | _ | _ | _)
  case rawOpen =>
    cases hv : validHold o.hold
    · have h1 := validHold_false hv
      open_conn
      unfold StepCore; fsm_bash
    · have h1 := validHold_true hv
      cases h2 : validId o.rid
      · open_conn
        unfold StepCore; fsm_bash
      · apply stepCore_rawOpen_ok _ _ _ _ _ h1 h2
        open_conn
        unfold StepCore; fsm_bash
  all_goals
    open_conn
  case input.updateSent => unfold StepCore; by_cases h9 : 0 < a9 <;> fsm_bash
  case input.msg.keepalive => unfold StepCore; by_cases h8 : a8 = 0 <;> fsm_bash
  case input.msg.update => unfold StepCore; by_cases h8 : a8 = 0 <;> fsm_bash
  all_goals unfold StepCore
  all_goals fsm_bash

/-! ### passive acting -/

theorem stepCore_passive_none (pc : Cfg) (po : Option Conn) (e : Ev)
    (op : SlotOk pc po) : StepCore pc po none .passive e := by
  rcases e with (_ | m | _ | _ | _ | _ | _) | o
  all_goals try (rcases m with o | _ | _ | _ | _)
  case rawOpen =>
    cases hv : validHold o.hold
    · have h1 := validHold_false hv
      unfold StepCore; fsm_bash
    · have h1 := validHold_true hv
      cases h2 : validId o.rid
      · unfold StepCore; fsm_bash
      · apply stepCore_rawOpen_ok _ _ _ _ _ h1 h2
        unfold StepCore; fsm_bash
  case input.connected =>
    unfold StepCore
    by_cases h : pc.localHold = 0 <;> fsm_bash
  all_goals unfold StepCore
  all_goals fsm_bash

theorem stepCore_passive_os_open (pc : Cfg) (c : Conn) (po : Option Conn) (o : OpenMsg)
    (oa : ConnOk pc c) (hs : c.state = .openSent) (op : SlotOk pc po) :
    StepCore pc po (some c) .passive (.input (.msg (.open o))) := by
  obtain ⟨ast, a1, a2, a3, a4, a5, a6, a7, a8, a9⟩ := c
  obtain ⟨-, ha1, ha2, ha3, ha4⟩ := oa
  simp at hs ha1 ha2 ha3 ha4
  subst hs ha1 ha2 ha3 ha4
  unfold StepCore
  by_cases hok : pc.expectedAsn = 0 ∨ pc.expectedAsn = o.asn
  · by_cases hl : pc.localHold = 0 <;> by_cases hh : o.hold = 0 <;> by_cases hr : o.rid < pc.localRid
    all_goals
      cases po with
      | none => rcases hok with h0 | h1 <;> fsm_bash
      | some c =>
        obtain ⟨pst, b1, b2, b3, b4, b5, b6, b7, b8, b9⟩ := c
        obtain ⟨hpst, hb1, hb2, hb3, hb4⟩ := op
        simp at hpst hb1 hb2 hb3 hb4
        subst hb1 hb2 hb3 hb4
        rcases hpst with rfl | rfl | rfl <;> rcases hok with h0 | h1 <;> fsm_bash
  · have h0 : ¬ pc.expectedAsn = 0 := fun h => hok (Or.inl h)
    have h1 : ¬ pc.expectedAsn = o.asn := fun h => hok (Or.inr h)
    fsm_bash

theorem stepCore_passive_os (pc : Cfg) (c : Conn) (po : Option Conn) (e : Ev)
    (oa : ConnOk pc c) (hs : c.state = .openSent) (op : SlotOk pc po)
    (one : ¬ (confirmed (stOf po) = true ∧ confirmed (stOf (some c)) = true)) :
    StepCore pc po (some c) .passive e := by
  rcases e with (_ | m | _ | _ | _ | _ | _) | o
  all_goals try (rcases m with o | _ | _ | _ | _)
  case rawOpen =>
    cases hv : validHold o.hold
    · have h1 := validHold_false hv
      open_conn
      unfold StepCore; fsm_bash
    · have h1 := validHold_true hv
      cases h2 : validId o.rid
      · open_conn
        unfold StepCore; fsm_bash
      · apply stepCore_rawOpen_ok _ _ _ _ _ h1 h2
        exact stepCore_passive_os_open pc c po _ oa hs op
  case input.msg.open => exact stepCore_passive_os_open pc c po o oa hs op
  all_goals
    open_conn
  case input.updateSent => unfold StepCore; by_cases h9 : 0 < a9 <;> fsm_bash
  case input.msg.keepalive => unfold StepCore; by_cases h8 : a8 = 0 <;> fsm_bash
  case input.msg.update => unfold StepCore; by_cases h8 : a8 = 0 <;> fsm_bash
  all_goals unfold StepCore
  all_goals fsm_bash

theorem stepCore_passive_oc (pc : Cfg) (c : Conn) (po : Option Conn) (e : Ev)
    (oa : ConnOk pc c) (hs : c.state = .openConfirm) (op : SlotOk pc po)
    (one : ¬ (confirmed (stOf po) = true ∧ confirmed (stOf (some c)) = true)) :
    StepCore pc po (some c) .passive e := by
  rcases e with (_ | m | _ | _ | _ | _ | _) | o
  all_goals try (rcases m with o | _ | _ | _ | _)
  case rawOpen =>
    cases hv : validHold o.hold
    · have h1 := validHold_false hv
      open_conn
      unfold StepCore; fsm_bash
    · have h1 := validHold_true hv
      cases h2 : validId o.rid
      · open_conn
        unfold StepCore; fsm_bash
      · apply stepCore_rawOpen_ok _ _ _ _ _ h1 h2
        open_conn
        unfold StepCore; fsm_bash
  all_goals
    open_conn
  case input.updateSent => unfold StepCore; by_cases h9 : 0 < a9 <;> fsm_bash
  case input.msg.keepalive => unfold StepCore; by_cases h8 : a8 = 0 <;> fsm_bash
  case input.msg.update => unfold StepCore; by_cases h8 : a8 = 0 <;> fsm_bash
  all_goals unfold StepCore
  all_goals fsm_bash

theorem stepCore_passive_est (pc : Cfg) (c : Conn) (po : Option Conn) (e : Ev)
    (oa : ConnOk pc c) (hs : c.state = .established) (op : SlotOk pc po)
    (one : ¬ (confirmed (stOf po) = true ∧ confirmed (stOf (some c)) = true)) :
    StepCore pc po (some c) .passive e := by
  rcases e with (_ | m | _ | _ | _ | _ | _) | o
  all_goals try (rcases m with o | _ | _ | _ | _)
  case rawOpen =>
    cases hv : validHold o.hold
    · have h1 := validHold_false hv
      open_conn
      unfold StepCore; fsm_bash
    · have h1 := validHold_true hv
      cases h2 : validId o.rid
      · open_conn
        unfold StepCore; fsm_bash
      · apply stepCore_rawOpen_ok _ _ _ _ _ h1 h2
        open_conn
        unfold StepCore; fsm_bash
  all_goals
    open_conn
  case input.updateSent => unfold StepCore; by_cases h9 : 0 < a9 <;> fsm_bash
  case input.msg.keepalive => unfold StepCore; by_cases h8 : a8 = 0 <;> fsm_bash
  case input.msg.update => unfold StepCore; by_cases h8 : a8 = 0 <;> fsm_bash
  all_goals unfold StepCore
  all_goals fsm_bash

/-! ### Assembly -/

theorem stepCore_all (pc : Cfg) (pa pp : Option Conn) (r : Role) (e : Ev)
    (oa : SlotOk pc pa) (op : SlotOk pc pp)
    (one : ¬ (confirmed (stOf pa) = true ∧ confirmed (stOf pp) = true)) :
    StepCore pc pa pp r e := by
  cases r
  · cases pa with
    | none => exact stepCore_active_none pc pp e op
    | some c =>
      rcases oa.1 with hs | hs | hs
      · exact stepCore_active_os pc c pp e oa hs op one
      · exact stepCore_active_oc pc c pp e oa hs op one
      · exact stepCore_active_est pc c pp e oa hs op one
  · cases pp with
    | none => exact stepCore_passive_none pc pa e oa
    | some c =>
      rcases op.1 with hs | hs | hs
      · exact stepCore_passive_os pc c pa e op hs oa one
      · exact stepCore_passive_oc pc c pa e op hs oa one
      · exact stepCore_passive_est pc c pa e op hs oa one

/-- One step of the model is accepted by the reference and re-establishes the relation. -/
theorem step_sim (cfg : Cfg) (p : Peer) (s : S) (h : Rel cfg p s) (r : Role) (e : Ev) :
    ∃ s', stepOk cfg s
        { role := r, ev := e, obs := (arbStep p r e).2,
          stA := (arbStep p r e).1.state .active,
          stP := (arbStep p r e).1.state .passive } = .ok s'
      ∧ Rel cfg (arbStep p r e).1 s' := by
  obtain ⟨pc, pa, pp⟩ := p
  obtain ⟨sa, sp⟩ := s
  obtain ⟨hc, ha, hp, oa, op, one⟩ := h
  simp only at hc ha hp oa op one
  subst hc ha hp
  obtain ⟨c1, c2, c3, c4, c5, c6, c7⟩ := stepCore_all pc pa pp r e oa op one
  refine ⟨(next pc r ⟨stOf pa, stOf pp⟩ e).1, ?_, ?_⟩
  · apply stepOk_eq_ok
    · exact c2
    · simpa [Peer.state_active] using c3
    · simpa [Peer.state_passive] using c4
    · exact c7
  · exact ⟨c1, c3.symm, c4.symm, c5, c6, by rw [c3, c4]; exact c7⟩

theorem checkFrom_runFrom (cfg : Cfg) (h : List (Role × Ev)) :
    ∀ (p : Peer) (s : S) (i : Nat), Rel cfg p s → checkFrom cfg s i (runFrom p h).2 = .ok := by
  induction h with
  | nil => intro p s i _; rfl
  | cons x rest ih =>
    intro p s i hr
    obtain ⟨r, e⟩ := x
    obtain ⟨s', h1, h2⟩ := step_sim cfg p s hr r e
    simp only [runFrom, checkFrom, h1]
    exact ih _ s' (i + 1) h2

/-- Master theorem: the reference checker accepts every run of the model. -/
theorem check_run_ok (cfg : Cfg) (h : List (Role × Ev)) : Spec.check cfg (run cfg h) = .ok :=
  checkFrom_runFrom cfg h (Peer.init cfg) {} 0 (rel_init cfg)

/-! ### Invariant of reachable states and the model/reference bridge -/

/-- The invariant carried by every reachable peer state: both slots well-formed, configuration
    unchanged, at most one slot in OpenConfirm-or-Established. -/
def Inv (cfg : Cfg) (p : Peer) : Prop := Rel cfg p ⟨stOf p.active, stOf p.passive⟩

theorem inv_init (cfg : Cfg) : Inv cfg (Peer.init cfg) := rel_init cfg

theorem inv_step (cfg : Cfg) (p : Peer) (r : Role) (e : Ev) (h : Inv cfg p) :
    Inv cfg (arbStep p r e).1 := by
  obtain ⟨s', _, h2⟩ := step_sim cfg p _ h r e
  obtain ⟨sa, sp⟩ := s'
  have ea := h2.eqA
  have ep := h2.eqP
  simp only at ea ep
  subst ea ep
  exact h2

theorem inv_runFrom (cfg : Cfg) (h : List (Role × Ev)) :
    ∀ p, Inv cfg p → Inv cfg (runFrom p h).1 := by
  induction h with
  | nil => intro p hp; exact hp
  | cons x rest ih =>
    intro p hp
    obtain ⟨r, e⟩ := x
    simp only [runFrom]
    exact ih _ (inv_step cfg p r e hp)

/-- Every state reachable from `Peer.init cfg` satisfies the invariant. -/
theorem reachable_inv (cfg : Cfg) (h : List (Role × Ev)) :
    Inv cfg (runFrom (Peer.init cfg) h).1 :=
  inv_runFrom cfg h _ (inv_init cfg)

theorem Peer.state_eq (p : Peer) (r : Role) :
    p.state r = (S.mk (stOf p.active) (stOf p.passive)).get r := by
  cases r
  · exact Peer.state_active p
  · exact Peer.state_passive p

/-- Bridge: on a state satisfying the invariant, one `Peer.process` step yields exactly the
    reference successor states, shows the outputs the reference demands, and keeps the invariant. -/
theorem process_spec (cfg : Cfg) (p : Peer) (hi : Inv cfg p) (r : Role) (i : Input) :
    (∀ r', (p.process r i).1.state r' =
        (next cfg r ⟨p.state .active, p.state .passive⟩ (.input i)).1.get r') ∧
    sees r (.fsm (p.process r i).2)
        (next cfg r ⟨p.state .active, p.state .passive⟩ (.input i)).2 = true ∧
    Inv cfg (p.process r i).1 := by
  have hstep := inv_step cfg p r (.input i) hi
  obtain ⟨pc, pa, pp⟩ := p
  obtain ⟨hc, -, -, oa, op, one⟩ := hi
  simp only at hc oa op one
  subst hc
  obtain ⟨-, c2, c3, c4, -, -, -⟩ := stepCore_all pc pa pp r (.input i) oa op one
  have e : arbStep ⟨pc, pa, pp⟩ r (.input i) =
      ((Peer.process ⟨pc, pa, pp⟩ r i).1, .fsm (Peer.process ⟨pc, pa, pp⟩ r i).2) := rfl
  rw [e] at c2 c3 c4 hstep
  simp only [Peer.state_active, Peer.state_passive]
  refine ⟨?_, c2, hstep⟩
  intro r'
  cases r'
  · rw [Peer.state_active]; exact c3
  · rw [Peer.state_passive]; exact c4

theorem inv_state_cases (cfg : Cfg) (p : Peer) (hi : Inv cfg p) (r : Role) :
    p.state r = .idle ∨ p.state r = .openSent ∨ p.state r = .openConfirm ∨
      p.state r = .established := by
  obtain ⟨pc, pa, pp⟩ := p
  obtain ⟨-, -, -, oa, op, -⟩ := hi
  cases r
  · cases pa with
    | none => left; rfl
    | some c => right; exact oa.1
  · cases pp with
    | none => left; rfl
    | some c => right; exact op.1

theorem inv_idle_none (cfg : Cfg) (p : Peer) (hi : Inv cfg p) (r : Role)
    (h : p.state r = .idle) : p.connection r = none := by
  obtain ⟨pc, pa, pp⟩ := p
  obtain ⟨-, -, -, oa, op, -⟩ := hi
  cases r
  · cases pa with
    | none => rfl
    | some c =>
      have := oa.1
      simp [Peer.state, Peer.connection] at h
      simp [h] at this
  · cases pp with
    | none => rfl
    | some c =>
      have := op.1
      simp [Peer.state, Peer.connection] at h
      simp [h] at this

/-! ### Facts about the reference transition `next` (pure case analysis) -/

/-- A message that the property does not allow in state `st`. -/
def NotAllowed (st : State) : Msg → Prop
  | .open _ => st ≠ .openSent
  | .keepalive => st ≠ .openConfirm ∧ st ≠ .established
  | .update => st ≠ .established
  | .routeRefresh _ => st ≠ .established
  | .notification _ _ => False

macro "next_bash" : tactic => `(tactic|
  (simp [next, S.get, S.set, Role.other, confirmed, asOk] <;> grind))

theorem next_get_established (cfg : Cfg) (r r' : Role) (s : S) (i : Input)
    (h : (next cfg r s (.input i)).1.get r' = .established) :
    s.get r' = .established ∨ (r' = r ∧ s.get r = .openConfirm ∧ i = .msg .keepalive) := by
  obtain ⟨sa, sp⟩ := s
  revert h
  cases r <;> cases r' <;> rcases i with _ | m | _ | _ | _ | _ | _
  all_goals try (rcases m with o | _ | _ | _ | _)
  all_goals next_bash

theorem next_get_openConfirm (cfg : Cfg) (r r' : Role) (s : S) (i : Input)
    (h : (next cfg r s (.input i)).1.get r' = .openConfirm) :
    s.get r' = .openConfirm ∨
      (r' = r ∧ s.get r = .openSent ∧
        ∃ o, i = .msg (.open o) ∧ (cfg.expectedAsn = 0 ∨ cfg.expectedAsn = o.asn)) := by
  obtain ⟨sa, sp⟩ := s
  revert h
  cases r <;> cases r' <;> rcases i with _ | m | _ | _ | _ | _ | _
  all_goals try (rcases m with o | _ | _ | _ | _)
  all_goals next_bash

theorem next_get_openSent (cfg : Cfg) (r r' : Role) (s : S) (i : Input)
    (h : (next cfg r s (.input i)).1.get r' = .openSent) :
    s.get r' = .openSent ∨ (r' = r ∧ s.get r = .idle ∧ ∃ b, i = .connected b) := by
  obtain ⟨sa, sp⟩ := s
  revert h
  cases r <;> cases r' <;> rcases i with _ | m | _ | _ | _ | _ | _
  all_goals try (rcases m with o | _ | _ | _ | _)
  all_goals next_bash

/-- A message not allowed in the (non-Idle) current state: the reference demands the
    FSM-error NOTIFICATION carrying that state and sends the role to Idle. -/
theorem next_unexpected (cfg : Cfg) (r : Role) (s : S) (m : Msg)
    (h0 : s.get r ≠ .idle) (hn : NotAllowed (s.get r) m) :
    next cfg r s (.input (.msg m)) = (s.set r .idle, .downLocal (5, (s.get r).code)) := by
  obtain ⟨sa, sp⟩ := s
  revert h0 hn
  cases r <;> rcases m with o | _ | _ | _ | _
  all_goals simp [NotAllowed, next, S.get, S.set, Role.other, confirmed, asOk] <;> grind

/-- The inputs that always return the role to Idle. -/
def IsDown : Input → Prop
  | .msg (.notification _ _) => True
  | .holdTimer => True
  | .disconnected => True
  | .adminShutdown => True
  | _ => False

theorem next_down_idle (cfg : Cfg) (r : Role) (s : S) (i : Input) (hd : IsDown i)
    (hs : s.get r = .idle ∨ s.get r = .openSent ∨ s.get r = .openConfirm ∨ s.get r = .established) :
    (next cfg r s (.input i)).1.get r = .idle := by
  obtain ⟨sa, sp⟩ := s
  revert hd hs
  cases r <;> rcases i with _ | m | _ | _ | _ | _ | _
  all_goals try (rcases m with o | _ | _ | _ | _)
  all_goals simp [IsDown, next, S.get, S.set, Role.other, confirmed, asOk] <;> grind

theorem next_other_established (cfg : Cfg) (r : Role) (s : S) (i : Input)
    (h : s.get r.other = .established) :
    (next cfg r s (.input i)).1.get r.other = .established := by
  obtain ⟨sa, sp⟩ := s
  revert h
  cases r <;> rcases i with _ | m | _ | _ | _ | _ | _
  all_goals try (rcases m with o | _ | _ | _ | _)
  all_goals next_bash

/-- The loser of an OpenConfirm/OpenConfirm collision: the connection *not* initiated by the
    speaker with the higher identifier. -/
def collisionLoser (cfg : Cfg) (o : OpenMsg) : Role :=
  if cfg.localRid > o.rid then .passive else .active

theorem next_collision (cfg : Cfg) (r : Role) (s : S) (o : OpenMsg)
    (h1 : s.get r = .openSent) (h2 : s.get r.other = .openConfirm)
    (hok : cfg.expectedAsn = 0 ∨ cfg.expectedAsn = o.asn) :
    next cfg r s (.input (.msg (.open o))) =
      ((s.set r .openConfirm).set (collisionLoser cfg o) .idle,
        .toConfirm (some (collisionLoser cfg o))) := by
  obtain ⟨sa, sp⟩ := s
  revert h1 h2
  cases r
  all_goals simp [collisionLoser, next, S.get, S.set, Role.other, confirmed, asOk] <;> grind

/-! ### What `sees` guarantees about the outputs -/

theorem sees_downLocal {r : Role} {outs : List POut} {n : Notif}
    (h : sees r (.fsm outs) (.downLocal n) = true) :
    POut.conn r (.down (.localNotif n) (some n)) ∈ outs := by
  simp [sees, outsOf] at h
  exact h.1.1

theorem sees_toConfirm_loser {r loser : Role} {outs : List POut}
    (h : sees r (.fsm outs) (.toConfirm (some loser)) = true) :
    if loser = r then POut.conn r (.down (.localNotif (6, 7)) (some (6, 7))) ∈ outs
    else POut.conn loser (.sendNotif (6, 7)) ∈ outs := by
  simp [sees, outsOf] at h
  split
  · next hl => simpa [hl] using h.2
  · next hl => simp [hl] at h; exact h.2.1

/-! ### Model properties on states satisfying the invariant -/

theorem S.get_mk_state (p : Peer) (r : Role) :
    (S.mk (p.state .active) (p.state .passive)).get r = p.state r := by
  cases r <;> rfl

theorem S.get_set (s : S) (r r' : Role) (v : State) :
    (s.set r v).get r' = if r' = r then v else s.get r' := by
  cases r <;> cases r' <;> simp [S.get, S.set]

theorem inv_at_most_one (cfg : Cfg) (p : Peer) (hi : Inv cfg p) :
    ¬ ((p.state .active = .openConfirm ∨ p.state .active = .established) ∧
       (p.state .passive = .openConfirm ∨ p.state .passive = .established)) := by
  have := hi.one
  simpa [confirmed, Peer.state_active, Peer.state_passive] using this

theorem inv_established_via (cfg : Cfg) (p : Peer) (hi : Inv cfg p) (r r' : Role) (i : Input)
    (h : (p.process r i).1.state r' = .established) :
    p.state r' = .established ∨ (r' = r ∧ p.state r = .openConfirm ∧ i = .msg .keepalive) := by
  rw [(process_spec cfg p hi r i).1 r'] at h
  simpa [S.get_mk_state] using next_get_established cfg r r' _ i h

theorem inv_openConfirm_via (cfg : Cfg) (p : Peer) (hi : Inv cfg p) (r r' : Role) (i : Input)
    (h : (p.process r i).1.state r' = .openConfirm) :
    p.state r' = .openConfirm ∨
      (r' = r ∧ p.state r = .openSent ∧
        ∃ o, i = .msg (.open o) ∧ (p.cfg.expectedAsn = 0 ∨ p.cfg.expectedAsn = o.asn)) := by
  rw [(process_spec cfg p hi r i).1 r'] at h
  rw [hi.cfgEq]
  simpa [S.get_mk_state] using next_get_openConfirm cfg r r' _ i h

theorem inv_openSent_via (cfg : Cfg) (p : Peer) (hi : Inv cfg p) (r r' : Role) (i : Input)
    (h : (p.process r i).1.state r' = .openSent) :
    p.state r' = .openSent ∨ (r' = r ∧ p.state r = .idle ∧ ∃ b, i = .connected b) := by
  rw [(process_spec cfg p hi r i).1 r'] at h
  simpa [S.get_mk_state] using next_get_openSent cfg r r' _ i h

theorem inv_unexpected (cfg : Cfg) (p : Peer) (hi : Inv cfg p) (r : Role) (m : Msg)
    (h0 : p.state r ≠ .idle) (hn : NotAllowed (p.state r) m) :
    POut.conn r (.down (.localNotif (5, (p.state r).code)) (some (5, (p.state r).code)))
        ∈ (p.process r (.msg m)).2 ∧
      (p.process r (.msg m)).1.state r = .idle := by
  obtain ⟨hs, hsees, -⟩ := process_spec cfg p hi r (.msg m)
  have hnext := next_unexpected cfg r ⟨p.state .active, p.state .passive⟩ m
    (by simpa [S.get_mk_state] using h0) (by simpa [S.get_mk_state] using hn)
  rw [hnext] at hsees
  constructor
  · simpa [S.get_mk_state] using sees_downLocal hsees
  · rw [hs r, hnext]; simp [S.get_set]

theorem inv_down_frees (cfg : Cfg) (p : Peer) (hi : Inv cfg p) (r : Role) (i : Input)
    (hd : IsDown i) :
    (p.process r i).1.state r = .idle ∧ (p.process r i).1.connection r = none := by
  obtain ⟨hs, -, hi'⟩ := process_spec cfg p hi r i
  have h1 : (p.process r i).1.state r = .idle := by
    rw [hs r]
    apply next_down_idle cfg r _ i hd
    simpa [S.get_mk_state] using inv_state_cases cfg p hi r
  exact ⟨h1, inv_idle_none cfg _ hi' r h1⟩

theorem inv_established_survives (cfg : Cfg) (p : Peer) (hi : Inv cfg p) (r : Role) (i : Input)
    (h : p.state r.other = .established) :
    (p.process r i).1.state r.other = .established := by
  rw [(process_spec cfg p hi r i).1 r.other]
  apply next_other_established
  simpa [S.get_mk_state] using h

theorem inv_collision (cfg : Cfg) (p : Peer) (hi : Inv cfg p) (r : Role) (o : OpenMsg)
    (h1 : p.state r = .openSent) (h2 : p.state r.other = .openConfirm)
    (hok : p.cfg.expectedAsn = 0 ∨ p.cfg.expectedAsn = o.asn) :
    (p.process r (.msg (.open o))).1.state (collisionLoser p.cfg o).other = .openConfirm ∧
    (p.process r (.msg (.open o))).1.state (collisionLoser p.cfg o) = .idle ∧
    (if collisionLoser p.cfg o = r then
        POut.conn r (.down (.localNotif (6, 7)) (some (6, 7))) ∈ (p.process r (.msg (.open o))).2
      else
        POut.conn (collisionLoser p.cfg o) (.sendNotif (6, 7)) ∈ (p.process r (.msg (.open o))).2) := by
  obtain ⟨hs, hsees, -⟩ := process_spec cfg p hi r (.msg (.open o))
  rw [hi.cfgEq] at hok ⊢
  have hnext := next_collision cfg r ⟨p.state .active, p.state .passive⟩ o
    (by simpa [S.get_mk_state] using h1) (by simpa [S.get_mk_state] using h2) hok
  rw [hnext] at hsees
  refine ⟨?_, ?_, sees_toConfirm_loser hsees⟩
  · rw [hs, hnext]
    simp only [S.get_set, S.get_mk_state]
    revert h1 h2
    cases r <;> cases collisionLoser cfg o <;> simp [Role.other] <;> grind
  · rw [hs, hnext]
    simp [S.get_set]

theorem connected_on_free_slot (p : Peer) (r : Role) (b : Bool) (h : p.connection r = none) :
    (p.process r (.connected b)).1.state r = .openSent := by
  cases r <;> simp [Peer.connection] at h <;>
    simp [Peer.process, Peer.onConnected, Peer.connection, h, Peer.setConn, Peer.state,
      Conn.onConnected]

/-! ### The end-to-end trace property -/

/-- The FSM input an arbiter event amounts to (a wire OPEN is parsed first; a parse error ends the
    task, which feeds `Disconnected`). -/
def evInput : Ev → Input
  | .input i => i
  | .rawOpen o =>
      match parseOpen o with
      | .ok m => .msg (.open m)
      | .error _ => .disconnected

theorem arbStep_fst (p : Peer) (r : Role) (e : Ev) : (arbStep p r e).1 = (p.process r (evInput e)).1 := by
  cases e with
  | input i => rfl
  | rawOpen o =>
    simp only [arbStep, evInput]
    cases parseOpen o <;> rfl

theorem runFrom_append_fst (h1 h2 : List (Role × Ev)) : ∀ p : Peer,
    (runFrom p (h1 ++ h2)).1 = (runFrom (runFrom p h1).1 h2).1 := by
  induction h1 with
  | nil => intro p; rfl
  | cons x rest ih =>
    intro p
    obtain ⟨r, e⟩ := x
    simp only [List.cons_append, runFrom]
    exact ih _

/-- State of role `r` after the first `n` events of `h`. -/
def stateAt (cfg : Cfg) (h : List (Role × Ev)) (r : Role) (n : Nat) : State :=
  (runFrom (Peer.init cfg) (h.take n)).1.state r

/-- An OPEN this speaker accepts: expected AS; for a wire OPEN also valid hold time and identifier. -/
def AcceptableOpen (cfg : Cfg) (e : Ev) : Prop :=
  ∃ m, evInput e = .msg (.open m) ∧ (cfg.expectedAsn = 0 ∨ cfg.expectedAsn = m.asn)

theorem acceptable_rawOpen {cfg : Cfg} {o : RawOpen} (h : AcceptableOpen cfg (.rawOpen o)) :
    validHold o.hold = true ∧ validId o.rid = true ∧ (cfg.expectedAsn = 0 ∨ cfg.expectedAsn = o.asn) := by
  obtain ⟨m, hm, ha⟩ := h
  simp only [evInput] at hm
  by_cases h1 : o.hold = 1 ∨ o.hold = 2
  · simp [parseOpen, h1] at hm
  · by_cases h2 : badRouterId o.rid = true
    · simp [parseOpen, h1, h2] at hm
    · simp [parseOpen, h1, h2] at hm
      subst hm
      refine ⟨by simp [validHold]; omega, ?_, ha⟩
      rw [badRouterId_iff] at h2
      simpa using h2

/-- One step of the history, seen at position `n`. -/
theorem stateAt_succ (cfg : Cfg) (h : List (Role × Ev)) (r : Role) (n : Nat) (hn : n < h.length) :
    stateAt cfg h r (n + 1) =
      ((runFrom (Peer.init cfg) (h.take n)).1.process h[n].1 (evInput h[n].2)).1.state r := by
  unfold stateAt
  rw [List.take_succ_eq_append_getElem hn, runFrom_append_fst]
  simp only [runFrom, arbStep_fst]

theorem stateAt_step (cfg : Cfg) (h : List (Role × Ev)) (r : Role) (n : Nat) (hn : n < h.length) :
    (stateAt cfg h r (n + 1) = .established →
        stateAt cfg h r n = .established ∨
        (stateAt cfg h r n = .openConfirm ∧ h[n].1 = r ∧ evInput h[n].2 = .msg .keepalive)) ∧
    (stateAt cfg h r (n + 1) = .openConfirm →
        stateAt cfg h r n = .openConfirm ∨
        (stateAt cfg h r n = .openSent ∧ h[n].1 = r ∧ AcceptableOpen cfg h[n].2)) ∧
    (stateAt cfg h r (n + 1) = .openSent →
        stateAt cfg h r n = .openSent ∨
        (stateAt cfg h r n = .idle ∧ h[n].1 = r ∧ ∃ b, evInput h[n].2 = .connected b)) := by
  have hi := reachable_inv cfg (h.take n)
  rw [stateAt_succ cfg h r n hn]
  refine ⟨fun he => ?_, fun he => ?_, fun he => ?_⟩
  · rcases inv_established_via cfg _ hi _ _ _ he with h1 | ⟨h1, h2, h3⟩
    · exact Or.inl h1
    · exact Or.inr ⟨h1 ▸ h2, h1.symm, h3⟩
  · rcases inv_openConfirm_via cfg _ hi _ _ _ he with h1 | ⟨h1, h2, o, h3, h4⟩
    · exact Or.inl h1
    · refine Or.inr ⟨h1 ▸ h2, h1.symm, o, h3, ?_⟩
      rw [hi.cfgEq] at h4; exact h4
  · rcases inv_openSent_via cfg _ hi _ _ _ he with h1 | ⟨h1, h2, h3⟩
    · exact Or.inl h1
    · exact Or.inr ⟨h1 ▸ h2, h1.symm, h3⟩

/-- The three phases a role went through, located in the history: `connected` at position `i`
    (from Idle), then OpenSent until an acceptable OPEN at `j`, then OpenConfirm until the
    KEEPALIVE at `k`, then Established up to position `n`. -/
def Phases (cfg : Cfg) (h : List (Role × Ev)) (r : Role) (n : Nat) : State → Prop
  | .openSent =>
      ∃ i, ∃ hi : i < h.length, i < n ∧ h[i].1 = r ∧ (∃ b, evInput h[i].2 = .connected b) ∧
        stateAt cfg h r i = .idle ∧ ∀ m, i < m → m ≤ n → stateAt cfg h r m = .openSent
  | .openConfirm =>
      ∃ i j, ∃ hi : i < h.length, ∃ hj : j < h.length, i < j ∧ j < n ∧
        h[i].1 = r ∧ (∃ b, evInput h[i].2 = .connected b) ∧ stateAt cfg h r i = .idle ∧
        (∀ m, i < m → m ≤ j → stateAt cfg h r m = .openSent) ∧
        h[j].1 = r ∧ AcceptableOpen cfg h[j].2 ∧
        ∀ m, j < m → m ≤ n → stateAt cfg h r m = .openConfirm
  | .established =>
      ∃ i j k, ∃ hi : i < h.length, ∃ hj : j < h.length, ∃ hk : k < h.length, i < j ∧ j < k ∧ k < n ∧
        h[i].1 = r ∧ (∃ b, evInput h[i].2 = .connected b) ∧ stateAt cfg h r i = .idle ∧
        (∀ m, i < m → m ≤ j → stateAt cfg h r m = .openSent) ∧
        h[j].1 = r ∧ AcceptableOpen cfg h[j].2 ∧
        (∀ m, j < m → m ≤ k → stateAt cfg h r m = .openConfirm) ∧
        h[k].1 = r ∧ evInput h[k].2 = .msg .keepalive ∧
        ∀ m, k < m → m ≤ n → stateAt cfg h r m = .established
  | _ => True

theorem phases_all (cfg : Cfg) (h : List (Role × Ev)) (r : Role) :
    ∀ n, n ≤ h.length → Phases cfg h r n (stateAt cfg h r n) := by
  intro n
  induction n with
  | zero =>
    intro _
    have : stateAt cfg h r 0 = .idle := by
      simp [stateAt, runFrom, Peer.init, Peer.state, Peer.connection]; cases r <;> rfl
    rw [this]; trivial
  | succ n ih =>
    intro hn
    have hlt : n < h.length := by omega
    have ihn := ih (by omega)
    obtain ⟨s1, s2, s3⟩ := stateAt_step cfg h r n hlt
    cases hs : stateAt cfg h r (n + 1) with
    | idle => trivial
    | connect => trivial
    | active => trivial
    | openSent =>
      rcases s3 hs with h0 | ⟨h0, h1, h2⟩
      · rw [h0] at ihn
        obtain ⟨i, hi, a1, a2, a3, a4, a5⟩ := ihn
        refine ⟨i, hi, by omega, a2, a3, a4, fun m m1 m2 => ?_⟩
        by_cases hm : m = n + 1
        · rw [hm]; exact hs
        · exact a5 m m1 (by omega)
      · refine ⟨n, hlt, by omega, h1, h2, h0, fun m m1 m2 => ?_⟩
        have : m = n + 1 := by omega
        rw [this]; exact hs
    | openConfirm =>
      rcases s2 hs with h0 | ⟨h0, h1, h2⟩
      · rw [h0] at ihn
        obtain ⟨i, j, hi, hj, a1, a2, a3, a4, a5, a6, a7, a8, a9⟩ := ihn
        refine ⟨i, j, hi, hj, a1, by omega, a3, a4, a5, a6, a7, a8, fun m m1 m2 => ?_⟩
        by_cases hm : m = n + 1
        · rw [hm]; exact hs
        · exact a9 m m1 (by omega)
      · rw [h0] at ihn
        obtain ⟨i, hi, a1, a2, a3, a4, a5⟩ := ihn
        refine ⟨i, n, hi, hlt, a1, by omega, a2, a3, a4, a5, h1, h2, fun m m1 m2 => ?_⟩
        have : m = n + 1 := by omega
        rw [this]; exact hs
    | established =>
      rcases s1 hs with h0 | ⟨h0, h1, h2⟩
      · rw [h0] at ihn
        obtain ⟨i, j, k, hi, hj, hk, a1, a2, a3, a4, a5, a6, a7, a8, a9, a10, a11, a12, a13⟩ := ihn
        refine ⟨i, j, k, hi, hj, hk, a1, a2, by omega, a4, a5, a6, a7, a8, a9, a10, a11, a12,
          fun m m1 m2 => ?_⟩
        by_cases hm : m = n + 1
        · rw [hm]; exact hs
        · exact a13 m m1 (by omega)
      · rw [h0] at ihn
        obtain ⟨i, j, hi, hj, a1, a2, a3, a4, a5, a6, a7, a8, a9⟩ := ihn
        refine ⟨i, j, n, hi, hj, hlt, a1, a2, by omega, a3, a4, a5, a6, a7, a8, a9, h1, h2,
          fun m m1 m2 => ?_⟩
        have : m = n + 1 := by omega
        rw [this]; exact hs

end Rbgp.Fsm
