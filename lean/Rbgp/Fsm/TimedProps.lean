/-
  Rbgp.Fsm.TimedProps — C08, the readable statements.

  Everything is about the timed driver MODEL (`Rbgp.Fsm.Timed`: the FSM of `Model.lean` plus the
  two timer slots per task of `PeerSession::apply_outputs`/`run_select`, on a virtual clock) and
  holds for every configuration the daemon accepts (`cfgValid`: hold time 0 or 3..65535) and
  every well-formed timed history (`wfHist`):

    * the two timer inputs are produced by the clock (`wait`), never injected as events, and
    * an already-parsed OPEN injected as an event does not carry hold time 1 or 2 (that is what
      `parse_message` guarantees; a `rawOpen` event goes through that check inside the model).

  Both restrictions are necessary, see `wf_needed_*` at the end (concrete rejected runs).

  "Reachable" is `Reach cfg s cs`: `s` is the timed state after some well-formed history and
  `cs` is the state of the reference observer (`TimedSpec.S`, written from the property text)
  after watching that run.  `Reach` is closed under further steps (`Reach.step`), so each
  theorem below speaks about every point of every run.
-/
import Rbgp.Fsm.TimedProofs
namespace Rbgp.Fsm.TimedProps
open Rbgp.Fsm Rbgp.Fsm.Timed Rbgp.Fsm.TimedSpec Rbgp.Fsm.TimedProofs

set_option linter.unusedVariables false
set_option linter.unusedSimpArgs false

/-! ## 0. The reference checker accepts every run -/

/-- Master theorem. -/
theorem check_run_ok (cfg : Cfg) (hv : cfgValid cfg = true) (h : List TEv) (hw : wfHist h = true) :
    TimedSpec.check cfg (Timed.run cfg h) = .ok :=
  TimedProofs.check_run_ok cfg hv h hw

/-! ## 1. Reachable states and the observer's record -/

def init (cfg : Cfg) : TState := { peer := Peer.init cfg }

def Reach (cfg : Cfg) (s : TState) (cs : S) : Prop :=
  ∃ h, wfHist h = true ∧ s = reach (init cfg) h ∧ specAfter cfg {} (Timed.run cfg h) = some cs

theorem reach_init (cfg : Cfg) : Reach cfg (init cfg) {} := ⟨[], rfl, rfl, rfl⟩

/-- Every well-formed history leads to a reachable state (the observer never rejects). -/
theorem reach_of_hist (cfg : Cfg) (hv : cfgValid cfg = true) (h : List TEv) (hw : wfHist h = true) :
    ∃ cs, Reach cfg (reach (init cfg) h) cs := by
  obtain ⟨cs, h1, -⟩ := reach_rel cfg hv h (init cfg) {} hw (trel_init cfg)
  exact ⟨cs, h, hw, rfl, h1⟩

/-- The simulation relation holds in every reachable state. -/
theorem Reach.rel {cfg : Cfg} (hv : cfgValid cfg = true) {s : TState} {cs : S} (h : Reach cfg s cs) :
    TRel cfg s cs := by
  obtain ⟨hist, hw, rfl, hs⟩ := h
  obtain ⟨cs', h1, h2⟩ := reach_rel cfg hv hist (init cfg) {} hw (trel_init cfg)
  have : cs' = cs := by
    have := h1.symm.trans hs
    exact Option.some.inj this
  exact this ▸ h2

/-- Closure: any further well-formed step is accepted by the observer and leads to a reachable
    state again. -/
theorem Reach.step {cfg : Cfg} (hv : cfgValid cfg = true) {s : TState} {cs : S} (h : Reach cfg s cs)
    (e : TEv) (hw : wfTEv e = true) :
    ∃ cs', stepOk cfg cs (mkStep s e) = .ok cs' ∧ Reach cfg (tstep s e).1 cs' := by
  have hrel := h.rel hv
  obtain ⟨cs', h1, -⟩ := tev_sim cfg hv s cs hrel e hw
  refine ⟨cs', h1, ?_⟩
  obtain ⟨hist, hwf, rfl, hs⟩ := h
  refine ⟨hist ++ [e], ?_, ?_, ?_⟩
  · rw [wfHist_append, hwf]; simp [wfHist, hw]
  · rw [reach_append]; rfl
  · unfold Timed.run at hs ⊢
    have e0 : ({ peer := Peer.init cfg } : TState) = init cfg := rfl
    rw [e0] at hs ⊢
    rw [runFrom_append, specAfter_append, hs]
    simp only [Option.bind_some, runFrom_cons, Timed.runFrom, specAfter]
    have h1' := h1
    unfold mkStep at h1'
    rw [h1']

/-- The observer's `up` flag is the model's "slot occupied". -/
theorem reach_up {cfg : Cfg} (hv : cfgValid cfg = true) {s : TState} {cs : S} (h : Reach cfg s cs)
    (r : Role) : (cs.get r).up = isUp (s.peer.state r) :=
  up_eq (h.rel hv) r

/-- A connection is *confirmed* when it is in OpenConfirm or Established. -/
def Confirmed (s : TState) (r : Role) (c : Conn) : Prop :=
  s.peer.connection r = some c ∧ (c.state = .openConfirm ∨ c.state = .established)

/-- What the relation says about a confirmed connection. -/
theorem confirmed_rel {cfg : Cfg} (hv : cfgValid cfg = true) {s : TState} {cs : S} (h : Reach cfg s cs)
    {r : Role} {c : Conn} (hc : Confirmed s r c) :
    (cs.get r).up = true ∧ (cs.get r).confirmed = true ∧ c.negotiatedHold = (cs.get r).neg ∧
    c.kaInterval = (cs.get r).neg / 3 ∧
    ((cs.get r).neg = 0 → (s.slots r).hold = none ∧ (s.slots r).ka = none) ∧
    ((cs.get r).neg ≠ 0 →
      (s.slots r).hold = some ((cs.get r).lastRx + (cs.get r).neg) ∧
      (s.slots r).ka = some ((cs.get r).lastKa + (cs.get r).neg / 3) ∧
      s.now ≤ (cs.get r).lastRx + (cs.get r).neg ∧ s.now ≤ (cs.get r).lastKa + (cs.get r).neg / 3) := by
  have hr := (h.rel hv).role r
  rw [hc.1] at hr
  obtain ⟨-, hup, h3 | ⟨-, a2, a3, a4, -, a6, a7⟩⟩ := hr
  · rcases hc.2 with h | h <;> rw [h3.1] at h <;> cases h
  · exact ⟨hup, a2, a3, a4, a6, a7⟩

/-- Conversely, a role the observer has as confirmed is a confirmed connection of the model. -/
theorem confirmed_of_obs {cfg : Cfg} (hv : cfgValid cfg = true) {s : TState} {cs : S} (h : Reach cfg s cs)
    {r : Role} (hup : (cs.get r).up = true) (hcf : (cs.get r).confirmed = true) :
    ∃ c, Confirmed s r c := by
  have hr := (h.rel hv).role r
  cases hconn : s.peer.connection r with
  | none => rw [hconn] at hr; rw [hr.2] at hup; cases hup
  | some c =>
    rw [hconn] at hr
    obtain ⟨-, -, h3 | h3⟩ := hr
    · rw [h3.2.1] at hcf; cases hcf
    · exact ⟨c, hconn, h3.1⟩

/-! ## 2. The hold time in force is the minimum, the keepalive interval a third of it -/

/-- The step in which role `r` accepts an OPEN (OpenSent → OpenConfirm, surviving collision
    resolution): the connection's negotiated hold time is `min local remote`, its keepalive
    interval a third of that, and exactly those two timers are armed from the current time —
    none at all when the minimum is zero. -/
theorem open_accept {cfg : Cfg} (hv : cfgValid cfg = true) {s : TState} {cs : S} (h : Reach cfg s cs)
    (r : Role) (e : Ev) (hw : wfEv e = true) (hold : Nat) (he : openHold? e = some hold)
    (hbefore : s.peer.state r = .openSent)
    (hafter : (tstep s (.ev r e)).1.peer.state r = .openConfirm) :
    ∃ c, Confirmed (tstep s (.ev r e)).1 r c ∧
      c.negotiatedHold = min cfg.localHold hold ∧
      c.kaInterval = c.negotiatedHold / 3 ∧
      (c.negotiatedHold ≠ 0 →
        ((tstep s (.ev r e)).1.slots r).hold = some (s.now + c.negotiatedHold) ∧
        ((tstep s (.ev r e)).1.slots r).ka = some (s.now + c.negotiatedHold / 3)) ∧
      (c.negotiatedHold = 0 →
        ((tstep s (.ev r e)).1.slots r).hold = none ∧ ((tstep s (.ev r e)).1.slots r).ka = none) := by
  have hrel := h.rel hv
  obtain ⟨cs', h1, h2⟩ := h.step hv (.ev r e) hw
  obtain ⟨-, hcs'⟩ := stepOk_ev_inv h1
  -- the observer's record of `r` before the step
  have hx : (cs.get r).up = true ∧ (cs.get r).confirmed = false := by
    have hr := hrel.role r
    cases hconn : s.peer.connection r with
    | none => rw [state_of_none hconn] at hbefore; cases hbefore
    | some c0 =>
      rw [hconn] at hr
      rw [state_of_some hconn] at hbefore
      obtain ⟨-, hup, h3 | h3⟩ := hr
      · exact ⟨hup, h3.2.1⟩
      · rcases h3.1 with h | h <;> rw [hbefore] at h <;> cases h
  -- ... and after it
  have hx' : cs'.get r = { cs.get r with confirmed := true, neg := min cfg.localHold hold, lastRx := s.now, lastKa := s.now } := by
    rw [hcs', syncDown_get,
      stOf_eq (mkStep s (.ev r e)) (tstep s (.ev r e)).1.peer rfl rfl r, hafter]
    simp [isUp, updR, hx.1, hx.2, isConfirmed, he, hrel.nowEq]
  -- the connection after the step
  cases hconn : (tstep s (.ev r e)).1.peer.connection r with
  | none => rw [state_of_none hconn] at hafter; cases hafter
  | some c =>
    rw [state_of_some hconn] at hafter
    have hc : Confirmed (tstep s (.ev r e)).1 r c := ⟨hconn, Or.inl hafter⟩
    obtain ⟨-, -, a3, a4, a6, a7⟩ := confirmed_rel hv h2 hc
    rw [hx'] at a3 a4 a6 a7
    simp only at a3 a4 a6 a7
    refine ⟨c, hc, a3, by rw [a4, a3], ?_, ?_⟩
    · intro hne
      rw [a3] at hne ⊢
      exact ⟨(a7 hne).1, (a7 hne).2.1⟩
    · intro hz
      rw [a3] at hz
      exact a6 hz

/-- "The hold time in force is the smaller of the two advertised values" — and the hold timer
    armed at OPEN receipt runs for exactly that long. -/
theorem negotiated_min {cfg : Cfg} (hv : cfgValid cfg = true) {s : TState} {cs : S} (h : Reach cfg s cs)
    (r : Role) (e : Ev) (hw : wfEv e = true) (hold : Nat) (he : openHold? e = some hold)
    (hbefore : s.peer.state r = .openSent)
    (hafter : (tstep s (.ev r e)).1.peer.state r = .openConfirm) :
    ∃ c, Confirmed (tstep s (.ev r e)).1 r c ∧ c.negotiatedHold = min cfg.localHold hold ∧
      ((tstep s (.ev r e)).1.slots r).hold =
        (if min cfg.localHold hold = 0 then none else some (s.now + min cfg.localHold hold)) := by
  obtain ⟨c, hc, h1, -, h3, h4⟩ := open_accept hv h r e hw hold he hbefore hafter
  refine ⟨c, hc, h1, ?_⟩
  by_cases hz : min cfg.localHold hold = 0
  · rw [if_pos hz]; exact (h4 (h1.trans hz)).1
  · rw [if_neg hz, ← h1]; exact (h3 (by rw [h1]; exact hz)).1

/-- "... and the keepalive interval one third of it" — and the keepalive timer armed at OPEN
    receipt runs for exactly that long. -/
theorem keepalive_third {cfg : Cfg} (hv : cfgValid cfg = true) {s : TState} {cs : S} (h : Reach cfg s cs)
    (r : Role) (e : Ev) (hw : wfEv e = true) (hold : Nat) (he : openHold? e = some hold)
    (hbefore : s.peer.state r = .openSent)
    (hafter : (tstep s (.ev r e)).1.peer.state r = .openConfirm) :
    ∃ c, Confirmed (tstep s (.ev r e)).1 r c ∧ c.kaInterval = min cfg.localHold hold / 3 ∧
      ((tstep s (.ev r e)).1.slots r).ka =
        (if min cfg.localHold hold = 0 then none else some (s.now + min cfg.localHold hold / 3)) := by
  obtain ⟨c, hc, h1, h2, h3, h4⟩ := open_accept hv h r e hw hold he hbefore hafter
  refine ⟨c, hc, by rw [h2, h1], ?_⟩
  by_cases hz : min cfg.localHold hold = 0
  · rw [if_pos hz]; exact (h4 (h1.trans hz)).2
  · rw [if_neg hz, ← h1]; exact (h3 (by rw [h1]; exact hz)).2

/-- The two values stay what they were at OPEN receipt for as long as the connection is
    confirmed: in every reachable state `kaInterval = negotiatedHold / 3`, and the value is 0 or
    at least 3 (so a running keepalive timer always has a period of at least one second). -/
theorem keepalive_third_invariant {cfg : Cfg} (hv : cfgValid cfg = true) {s : TState} {cs : S}
    (h : Reach cfg s cs) {r : Role} {c : Conn} (hc : Confirmed s r c) :
    c.kaInterval = c.negotiatedHold / 3 ∧ (c.negotiatedHold = 0 ∨ 3 ≤ c.negotiatedHold) := by
  have hr := (h.rel hv).role r
  rw [hc.1] at hr
  obtain ⟨-, -, h3 | ⟨-, -, a3, a4, a5, -, -⟩⟩ := hr
  · rcases hc.2 with h | h <;> rw [h3.1] at h <;> cases h
  · rw [a3, a4]; exact ⟨rfl, a5⟩

/-! ## 3. The hold deadline is "last KEEPALIVE/UPDATE/OPEN received + negotiated hold time" -/

/-- In every reachable state, for every confirmed connection with negotiated hold time `n ≠ 0`:
    the hold slot holds the deadline `lastRx + n` and the keepalive slot `lastKa + n / 3`, where
    `lastRx`/`lastKa` are the observer's records (see `lastRx_step` for what they are); neither
    deadline is in the past. -/
theorem hold_deadline_invariant {cfg : Cfg} (hv : cfgValid cfg = true) {s : TState} {cs : S}
    (h : Reach cfg s cs) {r : Role} {c : Conn} (hc : Confirmed s r c) (hn : c.negotiatedHold ≠ 0) :
    (s.slots r).hold = some ((cs.get r).lastRx + c.negotiatedHold) ∧
    (s.slots r).ka = some ((cs.get r).lastKa + c.negotiatedHold / 3) ∧
    s.now ≤ (cs.get r).lastRx + c.negotiatedHold ∧
    s.now ≤ (cs.get r).lastKa + c.negotiatedHold / 3 := by
  obtain ⟨-, -, a3, -, -, a7⟩ := confirmed_rel hv h hc
  rw [a3] at hn ⊢
  exact a7 hn

/-- What the observer's `lastRx` is (1): the OPEN that confirms the connection sets it (and
    `lastKa`) to the current time. -/
theorem lastRx_on_open {cfg : Cfg} (hv : cfgValid cfg = true) {s : TState} {cs cs' : S} (h : Reach cfg s cs)
    (r : Role) (e : Ev) (hw : wfEv e = true) (hold : Nat) (he : openHold? e = some hold)
    (hstep : stepOk cfg cs (mkStep s (.ev r e)) = .ok cs')
    (hbefore : s.peer.state r = .openSent)
    (hafter : (tstep s (.ev r e)).1.peer.state r = .openConfirm) :
    (cs'.get r).lastRx = s.now ∧ (cs'.get r).lastKa = s.now ∧ (cs'.get r).neg = min cfg.localHold hold := by
  have hrel := h.rel hv
  obtain ⟨-, hcs'⟩ := stepOk_ev_inv hstep
  have hx : (cs.get r).up = true ∧ (cs.get r).confirmed = false := by
    have hr := hrel.role r
    cases hconn : s.peer.connection r with
    | none => rw [state_of_none hconn] at hbefore; cases hbefore
    | some c0 =>
      rw [hconn] at hr
      rw [state_of_some hconn] at hbefore
      obtain ⟨-, hup, h3 | h3⟩ := hr
      · exact ⟨hup, h3.2.1⟩
      · rcases h3.1 with h | h <;> rw [hbefore] at h <;> cases h
  rw [hcs', syncDown_get, stOf_eq (mkStep s (.ev r e)) (tstep s (.ev r e)).1.peer rfl rfl r, hafter]
  simp [isUp, updR, hx.1, hx.2, isConfirmed, he, hrel.nowEq]

/-- What the observer's record of a connection that was confirmed before an ordinary event (of
    any role `r'`) and is still there afterwards looks like: hold time in force unchanged;
    `lastRx` becomes the current time exactly when the event is a KEEPALIVE or UPDATE received
    on that connection, and is unchanged otherwise. -/
theorem record_ev {cfg : Cfg} (hv : cfgValid cfg = true) {s : TState} {cs cs' : S} (h : Reach cfg s cs)
    (r' : Role) (e : Ev) (hstep : stepOk cfg cs (mkStep s (.ev r' e)) = .ok cs')
    (r : Role) {c : Conn} (hc : Confirmed s r c)
    (hup : isUp ((tstep s (.ev r' e)).1.peer.state r) = true) :
    (cs'.get r).up = true ∧ (cs'.get r).confirmed = true ∧ (cs'.get r).neg = (cs.get r).neg ∧
    (cs'.get r).lastRx =
      if r' = r ∧ (e = .input (.msg .keepalive) ∨ e = .input (.msg .update)) then s.now
      else (cs.get r).lastRx := by
  have hrel := h.rel hv
  obtain ⟨-, hcs'⟩ := stepOk_ev_inv hstep
  obtain ⟨xup, xcf, -⟩ := confirmed_rel hv h hc
  have hget : cs'.get r = (cs.set r' (updR cfg cs.now (cs.get r') e
      ((tstep s (.ev r' e)).1.peer.state r'))).get r := by
    rw [hcs', syncDown_get, stOf_eq (mkStep s (.ev r' e)) (tstep s (.ev r' e)).1.peer rfl rfl r,
      hup, if_pos rfl]
  by_cases hr : r' = r
  · subst hr
    rw [hget, S.get_set_same]
    rcases e with (_ | m | _ | _ | _ | _ | _) | o
    all_goals try (rcases m with o | _ | _ | _ | _)
    all_goals simp [updR, xup, xcf, hup, hrel.nowEq]
    all_goals (split <;> simp [xup, xcf])
  · rw [hget, S.get_set_ne _ (Ne.symm hr), if_neg (by simp [hr])]
    exact ⟨xup, xcf, rfl, rfl⟩

/-- What the observer's record of a confirmed connection looks like after a `wait d`. -/
theorem record_wait {cfg : Cfg} (hv : cfgValid cfg = true) {s : TState} {cs cs' : S} (h : Reach cfg s cs)
    (d : Nat) (hstep : stepOk cfg cs (mkStep s (.wait d)) = .ok cs')
    (r : Role) {c : Conn} (hc : Confirmed s r c) :
    ((cs.get r).neg = 0 → (∀ f ∈ firedOf s d, f.role ≠ r) ∧ cs'.get r = cs.get r) ∧
    ((cs.get r).neg ≠ 0 →
      ((∀ f ∈ firedOf s d, f.role = r → f.isHold = false) ∧
          s.now + d < (cs.get r).lastRx + (cs.get r).neg ∧
          (cs'.get r).up = true ∧ (cs'.get r).confirmed = true ∧
          (cs'.get r).neg = (cs.get r).neg ∧ (cs'.get r).lastRx = (cs.get r).lastRx) ∨
      ((∃ f ∈ firedOf s d, f.role = r ∧ f.isHold = true ∧
          f.time = (cs.get r).lastRx + (cs.get r).neg ∧ f.time ≤ s.now + d ∧
          hasHoldDown r f.outs = true) ∧ cs'.get r = {})) := by
  have hrel := h.rel hv
  obtain ⟨xup, xcf, -⟩ := confirmed_rel hv h hc
  obtain ⟨cs1, k1, k2, k3, rfl⟩ := stepOk_wait_inv hstep
  rw [hrel.nowEq] at k1 k2 k3
  simp only [S.get_with_now]
  constructor
  · intro hz
    exact onFiredAll_zero _ _ cs cs1 r k1 xcf hz
  · intro hne
    rcases onFiredAll_nonzero _ _ cs cs1 r k1 xup xcf hne with ⟨b1, b2, b3, b4, b5⟩ | hr
    · refine Or.inl ⟨b1, ?_, b2, b3, b4, b5⟩
      -- nothing may be overdue at the end of the wait
      have hov : overdue cs1 r (s.now + d) = none := by cases r <;> assumption
      unfold overdue at hov
      dsimp only at hov
      rw [if_pos ⟨b2, b3, by rw [b4]; exact hne⟩] at hov
      by_cases hle : (cs1.get r).lastRx + (cs1.get r).neg ≤ s.now + d
      · rw [if_pos hle] at hov; cases hov
      · rw [b4, b5] at hle; omega
    · exact Or.inr hr

/-! ## 4. Re-armed by every KEEPALIVE or UPDATE received, and by nothing else -/

/-- Every KEEPALIVE or UPDATE received on a confirmed connection that survives the step re-arms
    the hold timer to "now + negotiated hold time" (when that is non-zero). -/
theorem ka_update_rearm {cfg : Cfg} (hv : cfgValid cfg = true) {s : TState} {cs : S} (h : Reach cfg s cs)
    (r : Role) {c c' : Conn} (hc : Confirmed s r c) (e : Ev)
    (he : e = .input (.msg .keepalive) ∨ e = .input (.msg .update))
    (hc' : Confirmed (tstep s (.ev r e)).1 r c') :
    c'.negotiatedHold = c.negotiatedHold ∧
    (c.negotiatedHold ≠ 0 → ((tstep s (.ev r e)).1.slots r).hold = some (s.now + c.negotiatedHold)) := by
  have hw : wfEv e = true := by rcases he with rfl | rfl <;> rfl
  obtain ⟨cs', h1, h2⟩ := h.step hv (.ev r e) hw
  have hup : isUp ((tstep s (.ev r e)).1.peer.state r) = true := by
    rw [state_of_some hc'.1]; rcases hc'.2 with h | h <;> simp [isUp, h]
  obtain ⟨-, -, b3, b4⟩ := record_ev hv h r e h1 r hc hup
  rw [if_pos ⟨rfl, he⟩] at b4
  obtain ⟨-, -, a3, -, -, -⟩ := confirmed_rel hv h hc
  obtain ⟨-, -, a3', -, -, a7'⟩ := confirmed_rel hv h2 hc'
  have hn : c'.negotiatedHold = c.negotiatedHold := by rw [a3', a3, b3]
  refine ⟨hn, fun hne => ?_⟩
  have := (a7' (by rw [← a3', hn]; exact hne)).1
  rw [this, b4, ← a3', hn]

/-- ... and by nothing else: any step (an event of either role, or a `wait`) that is not a
    KEEPALIVE/UPDATE received on this connection, and across which the connection stays
    confirmed, leaves its hold slot exactly as it was.  (ROUTE-REFRESH, update-sent, the
    keepalive timer firing inside a `wait`, anything on the other role's connection, ...) -/
theorem only_ka_update_rearm {cfg : Cfg} (hv : cfgValid cfg = true) {s : TState} {cs : S} (h : Reach cfg s cs)
    (r : Role) {c c' : Conn} (hc : Confirmed s r c) (te : TEv) (hw : wfTEv te = true)
    (hne : te ≠ .ev r (.input (.msg .keepalive)) ∧ te ≠ .ev r (.input (.msg .update)))
    (hc' : Confirmed (tstep s te).1 r c') :
    ((tstep s te).1.slots r).hold = (s.slots r).hold := by
  obtain ⟨cs', h1, h2⟩ := h.step hv te hw
  have hup : isUp ((tstep s te).1.peer.state r) = true := by
    rw [state_of_some hc'.1]; rcases hc'.2 with h | h <;> simp [isUp, h]
  obtain ⟨-, -, -, -, a6, a7⟩ := confirmed_rel hv h hc
  obtain ⟨xup', -, -, -, a6', a7'⟩ := confirmed_rel hv h2 hc'
  -- the observer's record keeps `neg` and `lastRx`
  have key : (cs'.get r).neg = (cs.get r).neg ∧ (cs'.get r).lastRx = (cs.get r).lastRx := by
    cases te with
    | ev r' e =>
      obtain ⟨-, -, b3, b4⟩ := record_ev hv h r' e h1 r hc hup
      refine ⟨b3, ?_⟩
      rw [b4, if_neg]
      rintro ⟨rfl, he⟩
      rcases he with rfl | rfl
      · exact hne.1 rfl
      · exact hne.2 rfl
    | wait d =>
      obtain ⟨z, nz⟩ := record_wait hv h d h1 r hc
      by_cases h0 : (cs.get r).neg = 0
      · rw [(z h0).2]; exact ⟨rfl, rfl⟩
      · rcases nz h0 with ⟨-, -, -, -, b4, b5⟩ | ⟨-, hdead⟩
        · exact ⟨b4, b5⟩
        · rw [hdead] at xup'; cases xup'
  by_cases h0 : (cs.get r).neg = 0
  · rw [(a6 h0).1, (a6' (by rw [key.1]; exact h0)).1]
  · rw [(a7 h0).1, (a7' (by rw [key.1]; exact h0)).1, key.1, key.2]

/-! ## 5. Torn down for hold-timer expiry exactly when nothing was received for the hold time -/

/-- A `wait d` in a reachable state produces a hold-timer expiry for a confirmed connection with
    negotiated hold time `n ≠ 0` **iff** `lastRx + n ≤ now + d`, i.e. iff nothing re-arming was
    received for `n` seconds by the end of the wait.  When it fires it fires exactly at
    `lastRx + n`, shows the hold-expiry SessionDown, and the connection is gone afterwards. -/
theorem expiry_iff_silence {cfg : Cfg} (hv : cfgValid cfg = true) {s : TState} {cs : S} (h : Reach cfg s cs)
    (r : Role) {c : Conn} (hc : Confirmed s r c) (hn : c.negotiatedHold ≠ 0) (d : Nat) :
    ((∃ f ∈ firedOf s d, f.role = r ∧ f.isHold = true) ↔
        (cs.get r).lastRx + c.negotiatedHold ≤ s.now + d) ∧
    (∀ f ∈ firedOf s d, f.role = r → f.isHold = true →
        f.time = (cs.get r).lastRx + c.negotiatedHold ∧ hasHoldDown r f.outs = true ∧
        (tstep s (.wait d)).1.peer.state r = .idle) := by
  obtain ⟨cs', h1, h2⟩ := h.step hv (.wait d) rfl
  obtain ⟨-, -, a3, -, -, -⟩ := confirmed_rel hv h hc
  have hne : (cs.get r).neg ≠ 0 := by rw [← a3]; exact hn
  obtain ⟨-, nz⟩ := record_wait hv h d h1 r hc
  rw [a3]
  rcases nz hne with ⟨b1, b2, -⟩ | ⟨⟨f, hf, c1, c2, c3, c4, c5⟩, hdead⟩
  · refine ⟨⟨?_, fun hle => by omega⟩, ?_⟩
    · rintro ⟨f, hf, hr, hh⟩
      rw [b1 f hf hr] at hh; cases hh
    · intro f hf hr hh
      rw [b1 f hf hr] at hh; cases hh
  · refine ⟨⟨fun _ => by omega, fun _ => ⟨f, hf, c1, c2⟩⟩, ?_⟩
    intro f' hf' hr' hh'
    -- any hold firing of `r` in the list is accepted by the observer only at `lastRx + n`
    have hidle : (tstep s (.wait d)).1.peer.state r = .idle := by
      have := reach_up hv h2 r
      rw [hdead] at this
      cases hst : (tstep s (.wait d)).1.peer.state r <;> simp [hst, isUp] at this ⊢
    obtain ⟨cs1, k1, -, -, -⟩ := stepOk_wait_inv h1
    obtain ⟨xup, xcf, -⟩ := confirmed_rel hv h hc
    rcases onFiredAll_nonzero _ _ cs cs1 r k1 xup xcf hne with ⟨e1, -⟩ | _
    · rw [e1 f hf c1] at c2; cases c2
    · obtain ⟨t1, t2⟩ := hold_fire_time k1 xup xcf hne hf' hr' hh'
      exact ⟨t1, t2, hidle⟩

/-- "Hold timer expired" is never reported by an ordinary event (of any role, for any role):
    only a `wait` — the clock — can produce it. -/
theorem no_expiry_without_timer (s : TState) (r : Role) (e : Ev) (he : e ≠ .input .holdTimer)
    (r'' : Role) (n : Option Notif) : POut.conn r'' (.down .holdExpired n) ∉ outsOf s r e :=
  ev_no_holdExpired s r e he r'' n

/-! ## 6. Negotiated hold time zero: no timer runs, the session never dies of timer expiry -/

/-- In every reachable state, a confirmed connection whose negotiated hold time is zero
    (a) has neither timer armed;
    (b) gets no timer firing in a `wait` of any length, no output of such a `wait` is a
        hold-expiry SessionDown for it, and after the `wait` it is still confirmed with hold
        time zero (so (a)–(c) apply again, for ever);
    (c) no ordinary event produces a hold-expiry SessionDown for it either. -/
theorem zero_disables {cfg : Cfg} (hv : cfgValid cfg = true) {s : TState} {cs : S} (h : Reach cfg s cs)
    (r : Role) {c : Conn} (hc : Confirmed s r c) (hz : c.negotiatedHold = 0) :
    ((s.slots r).hold = none ∧ (s.slots r).ka = none) ∧
    (∀ d, (∀ f ∈ firedOf s d, f.role ≠ r) ∧
          (∀ f ∈ firedOf s d, ∀ n, POut.conn r (.down .holdExpired n) ∉ f.outs) ∧
          ∃ c', Confirmed (tstep s (.wait d)).1 r c' ∧ c'.negotiatedHold = 0) ∧
    (∀ r' e, e ≠ .input .holdTimer → ∀ n, POut.conn r (.down .holdExpired n) ∉ outsOf s r' e) := by
  obtain ⟨xup, xcf, a3, -, a6, -⟩ := confirmed_rel hv h hc
  have hz' : (cs.get r).neg = 0 := by rw [← a3]; exact hz
  refine ⟨a6 hz', fun d => ?_, fun r' e he n => ev_no_holdExpired s r' e he r n⟩
  obtain ⟨cs', h1, h2⟩ := h.step hv (.wait d) rfl
  obtain ⟨z, -⟩ := record_wait hv h d h1 r hc
  obtain ⟨z1, z2⟩ := z hz'
  refine ⟨z1, ?_, ?_⟩
  · intro f hf n hmem
    obtain ⟨x, hx⟩ := fired_outs_role cfg s cs (h.rel hv) d f hf _ hmem
    injection hx with hr _
    exact z1 f hf hr.symm
  · obtain ⟨c', hc'⟩ := confirmed_of_obs hv h2 (by rw [z2]; exact xup) (by rw [z2]; exact xcf)
    refine ⟨c', hc', ?_⟩
    rw [(confirmed_rel hv h2 hc').2.2.1, z2]; exact hz'

/-! ## 7. Link to C07: at most one confirmed connection also in timed runs -/

theorem timed_at_most_one_confirmed (cfg : Cfg) (h : List TEv) :
    let p := (reach (init cfg) h).peer
    ¬ ((p.state .active = .openConfirm ∨ p.state .active = .established) ∧
       (p.state .passive = .openConfirm ∨ p.state .passive = .established)) :=
  inv_at_most_one cfg _ (reach_inv cfg h (init cfg) (inv_init cfg))

/-! ## 7b. The driver's reading of `Set*Timer(n)` (timer probe)

  `Timed.probe outs` is what the model says a fresh session task's slots look like after one
  `apply_outputs` call; `TimedSpec.probeCheck` is the behavioural oracle run on what the real
  `PeerSession::apply_outputs` does (harness/daemon/c08.rs). -/

theorem probe_ok (outs : List POut) (hp : ∀ o ∈ outs, probeOut o = true) :
    probeCheck outs (probe outs) = none :=
  TimedProofs.probe_ok outs hp

/-- `set-hold 0` leaves the hold slot disabled and quiet; `set-hold 90` arms it for 90 s. -/
example : probe [.conn .passive (.setHold 90), .conn .passive (.setKa 30), .conn .passive (.setHold 0)] =
    { hold := { fires := false, armed := .far }, ka := { fires := false, armed := .secs 30 } } := by decide
/-- The oracle does reject the "empty collection" reading of `set-hold 0` (ready at once). -/
example : probeCheck [.conn .passive (.setHold 0)]
    { hold := { fires := true, armed := .empty }, ka := { fires := false, armed := .far } }
    = some "disabled-hold-timer-fires" := by decide

/-! ## 8. Non-vacuity: concrete reachable states satisfying the hypotheses above -/

section Witnesses

def cfg90 : Cfg := { localRid := 10, localAsn := 65001, localHold := 90, expectedAsn := 65002 }
def openEv (hold : Nat) : Ev := .rawOpen { asn := 65002, hold := hold, rid := 5 }

/-- connected, OPEN(hold 30) accepted at t=0, KEEPALIVE at t=0 ⇒ Established, negotiated 30. -/
def histEst : List TEv :=
  [.ev .active (.input (.connected false)), .ev .active (openEv 30), .ev .active (.input (.msg .keepalive))]
/-- the same with the remote advertising hold time 0. -/
def histZero : List TEv :=
  [.ev .active (.input (.connected false)), .ev .active (openEv 0), .ev .active (.input (.msg .keepalive))]
/-- only `connected`: the state in which an OPEN is accepted. -/
def histSent : List TEv := [.ev .active (.input (.connected false))]

example : cfgValid cfg90 = true := by decide
example : wfHist histEst = true ∧ wfHist histZero = true ∧ wfHist histSent = true := by decide

/-- `open_accept`/`negotiated_min`/`keepalive_third` hypotheses: OpenSent before, OpenConfirm after. -/
example : (reach (init cfg90) histSent).peer.state .active = .openSent ∧
    (tstep (reach (init cfg90) histSent) (.ev .active (openEv 30))).1.peer.state .active = .openConfirm ∧
    openHold? (openEv 30) = some 30 ∧ wfEv (openEv 30) = true := by decide

/-- ... and what they then say, computed: min(90,30) = 30, keepalive 10, both armed from t = 0. -/
example : ((tstep (reach (init cfg90) histSent) (.ev .active (openEv 30))).1.slots .active) =
    { hold := some 30, ka := some 10 } := by decide

/-- `hold_deadline_invariant`/`expiry_iff_silence`/`only_ka_update_rearm` hypotheses: a confirmed
    connection with non-zero negotiated hold time in a reachable state. -/
example : ((reach (init cfg90) histEst).peer.connection .active).map
    (fun c => (c.state, c.negotiatedHold, c.kaInterval)) = some (.established, 30, 10) := by decide

/-- silence for 29 s: no expiry; for 30 s: expiry at exactly t = 30 (three keepalives sent before). -/
example : ((firedOf (reach (init cfg90) histEst) 29).filter (·.isHold)).length = 0 := by decide
example : ((firedOf (reach (init cfg90) histEst) 30).filter (·.isHold)).map (fun f => (f.time, f.role)) =
    [(30, .active)] := by decide
example : ((firedOf (reach (init cfg90) histEst) 30).filter (! ·.isHold)).map (·.time) = [10, 20] := by
  decide

/-- `zero_disables` hypotheses: confirmed with negotiated hold time 0 — and a long `wait` fires
    nothing. -/
example : ((reach (init cfg90) histZero).peer.connection .active).map
    (fun c => (c.state, c.negotiatedHold)) = some (.established, 0) := by decide
example : firedOf (reach (init cfg90) histZero) 100000 = [] := by decide

/-- `ka_update_rearm`: the connection survives a KEEPALIVE. -/
example : (tstep (reach (init cfg90) histEst) (.ev .active (.input (.msg .keepalive)))).1.peer.state .active
    = .established := by decide

end Witnesses

/-! ## 9. The well-formedness hypothesis is needed (runs the observer rejects) -/

section WfNeeded

/-- An already-parsed OPEN with hold time 1 injected directly (the real parser rejects it):
    negotiated 1, keepalive interval 0, the keepalive timer re-fires without the clock moving. -/
theorem wf_needed_hold1 :
    TimedSpec.check cfg90 (Timed.run cfg90
      [.ev .active (.input (.connected false)),
       .ev .active (.input (.msg (.open { asn := 65002, hold := 1, rid := 5 }))), .wait 0])
      = .fail 2 "keepalive-overdue" := by decide

/-- The hold-timer input injected as an event instead of produced by the clock. -/
theorem wf_needed_holdTimer :
    TimedSpec.check cfg90 (Timed.run cfg90
      [.ev .active (.input (.connected false)), .ev .active (.input .holdTimer)])
      = .fail 1 "hold-expiry-without-timer" := by decide

/-- The keepalive-timer input injected as an event with negotiated hold time 0: `onKaTimer`
    re-arms with interval 0. -/
theorem wf_needed_kaTimer :
    TimedSpec.check cfg90 (Timed.run cfg90
      [.ev .active (.input (.connected false)), .ev .active (openEv 0),
       .ev .active (.input .kaTimer), .wait 0])
      = .fail 3 "zero-hold-time-but-keepalive-timer-fired" := by decide

end WfNeeded

end Rbgp.Fsm.TimedProps

#print axioms Rbgp.Fsm.TimedProps.check_run_ok
#print axioms Rbgp.Fsm.TimedProps.Reach.step
#print axioms Rbgp.Fsm.TimedProps.open_accept
#print axioms Rbgp.Fsm.TimedProps.negotiated_min
#print axioms Rbgp.Fsm.TimedProps.keepalive_third
#print axioms Rbgp.Fsm.TimedProps.keepalive_third_invariant
#print axioms Rbgp.Fsm.TimedProps.hold_deadline_invariant
#print axioms Rbgp.Fsm.TimedProps.lastRx_on_open
#print axioms Rbgp.Fsm.TimedProps.record_ev
#print axioms Rbgp.Fsm.TimedProps.record_wait
#print axioms Rbgp.Fsm.TimedProps.ka_update_rearm
#print axioms Rbgp.Fsm.TimedProps.only_ka_update_rearm
#print axioms Rbgp.Fsm.TimedProps.expiry_iff_silence
#print axioms Rbgp.Fsm.TimedProps.no_expiry_without_timer
#print axioms Rbgp.Fsm.TimedProps.zero_disables
#print axioms Rbgp.Fsm.TimedProps.timed_at_most_one_confirmed
#print axioms Rbgp.Fsm.TimedProps.probe_ok
