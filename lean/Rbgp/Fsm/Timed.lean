/-
  Rbgp.Fsm.Timed — the timer side of the session driver (C08).

  Mirrors what `PeerSession::apply_outputs` (daemon/src/event/mod.rs) does with
  `Output::SetHoldTimer(secs)` / `SetKeepaliveTimer(secs)`: the slot of the task
  that made the call is replaced by `tokio::time::sleep(secs)`, i.e. a deadline
  `now + secs` on the clock; `run_select` feeds `HoldTimerExpired` /
  `KeepaliveTimerExpired` when a slot's deadline is reached (hold before keepalive,
  `select_biased!` order) and an expired slot stays empty until re-armed.
  Time is a virtual clock in whole seconds.
-/
import Rbgp.Fsm.Model
namespace Rbgp.Fsm.Timed
open Rbgp.Fsm

structure Slots where
  hold : Option Nat := none
  ka : Option Nat := none
  deriving DecidableEq, Repr, Inhabited

structure TState where
  peer : Peer
  a : Slots := {}
  p : Slots := {}
  now : Nat := 0
  deriving Repr, Inhabited

def TState.slots (s : TState) : Role → Slots
  | .active => s.a
  | .passive => s.p
def TState.setSlots (s : TState) (r : Role) (v : Slots) : TState :=
  match r with
  | .active => { s with a := v }
  | .passive => { s with p := v }

/-- Deadline installed by `Set*Timer(secs)` at time `now`. -/
def arm (now secs : Nat) : Option Nat := some (now + secs)

/-- `apply_outputs` restricted to timers, for the task of role `self`. -/
def applyOne (self : Role) (s : TState) : POut → TState
  | .conn _ (.setHold n) =>
      -- `SetHoldTimer(0)` disables the timer (sleep of u64::MAX seconds)
      s.setSlots self { s.slots self with hold := if n = 0 then none else arm s.now n }
  | .conn _ (.setKa n) => s.setSlots self { s.slots self with ka := arm s.now n }
  | .conn r (.sendNotif _) => if r ≠ self then s.setSlots r {} else s
  | .conn _ (.down _ _) => s.setSlots self {}
  -- `CloseConnection` terminates the *new* task (a second connection in the same
  -- direction); the existing task and its timers are untouched.
  | _ => s

def applyOuts (self : Role) (s : TState) (outs : List POut) : TState :=
  outs.foldl (applyOne self) s

inductive TEv where
  | ev (r : Role) (e : Ev)
  | wait (d : Nat)
  deriving DecidableEq, Repr, Inhabited

structure Fired where
  time : Nat
  role : Role
  isHold : Bool
  outs : List POut
  deriving DecidableEq, Repr, Inhabited

inductive TObs where
  | step (o : Obs)
  | fired (l : List Fired)
  deriving DecidableEq, Repr, Inhabited

structure TStep where
  ev : TEv
  obs : TObs
  stA : State
  stP : State
  deriving DecidableEq, Repr, Inhabited

/-- The due timer with the least (deadline, task, kind) — active before passive,
    hold before keepalive. -/
def nextDue (s : TState) (target : Nat) : Option (Nat × Role × Bool) :=
  let cands : List (Nat × Role × Bool) :=
    (match s.a.hold with | some d => [(d, Role.active, true)] | none => []) ++
    (match s.a.ka with | some d => [(d, Role.active, false)] | none => []) ++
    (match s.p.hold with | some d => [(d, Role.passive, true)] | none => []) ++
    (match s.p.ka with | some d => [(d, Role.passive, false)] | none => [])
  let due := cands.filter (fun c => c.1 ≤ target)
  due.foldl (fun best c =>
      match best with
      | none => some c
      | some b => if c.1 < b.1 then some c else some b) none

/-- Advance the clock to `target`, firing due timers; `fuel` bounds the number of firings. -/
def advance : Nat → TState → Nat → List Fired → TState × List Fired
  | 0, s, target, acc => ({ s with now := max s.now target }, acc.reverse)
  | fuel + 1, s, target, acc =>
      match nextDue s target with
      | none => ({ s with now := max s.now target }, acc.reverse)
      | some (dl, r, isHold) =>
          let s1 := { s with now := max dl s.now }
          let s2 := s1.setSlots r (if isHold then { s1.slots r with hold := none }
                                   else { s1.slots r with ka := none })
          let (p', outs) := s2.peer.process r (if isHold then .holdTimer else .kaTimer)
          let s3 := applyOuts r { s2 with peer := p' } outs
          advance fuel s3 target ({ time := s1.now, role := r, isHold := isHold, outs := outs } :: acc)

def outsOfObs : Obs → List POut
  | .fsm o => o
  | .parseReject _ o => o

def tstep (s : TState) : TEv → TState × TObs
  | .ev r e =>
      let (p', o) := arbStep s.peer r e
      let s1 := { s with peer := p' }
      let s2 := match o with
        | .parseReject _ _ => s1.setSlots r {}
        | _ => s1
      (applyOuts r s2 (outsOfObs o), .step o)
  | .wait d =>
      let (s', f) := advance (2 * d + 8) s (s.now + d) []
      (s', .fired f)

def runFrom (s : TState) : List TEv → List TStep
  | [] => []
  | e :: rest =>
      let (s', o) := tstep s e
      { ev := e, obs := o, stA := s'.peer.state .active, stP := s'.peer.state .passive } :: runFrom s' rest

def run (cfg : Cfg) (h : List TEv) : List TStep := runFrom { peer := Peer.init cfg } h

/-! ### Timer probe

  What can be seen from outside of a fresh session task's two timer slots after ONE
  `apply_outputs` call with a given list of outputs: is `FuturesUnordered::next()` (what
  `run_select` polls) ready at once, and what deadline is armed.  The harness
  (harness/daemon/c08.rs) measures exactly this on a real `PeerSession`. -/

inductive Armed where
  | empty            -- no sleep in the collection (`next()` is then ready at once, with `None`)
  | far              -- the "disabled" sleep of `u64::MAX` seconds
  | secs (n : Nat)   -- whole seconds from now
  deriving DecidableEq, Repr, Inhabited

structure SlotObs where
  fires : Bool
  armed : Armed
  deriving DecidableEq, Repr, Inhabited

structure ProbeObs where
  hold : SlotObs
  ka : SlotObs
  deriving DecidableEq, Repr, Inhabited

/-- A slot at clock 0: no deadline = the disabled sleep; deadline 0 is ready at once. -/
def slotObs : Option Nat → SlotObs
  | none => { fires := false, armed := .far }
  | some 0 => { fires := true, armed := .secs 0 }
  | some n => { fires := false, armed := .secs n }

/-- A fresh passive session task (both slots disabled, clock 0) applies `outs` in one call. -/
def probe (outs : List POut) : ProbeObs :=
  let s := applyOuts .passive { peer := Peer.init default } outs
  { hold := slotObs s.p.hold, ka := slotObs s.p.ka }

end Rbgp.Fsm.Timed
