/-
  Rbgp.Fsm.Model — hand-written model of daemon/src/fsm.rs
  (`Connection`, `PeerFsm`) and of the few lines of driver glue in
  daemon/src/event/mod.rs that decide what reaches the FSM
  (`ConnArbiter::process` routing, wire-level OPEN acceptance in
  packet/src/bgp.rs `parse_message`, timer slots in `apply_outputs`).

  One Lean function per Rust function, same branch order.  Capabilities are
  abstracted (C16 models negotiation); everything C07/C08 speak about is kept.
-/
namespace Rbgp.Fsm

inductive State where
  | idle | connect | active | openSent | openConfirm | established
  deriving DecidableEq, Repr, Inhabited

/-- `impl From<State> for u8` -/
def State.code : State → Nat
  | .idle => 0 | .connect => 1 | .active => 2
  | .openSent => 3 | .openConfirm => 4 | .established => 5

inductive Role where
  | active | passive
  deriving DecidableEq, Repr, Inhabited

def Role.other : Role → Role
  | .active => .passive
  | .passive => .active

/-- OPEN as delivered to the FSM (after `parse_message`). -/
structure OpenMsg where
  asn : Nat
  hold : Nat
  rid : Nat
  deriving DecidableEq, Repr, Inhabited

inductive Msg where
  | open (o : OpenMsg)
  | keepalive
  | update
  | notification (code sub : Nat)
  | routeRefresh (fam : Nat)
  deriving DecidableEq, Repr, Inhabited

inductive Input where
  | connected (restarting : Bool)
  | msg (m : Msg)
  | kaTimer
  | holdTimer
  | disconnected
  | adminShutdown
  | updateSent
  deriving DecidableEq, Repr, Inhabited

/-- (code, subcode) of a NOTIFICATION. -/
abbrev Notif := Nat × Nat

inductive DownReason where
  | holdExpired
  | remoteNotif (n : Notif)
  | localNotif (n : Notif)
  | fsmError
  | adminShutdown
  | ioError
  deriving DecidableEq, Repr, Inhabited

inductive Out where
  | sendOpen (asn hold rid : Nat)
  | sendKeepalive
  | sendNotif (n : Notif)
  | setKa (secs : Nat)
  | setHold (secs : Nat)
  | negotiated
  | established (asn rid hold : Nat)
  | down (r : DownReason) (notif : Option Notif)
  | stateChanged (s : State)
  | routeRefresh (fam : Nat)
  deriving DecidableEq, Repr, Inhabited

def INITIAL_HOLD_SECS : Nat := 240

structure Conn where
  state : State
  localAsn : Nat
  localRid : Nat
  localHold : Nat
  expectedAsn : Nat
  remoteAsn : Nat := 0
  remoteId : Nat := 0
  remoteHold : Nat := 0
  negotiatedHold : Nat := 0
  kaInterval : Nat := 0
  deriving DecidableEq, Repr, Inhabited

/-- `HoldTime::new(self.local_holdtime as u16).unwrap_or(HoldTime::DISABLED)` -/
def advertisedHold (localHold : Nat) : Nat :=
  let h := localHold % 65536
  if h = 1 ∨ h = 2 then 0 else h

def fsmErr (s : State) : Notif := (5, s.code)

def downLocal (n : Notif) : Out := .down (.localNotif n) (some n)

namespace Conn

def onConnected (c : Conn) : Conn × List Out :=
  let c' := { c with state := .openSent }
  let out := [Out.sendOpen c.localAsn (advertisedHold c.localHold) c.localRid,
              Out.stateChanged .openSent]
  (c', if c.localHold ≠ 0 then out ++ [Out.setHold INITIAL_HOLD_SECS] else out)

def onOpen (c : Conn) (o : OpenMsg) : Conn × List Out :=
  if c.state ≠ .openSent then
    (c, [downLocal (fsmErr c.state)])
  else if c.expectedAsn ≠ 0 ∧ c.expectedAsn ≠ o.asn then
    (c, [downLocal (2, 2)])
  else
    let neg := min c.localHold o.hold
    let c1 := { c with remoteAsn := o.asn, remoteId := o.rid, remoteHold := o.hold,
                       negotiatedHold := neg }
    let out0 := [Out.sendKeepalive, Out.negotiated]
    if neg ≠ 0 then
      let c2 := { c1 with kaInterval := neg / 3, state := .openConfirm }
      (c2, out0 ++ [Out.setKa (neg / 3), Out.setHold neg, Out.stateChanged .openConfirm])
    else
      -- negotiated hold time 0: `SetHoldTimer(0)` disarms the OpenSent timer
      let c2 := { c1 with state := .openConfirm }
      (c2, out0 ++ (if c.localHold ≠ 0 then [Out.setHold 0] else [])
                ++ [Out.stateChanged .openConfirm])

/-- `rearm_hold_timer` -/
def rearmHold (c : Conn) : List Out :=
  if c.negotiatedHold ≠ 0 then [Out.setHold c.negotiatedHold] else []

def onKeepalive (c : Conn) : Conn × List Out :=
  match c.state with
  | .openConfirm =>
      ({ c with state := .established },
       c.rearmHold ++
       [Out.established c.remoteAsn c.remoteId c.remoteHold,
        Out.stateChanged .established])
  | .established =>
      (c, c.rearmHold)
  | _ => (c, [downLocal (fsmErr c.state)])

def onUpdate (c : Conn) : Conn × List Out :=
  if c.state ≠ .established then (c, [downLocal (fsmErr c.state)])
  else (c, c.rearmHold)

def onNotification (c : Conn) (n : Notif) : Conn × List Out :=
  (c, [Out.down (.remoteNotif n) none])

def onRouteRefresh (c : Conn) (fam : Nat) : Conn × List Out :=
  if c.state ≠ .established then (c, [downLocal (fsmErr c.state)])
  else (c, [Out.routeRefresh fam])

def onKaTimer (c : Conn) : Conn × List Out :=
  match c.state with
  | .openConfirm | .established => (c, [Out.sendKeepalive, Out.setKa c.kaInterval])
  | _ => (c, [])

def onHoldTimer (c : Conn) : Conn × List Out :=
  match c.state with
  | .openSent | .openConfirm | .established =>
      (c, [Out.down .holdExpired (some (4, 0))])
  | _ => (c, [])

def onUpdateSent (c : Conn) : Conn × List Out :=
  if c.state = .established ∧ c.kaInterval > 0 then (c, [Out.setKa c.kaInterval])
  else (c, [])

def onDisconnected (c : Conn) : Conn × List Out :=
  (c, [Out.down .ioError none])

def onAdminShutdown (c : Conn) : Conn × List Out :=
  (c, [Out.down .adminShutdown (some (6, 2))])

def onMessage (c : Conn) : Msg → Conn × List Out
  | .open o => c.onOpen o
  | .keepalive => c.onKeepalive
  | .update => c.onUpdate
  | .notification code sub => c.onNotification (code, sub)
  | .routeRefresh f => c.onRouteRefresh f

def process (c : Conn) : Input → Conn × List Out
  | .connected _ => c.onConnected
  | .msg m => c.onMessage m
  | .kaTimer => c.onKaTimer
  | .holdTimer => c.onHoldTimer
  | .disconnected => c.onDisconnected
  | .adminShutdown => c.onAdminShutdown
  | .updateSent => c.onUpdateSent

end Conn

/-- `PeerFsmOutput` -/
inductive POut where
  | conn (r : Role) (o : Out)
  | closeConnection
  | stopActiveConnect
  deriving DecidableEq, Repr, Inhabited

structure Cfg where
  localRid : Nat
  localAsn : Nat
  localHold : Nat
  expectedAsn : Nat
  deriving DecidableEq, Repr, Inhabited

structure Peer where
  cfg : Cfg
  active : Option Conn := none
  passive : Option Conn := none
  deriving DecidableEq, Repr, Inhabited

namespace Peer

def init (cfg : Cfg) : Peer := { cfg := cfg }

def connection (p : Peer) : Role → Option Conn
  | .active => p.active
  | .passive => p.passive

def setConn (p : Peer) (r : Role) (c : Option Conn) : Peer :=
  match r with
  | .active => { p with active := c }
  | .passive => { p with passive := c }

def closeConnection (p : Peer) (r : Role) : Peer := p.setConn r none

def state (p : Peer) (r : Role) : State :=
  match p.connection r with
  | some c => c.state
  | none => .idle

def newConn (p : Peer) : Conn :=
  { state := .idle, localAsn := p.cfg.localAsn, localRid := p.cfg.localRid,
    localHold := p.cfg.localHold, expectedAsn := p.cfg.expectedAsn }

def onConnected (p : Peer) (r : Role) : Peer × List POut :=
  match p.connection r with
  | some _ => (p, [POut.closeConnection])
  | none =>
      let (c, outs) := p.newConn.onConnected
      (p.setConn r (some c), outs.map (POut.conn r))

/-- `collision_winner` -/
def collisionWinner (p : Peer) (r : Role) : Role :=
  let rid := match p.connection r with
    | some c => c.remoteId
    | none => 0
  if p.cfg.localRid > rid then .active else .passive

/-- `check_collision`: returns the new peer and the loser, if any. -/
def checkCollision (p : Peer) (r : Role) : Peer × Option Role :=
  match p.connection r.other with
  | none => (p, none)
  | some oc =>
      if oc.state ≠ .openConfirm ∧ oc.state ≠ .established then (p, none)
      else
        let loser := if oc.state = .established then r else (p.collisionWinner r).other
        (p.closeConnection loser, some loser)

def isDown : Out → Bool
  | .down _ _ => true
  | _ => false

def cease : Notif := (6, 7)

def process (p : Peer) (r : Role) (i : Input) : Peer × List POut :=
  match i with
  | .connected _ => p.onConnected r
  | _ =>
    match p.connection r with
    | none => (p, [])
    | some c =>
      let (c', outs) := c.process i
      let p1 := p.setConn r (some c')
      let enteredOC := outs.contains (Out.stateChanged .openConfirm)
      let sessionDown := outs.any isDown
      let res := outs.map (POut.conn r)
      let (p2, res2) :=
        if enteredOC then
          let res' := if r = .passive then res ++ [POut.stopActiveConnect] else res
          match p1.checkCollision r with
          | (p2, some loser) =>
              if loser = r then
                (p2, res' ++ [POut.conn r (downLocal cease)])
              else
                (p2, res' ++ [POut.conn loser (Out.sendNotif cease)])
          | (p2, none) => (p2, res')
        else (p1, res)
      if sessionDown then
        (p2.closeConnection r, res2 ++ [POut.conn r (Out.stateChanged .idle)])
      else (p2, res2)

end Peer

/-! ### Driver glue (event/mod.rs, packet/src/bgp.rs) -/

/-- Raw OPEN fields as they arrive on the wire. -/
structure RawOpen where
  asn : Nat
  hold : Nat
  rid : Nat
  deriving DecidableEq, Repr, Inhabited

/-- The AS number `parse_message` reports for an OPEN: the 2-octet My-AS field, replaced by the
    4-octet-AS capability's value (0 when the capability is absent) only when My-AS is AS_TRANS. -/
def effectiveAs (as2 : Nat) (cap4 : Option Nat) : Nat :=
  if as2 = 23456 then (match cap4 with | some a => a | none => 0) else as2

/-- `Ipv4Addr::is_unspecified || is_broadcast || is_multicast` on a u32. -/
def badRouterId (rid : Nat) : Bool :=
  rid == 0 || rid == 4294967295 || (rid / 16777216 ≥ 224 && rid / 16777216 ≤ 239)

/-- The OPEN arm of `parse_message` restricted to the three checked fields. -/
def parseOpen (o : RawOpen) : Except Notif OpenMsg :=
  if o.hold = 1 ∨ o.hold = 2 then .error (2, 6)
  else if badRouterId o.rid then .error (2, 3)
  else .ok { asn := o.asn, hold := o.hold, rid := o.rid }

/-- What a session task feeds to the arbiter. `rawOpen` goes through the wire
    parser first; a parse error terminates the task with a local NOTIFICATION
    bypassing the FSM, after which `apply_disconnect` feeds `Disconnected`. -/
inductive Ev where
  | input (i : Input)
  | rawOpen (o : RawOpen)
  deriving DecidableEq, Repr, Inhabited

inductive Obs where
  | fsm (outs : List POut)
  | parseReject (n : Notif) (outs : List POut)
  deriving DecidableEq, Repr, Inhabited

/-- `ConnArbiter::process`: a `SendMessage` for the *other* role is diverted to that
    role's close channel (observed as-is; the channel is modelled by C10/C16). -/
def arbStep (p : Peer) (r : Role) : Ev → Peer × Obs
  | .input i => let (p', o) := p.process r i; (p', .fsm o)
  | .rawOpen o =>
      match parseOpen o with
      | .ok m => let (p', outs) := p.process r (.msg (.open m)); (p', .fsm outs)
      | .error n => let (p', outs) := p.process r .disconnected; (p', .parseReject n outs)

structure Step where
  role : Role
  ev : Ev
  obs : Obs
  stA : State
  stP : State
  deriving DecidableEq, Repr, Inhabited

/-- Run a whole history, recording what an observer of the real code sees. -/
def runFrom (p : Peer) : List (Role × Ev) → Peer × List Step
  | [] => (p, [])
  | (r, e) :: rest =>
      let (p', o) := arbStep p r e
      let (pf, steps) := runFrom p' rest
      (pf, { role := r, ev := e, obs := o, stA := p'.state .active, stP := p'.state .passive } :: steps)

def run (cfg : Cfg) (h : List (Role × Ev)) : List Step := (runFrom (Peer.init cfg) h).2

end Rbgp.Fsm
