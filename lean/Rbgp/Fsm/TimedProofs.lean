/-
  Rbgp.Fsm.TimedProofs — C08: the timed driver model (`Timed.lean`) refines the reference
  checker (`TimedSpec.lean`).

  Structure
    1. slot / connection plumbing (`setSlots`, `setConn`, `slotEff` = what a list of
       connection-level outputs does to one task's two timer slots).
    2. `ConnRel` / `RoleRel` / `TRel`: the simulation relation between a timed model state and
       the observer's state `TimedSpec.S`.
    3. `conn_step`: one `Conn.process` step versus the observer's per-role update `updR`.
    4. `Shape`/`evStep_shape`: what `Peer.process` + `applyOuts` do to each role's slot.
    5. `ev_sim`: an ordinary event is accepted by `onEv` and keeps `TRel`.
    6. `nextDue` facts, the fuel measure `mu`, `advance_sim`, `wait_sim`.
    7. `check_run_ok` (master theorem) and the reachable-state invariant `reach_rel`.
-/
import Rbgp.Fsm.Proofs
import Rbgp.Fsm.TimedSpec
namespace Rbgp.Fsm.TimedProofs
open Rbgp.Fsm Rbgp.Fsm.Timed Rbgp.Fsm.TimedSpec

set_option linter.unusedSimpArgs false
set_option linter.unusedVariables false

/-! ### 1. Plumbing -/

@[simp] theorem slots_setSlots_same (s : TState) (r : Role) (v : Slots) :
    (s.setSlots r v).slots r = v := by cases r <;> rfl

theorem slots_setSlots_ne (s : TState) {r r' : Role} (h : r' ≠ r) (v : Slots) :
    (s.setSlots r v).slots r' = s.slots r' := by
  cases r <;> cases r' <;> simp_all [TState.setSlots, TState.slots]

@[simp] theorem now_setSlots (s : TState) (r : Role) (v : Slots) : (s.setSlots r v).now = s.now := by
  cases r <;> rfl
@[simp] theorem peer_setSlots (s : TState) (r : Role) (v : Slots) : (s.setSlots r v).peer = s.peer := by
  cases r <;> rfl
@[simp] theorem setSlots_setSlots (s : TState) (r : Role) (v w : Slots) :
    (s.setSlots r v).setSlots r w = s.setSlots r w := by cases r <;> rfl
@[simp] theorem setSlots_slots (s : TState) (r : Role) : s.setSlots r (s.slots r) = s := by
  cases r <;> rfl

@[simp] theorem slots_with_peer (s : TState) (p : Peer) (r : Role) :
    ({ s with peer := p } : TState).slots r = s.slots r := by cases r <;> rfl

theorem role_ne_other (r : Role) : r.other ≠ r := by cases r <;> simp [Role.other]
theorem role_eq_other {r r' : Role} (h : r' ≠ r) : r' = r.other := by
  cases r <;> cases r' <;> simp_all [Role.other]

@[simp] theorem connection_setConn_same (p : Peer) (r : Role) (c : Option Conn) :
    (p.setConn r c).connection r = c := by cases r <;> rfl
theorem connection_setConn_ne (p : Peer) {r r' : Role} (h : r' ≠ r) (c : Option Conn) :
    (p.setConn r c).connection r' = p.connection r' := by
  cases r <;> cases r' <;> simp_all [Peer.setConn, Peer.connection]
@[simp] theorem cfg_setConn (p : Peer) (r : Role) (c : Option Conn) : (p.setConn r c).cfg = p.cfg := by
  cases r <;> rfl

/-- Effect of one connection-level output of the task itself on its two slots. -/
def slotEff1 (now : Nat) (sl : Slots) : Out → Slots
  | .setHold n => { sl with hold := if n = 0 then none else arm now n }
  | .setKa n => { sl with ka := arm now n }
  | .down _ _ => {}
  | _ => sl

def slotEff (now : Nat) (sl : Slots) (outs : List Out) : Slots := outs.foldl (slotEff1 now) sl

theorem applyOne_conn_self (r : Role) (s : TState) (o : Out) :
    applyOne r s (.conn r o) = s.setSlots r (slotEff1 s.now (s.slots r) o) := by
  cases o <;> simp [applyOne, slotEff1]

theorem applyOuts_map_conn (r : Role) (outs : List Out) : ∀ s : TState,
    applyOuts r s (outs.map (POut.conn r)) = s.setSlots r (slotEff s.now (s.slots r) outs) := by
  induction outs with
  | nil => intro s; simp [applyOuts, slotEff]
  | cons o rest ih =>
    intro s
    have := ih (applyOne r s (.conn r o))
    simp only [applyOuts, List.map_cons, List.foldl_cons] at this ⊢
    rw [this, applyOne_conn_self]
    simp [slotEff]

theorem applyOuts_append (r : Role) (s : TState) (l1 l2 : List POut) :
    applyOuts r s (l1 ++ l2) = applyOuts r (applyOuts r s l1) l2 := by
  simp [applyOuts, List.foldl_append]

/-- One FSM input for role `r` followed by the driver's timer bookkeeping. -/
def evStep (s : TState) (r : Role) (i : Input) : TState × List POut :=
  (applyOuts r { s with peer := (s.peer.process r i).1 } (s.peer.process r i).2,
   (s.peer.process r i).2)

theorem tstep_input (s : TState) (r : Role) (i : Input) :
    tstep s (.ev r (.input i)) = ((evStep s r i).1, .step (.fsm (evStep s r i).2)) := by
  simp [tstep, arbStep, evStep, outsOfObs]

/-! ### 2. The simulation relation -/

/-- A live connection `c` of some role, its two slots `sl`, and what the observer tracks (`x`). -/
def ConnRel (cfg : Cfg) (now : Nat) (c : Conn) (sl : Slots) (x : R) : Prop :=
  c.localHold = cfg.localHold ∧ x.up = true ∧
  ((c.state = .openSent ∧ x.confirmed = false ∧ sl.ka = none ∧ c.kaInterval = 0 ∧
      (cfg.localHold = 0 → sl.hold = none)) ∨
   ((c.state = .openConfirm ∨ c.state = .established) ∧ x.confirmed = true ∧
      c.negotiatedHold = x.neg ∧ c.kaInterval = x.neg / 3 ∧ (x.neg = 0 ∨ 3 ≤ x.neg) ∧
      (x.neg = 0 → sl.hold = none ∧ sl.ka = none) ∧
      (x.neg ≠ 0 → sl.hold = some (x.lastRx + x.neg) ∧ sl.ka = some (x.lastKa + x.neg / 3) ∧
                   now ≤ x.lastRx + x.neg ∧ now ≤ x.lastKa + x.neg / 3)))

def RoleRel (cfg : Cfg) (now : Nat) : Option Conn → Slots → R → Prop
  | none, sl, x => sl = {} ∧ x = {}
  | some c, sl, x => ConnRel cfg now c sl x

structure TRel (cfg : Cfg) (s : TState) (cs : S) : Prop where
  cfgEq : s.peer.cfg = cfg
  nowEq : cs.now = s.now
  role : ∀ r, RoleRel cfg s.now (s.peer.connection r) (s.slots r) (cs.get r)

theorem trel_init (cfg : Cfg) : TRel cfg { peer := Peer.init cfg } {} := by
  refine ⟨rfl, rfl, ?_⟩
  intro r; cases r <;> simp [RoleRel, Peer.init, Peer.connection, TState.slots, S.get]

theorem ConnRel.state_ne_idle {cfg now c sl x} (h : ConnRel cfg now c sl x) : isUp c.state = true := by
  obtain ⟨-, -, h | h⟩ := h
  · simp [isUp, h.1]
  · rcases h.1 with h | h <;> simp [isUp, h]

/-! ### 3. One connection step versus the observer's update -/

/-- The observer's per-role update in `onEv` (the value it stores for the acting role). -/
def updR (cfg : Cfg) (now : Nat) (x : R) (e : Ev) (after : State) : R :=
  if ¬ x.up ∧ after = .openSent then { up := true }
  else if x.up ∧ ¬ x.confirmed ∧ isConfirmed after then
    match openHold? e with
    | some h => { x with confirmed := true, neg := min cfg.localHold h, lastRx := now, lastKa := now }
    | none => { x with confirmed := true }
  else if x.up ∧ x.confirmed ∧ isUp after then
    match e with
    | .input (.msg .keepalive) | .input (.msg .update) => { x with lastRx := now }
    | .input .updateSent => if after = .established then { x with lastKa := now } else x
    | _ => x
  else x

@[simp] theorem S.set_get (s : S) (r : Role) : s.set r (s.get r) = s := by cases r <;> rfl
@[simp] theorem S.get_set_same (s : S) (r : Role) (v : R) : (s.set r v).get r = v := by cases r <;> rfl
theorem S.get_set_ne (s : S) {r r' : Role} (h : r' ≠ r) (v : R) : (s.set r v).get r' = s.get r' := by
  cases r <;> cases r' <;> simp_all [S.get, S.set]
@[simp] theorem S.now_set (s : S) (r : Role) (v : R) : (s.set r v).now = s.now := by cases r <;> rfl

theorem onEv_eq (cfg : Cfg) (s : S) (r : Role) (e : Ev) (st : TStep) :
    onEv cfg s r e st =
      match st.obs with
      | .step o =>
          if hasHoldDown r (outsOfObs o) then .error "hold-expiry-without-timer"
          else .ok (syncDown (s.set r (updR cfg s.now (s.get r) e (TimedSpec.stOf st r))) st)
      | .fired _ => .error "malformed-observation" := by
  unfold onEv updR
  rcases e with (_ | m | _ | _ | _ | _ | _) | o
  all_goals try (rcases m with o | _ | _ | _ | _)
  all_goals
    cases st.obs with
    | fired l => rfl
    | step ob =>
      dsimp only [openHold?]
      by_cases h1 : ¬ (s.get r).up ∧ TimedSpec.stOf st r = .openSent
      · rw [if_pos h1, if_pos h1]
      · rw [if_neg h1, if_neg h1]
        by_cases h2 : (s.get r).up ∧ ¬ (s.get r).confirmed ∧ isConfirmed (TimedSpec.stOf st r)
        · rw [if_pos h2, if_pos h2]
        · rw [if_neg h2, if_neg h2]
          by_cases h3 : (s.get r).up ∧ (s.get r).confirmed ∧ isUp (TimedSpec.stOf st r)
          · rw [if_pos h3, if_pos h3] <;> first
              | rfl
              | (by_cases h4 : TimedSpec.stOf st r = .established
                 · rw [if_pos h4, if_pos h4]
                 · simp only [if_neg h4, S.set_get])
              | rw [S.set_get]
          · rw [if_neg h3, if_neg h3, S.set_get]

theorem cfgValid_cases {cfg : Cfg} (hv : cfgValid cfg = true) :
    cfg.localHold = 0 ∨ 3 ≤ cfg.localHold := by
  simp [cfgValid] at hv; omega

def holdDown : Out := .down .holdExpired (some (4, 0))

macro "conn_bash" : tactic => `(tactic|
  (simp [*, Conn.process, Conn.onMessage, Conn.onOpen, Conn.onKeepalive, Conn.onUpdate,
      Conn.onNotification, Conn.onRouteRefresh, Conn.onUpdateSent, Conn.onDisconnected,
      Conn.onAdminShutdown, Conn.rearmHold, downLocal, fsmErr, Peer.isDown, slotEff, slotEff1, arm,
      updR, openHold?, isConfirmed, isUp, holdDown, wfEv]))

/-- One `Conn.process` step on a live connection, for an input the driver can deliver outside a
    `wait`: either the session goes down (slots cleared, never "hold expired"), or the observer's
    update re-establishes `ConnRel` for the new connection state and the new slots. -/
theorem conn_step (cfg : Cfg) (hv : cfgValid cfg = true) (now : Nat) (c : Conn) (sl : Slots) (x : R)
    (h : ConnRel cfg now c sl x) (i : Input) (hw : wfEv (.input i) = true)
    (hc : ∀ b, i ≠ .connected b) :
    holdDown ∉ (c.process i).2 ∧
    (((c.process i).2.any Peer.isDown = true ∧
        (c.process i).2.contains (.stateChanged .openConfirm) = false ∧
        slotEff now sl (c.process i).2 = {}) ∨
     ((c.process i).2.any Peer.isDown = false ∧
        ConnRel cfg now (c.process i).1 (slotEff now sl (c.process i).2)
          (updR cfg now x (.input i) (c.process i).1.state))) := by
  have hl := cfgValid_cases hv
  obtain ⟨st, lasn, lrid, lhold, easn, rasn, rrid, rhold, neg, ka⟩ := c
  obtain ⟨xup, xconf, xneg, xrx, xka⟩ := x
  obtain ⟨slh, slk⟩ := sl
  obtain ⟨h1, h2, h3⟩ := h
  simp only at h1 h2 h3
  subst h1 h2
  rcases i with b | m | _ | _ | _ | _ | _
  · exact absurd rfl (hc b)
  case kaTimer => simp [wfEv] at hw
  case holdTimer => simp [wfEv] at hw
  all_goals try (rcases m with o | _ | _ | _ | _)
  case msg.open =>
    simp only [wfEv, decide_eq_true_eq] at hw
    rcases h3 with ⟨hs, hcf, hk, hki, hh⟩ | ⟨hs, hcf, hn, hki, hnv, hz, hnz⟩
    · subst hs hcf hk hki
      by_cases hok : easn = 0 ∨ easn = o.asn
      · by_cases hl0 : cfg.localHold = 0
        · have := hh hl0
          subst this
          rcases hok with h0 | h0 <;> simp [ConnRel, hl0, h0] <;> conn_bash
        · by_cases ho0 : o.hold = 0
          · rcases hok with h0 | h0 <;> simp [ConnRel, hl0, ho0, h0] <;> conn_bash
          · have hm : ¬ min cfg.localHold o.hold = 0 := by omega
            have hm3 : 3 ≤ min cfg.localHold o.hold := by omega
            rcases hok with h0 | h0 <;> simp [ConnRel, hl0, ho0, h0] <;> conn_bash <;> omega
      · have h0 : ¬ easn = 0 := fun h => hok (Or.inl h)
        have h1 : ¬ easn = o.asn := fun h => hok (Or.inr h)
        conn_bash
    · rcases hs with hs | hs <;> subst hs <;> conn_bash
  all_goals
    rcases h3 with ⟨hs, hcf, hk, hki, hh⟩ | ⟨hs, hcf, hn, hki, hnv, hz, hnz⟩
    · subst hs hcf hk hki
      first
        | (conn_bash; done)
        | (simp [ConnRel]; conn_bash; done)
        | (simp [ConnRel]; conn_bash; exact hh)
    · subst hcf hn hki
      rcases hnv with rfl | hpos
      · obtain ⟨rfl, rfl⟩ := hz rfl
        rcases hs with hs | hs <;> subst hs <;> first | (conn_bash; done) | (simp [ConnRel]; conn_bash)
      · have hne : neg ≠ 0 := by omega
        have hk3 : 1 ≤ neg / 3 := by omega
        obtain ⟨rfl, rfl, hb1, hb2⟩ := hnz hne
        rcases hs with hs | hs <;> subst hs <;>
          first
            | (conn_bash; done)
            | (simp [ConnRel, hne]; conn_bash; done)
            | (simp [ConnRel, hne]; conn_bash; omega)

/-! ### 4. What `Peer.process` + `applyOuts` do to each role's connection and slots -/

/-- The part of `Peer.process` after `Conn.process` returned `(c', outs)`. -/
def procBody (p : Peer) (r : Role) (c' : Conn) (outs : List Out) : Peer × List POut :=
  let p1 := p.setConn r (some c')
  let enteredOC := outs.contains (Out.stateChanged .openConfirm)
  let sessionDown := outs.any Peer.isDown
  let res := outs.map (POut.conn r)
  let (p2, res2) :=
    if enteredOC then
      let res' := if r = .passive then res ++ [POut.stopActiveConnect] else res
      match p1.checkCollision r with
      | (p2, some loser) =>
          if loser = r then
            (p2, res' ++ [POut.conn r (downLocal Peer.cease)])
          else
            (p2, res' ++ [POut.conn loser (Out.sendNotif Peer.cease)])
      | (p2, none) => (p2, res')
    else (p1, res)
  if sessionDown then
    (p2.closeConnection r, res2 ++ [POut.conn r (Out.stateChanged .idle)])
  else (p2, res2)

theorem process_some (p : Peer) (r : Role) (i : Input) (c : Conn)
    (hconn : p.connection r = some c) (hc : ∀ b, i ≠ .connected b) :
    p.process r i = procBody p r (c.process i).1 (c.process i).2 := by
  cases i <;> first | exact absurd rfl (hc _) | (simp only [Peer.process, hconn]; rfl)

theorem process_none (p : Peer) (r : Role) (i : Input)
    (hconn : p.connection r = none) (hc : ∀ b, i ≠ .connected b) :
    p.process r i = (p, []) := by
  cases i <;> first | exact absurd rfl (hc _) | simp only [Peer.process, hconn]

/-- Per-role outcome of a step of role `r`: the role's connection is closed and its slots
    cleared; or (acting role only) it carries on with `live`; or (other role) it is untouched. -/
def Shape (s s' : TState) (r : Role) (live : Option (Conn × Slots)) : Prop :=
  s'.peer.cfg = s.peer.cfg ∧ s'.now = s.now ∧
  ∀ r', (s'.peer.connection r' = none ∧ s'.slots r' = {}) ∨
        (r' = r ∧ live = some ((s'.peer.connection r').getD default, s'.slots r') ∧
           (s'.peer.connection r').isSome) ∨
        (r' ≠ r ∧ s'.peer.connection r' = s.peer.connection r' ∧ s'.slots r' = s.slots r')

theorem hasHoldDown_map (r : Role) (outs : List Out) :
    hasHoldDown r (outs.map (POut.conn r)) = true ↔ holdDown ∈ outs := by
  simp [hasHoldDown, holdDown]

@[simp] theorem applyOuts_nil (r : Role) (s : TState) : applyOuts r s [] = s := rfl
@[simp] theorem applyOuts_cons (r : Role) (s : TState) (o : POut) (l : List POut) :
    applyOuts r s (o :: l) = applyOuts r (applyOne r s o) l := rfl

theorem hasHoldDown_append (r : Role) (l1 l2 : List POut) :
    hasHoldDown r (l1 ++ l2) = (hasHoldDown r l1 || hasHoldDown r l2) := by
  simp [hasHoldDown]

@[simp] theorem hasHoldDown_nil (r : Role) : hasHoldDown r [] = false := rfl
theorem hasHoldDown_cons (r : Role) (o : POut) (l : List POut) :
    hasHoldDown r (o :: l) = (decide (POut.conn r (.down .holdExpired (some (4, 0))) = o) || hasHoldDown r l) := by
  simp [hasHoldDown, List.contains_cons, eq_comm]

macro "shape_bash" : tactic => `(tactic|
  (simp [*, procBody, Shape, Peer.checkCollision, Peer.connection, Peer.setConn, Peer.closeConnection,
      Peer.collisionWinner, Role.other, applyOuts_append, applyOuts_map_conn, applyOne,
      TState.slots, TState.setSlots, hasHoldDown_append, hasHoldDown_map, hasHoldDown_cons, downLocal, Peer.cease]))

theorem body_shape (s : TState) (r : Role) (c' : Conn) (outs : List Out)
    (hOC : outs.contains (.stateChanged .openConfirm) = true → outs.any Peer.isDown = false)
    (hdn : outs.any Peer.isDown = true → slotEff s.now (s.slots r) outs = {}) :
    Shape s (applyOuts r { s with peer := (procBody s.peer r c' outs).1 } (procBody s.peer r c' outs).2) r
        (if outs.any Peer.isDown then none else some (c', slotEff s.now (s.slots r) outs)) ∧
      (hasHoldDown r (procBody s.peer r c' outs).2 = true → holdDown ∈ outs) := by
  obtain ⟨⟨pc, pa, pp⟩, sa, sp, now⟩ := s
  by_cases hoc : outs.contains (.stateChanged .openConfirm) = true
  · have hd := hOC hoc
    simp only [List.contains_eq_mem, decide_eq_true_eq] at hoc
    cases r
    · cases pp with
      | none =>
        refine ⟨⟨?_, ?_, fun r' => ?_⟩, ?_⟩ <;> try cases r'
        all_goals shape_bash
      | some oc =>
        by_cases h1 : oc.state = .established
        · refine ⟨⟨?_, ?_, fun r' => ?_⟩, ?_⟩ <;> try cases r'
          all_goals shape_bash
        · by_cases h2 : oc.state = .openConfirm
          · by_cases h3 : c'.remoteId < pc.localRid
            all_goals
              refine ⟨⟨?_, ?_, fun r' => ?_⟩, ?_⟩ <;> try cases r'
              all_goals shape_bash
          · refine ⟨⟨?_, ?_, fun r' => ?_⟩, ?_⟩ <;> try cases r'
            all_goals shape_bash
    · cases pa with
      | none =>
        refine ⟨⟨?_, ?_, fun r' => ?_⟩, ?_⟩ <;> try cases r'
        all_goals shape_bash
      | some oc =>
        by_cases h1 : oc.state = .established
        · refine ⟨⟨?_, ?_, fun r' => ?_⟩, ?_⟩ <;> try cases r'
          all_goals shape_bash
        · by_cases h2 : oc.state = .openConfirm
          · by_cases h3 : c'.remoteId < pc.localRid
            all_goals
              refine ⟨⟨?_, ?_, fun r' => ?_⟩, ?_⟩ <;> try cases r'
              all_goals shape_bash
          · refine ⟨⟨?_, ?_, fun r' => ?_⟩, ?_⟩ <;> try cases r'
            all_goals shape_bash
  · simp only [List.contains_eq_mem, decide_eq_true_eq] at hoc
    by_cases hd : outs.any Peer.isDown = true
    · have hz := hdn hd
      simp only [TState.slots] at hz
      cases r
      all_goals
        refine ⟨⟨?_, ?_, fun r' => ?_⟩, ?_⟩ <;> try cases r'
        all_goals shape_bash
    · simp only [Bool.not_eq_true] at hd
      cases r
      all_goals
        refine ⟨⟨?_, ?_, fun r' => ?_⟩, ?_⟩ <;> try cases r'
        all_goals shape_bash

/-! ### 5. An ordinary event is accepted by the observer and keeps the relation -/

theorem syncDown_get (cs : S) (st : TStep) (r : Role) :
    (syncDown cs st).get r = if isUp (TimedSpec.stOf st r) then cs.get r else {} := by
  cases r <;> simp only [syncDown, TimedSpec.stOf] <;>
    by_cases h1 : isUp st.stA = true <;> by_cases h2 : isUp st.stP = true <;>
    simp [h1, h2, S.get, S.set]

@[simp] theorem syncDown_now (cs : S) (st : TStep) : (syncDown cs st).now = cs.now := by
  simp only [syncDown]
  by_cases h1 : isUp (TimedSpec.stOf st .active) = true <;>
    by_cases h2 : isUp (TimedSpec.stOf st .passive) = true <;> simp [h1, h2]

theorem state_of_none {p : Peer} {r : Role} (h : p.connection r = none) : p.state r = .idle := by
  simp [Peer.state, h]
theorem state_of_some {p : Peer} {r : Role} {c : Conn} (h : p.connection r = some c) :
    p.state r = c.state := by
  simp [Peer.state, h]

theorem stOf_eq (st : TStep) (p : Peer) (hA : st.stA = p.state .active) (hP : st.stP = p.state .passive)
    (r : Role) : TimedSpec.stOf st r = p.state r := by
  cases r <;> simp [TimedSpec.stOf, hA, hP]

/-- From the per-role shape of a step to the relation after it. -/
theorem trel_of_shape (cfg : Cfg) (s s' : TState) (cs : S) (r : Role) (live : Option (Conn × Slots))
    (x' : R) (h : TRel cfg s cs) (hs : Shape s s' r live)
    (hlive : ∀ c sl, live = some (c, sl) → s'.peer.connection r = some c → ConnRel cfg s.now c sl x')
    (st : TStep) (hA : st.stA = s'.peer.state .active) (hP : st.stP = s'.peer.state .passive) :
    TRel cfg s' (syncDown (cs.set r x') st) := by
  obtain ⟨hcfg, hnow, hroles⟩ := hs
  refine ⟨hcfg.trans h.cfgEq, by simp [h.nowEq, hnow], fun r' => ?_⟩
  rw [syncDown_get, stOf_eq st s'.peer hA hP, hnow]
  rcases hroles r' with ⟨hn, hsl⟩ | ⟨rfl, hl, hsome⟩ | ⟨hne, hcn, hsl⟩
  · rw [hn, hsl, state_of_none hn]
    simp [RoleRel, isUp]
  · cases hc : s'.peer.connection r' with
    | none => simp [hc] at hsome
    | some c =>
      rw [hc, Option.getD_some] at hl
      have hcr := hlive _ _ hl hc
      rw [state_of_some hc, hcr.state_ne_idle]
      simpa [RoleRel] using hcr
  · have hr := h.role r'
    rw [hcn, hsl]
    cases hc : s.peer.connection r' with
    | none =>
      rw [hc] at hr
      have : s'.peer.state r' = .idle := state_of_none (hcn.trans hc)
      rw [this]
      simpa [RoleRel, isUp] using hr.1
    | some c =>
      rw [hc] at hr
      have : s'.peer.state r' = c.state := state_of_some (hcn.trans hc)
      rw [this, ConnRel.state_ne_idle hr, if_pos rfl, S.get_set_ne _ hne]
      exact hr

def mkStep (s : TState) (e : TEv) : TStep :=
  { ev := e, obs := (tstep s e).2, stA := (tstep s e).1.peer.state .active,
    stP := (tstep s e).1.peer.state .passive }

theorem runFrom_cons (s : TState) (e : TEv) (rest : List TEv) :
    Timed.runFrom s (e :: rest) = mkStep s e :: Timed.runFrom (tstep s e).1 rest := rfl

/-- Common last step of every event case. -/
theorem ev_finish (cfg : Cfg) (s : TState) (cs : S) (h : TRel cfg s cs) (r : Role) (e : Ev)
    (s' : TState) (obs : Obs) (htstep : tstep s (.ev r e) = (s', .step obs))
    (live : Option (Conn × Slots)) (hs : Shape s s' r live)
    (hlive : ∀ c sl, live = some (c, sl) →
       ConnRel cfg s.now c sl (updR cfg s.now (cs.get r) e c.state))
    (hhd : hasHoldDown r (outsOfObs obs) = false) :
    ∃ cs', stepOk cfg cs (mkStep s (.ev r e)) = .ok cs' ∧ TRel cfg (tstep s (.ev r e)).1 cs' := by
  refine ⟨syncDown (cs.set r (updR cfg cs.now (cs.get r) e
      (TimedSpec.stOf (mkStep s (.ev r e)) r))) (mkStep s (.ev r e)), ?_, ?_⟩
  · simp only [stepOk, mkStep, onEv_eq, htstep, hhd]
    rfl
  · simp only [htstep]
    apply trel_of_shape cfg s s' cs r live _ h hs
    · intro c sl hl hc
      have := hlive c sl hl
      rw [stOf_eq (mkStep s (.ev r e)) s'.peer (by simp [mkStep, htstep]) (by simp [mkStep, htstep]) r,
        state_of_some hc, h.nowEq]
      exact this
    · simp [mkStep, htstep]
    · simp [mkStep, htstep]

theorem shape_refl_dead (cfg : Cfg) (s : TState) (cs : S) (h : TRel cfg s cs) (r : Role)
    (hn : s.peer.connection r = none) : Shape s s r none := by
  refine ⟨rfl, rfl, fun r' => ?_⟩
  by_cases hr : r' = r
  · subst hr
    have := h.role r'
    rw [hn] at this
    exact Or.inl ⟨hn, this.1⟩
  · exact Or.inr (Or.inr ⟨hr, rfl, rfl⟩)

theorem shape_refl_live (s : TState) (r : Role) (c : Conn) (hc : s.peer.connection r = some c) :
    Shape s s r (some (c, s.slots r)) := by
  refine ⟨rfl, rfl, fun r' => ?_⟩
  by_cases hr : r' = r
  · subst hr
    exact Or.inr (Or.inl ⟨rfl, by simp [hc], by simp [hc]⟩)
  · exact Or.inr (Or.inr ⟨hr, rfl, rfl⟩)

/-- An event that does not change the connection state and is none of OPEN / KEEPALIVE / UPDATE /
    update-sent leaves the observer's record alone. -/
theorem updR_connected (cfg : Cfg) (now : Nat) (c : Conn) (sl : Slots) (x : R) (b : Bool)
    (h : ConnRel cfg now c sl x) : updR cfg now x (.input (.connected b)) c.state = x := by
  obtain ⟨-, hup, h | h⟩ := h
  · obtain ⟨hs, hcf, -⟩ := h
    simp [updR, hup, hcf, hs, isConfirmed]
  · obtain ⟨hs, hcf, -⟩ := h
    simp [updR, hup, hcf]

/-- What an FSM input does, in the vocabulary of `ev_finish`. -/
def EvCore (cfg : Cfg) (s : TState) (cs : S) (r : Role) (i : Input) : Prop :=
  ∃ (s' : TState) (outs : List POut) (live : Option (Conn × Slots)),
    tstep s (.ev r (.input i)) = (s', .step (.fsm outs)) ∧ Shape s s' r live ∧
    (∀ c sl, live = some (c, sl) →
       ConnRel cfg s.now c sl (updR cfg s.now (cs.get r) (.input i) c.state)) ∧
    hasHoldDown r outs = false

theorem ev_core_input (cfg : Cfg) (hv : cfgValid cfg = true) (s : TState) (cs : S) (h : TRel cfg s cs)
    (r : Role) (i : Input) (hw : wfEv (.input i) = true) : EvCore cfg s cs r i := by
  unfold EvCore
  have hrole := h.role r
  by_cases hcon : ∃ b, i = .connected b
  · obtain ⟨b, rfl⟩ := hcon
    cases hconn : s.peer.connection r with
    | none =>
      rw [hconn] at hrole
      obtain ⟨hsl, hx⟩ := hrole
      have hp : s.peer.process r (.connected b) =
          (s.peer.setConn r (some s.peer.newConn.onConnected.1),
           s.peer.newConn.onConnected.2.map (POut.conn r)) := by
        simp [Peer.process, Peer.onConnected, hconn]
      have ht : tstep s (.ev r (.input (.connected b))) =
          (({ s with peer := s.peer.setConn r (some s.peer.newConn.onConnected.1) } : TState).setSlots r
              (slotEff s.now {} s.peer.newConn.onConnected.2),
           .step (.fsm (s.peer.newConn.onConnected.2.map (POut.conn r)))) := by
        rw [tstep_input]; simp [evStep, hp, applyOuts_map_conn, hsl]
      refine ⟨_, _, some (s.peer.newConn.onConnected.1, slotEff s.now {} s.peer.newConn.onConnected.2),
        ht, ?_, ?_, ?_⟩
      · refine ⟨by simp, by simp, fun r' => ?_⟩
        by_cases hr : r' = r
        · subst hr
          exact Or.inr (Or.inl ⟨rfl, by simp, by simp⟩)
        · exact Or.inr (Or.inr ⟨hr, by simp [connection_setConn_ne _ hr],
            by rw [slots_setSlots_ne _ hr]; cases r' <;> rfl⟩)
      · intro c' sl' hl
        simp only [Option.some.injEq, Prod.mk.injEq] at hl
        obtain ⟨rfl, rfl⟩ := hl
        rw [hx]
        have hcfg := h.cfgEq
        by_cases hl0 : cfg.localHold = 0 <;>
          simp [Conn.onConnected, Peer.newConn, ConnRel, updR, slotEff, slotEff1, hcfg, hl0, isConfirmed]
      · by_cases hl0 : s.peer.newConn.localHold = 0 <;>
          simp [outsOfObs, Conn.onConnected, hasHoldDown_cons, hl0]
    | some c =>
      rw [hconn] at hrole
      have hp : s.peer.process r (.connected b) = (s.peer, [POut.closeConnection]) := by
        simp [Peer.process, Peer.onConnected, hconn]
      have ht : tstep s (.ev r (.input (.connected b))) = (s, .step (.fsm [POut.closeConnection])) := by
        rw [tstep_input]; simp [evStep, hp, applyOne]
      refine ⟨_, _, _, ht, shape_refl_live s r c hconn, ?_, ?_⟩
      · intro c' sl' hl
        simp only [Option.some.injEq, Prod.mk.injEq] at hl
        obtain ⟨rfl, rfl⟩ := hl
        rw [updR_connected cfg s.now _ _ _ b hrole]
        exact hrole
      · simp [outsOfObs, hasHoldDown_cons]
  · have hc : ∀ b, i ≠ .connected b := fun b hb => hcon ⟨b, hb⟩
    cases hconn : s.peer.connection r with
    | none =>
      have hp := process_none s.peer r i hconn hc
      have ht : tstep s (.ev r (.input i)) = (s, .step (.fsm [])) := by
        rw [tstep_input]; simp [evStep, hp]
      refine ⟨_, _, none, ht, shape_refl_dead cfg s cs h r hconn, ?_, ?_⟩
      · intro c sl hl; cases hl
      · simp [outsOfObs]
    | some c =>
      rw [hconn] at hrole
      have hp := process_some s.peer r i c hconn hc
      obtain ⟨hnh, hcs⟩ := conn_step cfg hv s.now c (s.slots r) (cs.get r) hrole i hw hc
      have hOC : (c.process i).2.contains (.stateChanged .openConfirm) = true →
          (c.process i).2.any Peer.isDown = false := by
        intro hoc
        rcases hcs with ⟨_, h2, _⟩ | ⟨h1, _⟩
        · rw [h2] at hoc; cases hoc
        · exact h1
      have hdn : (c.process i).2.any Peer.isDown = true →
          slotEff s.now (s.slots r) (c.process i).2 = {} := by
        intro hd
        rcases hcs with ⟨_, _, h3⟩ | ⟨h1, _⟩
        · exact h3
        · rw [h1] at hd; cases hd
      obtain ⟨hshape, hhd⟩ := body_shape s r (c.process i).1 (c.process i).2 hOC hdn
      have ht : tstep s (.ev r (.input i)) = ((evStep s r i).1, .step (.fsm (evStep s r i).2)) :=
        tstep_input s r i
      have hshape' : Shape s (evStep s r i).1 r
          (if (c.process i).2.any Peer.isDown then none
           else some ((c.process i).1, slotEff s.now (s.slots r) (c.process i).2)) := by
        unfold evStep; rw [hp]; exact hshape
      refine ⟨_, _, _, ht, hshape', ?_, ?_⟩
      · intro c' sl' hl
        rcases hcs with ⟨h1, _, _⟩ | ⟨h1, h2⟩
        · rw [if_pos h1] at hl; cases hl
        · rw [if_neg (by simp [h1])] at hl
          simp only [Option.some.injEq, Prod.mk.injEq] at hl
          obtain ⟨rfl, rfl⟩ := hl
          exact h2
      · cases hh : hasHoldDown r (evStep s r i).2 with
        | false => rfl
        | true =>
          exfalso; apply hnh; apply hhd
          simpa [evStep, hp] using hh

theorem updR_rawOpen (cfg : Cfg) (now : Nat) (x : R) (o : RawOpen) (after : State) :
    updR cfg now x (.rawOpen o) after =
      updR cfg now x (.input (.msg (.open { asn := o.asn, hold := o.hold, rid := o.rid }))) after := by
  simp [updR, openHold?]

/-- Every event a driver can deliver outside a `wait` is accepted and keeps the relation. -/
theorem ev_sim (cfg : Cfg) (hv : cfgValid cfg = true) (s : TState) (cs : S) (h : TRel cfg s cs)
    (r : Role) (e : Ev) (hw : wfEv e = true) :
    ∃ cs', stepOk cfg cs (mkStep s (.ev r e)) = .ok cs' ∧ TRel cfg (tstep s (.ev r e)).1 cs' := by
  cases e with
  | input i =>
    obtain ⟨s', outs, live, ht, hs, hl, hh⟩ := ev_core_input cfg hv s cs h r i hw
    exact ev_finish cfg s cs h r _ s' _ ht live hs hl (by simpa [outsOfObs] using hh)
  | rawOpen o =>
    cases hpo : parseOpen o with
    | ok m =>
      have hm : m = { asn := o.asn, hold := o.hold, rid := o.rid } ∧ ¬ (o.hold = 1 ∨ o.hold = 2) := by
        unfold parseOpen at hpo
        split at hpo
        · cases hpo
        · split at hpo
          · cases hpo
          · next hh _ => exact ⟨by cases hpo; rfl, hh⟩
      obtain ⟨rfl, hh12⟩ := hm
      have hw' : wfEv (.input (.msg (.open { asn := o.asn, hold := o.hold, rid := o.rid }))) = true := by
        simp [wfEv]; omega
      obtain ⟨s', outs, live, ht, hs, hl, hh⟩ := ev_core_input cfg hv s cs h r _ hw'
      have ht' : tstep s (.ev r (.rawOpen o)) = (s', .step (.fsm outs)) := by
        rw [← ht]; simp [tstep, arbStep, hpo]
      refine ev_finish cfg s cs h r _ s' _ ht' live hs ?_ (by simpa [outsOfObs] using hh)
      intro c sl hlv
      rw [updR_rawOpen]; exact hl c sl hlv
    | error n =>
      have hcd : ∀ b, Input.disconnected ≠ .connected b := by intro b hb; cases hb
      have ht : tstep s (.ev r (.rawOpen o)) =
          ((evStep (s.setSlots r {}) r .disconnected).1,
           .step (.parseReject n (evStep (s.setSlots r {}) r .disconnected).2)) := by
        simp only [tstep, arbStep, hpo, evStep, outsOfObs, peer_setSlots]
        congr 2
        cases r <;> rfl
      have hsh : ∀ s' live, Shape (s.setSlots r {}) s' r live → Shape s s' r live := by
        intro s' live ⟨h1, h2, h3⟩
        refine ⟨by simpa using h1, by simpa using h2, fun r' => ?_⟩
        rcases h3 r' with h | h | ⟨hne, h4, h5⟩
        · exact Or.inl h
        · exact Or.inr (Or.inl h)
        · exact Or.inr (Or.inr ⟨hne, by simpa using h4, by rw [h5, slots_setSlots_ne _ hne]⟩)
      cases hconn : s.peer.connection r with
      | none =>
        have hp := process_none s.peer r .disconnected hconn hcd
        have he : evStep (s.setSlots r {}) r .disconnected = (s.setSlots r {}, []) := by
          simp [evStep, hp]
          cases r <;> rfl
        rw [he] at ht
        refine ev_finish cfg s cs h r _ _ _ ht none ?_ (by intro c sl hl; cases hl) (by simp [outsOfObs])
        refine ⟨by simp, by simp, fun r' => ?_⟩
        by_cases hr : r' = r
        · subst hr; exact Or.inl ⟨by simpa using hconn, by simp⟩
        · exact Or.inr (Or.inr ⟨hr, by simp, slots_setSlots_ne _ hr _⟩)
      | some c =>
        have hp := process_some s.peer r .disconnected c hconn hcd
        have hb := body_shape (s.setSlots r {}) r (c.process .disconnected).1 (c.process .disconnected).2
          (by simp [Conn.process, Conn.onDisconnected])
          (by simp [Conn.process, Conn.onDisconnected, slotEff, slotEff1])
        have he : (evStep (s.setSlots r {}) r .disconnected) =
            (applyOuts r { (s.setSlots r {}) with peer := (procBody s.peer r (c.process .disconnected).1 (c.process .disconnected).2).1 }
              (procBody s.peer r (c.process .disconnected).1 (c.process .disconnected).2).2,
             (procBody s.peer r (c.process .disconnected).1 (c.process .disconnected).2).2) := by
          simp [evStep, hp]
        rw [he] at ht
        simp only [peer_setSlots] at hb
        refine ev_finish cfg s cs h r _ _ _ ht none (hsh _ _ ?_) (by intro c sl hl; cases hl) ?_
        · have := hb.1
          simpa [Conn.process, Conn.onDisconnected, Peer.isDown] using this
        · cases hh : hasHoldDown r (procBody s.peer r (c.process .disconnected).1 (c.process .disconnected).2).2 with
          | false => simpa [outsOfObs] using hh
          | true =>
            have := hb.2 hh
            simp [Conn.process, Conn.onDisconnected, holdDown] at this

/-! ### 6. `wait`: the clock, `nextDue`, the fuel measure -/

theorem foldl_min {α : Type} (key : α → Nat) (f : Option α → α → Option α)
    (h0 : ∀ c, f none c = some c)
    (h1 : ∀ b c, f (some b) c = if key c < key b then some c else some b) :
    ∀ (l : List α) (init : Option α),
      (l.foldl f init = none ↔ init = none ∧ l = []) ∧
      (∀ m, l.foldl f init = some m →
        (m ∈ l ∨ init = some m) ∧ (∀ x ∈ l, key m ≤ key x) ∧ (∀ b, init = some b → key m ≤ key b)) := by
  intro l
  induction l with
  | nil =>
    intro init; simp
    intro m hm; subst hm
    exact ⟨rfl, fun b hb => by cases hb; exact Nat.le_refl _⟩
  | cons a rest ih =>
    intro init
    simp only [List.foldl_cons]
    cases init with
    | none =>
      rw [h0]
      obtain ⟨ih1, ih2⟩ := ih (some a)
      refine ⟨by simp [ih1], fun m hm => ?_⟩
      obtain ⟨k1, k2, k3⟩ := ih2 m hm
      refine ⟨?_, ?_, by simp⟩
      · rcases k1 with k | k
        · exact Or.inl (List.mem_cons_of_mem _ k)
        · cases k; exact Or.inl List.mem_cons_self
      · intro x hx
        rcases List.mem_cons.1 hx with rfl | hx
        · exact k3 _ rfl
        · exact k2 x hx
    | some b =>
      rw [h1]
      by_cases hlt : key a < key b
      · rw [if_pos hlt]
        obtain ⟨ih1, ih2⟩ := ih (some a)
        refine ⟨by simp [ih1], fun m hm => ?_⟩
        obtain ⟨k1, k2, k3⟩ := ih2 m hm
        have := k3 _ rfl
        refine ⟨?_, ?_, ?_⟩
        · rcases k1 with k | k
          · exact Or.inl (List.mem_cons_of_mem _ k)
          · cases k; exact Or.inl List.mem_cons_self
        · intro x hx
          rcases List.mem_cons.1 hx with rfl | hx
          · exact this
          · exact k2 x hx
        · intro b' hb'; cases hb'; omega
      · rw [if_neg hlt]
        obtain ⟨ih1, ih2⟩ := ih (some b)
        refine ⟨by simp [ih1], fun m hm => ?_⟩
        obtain ⟨k1, k2, k3⟩ := ih2 m hm
        have := k3 _ rfl
        refine ⟨?_, ?_, ?_⟩
        · rcases k1 with k | k
          · exact Or.inl (List.mem_cons_of_mem _ k)
          · exact Or.inr k
        · intro x hx
          rcases List.mem_cons.1 hx with rfl | hx
          · omega
          · exact k2 x hx
        · intro b' hb'; cases hb'; exact this

theorem nextDue_none {s : TState} {target : Nat} (h : nextDue s target = none) (r : Role) :
    (∀ d, (s.slots r).hold = some d → target < d) ∧ (∀ d, (s.slots r).ka = some d → target < d) := by
  unfold nextDue at h
  dsimp only at h
  have key := ((foldl_min (fun c : Nat × Role × Bool => c.1) _ (fun _ => rfl) (fun _ _ => rfl) _ none).1.1 h).2
  rw [List.filter_eq_nil_iff] at key
  obtain ⟨p, ⟨ah, ak⟩, ⟨ph, pk⟩, now⟩ := s
  cases r <;> cases ah <;> cases ak <;> cases ph <;> cases pk <;>
    simp [TState.slots] at key ⊢ <;> omega

theorem nextDue_some {s : TState} {target dl : Nat} {r : Role} {isHold : Bool}
    (h : nextDue s target = some (dl, r, isHold)) :
    dl ≤ target ∧
    (if isHold then (s.slots r).hold = some dl else (s.slots r).ka = some dl) ∧
    ∀ r', (∀ d, (s.slots r').hold = some d → dl ≤ d) ∧ (∀ d, (s.slots r').ka = some d → dl ≤ d) := by
  unfold nextDue at h
  dsimp only at h
  obtain ⟨k1, k2, -⟩ := (foldl_min (fun c : Nat × Role × Bool => c.1) _ (fun _ => rfl) (fun _ _ => rfl) _ none).2 _ h
  simp only [reduceCtorEq, or_false, List.mem_filter, decide_eq_true_eq] at k1 k2
  obtain ⟨p, ⟨ah, ak⟩, ⟨ph, pk⟩, now⟩ := s
  refine ⟨k1.2, ?_, ?_⟩
  · cases ah <;> cases ak <;> cases ph <;> cases pk <;> cases r <;> cases isHold <;>
      simp [TState.slots] at k1 ⊢ <;> omega
  · intro r'
    cases ah <;> cases ak <;> cases ph <;> cases pk <;> cases r' <;>
      simp [TState.slots] at k1 k2 ⊢ <;> omega

/-- One timer firing inside `advance`. -/
def fire (s : TState) (dl : Nat) (r : Role) (isHold : Bool) : TState × Fired :=
  let s1 : TState := { s with now := max dl s.now }
  let s2 := s1.setSlots r (if isHold then { s1.slots r with hold := none }
                           else { s1.slots r with ka := none })
  let po := s2.peer.process r (if isHold then .holdTimer else .kaTimer)
  (applyOuts r { s2 with peer := po.1 } po.2,
   { time := s1.now, role := r, isHold := isHold, outs := po.2 })

theorem advance_zero (s : TState) (target : Nat) (acc : List Fired) :
    advance 0 s target acc = ({ s with now := max s.now target }, acc.reverse) := rfl

theorem advance_succ_none {s : TState} {target : Nat} (h : nextDue s target = none)
    (fuel : Nat) (acc : List Fired) :
    advance (fuel + 1) s target acc = ({ s with now := max s.now target }, acc.reverse) := by
  simp only [advance, h]

theorem advance_succ_some {s : TState} {target dl : Nat} {r : Role} {isHold : Bool}
    (h : nextDue s target = some (dl, r, isHold)) (fuel : Nat) (acc : List Fired) :
    advance (fuel + 1) s target acc =
      advance fuel (fire s dl r isHold).1 target ((fire s dl r isHold).2 :: acc) := by
  simp only [advance, h]
  rfl

theorem advance_acc (target : Nat) : ∀ (fuel : Nat) (s : TState) (acc : List Fired),
    advance fuel s target acc =
      ((advance fuel s target []).1, acc.reverse ++ (advance fuel s target []).2) := by
  intro fuel
  induction fuel with
  | zero => intro s acc; simp [advance_zero]
  | succ n ih =>
    intro s acc
    cases hnd : nextDue s target with
    | none => simp [advance_succ_none hnd]
    | some x =>
      obtain ⟨dl, r, isHold⟩ := x
      rw [advance_succ_some hnd, advance_succ_some hnd, ih _ (_ :: acc), ih _ [_]]
      simp

@[simp] theorem slots_with_now (s : TState) (n : Nat) (r : Role) :
    ({ s with now := n } : TState).slots r = s.slots r := by cases r <;> rfl

theorem proc_quiet (p : Peer) (r : Role) (c' : Conn) (outs : List Out)
    (h1 : outs.contains (.stateChanged .openConfirm) = false) (h2 : outs.any Peer.isDown = false) :
    procBody p r c' outs = (p.setConn r (some c'), outs.map (POut.conn r)) := by
  simp at h1 h2
  simp [procBody, h1]
  intro x hx; exact h2 x hx

theorem proc_down (p : Peer) (r : Role) (c' : Conn) (outs : List Out)
    (h1 : outs.contains (.stateChanged .openConfirm) = false) (h2 : outs.any Peer.isDown = true) :
    procBody p r c' outs = ((p.setConn r (some c')).closeConnection r,
      outs.map (POut.conn r) ++ [POut.conn r (.stateChanged .idle)]) := by
  simp at h1 h2
  obtain ⟨x, hx, hd⟩ := h2
  simp [procBody, h1]
  exact ⟨x, hx, hd⟩

/-- The hold timer of a live connection fires: the connection is closed, its slots cleared. -/
theorem fire_hold_eq (s : TState) (dl : Nat) (r : Role) (c : Conn)
    (hc : s.peer.connection r = some c)
    (hst : c.state = .openSent ∨ c.state = .openConfirm ∨ c.state = .established) :
    fire s dl r true =
      ((({ s with now := max dl s.now, peer := s.peer.setConn r none } : TState)).setSlots r {},
       { time := max dl s.now, role := r, isHold := true,
         outs := [POut.conn r holdDown, POut.conn r (.stateChanged .idle)] }) := by
  have hcd : ∀ b, Input.holdTimer ≠ .connected b := by intro b hb; cases hb
  have hp : c.process .holdTimer = (c, [holdDown]) := by
    rcases hst with h | h | h <;> simp [Conn.process, Conn.onHoldTimer, h, holdDown]
  have hproc : s.peer.process r .holdTimer =
      (s.peer.setConn r none, [POut.conn r holdDown, POut.conn r (.stateChanged .idle)]) := by
    rw [process_some s.peer r _ c hc hcd, hp, proc_down _ _ _ _ (by simp [holdDown]) (by simp [holdDown, Peer.isDown])]
    cases r <;> simp [Peer.closeConnection, Peer.setConn]
  simp only [fire, peer_setSlots, if_true, hproc]
  simp [applyOne, holdDown]
  cases r <;> rfl

/-- The keepalive timer of a confirmed connection fires: KEEPALIVE sent, timer re-armed. -/
theorem fire_ka_eq (s : TState) (dl : Nat) (r : Role) (c : Conn)
    (hc : s.peer.connection r = some c)
    (hst : c.state = .openConfirm ∨ c.state = .established) :
    fire s dl r false =
      ((({ s with now := max dl s.now } : TState)).setSlots r
          { (s.slots r) with ka := some (max dl s.now + c.kaInterval) },
       { time := max dl s.now, role := r, isHold := false,
         outs := [POut.conn r .sendKeepalive, POut.conn r (.setKa c.kaInterval)] }) := by
  have hcd : ∀ b, Input.kaTimer ≠ .connected b := by intro b hb; cases hb
  have hp : c.process .kaTimer = (c, [.sendKeepalive, .setKa c.kaInterval]) := by
    rcases hst with h | h <;> simp [Conn.process, Conn.onKaTimer, h]
  have hproc : s.peer.process r .kaTimer =
      (s.peer, [POut.conn r .sendKeepalive, POut.conn r (.setKa c.kaInterval)]) := by
    rw [process_some s.peer r _ c hc hcd, hp, proc_quiet _ _ _ _ (by simp) (by simp [Peer.isDown])]
    obtain ⟨⟨pc, pa, pp⟩, sa, sp, now⟩ := s
    cases r <;> simp_all [Peer.setConn, Peer.connection]
  simp only [fire, peer_setSlots, Bool.false_eq_true, if_false, hproc]
  simp [applyOne, arm]
  cases r <;> rfl

/-- Fuel measure: number of firings still possible before `target` (each due hold slot counts
    once; a due keepalive slot with deadline `d` can fire at most `target - d + 1` times because
    every re-arm moves it forward by at least one second). -/
def muR (sl : Slots) (target : Nat) : Nat :=
  (match sl.hold with | some d => if d ≤ target then 1 else 0 | none => 0) +
  (match sl.ka with | some d => if d ≤ target then target - d + 1 else 0 | none => 0)

def mu (s : TState) (target : Nat) : Nat :=
  muR (s.slots .active) target + muR (s.slots .passive) target

theorem mu_split (s : TState) (target : Nat) (r : Role) :
    mu s target = muR (s.slots r) target + muR (s.slots r.other) target := by
  cases r <;> simp [mu, Role.other, Nat.add_comm]

theorem RoleRel.mono {cfg : Cfg} {now now' : Nat} {c : Option Conn} {sl : Slots} {x : R}
    (h : RoleRel cfg now c sl x)
    (hh : ∀ d, sl.hold = some d → now ≤ d → now' ≤ d)
    (hk : ∀ d, sl.ka = some d → now ≤ d → now' ≤ d) :
    RoleRel cfg now' c sl x := by
  cases c with
  | none => exact h
  | some c =>
    obtain ⟨h1, h2, h3⟩ := h
    refine ⟨h1, h2, ?_⟩
    rcases h3 with h3 | ⟨a1, a2, a3, a4, a5, a6, a7⟩
    · exact Or.inl h3
    · refine Or.inr ⟨a1, a2, a3, a4, a5, a6, fun hne => ?_⟩
      obtain ⟨b1, b2, b3, b4⟩ := a7 hne
      exact ⟨b1, b2, hh _ b1 b3, hk _ b2 b4⟩

@[simp] theorem S.get_with_now (cs : S) (n : Nat) (r : Role) : ({ cs with now := n } : S).get r = cs.get r := by
  cases r <;> rfl

/-- Armed deadlines of a related state are never in the past.  (For an OpenSent hold slot the
    relation does not track the deadline, so this is stated only where it is needed.) -/
theorem RoleRel_ka_ge {cfg : Cfg} {now : Nat} {c : Option Conn} {sl : Slots} {x : R}
    (h : RoleRel cfg now c sl x) (d : Nat) (hd : sl.ka = some d) : now ≤ d := by
  cases c with
  | none => rw [h.1] at hd; cases hd
  | some c =>
    obtain ⟨-, -, h3 | ⟨-, -, -, -, -, a6, a7⟩⟩ := h
    · rw [h3.2.2.1] at hd; cases hd
    · by_cases h0 : x.neg = 0
      · rw [(a6 h0).2] at hd; cases hd
      · obtain ⟨-, b2, -, b4⟩ := a7 h0
        rw [b2] at hd; cases hd; exact b4

theorem fire_sim (cfg : Cfg) (s : TState) (cs : S) (target dl : Nat) (r : Role) (isHold : Bool)
    (h : TRel cfg s cs) (hnow : s.now ≤ target) (hnd : nextDue s target = some (dl, r, isHold)) :
    (∃ cs', onFired cs target (fire s dl r isHold).2 = .ok cs' ∧ TRel cfg (fire s dl r isHold).1 cs' ∧
      (fire s dl r isHold).1.now ≤ target ∧ mu (fire s dl r isHold).1 target < mu s target) ∧
    (∀ o ∈ (fire s dl r isHold).2.outs, ∃ x, o = POut.conn (fire s dl r isHold).2.role x) := by
  obtain ⟨hdl, hslot, hmin⟩ := nextDue_some hnd
  have hr := h.role r
  have hcn := h.nowEq
  cases hconn : s.peer.connection r with
  | none =>
    rw [hconn] at hr
    cases isHold <;> simp [hr.1] at hslot
  | some c =>
    rw [hconn] at hr
    obtain ⟨hlh, hup, hcase⟩ := hr
    cases isHold with
    | false =>
      simp only [Bool.false_eq_true, if_false] at hslot
      rcases hcase with ⟨_, _, hk, _⟩ | ⟨hst, hcf, hng, hki, hnv, hz, hnz⟩
      · rw [hk] at hslot; cases hslot
      · have hne : (cs.get r).neg ≠ 0 := by
          intro h0; rw [(hz h0).2] at hslot; cases hslot
        obtain ⟨b1, b2, b3, b4⟩ := hnz hne
        have hdle : dl = (cs.get r).lastKa + (cs.get r).neg / 3 := by
          rw [b2] at hslot; cases hslot; rfl
        have hk1 : 1 ≤ (cs.get r).neg / 3 := by omega
        have hmax : max dl s.now = dl := by omega
        have hhold := (hmin r).1 _ b1
        rw [fire_ka_eq s dl r c hconn hst, hmax]
        dsimp only
        refine ⟨⟨({ cs with now := dl } : S).set r { cs.get r with lastKa := dl }, ?_, ?_, ?_, ?_⟩, by simp⟩
        · have e1 : ¬ (dl < cs.now ∨ target < dl) := by omega
          simp [onFired, hup, hcf, hne, hasKeepalive, e1, ← hdle]
        · refine ⟨by simpa using h.cfgEq, by simp, fun r' => ?_⟩
          by_cases hr' : r' = r
          · subst hr'
            simp only [peer_setSlots, hconn, now_setSlots, slots_setSlots_same, S.get_set_same, RoleRel]
            refine ⟨hlh, hup, Or.inr ⟨hst, hcf, hng, hki, hnv, ?_, ?_⟩⟩
            · intro h0; exact absurd h0 hne
            · intro _
              simp only [slots_with_now, b1, hki, true_and]
              omega
          · simp only [peer_setSlots, now_setSlots, slots_setSlots_ne _ hr', S.get_set_ne _ hr',
              slots_with_now, S.get_with_now]
            exact (h.role r').mono (fun d hd _ => (hmin r').1 d hd) (fun d hd _ => (hmin r').2 d hd)
        · simpa using hdl
        · rw [mu_split _ target r, mu_split s target r]
          simp only [slots_setSlots_same, slots_setSlots_ne _ (role_ne_other r), slots_with_now]
          have : muR { hold := (s.slots r).hold, ka := some (dl + c.kaInterval) } target < muR (s.slots r) target := by
            simp only [muR, b1, b2, hki]
            rw [← hdle]
            split <;> split <;> omega
          omega
    | true =>
      simp only [if_true] at hslot
      have hst : c.state = .openSent ∨ c.state = .openConfirm ∨ c.state = .established := by
        rcases hcase with ⟨h1, _⟩ | ⟨h1, _⟩
        · exact Or.inl h1
        · exact Or.inr h1
      rw [fire_hold_eq s dl r c hconn hst]
      dsimp only
      have htime : ¬ (max dl s.now < cs.now ∨ target < max dl s.now) := by omega
      refine ⟨⟨({ cs with now := max dl s.now } : S).set r {}, ?_, ?_, ?_, ?_⟩, by simp⟩
      · rcases hcase with ⟨h1, hcf, _⟩ | ⟨h1, hcf, hng, hki, hnv, hz, hnz⟩
        · simp [onFired, hup, hcf, hasHoldDown, holdDown, htime]
        · have hne : (cs.get r).neg ≠ 0 := by
            intro h0; rw [(hz h0).1] at hslot; cases hslot
          obtain ⟨b1, b2, b3, b4⟩ := hnz hne
          have hdle : dl = (cs.get r).lastRx + (cs.get r).neg := by
            rw [b1] at hslot; cases hslot; rfl
          have hmax : max dl s.now = dl := by omega
          rw [hmax] at htime ⊢
          simp [onFired, hup, hcf, hne, hasHoldDown, holdDown, htime, ← hdle]
      · refine ⟨by simpa using h.cfgEq, by simp, fun r' => ?_⟩
        by_cases hr' : r' = r
        · subst hr'
          simp [RoleRel]
        · simp only [peer_setSlots, now_setSlots, slots_setSlots_ne _ hr', S.get_set_ne _ hr',
            S.get_with_now, connection_setConn_ne _ hr']
          have e1 : ({ s with now := max dl s.now, peer := s.peer.setConn r none } : TState).slots r' = s.slots r' := by
            cases r' <;> rfl
          rw [e1]
          exact (h.role r').mono
            (fun d hd hge => by have := (hmin r').1 d hd; omega)
            (fun d hd hge => by have := (hmin r').2 d hd; omega)
      · simp; omega
      · rw [mu_split _ target r, mu_split s target r]
        simp only [slots_setSlots_same, slots_setSlots_ne _ (role_ne_other r)]
        have e1 : ({ s with now := max dl s.now, peer := s.peer.setConn r none } : TState).slots r.other = s.slots r.other := by
          cases r <;> rfl
        rw [e1]
        have : 1 ≤ muR (s.slots r) target := by
          simp only [muR, hslot, if_pos hdl]; omega
        have : muR {} target = 0 := by simp [muR]
        omega

theorem mu_pos_of_due {s : TState} {target : Nat} {x : Nat × Role × Bool}
    (h : nextDue s target = some x) : 1 ≤ mu s target := by
  obtain ⟨dl, r, isHold⟩ := x
  obtain ⟨hdl, hslot, -⟩ := nextDue_some h
  rw [mu_split s target r]
  cases isHold
  · simp only [Bool.false_eq_true, if_false] at hslot
    simp only [muR, hslot, if_pos hdl]; omega
  · simp only [if_true] at hslot
    simp only [muR, hslot, if_pos hdl]; omega

theorem overdue_none (cfg : Cfg) (s : TState) (cs : S) (target : Nat) (h : TRel cfg s cs)
    (hnd : nextDue s target = none) (r : Role) : overdue cs r target = none := by
  have hr := h.role r
  obtain ⟨hh, hk⟩ := nextDue_none hnd r
  unfold overdue
  dsimp only
  split
  · next hc =>
    obtain ⟨hup, hcf, hne⟩ := hc
    cases hconn : s.peer.connection r with
    | none =>
      rw [hconn] at hr
      rw [hr.2] at hup; cases hup
    | some c =>
      rw [hconn] at hr
      obtain ⟨-, -, h3 | ⟨-, -, -, -, -, -, a7⟩⟩ := hr
      · rw [h3.2.1] at hcf; cases hcf
      · obtain ⟨b1, b2, -, -⟩ := a7 hne
        have := hh _ b1
        have := hk _ b2
        rw [if_neg (by omega), if_neg (by omega)]
  · rfl

theorem terminal_rel (cfg : Cfg) (s : TState) (cs : S) (target : Nat) (h : TRel cfg s cs)
    (hnow : s.now ≤ target) (hnd : nextDue s target = none) :
    TRel cfg { s with now := max s.now target } { cs with now := target } := by
  refine ⟨h.cfgEq, by simp; omega, fun r => ?_⟩
  obtain ⟨hh, hk⟩ := nextDue_none hnd r
  simp only [slots_with_now, S.get_with_now]
  exact (h.role r).mono (fun d hd _ => by have := hh d hd; omega) (fun d hd _ => by have := hk d hd; omega)

theorem advance_sim (cfg : Cfg) (target : Nat) : ∀ (fuel : Nat) (s : TState) (cs : S),
    TRel cfg s cs → s.now ≤ target → mu s target ≤ fuel →
    ∃ cs', onFiredAll cs target (advance fuel s target []).2 = .ok cs' ∧
      TRel cfg (advance fuel s target []).1 { cs' with now := target } ∧
      overdue cs' .active target = none ∧ overdue cs' .passive target = none ∧
      (∀ f ∈ (advance fuel s target []).2, ∀ o ∈ f.outs, ∃ x, o = POut.conn f.role x) := by
  intro fuel
  induction fuel with
  | zero =>
    intro s cs h hnow hmu
    have hnd : nextDue s target = none := by
      cases hx : nextDue s target with
      | none => rfl
      | some x => have := mu_pos_of_due hx; omega
    rw [advance_zero]
    exact ⟨cs, rfl, terminal_rel cfg s cs target h hnow hnd,
      overdue_none cfg s cs target h hnd _, overdue_none cfg s cs target h hnd _, by simp⟩
  | succ n ih =>
    intro s cs h hnow hmu
    cases hnd : nextDue s target with
    | none =>
      rw [advance_succ_none hnd]
      exact ⟨cs, rfl, terminal_rel cfg s cs target h hnow hnd,
        overdue_none cfg s cs target h hnd _, overdue_none cfg s cs target h hnd _, by simp⟩
    | some x =>
      obtain ⟨dl, r, isHold⟩ := x
      obtain ⟨⟨cs1, h1, h2, h3, h4⟩, h5⟩ := fire_sim cfg s cs target dl r isHold h hnow hnd
      obtain ⟨cs', k1, k2, k3, k4, k5⟩ := ih _ cs1 h2 h3 (by omega)
      rw [advance_succ_some hnd, advance_acc]
      refine ⟨cs', ?_, k2, k3, k4, ?_⟩
      · simp only [List.reverse_cons, List.reverse_nil, List.nil_append, List.singleton_append,
          onFiredAll, h1]
        exact k1
      · intro f hf
        simp only [List.reverse_cons, List.reverse_nil, List.nil_append, List.singleton_append,
          List.mem_cons] at hf
        rcases hf with rfl | hf
        · exact h5
        · exact k5 f hf

theorem mu_bound (cfg : Cfg) (s : TState) (cs : S) (h : TRel cfg s cs) (d : Nat) :
    mu s (s.now + d) ≤ 2 * d + 8 := by
  have key : ∀ r, muR (s.slots r) (s.now + d) ≤ d + 2 := by
    intro r
    have hk := RoleRel_ka_ge (h.role r)
    unfold muR
    cases hh : (s.slots r).hold <;> cases hka : (s.slots r).ka
    all_goals simp only []
    all_goals try (have := hk _ hka)
    all_goals repeat' split
    all_goals omega
  have := key .active
  have := key .passive
  unfold mu; omega

theorem up_eq {cfg : Cfg} {s : TState} {cs : S} (h : TRel cfg s cs) (r : Role) :
    (cs.get r).up = isUp (s.peer.state r) := by
  have hr := h.role r
  cases hconn : s.peer.connection r with
  | none =>
    rw [hconn] at hr
    rw [hr.2, state_of_none hconn]; rfl
  | some c =>
    rw [hconn] at hr
    rw [hr.2.1, state_of_some hconn, ConnRel.state_ne_idle hr]

/-- A `wait d` step is accepted by the observer and keeps the relation. -/
theorem wait_sim (cfg : Cfg) (s : TState) (cs : S) (h : TRel cfg s cs) (d : Nat) :
    ∃ cs', stepOk cfg cs (mkStep s (.wait d)) = .ok cs' ∧ TRel cfg (tstep s (.wait d)).1 cs' := by
  obtain ⟨cs1, k1, k2, k3, k4, -⟩ := advance_sim cfg (s.now + d) (2 * d + 8) s cs h (by omega)
    (mu_bound cfg s cs h d)
  refine ⟨{ cs1 with now := s.now + d }, ?_, by simpa [tstep] using k2⟩
  have ua := up_eq k2 .active
  have up := up_eq k2 .passive
  simp only [S.get] at ua up
  simp only [stepOk, mkStep, tstep, onWait, h.nowEq, k1, k3, k4]
  rw [if_neg]
  simp [ua, up]

/-- Every output of a timer firing belongs to the task whose timer fired. -/
theorem fired_outs_role (cfg : Cfg) (s : TState) (cs : S) (h : TRel cfg s cs) (d : Nat) :
    ∀ f ∈ (advance (2 * d + 8) s (s.now + d) []).2, ∀ o ∈ f.outs, ∃ x, o = POut.conn f.role x := by
  obtain ⟨cs1, -, -, -, -, k5⟩ := advance_sim cfg (s.now + d) (2 * d + 8) s cs h (by omega)
    (mu_bound cfg s cs h d)
  exact k5

/-! ### 7. Whole runs -/

theorem tev_sim (cfg : Cfg) (hv : cfgValid cfg = true) (s : TState) (cs : S) (h : TRel cfg s cs)
    (e : TEv) (hw : wfTEv e = true) :
    ∃ cs', stepOk cfg cs (mkStep s e) = .ok cs' ∧ TRel cfg (tstep s e).1 cs' := by
  cases e with
  | ev r e => exact ev_sim cfg hv s cs h r e hw
  | wait d => exact wait_sim cfg s cs h d

/-- The timed state reached from `s` by a history. -/
def reach (s : TState) : List TEv → TState
  | [] => s
  | e :: rest => reach (tstep s e).1 rest

/-- The observer's state after checking a trace (`none` if it rejects). -/
def specAfter (cfg : Cfg) (cs : S) : List TStep → Option S
  | [] => some cs
  | st :: rest =>
      match stepOk cfg cs st with
      | .error _ => none
      | .ok cs' => specAfter cfg cs' rest

theorem wfHist_cons {e : TEv} {rest : List TEv} (h : wfHist (e :: rest) = true) :
    wfTEv e = true ∧ wfHist rest = true := by
  simpa [wfHist] using h

theorem checkFrom_runFrom (cfg : Cfg) (hv : cfgValid cfg = true) : ∀ (h : List TEv) (s : TState)
    (cs : S) (i : Nat), wfHist h = true → TRel cfg s cs →
    checkFrom cfg cs i (Timed.runFrom s h) = .ok := by
  intro h
  induction h with
  | nil => intro s cs i _ _; rfl
  | cons e rest ih =>
    intro s cs i hw hr
    obtain ⟨hw1, hw2⟩ := wfHist_cons hw
    obtain ⟨cs', h1, h2⟩ := tev_sim cfg hv s cs hr e hw1
    rw [runFrom_cons]
    simp only [checkFrom, h1]
    exact ih _ cs' (i + 1) hw2 h2

theorem reach_rel (cfg : Cfg) (hv : cfgValid cfg = true) : ∀ (h : List TEv) (s : TState) (cs : S),
    wfHist h = true → TRel cfg s cs →
    ∃ cs', specAfter cfg cs (Timed.runFrom s h) = some cs' ∧ TRel cfg (reach s h) cs' := by
  intro h
  induction h with
  | nil => intro s cs _ hr; exact ⟨cs, rfl, hr⟩
  | cons e rest ih =>
    intro s cs hw hr
    obtain ⟨hw1, hw2⟩ := wfHist_cons hw
    obtain ⟨cs', h1, h2⟩ := tev_sim cfg hv s cs hr e hw1
    obtain ⟨cs'', k1, k2⟩ := ih _ cs' hw2 h2
    refine ⟨cs'', ?_, k2⟩
    rw [runFrom_cons]
    simp only [specAfter, h1]
    exact k1

theorem reach_append (h1 h2 : List TEv) : ∀ s : TState, reach s (h1 ++ h2) = reach (reach s h1) h2 := by
  induction h1 with
  | nil => intro s; rfl
  | cons e rest ih => intro s; simp only [List.cons_append, reach]; exact ih _

theorem runFrom_append (h1 h2 : List TEv) : ∀ s : TState,
    Timed.runFrom s (h1 ++ h2) = Timed.runFrom s h1 ++ Timed.runFrom (reach s h1) h2 := by
  induction h1 with
  | nil => intro s; rfl
  | cons e rest ih =>
    intro s
    simp only [List.cons_append, runFrom_cons, reach, ih]

theorem specAfter_append (cfg : Cfg) (t1 t2 : List TStep) : ∀ cs : S,
    specAfter cfg cs (t1 ++ t2) = (specAfter cfg cs t1).bind (fun cs' => specAfter cfg cs' t2) := by
  induction t1 with
  | nil => intro cs; rfl
  | cons st rest ih =>
    intro cs
    simp only [List.cons_append, specAfter]
    cases stepOk cfg cs st with
    | error e => rfl
    | ok cs' => exact ih cs'

theorem wfHist_append (h1 h2 : List TEv) : wfHist (h1 ++ h2) = (wfHist h1 && wfHist h2) := by
  simp [wfHist]

/-- Master theorem: the reference checker accepts every run of the timed model. -/
theorem check_run_ok (cfg : Cfg) (hv : cfgValid cfg = true) (h : List TEv) (hw : wfHist h = true) :
    check cfg (Timed.run cfg h) = .ok :=
  checkFrom_runFrom cfg hv h _ {} 0 hw (trel_init cfg)

/-! ### 8. What acceptance by the observer implies (facts about `TimedSpec` alone) -/

theorem onFired_other {cs : S} {target : Nat} {f : Fired} {cs' : S}
    (h : onFired cs target f = .ok cs') {r : Role} (hr : r ≠ f.role) : cs'.get r = cs.get r := by
  obtain ⟨ft, fr, fh, fo⟩ := f
  unfold onFired at h
  dsimp only at h hr
  repeat' split at h
  all_goals cases h
  all_goals (cases r <;> cases fr <;> simp_all [S.get, S.set])

theorem onFired_self {cs : S} {target : Nat} {f : Fired} {cs' : S}
    (h : onFired cs target f = .ok cs') :
    (cs.get f.role).up = true ∧ cs.now ≤ f.time ∧ f.time ≤ target ∧
    (f.isHold = true → hasHoldDown f.role f.outs = true ∧ cs'.get f.role = {} ∧
        ((cs.get f.role).confirmed = true →
          (cs.get f.role).neg ≠ 0 ∧ f.time = (cs.get f.role).lastRx + (cs.get f.role).neg)) ∧
    (f.isHold = false → (cs.get f.role).confirmed = true ∧ (cs.get f.role).neg ≠ 0 ∧
        f.time = (cs.get f.role).lastKa + (cs.get f.role).neg / 3 ∧
        hasKeepalive f.role f.outs = true ∧
        cs'.get f.role = { cs.get f.role with lastKa := f.time }) := by
  obtain ⟨ft, fr, fh, fo⟩ := f
  unfold onFired at h
  dsimp only at h ⊢
  repeat' split at h
  all_goals cases h
  all_goals (cases fr <;> simp_all [S.get, S.set] <;> omega)

theorem onFiredAll_cons {cs : S} {target : Nat} {f : Fired} {fs : List Fired} {cs' : S}
    (h : onFiredAll cs target (f :: fs) = .ok cs') :
    ∃ cs1, onFired cs target f = .ok cs1 ∧ onFiredAll cs1 target fs = .ok cs' := by
  simp only [onFiredAll] at h
  cases h1 : onFired cs target f with
  | error e => rw [h1] at h; cases h
  | ok cs1 => rw [h1] at h; exact ⟨cs1, rfl, h⟩

/-- A role the observer does not consider live gets no firing and stays as it is. -/
theorem onFiredAll_dead (target : Nat) : ∀ (fs : List Fired) (cs cs' : S) (r : Role),
    onFiredAll cs target fs = .ok cs' → (cs.get r).up = false →
    (∀ f ∈ fs, f.role ≠ r) ∧ cs'.get r = cs.get r := by
  intro fs
  induction fs with
  | nil => intro cs cs' r h _; simp only [onFiredAll] at h; cases h; simp
  | cons f rest ih =>
    intro cs cs' r h hup
    obtain ⟨cs1, h1, h2⟩ := onFiredAll_cons h
    have hne : f.role ≠ r := by
      intro he; have := (onFired_self h1).1; rw [he, hup] at this; cases this
    have e1 := onFired_other h1 (Ne.symm hne)
    obtain ⟨k1, k2⟩ := ih cs1 cs' r h2 (by rw [e1]; exact hup)
    refine ⟨?_, by rw [k2, e1]⟩
    intro f' hf'
    rcases List.mem_cons.1 hf' with rfl | hf'
    · exact hne
    · exact k1 f' hf'

/-- Negotiated hold time zero: the observer accepts no firing for that role. -/
theorem onFiredAll_zero (target : Nat) : ∀ (fs : List Fired) (cs cs' : S) (r : Role),
    onFiredAll cs target fs = .ok cs' →
    (cs.get r).confirmed = true → (cs.get r).neg = 0 →
    (∀ f ∈ fs, f.role ≠ r) ∧ cs'.get r = cs.get r := by
  intro fs
  induction fs with
  | nil => intro cs cs' r h _ _; simp only [onFiredAll] at h; cases h; simp
  | cons f rest ih =>
    intro cs cs' r h hcf hz
    obtain ⟨cs1, h1, h2⟩ := onFiredAll_cons h
    have hne : f.role ≠ r := by
      intro he
      obtain ⟨-, -, -, k1, k2⟩ := onFired_self h1
      rw [he] at k1 k2
      cases hh : f.isHold with
      | true => exact ((k1 hh).2.2 hcf).1 hz
      | false => exact (k2 hh).2.1 hz
    have e1 := onFired_other h1 (Ne.symm hne)
    obtain ⟨k1, k2⟩ := ih cs1 cs' r h2 (by rw [e1]; exact hcf) (by rw [e1]; exact hz)
    refine ⟨?_, by rw [k2, e1]⟩
    intro f' hf'
    rcases List.mem_cons.1 hf' with rfl | hf'
    · exact hne
    · exact k1 f' hf'

/-- Negotiated hold time `n ≠ 0`: either the role's hold timer never fires in the list and its
    record keeps `lastRx`/`neg`, or it fires exactly at `lastRx + n` with a hold-expiry SessionDown. -/
theorem onFiredAll_nonzero (target : Nat) : ∀ (fs : List Fired) (cs cs' : S) (r : Role),
    onFiredAll cs target fs = .ok cs' →
    (cs.get r).up = true → (cs.get r).confirmed = true → (cs.get r).neg ≠ 0 →
    ((∀ f ∈ fs, f.role = r → f.isHold = false) ∧ (cs'.get r).up = true ∧
        (cs'.get r).confirmed = true ∧ (cs'.get r).neg = (cs.get r).neg ∧
        (cs'.get r).lastRx = (cs.get r).lastRx) ∨
    ((∃ f ∈ fs, f.role = r ∧ f.isHold = true ∧ f.time = (cs.get r).lastRx + (cs.get r).neg ∧
        f.time ≤ target ∧ hasHoldDown r f.outs = true) ∧ cs'.get r = {}) := by
  intro fs
  induction fs with
  | nil =>
    intro cs cs' r h hup hcf hne
    simp only [onFiredAll] at h; cases h
    exact Or.inl ⟨by simp, hup, hcf, rfl, rfl⟩
  | cons f rest ih =>
    intro cs cs' r h hup hcf hne
    obtain ⟨cs1, h1, h2⟩ := onFiredAll_cons h
    by_cases he : f.role = r
    · obtain ⟨-, -, ht, k1, k2⟩ := onFired_self h1
      rw [he] at k1 k2
      cases hh : f.isHold with
      | true =>
        obtain ⟨a1, a2, a3⟩ := k1 hh
        obtain ⟨-, a4⟩ := a3 hcf
        have hdead := onFiredAll_dead target rest cs1 cs' r h2 (by rw [a2])
        exact Or.inr ⟨⟨f, List.mem_cons_self, he, hh, a4, ht, a1⟩, by rw [hdead.2, a2]⟩
      | false =>
        obtain ⟨-, -, -, -, a5⟩ := k2 hh
        rcases ih cs1 cs' r h2 (by rw [a5]; exact hup) (by rw [a5]; exact hcf) (by rw [a5]; exact hne) with
          ⟨b1, b2, b3, b4, b5⟩ | ⟨⟨f', hf', c1, c2, c3, c4, c5⟩, b2⟩
        · refine Or.inl ⟨?_, b2, b3, by rw [b4, a5], by rw [b5, a5]⟩
          intro f' hf' hr'
          rcases List.mem_cons.1 hf' with rfl | hf'
          · exact hh
          · exact b1 f' hf' hr'
        · refine Or.inr ⟨⟨f', List.mem_cons_of_mem _ hf', c1, c2, ?_, c4, c5⟩, b2⟩
          rw [c3, a5]
    · have e1 := onFired_other h1 (Ne.symm he)
      rcases ih cs1 cs' r h2 (by rw [e1]; exact hup) (by rw [e1]; exact hcf) (by rw [e1]; exact hne) with
        ⟨b1, b2, b3, b4, b5⟩ | ⟨⟨f', hf', c1, c2, c3, c4, c5⟩, b2⟩
      · refine Or.inl ⟨?_, b2, b3, by rw [b4, e1], by rw [b5, e1]⟩
        intro f' hf' hr'
        rcases List.mem_cons.1 hf' with rfl | hf'
        · exact absurd hr' he
        · exact b1 f' hf' hr'
      · refine Or.inr ⟨⟨f', List.mem_cons_of_mem _ hf', c1, c2, ?_, c4, c5⟩, b2⟩
        rw [c3, e1]

/-- Every accepted hold-timer firing of a confirmed role with hold time `n ≠ 0` happens exactly
    at `lastRx + n` and shows the hold-expiry SessionDown. -/
theorem hold_fire_time {target : Nat} : ∀ {fs : List Fired} {cs cs' : S} {r : Role},
    onFiredAll cs target fs = .ok cs' →
    (cs.get r).up = true → (cs.get r).confirmed = true → (cs.get r).neg ≠ 0 →
    ∀ {f : Fired}, f ∈ fs → f.role = r → f.isHold = true →
    f.time = (cs.get r).lastRx + (cs.get r).neg ∧ hasHoldDown r f.outs = true := by
  intro fs
  induction fs with
  | nil => intro cs cs' r _ _ _ _ f hf; cases hf
  | cons g rest ih =>
    intro cs cs' r h hup hcf hne f hf hr hh
    obtain ⟨cs1, h1, h2⟩ := onFiredAll_cons h
    rcases List.mem_cons.1 hf with rfl | hf
    · obtain ⟨-, -, -, k1, -⟩ := onFired_self h1
      rw [hr] at k1
      obtain ⟨a1, -, a3⟩ := k1 hh
      exact ⟨(a3 hcf).2, a1⟩
    · by_cases hg : g.role = r
      · obtain ⟨-, -, -, k1, k2⟩ := onFired_self h1
        rw [hg] at k1 k2
        cases hgh : g.isHold with
        | true =>
          have hdead := onFiredAll_dead target rest cs1 cs' r h2 (by rw [(k1 hgh).2.1])
          exact absurd hr (hdead.1 f hf)
        | false =>
          obtain ⟨-, -, -, -, a5⟩ := k2 hgh
          have := ih h2 (by rw [a5]; exact hup) (by rw [a5]; exact hcf) (by rw [a5]; exact hne) hf hr hh
          rw [a5] at this
          exact this
      · have e1 := onFired_other h1 (Ne.symm hg)
        have := ih h2 (by rw [e1]; exact hup) (by rw [e1]; exact hcf) (by rw [e1]; exact hne) hf hr hh
        rw [e1] at this
        exact this

/-- The list of firings a `wait d` produces in state `s`. -/
def firedOf (s : TState) (d : Nat) : List Fired := (advance (2 * d + 8) s (s.now + d) []).2

/-- The outputs of an ordinary event step. -/
def outsOf (s : TState) (r : Role) (e : Ev) : List POut := outsOfObs (arbStep s.peer r e).2

theorem tstep_wait_obs (s : TState) (d : Nat) : (tstep s (.wait d)).2 = .fired (firedOf s d) := rfl
theorem tstep_ev_obs (s : TState) (r : Role) (e : Ev) :
    (tstep s (.ev r e)).2 = .step (arbStep s.peer r e).2 := rfl

theorem stepOk_ev_inv {cfg : Cfg} {s : TState} {cs cs' : S} {r : Role} {e : Ev}
    (h : stepOk cfg cs (mkStep s (.ev r e)) = .ok cs') :
    hasHoldDown r (outsOf s r e) = false ∧
    cs' = syncDown (cs.set r (updR cfg cs.now (cs.get r) e ((tstep s (.ev r e)).1.peer.state r)))
            (mkStep s (.ev r e)) := by
  simp only [stepOk, mkStep, onEv_eq, tstep_ev_obs] at h
  cases hh : hasHoldDown r (outsOfObs (arbStep s.peer r e).2) with
  | true => rw [hh] at h; simp at h
  | false =>
    rw [hh] at h
    simp only [Bool.false_eq_true, if_false, Except.ok.injEq] at h
    refine ⟨hh, ?_⟩
    rw [← h]
    congr 3
    cases r <;> rfl

theorem ite_error_ok {c : Prop} [Decidable c] {e : String} {v w : S}
    (h : (if c then Except.error e else Except.ok v) = Except.ok w) : v = w := by
  split at h
  · cases h
  · injection h

theorem stepOk_wait_inv {cfg : Cfg} {s : TState} {cs cs' : S} {d : Nat}
    (h : stepOk cfg cs (mkStep s (.wait d)) = .ok cs') :
    ∃ cs1, onFiredAll cs (cs.now + d) (firedOf s d) = .ok cs1 ∧
      overdue cs1 .active (cs.now + d) = none ∧ overdue cs1 .passive (cs.now + d) = none ∧
      cs' = { cs1 with now := cs.now + d } := by
  simp only [stepOk, mkStep, onWait, tstep_wait_obs] at h
  cases h1 : onFiredAll cs (cs.now + d) (firedOf s d) with
  | error e => rw [h1] at h; cases h
  | ok cs1 =>
    rw [h1] at h
    dsimp only at h
    cases h2 : overdue cs1 .active (cs.now + d) with
    | some e => rw [h2] at h; cases h
    | none =>
      cases h3 : overdue cs1 .passive (cs.now + d) with
      | some e => rw [h2, h3] at h; cases h
      | none =>
        rw [h2, h3] at h
        dsimp only at h
        exact ⟨cs1, rfl, h2, h3, (ite_error_ok h).symm⟩

/-! ### 9. "Hold timer expired" only ever comes from the hold timer -/

theorem conn_no_holdExpired (c : Conn) (i : Input) (hi : i ≠ .holdTimer) (n : Option Notif) :
    Out.down .holdExpired n ∉ (c.process i).2 := by
  rcases i with _ | m | _ | _ | _ | _ | _
  all_goals try (rcases m with o | _ | _ | _ | _)
  case holdTimer => exact absurd rfl hi
  all_goals
    simp only [Conn.process, Conn.onMessage, Conn.onConnected, Conn.onOpen, Conn.onKeepalive, Conn.onUpdate,
      Conn.onNotification, Conn.onRouteRefresh, Conn.onKaTimer, Conn.onUpdateSent, Conn.onDisconnected,
      Conn.onAdminShutdown, Conn.rearmHold, downLocal]
    repeat' split
    all_goals simp

/-- "Hold timer expired" is never reported by a step that is not the hold timer firing. -/
theorem no_holdExpired (p : Peer) (r : Role) (i : Input) (hi : i ≠ .holdTimer) (r'' : Role)
    (n : Option Notif) : POut.conn r'' (.down .holdExpired n) ∉ (p.process r i).2 := by
  by_cases hcon : ∃ b, i = .connected b
  · obtain ⟨b, rfl⟩ := hcon
    simp only [Peer.process, Peer.onConnected]
    split
    · simp
    · simp [Conn.onConnected]; split <;> simp
  · have hc : ∀ b, i ≠ .connected b := fun b hb => hcon ⟨b, hb⟩
    cases hconn : p.connection r with
    | none => rw [process_none p r i hconn hc]; simp
    | some c =>
      rw [process_some p r i c hconn hc]
      have hk := conn_no_holdExpired c i hi n
      unfold procBody
      dsimp only
      repeat' split
      all_goals simp [downLocal, hk]
      all_goals (intro x hx hh; cases hh; exact hk hx)

theorem ev_no_holdExpired (s : TState) (r : Role) (e : Ev) (he : e ≠ .input .holdTimer) (r'' : Role)
    (n : Option Notif) : POut.conn r'' (.down .holdExpired n) ∉ outsOf s r e := by
  unfold outsOf
  cases e with
  | input i =>
    simp only [arbStep, outsOfObs]
    exact no_holdExpired s.peer r i (fun h => he (by rw [h])) r'' n
  | rawOpen o =>
    simp only [arbStep]
    cases parseOpen o with
    | ok m => simp only [outsOfObs]; exact no_holdExpired s.peer r _ (by intro h; cases h) r'' n
    | error x => simp only [outsOfObs]; exact no_holdExpired s.peer r _ (by intro h; cases h) r'' n

/-! ### 10. The untimed (C07) invariant carries over to timed runs -/

theorem peer_applyOne (r : Role) (s : TState) (o : POut) : (applyOne r s o).peer = s.peer := by
  cases o with
  | conn r' o =>
    cases o <;> simp [applyOne]
    split <;> simp
  | _ => rfl

theorem peer_applyOuts (r : Role) (outs : List POut) : ∀ s : TState, (applyOuts r s outs).peer = s.peer := by
  induction outs with
  | nil => intro s; rfl
  | cons o rest ih => intro s; rw [applyOuts_cons, ih, peer_applyOne]

theorem fire_peer (s : TState) (dl : Nat) (r : Role) (isHold : Bool) :
    (fire s dl r isHold).1.peer =
      (arbStep s.peer r (.input (if isHold then .holdTimer else .kaTimer))).1 := by
  simp [fire, peer_applyOuts, arbStep]

theorem advance_inv (cfg : Cfg) (target : Nat) : ∀ (fuel : Nat) (s : TState) (acc : List Fired),
    Inv cfg s.peer → Inv cfg (advance fuel s target acc).1.peer := by
  intro fuel
  induction fuel with
  | zero => intro s acc h; exact h
  | succ n ih =>
    intro s acc h
    cases hnd : nextDue s target with
    | none => rw [advance_succ_none hnd]; exact h
    | some x =>
      obtain ⟨dl, r, isHold⟩ := x
      rw [advance_succ_some hnd]
      apply ih
      rw [fire_peer]
      exact inv_step cfg s.peer r _ h

theorem tstep_inv (cfg : Cfg) (s : TState) (e : TEv) (h : Inv cfg s.peer) : Inv cfg (tstep s e).1.peer := by
  cases e with
  | ev r e =>
    have : (tstep s (.ev r e)).1.peer = (arbStep s.peer r e).1 := by
      simp only [tstep]
      rw [peer_applyOuts]
      split <;> simp
    rw [this]; exact inv_step cfg s.peer r e h
  | wait d => exact advance_inv cfg (s.now + d) (2 * d + 8) s [] h

/-- Peers reached in timed runs satisfy the C07 invariant (well-formed slots, at most one
    connection in OpenConfirm-or-Established) — for every history, well-formed or not. -/
theorem reach_inv (cfg : Cfg) : ∀ (h : List TEv) (s : TState), Inv cfg s.peer → Inv cfg (reach s h).peer := by
  intro h
  induction h with
  | nil => intro s hs; exact hs
  | cons e rest ih => intro s hs; exact ih _ (tstep_inv cfg s e hs)

/-! ### 11. Timer probe: the model's reading of `Set*Timer` passes the behavioural oracle -/

theorem probe_slots (outs : List POut) (hp : ∀ o ∈ outs, probeOut o = true) : ∀ s : TState,
    (applyOuts .passive s outs).now = s.now ∧
    (applyOuts .passive s outs).p.hold =
      (match lastSet true outs with
       | none => s.p.hold
       | some 0 => none
       | some n => some (s.now + n)) ∧
    (applyOuts .passive s outs).p.ka =
      (match lastSet false outs with
       | none => s.p.ka
       | some n => some (s.now + n)) := by
  induction outs with
  | nil => intro s; simp [lastSet]
  | cons o rest ih =>
    intro s
    have hrest : ∀ o ∈ rest, probeOut o = true := fun x hx => hp x (List.mem_cons_of_mem _ hx)
    have ho := hp o List.mem_cons_self
    obtain ⟨i1, i2, i3⟩ := ih hrest (applyOne .passive s o)
    rw [applyOuts_cons]
    have hnow : (applyOne .passive s o).now = s.now := by
      cases o with
      | conn r x => cases x <;> simp [applyOne, probeOut] at ho ⊢
      | _ => simp [applyOne]
    refine ⟨i1.trans hnow, ?_, ?_⟩
    · rw [i2, hnow]
      simp only [lastSet]
      cases hl : lastSet true rest with
      | some n => cases n <;> simp
      | none =>
        cases o with
        | conn r x =>
          cases x <;> simp [applyOne, probeOut, TState.setSlots, TState.slots, arm] at ho ⊢
          case setHold n => cases n <;> simp
        | _ => simp [applyOne]
    · rw [i3, hnow]
      simp only [lastSet]
      cases hl : lastSet false rest with
      | some n => simp
      | none =>
        cases o with
        | conn r x =>
          cases x <;> simp [applyOne, probeOut, TState.setSlots, TState.slots, arm] at ho ⊢
        | _ => simp [applyOne]

/-- The model's probe observation is accepted by the behavioural oracle for every list of
    probe outputs. -/
theorem probe_ok (outs : List POut) (hp : ∀ o ∈ outs, probeOut o = true) :
    probeCheck outs (probe outs) = none := by
  obtain ⟨-, h2, h3⟩ := probe_slots outs hp { peer := Peer.init default }
  unfold probeCheck probe
  simp only [h2, h3]
  cases lastSet true outs with
  | none =>
    cases lastSet false outs with
    | none => simp [slotObs]
    | some k => cases k <;> simp [slotObs]
  | some n =>
    cases n with
    | zero =>
      cases lastSet false outs with
      | none => simp [slotObs]
      | some k => cases k <;> simp [slotObs]
    | succ n =>
      cases lastSet false outs with
      | none => simp [slotObs]
      | some k => cases k <;> simp [slotObs]

end Rbgp.Fsm.TimedProofs
