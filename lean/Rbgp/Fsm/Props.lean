/-
  Rbgp.Fsm.Props — C07, the readable statements.

  Everything here is about the MODEL (`Rbgp.Fsm.Model`) and holds for every configuration and
  every finite history of events over both roles.  "Reachable state" always means
  `(runFrom (Peer.init cfg) h).1` for an arbitrary history `h`.

  The proofs are corollaries of `Rbgp.Fsm.Proofs`:
    * `step_sim`     – one model step is accepted by the reference `Spec.stepOk` and keeps `Rel`;
    * `reachable_inv`– reachable states satisfy `Inv` (well-formed slots, ≤ 1 confirmed);
    * `process_spec` – on such states `Peer.process` yields the reference successor states and
                       shows the outputs the reference demands.
-/
import Rbgp.Fsm.Proofs
namespace Rbgp.Fsm.Props
open Rbgp.Fsm Rbgp.Fsm.Spec

/-! ## 0. The reference checker accepts every run -/

/-- For every configuration and every finite history over both roles, the reference checker
    written from the property text accepts the run of the model. -/
theorem check_run_ok (cfg : Cfg) (h : List (Role × Ev)) : Spec.check cfg (run cfg h) = .ok :=
  Rbgp.Fsm.check_run_ok cfg h

/-- Reachable states satisfy the invariant `Inv` (see `Proofs.lean`). -/
theorem reachable_inv (cfg : Cfg) (h : List (Role × Ev)) :
    Inv cfg (runFrom (Peer.init cfg) h).1 :=
  Rbgp.Fsm.reachable_inv cfg h

/-! ## 1. At most one connection is in OpenConfirm-or-Established -/

theorem at_most_one_confirmed (cfg : Cfg) (h : List (Role × Ev)) :
    let p := (runFrom (Peer.init cfg) h).1
    ¬ ((p.state .active = .openConfirm ∨ p.state .active = .established) ∧
       (p.state .passive = .openConfirm ∨ p.state .passive = .established)) :=
  inv_at_most_one cfg _ (reachable_inv cfg h)

/-! ## 2. Established only through OPEN sent, acceptable OPEN received, KEEPALIVE -/

/-- A role is Established after a step only if it already was, or the step is a KEEPALIVE
    for that role in OpenConfirm. -/
theorem established_only_via_handshake (cfg : Cfg) (h : List (Role × Ev))
    (r r' : Role) (i : Input) :
    let p := (runFrom (Peer.init cfg) h).1
    (p.process r i).1.state r' = .established →
      p.state r' = .established ∨
      (r' = r ∧ p.state r = .openConfirm ∧ i = .msg .keepalive) :=
  inv_established_via cfg _ (reachable_inv cfg h) r r' i

/-- A role is in OpenConfirm after a step only if it already was, or the step is an OPEN with
    the expected AS for that role in OpenSent.  (Identifier and hold-time validity are enforced
    before the FSM, by `parseOpen`; see `invalid_open_never_confirms`.) -/
theorem openConfirm_only_via_open (cfg : Cfg) (h : List (Role × Ev))
    (r r' : Role) (i : Input) :
    let p := (runFrom (Peer.init cfg) h).1
    (p.process r i).1.state r' = .openConfirm →
      p.state r' = .openConfirm ∨
      (r' = r ∧ p.state r = .openSent ∧
        ∃ o, i = .msg (.open o) ∧ (p.cfg.expectedAsn = 0 ∨ p.cfg.expectedAsn = o.asn)) :=
  inv_openConfirm_via cfg _ (reachable_inv cfg h) r r' i

/-- A role is in OpenSent after a step only if it already was, or the step is `connected`
    for that role in Idle (which is when our OPEN is sent). -/
theorem openSent_only_via_connected (cfg : Cfg) (h : List (Role × Ev))
    (r r' : Role) (i : Input) :
    let p := (runFrom (Peer.init cfg) h).1
    (p.process r i).1.state r' = .openSent →
      p.state r' = .openSent ∨ (r' = r ∧ p.state r = .idle ∧ ∃ b, i = .connected b) :=
  inv_openSent_via cfg _ (reachable_inv cfg h) r r' i

/-- A wire OPEN with an invalid hold time or identifier never reaches the FSM as an OPEN:
    the arbiter step leaves the role in Idle. -/
theorem invalid_open_never_confirms (cfg : Cfg) (h : List (Role × Ev)) (r : Role) (o : RawOpen)
    (hbad : validHold o.hold = false ∨ validId o.rid = false) :
    let p := (runFrom (Peer.init cfg) h).1
    (arbStep p r (.rawOpen o)).1.state r = .idle := by
  intro p
  have hi := reachable_inv cfg h
  have hpe : ∃ n, parseOpen o = .error n := by
    unfold parseOpen
    rcases hbad with hb | hb
    · simp [validHold_false hb]
    · by_cases hh : o.hold = 1 ∨ o.hold = 2 <;> simp [hh, badRouterId_iff, hb]
  obtain ⟨n, hn⟩ := hpe
  have : (arbStep p r (.rawOpen o)).1 = (p.process r .disconnected).1 := by
    simp [arbStep, hn]
  rw [this]
  exact (inv_down_frees cfg p hi r .disconnected trivial).1

/-- **End-to-end trace property.**  If role `r` is Established at the end of a history `h`, then
    `h` contains, for that role and in this order,
      * at position `i` a `connected` that found the slot free (Idle before it) — after which the
        role is OpenSent (our OPEN was sent: `check_run_ok`, clause `sentOpen`) at every position
        up to `j`,
      * at position `j` an acceptable OPEN (`AcceptableOpen`: expected AS; for a wire OPEN also a
        valid hold time and identifier, `acceptable_rawOpen`) — OpenConfirm at every position up to `k`,
      * at position `k` a KEEPALIVE — Established at every position from there to the end;
    so there is no tear-down of that connection anywhere between `i` and the end.
    (`stateAt cfg h r m` is the state of `r` after the first `m` events; `evInput` maps a wire OPEN
    to the parsed OPEN it becomes.) -/
theorem established_trace (cfg : Cfg) (h : List (Role × Ev)) (r : Role)
    (he : (runFrom (Peer.init cfg) h).1.state r = .established) :
    ∃ i j k, ∃ hi : i < h.length, ∃ hj : j < h.length, ∃ hk : k < h.length, i < j ∧ j < k ∧
      h[i].1 = r ∧ (∃ b, evInput h[i].2 = .connected b) ∧ stateAt cfg h r i = .idle ∧
      (∀ m, i < m → m ≤ j → stateAt cfg h r m = .openSent) ∧
      h[j].1 = r ∧ AcceptableOpen cfg h[j].2 ∧
      (∀ m, j < m → m ≤ k → stateAt cfg h r m = .openConfirm) ∧
      h[k].1 = r ∧ evInput h[k].2 = .msg .keepalive ∧
      (∀ m, k < m → m ≤ h.length → stateAt cfg h r m = .established) := by
  have hs : stateAt cfg h r h.length = .established := by
    unfold stateAt; rw [List.take_length]; exact he
  have := phases_all cfg h r h.length (Nat.le_refl _)
  rw [hs] at this
  obtain ⟨i, j, k, hi, hj, hk, a1, a2, a3, a4, a5, a6, a7, a8, a9, a10, a11, a12, a13⟩ := this
  exact ⟨i, j, k, hi, hj, hk, a1, a2, a4, a5, a6, a7, a8, a9, a10, a11, a12, a13⟩

/-- What "acceptable" means for an OPEN that arrived on the wire. -/
theorem acceptable_wire_open {cfg : Cfg} {o : RawOpen} (h : AcceptableOpen cfg (.rawOpen o)) :
    validHold o.hold = true ∧ validId o.rid = true ∧ (cfg.expectedAsn = 0 ∨ cfg.expectedAsn = o.asn) :=
  acceptable_rawOpen h

/-! ## 3. A message not allowed in the current state ⇒ FSM-error NOTIFICATION with that state -/

/-- `NotAllowed st m` (from `Proofs.lean`): OPEN when `st ≠ OpenSent`; KEEPALIVE when `st` is
    neither OpenConfirm nor Established (for reachable non-Idle states: `st = OpenSent`);
    UPDATE / ROUTE-REFRESH when `st ≠ Established`. -/
theorem unexpected_msg_fsm_error (cfg : Cfg) (h : List (Role × Ev)) (r : Role) (m : Msg) :
    let p := (runFrom (Peer.init cfg) h).1
    p.state r ≠ .idle → NotAllowed (p.state r) m →
      POut.conn r (.down (.localNotif (5, (p.state r).code)) (some (5, (p.state r).code)))
          ∈ (p.process r (.msg m)).2 ∧
      (p.process r (.msg m)).1.state r = .idle :=
  inv_unexpected cfg _ (reachable_inv cfg h) r m

/-! ## 4. NOTIFICATION / hold expiry / disconnect / admin shutdown ⇒ Idle, slot freed -/

/-- `IsDown i` (from `Proofs.lean`): `i` is a received NOTIFICATION, `holdTimer`,
    `disconnected` or `adminShutdown`.  (No `state r ≠ idle` side condition is needed:
    on a free slot these inputs are ignored and the slot stays free.) -/
theorem down_frees_slot (cfg : Cfg) (h : List (Role × Ev)) (r : Role) (i : Input) :
    let p := (runFrom (Peer.init cfg) h).1
    IsDown i →
      (p.process r i).1.state r = .idle ∧ (p.process r i).1.connection r = none :=
  inv_down_frees cfg _ (reachable_inv cfg h) r i

/-- A free slot accepts a new attempt. -/
theorem connected_after_down_accepted (p : Peer) (r : Role) (b : Bool)
    (h : p.connection r = none) :
    (p.process r (.connected b)).1.state r = .openSent :=
  connected_on_free_slot p r b h

/-- Both together: after any tear-down input, a subsequent `connected` is accepted. -/
theorem reconnect_after_down (cfg : Cfg) (h : List (Role × Ev)) (r : Role) (i : Input) (b : Bool) :
    let p := (runFrom (Peer.init cfg) h).1
    IsDown i → ((p.process r i).1.process r (.connected b)).1.state r = .openSent := by
  intro p hd
  exact connected_after_down_accepted _ r b (down_frees_slot cfg h r i hd).2

/-! ## 5. Collision resolution -/

/-- An Established connection survives whatever happens on the other role's connection. -/
theorem established_survives_newcomer (cfg : Cfg) (h : List (Role × Ev)) (r : Role) (i : Input) :
    let p := (runFrom (Peer.init cfg) h).1
    p.state r.other = .established → (p.process r i).1.state r.other = .established :=
  inv_established_survives cfg _ (reachable_inv cfg h) r i

/-- Two OpenConfirm candidates: the survivor is the connection initiated by the speaker with
    the higher BGP identifier (`active` iff `localRid > o.rid`); the loser goes to Idle and is
    sent Cease/collision (6,7) — as a `sendNotif` diverted to the other connection when the
    loser is not the caller, as a `down` with that NOTIFICATION when the caller itself loses. -/
theorem collision_survivor (cfg : Cfg) (h : List (Role × Ev)) (r : Role) (o : OpenMsg) :
    let p := (runFrom (Peer.init cfg) h).1
    let q := p.process r (.msg (.open o))
    let loser : Role := if p.cfg.localRid > o.rid then .passive else .active
    p.state r = .openSent → p.state r.other = .openConfirm →
    (p.cfg.expectedAsn = 0 ∨ p.cfg.expectedAsn = o.asn) →
      q.1.state loser.other = .openConfirm ∧ q.1.state loser = .idle ∧
      (if loser = r then POut.conn r (.down (.localNotif (6, 7)) (some (6, 7))) ∈ q.2
       else POut.conn loser (.sendNotif (6, 7)) ∈ q.2) := by
  intro p q loser h1 h2 hok
  exact inv_collision cfg p (reachable_inv cfg h) r o h1 h2 hok

/-- The same, spelled out per case as in the property text. -/
theorem collision_survivor_cases (cfg : Cfg) (h : List (Role × Ev)) (r : Role) (o : OpenMsg) :
    let p := (runFrom (Peer.init cfg) h).1
    let q := p.process r (.msg (.open o))
    p.state r = .openSent → p.state r.other = .openConfirm →
    (p.cfg.expectedAsn = 0 ∨ p.cfg.expectedAsn = o.asn) →
      (p.cfg.localRid > o.rid →
        q.1.state .active = .openConfirm ∧ q.1.state .passive = .idle) ∧
      (¬ p.cfg.localRid > o.rid →
        q.1.state .passive = .openConfirm ∧ q.1.state .active = .idle) := by
  intro p q h1 h2 hok
  have hc := inv_collision cfg p (reachable_inv cfg h) r o h1 h2 hok
  constructor
  · intro hgt
    have hl : collisionLoser p.cfg o = .passive := by simp [collisionLoser, hgt]
    rw [hl] at hc
    exact ⟨hc.1, hc.2.1⟩
  · intro hle
    have hl : collisionLoser p.cfg o = .active := by simp [collisionLoser, hle]
    rw [hl] at hc
    exact ⟨hc.1, hc.2.1⟩

/-! ## 6. Non-vacuity: concrete reachable states satisfying the hypotheses above -/

section Witnesses

def cfg0 : Cfg := { localRid := 10, localAsn := 65001, localHold := 90, expectedAsn := 65002 }
/-- acceptable OPEN from a speaker with a lower identifier -/
def openLo : OpenMsg := { asn := 65002, hold := 90, rid := 5 }
/-- acceptable OPEN from a speaker with a higher identifier -/
def openHi : OpenMsg := { asn := 65002, hold := 90, rid := 77 }
def rawLo : RawOpen := { asn := 65002, hold := 90, rid := 5 }

/-- active: connected, OPEN received ⇒ OpenConfirm -/
def hOC : List (Role × Ev) :=
  [(.active, .input (.connected false)), (.active, .rawOpen rawLo)]
/-- active: full handshake ⇒ Established -/
def hEst : List (Role × Ev) := hOC ++ [(.active, .input (.msg .keepalive))]
/-- active in OpenConfirm, passive in OpenSent -/
def hColl : List (Role × Ev) := hOC ++ [(.passive, .input (.connected false))]
/-- active Established, passive in OpenSent -/
def hEstNew : List (Role × Ev) := hEst ++ [(.passive, .input (.connected false))]

def pOf (h : List (Role × Ev)) : Peer := (runFrom (Peer.init cfg0) h).1

-- the checker is not trivially `ok` on an empty trace: these runs have 2–4 steps
example : (run cfg0 hEstNew).length = 4 := by decide

-- established_only_via_handshake: the premise is satisfiable, through the second disjunct
example : ((pOf hOC).process .active (.msg .keepalive)).1.state .active = .established ∧
    (pOf hOC).state .active = .openConfirm := by decide

-- openConfirm_only_via_open
example : ((pOf [(.active, .input (.connected false))]).process .active (.msg (.open openLo))).1.state
      .active = .openConfirm ∧
    (pOf [(.active, .input (.connected false))]).state .active = .openSent := by decide

-- openSent_only_via_connected
example : ((pOf []).process .passive (.connected false)).1.state .passive = .openSent ∧
    (pOf []).state .passive = .idle := by decide

-- invalid_open_never_confirms (hold time 1; identifier 0) on a role in OpenSent
example : validHold 1 = false ∧ validId 0 = false ∧
    (pOf [(.active, .input (.connected false))]).state .active = .openSent := by decide

-- unexpected_msg_fsm_error: every kind of disallowed message, in every non-Idle state
example : (pOf [(.active, .input (.connected false))]).state .active = .openSent ∧
    NotAllowed .openSent .keepalive ∧ NotAllowed .openSent .update ∧
    NotAllowed .openSent (.routeRefresh 1) := by
  refine ⟨by decide, ?_, ?_, ?_⟩ <;> simp [NotAllowed]
example : (pOf hOC).state .active = .openConfirm ∧
    NotAllowed .openConfirm (.open openLo) ∧ NotAllowed .openConfirm .update := by
  refine ⟨by decide, ?_, ?_⟩ <;> simp [NotAllowed]
example : (pOf hEst).state .active = .established ∧ NotAllowed .established (.open openLo) := by
  refine ⟨by decide, ?_⟩; simp [NotAllowed]

-- down_frees_slot: each tear-down input, on an occupied slot
example : IsDown (.msg (.notification 6 4)) ∧ IsDown .holdTimer ∧ IsDown .disconnected ∧
    IsDown .adminShutdown ∧ (pOf hEst).state .active = .established := by
  refine ⟨trivial, trivial, trivial, trivial, by decide⟩

-- connected_after_down_accepted
example : ((pOf hEst).process .active .holdTimer).1.connection .active = none := by decide

-- established_survives_newcomer: the newcomer even completes its OPEN exchange
example : (pOf hEstNew).state Role.passive.other = .established ∧
    (pOf hEstNew).state .passive = .openSent := by decide

-- collision_survivor: caller (passive) loses / caller (passive) wins and active is sent Cease
example : (pOf hColl).state .passive = .openSent ∧
    (pOf hColl).state Role.passive.other = .openConfirm ∧
    ((pOf hColl).cfg.expectedAsn = 0 ∨ (pOf hColl).cfg.expectedAsn = openLo.asn) ∧
    (pOf hColl).cfg.localRid > openLo.rid ∧ ¬ (pOf hColl).cfg.localRid > openHi.rid := by decide
-- … and the symmetric situation with the active connection as the late caller
example : let p := pOf [(.passive, .input (.connected false)), (.passive, .rawOpen rawLo),
                         (.active, .input (.connected false))]
    p.state .active = .openSent ∧ p.state Role.active.other = .openConfirm := by decide

-- The conclusions, computed on these witnesses (sanity check of the statements' reading):
-- late passive caller loses to the active OpenConfirm (10 > 5): `down` with Cease/collision,
-- and no `StateChanged(Idle)` output follows it (see the note in `Spec.sees`).
example : ((pOf hColl).process .passive (.msg (.open openLo))).2.getLast? =
    some (POut.conn .passive (.down (.localNotif (6, 7)) (some (6, 7)))) := by decide
-- late passive caller wins (10 < 77): the active connection is sent Cease/collision
example : POut.conn .active (.sendNotif (6, 7)) ∈
      ((pOf hColl).process .passive (.msg (.open openHi))).2 ∧
    ((pOf hColl).process .passive (.msg (.open openHi))).1.state .active = .idle ∧
    ((pOf hColl).process .passive (.msg (.open openHi))).1.state .passive = .openConfirm := by
  decide
-- newcomer against Established: the newcomer is torn down, Established stays
example : ((pOf hEstNew).process .passive (.msg (.open openHi))).1.state .active = .established ∧
    ((pOf hEstNew).process .passive (.msg (.open openHi))).1.state .passive = .idle := by decide

end Witnesses

/-! ## 7. Axioms -/

/-- `established_trace` is not vacuous: a history ending with the active role Established. -/
example : (runFrom (Peer.init { localRid := 10, localAsn := 65001, localHold := 90, expectedAsn := 65002 })
    [(.passive, .input .holdTimer), (.active, .input (.connected false)),
     (.active, .rawOpen { asn := 65002, hold := 30, rid := 5 }), (.passive, .input (.connected false)),
     (.active, .input (.msg .keepalive)), (.active, .input (.msg .update))]).1.state .active = .established := by
  decide

#print axioms check_run_ok
#print axioms reachable_inv
#print axioms at_most_one_confirmed
#print axioms established_only_via_handshake
#print axioms openConfirm_only_via_open
#print axioms openSent_only_via_connected
#print axioms invalid_open_never_confirms
#print axioms unexpected_msg_fsm_error
#print axioms down_frees_slot
#print axioms connected_after_down_accepted
#print axioms reconnect_after_down
#print axioms established_survives_newcomer
#print axioms collision_survivor
#print axioms collision_survivor_cases
#print axioms established_trace
#print axioms acceptable_wire_open

end Rbgp.Fsm.Props
