/- Term encoding of FSM cases and observations (shared by C07/C08 drivers). -/
import Rbgp.Term
import Rbgp.Fsm.Model
namespace Rbgp.Fsm.Codec
open Rbgp Rbgp.Term Rbgp.Fsm

def stateT : State → Term
  | .idle => sym "idle" | .connect => sym "connect" | .active => sym "active"
  | .openSent => sym "opensent" | .openConfirm => sym "openconfirm" | .established => sym "established"
def stateOf? : Term → Option State
  | .atom "idle" => some .idle | .atom "connect" => some .connect | .atom "active" => some .active
  | .atom "opensent" => some .openSent | .atom "openconfirm" => some .openConfirm
  | .atom "established" => some .established
  | _ => none

def roleT : Role → Term
  | .active => sym "A" | .passive => sym "P"
def roleOf? : Term → Option Role
  | .atom "A" => some .active | .atom "P" => some .passive | _ => none

def notifT (n : Notif) : Term := list [nat n.1, nat n.2]
def notifOf? : Term → Option Notif
  | .list [a, b] => do pure ((← asNat? a), (← asNat? b))
  | _ => none

def reasonT : DownReason → Term
  | .holdExpired => sym "hold-expired"
  | .remoteNotif n => tag "remote-notif" [notifT n]
  | .localNotif n => tag "local-notif" [notifT n]
  | .fsmError => sym "fsm-error"
  | .adminShutdown => sym "admin-shutdown"
  | .ioError => sym "io-error"
def reasonOf? : Term → Option DownReason
  | .atom "hold-expired" => some .holdExpired
  | .list [.atom "remote-notif", n] => (notifOf? n).map .remoteNotif
  | .list [.atom "local-notif", n] => (notifOf? n).map .localNotif
  | .atom "fsm-error" => some .fsmError
  | .atom "admin-shutdown" => some .adminShutdown
  | .atom "io-error" => some .ioError
  | _ => none

def outT : Out → Term
  | .sendOpen a h r => tag "send-open" [nat a, nat h, nat r]
  | .sendKeepalive => sym "send-keepalive"
  | .sendNotif n => tag "send-notif" [notifT n]
  | .setKa n => tag "set-ka" [nat n]
  | .setHold n => tag "set-hold" [nat n]
  | .negotiated => sym "negotiated"
  | .established a r h => tag "established" [nat a, nat r, nat h]
  | .down r n => tag "down" [reasonT r, opt notifT n]
  | .stateChanged s => tag "state" [stateT s]
  | .routeRefresh f => tag "route-refresh" [nat f]
def outOf? : Term → Option Out
  | .list [.atom "send-open", a, h, r] => do pure (.sendOpen (← asNat? a) (← asNat? h) (← asNat? r))
  | .atom "send-keepalive" => some .sendKeepalive
  | .list [.atom "send-notif", n] => (notifOf? n).map .sendNotif
  | .list [.atom "set-ka", n] => (asNat? n).map .setKa
  | .list [.atom "set-hold", n] => (asNat? n).map .setHold
  | .atom "negotiated" => some .negotiated
  | .list [.atom "established", a, r, h] => do pure (.established (← asNat? a) (← asNat? r) (← asNat? h))
  | .list [.atom "down", r, n] => do pure (.down (← reasonOf? r) (← asOpt? notifOf? n))
  | .list [.atom "state", s] => (stateOf? s).map .stateChanged
  | .list [.atom "route-refresh", f] => (asNat? f).map .routeRefresh
  | _ => none

def poutT : POut → Term
  | .conn r o => tag "conn" [roleT r, outT o]
  | .closeConnection => sym "close-connection"
  | .stopActiveConnect => sym "stop-active-connect"
def poutOf? : Term → Option POut
  | .list [.atom "conn", r, o] => do pure (.conn (← roleOf? r) (← outOf? o))
  | .atom "close-connection" => some .closeConnection
  | .atom "stop-active-connect" => some .stopActiveConnect
  | _ => none

def evT : Ev → Term
  | .input (.connected b) => tag "connected" [bool b]
  | .input (.msg (.open o)) => tag "open-parsed" [nat o.asn, nat o.hold, nat o.rid]
  | .input (.msg .keepalive) => sym "keepalive"
  | .input (.msg .update) => sym "update"
  | .input (.msg (.notification c s)) => tag "notification" [nat c, nat s]
  | .input (.msg (.routeRefresh f)) => tag "route-refresh" [nat f]
  | .input .kaTimer => sym "ka-timer"
  | .input .holdTimer => sym "hold-timer"
  | .input .disconnected => sym "disconnected"
  | .input .adminShutdown => sym "admin-shutdown"
  | .input .updateSent => sym "update-sent"
  | .rawOpen o => tag "open" [nat o.asn, nat o.hold, nat o.rid]
def evOf? : Term → Option Ev
  | .list [.atom "connected", b] => (asBool? b).map fun b => .input (.connected b)
  | .list [.atom "open-parsed", a, h, r] => do
      pure (.input (.msg (.open { asn := (← asNat? a), hold := (← asNat? h), rid := (← asNat? r) })))
  | .atom "keepalive" => some (.input (.msg .keepalive))
  | .atom "update" => some (.input (.msg .update))
  | .list [.atom "notification", c, s] => do pure (.input (.msg (.notification (← asNat? c) (← asNat? s))))
  | .list [.atom "route-refresh", f] => do pure (.input (.msg (.routeRefresh (← asNat? f))))
  | .atom "ka-timer" => some (.input .kaTimer)
  | .atom "hold-timer" => some (.input .holdTimer)
  | .atom "disconnected" => some (.input .disconnected)
  | .atom "admin-shutdown" => some (.input .adminShutdown)
  | .atom "update-sent" => some (.input .updateSent)
  | .list [.atom "open", a, h, r] => do
      pure (.rawOpen { asn := (← asNat? a), hold := (← asNat? h), rid := (← asNat? r) })
  -- wire OPEN with separate My-AS field and optional 4-octet-AS capability
  | .list [.atom "open-wire", a2, c4, h, r] => do
      let cap4 ← asOpt? asNat? (match c4 with | .atom "none" => c4 | t => .list [.atom "some", t])
      pure (.rawOpen { asn := effectiveAs (← asNat? a2) cap4, hold := (← asNat? h), rid := (← asNat? r) })
  | _ => none

def cfgT (c : Cfg) : Term := tag "cfg" [nat c.localRid, nat c.localAsn, nat c.localHold, nat c.expectedAsn]
def cfgOf? : Term → Option Cfg
  | .list [.atom "cfg", a, b, c, d] => do
      pure { localRid := (← asNat? a), localAsn := (← asNat? b), localHold := (← asNat? c), expectedAsn := (← asNat? d) }
  | _ => none

def obsT : Obs → Term
  | .fsm o => tag "fsm" [ofList poutT o]
  | .parseReject n o => tag "parse-reject" [notifT n, ofList poutT o]
def obsOf? : Term → Option Obs
  | .list [.atom "fsm", o] => (asListOf? poutOf? o).map .fsm
  | .list [.atom "parse-reject", n, o] => do pure (.parseReject (← notifOf? n) (← asListOf? poutOf? o))
  | _ => none

/-- One observed step (the event is taken from the case, not repeated). -/
def stepObsT (s : Step) : Term := list [obsT s.obs, stateT s.stA, stateT s.stP]

def hevOf? : Term → Option (Role × Ev)
  | .list [r, e] => do pure ((← roleOf? r), (← evOf? e))
  | _ => none

/-- `(case (cfg ..) (evs (A ev) (P ev) ...))` -/
def caseOf? : Term → Option (Cfg × List (Role × Ev))
  | .list [.atom "case", c, .list (.atom "evs" :: evs)] => do
      pure ((← cfgOf? c), (← evs.mapM hevOf?))
  | _ => none

def traceT (tr : List Step) : Term := tag "trace" (tr.map stepObsT)

def zipSteps : List (Role × Ev) → List Term → Option (List Step)
  | [], [] => some []
  | (r, e) :: hs, .list [o, a, p] :: ts => do
      let rest ← zipSteps hs ts
      pure ({ role := r, ev := e, obs := (← obsOf? o), stA := (← stateOf? a), stP := (← stateOf? p) } :: rest)
  | _, _ => none

def traceOf? (h : List (Role × Ev)) : Term → Option (List Step)
  | .list (.atom "trace" :: ts) => zipSteps h ts
  | _ => none

end Rbgp.Fsm.Codec
