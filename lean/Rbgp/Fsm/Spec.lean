/-
  Rbgp.Fsm.Spec — C07 written from the property text as a reference checker
  over *observations* (inputs fed, outputs seen, per-role state reported).
  Imports the model only for its observation types; calls no model function.
-/
import Rbgp.Fsm.Model
namespace Rbgp.Fsm.Spec
open Rbgp.Fsm

/-- What the property lets an observer remember: the state of each role. -/
structure S where
  a : State := .idle
  p : State := .idle
  deriving DecidableEq, Repr, Inhabited

def S.get (s : S) : Role → State
  | .active => s.a
  | .passive => s.p
def S.set (s : S) (r : Role) (v : State) : S :=
  match r with
  | .active => { s with a := v }
  | .passive => { s with p := v }

def confirmed (s : State) : Bool := s = .openConfirm ∨ s = .established

/-- "acceptable OPEN received (expected AS, valid identifier and hold time)" -/
def validHold (h : Nat) : Bool := h ≠ 1 ∧ h ≠ 2
def validId (rid : Nat) : Bool :=
  rid ≠ 0 ∧ rid ≠ 4294967295 ∧ ¬ (224 ≤ rid / 16777216 ∧ rid / 16777216 ≤ 239)
def asOk (cfg : Cfg) (asn : Nat) : Bool := cfg.expectedAsn = 0 ∨ cfg.expectedAsn = asn

/-- NOTIFICATIONs that apply to an OPEN refused before it reaches the FSM: Unacceptable Hold Time
    (2,6), Bad BGP Identifier (2,3). -/
def applicable (o : RawOpen) : List Notif :=
  (if validHold o.hold then [] else [(2, 6)]) ++ (if validId o.rid then [] else [(2, 3)])

/-- What must be visible in the outputs of a step. -/
inductive Expect where
  | quiet                      -- no SessionDown, no state change
  | rejectNew                  -- CloseConnection, nothing else
  | sentOpen
  | toConfirm (loser : Option Role)
  | toEstablished
  | downLocal (n : Notif)      -- local NOTIFICATION n, then Idle
  | downRemote (n : Notif)
  | downHold
  | downIo
  | downAdmin
  | parseRejected (ns : List Notif)   -- refused before the FSM: any NOTIFICATION that applies
  deriving DecidableEq, Repr

def outsOf : Obs → List POut
  | .fsm o => o
  | .parseReject _ o => o

def hasDown (r : Role) (outs : List POut) : Bool :=
  outs.any fun o => match o with
    | .conn r' (.down _ _) => r' = r
    | _ => false

def anyDown (outs : List POut) : Bool :=
  outs.any fun o => match o with
    | .conn _ (.down _ _) => true
    | _ => false

def hasIdle (r : Role) (outs : List POut) : Bool :=
  outs.getLast? = some (POut.conn r (.stateChanged .idle))

def hasEstablishedOut (outs : List POut) : Bool :=
  outs.any fun o => match o with
    | .conn _ (.established ..) => true
    | .conn _ (.stateChanged .established) => true
    | _ => false

/-- Does the observation show what the property requires for this step? -/
def sees (r : Role) (obs : Obs) : Expect → Bool
  | .quiet => (match obs with | .fsm _ => true | _ => false) && !anyDown (outsOf obs)
              && !hasEstablishedOut (outsOf obs)
  | .rejectNew => obs = .fsm [POut.closeConnection]
  | .sentOpen =>
      (match obs with
       | .fsm (POut.conn r' (.sendOpen ..) :: _) => r' = r
       | _ => false) && !anyDown (outsOf obs) && !hasEstablishedOut (outsOf obs)
  | .toConfirm none => (match obs with | .fsm _ => true | _ => false)
      && !anyDown (outsOf obs) && !hasEstablishedOut (outsOf obs)
  | .toConfirm (some loser) =>
      (match obs with | .fsm _ => true | _ => false) && !hasEstablishedOut (outsOf obs) &&
      (if loser = r then
        -- (the state reported for r must be Idle; a `StateChanged(Idle)` *output* is not
        --  demanded here: the property speaks of the connection's state, not of that event)
        (outsOf obs).contains (POut.conn r (.down (.localNotif (6, 7)) (some (6, 7))))
       else
        (outsOf obs).contains (POut.conn loser (.sendNotif (6, 7))) && !anyDown (outsOf obs))
  | .toEstablished =>
      (match obs with | .fsm _ => true | _ => false) && !anyDown (outsOf obs)
      && (outsOf obs).contains (POut.conn r (.stateChanged .established))
  | .downLocal n =>
      (match obs with | .fsm _ => true | _ => false)
      && (outsOf obs).contains (POut.conn r (.down (.localNotif n) (some n)))
      && hasIdle r (outsOf obs) && !hasEstablishedOut (outsOf obs)
  | .downRemote n =>
      (match obs with | .fsm _ => true | _ => false)
      && (outsOf obs).contains (POut.conn r (.down (.remoteNotif n) none))
      && hasIdle r (outsOf obs) && !hasEstablishedOut (outsOf obs)
  | .downHold =>
      (match obs with | .fsm _ => true | _ => false)
      && (outsOf obs).contains (POut.conn r (.down .holdExpired (some (4, 0))))
      && hasIdle r (outsOf obs) && !hasEstablishedOut (outsOf obs)
  | .downIo =>
      (match obs with | .fsm _ => true | _ => false)
      && (outsOf obs).contains (POut.conn r (.down .ioError none))
      && hasIdle r (outsOf obs) && !hasEstablishedOut (outsOf obs)
  | .downAdmin =>
      (match obs with | .fsm _ => true | _ => false)
      && (outsOf obs).contains (POut.conn r (.down .adminShutdown (some (6, 2))))
      && hasIdle r (outsOf obs) && !hasEstablishedOut (outsOf obs)
  | .parseRejected ns =>
      (match obs with | .parseReject n' _ => ns.contains n' | _ => false)
      && !hasEstablishedOut (outsOf obs)

/-- The reference transition: next states and what must be seen.
    `cur` is the state of the role the event is for, `oth` the other role's. -/
def next (cfg : Cfg) (r : Role) (s : S) (ev : Ev) : S × Expect :=
  let cur := s.get r
  let oth := s.get r.other
  let unexpected : S × Expect := (s.set r .idle, .downLocal (5, cur.code))
  match ev with
  | .input (.connected _) =>
      if cur = .idle then (s.set r .openSent, .sentOpen) else (s, .rejectNew)
  | .rawOpen o =>
      -- an OPEN unacceptable for several reasons may be refused with any NOTIFICATION that applies
      -- (the order of the checks inside the parser is not the property's business)
      if ¬ validHold o.hold ∨ ¬ validId o.rid then (s.set r .idle, .parseRejected (applicable o))
      else if cur = .idle then (s, .quiet)
      else if cur ≠ .openSent then unexpected
      else if ¬ asOk cfg o.asn then (s.set r .idle, .downLocal (2, 2))
      else if confirmed oth then
        -- collision: Established survives; otherwise the connection initiated
        -- by the speaker with the higher identifier survives.
        let loser : Role :=
          if oth = .established then r
          else if cfg.localRid > o.rid then .passive else .active
        (((s.set r .openConfirm).set loser .idle), .toConfirm (some loser))
      else (s.set r .openConfirm, .toConfirm none)
  | .input (.msg (.open o)) =>
      -- already parsed OPEN (used by direct FSM histories)
      if cur = .idle then (s, .quiet)
      else if cur ≠ .openSent then unexpected
      else if ¬ asOk cfg o.asn then (s.set r .idle, .downLocal (2, 2))
      else if confirmed oth then
        let loser : Role :=
          if oth = .established then r
          else if cfg.localRid > o.rid then .passive else .active
        (((s.set r .openConfirm).set loser .idle), .toConfirm (some loser))
      else (s.set r .openConfirm, .toConfirm none)
  | .input (.msg .keepalive) =>
      match cur with
      | .idle => (s, .quiet)
      | .openConfirm => (s.set r .established, .toEstablished)
      | .established => (s, .quiet)
      | _ => unexpected
  | .input (.msg .update) | .input (.msg (.routeRefresh _)) =>
      match cur with
      | .idle => (s, .quiet)
      | .established => (s, .quiet)
      | _ => unexpected
  | .input (.msg (.notification c sc)) =>
      if cur = .idle then (s, .quiet) else (s.set r .idle, .downRemote (c, sc))
  | .input .holdTimer =>
      match cur with
      | .openSent | .openConfirm | .established => (s.set r .idle, .downHold)
      | _ => (s, .quiet)
  | .input .disconnected =>
      if cur = .idle then (s, .quiet) else (s.set r .idle, .downIo)
  | .input .adminShutdown =>
      if cur = .idle then (s, .quiet) else (s.set r .idle, .downAdmin)
  | .input .kaTimer | .input .updateSent => (s, .quiet)

inductive Verdict where
  | ok
  | fail (idx : Nat) (clause : String)
  deriving DecidableEq, Repr

/-- Check one observed step against the reference. -/
def stepOk (cfg : Cfg) (s : S) (st : Step) : Except String S :=
  let (s', ex) := next cfg st.role s st.ev
  if ¬ sees st.role st.obs ex then .error "outputs"
  else if st.stA ≠ s'.a ∨ st.stP ≠ s'.p then .error "state"
  else if confirmed s'.a ∧ confirmed s'.p then .error "two-confirmed"
  else .ok s'

def checkFrom (cfg : Cfg) (s : S) (i : Nat) : List Step → Verdict
  | [] => .ok
  | st :: rest =>
      match stepOk cfg s st with
      | .error c => .fail i c
      | .ok s' => checkFrom cfg s' (i + 1) rest

def check (cfg : Cfg) (tr : List Step) : Verdict := checkFrom cfg {} 0 tr

end Rbgp.Fsm.Spec
