/-
  Rbgp.Fsm.Wire — what a remote speaker (and a probe of the two timer collections) sees of the
  session driver, step by step: the driver-level reading of the FSM/timer model.

  A wire history is a list of actions of the remote speaker / operator / clock on the two TCP
  connections (roles) of one peer.  Each action is one `Timed.tstep` of the model (or none:
  `refused`, `no-conn`, `skipped`), and the observation is derived from that step's outputs:

    * frames the remote speaker of each role receives (OPEN, KEEPALIVE, NOTIFICATION, EOF), as
      `session_loop` really sends them: when a step ends a connection only the NOTIFICATION of the
      `SessionDown` goes out (messages queued by the same `apply_outputs` call are never flushed);
      a CEASE diverted to the other role's close channel is that role's NOTIFICATION + EOF;
    * the two role states;
    * (C08) per live connection: whether each timer was (re)set in this step and its deadline.

  The real side is harness/daemon/rig.rs (real accept_connection / ConnArbiter::process /
  run_select / apply_outputs / finish_session / apply_disconnect on loopback TCP).
-/
import Rbgp.Fsm.Timed
namespace Rbgp.Fsm.Wire
open Rbgp.Fsm Rbgp.Fsm.Timed

/-- The kinds of UPDATE frame a remote speaker may send; all are "an UPDATE received". -/
inductive UKind where
  | normal      -- ordinary announcement
  | looped      -- announcement whose AS_PATH contains the local AS (routes ignored)
  | attrsOnly   -- path attributes, no NLRI, no withdrawn routes
  | withdraw
  | eor
  deriving DecidableEq, Repr, Inhabited

inductive WAct where
  | connect
  | open (o : RawOpen)
  | keepalive
  | update (k : UKind)
  | notification (c s : Nat)
  | routeRefresh
  | close                 -- the remote speaker closes the TCP connection
  | adminShutdown
  | holdTimer             -- the hold timer becomes due
  | holdTimerKeepalive    -- the hold timer is due AND a KEEPALIVE is readable (timers are polled first)
  | kaTimer               -- the keepalive timer becomes due
  | reset                 -- operator: hard ResetPeer (`force_down` with Cease/peer-deconfigured, BOTH roles)
  | bfdDown               -- BFD session down (`force_down` with a silent close, BOTH roles)
  | wait (d : Nat)        -- `d` seconds pass (the runtime's clock; the role is irrelevant)
  deriving DecidableEq, Repr, Inhabited

/-- The FSM-level event an action amounts to. -/
def WAct.ev : WAct → Ev
  | .connect => .input (.connected false)
  | .open o => .rawOpen o
  | .keepalive => .input (.msg .keepalive)
  | .update _ => .input (.msg .update)
  | .notification c s => .input (.msg (.notification c s))
  | .routeRefresh => .input (.msg (.routeRefresh 1))
  | .close => .input .disconnected
  | .adminShutdown => .input .adminShutdown
  | .holdTimer => .input .holdTimer
  | .holdTimerKeepalive => .input .holdTimer
  | .kaTimer => .input .kaTimer
  | .reset => .input .disconnected      -- per live role: the task ends outside the FSM, then
  | .bfdDown => .input .disconnected    -- `apply_disconnect` feeds `Disconnected`
  | .wait _ => .input .disconnected     -- (not used: a wait is `TEv.wait`)

inductive Frame where
  | open_
  | keepalive
  | notif (n : Notif)
  | eof
  deriving DecidableEq, Repr, Inhabited

inductive WKind where
  | step
  | refused    -- `connect` while that role's connection exists: accept_connection refuses it
  | noConn     -- action on a role that has no connection: nothing to act on
  | skipped    -- keepalive-timer expiry requested while that timer cannot be running
  deriving DecidableEq, Repr, Inhabited

/-- Timer probe of one live connection (`none` deadline = the disabled, far-future sleep). -/
structure Tm where
  holdSet : Bool
  hold : Option Nat
  kaSet : Bool
  ka : Option Nat
  /-- a timer collection with no element (never in the model; its `.next()` is ready at once) -/
  emptySlot : Bool := false
  deriving DecidableEq, Repr, Inhabited

structure WStep where
  kind : WKind
  toA : List Frame
  toP : List Frame
  stA : State
  stP : State
  tmA : Option Tm
  tmP : Option Tm
  /-- what the rig reports besides (never in the model): the driver does not come to rest, a close
      channel and its connection disagree -/
  anomalies : List String := []
  /-- timer expiries during a `wait`: (time in seconds since the start, role, hold timer?) -/
  fired : List (Nat × Role × Bool) := []
  deriving DecidableEq, Repr, Inhabited

def outsFor (r : Role) (outs : List POut) : List Out :=
  outs.filterMap fun
    | .conn r' o => if r' = r then some o else none
    | _ => none

def frameOfOut : Out → List Frame
  | .sendOpen .. => [.open_]
  | .sendKeepalive => [.keepalive]
  | .sendNotif n => [.notif n, .eof]
  | _ => []

/-- Frames the remote speaker of role `r` receives because of one step of role `acting`. -/
def framesFor (r acting : Role) : Obs → List Frame
  | .parseReject n _ => if r = acting then [.notif n, .eof] else []
  | .fsm outs =>
      let mine := outsFor r outs
      match mine.find? Peer.isDown with
      | some (.down _ (some n)) => [.notif n, .eof]
      | some _ => [.eof]
      | none => mine.flatMap frameOfOut

def isSetHold : Out → Bool
  | .setHold _ => true
  | _ => false
def isSetKa : Out → Bool
  | .setKa _ => true
  | _ => false

def tmFor (s : TState) (r acting : Role) (outs : List POut) : Option Tm :=
  match s.peer.connection r with
  | none => none
  | some _ =>
      let mine := if r = acting then outsFor r outs else []
      -- deadlines are reported relative to the current time
      some { holdSet := mine.any isSetHold, hold := (s.slots r).hold.map (· - s.now),
             kaSet := mine.any isSetKa, ka := (s.slots r).ka.map (· - s.now) }

def confirmedState (s : State) : Bool := s = .openConfirm ∨ s = .established

def idleStep (k : WKind) (s : TState) : WStep :=
  { kind := k, toA := [], toP := [], stA := s.peer.state .active, stP := s.peer.state .passive,
    tmA := tmFor s .active .active [], tmP := tmFor s .passive .passive [] }

/-- Does the UPDATE carry NLRI or withdrawn routes? -/
def UKind.hasRoutes : UKind → Bool
  | .normal | .looped | .withdraw => true
  | .attrsOnly | .eor => false

/-- Before the OPEN exchange `PeerCodec` has no address family to parse NLRI with: an UPDATE that
    carries routes is refused by `try_parse` with UPDATE Message Error / Malformed Attribute List
    (3,1), bypassing the FSM like every parse error (finding F07-update-before-open-exchange). -/
def preOpenParseError (s : TState) (r : Role) : WAct → Bool
  | .update k => k.hasRoutes && s.peer.state r = .openSent
  | _ => false

/-- One action as the session task performs it. -/
def wireStep (s : TState) (r : Role) (a : WAct) : TState × TObs :=
  if preOpenParseError s r a then
    let (p', outs) := s.peer.process r .disconnected
    let s1 : TState := ({ s with peer := p' } : TState).setSlots r {}
    (applyOuts r s1 outs, .step (.parseReject (3, 1) outs))
  else tstep s (.ev r a.ev)

/-- NOTIFICATION a peer-level `force_down` makes every live session send before closing. -/
def WAct.forceDown? : WAct → Option (Option Notif)
  | .reset => some (some (6, 3))
  | .bfdDown => some none
  | _ => none

/-- `force_down`: every live session of the peer is told to close through its close channel (so
    the FSM is not asked); the task ends, and `apply_disconnect` frees the slot. -/
def peerDown (s : TState) (n : Option Notif) : TState × WStep :=
  let one (s : TState) (r : Role) : TState × List Frame :=
    if (s.peer.connection r).isSome then
      ((tstep s (.ev r (.input .disconnected))).1,
       match n with | some n => [.notif n, .eof] | none => [.eof])
    else (s, [])
  let (s1, fa) := one s .active
  let (s2, fp) := one s1 .passive
  (s2, { kind := .step, toA := fa, toP := fp, stA := s2.peer.state .active, stP := s2.peer.state .passive,
         tmA := tmFor s2 .active .active [], tmP := tmFor s2 .passive .passive [] })

/-- `d` seconds pass: the timers that become due fire in time order (`Timed.advance`); a keepalive
    expiry puts a KEEPALIVE on the wire, a hold expiry NOTIFICATION (4,0) and the close. -/
def waitStep (s : TState) (d : Nat) : TState × WStep :=
  match tstep s (.wait d) with
  | (s', .fired fs) =>
      let fr (r : Role) : List Frame :=
        fs.flatMap fun f => if f.role = r then framesFor r f.role (.fsm f.outs) else []
      let outs (r : Role) : List POut := fs.flatMap fun f => if f.role = r then f.outs else []
      (s', { kind := .step, toA := fr .active, toP := fr .passive,
             stA := s'.peer.state .active, stP := s'.peer.state .passive,
             tmA := tmFor s' .active .active (outs .active), tmP := tmFor s' .passive .passive (outs .passive),
             fired := fs.map fun f => (f.time, f.role, f.isHold) })
  | (s', .step _) => (s', idleStep .step s')   -- unreachable

def wstep (s : TState) (r : Role) (a : WAct) : TState × WStep :=
  match a with
  | .wait d => waitStep s d
  | _ =>
  match a.forceDown? with
  | some n => peerDown s n
  | none =>
  let live := (s.peer.connection r).isSome
  if a = .connect ∧ live then (s, idleStep .refused s)
  else if a ≠ .connect ∧ ¬ live then (s, idleStep .noConn s)
  else if a = .kaTimer ∧ ¬ confirmedState (s.peer.state r) then (s, idleStep .skipped s)
  else
    match wireStep s r a with
    | (s1, .step o) =>
        -- On entering Established the session registers with the table, dumps it and sends
        -- End-of-RIB in the same turn: `flush_tx` then feeds `UpdateSent` to the FSM.
        let entered := s.peer.state r ≠ .established ∧ s1.peer.state r = .established
        let (s', outs) :=
          if entered then
            match tstep s1 (.ev r (.input .updateSent)) with
            | (s2, .step o2) => (s2, outsOfObs o ++ outsOfObs o2)
            | (s2, _) => (s2, outsOfObs o)
          else (s1, outsOfObs o)
        (s', { kind := .step, toA := framesFor .active r o, toP := framesFor .passive r o,
               stA := s'.peer.state .active, stP := s'.peer.state .passive,
               tmA := tmFor s' .active r outs, tmP := tmFor s' .passive r outs })
    | (s', .fired _) => (s', idleStep .step s')   -- unreachable: `tstep` on an event is a `.step`

def runFrom (s : TState) : List (Role × WAct) → List WStep
  | [] => []
  | (r, a) :: rest =>
      let (s', st) := wstep s r a
      st :: runFrom s' rest

def run (cfg : Cfg) (h : List (Role × WAct)) : List WStep := runFrom { peer := Peer.init cfg } h

end Rbgp.Fsm.Wire
