/-
  Rbgp.Fsm.WireSpec — C07 and C08 judged at the wire: a reference checker over what the remote
  speakers receive, the role states, and (C08) the timer probes, written from the two property
  texts.  It re-uses the C07 reference transition `Spec.next` (states and what a step must show)
  and calls no model function.

  C07: connected ⇒ our OPEN is sent; an unacceptable OPEN ⇒ a NOTIFICATION that applies to it, the
  connection is closed and the slot freed; an unexpected message ⇒ FSM-error NOTIFICATION carrying
  the state; NOTIFICATION / hold expiry / disconnect / admin shutdown ⇒ closed (with the right
  NOTIFICATION, none towards a peer that sent one or vanished), slot freed, a new attempt is
  accepted; collision ⇒ the loser receives Cease/collision (6,7) and is closed, the survivor is
  untouched; a second connection of a role whose slot is taken is refused.

  C08: every KEEPALIVE and every UPDATE received on an Established connection that stays up
  re-arms the hold timer (to the negotiated value when that is not zero); nothing else does;
  negotiated zero ⇒ both timers disabled.
-/
import Rbgp.Fsm.Spec
import Rbgp.Fsm.TimedSpec
import Rbgp.Fsm.Wire
namespace Rbgp.Fsm.WireSpec
open Rbgp.Fsm Rbgp.Fsm.Spec Rbgp.Fsm.Wire Rbgp.Fsm.Timed

/-- What the observer tracks: the C07 reference state plus the hold time in force per role. -/
structure W where
  s : Spec.S := {}
  negA : Nat := 0
  negP : Nat := 0
  /-- the C08 observer's record (clock, last KEEPALIVE/UPDATE/OPEN received, last keepalive-timer
      start, hold time in force), advanced with `TimedSpec.onEv` / `TimedSpec.onWait` -/
  t : TimedSpec.S := {}
  deriving DecidableEq, Repr, Inhabited

def W.neg (w : W) : Role → Nat
  | .active => w.negA
  | .passive => w.negP
def W.setNeg (w : W) (r : Role) (n : Nat) : W :=
  match r with
  | .active => { w with negA := n }
  | .passive => { w with negP := n }

def framesOf (st : WStep) : Role → List Frame
  | .active => st.toA
  | .passive => st.toP
def tmOf (st : WStep) : Role → Option Tm
  | .active => st.tmA
  | .passive => st.tmP

def closedWith (fs : List Frame) (n : Option Notif) : Bool :=
  match n with
  | some n => fs = [.notif n, .eof]
  | none => fs = [.eof]

def noClose (fs : List Frame) : Bool :=
  fs.all fun f => match f with
    | .eof => false
    | .notif _ => false
    | _ => true

/-- An UPDATE carrying routes received in OpenSent (for which the FSM error (5,3) is due). -/
def preOpenUpdate (a : WAct) (n : Notif) : Bool :=
  match a with
  | .update .normal | .update .looped | .update .withdraw => n = (5, 3)
  | _ => false

/-- Do the frames show what the property requires for this step (`ex` from `Spec.next`)? -/
def seesWire (r : Role) (a : WAct) (st : WStep) : Expect → Option String
  | .quiet =>
      if noClose st.toA && noClose st.toP then none else some "quiet-step-closed-a-connection"
  | .rejectNew => some "second-connection-reached-the-fsm"
  | .sentOpen =>
      if (framesOf st r).head? ≠ some .open_ then some "open-not-sent"
      else if noClose (framesOf st r) && noClose (framesOf st r.other) then none
      else some "connect-closed-a-connection"
  | .toConfirm none =>
      if noClose (framesOf st r) && noClose (framesOf st r.other) then none
      else some "open-accepted-but-connection-closed"
  | .toConfirm (some loser) =>
      if ¬ closedWith (framesOf st loser) (some (6, 7)) then some "collision-loser-not-sent-cease"
      else if noClose (framesOf st loser.other) then none
      else some "collision-survivor-closed"
  | .toEstablished =>
      if noClose (framesOf st r) && noClose (framesOf st r.other) then none
      else some "established-but-connection-closed"
  | .downLocal n =>
      if closedWith (framesOf st r) (some n) && noClose (framesOf st r.other) then none
      else if preOpenUpdate a n && closedWith (framesOf st r) (some (3, 1)) then
        -- known deviation, classified apart (finding F07-update-before-open-exchange)
        some "update-before-open-exchange-answered-with-update-error"
      else some "local-error-notification"
  | .parseRejected ns =>
      if ns.any (fun n => closedWith (framesOf st r) (some n)) && noClose (framesOf st r.other) then none
      else some "unacceptable-open-notification"
  | .downRemote _ =>
      if closedWith (framesOf st r) none && noClose (framesOf st r.other) then none
      else some "notification-received-close"
  | .downHold =>
      if closedWith (framesOf st r) (some (4, 0)) && noClose (framesOf st r.other) then none
      else some "hold-expiry-close"
  | .downIo =>
      if closedWith (framesOf st r) none && noClose (framesOf st r.other) then none
      else some "disconnect-close"
  | .downAdmin =>
      if closedWith (framesOf st r) (some (6, 2)) && noClose (framesOf st r.other) then none
      else some "admin-shutdown-close"

def isRx : WAct → Bool
  | .keepalive => true
  | .update _ => true
  | _ => false

/-- Hold time in force after this step for role `r'`. -/
def negAfter (cfg : Cfg) (w : W) (r : Role) (a : WAct) (before after : Spec.S) (r' : Role) : Nat :=
  if r' = r ∧ before.get r' = .openSent ∧ after.get r' = .openConfirm then
    match a with
    | .open o => min cfg.localHold o.hold
    | _ => w.neg r'
  else w.neg r'

def timerCheck (cfg : Cfg) (w : W) (r : Role) (a : WAct) (before after : Spec.S) (st : WStep)
    (r' : Role) : Option String :=
  match tmOf st r' with
  | none => if after.get r' = .idle then none else some "timer-probe-missing"
  | some tm =>
      if tm.emptySlot then some "timer-collection-empty"
      else if after.get r' = .idle then some "timer-probe-of-closed-connection"
      else if ¬ confirmed (after.get r') then
        -- OpenSent: the property does not fix the initial timer; the keepalive timer must not run
        if tm.ka ≠ none then some "keepalive-timer-before-open-exchange" else none
      else
        let n := negAfter cfg w r a before after r'
        if n = 0 then
          if tm.hold ≠ none ∨ tm.ka ≠ none then some "zero-hold-time-but-timer-armed" else none
        else if r' = r ∧ before.get r' = .openSent then
          -- the OPEN exchange: both timers armed with the negotiated values
          if tm.hold ≠ some n then some "hold-timer-not-the-negotiated-value"
          else if tm.ka ≠ some (n / 3) then some "keepalive-interval-not-a-third"
          else none
        else if r' = r ∧ isRx a then
          if ¬ tm.holdSet then
            (match a with
             | .keepalive => some "keepalive-received-but-hold-timer-not-rearmed"
             | _ => some "update-received-but-hold-timer-not-rearmed")
          else if tm.hold ≠ some n then some "hold-timer-not-the-negotiated-value"
          else none
        else
          -- (the deadline itself is judged by `deadlineCheck`)
          if tm.holdSet then some "hold-timer-rearmed-by-something-else" else none

def tstepOf (st : WStep) (ev : TEv) (obs : TObs) : TStep :=
  { ev := ev, obs := obs, stA := st.stA, stP := st.stP }

/-- Advance the C08 observer's record over an ordinary action (the frames are judged elsewhere:
    the record only needs the event and the reported states). -/
def trackEv (cfg : Cfg) (t : TimedSpec.S) (r : Role) (a : WAct) (before : Spec.S) (st : WStep) :
    Except String TimedSpec.S :=
  match TimedSpec.onEv cfg t r a.ev (tstepOf st (.ev r a.ev) (.step (.fsm []))) with
  | .error e => .error e
  | .ok t1 =>
      let after := if r = .active then st.stA else st.stP
      -- entering Established: End-of-RIB goes out in the same turn, which restarts the keepalive timer
      let t2 : Except String TimedSpec.S :=
        if before.get r ≠ .established ∧ after = .established then
          TimedSpec.onEv cfg t1 r (.input .updateSent) (tstepOf st (.ev r (.input .updateSent)) (.step (.fsm [])))
        else .ok t1
      match t2 with
      | .error e => .error e
      | .ok t2 =>
          -- a keepalive-timer expiry restarts that timer
          if a = .kaTimer ∧ (t2.get r).up then .ok (t2.set r { t2.get r with lastKa := t2.now }) else .ok t2

/-- C08, general form: for a confirmed connection with hold time `n ≠ 0` in force the hold timer
    is due `n` after the last KEEPALIVE/UPDATE/OPEN received and the keepalive timer `n / 3` after
    its last start. -/
def deadlineCheck (t : TimedSpec.S) (st : WStep) (r' : Role) : Option String :=
  let x := t.get r'
  match tmOf st r' with
  | none => none
  | some tm =>
      if x.up ∧ x.confirmed ∧ x.neg ≠ 0 then
        if tm.hold ≠ some (x.lastRx + x.neg - t.now) then some "hold-deadline-not-last-received-plus-hold-time"
        else if tm.ka ≠ some (x.lastKa + x.neg / 3 - t.now) then some "keepalive-deadline-not-last-start-plus-a-third"
        else none
      else none

def impliedFrames (fired : List (Nat × Role × Bool)) (r : Role) : List Frame :=
  fired.flatMap fun (_, r', h) =>
    if r' = r then (if h then [Frame.notif (4, 0), Frame.eof] else [Frame.keepalive]) else []

/-- `d` seconds pass. -/
def waitOk (timers : Bool) (w : W) (d : Nat) (st : WStep) : Except String W :=
  let fs : List Fired := st.fired.map fun (tm, r, h) =>
    { time := tm, role := r, isHold := h,
      outs := if h then [POut.conn r (.down .holdExpired (some (4, 0)))] else [POut.conn r .sendKeepalive] }
  if st.kind ≠ .step then .error "malformed-observation"
  else if st.toA ≠ impliedFrames st.fired .active ∨ st.toP ≠ impliedFrames st.fired .passive then
    .error "frames-during-wait-do-not-match-the-timer-expiries"
  else
    match TimedSpec.onWait w.t d (tstepOf st (.wait d) (.fired fs)) with
    | .error e => .error e
    | .ok t' =>
        let s' : Spec.S := { a := if t'.a.up then w.s.a else .idle, p := if t'.p.up then w.s.p else .idle }
        if st.stA ≠ s'.a ∨ st.stP ≠ s'.p then .error "state"
        else
          let w' : W := { w with s := s', t := t' }
          if timers then
            match deadlineCheck t' st .active, deadlineCheck t' st .passive with
            | some e, _ => .error e
            | none, some e => .error e
            | none, none =>
                if (st.tmA.isSome ≠ (s'.a ≠ .idle)) ∨ (st.tmP.isSome ≠ (s'.p ≠ .idle)) then
                  .error "timer-probe-missing"
                else .ok w'
          else .ok w'

def stepOk (cfg : Cfg) (frames timers : Bool) (w : W) (r : Role) (a : WAct) (st : WStep) :
    Except String W :=
  let cur := w.s.get r
  match st.anomalies with
  | e :: _ => .error e
  | [] =>
  match a with
  | .wait d => waitOk timers w d st
  | _ =>
  if ¬ st.fired.isEmpty then .error "malformed-observation" else
  match a.forceDown? with
  | some n =>
      -- every session of the peer ends (with that NOTIFICATION, if any); whatever ends a session
      -- frees its slot for a new attempt
      let closedOk (r' : Role) : Bool :=
        if w.s.get r' = .idle then framesOf st r' = [] else closedWith (framesOf st r') n
      if st.kind ≠ .step then .error "malformed-observation"
      else if st.stA ≠ .idle ∨ st.stP ≠ .idle then .error "slot-not-freed-after-session-end"
      else if frames && !(closedOk .active && closedOk .passive) then .error "forced-down-close"
      else if timers && (st.tmA.isSome || st.tmP.isSome) then .error "timer-probe-of-closed-connection"
      else
        match trackEv cfg w.t r a w.s st with
        | .error e => .error e
        | .ok t' => .ok { w with s := {}, t := t' }
  | none =>
  match st.kind with
  | .refused =>
      if a ≠ .connect then .error "malformed-observation"
      else if cur = .idle then .error "new-attempt-refused-on-free-slot"
      else if st.stA ≠ w.s.a ∨ st.stP ≠ w.s.p then .error "state"
      else if noClose st.toA && noClose st.toP then .ok w else .error "refusal-closed-a-connection"
  | .noConn =>
      if a = .connect then .error "malformed-observation"
      else if cur ≠ .idle then .error "connection-lost-without-a-reason"
      else if st.stA ≠ w.s.a ∨ st.stP ≠ w.s.p then .error "state"
      else .ok w
  | .skipped =>
      if a ≠ .kaTimer ∨ confirmed cur then .error "malformed-observation"
      else if st.stA ≠ w.s.a ∨ st.stP ≠ w.s.p then .error "state"
      else .ok w
  | .step =>
      if a = .connect ∧ cur ≠ .idle then .error "second-connection-accepted"
      else if a ≠ .connect ∧ cur = .idle then .error "event-on-a-free-slot"
      else
        let (s', ex) := Spec.next cfg r w.s a.ev
        if st.stA ≠ s'.a ∨ st.stP ≠ s'.p then
          -- a message not allowed in the current state that did not tear the connection down
          (match ex with
           | .downLocal (5, _) =>
               if (if r = .active then st.stA else st.stP) ≠ .idle then
                 .error "message-not-allowed-in-state-but-no-fsm-error"
               else .error "state"
           | _ => .error "state")
        else if confirmed s'.a ∧ confirmed s'.p then .error "two-confirmed"
        else
          match (if frames then seesWire r a st ex else none) with
          | some e => .error e
          | none =>
              match trackEv cfg w.t r a w.s st with
              | .error e => .error e
              | .ok t' =>
              let w' : W :=
                { s := s', negA := negAfter cfg w r a w.s s' .active,
                  negP := negAfter cfg w r a w.s s' .passive, t := t' }
              if timers then
                match timerCheck cfg w r a w.s s' st .active, timerCheck cfg w r a w.s s' st .passive,
                      deadlineCheck t' st .active, deadlineCheck t' st .passive with
                | some e, _, _, _ => .error e
                | none, some e, _, _ => .error e
                | none, none, some e, _ => .error e
                | none, none, none, some e => .error e
                | none, none, none, none => .ok w'
              else .ok w'

inductive Verdict where
  | ok
  | fail (idx : Nat) (clause : String)
  deriving DecidableEq, Repr

def checkFrom (cfg : Cfg) (frames timers : Bool) (w : W) (i : Nat) :
    List (Role × WAct) → List WStep → Verdict
  | [], [] => .ok
  | (r, a) :: hs, st :: sts =>
      match stepOk cfg frames timers w r a st with
      | .error c => .fail i c
      | .ok w' => checkFrom cfg frames timers w' (i + 1) hs sts
  | _, _ => .fail i "length"

/-- `frames`: judge what the remote speakers receive (C07); `timers`: judge the timer probes (C08).
    The role states are always compared with the reference. -/
def check (cfg : Cfg) (frames timers : Bool) (h : List (Role × WAct)) (tr : List WStep) : Verdict :=
  checkFrom cfg frames timers {} 0 h tr

end Rbgp.Fsm.WireSpec
