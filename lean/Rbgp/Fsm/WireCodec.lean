/- Term encoding of wire cases and observations (shared by the C07 and C08 drivers). -/
import Rbgp.Fsm.Codec
import Rbgp.Fsm.Wire
namespace Rbgp.Fsm.WireCodec
open Rbgp Rbgp.Term Rbgp.Fsm Rbgp.Fsm.Codec Rbgp.Fsm.Wire

def actOf? : Term → Option WAct
  | .atom "connect" => some .connect
  | .list [.atom "open", a, h, r] => do
      pure (.open { asn := (← asNat? a), hold := (← asNat? h), rid := (← asNat? r) })
  | .atom "keepalive" => some .keepalive
  | .atom "update" => some (.update .normal)
  | .atom "update-looped" => some (.update .looped)
  | .atom "update-attrs" => some (.update .attrsOnly)
  | .atom "update-withdraw" => some (.update .withdraw)
  | .atom "eor" => some (.update .eor)
  | .list [.atom "notification", c, s] => do pure (.notification (← asNat? c) (← asNat? s))
  | .atom "route-refresh" => some .routeRefresh
  | .atom "close" => some .close
  | .atom "admin-shutdown" => some .adminShutdown
  | .atom "hold-timer" => some .holdTimer
  | .atom "hold-timer+keepalive" => some .holdTimerKeepalive
  | .atom "ka-timer" => some .kaTimer
  | .atom "reset" => some .reset
  | .atom "bfd-down" => some .bfdDown
  | .list [.atom "wait", d] => (asNat? d).map .wait
  | _ => none

/-- Same well-formedness as the harness: field widths of OPEN / NOTIFICATION. -/
def actOk : WAct → Bool
  | .open o => o.asn ≤ 4294967295 && o.hold ≤ 65535 && o.rid ≤ 4294967295
  | .notification c s => c ≤ 255 && s ≤ 255
  | .wait d => d ≤ 200000
  | _ => true

def wevOf? : Term → Option (Role × WAct)
  | .list [r, a] => do
      let a ← actOf? a
      if actOk a then pure ((← roleOf? r), a) else none
  | _ => none

def cfgOk (c : Cfg) : Bool :=
  c.localRid ≤ 4294967295 && c.localAsn ≤ 4294967295 && c.expectedAsn ≤ 4294967295 &&
  (c.localHold == 0 || (3 ≤ c.localHold && c.localHold ≤ 65535))

def wireCaseOf? : Term → Option (Cfg × List (Role × WAct))
  | .list [.atom "wire", c, .list (.atom "evs" :: evs)] => do
      let cfg ← cfgOf? c
      if cfgOk cfg then pure (cfg, (← evs.mapM wevOf?)) else none
  | _ => none

def frameT : Frame → Term
  | .open_ => sym "open"
  | .keepalive => sym "keepalive"
  | .notif n => tag "notif" [nat n.1, nat n.2]
  | .eof => sym "eof"
def frameOf? : Term → Option Frame
  | .atom "open" => some .open_
  | .atom "keepalive" => some .keepalive
  | .list [.atom "notif", c, s] => do pure (.notif ((← asNat? c), (← asNat? s)))
  | .atom "eof" => some .eof
  | _ => none

def kindT : WKind → Term
  | .step => sym "step" | .refused => sym "refused" | .noConn => sym "no-conn" | .skipped => sym "skipped"
def kindOf? : Term → Option WKind
  | .atom "step" => some .step | .atom "refused" => some .refused
  | .atom "no-conn" => some .noConn | .atom "skipped" => some .skipped
  | _ => none

def armedT : Option Nat → Term
  | none => sym "far"
  | some n => nat n
/-- deadline, and whether the collection was empty -/
def armedOf? : Term → Option (Option Nat × Bool)
  | .atom "far" => some (none, false)
  | .atom "empty" => some (none, true)
  | t => (asNat? t).map fun n => (some n, false)

def setT (b : Bool) : Term := sym (if b then "set" else "kept")
def setOf? : Term → Option Bool
  | .atom "set" => some true | .atom "kept" => some false | _ => none

def tmT (name : String) : Option Tm → Term
  | none => tag "tm" [sym name, sym "none"]
  | some t => tag "tm" [sym name, tag "hold" [setT t.holdSet, armedT t.hold], tag "ka" [setT t.kaSet, armedT t.ka]]
def tmOf? (name : String) : Term → Option (Option Tm)
  | .list [.atom "tm", .atom n, .atom "none"] => if n == name then some none else none
  | .list [.atom "tm", .atom n, .list [.atom "hold", hs, h], .list [.atom "ka", ks, k]] => do
      if n != name then none
      let (hd, he) ← armedOf? h
      let (kd, ke) ← armedOf? k
      pure (some { holdSet := (← setOf? hs), hold := hd, kaSet := (← setOf? ks), ka := kd, emptySlot := he || ke })
  | _ => none

def firedT (l : List (Nat × Role × Bool)) : Term :=
  tag "fired" (l.map fun (t, r, h) => list [nat t, roleT r, sym (if h then "hold" else "ka")])
def firedOf? : Term → Option (List (Nat × Role × Bool))
  | .list (.atom "fired" :: l) => l.mapM fun
      | .list [t, r, .atom k] => do
          if k != "hold" && k != "ka" then none
          pure ((← asNat? t), (← roleOf? r), k == "hold")
      | _ => none
  | _ => none

def wstepT (timers : Bool) (s : WStep) : Term :=
  list ([kindT s.kind, tag "to-a" [list (s.toA.map frameT)], tag "to-p" [list (s.toP.map frameT)],
         stateT s.stA, stateT s.stP] ++ (if timers then [tmT "A" s.tmA, tmT "P" s.tmP] else [])
        ++ (if s.fired.isEmpty then [] else [firedT s.fired]))

def anomalyOf? : Term → Option String
  | .atom "storm" => some "driver-does-not-come-to-rest"
  | .list [.atom "close-channel-mismatch", _] => some "close-channel-and-connection-disagree"
  | _ => none

def wstepOf? (timers : Bool) : Term → Option WStep
  | .list (k :: .list [.atom "to-a", .list fa] :: .list [.atom "to-p", .list fp] :: a :: p :: rest) => do
      let base : WStep :=
        { kind := (← kindOf? k), toA := (← fa.mapM frameOf?), toP := (← fp.mapM frameOf?),
          stA := (← stateOf? a), stP := (← stateOf? p), tmA := none, tmP := none }
      let tail (base : WStep) (more : List Term) : Option WStep :=
        match more with
        | f :: more' =>
            match firedOf? f with
            | some l => do pure { base with fired := l, anomalies := (← more'.mapM anomalyOf?) }
            | none => do pure { base with anomalies := (← more.mapM anomalyOf?) }
        | [] => some base
      if timers then
        match rest with
        | ta :: tp :: more => tail { base with tmA := (← tmOf? "A" ta), tmP := (← tmOf? "P" tp) } more
        | _ => none
      else tail base rest
  | _ => none

def wireObsT (timers : Bool) (tr : List WStep) : Term := tag "wire-obs" (tr.map (wstepT timers))
def wireObsOf? (timers : Bool) : Term → Option (List WStep)
  | .list (.atom "wire-obs" :: ts) => ts.mapM (wstepOf? timers)
  | _ => none

end Rbgp.Fsm.WireCodec
