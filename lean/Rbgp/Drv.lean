/- Shared stdin→stdout loop for the per-property driver executables. -/
namespace Rbgp.Drv

partial def loop (h : IO.FS.Stream) (out : IO.FS.Stream) (f : String → String) : IO Unit := do
  let line ← h.getLine
  if line.isEmpty then return ()
  let l := (line.dropEndWhile (fun c => c == '\n' || c == '\r')).toString
  out.putStrLn (f l)
  loop h out f

/-- `drv_cXX <model|oracle|...>`: one output line per input line. -/
def mainWith (handler : String → String → String) (args : List String) : IO UInt32 := do
  match args with
  | [mode] =>
      let stdin ← IO.getStdin
      let stdout ← IO.getStdout
      loop stdin stdout (handler mode)
      stdout.flush
      return 0
  | _ => IO.eprintln "usage: drv_cXX <mode>"; return 2

end Rbgp.Drv
