import Rbgp.Api.Codec
import Rbgp.Api.Spec
namespace Rbgp.C17
open Rbgp Rbgp.Term Rbgp.Api Rbgp.Api.Codec

def verdictStr : Spec.Verdict → String
  | .ok => "ok"
  | .fail c => s!"fail clause={c}"

/-- mode `model`: case ↦ observation of the model of the code as it is now (`Api.current`);
    mode `model-original`: the same for the code before the C17 repairs (used to replay the findings);
    mode `oracle`: case TAB observation ↦ verdict of the C17 reference checker. -/
def handler (mode : String) (line : String) : String :=
  match mode with
  | "model" =>
      match (parse line).bind caseOf? with
      | some c => if c.inRange then toStr (obsT (run current c)) else "(bad-case)"
      | none => "(bad-case)"
  | "model-original" =>
      match (parse line).bind caseOf? with
      | some c => if c.inRange then toStr (obsT (run original c)) else "(bad-case)"
      | none => "(bad-case)"
  | "oracle" =>
      match parseMany line with
      | some [c, o] =>
          match caseOf? c with
          | some cs =>
              match obsOf? o with
              | some ob => verdictStr (Spec.check cs ob)
              | none => "fail clause=unparsable-observation"
          | none => if toStr o == "(bad-case)" then "ok" else "fail clause=observation-for-bad-case"
      | _ => "(bad-line)"
  | _ => "(bad-mode)"

end Rbgp.C17
