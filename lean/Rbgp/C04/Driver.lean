import Rbgp.Enc.Codec
import Rbgp.Enc.Spec
namespace Rbgp.C04
open Rbgp Rbgp.Term Rbgp.Enc Rbgp.Enc.Codec

def profile? : String → Option Profile
  | "debug" => some .debug
  | "release" => some .release
  | _ => none

/-- mode `model`: PROFILE TAB case ↦ observation of the model;
    mode `oracle`: PROFILE TAB case TAB observation ↦ verdict of the C04 reference checker;
    mode `quant`: PROFILE TAB case ↦ whether the case is in the quantifier (`buildable`) and `encodable`. -/
def handler (mode : String) (line : String) : String :=
  match mode with
  | "model" =>
      match line.splitOn "\t" with
      | [ps, cs] =>
          match profile? ps with
          | some p =>
              match (parse cs).bind (case? p) with
              | some i => toStr (obsT (run p i))
              | none => "(bad-case)"
          | none => "(bad-line)"
      | _ => "(bad-line)"
  | "oracle" =>
      match line.splitOn "\t" with
      | [ps, cs, os] =>
          match profile? ps with
          | some p =>
              match (parse cs).bind (case? p) with
              | some i =>
                  match parse os with
                  | some (.list [.atom "bad-case"]) => "fail clause=harness-rejected-case"
                  | some (.list [.atom "stale-case"]) => "fail clause=stale-case"
                  | some ot =>
                      match obs? ot with
                      | some o =>
                          -- besides the property: the model's negotiate must agree with the RFC-level reading of the
                          -- capability sets that the spec uses (theorem `negotiate_agrees`; re-checked here on every case)
                          let agree : Bool := match i.msg with
                            | .reach f .. | .unreach f _ => !Spec.buildable i || Spec.negAgree i f
                            | _ => true
                          match Spec.check i o with
                          | .ok => if agree then "ok" else "fail clause=negotiate-differs-from-rfc-reading"
                          | v => Spec.verdictStr i v
                      | none => "fail clause=unparsable-observation"
                  | none => "fail clause=unparsable-observation"
              | none => "(bad-case)"
          | none => "(bad-line)"
      | _ => "(bad-line)"
  | "quant" =>
      -- statistics for the generator: is the case inside the property's quantifier, and is it encodable?
      match line.splitOn "\t" with
      | [ps, cs] =>
          match profile? ps with
          | some p =>
              match (parse cs).bind (case? p) with
              | some i => s!"kind={Spec.kindName i.msg}{Spec.famName i.msg} buildable={Spec.buildable i} encodable={Spec.encodable i}"
              | none => "(bad-case)"
          | none => "(bad-line)"
      | _ => "(bad-line)"
  | _ => "(bad-mode)"

end Rbgp.C04
