import Rbgp.Mon2.Codec
import Rbgp.Mon2.Spec
import Rbgp.Mon2.DCodec
import Rbgp.Mon2.DSpec
namespace Rbgp.C19
open Rbgp Rbgp.Term Rbgp.Mon2 Rbgp.Mon2.Codec Rbgp.Mon2.DCodec

def verdictStr : Spec.Verdict → String
  | .ok => "ok"
  | .fail i c => s!"fail idx={i} clause={c}"

/-- model observation of a case term: `(case ..)` = packet level, `(dcase ..)` = daemon level -/
def modelOf (t : Term) : Option Obs :=
  match caseOf? t with
  | some c => some (run c)
  | none => (dcaseOf? t).map drun

def oracleOf (t : Term) (o : Obs) : Option Spec.Verdict :=
  match caseOf? t with
  | some c => some (Spec.check c o)
  | none => (dcaseOf? t).map fun d => DSpec.check d o

def recKind : Rec → String
  | .bmpRm .. => "bmp-rm"
  | .bmpUp .. => "bmp-up"
  | .bmpDown .. => "bmp-down"
  | .bmpInit _ => "bmp-init"
  | .bmpStats => "bmp-stats"
  | .bmpTerm => "bmp-term"
  | .bmpMirror => "bmp-mirror"
  | .mrtMp .. => "mrt-mp"
  | .tdPeers .. => "td-peers"
  | .tdRib .. => "td-rib"

def evKind : Ev → String
  | .rm .. => "ev-rm"
  | .out .. => "ev-out"
  | .locRib .. => "ev-loc"
  | .mrt .. => "ev-mrt"
  | .down .. => "ev-down"
  | .locUp .. => "ev-locup"
  | .live .. => "ev-live"
  | .flush .. => "ev-flush"
  | .dump .. => "ev-dump"

/-- kind of the first record that puts a packet-level case outside the domain -/
def firstOod : Option Nat → List Rec → Option String
  | _, [] => none
  | np, r :: rs => if Spec.recDom np r then firstOod (Spec.nextPeers np r) rs else some (recKind r)

def firstOodItem : Option Nat → List Item → Option String
  | _, [] => none
  | np, .pkt r :: is => if Spec.recDom np r then firstOodItem (Spec.nextPeers np r) is else some (recKind r)
  | np, .ev e :: is => if DSpec.evDom e then firstOodItem (DSpec.evNext np e) is else some (evKind e)

/-- mode `stats` (evidence only): is the case judged by the oracle or outside its domain (and through which kind) -/
def statsOf (t : Term) : String :=
  match caseOf? t with
  | some c =>
    match firstOod none c.recs with
    | none => "judged=1"
    | some k => s!"out-of-domain=1 ood:{k}=1"
  | none =>
    match dcaseOf? t with
    | some d =>
      match firstOodItem none d.items with
      | none => "judged=1"
      | some k => s!"out-of-domain=1 ood:{k}=1"
    | none => "bad-case=1"

/-- mode `model`: case ↦ observation of the model;
    mode `oracle`: case TAB observation ↦ verdict of the C19 reference checker. -/
def handler (mode : String) (line : String) : String :=
  match mode with
  | "model" =>
      match (parse line).bind modelOf with
      | some o => toStr (obsT o)
      | none => "(bad-case)"
  | "oracle" =>
      match parseMany line with
      | some [c, o] =>
          match o with
          | .list [.atom "bad-case"] => "(bad-case)"
          | _ =>
            match obsOf? o with
            | some ob =>
              match oracleOf c ob with
              | some v => verdictStr v
              | none => "(bad-case)"
            | none => "fail idx=0 clause=unparsable-observation"
      | _ => "(bad-line)"
  | "stats" =>
      match parseMany line with
      | some (c :: _) => statsOf c
      | _ => "(bad-line)"
  | _ => "(bad-mode)"

end Rbgp.C19
