import Rbgp.Mon2.Codec
import Rbgp.Mon2.Spec
namespace Rbgp.C19
open Rbgp Rbgp.Term Rbgp.Mon2 Rbgp.Mon2.Codec

def verdictStr : Spec.Verdict → String
  | .ok => "ok"
  | .fail i c => s!"fail idx={i} clause={c}"

/-- mode `model`: case ↦ observation of the model;
    mode `oracle`: case TAB observation ↦ verdict of the C19 reference checker. -/
def handler (mode : String) (line : String) : String :=
  match mode with
  | "model" =>
      match (parse line).bind caseOf? with
      | some c => toStr (obsT (run c))
      | none => "(bad-case)"
  | "oracle" =>
      match parseMany line with
      | some [c, o] =>
          match caseOf? c with
          | some cs =>
              match o with
              | .list [.atom "bad-case"] => "(bad-case)"
              | _ =>
                match obsOf? o with
                | some ob => verdictStr (Spec.check cs ob)
                | none => "fail idx=0 clause=unparsable-observation"
          | none => "(bad-case)"
      | _ => "(bad-line)"
  | _ => "(bad-mode)"

end Rbgp.C19
