import Rbgp.Mon2.Codec
import Rbgp.Mon2.Spec
import Rbgp.Mon2.DCodec
import Rbgp.Mon2.DSpec
namespace Rbgp.C19
open Rbgp Rbgp.Term Rbgp.Mon2 Rbgp.Mon2.Codec Rbgp.Mon2.DCodec

def verdictStr : Spec.Verdict → String
  | .ok => "ok"
  | .fail i c => s!"fail idx={i} clause={c}"

/-- model observation of a case term: `(case ..)` = packet level, `(dcase ..)` = daemon level -/
def modelOf (t : Term) : Option Obs :=
  match caseOf? t with
  | some c => some (run c)
  | none => (dcaseOf? t).map drun

def oracleOf (t : Term) (o : Obs) : Option Spec.Verdict :=
  match caseOf? t with
  | some c => some (Spec.check c o)
  | none => (dcaseOf? t).map fun d => DSpec.check d o

/-- mode `model`: case ↦ observation of the model;
    mode `oracle`: case TAB observation ↦ verdict of the C19 reference checker. -/
def handler (mode : String) (line : String) : String :=
  match mode with
  | "model" =>
      match (parse line).bind modelOf with
      | some o => toStr (obsT o)
      | none => "(bad-case)"
  | "oracle" =>
      match parseMany line with
      | some [c, o] =>
          match o with
          | .list [.atom "bad-case"] => "(bad-case)"
          | _ =>
            match obsOf? o with
            | some ob =>
              match oracleOf c ob with
              | some v => verdictStr v
              | none => "(bad-case)"
            | none => "fail idx=0 clause=unparsable-observation"
      | _ => "(bad-line)"
  | _ => "(bad-mode)"

end Rbgp.C19
