import Rbgp.Policy.Codec
import Rbgp.Policy.Model
import Rbgp.Policy.Spec
import Rbgp.Policy.Regex
import Rbgp.Policy.Wf
import Rbgp.Policy.DCodec
import Rbgp.Policy.DSpec
import Rbgp.Policy.Stats
namespace Rbgp.C14
open Rbgp Rbgp.Term Rbgp.Policy Rbgp.Policy.Codec

def verdictStr : Spec.Verdict → String
  | .ok => "ok"
  | .fail i j c => s!"fail step={i} idx={j} clause={c}"

/-- mode `model`: case ↦ observation of the model (driver regex engine);
    mode `oracle`: case TAB observation ↦ verdict of the C14 reference checker. -/
def handler (mode : String) (line : String) : String :=
  match mode with
  | "model" =>
      match parseFast line with
      | none => "(bad-case)"
      | some t =>
          match caseOf? t with
          | some c => if Wf.wfCase c then toStr (obsT c.probes (run Regex.env c)) else "(bad-case)"
          | none =>
              match DCodec.dcaseOf? t with
              | some c =>
                  if Wf.wfDCase c then toStr (DCodec.dobsT c.probes (drun Regex.env c)) else "(bad-case)"
              | none => "(bad-case)"
  | "oracle" =>
      match parseManyFast line with
      | some [ct, ot] =>
          -- an ill-formed line is not a case: the property says nothing about it (model and harness
          -- must still agree that it is ill-formed, which the correspondence diff checks)
          match caseOf? ct with
          | some c =>
              if !Wf.wfCase c then "ok"
              else if ot == .list [.atom "bad-case"] then "fail step=0 idx=0 clause=harness-rejected-wellformed-case"
              else
                match obsOf? c.probes ot with
                | some o => verdictStr (Spec.check Regex.env c o)
                | none => "fail step=0 idx=0 clause=unparsable-observation"
          | none =>
              match DCodec.dcaseOf? ct with
              | some c =>
                  if !Wf.wfDCase c then "ok"
                  else if ot == .list [.atom "bad-case"] then "fail step=0 idx=0 clause=harness-rejected-wellformed-case"
                  else
                    match DCodec.dobsOf? c.probes ot with
                    | some o => verdictStr (DSpec.dcheck Regex.env c o)
                    | none => "fail step=0 idx=0 clause=unparsable-observation"
              | none => "ok"
      | _ => "(bad-line)"
  | "stats" =>
      -- evidence only: boundary / switch buckets the case exercises (Rbgp.Policy.Stats)
      match parseManyFast line with
      | some (ct :: _) =>
          match caseOf? ct with
          | some c => if Wf.wfCase c then Stats.render (Stats.caseBuckets Regex.env c) else "cases-ill-formed=1"
          | none =>
              match DCodec.dcaseOf? ct with
              | some c => if Wf.wfDCase c then Stats.render (Stats.dcaseBuckets Regex.env c) else "cases-ill-formed=1"
              | none => "cases-ill-formed=1"
      | _ => "cases-ill-formed=1"
  | _ => "(bad-mode)"

end Rbgp.C14
