import Rbgp.Policy.Codec
import Rbgp.Policy.Model
import Rbgp.Policy.Regex
import Rbgp.Policy.Wf
namespace Rbgp.C14
open Rbgp Rbgp.Term Rbgp.Policy Rbgp.Policy.Codec

/-- mode `model`: case ↦ observation of the model (driver regex engine);
    mode `oracle`: case TAB observation ↦ verdict of the C14 reference checker. -/
def handler (mode : String) (line : String) : String :=
  match mode with
  | "model" =>
      match (parse line).bind caseOf? with
      | some c => if Wf.wfCase c then toStr (obsT c.probes (run Regex.env c)) else "(bad-case)"
      | none => "(bad-case)"
  | _ => "(bad-mode)"

end Rbgp.C14
