/-
  Rbgp.Term — the line protocol shared by the Rust harness, the Lean model
  driver and the `check` orchestrator.

    Term ::= atom | (Term*)

  An atom is a maximal run of characters other than whitespace and parens.
  Natural numbers are atoms made of decimal digits; byte strings are atoms
  `x<hex>` (so that the empty byte string is the atom `x`).
  Import-free (core only) so the driver links as a `lean_exe`.
-/
namespace Rbgp

inductive Term where
  | atom : String → Term
  | list : List Term → Term
  deriving Repr, Inhabited, BEq

namespace Term

inductive Tok where
  | lp | rp
  | at (s : String)
  deriving Repr, BEq

/-- Tokenise a character list. `cur` is the atom being accumulated (reversed). -/
def tokAux : List Char → List Char → List Tok → List Tok
  | [], cur, acc =>
      (if cur.isEmpty then acc else Tok.at (String.ofList cur.reverse) :: acc).reverse
  | c :: cs, cur, acc =>
      -- (the pending atom is flushed only at a delimiter: doing it per character is quadratic)
      if c == '(' then
        tokAux cs [] (Tok.lp :: (if cur.isEmpty then acc else Tok.at (String.ofList cur.reverse) :: acc))
      else if c == ')' then
        tokAux cs [] (Tok.rp :: (if cur.isEmpty then acc else Tok.at (String.ofList cur.reverse) :: acc))
      else if c == ' ' || c == '\t' || c == '\n' || c == '\r' then
        tokAux cs [] (if cur.isEmpty then acc else Tok.at (String.ofList cur.reverse) :: acc)
      else tokAux cs (c :: cur) acc

def tokenize (s : String) : List Tok := tokAux s.toList [] []

/-- Parse with an explicit stack of partially built lists (reversed).
    Structural on the token list, so total without fuel. -/
def parseAux : List Tok → List (List Term) → Option Term → Option Term
  | [], [], some t => some t
  | [], _, _ => none
  | Tok.lp :: ts, stk, none => parseAux ts ([] :: stk) none
  | Tok.lp :: _, _, some _ => none
  | Tok.rp :: ts, cur :: stk, none =>
      let t := Term.list cur.reverse
      match stk with
      | [] => parseAux ts [] (some t)
      | up :: rest => parseAux ts ((t :: up) :: rest) none
  | Tok.rp :: _, _, _ => none
  | Tok.at s :: ts, [], none => parseAux ts [] (some (Term.atom s))
  | Tok.at s :: ts, cur :: stk, none => parseAux ts ((Term.atom s :: cur) :: stk) none
  | Tok.at _ :: _, _, some _ => none

def parse (s : String) : Option Term := parseAux (tokenize s) [] none

mutual
  def toStr : Term → String
    | atom s => s
    | list ts => "(" ++ listToStr ts ++ ")"
  def listToStr : List Term → String
    | [] => ""
    | [t] => toStr t
    | t :: ts => toStr t ++ " " ++ listToStr ts
end

instance : ToString Term := ⟨toStr⟩

/-- Split a line holding two or more top-level terms separated by TABs. -/
def parseMany (s : String) : Option (List Term) :=
  (s.splitOn "\t").mapM (fun p => parse p)

def nat (n : Nat) : Term := atom (toString n)
def sym (s : String) : Term := atom s
def bool (b : Bool) : Term := atom (if b then "t" else "f")
def tag (s : String) (args : List Term) : Term := list (atom s :: args)
def ofList {α} (f : α → Term) (l : List α) : Term := list (l.map f)
def opt {α} (f : α → Term) : Option α → Term
  | none => atom "none"
  | some a => list [atom "some", f a]

def asNat? : Term → Option Nat
  | atom s => s.toNat?
  | _ => none
def asSym? : Term → Option String
  | atom s => some s
  | _ => none
def asBool? : Term → Option Bool
  | atom "t" => some true
  | atom "f" => some false
  | _ => none
def asList? : Term → Option (List Term)
  | list l => some l
  | _ => none
def asOpt? {α} (f : Term → Option α) : Term → Option (Option α)
  | atom "none" => some none
  | list [atom "some", t] => (f t).map some
  | _ => none
def asListOf? {α} (f : Term → Option α) : Term → Option (List α)
  | list l => l.mapM f
  | _ => none

def hexDigit (n : Nat) : Char :=
  if n < 10 then Char.ofNat (48 + n) else Char.ofNat (87 + n)
def hexVal? (c : Char) : Option Nat :=
  if '0' ≤ c ∧ c ≤ '9' then some (c.toNat - 48)
  else if 'a' ≤ c ∧ c ≤ 'f' then some (c.toNat - 87)
  else if 'A' ≤ c ∧ c ≤ 'F' then some (c.toNat - 55)
  else none

/-- Bytes are `List Nat` (each < 256) in the models. -/
def bytes (bs : List Nat) : Term :=
  atom (String.ofList ('x' :: bs.flatMap (fun b => [hexDigit (b / 16 % 16), hexDigit (b % 16)])))

def hexPairs : List Char → Option (List Nat)
  | [] => some []
  | [_] => none
  | a :: b :: rest => do
      let x ← hexVal? a
      let y ← hexVal? b
      let r ← hexPairs rest
      pure ((x * 16 + y) :: r)

def asBytes? : Term → Option (List Nat)
  | atom s =>
      match s.toList with
      | 'x' :: cs => hexPairs cs
      | _ => none
  | _ => none

end Term
end Rbgp
