/-
  Rbgp.Policy.Basic — data types and wire vocabulary shared by the C14 model and the C14
  reference checker (table/src/policy.rs, packet/src/bgp.rs attribute payloads).

  Only *formats* live here (how a u32 / a community list / an AS_PATH segment list is laid out in
  an attribute payload, what a route / a policy object / a CRUD call looks like).  Nothing in this
  file decides a match, a disposition or an action.
-/
namespace Rbgp.Policy

abbrev Bytes := List Nat

/-! ## addresses and prefixes -/

/-- `IpAddr`: family + numeric value (`u32` / `u128`). -/
structure Addr where
  v6 : Bool
  val : Nat
  deriving DecidableEq, Repr, Inhabited

def Addr.width (a : Addr) : Nat := if a.v6 then 128 else 32

/-- the top `len` bits of an address (no bits at all for `len = 0`) -/
def Addr.top (a : Addr) (len : Nat) : Nat := if len = 0 then 0 else a.val / 2 ^ (a.width - len)

/-- "no bits set to the right of the mask" -/
def Addr.normalized (a : Addr) (mask : Nat) : Bool :=
  mask ≤ a.width && a.val < 2 ^ a.width && a.val % 2 ^ (a.width - mask) == 0

/-! ## big-endian payload vocabulary -/

def be32 (n : Nat) : Bytes := [n / 16777216 % 256, n / 65536 % 256, n / 256 % 256, n % 256]

def rd32 : Bytes → Option (Nat × Bytes)
  | a :: b :: c :: d :: r => some (a * 16777216 + b * 65536 + c * 256 + d, r)
  | _ => none

/-- `bin.chunks(4).filter_map(try_into)` : complete 4-byte groups as u32, a short tail is dropped -/
def chunks4 : Bytes → List Nat
  | a :: b :: c :: d :: r => (a * 16777216 + b * 65536 + c * 256 + d) :: chunks4 r
  | _ => []

def enc4 (l : List Nat) : Bytes := l.flatMap be32

/-- a decimal `u32` literal as `str::parse::<u32>` reads it: an optional `+`, one or more digits,
    value at most `u32::MAX` -/
def decimalU32? (s : String) : Option Nat :=
  let d := match s.toList with
    | '+' :: r => String.ofList r
    | _ => s
  let v := d.toList.foldl (fun n c => n * 10 + (c.toNat - 48)) 0
  if !d.isEmpty && d.toList.all Char.isDigit && v ≤ 4294967295 then some v else none

/-- complete 8-byte groups -/
def chunks8 : Bytes → List Bytes
  | a :: b :: c :: d :: e :: f :: g :: h :: r => [a, b, c, d, e, f, g, h] :: chunks8 r
  | _ => []

def enc8 (l : List Bytes) : Bytes := l.flatMap id

/-- complete 12-byte groups as (global admin, local data 1, local data 2) -/
def chunks12 : Bytes → List (Nat × Nat × Nat)
  | a :: b :: c :: d :: e :: f :: g :: h :: i :: j :: k :: l :: r =>
      (a * 16777216 + b * 65536 + c * 256 + d, e * 16777216 + f * 65536 + g * 256 + h,
       i * 16777216 + j * 65536 + k * 256 + l) :: chunks12 r
  | _ => []

def enc12 (l : List (Nat × Nat × Nat)) : Bytes :=
  l.flatMap fun (a, b, c) => be32 a ++ be32 b ++ be32 c

/-! ## AS_PATH segments -/

/-- one AS_PATH segment: type (1 SET, 2 SEQUENCE, 3 CONFED_SEQUENCE, 4 CONFED_SET) and members -/
structure Seg where
  ty : Nat
  asns : List Nat
  deriving DecidableEq, Repr, Inhabited

def encSeg (s : Seg) : Bytes := s.ty :: s.asns.length :: enc4 s.asns

def encSegs (l : List Seg) : Bytes := l.flatMap encSeg

/-- read `n` big-endian u32 -/
def readAsns : Nat → Bytes → Option (List Nat × Bytes)
  | 0, b => some ([], b)
  | n + 1, b =>
      match rd32 b with
      | some (x, r) =>
          match readAsns n r with
          | some (xs, r') => some (x :: xs, r')
          | none => none
      | none => none

theorem readAsns_length : ∀ (n : Nat) (b : Bytes) (v : List Nat) (r : Bytes),
    readAsns n b = some (v, r) → r.length ≤ b.length
  | 0, b, v, r, h => by
      simp [readAsns] at h
      obtain ⟨_, rfl⟩ := h
      exact Nat.le_refl _
  | n + 1, b, v, r, h => by
      match b with
      | a :: b1 :: c :: d :: rest =>
          simp only [readAsns, rd32] at h
          split at h
          · rename_i xs r' hr
            have := readAsns_length n rest xs r' hr
            simp at h
            obtain ⟨_, rfl⟩ := h
            simp; omega
          · simp at h
      | [] => simp [readAsns, rd32] at h
      | [_] => simp [readAsns, rd32] at h
      | [_, _] => simp [readAsns, rd32] at h
      | [_, _, _] => simp [readAsns, rd32] at h

/-- strict parser of an AS_PATH payload: exactly what `Attribute::decode` accepts
    (segment type 1..4, count byte, 4*count bytes), `none` otherwise -/
def segsOf (b : Bytes) : Option (List Seg) :=
  match b with
  | [] => some []
  | [_] => none
  | t :: n :: r =>
      if 1 ≤ t ∧ t ≤ 4 then
        match h : readAsns n r with
        | some (v, r') =>
            have : r'.length < (t :: n :: r).length := by
              have := readAsns_length n r v r' h; simp; omega
            match segsOf r' with
            | some rest => some (⟨t, v⟩ :: rest)
            | none => none
        | none => none
      else none
termination_by b.length

/-! ## attributes and routes -/

inductive AData where
  | val (n : Nat)
  | bin (b : Bytes)
  deriving DecidableEq, Repr, Inhabited

/-- `packet::Attribute { code, flags, data }` (`Opaque` behaves like `Bin` for everything the
    policy engine does) -/
structure Attr where
  code : Nat
  flags : Nat
  data : AData
  deriving DecidableEq, Repr, Inhabited

def ORIGIN := 1
def AS_PATH := 2
def MED := 4
def LOCAL_PREF := 5
def COMMUNITY := 8
def EXT_COMMUNITY := 16
def LARGE_COMMUNITY := 32

/-- `Attribute::canonical_flags` for the codes the policy engine creates -/
def canonicalFlags (code : Nat) : Nat :=
  if code = MED then 128
  else if code = COMMUNITY ∨ code = EXT_COMMUNITY ∨ code = LARGE_COMMUNITY then 192
  else 64

inductive RpkiSt where
  | notFound | valid | invalid
  deriving DecidableEq, Repr, Inhabited

/-- `table::Source` as far as the policy engine looks at it -/
structure Source where
  isLocal : Bool
  remoteAsn : Nat
  localAsn : Nat
  remoteAddr : Addr
  localAddr : Addr
  deriving DecidableEq, Repr, Inhabited

/-- one probe: everything `apply_import` / `apply_export` take -/
structure Route where
  src : Source
  net : Addr
  mask : Nat
  attrs : List Attr
  nh : Option Addr
  origNh : Option Addr
  confed : Bool
  localAddr : Addr
  peerAddr : Addr
  /-- result of `RpkiTable::validate` for this route (`none`: no table / `None`) -/
  rpki : Option RpkiSt
  deriving DecidableEq, Repr, Inhabited

inductive Disp where
  | pass | accept | reject
  deriving DecidableEq, Repr, Inhabited

inductive Dir where
  | imp | exp
  deriving DecidableEq, Repr, Inhabited

/-! ## policy objects -/

inductive Opt where
  | any | all | invert
  deriving DecidableEq, Repr, Inhabited

inductive Cmp where
  | eq | ge | le
  deriving DecidableEq, Repr, Inhabited

inductive SetKind where
  | prefix | neighbor | aspath | comm | ext | large
  deriving DecidableEq, Repr, Inhabited

def SetKind.idx : SetKind → Nat
  | .prefix => 0 | .neighbor => 1 | .aspath => 2 | .comm => 3 | .ext => 4 | .large => 5

/-- prefix-set entry: prefix and mask-length range -/
structure PEntry where
  addr : Addr
  mask : Nat
  lo : Nat
  hi : Nat
  deriving DecidableEq, Repr, Inhabited

/-- the eight anchored numeric AS-path patterns (`SingleAsPathMatch`) -/
inductive Single where
  | inc (a : Nat) | left (a : Nat) | orig (a : Nat) | only (a : Nat)
  | rinc (a b : Nat) | rleft (a b : Nat) | rorig (a b : Nat) | ronly (a b : Nat)
  deriving DecidableEq, Repr, Inhabited

/-- an element of a defined set as given to the CRUD calls -/
inductive Elem where
  | pfx (e : PEntry)
  | nbr (a : Addr) (mask : Nat)
  | single (s : Single)
  | pat (s : String)
  /-- a prefix / neighbor string that does not parse (`IpNet::from_str` fails) -/
  | raw
  deriving DecidableEq, Repr, Inhabited

/-- a stored defined set -/
inductive SetObj where
  | prefix (entries : List PEntry) (zero zero6 : Option (Nat × Nat))
  | neighbor (nets : List (Addr × Nat))
  | aspath (singles : List Single) (res : List String)
  | strs (pats : List String)
  deriving DecidableEq, Repr, Inhabited

inductive RouteType where
  | internal | external | «local»
  deriving DecidableEq, Repr, Inhabited

/-- the non-set conditions -/
inductive Plain where
  | nexthop (l : List Addr)
  | asPathLen (c : Cmp) (n : Nat)
  | rpki (s : RpkiSt)
  | localPrefEq (n : Nat)
  | medEq (n : Nat)
  | origin (n : Nat)
  | routeType (t : RouteType)
  | commCount (c : Cmp) (n : Nat)
  | afiSafiIn (l : List (Nat × Nat))
  deriving DecidableEq, Repr, Inhabited

/-- `ConditionConfig` -/
inductive CondCfg where
  | set (k : SetKind) (name : String) (o : Opt)
  | plain (p : Plain)
  deriving DecidableEq, Repr, Inhabited

inductive NhAct where
  | addr (a : Addr) | self | peer | unchanged
  deriving DecidableEq, Repr, Inhabited

inductive CAT where
  | add | remove | replace
  deriving DecidableEq, Repr, Inhabited

structure Actions where
  nexthop : Option NhAct := none
  community : Option (CAT × List Nat) := none
  localPref : Option Nat := none
  /-- (is `Mod`, value) -/
  med : Option (Bool × Int) := none
  /-- (asn, repeat, use_left_most) -/
  asPrepend : Option (Nat × Nat × Bool) := none
  ext : Option (CAT × List Bytes) := none
  large : Option (CAT × List (Nat × Nat × Nat)) := none
  origin : Option Nat := none
  deriving DecidableEq, Repr, Inhabited

/-- the CRUD calls of `PolicyTable` -/
inductive Op where
  | setAdd (k : SetKind) (name : String) (elems : List Elem)
  | setReplace (k : SetKind) (name : String) (elems : List Elem)
  | setDel (k : SetKind) (name : String) (all : Bool) (elems : List Elem)
  | stmtAdd (name : String) (conds : List CondCfg) (disp : Option Disp) (acts : Actions)
  | stmtDel (name : String) (all : Bool) (conds : List CondCfg) (disp : Option Disp) (acts : Actions)
  | polAdd (name : String) (stmts : List String)
  | polDel (name : String) (preserve all : Bool) (stmts : List String)
  | asgAdd (d : Dir) (name : String) (dflt : Disp) (pols : List String)
  | asgSet (d : Dir) (name : String) (dflt : Disp) (pols : List String)
  | asgDel (d : Dir) (all : Bool) (pols : List String)
  deriving DecidableEq, Repr, Inhabited

structure Case where
  probes : List Route
  ops : List Op
  deriving Repr, Inhabited

/-! ## what the listing API shows (names, not objects) -/

structure DStmt where
  name : String
  conds : List CondCfg
  disp : Option Disp
  acts : Actions
  deriving DecidableEq, Repr, Inhabited

structure DPol where
  name : String
  stmts : List String
  deriving DecidableEq, Repr, Inhabited

structure DAsg where
  name : String
  dflt : Disp
  pols : List String
  /-- `PolicyAssignment.needs_rpki`: the flag that gates reading the RPKI table -/
  rpki : Bool
  deriving DecidableEq, Repr, Inhabited

/-- `iter_defined_sets / iter_statements / iter_policies / iter_assignments`, sorted by name -/
structure Dump where
  sets : List ((SetKind × String) × SetObj)
  stmts : List DStmt
  pols : List DPol
  imp : Option DAsg
  exp : Option DAsg
  /-- per listed statement (same order): the set objects its set conditions HOLD (`Arc`s) -/
  heldSets : List (List SetObj)
  /-- per listed policy (same order): the statements it HOLDS, each with the sets that one holds -/
  heldStmts : List (List (DStmt × List SetObj))
  deriving DecidableEq, Repr, Inhabited

/-! ## observations -/

inductive Res where
  | ok | invalid | exists_ | notFound | inUse
  deriving DecidableEq, Repr, Inhabited

/-- result of one `apply_import` / `apply_export` call -/
inductive PRes where
  | panic
  | r (d : Disp) (attrs : List Attr) (nh : Option Addr)
  deriving DecidableEq, Repr, Inhabited

inductive StepObs where
  | panic
  | step (res : Res) (dump : Dump) (imp exp : Option (List PRes))
  deriving DecidableEq, Repr, Inhabited

abbrev Obs := List StepObs

/-- What model and reference take as given (uninterpreted in every theorem):
    the regular-expression engine (the `regex` crate) — `valid p` = `Regex::new(p).is_ok()`,
    `matches p s` = `Regex::new(p).unwrap().is_match(s)` — and the textual form of an extended
    community (`ext_community_to_string`, which involves `f32` formatting). -/
structure RegexEnv where
  valid : String → Bool
  «matches» : String → String → Bool
  extStr : Bytes → Option String

/-- the arguments of `PolicyAssignment::apply` that do not change during an evaluation -/
structure Ctx where
  src : Source
  net : Addr
  mask : Nat
  rpki : Option RpkiSt
  confed : Bool
  localAddr : Addr
  peerAddr : Addr
  origNh : Option Addr
  deriving Repr, Inhabited

/-- the part of a route an evaluation rewrites: attribute vector and next hop -/
structure St where
  attrs : List Attr
  nh : Option Addr
  deriving DecidableEq, Repr, Inhabited

end Rbgp.Policy
