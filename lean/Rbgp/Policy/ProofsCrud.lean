/-
  Rbgp.Policy.ProofsCrud — the CRUD calls of the model keep every reference closed:
  each statement's sets, each policy's statements and each assignment's policies are the objects
  the table currently holds under those names (`Inv`), for every sequence of calls.
-/
import Rbgp.Policy.ProofsEval
namespace Rbgp.Policy
open Rbgp.Policy

/-! ## association lists -/

section AL
variable {κ α : Type} [DecidableEq κ]

theorem alLookup_mem {k : κ} {v : α} : ∀ {l : List (κ × α)}, alLookup k l = some v → (k, v) ∈ l
  | [], h => by simp [alLookup] at h
  | (k', v') :: r, h => by
      simp only [alLookup] at h
      split at h
      · rename_i hk; simp at h; subst hk; subst h; simp
      · exact List.mem_cons_of_mem _ (alLookup_mem h)

theorem alLookup_insert (lt : κ → κ → Bool) (k k' : κ) (v : α) :
    ∀ (l : List (κ × α)), alLookup k' (alInsert lt k v l) = if k' = k then some v else alLookup k' l
  | [] => by
      simp only [alInsert, alLookup]
      by_cases h : k = k' <;> simp [h, eq_comm]
  | (k0, v0) :: r => by
      simp only [alInsert]
      by_cases h0 : k0 = k
      · subst h0
        simp only [if_true, alLookup]
        by_cases h : k' = k0
        · subst h; simp
        · have : ¬ k0 = k' := fun e => h e.symm
          simp [h, this]
      · simp only [h0, if_false]
        by_cases hl : lt k k0 = true
        · simp only [hl, if_true, alLookup]
          by_cases h : k = k'
          · subst h; simp
          · have : ¬ k' = k := fun e => h e.symm
            simp [h, this]
        · simp only [hl, Bool.false_eq_true, if_false, alLookup, alLookup_insert lt k k' v r]
          by_cases h : k0 = k'
          · subst h
            have : ¬ k0 = k := h0
            simp [this]
          · simp [h]

theorem alLookup_insert_self (lt : κ → κ → Bool) (k : κ) (v : α) (l : List (κ × α)) :
    alLookup k (alInsert lt k v l) = some v := by simp [alLookup_insert]

theorem alLookup_insert_ne (lt : κ → κ → Bool) {k k' : κ} (h : k' ≠ k) (v : α) (l : List (κ × α)) :
    alLookup k' (alInsert lt k v l) = alLookup k' l := by simp [alLookup_insert, h]

theorem alLookup_erase_ne {k k' : κ} (h : k' ≠ k) : ∀ (l : List (κ × α)), alLookup k' (alErase k l) = alLookup k' l
  | [] => rfl
  | (k0, v0) :: r => by
      simp only [alErase]
      by_cases h0 : k0 = k
      · subst h0
        have : ¬ k0 = k' := fun e => h e.symm
        simp [alLookup, this, alLookup_erase_ne h r]
      · simp only [h0, if_false, alLookup, alLookup_erase_ne h r]

theorem alLookup_erase_self (k : κ) : ∀ (l : List (κ × α)), alLookup k (alErase k l) = none
  | [] => rfl
  | (k0, v0) :: r => by
      simp only [alErase]
      by_cases h0 : k0 = k
      · simp [h0, alLookup_erase_self k r]
      · simp [h0, alLookup, alLookup_erase_self k r]

theorem mem_alInsert (lt : κ → κ → Bool) {k : κ} {v : α} {e : κ × α} :
    ∀ {l : List (κ × α)}, e ∈ alInsert lt k v l → e = (k, v) ∨ e ∈ l
  | [], h => by simp [alInsert] at h; exact Or.inl h
  | (k0, v0) :: r, h => by
      simp only [alInsert] at h
      split at h
      · simp at h; rcases h with h | h
        · exact Or.inl h
        · exact Or.inr (List.mem_cons_of_mem _ h)
      · split at h
        · simp at h; rcases h with h | h | h
          · exact Or.inl h
          · exact Or.inr (by simp [h])
          · exact Or.inr (List.mem_cons_of_mem _ h)
        · simp at h; rcases h with h | h
          · exact Or.inr (by simp [h])
          · rcases mem_alInsert lt h with h | h
            · exact Or.inl h
            · exact Or.inr (List.mem_cons_of_mem _ h)

theorem mem_alErase {k : κ} {e : κ × α} : ∀ {l : List (κ × α)}, e ∈ alErase k l → e ∈ l
  | [], h => by simp [alErase] at h
  | (k0, v0) :: r, h => by
      simp only [alErase] at h
      split at h
      · exact List.mem_cons_of_mem _ (mem_alErase h)
      · simp at h; rcases h with h | h
        · simp [h]
        · exact List.mem_cons_of_mem _ (mem_alErase h)
end AL

/-! ## the invariant -/

/-- a stored set has the shape of its kind; with `ar = false` ("no AS-path regex") an AS-path
    set moreover holds no free-form pattern -/
def shapeOk (ar : Bool) : SetKind → SetObj → Bool
  | .prefix, .prefix .. => true
  | .neighbor, .neighbor _ => true
  | .aspath, .aspath _ res => ar || res.isEmpty
  | .comm, .strs _ => true
  | .ext, .strs _ => true
  | .large, .strs _ => true
  | _, _ => false

/-- `Cond.ok` with the AS-path restriction switchable: `condOk false = Cond.ok` -/
def condOk (ar : Bool) : Cond → Bool
  | .set .prefix _ o (.prefix ..) => o != .all
  | .set .neighbor _ o (.neighbor _) => o != .all
  | .set .aspath _ _ (.aspath _ res) => ar || res.isEmpty
  | .set .comm _ _ (.strs _) => true
  | .set .ext _ _ (.strs _) => true
  | .set .large _ _ (.strs _) => true
  | .set .. => false
  | .plain _ => true

theorem condOk_false (c : Cond) : condOk false c = c.ok := by
  cases c with
  | plain p => rfl
  | set k n o snap => cases k <;> cases snap <;> simp [condOk, Cond.ok]

variable {ar : Bool}

/-- a condition's snapshot is the set the table holds under that name -/
def condClosed (t : Table) : Cond → Prop
  | .set k n _ snap => alLookup (k, n) t.sets = some snap
  | .plain _ => True

structure Inv (ar : Bool) (t : Table) : Prop where
  sets : ∀ e ∈ t.sets, shapeOk ar e.1.1 e.2 = true
  stmts : ∀ e ∈ t.stmts, e.2.name = e.1 ∧ ∀ c ∈ e.2.conds, condClosed t c ∧ condOk ar c = true
  pols : ∀ e ∈ t.pols, e.2.name = e.1 ∧ ∀ s ∈ e.2.stmts, alLookup s.name t.stmts = some s
  imp : ∀ a, t.imp = some a → ∀ p ∈ a.pols, alLookup p.name t.pols = some p
  exp : ∀ a, t.exp = some a → ∀ p ∈ a.pols, alLookup p.name t.pols = some p

theorem Inv.empty (ar : Bool) : Inv ar {} := by
  constructor <;> simp

/-- no free-form AS-path pattern is ever given (the hypothesis that excludes the known finding) -/
def Op.noAsRegex : Op → Bool
  | .setAdd .aspath _ es => es.all (fun e => !e.isPat)
  | .setReplace .aspath _ es => es.all (fun e => !e.isPat)
  | _ => true

/-! ## defined sets -/

theorem shapeOk_ok {k : SetKind} {n : String} {o : Opt} {snap : SetObj} (hs : shapeOk ar k snap = true)
    (ho : (k = .prefix ∨ k = .neighbor) → o ≠ .all) : condOk ar (Cond.set k n o snap) = true := by
  cases k <;> cases snap <;> simp [shapeOk] at hs <;> simp [condOk]
  · exact ho (Or.inl rfl)
  · exact ho (Or.inr rfl)
  · exact hs

theorem filterMap_pat_nil (es : List Elem) (h : es.all (fun e => !e.isPat) = true) :
    es.filterMap Elem.pat? = [] := by
  induction es with
  | nil => rfl
  | cons e r ih =>
      simp only [List.all_cons, Bool.and_eq_true] at h
      cases e <;> simp_all [List.filterMap, Elem.pat?, Elem.isPat]

theorem parseElems_shape (env : RegexEnv) (k : SetKind) (es : List Elem) (new : SetObj)
    (hno : ar = true ∨ (k = .aspath → es.all (fun e => !e.isPat) = true))
    (h : parseElems env k es = some new) : shapeOk ar k new = true := by
  replace h := parseElems_some h
  cases k <;> simp only [parseElems0] at h
  · split at h
    · simp at h; subst h; simp [shapeOk]
    · simp at h
  · simp at h; subst h; simp [shapeOk]
  · rcases hno with har | hno
    · subst har
      split at h
      · simp at h; subst h; simp [shapeOk]
      · simp at h
    · have hnil := filterMap_pat_nil es (hno rfl)
      rw [hnil] at h
      simp at h; subst h; simp [shapeOk]
  · cases hm : List.mapM (parseCommunity env) (es.filterMap Elem.pat?) with
    | none => simp [hm] at h
    | some l => simp [hm] at h; subst h; simp [shapeOk]
  · split at h
    · simp at h; subst h; simp [shapeOk]
    · simp at h
  · split at h
    · simp at h; subst h; simp [shapeOk]
    · simp at h

theorem fresh_shape (k : SetKind) (new f : SetObj) (h1 : shapeOk ar k new = true) (h : new.fresh = some f) :
    shapeOk ar k f = true := by
  cases new with
  | «prefix» es z z6 =>
      simp only [SetObj.fresh, Option.map_eq_some_iff] at h
      obtain ⟨l, _, rfl⟩ := h
      cases k <;> simp_all [shapeOk]
  | neighbor l => simp [SetObj.fresh] at h; subst h; exact h1
  | aspath a b => simp [SetObj.fresh] at h; subst h; exact h1
  | strs l => simp [SetObj.fresh] at h; subst h; exact h1

theorem merge_shape (k : SetKind) (ex new m : SetObj) (h1 : shapeOk ar k ex = true) (h2 : shapeOk ar k new = true)
    (h : ex.merge new = some m) : shapeOk ar k m = true := by
  cases k <;> cases ex <;> cases new <;> simp [shapeOk] at h1 h2 <;> simp only [SetObj.merge] at h
  · split at h
    · simp at h
    · split at h
      · simp at h
      · simp at h; subst h; simp [shapeOk]
  · simp at h; subst h; simp [shapeOk]
  · simp at h; subst h
    simp only [shapeOk, Bool.or_eq_true, List.isEmpty_iff, List.append_eq_nil_iff]
    rcases h1 with h | h
    · exact Or.inl h
    · rcases h2 with h' | h'
      · exact Or.inl h'
      · exact Or.inr ⟨by simpa using h, by simpa using h'⟩
  · simp at h; subst h; simp [shapeOk]
  · simp at h; subst h; simp [shapeOk]
  · simp at h; subst h; simp [shapeOk]

theorem foldl_filter_nil {β} (l : List β) (f : List String → β → List String)
    (hf : ∀ b, f [] b = []) : l.foldl f [] = [] := by
  induction l with
  | nil => rfl
  | cons b r ih => simp [List.foldl, hf, ih]

theorem remove_shape (env : RegexEnv) (k : SetKind) (ex n : SetObj) (es : List Elem)
    (h1 : shapeOk ar k ex = true) (h : ex.remove env k es = some n) : shapeOk ar k n = true := by
  replace h := SetObj.remove_some h
  cases ex with
  | «prefix» l z z6 =>
      cases k <;> simp [shapeOk] at h1
      simp only [SetObj.remove0] at h
      simp at h; subst h
      -- the fold keeps the `.prefix` shape
      suffices ∀ (acc : SetObj), shapeOk ar .prefix acc = true →
          shapeOk ar .prefix (es.foldl removePfx acc) = true from this _ (by simp [shapeOk])
      induction es with
      | nil => intro acc h; exact h
      | cons e r ih =>
          intro acc hacc
          simp only [List.foldl]
          apply ih
          cases acc <;> simp [shapeOk] at hacc
          rename_i es0 z0 z60
          cases e <;> simp only [removePfx, shapeOk]
          rename_i p
          by_cases h1 : p.isZero4 = true
          · simp [h1]
          · by_cases h2 : p.isZero6 = true
            · simp [h1, h2]
            · by_cases h3 : (pLookup p.key es0 == some p) = true
              · simp [h1, h2, h3]
              · simp [h1, h2, h3]
  | neighbor l =>
      cases k <;> simp [shapeOk] at h1
      simp [SetObj.remove0] at h; subst h; simp [shapeOk]
  | aspath ss rs =>
      cases k <;> simp [shapeOk] at h1
      simp only [SetObj.remove0] at h
      split at h
      · simp at h; subst h
        simp only [shapeOk]
        rcases h1 with har | hrs
        · simp [har]
        · subst hrs
          rw [foldl_filter_nil _ removePat (fun b => rfl)]
          simp
      · simp at h
  | strs l =>
      cases k <;> simp [shapeOk] at h1 <;> simp only [SetObj.remove0] at h
      · cases hm : List.mapM (parseCommunity env) (es.filterMap Elem.pat?) with
        | none => simp [hm] at h
        | some rs => simp [hm] at h; subst h; simp [shapeOk]
      · split at h
        · simp at h; subst h; simp [shapeOk]
        · simp at h
      · split at h
        · simp at h; subst h; simp [shapeOk]
        · simp at h

theorem setInUse_false_ne {t : Table} {k : SetKind} {name : String} (hu : setInUse t k name = false)
    {e : String × Stmt} (he : e ∈ t.stmts) {k' : SetKind} {n' : String} {o : Opt} {snap : SetObj}
    (hc : Cond.set k' n' o snap ∈ e.2.conds) : (k', n') ≠ (k, name) := by
  intro heq
  simp only [Prod.mk.injEq] at heq
  obtain ⟨rfl, rfl⟩ := heq
  have : setInUse t k' n' = true := by
    simp only [setInUse, List.any_eq_true]
    exact ⟨e, he, Cond.set k' n' o snap, hc, by simp [Cond.refersTo]⟩
  rw [this] at hu; cases hu

/-- changing only the set stored under a key no statement refers to keeps the invariant -/
theorem Inv.set_sets {t : Table} (hi : Inv ar t) (k : SetKind) (name : String) (sets' : List (SetKey × SetObj))
    (hshape : ∀ e ∈ sets', shapeOk ar e.1.1 e.2 = true)
    (hother : ∀ key, key ≠ (k, name) → alLookup key sets' = alLookup key t.sets)
    (hfree : ∀ e ∈ t.stmts, ∀ k' n' o snap, Cond.set k' n' o snap ∈ e.2.conds → (k', n') ≠ (k, name)) :
    Inv ar { t with sets := sets' } := by
  refine ⟨hshape, ?_, hi.pols, hi.imp, hi.exp⟩
  intro e he
  refine ⟨(hi.stmts e he).1, ?_⟩
  intro c hc
  have h0 := (hi.stmts e he).2 c hc
  refine ⟨?_, h0.2⟩
  cases c with
  | plain p => trivial
  | set k' n' o snap =>
      simp only [condClosed]
      rw [hother _ (hfree e he k' n' o snap hc)]
      exact h0.1

theorem Inv.addDefinedSet (env : RegexEnv) {t : Table} (hi : Inv ar t) (k : SetKind) (name : String) (es : List Elem)
    (hno : ar = true ∨ (k = .aspath → es.all (fun e => !e.isPat) = true)) :
    Inv ar (t.addDefinedSet env k name es).1 := by
  cases hp : parseElems env k es with
  | none =>
      have e : t.addDefinedSet env k name es = (t, .invalid) := by simp [Table.addDefinedSet, hp]
      rw [e]; exact hi
  | some new =>
      have hsh := parseElems_shape env k es new hno hp
      cases hl : alLookup (k, name) t.sets with
      | none =>
          by_cases he : new.isEmpty = true
          · have e : t.addDefinedSet env k name es = (t, .invalid) := by simp [Table.addDefinedSet, hp, hl, he]
            rw [e]; exact hi
          · cases hf : new.fresh with
            | none =>
                have e : t.addDefinedSet env k name es = (t, .invalid) := by simp [Table.addDefinedSet, hp, hl, he, hf]
                rw [e]; exact hi
            | some f =>
                have e : t.addDefinedSet env k name es =
                    ({ t with sets := alInsert setKeyLt (k, name) f t.sets }, .ok) := by
                  simp [Table.addDefinedSet, hp, hl, he, hf]
                rw [e]
                refine hi.set_sets k name _ ?_ (fun key hk => alLookup_insert_ne _ hk _ _) ?_
                · intro e he
                  rcases mem_alInsert _ he with rfl | he
                  · exact fresh_shape k new f hsh hf
                  · exact hi.sets e he
                · intro e he k' n' o snap hc heq
                  have := ((hi.stmts e he).2 _ hc).1
                  simp only [condClosed, heq, hl] at this
                  cases this
      | some ex =>
          by_cases hu : setInUse t k name = true
          · have e : t.addDefinedSet env k name es = (t, .inUse) := by simp [Table.addDefinedSet, hp, hl, hu]
            rw [e]; exact hi
          · have hu' : setInUse t k name = false := by simpa using hu
            cases hm : ex.merge new with
            | none =>
                have e : t.addDefinedSet env k name es = (t, .invalid) := by simp [Table.addDefinedSet, hp, hl, hu', hm]
                rw [e]; exact hi
            | some m =>
                have e : t.addDefinedSet env k name es =
                    ({ t with sets := alInsert setKeyLt (k, name) m t.sets }, .ok) := by
                  simp [Table.addDefinedSet, hp, hl, hu', hm]
                rw [e]
                refine hi.set_sets k name _ ?_ (fun key hk => alLookup_insert_ne _ hk _ _) ?_
                · intro e he
                  rcases mem_alInsert _ he with rfl | he
                  · exact merge_shape k ex new m (hi.sets _ (alLookup_mem hl)) hsh hm
                  · exact hi.sets e he
                · intro e he k' n' o snap hc
                  exact setInUse_false_ne hu' he hc

theorem Inv.eraseSet {t : Table} (hi : Inv ar t) (k : SetKind) (name : String) (hu : setInUse t k name = false) :
    Inv ar { t with sets := alErase (k, name) t.sets } :=
  hi.set_sets k name _ (fun e he => hi.sets e (mem_alErase he)) (fun _ hk => alLookup_erase_ne hk _)
    (fun _ he _ _ _ _ hc => setInUse_false_ne hu he hc)

theorem Inv.replaceDefinedSet (env : RegexEnv) {t : Table} (hi : Inv ar t) (k : SetKind) (name : String) (es : List Elem)
    (hno : ar = true ∨ (k = .aspath → es.all (fun e => !e.isPat) = true)) :
    Inv ar (t.replaceDefinedSet env k name es).1 := by
  by_cases hu : setInUse t k name = true
  · have e : t.replaceDefinedSet env k name es = (t, .inUse) := by simp [Table.replaceDefinedSet, hu]
    rw [e]; exact hi
  · have hu' : setInUse t k name = false := by simpa using hu
    have e : t.replaceDefinedSet env k name es =
        Table.addDefinedSet env { t with sets := alErase (k, name) t.sets } k name es := by
      simp [Table.replaceDefinedSet, hu']
    rw [e]
    exact (hi.eraseSet k name hu').addDefinedSet env k name es hno

theorem Inv.deleteDefinedSet (env : RegexEnv) {t : Table} (hi : Inv ar t) (k : SetKind) (name : String) (all : Bool)
    (es : List Elem) : Inv ar (t.deleteDefinedSet env k name all es).1 := by
  by_cases hu : setInUse t k name = true
  · have e : t.deleteDefinedSet env k name all es = (t, .inUse) := by simp [Table.deleteDefinedSet, hu]
    rw [e]; exact hi
  · have hu' : setInUse t k name = false := by simpa using hu
    cases hl : alLookup (k, name) t.sets with
    | none =>
        have e : t.deleteDefinedSet env k name all es = (t, .notFound) := by
          cases all <;> simp [Table.deleteDefinedSet, hu', hl]
        rw [e]; exact hi
    | some ex =>
        cases all with
        | true =>
            have e : t.deleteDefinedSet env k name true es = ({ t with sets := alErase (k, name) t.sets }, .ok) := by
              simp [Table.deleteDefinedSet, hu', hl]
            rw [e]; exact hi.eraseSet k name hu'
        | false =>
            cases hr : ex.remove env k es with
            | none =>
                have e : t.deleteDefinedSet env k name false es = (t, .invalid) := by
                  simp [Table.deleteDefinedSet, hu', hl, hr]
                rw [e]; exact hi
            | some n =>
                have e : t.deleteDefinedSet env k name false es =
                    ({ t with sets := alInsert setKeyLt (k, name) n t.sets }, .ok) := by
                  simp [Table.deleteDefinedSet, hu', hl, hr]
                rw [e]
                refine hi.set_sets k name _ ?_ (fun key hk => alLookup_insert_ne _ hk _ _)
                  (fun _ he _ _ _ _ hc => setInUse_false_ne hu' he hc)
                intro e he
                rcases mem_alInsert _ he with rfl | he
                · exact remove_shape env k ex n es (hi.sets _ (alLookup_mem hl)) hr
                · exact hi.sets e he

/-! ## statements -/

/-- a statement name some policy of the table uses -/
def stmtUsed (pols : List (String × Policy)) (m : String) : Prop := ∃ e ∈ pols, ∃ s ∈ e.2.stmts, s.name = m

theorem stmtInUse_iff (t : Table) (m : String) : stmtInUse t m = true ↔ stmtUsed t.pols m := by
  simp only [stmtInUse, stmtUsed, List.any_eq_true, beq_iff_eq]

/-- replacing the statement map: every stored statement is well formed, and names used by
    policies still resolve to what they resolved to -/
theorem Inv.set_stmts {t : Table} (hi : Inv ar t) (stmts' : List (String × Stmt))
    (hmem : ∀ e ∈ stmts', e.2.name = e.1 ∧ ∀ c ∈ e.2.conds, condClosed t c ∧ condOk ar c = true)
    (hused : ∀ m, stmtUsed t.pols m → alLookup m stmts' = alLookup m t.stmts) :
    Inv ar { t with stmts := stmts' } := by
  refine ⟨hi.sets, ?_, ?_, hi.imp, hi.exp⟩
  · intro e he
    refine ⟨(hmem e he).1, fun c hc => ?_⟩
    have := (hmem e he).2 c hc
    refine ⟨?_, this.2⟩
    cases c <;> exact this.1
  · intro e he
    refine ⟨(hi.pols e he).1, fun s hs => ?_⟩
    show alLookup s.name stmts' = some s
    rw [hused s.name ⟨e, he, s, hs, rfl⟩]
    exact (hi.pols e he).2 s hs

theorem resolveConds_spec (t : Table) (hi : Inv ar t) : ∀ (cfgs : List CondCfg) (v : List Cond),
    resolveConds t cfgs = some v → ∀ c ∈ v, condClosed t c ∧ condOk ar c = true
  | [], v, h => by simp [resolveConds] at h; subst h; simp
  | .plain p :: r, v, h => by
      simp only [resolveConds, Option.map_eq_some_iff] at h
      obtain ⟨cs, hcs, rfl⟩ := h
      intro c hc
      simp at hc
      rcases hc with rfl | hc
      · exact ⟨trivial, rfl⟩
      · exact resolveConds_spec t hi r cs hcs c hc
  | .set k name o :: r, v, h => by
      simp only [resolveConds] at h
      split at h
      · simp at h
      · rename_i hall
        cases hl : alLookup (k, name) t.sets with
        | none => simp [hl] at h
        | some snap =>
            simp only [hl, Option.map_eq_some_iff] at h
            obtain ⟨cs, hcs, rfl⟩ := h
            intro c hc
            simp at hc
            rcases hc with rfl | hc
            · refine ⟨hl, shapeOk_ok (hi.sets _ (alLookup_mem hl)) ?_⟩
              intro hk ho
              exact hall ⟨hk, ho⟩
            · exact resolveConds_spec t hi r cs hcs c hc

theorem mergeConds_mem : ∀ (cur new cs : List Cond), mergeConds cur new = some cs → ∀ c ∈ cs, c ∈ cur ∨ c ∈ new
  | cur, [], cs, h => by simp [mergeConds] at h; subst h; intro c hc; exact Or.inl hc
  | cur, x :: r, cs, h => by
      simp only [mergeConds] at h
      split at h
      · simp at h
      · intro c hc
        rcases mergeConds_mem (cur ++ [x]) r cs h c hc with h1 | h1
        · simp at h1
          rcases h1 with h1 | h1
          · exact Or.inl h1
          · exact Or.inr (by simp [h1])
        · exact Or.inr (by simp [h1])

theorem removeKinds_mem : ∀ (cur : List Cond) (cfgs : List CondCfg) (cs : List Cond),
    removeKinds cur cfgs = some cs → ∀ c ∈ cs, c ∈ cur
  | cur, [], cs, h => by simp [removeKinds] at h; subst h; intro c hc; exact hc
  | cur, x :: r, cs, h => by
      simp only [removeKinds] at h
      split at h
      · simp at h
      · rename_i i hi
        intro c hc
        have := removeKinds_mem (cur.eraseIdx i) r cs h c hc
        exact List.mem_of_mem_eraseIdx this

theorem Inv.addStatement {t : Table} (hi : Inv ar t) (name : String) (cfgs : List CondCfg) (disp : Option Disp)
    (acts : Actions) : Inv ar (t.addStatement name cfgs disp acts).1 := by
  cases hr : resolveConds t cfgs with
  | none =>
      have e : t.addStatement name cfgs disp acts = (t, .invalid) := by simp [Table.addStatement, hr]
      rw [e]; exact hi
  | some v =>
      have hv := resolveConds_spec t hi cfgs v hr
      cases hl : alLookup name t.stmts with
      | none =>
          have e : t.addStatement name cfgs disp acts =
              ({ t with stmts := alInsert strLt name ⟨name, v, disp, acts⟩ t.stmts }, .ok) := by
            simp [Table.addStatement, hr, hl]
          rw [e]
          refine hi.set_stmts _ ?_ ?_
          · intro e he
            rcases mem_alInsert _ he with rfl | he
            · exact ⟨rfl, hv⟩
            · exact hi.stmts e he
          · intro m hm
            obtain ⟨e, he, s, hs, rfl⟩ := hm
            have h1 := (hi.pols e he).2 s hs
            have : s.name ≠ name := by
              intro heq; rw [heq, hl] at h1; cases h1
            exact alLookup_insert_ne _ this _ _
      | some ex =>
          by_cases hu : stmtInUse t name = true
          · have e : t.addStatement name cfgs disp acts = (t, .inUse) := by simp [Table.addStatement, hr, hl, hu]
            rw [e]; exact hi
          · have hu' : stmtInUse t name = false := by simpa using hu
            have hex := hi.stmts _ (alLookup_mem hl)
            cases hm : mergeConds ex.conds v with
            | none =>
                have e : t.addStatement name cfgs disp acts = (t, .invalid) := by
                  simp [Table.addStatement, hr, hl, hu', hm]
                rw [e]; exact hi
            | some cs =>
                by_cases h1 : (disp.isSome && ex.disp.isSome) = true
                · have e : t.addStatement name cfgs disp acts = (t, .invalid) := by
                    simp only [Table.addStatement, hr, hl, hu', hm, h1]; simp
                  rw [e]; exact hi
                · by_cases h2 : ex.acts.conflicts acts = true
                  · have e : t.addStatement name cfgs disp acts = (t, .invalid) := by
                      simp only [Table.addStatement, hr, hl, hu', hm, h1, h2]; simp
                    rw [e]; exact hi
                  · have e : t.addStatement name cfgs disp acts =
                        ({ t with stmts := alInsert strLt name (Stmt.mk ex.name cs (optOr disp ex.disp) (ex.acts.union acts)) t.stmts }, .ok) := by
                      simp only [Table.addStatement, hr, hl, hu', hm, h1, h2]; simp
                    rw [e]
                    refine hi.set_stmts _ ?_ ?_
                    · intro e he
                      rcases mem_alInsert _ he with rfl | he
                      · refine ⟨hex.1, fun c hc => ?_⟩
                        rcases mergeConds_mem _ _ _ hm c hc with h | h
                        · exact hex.2 c h
                        · exact hv c h
                      · exact hi.stmts e he
                    · intro m hm'
                      have : m ≠ name := by
                        intro heq; subst heq
                        have := (stmtInUse_iff t m).2 hm'
                        rw [this] at hu'; cases hu'
                      exact alLookup_insert_ne _ this _ _

theorem Inv.deleteStatement {t : Table} (hi : Inv ar t) (name : String) (all : Bool) (cfgs : List CondCfg)
    (disp : Option Disp) (acts : Actions) : Inv ar (t.deleteStatement name all cfgs disp acts).1 := by
  by_cases hu : stmtInUse t name = true
  · have e : t.deleteStatement name all cfgs disp acts = (t, .inUse) := by simp [Table.deleteStatement, hu]
    rw [e]; exact hi
  · have hu' : stmtInUse t name = false := by simpa using hu
    have hne : ∀ m, stmtUsed t.pols m → m ≠ name := by
      intro m hm heq; subst heq
      have := (stmtInUse_iff t m).2 hm
      rw [this] at hu'; cases hu'
    cases hl : alLookup name t.stmts with
    | none =>
        have e : t.deleteStatement name all cfgs disp acts = (t, .notFound) := by
          cases all <;> simp [Table.deleteStatement, hu', hl]
        rw [e]; exact hi
    | some ex =>
        have hex := hi.stmts _ (alLookup_mem hl)
        cases all with
        | true =>
            have e : t.deleteStatement name true cfgs disp acts = ({ t with stmts := alErase name t.stmts }, .ok) := by
              simp [Table.deleteStatement, hu', hl]
            rw [e]
            exact hi.set_stmts _ (fun e he => hi.stmts e (mem_alErase he))
              (fun m hm => alLookup_erase_ne (hne m hm) _)
        | false =>
            cases hr : removeKinds ex.conds cfgs with
            | none =>
                have e : t.deleteStatement name false cfgs disp acts = (t, .invalid) := by
                  simp [Table.deleteStatement, hu', hl, hr]
                rw [e]; exact hi
            | some cs =>
                by_cases h1 : (disp.isSome && ex.disp.isNone) = true
                · have e : t.deleteStatement name false cfgs disp acts = (t, .invalid) := by
                    simp only [Table.deleteStatement, hu', hl, hr, h1]; simp
                  rw [e]; exact hi
                · by_cases h2 : ex.acts.missing acts = true
                  · have e : t.deleteStatement name false cfgs disp acts = (t, .invalid) := by
                      simp only [Table.deleteStatement, hu', hl, hr, h1, h2]; simp
                    rw [e]; exact hi
                  · have e : t.deleteStatement name false cfgs disp acts =
                        ({ t with stmts := alInsert strLt name (Stmt.mk ex.name cs (if disp.isSome then none else ex.disp) (ex.acts.minus acts)) t.stmts }, .ok) := by
                      simp only [Table.deleteStatement, hu', hl, hr, h1, h2]; simp
                    rw [e]
                    refine hi.set_stmts _ ?_ (fun m hm => alLookup_insert_ne _ (hne m hm) _ _)
                    intro e he
                    rcases mem_alInsert _ he with rfl | he
                    · exact ⟨hex.1, fun c hc => hex.2 c (removeKinds_mem _ _ _ hr c hc)⟩
                    · exact hi.stmts e he

/-! ## policies -/

/-- a policy name one of the two global assignments uses -/
def polUsed (t : Table) (m : String) : Prop :=
  (∃ a, t.imp = some a ∧ ∃ p ∈ a.pols, p.name = m) ∨ (∃ a, t.exp = some a ∧ ∃ p ∈ a.pols, p.name = m)

theorem polInUse_iff (t : Table) (m : String) : polInUse t m = true ↔ polUsed t m := by
  simp only [polInUse, polUsed, Bool.or_eq_true]
  constructor
  · rintro (h | h)
    · left
      cases hi : t.imp with
      | none => simp [hi] at h
      | some a =>
          simp only [hi, List.any_eq_true, beq_iff_eq] at h
          exact ⟨a, rfl, h⟩
    · right
      cases he : t.exp with
      | none => simp [he] at h
      | some a =>
          simp only [he, List.any_eq_true, beq_iff_eq] at h
          exact ⟨a, rfl, h⟩
  · rintro (⟨a, ha, h⟩ | ⟨a, ha, h⟩)
    · left; simp only [ha, List.any_eq_true, beq_iff_eq]; exact h
    · right; simp only [ha, List.any_eq_true, beq_iff_eq]; exact h

/-- replacing policy map and statement map together -/
theorem Inv.set_pols {t : Table} (hi : Inv ar t) (pols' : List (String × Policy)) (stmts' : List (String × Stmt))
    (hstm : ∀ e ∈ stmts', e ∈ t.stmts)
    (hmem : ∀ e ∈ pols', e.2.name = e.1 ∧ ∀ s ∈ e.2.stmts, alLookup s.name stmts' = some s)
    (hused : ∀ m, polUsed t m → alLookup m pols' = alLookup m t.pols) :
    Inv ar { t with pols := pols', stmts := stmts' } := by
  refine ⟨hi.sets, ?_, hmem, ?_, ?_⟩
  · intro e he
    have h0 := hi.stmts e (hstm e he)
    refine ⟨h0.1, fun c hc => ⟨?_, (h0.2 c hc).2⟩⟩
    have := (h0.2 c hc).1
    cases c <;> exact this
  · intro a ha p hp
    show alLookup p.name pols' = some p
    rw [hused p.name (Or.inl ⟨a, ha, p, hp, rfl⟩)]
    exact hi.imp a ha p hp
  · intro a ha p hp
    show alLookup p.name pols' = some p
    rw [hused p.name (Or.inr ⟨a, ha, p, hp, rfl⟩)]
    exact hi.exp a ha p hp

theorem resolveStmts_spec (t : Table) (hi : Inv ar t) : ∀ (names : List String) (v : List Stmt),
    resolveStmts t names = some v → ∀ s ∈ v, alLookup s.name t.stmts = some s
  | [], v, h => by simp [resolveStmts] at h; subst h; simp
  | n :: r, v, h => by
      simp only [resolveStmts] at h
      cases hl : alLookup n t.stmts with
      | none => simp [hl] at h
      | some s0 =>
          simp only [hl, Option.map_eq_some_iff] at h
          obtain ⟨ss, hss, rfl⟩ := h
          intro s hs
          simp at hs
          rcases hs with rfl | hs
          · have := (hi.stmts _ (alLookup_mem hl)).1
            simp only at this
            rw [this]; exact hl
          · exact resolveStmts_spec t hi r ss hss s hs

/-- the clean-up after a policy delete keeps every statement some remaining policy uses -/
theorem cleanupStmts_lookup (pols : List (String × Policy)) (m : String) (hm : stmtUsed pols m) :
    ∀ (removed : List Stmt) (stmts : List (String × Stmt)),
      alLookup m (cleanupStmts pols removed stmts) = alLookup m stmts
  | [], stmts => rfl
  | s :: r, stmts => by
      simp only [cleanupStmts, List.foldl]
      by_cases hu : (pols.any fun p => p.2.stmts.any fun x => x.name == s.name) = true
      · simp only [hu, if_true]
        exact cleanupStmts_lookup pols m hm r stmts
      · simp only [hu, Bool.false_eq_true, if_false]
        have hne : m ≠ s.name := by
          intro heq; subst heq
          apply hu
          obtain ⟨e, he, x, hx, hxn⟩ := hm
          simp only [List.any_eq_true, beq_iff_eq]
          exact ⟨e, he, x, hx, hxn⟩
        have := cleanupStmts_lookup pols m hm r (alErase s.name stmts)
        simp only [cleanupStmts] at this
        rw [this, alLookup_erase_ne hne]

theorem cleanupStmts_mem (pols : List (String × Policy)) : ∀ (removed : List Stmt) (stmts : List (String × Stmt)),
    ∀ e ∈ cleanupStmts pols removed stmts, e ∈ stmts
  | [], stmts, e, he => he
  | s :: r, stmts, e, he => by
      simp only [cleanupStmts, List.foldl] at he
      split at he
      · exact cleanupStmts_mem pols r stmts e he
      · exact mem_alErase (cleanupStmts_mem pols r _ e he)

theorem Inv.addPolicy {t : Table} (hi : Inv ar t) (name : String) (names : List String) :
    Inv ar (t.addPolicy name names).1 := by
  cases hr : resolveStmts t names with
  | none =>
      have e : t.addPolicy name names = (t, .invalid) := by simp [Table.addPolicy, hr]
      rw [e]; exact hi
  | some v =>
      have hv := resolveStmts_spec t hi names v hr
      cases hl : alLookup name t.pols with
      | none =>
          have e : t.addPolicy name names = ({ t with pols := alInsert strLt name ⟨name, v⟩ t.pols }, .ok) := by
            simp [Table.addPolicy, hr, hl]
          rw [e]
          refine hi.set_pols _ t.stmts (fun _ h => h) ?_ ?_
          · intro e he
            rcases mem_alInsert _ he with rfl | he
            · exact ⟨rfl, hv⟩
            · exact hi.pols e he
          · intro m hm
            have : m ≠ name := by
              intro heq; subst heq
              rcases hm with ⟨a, ha, p, hp, hpn⟩ | ⟨a, ha, p, hp, hpn⟩
              · have := hi.imp a ha p hp; rw [hpn, hl] at this; cases this
              · have := hi.exp a ha p hp; rw [hpn, hl] at this; cases this
            exact alLookup_insert_ne _ this _ _
      | some ex =>
          by_cases hu : polInUse t name = true
          · have e : t.addPolicy name names = (t, .inUse) := by simp [Table.addPolicy, hr, hl, hu]
            rw [e]; exact hi
          · have hu' : polInUse t name = false := by simpa using hu
            have hex := hi.pols _ (alLookup_mem hl)
            have e : t.addPolicy name names =
                ({ t with pols := alInsert strLt name (Policy.mk ex.name (ex.stmts ++ v)) t.pols }, .ok) := by
              simp [Table.addPolicy, hr, hl, hu']
            rw [e]
            refine hi.set_pols _ t.stmts (fun _ h => h) ?_ ?_
            · intro e he
              rcases mem_alInsert _ he with rfl | he
              · refine ⟨hex.1, fun s hs => ?_⟩
                simp at hs
                rcases hs with hs | hs
                · exact hex.2 s hs
                · exact hv s hs
              · exact hi.pols e he
            · intro m hm
              have : m ≠ name := by
                intro heq; subst heq
                have := (polInUse_iff t m).2 hm
                rw [this] at hu'; cases hu'
              exact alLookup_insert_ne _ this _ _

theorem Inv.deletePolicy {t : Table} (hi : Inv ar t) (name : String) (preserve all : Bool) (names : List String) :
    Inv ar (t.deletePolicy name preserve all names).1 := by
  by_cases hu : polInUse t name = true
  · have e : t.deletePolicy name preserve all names = (t, .inUse) := by simp [Table.deletePolicy, hu]
    rw [e]; exact hi
  · have hu' : polInUse t name = false := by simpa using hu
    have hne : ∀ m, polUsed t m → m ≠ name := by
      intro m hm heq; subst heq
      have := (polInUse_iff t m).2 hm
      rw [this] at hu'; cases hu'
    cases hl : alLookup name t.pols with
    | none =>
        have e : t.deletePolicy name preserve all names = (t, .notFound) := by simp [Table.deletePolicy, hu', hl]
        rw [e]; exact hi
    | some ex =>
        have hex := hi.pols _ (alLookup_mem hl)
        cases all with
        | true =>
            have heq : t.deletePolicy name preserve true names =
                ({ t with pols := alErase name t.pols,
                          stmts := if preserve then t.stmts else cleanupStmts (alErase name t.pols) ex.stmts t.stmts }, .ok) := by
              simp [Table.deletePolicy, hu', hl]
            rw [heq]; clear heq
            refine hi.set_pols _ _ ?_ ?_ (fun m hm => alLookup_erase_ne (hne m hm) _)
            · intro e he
              cases preserve
              · exact cleanupStmts_mem _ _ _ e he
              · exact he
            · intro e he
              have he' := mem_alErase he
              refine ⟨(hi.pols e he').1, fun s hs => ?_⟩
              cases preserve
              · simp only [Bool.false_eq_true, if_false]
                rw [cleanupStmts_lookup _ s.name ⟨e, he, s, hs, rfl⟩]
                exact (hi.pols e he').2 s hs
              · exact (hi.pols e he').2 s hs
        | false =>
            have heq : t.deletePolicy name preserve false names =
                ({ t with pols := alInsert strLt name (Policy.mk ex.name (ex.stmts.filter (fun s => !names.contains s.name))) t.pols,
                          stmts := if preserve then t.stmts else
                            cleanupStmts (alInsert strLt name (Policy.mk ex.name (ex.stmts.filter (fun s => !names.contains s.name))) t.pols)
                              (ex.stmts.filter (fun s => names.contains s.name)) t.stmts }, .ok) := by
              simp [Table.deletePolicy, hu', hl]
            rw [heq]; clear heq
            refine hi.set_pols _ _ ?_ ?_ (fun m hm => alLookup_insert_ne _ (hne m hm) _ _)
            · intro e he
              cases preserve
              · exact cleanupStmts_mem _ _ _ e he
              · exact he
            · intro e he
              have horig : e.2.name = e.1 ∧ ∀ s ∈ e.2.stmts, alLookup s.name t.stmts = some s := by
                rcases mem_alInsert _ he with rfl | he'
                · exact ⟨hex.1, fun s hs => hex.2 s (List.mem_filter.1 hs).1⟩
                · exact hi.pols e he'
              refine ⟨horig.1, fun s hs => ?_⟩
              cases preserve
              · simp only [Bool.false_eq_true, if_false]
                rw [cleanupStmts_lookup _ s.name ⟨e, he, s, hs, rfl⟩]
                exact horig.2 s hs
              · exact horig.2 s hs

/-! ## assignments -/

theorem resolvePols_spec (t : Table) (hi : Inv ar t) : ∀ (names : List String) (v : List Policy),
    resolvePols t names = some v → ∀ p ∈ v, alLookup p.name t.pols = some p
  | [], v, h => by simp [resolvePols] at h; subst h; simp
  | n :: r, v, h => by
      simp only [resolvePols] at h
      cases hl : alLookup n t.pols with
      | none => simp [hl] at h
      | some p0 =>
          simp only [hl, Option.map_eq_some_iff] at h
          obtain ⟨ps, hps, rfl⟩ := h
          intro p hp
          simp at hp
          rcases hp with rfl | hp
          · have := (hi.pols _ (alLookup_mem hl)).1
            simp only at this
            rw [this]; exact hl
          · exact resolvePols_spec t hi r ps hps p hp

theorem Inv.setSlot {t : Table} (hi : Inv ar t) (d : Dir) (a : Option Assign)
    (ha : ∀ x, a = some x → ∀ p ∈ x.pols, alLookup p.name t.pols = some p) : Inv ar (t.setSlot d a) := by
  cases d
  · exact ⟨hi.sets, hi.stmts, hi.pols, fun x hx => ha x hx, hi.exp⟩
  · exact ⟨hi.sets, hi.stmts, hi.pols, hi.imp, fun x hx => ha x hx⟩

theorem Inv.slot {t : Table} (hi : Inv ar t) (d : Dir) (a : Assign) (h : t.slot d = some a) :
    ∀ p ∈ a.pols, alLookup p.name t.pols = some p := by
  cases d
  · exact hi.imp a h
  · exact hi.exp a h

theorem buildAssignment_spec {t : Table} (hi : Inv ar t) (existing : Option Assign)
    (hex : ∀ x, existing = some x → ∀ p ∈ x.pols, alLookup p.name t.pols = some p)
    (name : String) (d : Dir) (dflt : Disp) (names : List String) (a : Assign)
    (h : buildAssignment t existing name d dflt names = some a) :
    ∀ p ∈ a.pols, alLookup p.name t.pols = some p := by
  simp only [buildAssignment] at h
  cases hr : resolvePols t names with
  | none => simp [hr] at h
  | some v =>
      have hv := resolvePols_spec t hi names v hr
      simp only [hr] at h
      split at h
      · simp at h
      · cases existing with
        | none => simp at h; subst h; exact hv
        | some old =>
            simp only at h
            split at h
            · simp at h
            · simp at h; subst h
              intro p hp
              simp at hp
              rcases hp with hp | hp
              · exact hv p hp
              · exact hex old rfl p hp

theorem Inv.addAssignment {t : Table} (hi : Inv ar t) (d : Dir) (name : String) (dflt : Disp) (names : List String) :
    Inv ar (t.addAssignment d name dflt names).1 := by
  simp only [Table.addAssignment]
  cases hb : buildAssignment t (t.slot d) name d dflt names with
  | none => exact hi
  | some a =>
      refine hi.setSlot d (some a) ?_
      intro x hx; cases hx
      exact buildAssignment_spec hi (t.slot d) (fun x hx => hi.slot d x hx) name d dflt names a hb

theorem Inv.setAssignment {t : Table} (hi : Inv ar t) (d : Dir) (name : String) (dflt : Disp) (names : List String) :
    Inv ar (t.setAssignment d name dflt names).1 := by
  simp only [Table.setAssignment]
  cases hb : buildAssignment t none name d dflt names with
  | none => exact hi
  | some a =>
      refine hi.setSlot d (some a) ?_
      intro x hx; cases hx
      exact buildAssignment_spec hi none (fun x hx => by cases hx) name d dflt names a hb

theorem Inv.deleteAssignment {t : Table} (hi : Inv ar t) (d : Dir) (all : Bool) (names : List String) :
    Inv ar (t.deleteAssignment d all names).1 := by
  simp only [Table.deleteAssignment]
  cases all
  · simp only [Bool.false_eq_true, if_false]
    cases hs : t.slot d with
    | none => exact hi
    | some old =>
        refine hi.setSlot d _ ?_
        intro x hx; cases hx
        intro p hp
        exact hi.slot d old hs p (List.mem_filter.1 hp).1
  · simp only [if_true]
    exact hi.setSlot d none (fun x hx => by cases hx)

/-! ## every call, every sequence of calls -/

theorem Inv.step (env : RegexEnv) {t : Table} (hi : Inv ar t) (op : Op) (hno : ar = true ∨ op.noAsRegex = true) :
    Inv ar (t.step env op).1 := by
  cases op with
  | setAdd k n e =>
      exact hi.addDefinedSet env k n e (hno.imp id (fun h hk => by subst hk; exact h))
  | setReplace k n e =>
      exact hi.replaceDefinedSet env k n e (hno.imp id (fun h hk => by subst hk; exact h))
  | setDel k n all e => exact hi.deleteDefinedSet env k n all e
  | stmtAdd n c d a => exact hi.addStatement n c d a
  | stmtDel n all c d a => exact hi.deleteStatement n all c d a
  | polAdd n s => exact hi.addPolicy n s
  | polDel n pr all s => exact hi.deletePolicy n pr all s
  | asgAdd d n df p => exact hi.addAssignment d n df p
  | asgSet d n df p => exact hi.setAssignment d n df p
  | asgDel d all p => exact hi.deleteAssignment d all p

/-- the table after a sequence of calls -/
def runTable (env : RegexEnv) : Table → List Op → Table
  | t, [] => t
  | t, op :: ops => runTable env (t.step env op).1 ops

theorem Inv.run (env : RegexEnv) : ∀ (ops : List Op) {t : Table}, Inv ar t →
    (ar = true ∨ ∀ op ∈ ops, op.noAsRegex = true) → Inv ar (runTable env t ops)
  | [], _, hi, _ => hi
  | op :: ops, _, hi, hno =>
      Inv.run env ops (hi.step env op (hno.imp id (fun h => h op (by simp))))
        (hno.imp id (fun h o ho => h o (by simp [ho])))

end Rbgp.Policy
