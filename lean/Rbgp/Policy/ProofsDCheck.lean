/-
  Rbgp.Policy.ProofsDCheck — `dcheck_run_ok`: the daemon-level reference checker (`DSpec.dcheck`)
  accepts every run of the daemon-level model.
-/
import Rbgp.Policy.ProofsD
import Rbgp.Policy.ProofsStored
namespace Rbgp.Policy
open Rbgp.Policy

variable {ar : Bool}

def DState.pub (s : DState) : Dir → Option Assign
  | .imp => s.pubImp
  | .exp => s.pubExp

theorem DInv.pub_slot {s : DState} (hd : DInv ar s) (d : Dir) : s.pub d = s.t.slot d := by
  cases d
  · exact hd.pimp
  · exact hd.pexp

theorem DInv.pub_closed {s : DState} (hd : DInv ar s) (d : Dir) (a : Assign) (h : s.pub d = some a) :
    ∀ p ∈ a.pols, alLookup p.name s.t.pols = some p := by
  rw [hd.pub_slot d] at h
  exact hd.inv.slot d a h

/-! ## the table after one daemon call -/

/-- apart from a full reload, the table after a daemon call is the old one or the result of one
    table call on it -/
theorem dstep_table (env : RegexEnv) (s : DState) (op : DOp) (h : DSpec.isReload op = false) :
    (s.step env op).1.t = s.t ∨ ∃ op', (s.step env op).1.t = (s.t.step env op').1 := by
  cases op with
  | tbl op =>
      simp only [DState.step]
      split
      · exact Or.inr ⟨op, rfl⟩
      · exact Or.inl rfl
  | polAdd n ss =>
      simp only [DState.step]
      split
      · exact Or.inl rfl
      · exact Or.inr ⟨.polAdd n ss, rfl⟩
  | polDel n pr all ss =>
      simp only [DState.step]
      split
      · exact Or.inl rfl
      · split
        · exact Or.inr ⟨.polDel n pr all ss, rfl⟩
        · exact Or.inl rfl
  | asgAdd hh d df ps =>
      cases hh with
      | global =>
          simp only [DState.step]
          split
          · right; refine ⟨.asgAdd d "global" (apiDflt df) ps, ?_⟩; cases d <;> rfl
          · exact Or.inl rfl
      | peer a =>
          simp only [DState.step]
          repeat' split
          all_goals exact Or.inl rfl
  | asgDel hh d all ps =>
      cases hh with
      | global =>
          simp only [DState.step]
          split
          · right; refine ⟨.asgDel d all ps, ?_⟩; cases d <;> rfl
          · exact Or.inl rfl
      | peer a =>
          simp only [DState.step]
          repeat' split
          all_goals exact Or.inl rfl
  | asgSet hh d df ps =>
      cases hh with
      | global =>
          simp only [DState.step]
          split
          · right; refine ⟨.asgSet d "global" (apiDflt df) ps, ?_⟩; cases d <;> rfl
          · exact Or.inl rfl
      | peer a =>
          simp only [DState.step]
          repeat' split
          all_goals exact Or.inl rfl
  | peerAdd a ex =>
      simp only [DState.step]
      repeat' split
      all_goals exact Or.inl rfl
  | peerDel a =>
      simp only [DState.step]
      repeat' split
      all_goals exact Or.inl rfl
  | setPolicies ops => simp [DSpec.isReload] at h

theorem dstep_refsStable (env : RegexEnv) {s : DState} (hd : DInv ar s) (op : DOp)
    (hd' : DInv ar (s.step env op).1) (h : DSpec.isReload op = false) :
    Spec.refsStable s.t.dump (s.step env op).1.t.dump = true := by
  rcases dstep_table env s op h with he | ⟨op', he⟩
  · rw [he]; exact refsStable_refl hd.inv
  · have hi' := hd'.inv
    rw [he] at hi' ⊢
    exact refsStable_ok env hd.inv op' hi'

/-- a policy used by any holder is what it was after a call that is not a reload -/
theorem dstep_pols_lookup (env : RegexEnv) {s : DState} (hd : DInv ar s) (op : DOp) (h : DSpec.isReload op = false)
    (m : String) (hu : polUsed s.t m ∨ peerUsed s m) :
    alLookup m (s.step env op).1.t.pols = alLookup m s.t.pols := by
  cases op with
  | tbl op =>
      simp only [DState.step]
      split
      · rename_i hs; simp only [(setStmt_other env s.t op hs).1]
      · rfl
  | polAdd n ss =>
      simp only [DState.step]
      split
      · rfl
      · rename_i hg
        have hg' : peerRefs s n = false := by simpa using hg
        rcases hu with hu | hu
        · exact step_pols_lookup env hd.inv (.polAdd n ss) m hu
        · exact lookup_addPolicy_peer hd n ss hg' m hu
  | polDel n pr all ss =>
      simp only [DState.step]
      split
      · rfl
      · rename_i hg
        have hg' : peerRefs s n = false := by simpa using hg
        split
        · rcases hu with hu | hu
          · exact step_pols_lookup env hd.inv (.polDel n pr all ss) m hu
          · exact lookup_deletePolicy_peer n pr all ss hg' m hu
        · rfl
  | asgAdd hh d df ps =>
      cases hh with
      | global =>
          simp only [DState.step]
          split
          · have hf := asgStep_frame s.t d (s.t.addAssignment d "global" (apiDflt df) ps).1 (Or.inl ⟨_, _, _, rfl⟩)
            cases d <;> simp only [DState.publish, hf.2]
          · rfl
      | peer a => simp only [DState.step]; repeat' split
                  all_goals rfl
  | asgDel hh d all ps =>
      cases hh with
      | global =>
          simp only [DState.step]
          split
          · have hf := asgStep_frame s.t d (s.t.deleteAssignment d all ps).1 (Or.inr (Or.inr ⟨_, _, rfl⟩))
            cases d <;> simp only [DState.publish, hf.2]
          · rfl
      | peer a => simp only [DState.step]; repeat' split
                  all_goals rfl
  | asgSet hh d df ps =>
      cases hh with
      | global =>
          simp only [DState.step]
          split
          · have hf := asgStep_frame s.t d (s.t.setAssignment d "global" (apiDflt df) ps).1 (Or.inr (Or.inl ⟨_, _, _, rfl⟩))
            cases d <;> simp only [DState.publish, hf.2]
          · rfl
      | peer a => simp only [DState.step]; repeat' split
                  all_goals rfl
  | peerAdd a ex => simp only [DState.step]; repeat' split
                    all_goals rfl
  | peerDel a => simp only [DState.step]; repeat' split
                 all_goals rfl
  | setPolicies ops => simp [DSpec.isReload] at h

/-! ## holders a call is not addressed to -/

theorem dstep_pub (env : RegexEnv) {s : DState} (hd : DInv ar s) (op : DOp) (d : Dir) (h : DSpec.targetsPub d op = false) :
    (s.step env op).1.pub d = s.pub d := by
  cases op with
  | tbl op => simp only [DState.step]; split <;> cases d <;> rfl
  | polAdd n ss => simp only [DState.step]; split <;> cases d <;> rfl
  | polDel n pr all ss =>
      simp only [DState.step]
      split
      · rfl
      · split
        · have ho := deletePolicy_other s.t n pr all ss
          cases d
          · simp only [DState.pub, ho.2.1]; exact hd.pimp.symm
          · simp only [DState.pub, ho.2.2]; exact hd.pexp.symm
        · rfl
  | asgAdd hh d' df ps =>
      cases hh with
      | global =>
          have hne : d ≠ d' := by intro e; subst e; simp [DSpec.targetsPub] at h
          simp only [DState.step]
          split
          · cases d <;> cases d' <;> first | rfl | exact absurd rfl hne
          · rfl
      | peer a => simp only [DState.step]; repeat' split
                  all_goals (cases d <;> rfl)
  | asgDel hh d' all ps =>
      cases hh with
      | global =>
          have hne : d ≠ d' := by intro e; subst e; simp [DSpec.targetsPub] at h
          simp only [DState.step]
          split
          · cases d <;> cases d' <;> first | rfl | exact absurd rfl hne
          · rfl
      | peer a => simp only [DState.step]; repeat' split
                  all_goals (cases d <;> rfl)
  | asgSet hh d' df ps =>
      cases hh with
      | global =>
          have hne : d ≠ d' := by intro e; subst e; simp [DSpec.targetsPub] at h
          simp only [DState.step]
          split
          · cases d <;> cases d' <;> first | rfl | exact absurd rfl hne
          · rfl
      | peer a => simp only [DState.step]; repeat' split
                  all_goals (cases d <;> rfl)
  | peerAdd a ex => simp only [DState.step]; repeat' split
                    all_goals (cases d <;> rfl)
  | peerDel a => simp only [DState.step]; repeat' split
                 all_goals (cases d <;> rfl)
  | setPolicies ops => simp [DSpec.targetsPub] at h

theorem dstep_peer (env : RegexEnv) (s : DState) (op : DOp) (a : Addr) (h : DSpec.targetsPeer a op = false) :
    alLookup a (s.step env op).1.peers = alLookup a s.peers := by
  cases op with
  | tbl op => simp only [DState.step]; split <;> rfl
  | polAdd n ss => simp only [DState.step]; split <;> rfl
  | polDel n pr all ss => simp only [DState.step]; repeat' split
                          all_goals rfl
  | asgAdd hh d' df ps =>
      cases hh with
      | global => simp only [DState.step]; split
                  · cases d' <;> rfl
                  · rfl
      | peer b =>
          have hne : a ≠ b := by intro e; subst e; simp [DSpec.targetsPeer] at h
          simp only [DState.step]; repeat' split
          all_goals first | rfl | exact alLookup_insert_ne _ hne _ _
  | asgDel hh d' all ps =>
      cases hh with
      | global => simp only [DState.step]; split
                  · cases d' <;> rfl
                  · rfl
      | peer b =>
          have hne : a ≠ b := by intro e; subst e; simp [DSpec.targetsPeer] at h
          simp only [DState.step]; repeat' split
          all_goals first | rfl | exact alLookup_insert_ne _ hne _ _
  | asgSet hh d' df ps =>
      cases hh with
      | global => simp only [DState.step]; split
                  · cases d' <;> rfl
                  · rfl
      | peer b =>
          have hne : a ≠ b := by intro e; subst e; simp [DSpec.targetsPeer] at h
          simp only [DState.step]; repeat' split
          all_goals first | rfl | exact alLookup_insert_ne _ hne _ _
  | peerAdd b ex =>
      have hne : a ≠ b := by intro e; subst e; simp [DSpec.targetsPeer] at h
      simp only [DState.step]; repeat' split
      all_goals first | rfl | exact alLookup_insert_ne _ hne _ _
  | peerDel b =>
      have hne : a ≠ b := by intro e; subst e; simp [DSpec.targetsPeer] at h
      simp only [DState.step]; repeat' split
      all_goals first | rfl | exact alLookup_erase_ne hne _
  | setPolicies ops => simp [DSpec.targetsPeer] at h

/-! ## observations of holders -/

def peersObs (env : RegexEnv) (rs : List Route) (s : DState) : List (Addr × HObs) :=
  s.peers.map (fun p => (p.1, holderObs env .exp rs p.2))

theorem lookupPeer_map (f : Option Assign → HObs) (a : Addr) : ∀ (l : List (Addr × Option Assign)),
    DSpec.lookupPeer a (l.map (fun p => (p.1, f p.2))) = (alLookup a l).map f
  | [] => rfl
  | (k, v) :: r => by
      have ih := lookupPeer_map f a r
      simp only [DSpec.lookupPeer] at ih ⊢
      simp only [List.map_cons, List.find?, alLookup]
      by_cases h : k = a
      · simp [h]
      · simp only [h, decide_false, if_false]
        exact ih

theorem alLookup_isSome_of_mem {a : Addr} {v : Option Assign} : ∀ {l : List (Addr × Option Assign)},
    (a, v) ∈ l → (alLookup a l).isSome = true
  | (k, w) :: r, h => by
      simp only [alLookup]
      by_cases hk : k = a
      · simp [hk]
      · simp only [hk, if_false]
        simp only [List.mem_cons, Prod.mk.injEq] at h
        rcases h with ⟨h1, _⟩ | h
        · exact absurd h1.symm hk
        · exact alLookup_isSome_of_mem h

theorem holderObs_listing (env : RegexEnv) (d : Dir) (rs : List Route) (a : Option Assign) :
    DSpec.listingOf (holderObs env d rs a) = a.map Assign.dump := by
  cases a <;> rfl

/-- a holder whose policies are the table's evaluates as its names resolve -/
theorem holderFails_ok (env : RegexEnv) {t : Table} (hi : Inv false t) (d : Dir) (rs : List Route) (a : Option Assign)
    (hc : ∀ x, a = some x → ∀ p ∈ x.pols, alLookup p.name t.pols = some p) :
    DSpec.holderFails env d t.dump rs (holderObs env d rs a) = [] := by
  cases a with
  | none => rfl
  | some a =>
      simp only [holderObs, Option.map_some, DSpec.holderFails, List.length_map, ne_eq, not_true_eq_false, if_false,
        resolveAsg_closed hi a (hc a rfl), rpkiFlag_ok a, List.nil_append]
      apply allFails_nil
      intro x hx
      obtain ⟨r, p⟩ := x
      have := mem_zip_map (probe env d a) rs r p hx
      subst this
      exact checkProbe_closed env hi d a (hc a rfl) r

theorem peersFails_ok (env : RegexEnv) {t : Table} (hi : Inv false t) (rs : List Route) :
    ∀ (l : List (Addr × Option Assign)), (∀ e ∈ l, ∀ x, e.2 = some x → ∀ p ∈ x.pols, alLookup p.name t.pols = some p) →
    DSpec.peersFails env t.dump rs (l.map (fun p => (p.1, holderObs env .exp rs p.2))) = []
  | [], _ => rfl
  | e :: r, h => by
      simp only [List.map_cons, DSpec.peersFails, holderFails_ok env hi .exp rs e.2 (h e (by simp)), List.nil_append]
      exact peersFails_ok env hi rs r (fun e' he' => h e' (by simp [he']))

/-- what a daemon call asked of the table is listed afterwards -/
theorem drequest_ok (env : RegexEnv) {s : DState} (hd : DInv false s) (op : DOp) (hd' : DInv false (s.step env op).1) :
    (DSpec.requestOf op).elim true (fun o => Spec.requestStored o (s.step env op).2 (s.step env op).1.t.dump) = true := by
  cases op with
  | tbl op =>
      simp only [DSpec.requestOf, Option.elim, DState.step]
      by_cases hs : isSetStmtOp op = true
      · simp only [hs, if_true]
        have hi' := hd'.inv
        simp only [DState.step, hs, if_true] at hi'
        exact requestStored_ok env hd.inv op hi'
      · simp only [hs, Bool.false_eq_true, if_false]
        cases op <;> rfl
  | polAdd n ss =>
      simp only [DSpec.requestOf, Option.elim, DState.step]
      by_cases hg : peerRefs s n = true
      · simp only [hg, if_true]; rfl
      · simp only [hg, Bool.false_eq_true, if_false]
        have hi' := hd'.inv
        simp only [DState.step, hg, Bool.false_eq_true, if_false] at hi'
        exact requestStored_ok env hd.inv (.polAdd n ss) hi'
  | _ => rfl

/-- the policies a holder named before and after a call are listed unchanged -/
theorem holderStable_ok (env : RegexEnv) {s : DState} (hd : DInv false s) (op : DOp) (hd' : DInv false (s.step env op).1)
    (h : DSpec.isReload op = false) (dd dd' : Dir) (rs : List Route) (a0 a1 : Option Assign)
    (hu : ∀ x, a0 = some x → ∀ p ∈ x.pols, polUsed s.t p.name ∨ peerUsed s p.name) :
    DSpec.holderStable s.t.dump (s.step env op).1.t.dump (holderObs env dd rs a0) (holderObs env dd' rs a1) = true := by
  cases a0 with
  | none => cases a1 <;> rfl
  | some x0 =>
      cases a1 with
      | none => rfl
      | some x1 =>
          simp only [holderObs, Option.map_some, DSpec.holderStable, List.all_eq_true]
          intro n _
          by_cases hc : x0.dump.pols.contains n = true
          · have hmem : n ∈ x0.dump.pols := by simpa using hc
            simp only [Assign.dump, List.mem_map] at hmem
            obtain ⟨p1, hp1, hp1n⟩ := hmem
            have hused := hu x0 rfl p1 hp1
            rw [hp1n] at hused
            have h1 := dstep_pols_lookup env hd op h n hused
            have hsome : ∃ px, alLookup n s.t.pols = some px := by
              rcases hused with hq | ⟨e, he, a, ha, p, hp, hpn⟩
              · exact polUsed_lookup hd.inv hq
              · exact ⟨p, by rw [← hpn]; exact hd.peers e he a ha p hp⟩
            obtain ⟨px, hpx⟩ := hsome
            simp [hc, lookupPol_dump hd.inv, lookupPol_dump hd'.inv, h1, hpx]
          · have : x0.dump.pols.contains n = false := by simpa using hc
            rw [this]; rfl

/-! ## the run -/

structure PeersRel (env : RegexEnv) (rs : List Route) (s : DState) (pp : List (Addr × HObs)) : Prop where
  look : ∀ a, DSpec.lookupPeer a pp = (alLookup a s.peers).map (holderObs env .exp rs)
  mem : ∀ p ∈ pp, (alLookup p.1 s.peers).isSome = true

theorem PeersRel.obs (env : RegexEnv) (rs : List Route) (s : DState) : PeersRel env rs s (peersObs env rs s) := by
  refine ⟨fun a => lookupPeer_map _ a s.peers, ?_⟩
  intro p hp
  simp only [peersObs, List.mem_map] at hp
  obtain ⟨e, he, rfl⟩ := hp
  exact alLookup_isSome_of_mem (v := e.2) he

theorem getD_map_holderObs (env : RegexEnv) (rs : List Route) (o : Option (Option Assign)) :
    (o.map (holderObs env .exp rs)).getD none = holderObs env .exp rs (o.getD none) := by
  cases o <;> rfl

theorem checkDSteps_ok (env : RegexEnv) (rs : List Route) : ∀ (ops : List DOp) (s : DState) (i : Nat) (pp : List (Addr × HObs)),
    DInv false s → PeersRel env rs s pp → (∀ op ∈ ops, op.noAsRegex = true) →
    DSpec.checkDSteps env rs i s.t.dump (holderObs env .imp rs s.pubImp) (holderObs env .exp rs s.pubExp) pp ops
      (drunOps env rs s ops) = .ok
  | [], s, i, pp, _, _, _ => by simp [drunOps, DSpec.checkDSteps]
  | op :: ops, s, i, pp, hd, hr, hop => by
      have hd' : DInv false (s.step env op).1 := hd.step env op (Or.inr (hop op (by simp)))
      have ih := checkDSteps_ok env rs ops (s.step env op).1 (i + 1) (peersObs env rs (s.step env op).1) hd'
        (PeersRel.obs env rs _) (fun o ho => hop o (by simp [ho]))
      -- clause 1: references inside the table
      have c1 : (!DSpec.isReload op && !Spec.refsStable s.t.dump (s.step env op).1.t.dump) = false := by
        cases hrl : DSpec.isReload op
        · simp [dstep_refsStable env hd op hd' hrl]
        · rfl
      -- clause 2: policies of holders
      have c2 : (!DSpec.isReload op && !(DSpec.holderStable s.t.dump (s.step env op).1.t.dump
            (holderObs env .imp rs s.pubImp) (holderObs env .imp rs (s.step env op).1.pubImp) &&
          DSpec.holderStable s.t.dump (s.step env op).1.t.dump
            (holderObs env .exp rs s.pubExp) (holderObs env .exp rs (s.step env op).1.pubExp) &&
          (peersObs env rs (s.step env op).1).all (fun p =>
            DSpec.holderStable s.t.dump (s.step env op).1.t.dump ((DSpec.lookupPeer p.1 pp).getD none) p.2))) = false := by
        cases hrl : DSpec.isReload op
        · have hpubUsed : ∀ (d : Dir) x, s.pub d = some x → ∀ p ∈ x.pols, polUsed s.t p.name ∨ peerUsed s p.name := by
            intro d x hx p hp
            left
            rw [hd.pub_slot d] at hx
            cases d
            · exact Or.inl ⟨x, hx, p, hp, rfl⟩
            · exact Or.inr ⟨x, hx, p, hp, rfl⟩
          have h1 := holderStable_ok env hd op hd' hrl .imp .imp rs s.pubImp (s.step env op).1.pubImp (hpubUsed .imp)
          have h2 := holderStable_ok env hd op hd' hrl .exp .exp rs s.pubExp (s.step env op).1.pubExp (hpubUsed .exp)
          have h3 : (peersObs env rs (s.step env op).1).all (fun p =>
              DSpec.holderStable s.t.dump (s.step env op).1.t.dump ((DSpec.lookupPeer p.1 pp).getD none) p.2) = true := by
            simp only [List.all_eq_true, peersObs, List.mem_map]
            rintro p ⟨e, _, rfl⟩
            simp only [hr.look, getD_map_holderObs]
            refine holderStable_ok env hd op hd' hrl .exp .exp rs _ e.2 ?_
            intro x hx q hq
            right
            cases hl : alLookup e.1 s.peers with
            | none => simp [hl] at hx
            | some v =>
                simp only [hl, Option.getD_some] at hx
                exact ⟨_, alLookup_mem hl, x, hx, q, hq, rfl⟩
          simp [h1, h2, h3]
        · rfl
      -- clauses 3-5: holders the call is not addressed to
      have c3 : (!DSpec.targetsPub .imp op &&
          decide (holderObs env .imp rs (s.step env op).1.pubImp ≠ holderObs env .imp rs s.pubImp)) = false := by
        cases ht : DSpec.targetsPub .imp op
        · have := dstep_pub env hd op .imp ht
          simp only [DState.pub] at this
          simp [this]
        · rfl
      have c4 : (!DSpec.targetsPub .exp op &&
          decide (holderObs env .exp rs (s.step env op).1.pubExp ≠ holderObs env .exp rs s.pubExp)) = false := by
        cases ht : DSpec.targetsPub .exp op
        · have := dstep_pub env hd op .exp ht
          simp only [DState.pub] at this
          simp [this]
        · rfl
      have c5 : (!((peersObs env rs (s.step env op).1).all (fun p => DSpec.targetsPeer p.1 op ||
            DSpec.lookupPeer p.1 pp == DSpec.lookupPeer p.1 (peersObs env rs (s.step env op).1)) &&
          pp.all (fun p => DSpec.targetsPeer p.1 op || (DSpec.lookupPeer p.1 (peersObs env rs (s.step env op).1)).isSome))) = false := by
        have hlook' := (PeersRel.obs env rs (s.step env op).1).look
        have a1 : (peersObs env rs (s.step env op).1).all (fun p => DSpec.targetsPeer p.1 op ||
            DSpec.lookupPeer p.1 pp == DSpec.lookupPeer p.1 (peersObs env rs (s.step env op).1)) = true := by
          simp only [List.all_eq_true]
          intro p _
          cases ht : DSpec.targetsPeer p.1 op
          · simp only [Bool.false_or, hr.look, hlook', dstep_peer env s op p.1 ht, beq_self_eq_true]
          · rfl
        have a2 : pp.all (fun p => DSpec.targetsPeer p.1 op ||
            (DSpec.lookupPeer p.1 (peersObs env rs (s.step env op).1)).isSome) = true := by
          simp only [List.all_eq_true]
          intro p hp
          cases ht : DSpec.targetsPeer p.1 op
          · have := hr.mem p hp
            simp only [Bool.false_or, hlook', dstep_peer env s op p.1 ht, Option.isSome_map]
            exact this
          · rfl
        simp [a1, a2]
      -- clause 6: the published copies are the table's assignments
      have c6 : (decide (DSpec.listingOf (holderObs env .imp rs (s.step env op).1.pubImp) ≠ (s.step env op).1.t.dump.imp) ||
          decide (DSpec.listingOf (holderObs env .exp rs (s.step env op).1.pubExp) ≠ (s.step env op).1.t.dump.exp)) = false := by
        simp only [holderObs_listing, hd'.pimp, hd'.pexp, Table.dump]
        simp
      -- clauses 7-9: every holder evaluates as its names resolve
      have c0 := drequest_ok env hd op hd'
      have c00 := heldCurrent_ok hd'.inv
      have c7 := holderFails_ok env hd'.inv .imp rs (s.step env op).1.pubImp (fun x hx => hd'.pub_closed .imp x hx)
      have c8 := holderFails_ok env hd'.inv .exp rs (s.step env op).1.pubExp (fun x hx => hd'.pub_closed .exp x hx)
      have c9 := peersFails_ok env hd'.inv rs (s.step env op).1.peers hd'.peers
      simp only [drunOps, DState.obs, DSpec.checkDSteps]
      simp only [peersObs] at c2 c5 ih
      simp only [c0, c00, c1, c2, c3, c4, c5, c6, c7, c8, c9, Bool.not_true, Bool.false_eq_true, if_false, List.append_nil,
        Spec.pickFail, List.find?, List.head?]
      exact ih

theorem lookupPeer_initObs (a : Addr) : ∀ (l : List Addr),
    DSpec.lookupPeer a (l.map (fun x => ((x, none) : Addr × HObs))) = if a ∈ l then some none else none
  | [] => rfl
  | x :: r => by
      have ih := lookupPeer_initObs a r
      simp only [DSpec.lookupPeer] at ih ⊢
      simp only [List.map_cons, List.find?, List.mem_cons]
      by_cases h : x = a
      · simp [h]
      · have h' : ¬ a = x := fun e => h e.symm
        simp only [h, decide_false, h', false_or]
        exact ih

theorem init_lookup (a : Addr) : ∀ (l : List Addr) (acc : List (Addr × Option Assign)), (∀ e ∈ acc, e.2 = none) →
    alLookup a (l.foldl initStep acc)
      = if a ∈ l then some none else alLookup a acc
  | [], acc, _ => by simp
  | x :: r, acc, h => by
      simp only [List.foldl, List.mem_cons]
      have hacc' : ∀ e ∈ initStep acc x, e.2 = none := by
        intro e he
        simp only [initStep] at he
        split at he
        · exact h e he
        · rcases mem_alInsert _ he with rfl | he'
          · rfl
          · exact h e he'
      rw [init_lookup a r _ hacc']
      by_cases hr : a ∈ r
      · simp [hr]
      · simp only [hr, if_false, or_false]
        by_cases hx : a = x
        · subst hx
          simp only [if_true, initStep]
          cases hl : alLookup a acc with
          | some v =>
              simp only []
              have := h _ (alLookup_mem hl)
              simp only at this
              rw [hl, this]
          | none => simp [alLookup_insert_self]
        · simp only [hx, if_false, initStep]
          cases hl : alLookup x acc with
          | some v => rfl
          | none => exact alLookup_insert_ne _ hx _ _

/-- master lemma, daemon level: the reference checker accepts every run of the model -/
theorem dcheck_run_ok (env : RegexEnv) (c : DCase) (h : ∀ op ∈ c.ops, op.noAsRegex = true) :
    DSpec.dcheck env c (drun env c) = .ok := by
  have hrel : PeersRel env c.probes (DState.init c.peers) (c.peers.map (fun a => (a, none))) := by
    constructor
    · intro a
      rw [lookupPeer_initObs]
      simp only [DState.init]
      rw [init_lookup a c.peers [] (by simp)]
      by_cases hm : a ∈ c.peers <;> simp [hm, alLookup, holderObs]
    · intro p hp
      simp only [List.mem_map] at hp
      obtain ⟨a, ha, rfl⟩ := hp
      simp only [DState.init]
      rw [init_lookup a c.peers [] (by simp)]
      simp [ha]
  exact checkDSteps_ok env c.probes c.ops (DState.init c.peers) 0 _ (DInv.init false c.peers) hrel h

end Rbgp.Policy
