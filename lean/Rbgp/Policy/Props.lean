/-
  Rbgp.Policy.Props — C14, the readable statements.

  Everything here is about the MODEL (`Rbgp.Policy.Model`, a transcription of
  table/src/policy.rs and the AS_PATH helpers of packet/src/bgp.rs) and the reference semantics
  `Rbgp.Policy.Spec` written from the property text.  `env : RegexEnv` — the regular-expression
  engine and the textual form of extended communities — is universally quantified everywhere.

  Restrictions that appear as explicit hypotheses (and why):
  * `Op.noAsRegex` : no free-form pattern in an AS-path set.  `Condition::evalute` never consults
    `AsPathSet.sets`, so the full statement is FALSE for the code as it is — see `C14_full` and
    `C14_full_refuted` at the end (known finding `F14-aspath-regex-ignored`).
  * `Spec.pathOk` : the route's AS_PATH payload is one `Attribute::decode` accepts.
-/
import Rbgp.Policy.Proofs
namespace Rbgp.Policy.Props
open Rbgp.Policy

def envAll0 : RegexEnv := { valid := fun _ => true, «matches» := fun _ _ => true, extStr := fun _ => none }

/-! ## 0. The reference checker accepts every run of the model -/

/-- For every probe set and every sequence of CRUD calls (add / replace / delete on sets,
    statements, policies, assignments, successful or not), the C14 reference checker accepts the
    model's observations: after every call each live assignment evaluates every probe exactly as
    the reference chain over what its names currently resolve to, nothing a surviving user
    references has changed, and unrelated calls leave the results alone. -/
theorem eval_eq_reference (env : RegexEnv) (c : Case)
    (h : ∀ op ∈ c.ops, op.noAsRegex = true) :
    Spec.check env c (run env c) = .ok :=
  check_run_ok env c h

/-- A community-set member given by a well-known NAME, in any mix of upper and lower case, is
    compiled to the pattern of the community that name stands for (RFC 1997, 3765, 7611, 7999,
    8326, 9494) — whatever the regular-expression engine is. -/
theorem wellknown_community_value (env : RegexEnv) (s : String) (v : Nat)
    (h : Spec.wellKnownValue s.toLower = some v) :
    parseCommunity env s = some s!"^{v / 65536}:{v % 65536}$" :=
  parseCommunity_wellKnown env s v h

/-- … and after every successful add / replace of a community set the listed set contains that
    pattern, for every table the calls can reach. -/
theorem wellknown_community_stored (env : RegexEnv) {ar : Bool} {t : Table} (hi : Inv ar t) (op : Op) :
    Spec.wellKnownOk op (t.step env op).2 (t.step env op).1.dump = true :=
  wellKnownOk_ok env hi op

/-- One evaluation: `PolicyAssignment::apply` on the objects the assignment holds returns (no
    panic) exactly what the reference chain returns over all their statements in order —
    disposition, attribute vector and next hop. -/
theorem eval_chain_eq_reference (env : RegexEnv) (cx : Ctx) (dflt : Disp) (ps : List Policy) (st : St)
    (hok : ∀ p ∈ ps, ∀ s ∈ p.stmts, ∀ c ∈ s.conds, c.ok = true) (hp : Spec.pathOk st.attrs = true) :
    applyPols env cx dflt ps st =
      some (Spec.refChain env {} cx dflt ((ps.map (fun p => p.stmts.map Stmt.toR)).flatten) st) :=
  applyPols_eq env cx dflt ps st hok hp

/-! ## 1. Prefix sets: any covering entry whose range contains the route's length -/

theorem prefixset_match_spec (es : List PEntry) (z z6 : Option (Nat × Nat)) (net : Addr) (mask : Nat) :
    prefixHit es z z6 net mask = true ↔
      ∃ e ∈ Spec.prefixEntries es z z6, Spec.covers e net mask = true ∧ e.lo ≤ mask ∧ mask ≤ e.hi := by
  rw [prefixHit_eq]
  simp only [List.any_eq_true, Spec.entryHit, Bool.and_eq_true, decide_eq_true_eq, and_assoc]

/-- non-vacuity (S24): a /8 entry with range 24..24 matches 10.1.1.0/24 although the longest
    matching entry, 10.1.0.0/16 with range 16..16, does not -/
example : prefixHit [⟨⟨false, 167772160⟩, 8, 24, 24⟩, ⟨⟨false, 167837696⟩, 16, 16, 16⟩] none none
    ⟨false, 167837952⟩ 24 = true := by decide

/-! ## 2. AS-path patterns never panic, whatever the segment structure -/

/-- `SingleAsPathMatch::is_match` returns for EVERY binary payload (empty segments, every segment
    type, even truncated or ill-typed data). -/
theorem aspath_match_total (s : Single) (code flags : Nat) (b : Bytes) :
    (s.isMatch ⟨code, flags, .bin b⟩).isSome = true := by
  simp [Single.isMatch, Attr.binary]

/-- ... and on a decodable payload it is the reference reading on the flat list of members. -/
theorem aspath_match_flat (s : Single) (code flags : Nat) (b : Bytes) (segs : List Seg) (h : segsOf b = some segs) :
    s.isMatch ⟨code, flags, .bin b⟩ = some (Spec.singleHit (Spec.flatAsns segs) s) := by
  simp only [Single.isMatch, Attr.binary, iterSegs_segsOf b.length b segs (Nat.le_refl _) h, single_eq]
  rfl

/-- a whole AS-path-set condition does not panic on a decodable route (S24: `_65001$` on
    `65001` followed by an empty AS_SEQUENCE) -/
theorem aspath_condition_total (env : RegexEnv) (cx : Ctx) (st : St) (o : Opt) (singles : List Single)
    (hp : Spec.pathOk st.attrs = true) :
    (evalSet env cx st .aspath o (.aspath singles [])).isSome = true := by
  rw [evalSet_eq env cx st .aspath "" o (.aspath singles []) rfl hp]; rfl

example : (Single.orig 65001).isMatch ⟨2, 64, .bin [2, 1, 0, 0, 253, 233, 2, 0]⟩ = some true := by decide +kernel
example : segsOf [2, 1, 0, 0, 253, 233, 2, 0] = some [⟨2, [65001]⟩, ⟨2, []⟩] := by decide +kernel

/-! ## 3. ANY / ALL / INVERT -/

/-- every set condition evaluates (no panic) to the reference reading `Spec.setHolds`, whose
    match options are `Spec.optHolds`: ANY = some member matches, ALL = every member matches,
    INVERT = not ANY -/
theorem matchoption_spec (env : RegexEnv) (cx : Ctx) (st : St) (k : SetKind) (n : String) (o : Opt) (snap : SetObj)
    (hok : (Cond.set k n o snap).ok = true) (hp : Spec.pathOk st.attrs = true) :
    evalSet env cx st k o snap = some (Spec.setHolds env {} cx st k o snap) :=
  evalSet_eq env cx st k n o snap hok hp

theorem optHolds_any {μ} (ms : List μ) (hit : μ → Bool) : Spec.optHolds .any ms hit = true ↔ ∃ m ∈ ms, hit m = true := by
  simp [Spec.optHolds]
theorem optHolds_all {μ} (ms : List μ) (hit : μ → Bool) : Spec.optHolds .all ms hit = true ↔ ∀ m ∈ ms, hit m = true := by
  simp [Spec.optHolds]
theorem optHolds_invert {μ} (ms : List μ) (hit : μ → Bool) :
    Spec.optHolds .invert ms hit = true ↔ ¬ ∃ m ∈ ms, hit m = true := by
  simp [Spec.optHolds]

/-! ## 4. First non-pass disposition wins; actions of passed statements accumulate -/

/-- the first statement whose disposition is not pass ends the policy with that disposition and
    the state it produced; nothing after it is looked at -/
theorem first_nonpass_wins (env : RegexEnv) (cx : Ctx) (s : Stmt) (rest : List Stmt) (st st' : St) (d : Disp)
    (h : s.apply env cx st = some (d, st')) (hd : d ≠ .pass) :
    applyStmts env cx (s :: rest) st = some (d, st') := by
  simp [applyStmts, h, hd]

/-- the same across policies of an assignment; the default applies only if every policy passes -/
theorem first_nonpass_wins_policies (env : RegexEnv) (cx : Ctx) (dflt : Disp) (p : Policy) (ps : List Policy)
    (st st' : St) (d : Disp) (h : applyStmts env cx p.stmts st = some (d, st')) :
    applyPols env cx dflt (p :: ps) st = if d ≠ .pass then some (d, st') else applyPols env cx dflt ps st' := by
  by_cases hd : d = .pass <;> simp [applyPols, h, hd]

theorem default_when_all_pass (env : RegexEnv) (cx : Ctx) (dflt : Disp) (st : St) :
    applyPols env cx dflt [] st = some (dflt, st) := rfl

/-- a statement that passes hands the state it produced (its actions applied if its conditions
    held) to the statements after it -/
theorem actions_accumulate (env : RegexEnv) (cx : Ctx) (s : Stmt) (rest : List Stmt) (st st' : St)
    (h : s.apply env cx st = some (.pass, st')) :
    applyStmts env cx (s :: rest) st = applyStmts env cx rest st' := by
  simp [applyStmts, h]

/-- a statement applies exactly when all its conditions hold; then its actions are applied and its
    disposition (pass if unset) returned; otherwise the route is untouched -/
theorem statement_applies_iff (env : RegexEnv) (cx : Ctx) (s : Stmt) (st : St)
    (hok : ∀ c ∈ s.conds, c.ok = true) (hp : Spec.pathOk st.attrs = true) :
    s.apply env cx st =
      some (if s.toR.conds.all (Spec.condHolds env {} cx st) then (s.disp.getD .pass, Spec.applyActs cx s.acts st)
            else (.pass, st)) :=
  stmt_apply_eq env cx s st hok hp

/-! ## 5. CRUD: references stay closed, in-use objects are not deleted or changed -/

/-- For EVERY sequence of CRUD calls from the empty table (no restriction on patterns): each
    statement's set snapshots, each policy's statement snapshots and each assignment's policy
    snapshots are the objects the table currently holds under those names. -/
theorem crud_ref_closed (env : RegexEnv) (ops : List Op) : Inv true (runTable env {} ops) :=
  Inv.run env ops (Inv.empty true) (Or.inl rfl)

/-- the three clauses of `Inv`, spelled out -/
theorem crud_ref_closed_sets (env : RegexEnv) (ops : List Op) (n : String) (s : Stmt) (k : SetKind) (nm : String)
    (o : Opt) (snap : SetObj) (hs : (n, s) ∈ (runTable env {} ops).stmts) (hc : Cond.set k nm o snap ∈ s.conds) :
    alLookup (k, nm) (runTable env {} ops).sets = some snap :=
  (((crud_ref_closed env ops).stmts _ hs).2 _ hc).1

theorem crud_ref_closed_stmts (env : RegexEnv) (ops : List Op) (n : String) (p : Policy) (s : Stmt)
    (hp : (n, p) ∈ (runTable env {} ops).pols) (hs : s ∈ p.stmts) :
    alLookup s.name (runTable env {} ops).stmts = some s :=
  ((crud_ref_closed env ops).pols _ hp).2 s hs

theorem crud_ref_closed_pols (env : RegexEnv) (ops : List Op) (d : Dir) (a : Assign) (p : Policy)
    (ha : (runTable env {} ops).slot d = some a) (hp : p ∈ a.pols) :
    alLookup p.name (runTable env {} ops).pols = some p :=
  (crud_ref_closed env ops).slot d a ha p hp

/-- a set a statement refers to, a statement a policy uses, a policy an assignment uses: add
    (merge), replace and delete calls on it fail and leave the table as it was -/
theorem in_use_not_deleted (env : RegexEnv) (ops : List Op) :
    let t := runTable env {} ops
    (∀ k n, setInUse t k n = true →
      (∀ es, (t.addDefinedSet env k n es).1 = t ∧ (t.addDefinedSet env k n es).2 ≠ .ok) ∧
      (∀ es, t.replaceDefinedSet env k n es = (t, .inUse)) ∧
      (∀ all es, t.deleteDefinedSet env k n all es = (t, .inUse))) ∧
    (∀ n, stmtInUse t n = true →
      (∀ c d a, (t.addStatement n c d a).1 = t ∧ (t.addStatement n c d a).2 ≠ .ok) ∧
      (∀ all c d a, t.deleteStatement n all c d a = (t, .inUse))) ∧
    (∀ n, polInUse t n = true →
      (∀ ss, (t.addPolicy n ss).1 = t ∧ (t.addPolicy n ss).2 ≠ .ok) ∧
      (∀ pr all ss, t.deletePolicy n pr all ss = (t, .inUse))) := by
  intro t
  have hi : Inv true t := crud_ref_closed env ops
  refine ⟨?_, ?_, ?_⟩
  · intro k n hu
    obtain ⟨snap, hl⟩ := setInUse_lookup hi hu
    refine ⟨fun es => ?_, fun es => by simp [Table.replaceDefinedSet, hu], fun all es => by simp [Table.deleteDefinedSet, hu]⟩
    unfold Table.addDefinedSet
    cases parseElems env k es with
    | none => simp
    | some new => simp [hl, hu]
  · intro n hu
    obtain ⟨s0, hl⟩ := stmtUsed_lookup hi ((stmtInUse_iff t n).1 hu)
    refine ⟨fun c d a => ?_, fun all c d a => by simp [Table.deleteStatement, hu]⟩
    unfold Table.addStatement
    cases resolveConds t c with
    | none => simp
    | some v => simp [hl, hu]
  · intro n hu
    obtain ⟨p0, hl⟩ := polUsed_lookup hi ((polInUse_iff t n).1 hu)
    refine ⟨fun ss => ?_, fun pr all ss => by simp [Table.deletePolicy, hu]⟩
    unfold Table.addPolicy
    cases resolveStmts t ss with
    | none => simp
    | some v => simp [hl, hu]

/-- after ANY call (successful or not) a referenced object is what it was: a set some statement
    refers to, a statement used by a policy before and after, a policy an assignment uses -/
theorem referenced_unchanged (env : RegexEnv) (ops : List Op) (op : Op) :
    let t := runTable env {} ops
    (∀ k n, setInUse t k n = true → alLookup (k, n) (t.step env op).1.sets = alLookup (k, n) t.sets) ∧
    (∀ n, stmtUsed t.pols n → stmtUsed (t.step env op).1.pols n →
      alLookup n (t.step env op).1.stmts = alLookup n t.stmts) ∧
    (∀ n, polUsed t n → alLookup n (t.step env op).1.pols = alLookup n t.pols) := by
  intro t
  have hi : Inv true t := crud_ref_closed env ops
  exact ⟨fun k n h => step_sets_lookup env hi op k n h, fun n h h' => step_stmts_lookup env hi op n h h',
    fun n h => step_pols_lookup env hi op n h⟩

/-- What was asked is what is listed: after ANY successful add / replace call — on any reachable
    table — every requested set element is a member of the listed set (for a prefix set every
    (prefix, mask range); a REPLACE moreover leaves nothing else), the listed statement has the
    requested conditions, disposition and actions, the policy ends with the requested statements,
    the assignment has the requested name, default and policies. -/
theorem request_stored (env : RegexEnv) (ops : List Op) (op : Op) :
    let t := runTable env {} ops
    Spec.requestStored op (t.step env op).2 (t.step env op).1.dump = true := by
  intro t
  have hi : Inv true t := crud_ref_closed env ops
  exact requestStored_ok env hi op (hi.step env op (Or.inl rfl))

/-- No stale object anywhere in a reachable table, also behind policies no assignment uses: the
    set objects every statement holds, the statements every policy holds and the sets those hold
    are the objects listed under their names. -/
theorem no_stale_objects (env : RegexEnv) (ops : List Op) : Spec.heldCurrent (runTable env {} ops).dump = true :=
  heldCurrent_ok (crud_ref_closed env ops)

/-- R-B: one prefix with two different mask ranges is refused, not silently reduced to the last
    range; the same entry twice is harmless -/
example : ((({} : Table).addDefinedSet envAll0 .prefix "ps1"
    [.pfx ⟨⟨false, 167772160⟩, 8, 24, 24⟩, .pfx ⟨⟨false, 167772160⟩, 8, 8, 8⟩]).2,
    (({} : Table).addDefinedSet envAll0 .prefix "ps1"
    [.pfx ⟨⟨false, 167772160⟩, 8, 24, 24⟩, .pfx ⟨⟨false, 167772160⟩, 8, 24, 24⟩]).2) = (.invalid, .ok) := by decide +kernel

/-! ## 5b. The holders outside `PolicyTable`: published copies and per-peer export overrides -/

/-- For EVERY sequence of daemon calls (set / statement calls on `global.ptable`, the `Global`
    wrappers for policies and assignments, per-peer assignments, add / delete peer,
    SetPolicyAssignment, SetPolicies) from any initial peer list: the table's references are closed,
    the copies published in `TableManager` ARE the table's two assignments, and every peer
    override's policies are the table's current objects. -/
theorem holders_ref_closed (env : RegexEnv) (peers : List Addr) (ops : List DOp) :
    DInv true (drunState env (DState.init peers) ops) :=
  DInv.run env ops (DInv.init true peers) (Or.inl rfl)

/-- The daemon-level reference checker accepts every run of the daemon-level model: after every
    call every holder evaluates every probe as the reference chain over what ITS names currently
    resolve to, nothing a holder or a table object still references has changed, and a call leaves
    every holder it is not addressed to — assignment and results — exactly as it was. -/
theorem eval_eq_reference_daemon (env : RegexEnv) (c : DCase) (h : ∀ op ∈ c.ops, op.noAsRegex = true) :
    DSpec.dcheck env c (drun env c) = .ok :=
  dcheck_run_ok env c h

/-- a call that is not addressed to a holder leaves that holder's assignment alone -/
theorem holder_untouched (env : RegexEnv) (peers : List Addr) (ops : List DOp) (op : DOp) :
    let s := drunState env (DState.init peers) ops
    (∀ d, DSpec.targetsPub d op = false → (s.step env op).1.pub d = s.pub d) ∧
    (∀ a, DSpec.targetsPeer a op = false → alLookup a (s.step env op).1.peers = alLookup a s.peers) := by
  intro s
  have hd : DInv true s := holders_ref_closed env peers ops
  exact ⟨fun d h => dstep_pub env hd op d h, fun a h => dstep_peer env s op a h⟩

/-- a policy any holder uses is what it was after any call except a full reload -/
theorem holder_policy_unchanged (env : RegexEnv) (peers : List Addr) (ops : List DOp) (op : DOp)
    (h : DSpec.isReload op = false) (m : String) :
    let s := drunState env (DState.init peers) ops
    (polUsed s.t m ∨ peerUsed s m) → alLookup m (s.step env op).1.t.pols = alLookup m s.t.pols := by
  intro s hu
  exact dstep_pols_lookup env (holders_ref_closed env peers ops) op h m hu

/-! ## 6. Non-vacuity and the full-strength statement -/

def envAll : RegexEnv := { valid := fun _ => true, «matches» := fun _ _ => true, extStr := fun _ => none }

def probe1 : Route :=
  { src := ⟨false, 65001, 65002, ⟨false, 3221225985⟩, ⟨false, 3221225986⟩⟩, net := ⟨false, 167837952⟩, mask := 24,
    attrs := [⟨1, 64, .val 0⟩, ⟨2, 64, .bin [2, 1, 0, 0, 253, 233, 2, 0]⟩, ⟨4, 128, .val 5⟩], nh := none, origNh := none,
    confed := false, localAddr := ⟨false, 1⟩, peerAddr := ⟨false, 2⟩, rpki := none }

/-- a case satisfying the hypotheses of `eval_eq_reference` that exercises nested prefix entries,
    an AS-path ALL condition on a path with an empty final segment, accumulated actions, an in-use
    delete and a re-evaluation after it -/
def sample : Case :=
  { probes := [probe1],
    ops := [.setAdd .prefix "ps1" [.pfx ⟨⟨false, 167772160⟩, 8, 24, 24⟩, .pfx ⟨⟨false, 167837696⟩, 16, 16, 16⟩],
            .setAdd .aspath "as1" [.single (.orig 65001), .single (.inc 65001)],
            .stmtAdd "s1" [.set .prefix "ps1" .any, .set .aspath "as1" .all] none { med := some (true, 9223372036854775807) },
            .stmtAdd "s2" [.plain (.medEq 4294967295)] (some .reject) { asPrepend := some (100, 2, true) },
            .polAdd "p1" ["s1", "s2"],
            .asgAdd .exp "g" .accept ["p1"],
            .setDel .prefix "ps1" true [],
            .stmtDel "s1" true [] none {},
            .polDel "p1" false true []] }

example : (∀ op ∈ sample.ops, op.noAsRegex = true) := by decide +kernel
example : Spec.pathOk probe1.attrs = true := by decide +kernel
/-- what the sample shows: the route is rejected by the second statement after the first one
    saturated its MED; the three deletes fail with "in use" -/
example : (run envAll sample).map (fun s => match s with | .step r _ _ e => (r, e.map (·.map (fun p => match p with | .r d _ _ => some d | _ => none))) | _ => (.ok, none))
    = [(.ok, none), (.ok, none), (.ok, none), (.ok, none), (.ok, none), (.ok, some [some .reject]),
       (.inUse, some [some .reject]), (.inUse, some [some .reject]), (.inUse, some [some .reject])] := by decide +kernel

/-- a daemon-level case: a peer override keeps a policy alive that no global assignment uses;
    deleting it, appending to it, deleting its statement are refused; SetPolicyAssignment naming
    the peer replaces only that peer's override; SetPolicies reloads every holder -/
def dsample : DCase :=
  { probes := [probe1], peers := [⟨false, 3221225985⟩, ⟨false, 3221225986⟩],
    ops := [.tbl (.setAdd .prefix "ps1" [.pfx ⟨⟨false, 167772160⟩, 8, 8, 32⟩]),
            .tbl (.stmtAdd "s1" [.set .prefix "ps1" .any] (some .reject) {}),
            .tbl (.stmtAdd "s2" [] (some .accept) { localPref := some 200 }),
            .polAdd "p1" ["s1"], .polAdd "p2" ["s2"],
            .asgAdd .global .exp .accept ["p1"],
            .asgAdd (.peer ⟨false, 3221225985⟩) .exp .reject ["p2"],
            .polDel "p2" false true [], .polAdd "p2" ["s1"], .tbl (.stmtDel "s2" true [] none {}),
            .asgSet (.peer ⟨false, 3221225986⟩) .exp .accept ["p1"],
            .setPolicies [.stmtAdd "s1" [] (some .accept) {}, .polAdd "p1" ["s1"], .asgAdd .imp "global" .accept ["p1"]]] }

example : (∀ op ∈ dsample.ops, op.noAsRegex = true) := by decide +kernel
example : (drun envAll dsample).map (fun s => match s with
      | .step r _ hi he hp => (r, hi.map (·.1.name), he.map (·.1.pols), hp.map (fun p => p.2.map (·.1.pols))))
    = [(.ok, none, none, [none, none]), (.ok, none, none, [none, none]), (.ok, none, none, [none, none]),
       (.ok, none, none, [none, none]), (.ok, none, none, [none, none]),
       (.ok, none, some ["p1"], [none, none]), (.ok, none, some ["p1"], [some ["p2"], none]),
       (.inUse, none, some ["p1"], [some ["p2"], none]), (.inUse, none, some ["p1"], [some ["p2"], none]),
       (.inUse, none, some ["p1"], [some ["p2"], none]),
       (.ok, none, some ["p1"], [some ["p2"], some ["p1"]]),
       (.ok, some "global", none, [none, none])] := by decide +kernel

/-- the full-strength statement: no restriction on AS-path patterns -/
def C14_full : Prop := ∀ (env : RegexEnv) (c : Case), Spec.check env c (run env c) = .ok

def witness : Case :=
  { probes := [probe1],
    ops := [.setAdd .aspath "as1" [.pat ".*"],
            .stmtAdd "s1" [.set .aspath "as1" .any] (some .reject) {},
            .polAdd "p1" ["s1"],
            .asgAdd .exp "g" .accept ["p1"]] }

/-- it is false for the code as it is: an AS-path set whose only member is a pattern matching
    every path never matches (replay: corpus/C14/seed-aspath-regex-ignored.case) -/
theorem C14_full_refuted : ¬ C14_full := by
  intro h
  have := h envAll witness
  revert this
  decide +kernel

end Rbgp.Policy.Props

#print axioms Rbgp.Policy.Props.eval_eq_reference
#print axioms Rbgp.Policy.Props.eval_chain_eq_reference
#print axioms Rbgp.Policy.Props.prefixset_match_spec
#print axioms Rbgp.Policy.Props.aspath_match_total
#print axioms Rbgp.Policy.Props.aspath_match_flat
#print axioms Rbgp.Policy.Props.aspath_condition_total
#print axioms Rbgp.Policy.Props.matchoption_spec
#print axioms Rbgp.Policy.Props.first_nonpass_wins
#print axioms Rbgp.Policy.Props.first_nonpass_wins_policies
#print axioms Rbgp.Policy.Props.actions_accumulate
#print axioms Rbgp.Policy.Props.statement_applies_iff
#print axioms Rbgp.Policy.Props.crud_ref_closed
#print axioms Rbgp.Policy.Props.in_use_not_deleted
#print axioms Rbgp.Policy.Props.referenced_unchanged
#print axioms Rbgp.Policy.Props.wellknown_community_value
#print axioms Rbgp.Policy.Props.wellknown_community_stored
#print axioms Rbgp.Policy.Props.request_stored
#print axioms Rbgp.Policy.Props.no_stale_objects
#print axioms Rbgp.Policy.Props.holders_ref_closed
#print axioms Rbgp.Policy.Props.eval_eq_reference_daemon
#print axioms Rbgp.Policy.Props.holder_untouched
#print axioms Rbgp.Policy.Props.holder_policy_unchanged
#print axioms Rbgp.Policy.Props.C14_full_refuted
