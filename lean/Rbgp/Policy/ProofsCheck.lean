/-
  Rbgp.Policy.ProofsCheck — the reference checker accepts every run of the model
  (`check_run_ok`), assembled from the evaluation lemmas (`ProofsEval`) and the CRUD invariant
  (`ProofsCrud`).
-/
import Rbgp.Policy.ProofsCrud
namespace Rbgp.Policy
open Rbgp.Policy

/-! ## what the listing resolves to -/

variable {ar : Bool}

theorem lookupSet_dump (t : Table) (k : SetKind) (n : String) : Spec.lookupSet t.dump k n = alLookup (k, n) t.sets := by
  simp only [Spec.lookupSet, Table.dump]
  induction t.sets with
  | nil => rfl
  | cons e r ih =>
      obtain ⟨k0, v0⟩ := e
      simp only [List.find?, alLookup]
      by_cases h : k0 = (k, n)
      · simp [h]
      · simp [h, ih]

theorem lookupStmt_list (n : String) : ∀ (l : List (String × Stmt)), (∀ e ∈ l, e.2.name = e.1) →
    (l.map (fun s => s.2.dump)).find? (fun s => s.name = n) = (alLookup n l).map Stmt.dump
  | [], _ => rfl
  | (k0, s0) :: r, h => by
      have h0 : s0.name = k0 := h (k0, s0) (by simp)
      have ih := lookupStmt_list n r (fun e he => h e (by simp [he]))
      simp only [List.map_cons, List.find?, alLookup, Stmt.dump]
      by_cases hk : k0 = n
      · subst hk; simp [← h0, Stmt.dump, Policy.dump]
      · have : ¬ s0.name = n := by rw [h0]; exact hk
        simp only [hk, this, decide_false, if_false]
        exact ih

theorem lookupStmt_dump {t : Table} (hi : Inv ar t) (n : String) :
    Spec.lookupStmt t.dump n = (alLookup n t.stmts).map Stmt.dump :=
  lookupStmt_list n t.stmts (fun e he => (hi.stmts e he).1)

theorem lookupPol_list (n : String) : ∀ (l : List (String × Policy)), (∀ e ∈ l, e.2.name = e.1) →
    (l.map (fun p => p.2.dump)).find? (fun p => p.name = n) = (alLookup n l).map Policy.dump
  | [], _ => rfl
  | (k0, p0) :: r, h => by
      have h0 : p0.name = k0 := h (k0, p0) (by simp)
      have ih := lookupPol_list n r (fun e he => h e (by simp [he]))
      simp only [List.map_cons, List.find?, alLookup, Policy.dump]
      by_cases hk : k0 = n
      · subst hk; simp [← h0, Stmt.dump, Policy.dump]
      · have : ¬ p0.name = n := by rw [h0]; exact hk
        simp only [hk, this, decide_false, if_false]
        exact ih

theorem lookupPol_dump {t : Table} (hi : Inv ar t) (n : String) :
    Spec.lookupPol t.dump n = (alLookup n t.pols).map Policy.dump :=
  lookupPol_list n t.pols (fun e he => (hi.pols e he).1)

theorem resolveConds_dump {t : Table} : ∀ (cs : List Cond), (∀ c ∈ cs, condClosed t c) →
    (cs.map Cond.cfg).mapM (Spec.resolveCond t.dump) = some (cs.map Cond.toR)
  | [], _ => rfl
  | c :: r, h => by
      have ih := resolveConds_dump r (fun c hc => h c (by simp [hc]))
      have hc := h c (by simp)
      simp only [List.map_cons, List.mapM_cons, ih]
      cases c with
      | plain p => simp [Cond.cfg, Spec.resolveCond, Cond.toR]
      | set k n o snap =>
          simp only [condClosed] at hc
          simp [Cond.cfg, Spec.resolveCond, Cond.toR, lookupSet_dump, hc]

theorem resolveStmt_dump {t : Table} (hi : Inv ar t) (s : Stmt) (h : alLookup s.name t.stmts = some s) :
    Spec.resolveStmt t.dump s.name = some s.toR := by
  have hm := hi.stmts _ (alLookup_mem h)
  simp only [Spec.resolveStmt, lookupStmt_dump hi, h, Option.map_some, Stmt.dump]
  rw [resolveConds_dump s.conds (fun c hc => (hm.2 c hc).1)]
  rfl

theorem resolveStmts_dump {t : Table} (hi : Inv ar t) : ∀ (ss : List Stmt), (∀ s ∈ ss, alLookup s.name t.stmts = some s) →
    (ss.map (·.name)).mapM (Spec.resolveStmt t.dump) = some (ss.map Stmt.toR)
  | [], _ => rfl
  | s :: r, h => by
      have ih := resolveStmts_dump hi r (fun s hs => h s (by simp [hs]))
      simp only [List.map_cons, List.mapM_cons, ih, resolveStmt_dump hi s (h s (by simp))]
      rfl

theorem resolvePol_dump {t : Table} (hi : Inv ar t) (p : Policy) (h : alLookup p.name t.pols = some p) :
    Spec.resolvePol t.dump p.name = some (p.stmts.map Stmt.toR) := by
  have hm := hi.pols _ (alLookup_mem h)
  simp only [Spec.resolvePol, lookupPol_dump hi, h, Option.map_some, Policy.dump]
  exact resolveStmts_dump hi p.stmts hm.2

theorem resolvePols_dump {t : Table} (hi : Inv ar t) : ∀ (ps : List Policy), (∀ p ∈ ps, alLookup p.name t.pols = some p) →
    (ps.map (·.name)).mapM (Spec.resolvePol t.dump) = some (ps.map (fun p => p.stmts.map Stmt.toR))
  | [], _ => rfl
  | p :: r, h => by
      have ih := resolvePols_dump hi r (fun p hp => h p (by simp [hp]))
      simp only [List.map_cons, List.mapM_cons, ih, resolvePol_dump hi p (h p (by simp))]
      rfl

theorem resolveAsg_closed {t : Table} (hi : Inv ar t) (a : Assign)
    (hc : ∀ p ∈ a.pols, alLookup p.name t.pols = some p) :
    Spec.resolveAsg t.dump a.dump = some ((a.pols.map (fun p => p.stmts.map Stmt.toR)).flatten) := by
  simp only [Spec.resolveAsg, Assign.dump]
  rw [resolvePols_dump hi a.pols hc]
  rfl

theorem resolveAsg_dump {t : Table} (hi : Inv ar t) (d : Dir) (a : Assign) (h : t.slot d = some a) :
    Spec.resolveAsg t.dump a.dump = some ((a.pols.map (fun p => p.stmts.map Stmt.toR)).flatten) :=
  resolveAsg_closed hi a (hi.slot d a h)

/-- every condition reachable from an assignment whose policies are the table's is one the
    evaluation lemmas cover -/
theorem closed_conds_ok {t : Table} (hi : Inv false t) (a : Assign)
    (hc : ∀ p ∈ a.pols, alLookup p.name t.pols = some p) :
    ∀ p ∈ a.pols, ∀ s ∈ p.stmts, ∀ c ∈ s.conds, c.ok = true := by
  intro p hp s hs c hcc
  have h1 := hc p hp
  have h2 := (hi.pols _ (alLookup_mem h1)).2 s hs
  rw [← condOk_false]
  exact ((hi.stmts _ (alLookup_mem h2)).2 c hcc).2

theorem asg_conds_ok {t : Table} (hi : Inv false t) (d : Dir) (a : Assign) (h : t.slot d = some a) :
    ∀ p ∈ a.pols, ∀ s ∈ p.stmts, ∀ c ∈ s.conds, c.ok = true :=
  closed_conds_ok hi a (hi.slot d a h)

/-! ## one probe -/

theorem ctxOf_eq (d : Dir) (r : Route) : ctxOf d r = Spec.ctxOf d r := by
  cases d <;> rfl

theorem checkProbe_closed (env : RegexEnv) {t : Table} (hi : Inv false t) (d : Dir) (a : Assign)
    (hcl : ∀ p ∈ a.pols, alLookup p.name t.pols = some p) (r : Route) :
    Spec.checkProbe env d a.dflt ((a.pols.map (fun p => p.stmts.map Stmt.toR)).flatten) r (probe env d a r) = none := by
  simp only [Spec.checkProbe]
  by_cases hp : Spec.pathOk r.attrs = true
  · simp only [hp, Bool.not_true, Bool.false_eq_true, if_false]
    have hap := applyPols_eq env (ctxOf d r) a.dflt a.pols ⟨r.attrs, r.nh⟩ (closed_conds_ok hi a hcl) hp
    have hc : Spec.compareRes d (Spec.refChain env {} (Spec.ctxOf d r) a.dflt
        ((a.pols.map (fun p => p.stmts.map Stmt.toR)).flatten) ⟨r.attrs, r.nh⟩) (probe env d a r) = none := by
      simp only [probe, Assign.apply, hap, ← ctxOf_eq]
      generalize Spec.refChain env {} (ctxOf d r) a.dflt _ ⟨r.attrs, r.nh⟩ = res
      obtain ⟨disp, st⟩ := res
      cases d <;> simp only [Spec.compareRes]
      · by_cases hr : disp = .reject
        · subst hr; simp
        · have : (disp == Disp.reject) = false := by simpa using hr
          simp [hr, this]
      · simp
    simp only [hc]
  · have : Spec.pathOk r.attrs = false := by simpa using hp
    simp [this]

theorem checkProbe_ok (env : RegexEnv) {t : Table} (hi : Inv false t) (d : Dir) (a : Assign) (h : t.slot d = some a)
    (r : Route) :
    Spec.checkProbe env d a.dflt ((a.pols.map (fun p => p.stmts.map Stmt.toR)).flatten) r (probe env d a r) = none :=
  checkProbe_closed env hi d a (hi.slot d a h) r

theorem isRpki_toR (c : Cond) : Spec.isRpkiCond c.toR = c.isRpki := by
  cases c with
  | set k n o snap => rfl
  | plain p => cases p <;> rfl

/-- the flag the model lists is the one the reference derives from the resolved statements -/
theorem needsRpki_eq (pols : List Policy) :
    ((pols.map (fun p => p.stmts.map Stmt.toR)).flatten.any fun s => s.conds.any Spec.isRpkiCond) = needsRpki pols := by
  simp only [needsRpki, List.any_flatten, List.any_map, Function.comp_def, Stmt.toR, isRpki_toR]

theorem rpkiFlag_ok (a : Assign) :
    (if (a.dump.rpki != ((a.pols.map (fun p => p.stmts.map Stmt.toR)).flatten.any fun s => s.conds.any Spec.isRpkiCond)) = true
      then [((0 : Nat), "needs-rpki-flag")] else []) = [] := by
  have h := needsRpki_eq a.pols
  simp only [Assign.dump]
  rw [h]
  simp

theorem allFails_nil {α} (f : α → Option String) : ∀ (i : Nat) (l : List α),
    (∀ a ∈ l, f a = none) → Spec.allFails f i l = []
  | _, [], _ => rfl
  | i, a :: r, h => by
      simp only [Spec.allFails, h a (by simp), List.nil_append]
      exact allFails_nil f (i + 1) r (fun b hb => h b (by simp [hb]))

theorem mem_zip_map {α β} (f : α → β) : ∀ (l : List α) (a : α) (b : β), (a, b) ∈ l.zip (l.map f) → b = f a
  | [], _, _, h => by simp at h
  | x :: r, a, b, h => by
      simp only [List.map_cons, List.zip_cons_cons, List.mem_cons, Prod.mk.injEq] at h
      rcases h with ⟨rfl, rfl⟩ | h
      · rfl
      · exact mem_zip_map f r a b h

theorem dirFails_ok (env : RegexEnv) {t : Table} (hi : Inv false t) (d : Dir) (rs : List Route) :
    Spec.dirFails env d t.dump ((t.slot d).map Assign.dump) rs (probesOf env d t rs) = [] := by
  simp only [probesOf]
  cases hs : t.slot d with
  | none => rfl
  | some a =>
      simp only [Option.map_some, Spec.dirFails, List.length_map, ne_eq, not_true_eq_false, if_false,
        resolveAsg_dump hi d a hs, rpkiFlag_ok a, List.nil_append]
      apply allFails_nil
      intro x hx
      obtain ⟨r, p⟩ := x
      have := mem_zip_map (probe env d a) rs r p hx
      subst this
      exact checkProbe_ok env hi d a hs r

/-! ## what each call leaves alone -/

theorem addDefinedSet_other (env : RegexEnv) (t : Table) (k : SetKind) (n : String) (es : List Elem) :
    (t.addDefinedSet env k n es).1.stmts = t.stmts ∧ (t.addDefinedSet env k n es).1.pols = t.pols ∧
    (t.addDefinedSet env k n es).1.imp = t.imp ∧ (t.addDefinedSet env k n es).1.exp = t.exp := by
  unfold Table.addDefinedSet
  repeat' split
  all_goals exact ⟨rfl, rfl, rfl, rfl⟩

theorem replaceDefinedSet_other (env : RegexEnv) (t : Table) (k : SetKind) (n : String) (es : List Elem) :
    (t.replaceDefinedSet env k n es).1.stmts = t.stmts ∧ (t.replaceDefinedSet env k n es).1.pols = t.pols ∧
    (t.replaceDefinedSet env k n es).1.imp = t.imp ∧ (t.replaceDefinedSet env k n es).1.exp = t.exp := by
  unfold Table.replaceDefinedSet
  split
  · exact ⟨rfl, rfl, rfl, rfl⟩
  · exact addDefinedSet_other env _ k n es

theorem deleteDefinedSet_other (env : RegexEnv) (t : Table) (k : SetKind) (n : String) (all : Bool) (es : List Elem) :
    (t.deleteDefinedSet env k n all es).1.stmts = t.stmts ∧ (t.deleteDefinedSet env k n all es).1.pols = t.pols ∧
    (t.deleteDefinedSet env k n all es).1.imp = t.imp ∧ (t.deleteDefinedSet env k n all es).1.exp = t.exp := by
  unfold Table.deleteDefinedSet
  repeat' split
  all_goals exact ⟨rfl, rfl, rfl, rfl⟩

theorem addStatement_other (t : Table) (n : String) (c : List CondCfg) (d : Option Disp) (a : Actions) :
    (t.addStatement n c d a).1.sets = t.sets ∧ (t.addStatement n c d a).1.pols = t.pols ∧
    (t.addStatement n c d a).1.imp = t.imp ∧ (t.addStatement n c d a).1.exp = t.exp := by
  unfold Table.addStatement
  repeat' split
  all_goals exact ⟨rfl, rfl, rfl, rfl⟩

theorem deleteStatement_other (t : Table) (n : String) (all : Bool) (c : List CondCfg) (d : Option Disp) (a : Actions) :
    (t.deleteStatement n all c d a).1.sets = t.sets ∧ (t.deleteStatement n all c d a).1.pols = t.pols ∧
    (t.deleteStatement n all c d a).1.imp = t.imp ∧ (t.deleteStatement n all c d a).1.exp = t.exp := by
  unfold Table.deleteStatement
  repeat' split
  all_goals exact ⟨rfl, rfl, rfl, rfl⟩

theorem addPolicy_other (t : Table) (n : String) (ss : List String) :
    (t.addPolicy n ss).1.sets = t.sets ∧ (t.addPolicy n ss).1.stmts = t.stmts ∧
    (t.addPolicy n ss).1.imp = t.imp ∧ (t.addPolicy n ss).1.exp = t.exp := by
  unfold Table.addPolicy
  repeat' split
  all_goals exact ⟨rfl, rfl, rfl, rfl⟩

theorem deletePolicy_other (t : Table) (n : String) (pr all : Bool) (ss : List String) :
    (t.deletePolicy n pr all ss).1.sets = t.sets ∧
    (t.deletePolicy n pr all ss).1.imp = t.imp ∧ (t.deletePolicy n pr all ss).1.exp = t.exp := by
  unfold Table.deletePolicy
  repeat' split
  all_goals exact ⟨rfl, rfl, rfl⟩

theorem setSlot_other (t : Table) (d : Dir) (a : Option Assign) :
    (t.setSlot d a).sets = t.sets ∧ (t.setSlot d a).stmts = t.stmts ∧ (t.setSlot d a).pols = t.pols := by
  cases d <;> exact ⟨rfl, rfl, rfl⟩

theorem setSlot_slot (t : Table) (d d' : Dir) (a : Option Assign) (h : d' ≠ d) : (t.setSlot d a).slot d' = t.slot d' := by
  cases d <;> cases d' <;> first | rfl | exact absurd rfl h

theorem asg_other (t : Table) (op : Op) (env : RegexEnv) (h : ∃ d, Spec.isAsgOp d op = true) :
    (t.step env op).1.sets = t.sets ∧ (t.step env op).1.stmts = t.stmts ∧ (t.step env op).1.pols = t.pols := by
  obtain ⟨d0, h⟩ := h
  cases op <;> simp [Spec.isAsgOp] at h
  · simp only [Table.step, Table.addAssignment]
    split
    · exact ⟨rfl, rfl, rfl⟩
    · exact setSlot_other _ _ _
  · simp only [Table.step, Table.setAssignment]
    split
    · exact ⟨rfl, rfl, rfl⟩
    · exact setSlot_other _ _ _
  · simp only [Table.step, Table.deleteAssignment]
    repeat' split
    all_goals first | exact ⟨rfl, rfl, rfl⟩ | exact setSlot_other _ _ _

/-- a call that is not an assignment call for direction `d` leaves that direction's assignment -/
theorem step_slot (env : RegexEnv) (t : Table) (op : Op) (d : Dir) (h : Spec.isAsgOp d op = false) :
    (t.step env op).1.slot d = t.slot d := by
  cases op with
  | setAdd k n e => cases d <;> simp [Table.step, Table.slot, (addDefinedSet_other env t k n e)]
  | setReplace k n e => cases d <;> simp [Table.step, Table.slot, (replaceDefinedSet_other env t k n e)]
  | setDel k n all e => cases d <;> simp [Table.step, Table.slot, (deleteDefinedSet_other env t k n all e)]
  | stmtAdd n c dd a => cases d <;> simp [Table.step, Table.slot, (addStatement_other t n c dd a)]
  | stmtDel n all c dd a => cases d <;> simp [Table.step, Table.slot, (deleteStatement_other t n all c dd a)]
  | polAdd n s => cases d <;> simp [Table.step, Table.slot, (addPolicy_other t n s)]
  | polDel n pr all s => cases d <;> simp [Table.step, Table.slot, (deletePolicy_other t n pr all s)]
  | asgAdd d' n df p =>
      have hne : d ≠ d' := by intro e; subst e; simp [Spec.isAsgOp] at h
      simp only [Table.step, Table.addAssignment]
      split
      · rfl
      · exact setSlot_slot _ _ _ _ hne
  | asgSet d' n df p =>
      have hne : d ≠ d' := by intro e; subst e; simp [Spec.isAsgOp] at h
      simp only [Table.step, Table.setAssignment]
      split
      · rfl
      · exact setSlot_slot _ _ _ _ hne
  | asgDel d' all p =>
      have hne : d ≠ d' := by intro e; subst e; simp [Spec.isAsgOp] at h
      simp only [Table.step, Table.deleteAssignment]
      repeat' split
      all_goals first | rfl | exact setSlot_slot _ _ _ _ hne

/-! ## referenced objects are left alone -/

theorem addDefinedSet_lookup_ne (env : RegexEnv) (t : Table) (k : SetKind) (n : String) (es : List Elem)
    (key : SetKey) (h : key ≠ (k, n)) :
    alLookup key (t.addDefinedSet env k n es).1.sets = alLookup key t.sets := by
  unfold Table.addDefinedSet
  repeat' split
  all_goals first | rfl | exact alLookup_insert_ne _ h _ _

theorem deleteDefinedSet_lookup_ne (env : RegexEnv) (t : Table) (k : SetKind) (n : String) (all : Bool) (es : List Elem)
    (key : SetKey) (h : key ≠ (k, n)) :
    alLookup key (t.deleteDefinedSet env k n all es).1.sets = alLookup key t.sets := by
  unfold Table.deleteDefinedSet
  repeat' split
  all_goals first | rfl | exact alLookup_insert_ne _ h _ _ | exact alLookup_erase_ne h _

theorem setInUse_lookup {t : Table} (hi : Inv ar t) {k : SetKind} {n : String} (hu : setInUse t k n = true) :
    ∃ snap, alLookup (k, n) t.sets = some snap := by
  simp only [setInUse, List.any_eq_true] at hu
  obtain ⟨e, he, c, hc, hr⟩ := hu
  cases c with
  | plain p => simp [Cond.refersTo] at hr
  | set k' n' o snap =>
      simp only [Cond.refersTo, Bool.and_eq_true, beq_iff_eq] at hr
      obtain ⟨rfl, rfl⟩ := hr
      exact ⟨snap, ((hi.stmts e he).2 _ hc).1⟩

/-- S1: a set some statement refers to is what it was after any call -/
theorem step_sets_lookup (env : RegexEnv) {t : Table} (hi : Inv ar t) (op : Op) (k : SetKind) (n : String)
    (hu : setInUse t k n = true) : alLookup (k, n) (t.step env op).1.sets = alLookup (k, n) t.sets := by
  obtain ⟨snap, hl⟩ := setInUse_lookup hi hu
  cases op with
  | setAdd k0 n0 es =>
      simp only [Table.step]
      by_cases h : (k, n) = (k0, n0)
      · simp only [Prod.mk.injEq] at h; obtain ⟨rfl, rfl⟩ := h
        unfold Table.addDefinedSet
        cases parseElems env k es with
        | none => rfl
        | some new => simp [hl, hu]
      · exact addDefinedSet_lookup_ne env t k0 n0 es _ h
  | setReplace k0 n0 es =>
      simp only [Table.step]
      by_cases h : (k, n) = (k0, n0)
      · simp only [Prod.mk.injEq] at h; obtain ⟨rfl, rfl⟩ := h
        simp [Table.replaceDefinedSet, hu]
      · unfold Table.replaceDefinedSet
        split
        · rfl
        · rw [addDefinedSet_lookup_ne env _ k0 n0 es _ h]
          exact alLookup_erase_ne h _
  | setDel k0 n0 all es =>
      simp only [Table.step]
      by_cases h : (k, n) = (k0, n0)
      · simp only [Prod.mk.injEq] at h; obtain ⟨rfl, rfl⟩ := h
        simp [Table.deleteDefinedSet, hu]
      · exact deleteDefinedSet_lookup_ne env t k0 n0 all es _ h
  | stmtAdd n0 c d a => simp only [Table.step, (addStatement_other t n0 c d a).1]
  | stmtDel n0 all c d a => simp only [Table.step, (deleteStatement_other t n0 all c d a).1]
  | polAdd n0 ss => simp only [Table.step, (addPolicy_other t n0 ss).1]
  | polDel n0 pr all ss => simp only [Table.step, (deletePolicy_other t n0 pr all ss).1]
  | asgAdd d n0 df p => rw [(asg_other t _ env ⟨d, by simp [Spec.isAsgOp]⟩).1]
  | asgSet d n0 df p => rw [(asg_other t _ env ⟨d, by simp [Spec.isAsgOp]⟩).1]
  | asgDel d all p => rw [(asg_other t _ env ⟨d, by simp [Spec.isAsgOp]⟩).1]

theorem addStatement_lookup_ne (t : Table) (n : String) (c : List CondCfg) (d : Option Disp) (a : Actions)
    (m : String) (h : m ≠ n) : alLookup m (t.addStatement n c d a).1.stmts = alLookup m t.stmts := by
  unfold Table.addStatement
  repeat' split
  all_goals first | rfl | exact alLookup_insert_ne _ h _ _

theorem deleteStatement_lookup_ne (t : Table) (n : String) (all : Bool) (c : List CondCfg) (d : Option Disp) (a : Actions)
    (m : String) (h : m ≠ n) : alLookup m (t.deleteStatement n all c d a).1.stmts = alLookup m t.stmts := by
  unfold Table.deleteStatement
  repeat' split
  all_goals first | rfl | exact alLookup_insert_ne _ h _ _ | exact alLookup_erase_ne h _

theorem stmtUsed_lookup {t : Table} (hi : Inv ar t) {m : String} (hu : stmtUsed t.pols m) :
    ∃ s, alLookup m t.stmts = some s := by
  obtain ⟨e, he, s, hs, rfl⟩ := hu
  exact ⟨s, (hi.pols e he).2 s hs⟩

/-- S2: a statement used by a policy before and after a call is what it was -/
theorem step_stmts_lookup (env : RegexEnv) {t : Table} (hi : Inv ar t) (op : Op) (m : String)
    (hu : stmtUsed t.pols m) (hu' : stmtUsed (t.step env op).1.pols m) :
    alLookup m (t.step env op).1.stmts = alLookup m t.stmts := by
  obtain ⟨s0, hl⟩ := stmtUsed_lookup hi hu
  have hin : stmtInUse t m = true := (stmtInUse_iff t m).2 hu
  cases op with
  | setAdd k0 n0 es => simp only [Table.step, (addDefinedSet_other env t k0 n0 es).1]
  | setReplace k0 n0 es => simp only [Table.step, (replaceDefinedSet_other env t k0 n0 es).1]
  | setDel k0 n0 all es => simp only [Table.step, (deleteDefinedSet_other env t k0 n0 all es).1]
  | stmtAdd n0 c d a =>
      simp only [Table.step]
      by_cases h : m = n0
      · subst h
        unfold Table.addStatement
        cases resolveConds t c with
        | none => rfl
        | some v => simp [hl, hin]
      · exact addStatement_lookup_ne t n0 c d a m h
  | stmtDel n0 all c d a =>
      simp only [Table.step]
      by_cases h : m = n0
      · subst h; simp [Table.deleteStatement, hin]
      · exact deleteStatement_lookup_ne t n0 all c d a m h
  | polAdd n0 ss => simp only [Table.step, (addPolicy_other t n0 ss).2.1]
  | polDel n0 pr all ss =>
      simp only [Table.step] at hu' ⊢
      unfold Table.deletePolicy at hu' ⊢
      split
      · rfl
      · rename_i hpu
        simp only [hpu] at hu'
        cases hlp : alLookup n0 t.pols with
        | none => rfl
        | some ex =>
            simp only [hlp] at hu' ⊢
            cases all <;> cases pr <;> simp only [Bool.false_eq_true, if_false, if_true] at hu' ⊢
            · exact cleanupStmts_lookup _ m hu' _ _
            · exact cleanupStmts_lookup _ m hu' _ _
  | asgAdd d n0 df p => rw [(asg_other t _ env ⟨d, by simp [Spec.isAsgOp]⟩).2.1]
  | asgSet d n0 df p => rw [(asg_other t _ env ⟨d, by simp [Spec.isAsgOp]⟩).2.1]
  | asgDel d all p => rw [(asg_other t _ env ⟨d, by simp [Spec.isAsgOp]⟩).2.1]

theorem addPolicy_lookup_ne (t : Table) (n : String) (ss : List String) (m : String) (h : m ≠ n) :
    alLookup m (t.addPolicy n ss).1.pols = alLookup m t.pols := by
  unfold Table.addPolicy
  repeat' split
  all_goals first | rfl | exact alLookup_insert_ne _ h _ _

theorem deletePolicy_lookup_ne (t : Table) (n : String) (pr all : Bool) (ss : List String) (m : String) (h : m ≠ n) :
    alLookup m (t.deletePolicy n pr all ss).1.pols = alLookup m t.pols := by
  unfold Table.deletePolicy
  repeat' split
  all_goals first | rfl | exact alLookup_insert_ne _ h _ _ | exact alLookup_erase_ne h _

theorem polUsed_lookup {t : Table} (hi : Inv ar t) {m : String} (hu : polUsed t m) : ∃ p, alLookup m t.pols = some p := by
  rcases hu with ⟨a, ha, p, hp, rfl⟩ | ⟨a, ha, p, hp, rfl⟩
  · exact ⟨p, hi.imp a ha p hp⟩
  · exact ⟨p, hi.exp a ha p hp⟩

/-- S3: a policy one of the assignments uses is what it was after any call -/
theorem step_pols_lookup (env : RegexEnv) {t : Table} (hi : Inv ar t) (op : Op) (m : String) (hu : polUsed t m) :
    alLookup m (t.step env op).1.pols = alLookup m t.pols := by
  obtain ⟨p0, hl⟩ := polUsed_lookup hi hu
  have hin : polInUse t m = true := (polInUse_iff t m).2 hu
  cases op with
  | setAdd k0 n0 es => simp only [Table.step, (addDefinedSet_other env t k0 n0 es).2.1]
  | setReplace k0 n0 es => simp only [Table.step, (replaceDefinedSet_other env t k0 n0 es).2.1]
  | setDel k0 n0 all es => simp only [Table.step, (deleteDefinedSet_other env t k0 n0 all es).2.1]
  | stmtAdd n0 c d a => simp only [Table.step, (addStatement_other t n0 c d a).2.1]
  | stmtDel n0 all c d a => simp only [Table.step, (deleteStatement_other t n0 all c d a).2.1]
  | polAdd n0 ss =>
      simp only [Table.step]
      by_cases h : m = n0
      · subst h
        unfold Table.addPolicy
        cases resolveStmts t ss with
        | none => rfl
        | some v => simp [hl, hin]
      · exact addPolicy_lookup_ne t n0 ss m h
  | polDel n0 pr all ss =>
      simp only [Table.step]
      by_cases h : m = n0
      · subst h; simp [Table.deletePolicy, hin]
      · exact deletePolicy_lookup_ne t n0 pr all ss m h
  | asgAdd d n0 df p => rw [(asg_other t _ env ⟨d, by simp [Spec.isAsgOp]⟩).2.2]
  | asgSet d n0 df p => rw [(asg_other t _ env ⟨d, by simp [Spec.isAsgOp]⟩).2.2]
  | asgDel d all p => rw [(asg_other t _ env ⟨d, by simp [Spec.isAsgOp]⟩).2.2]

/-! ## `refsStable` -/

theorem mem_setRefs {s : Stmt} {k : SetKind × String} (h : k ∈ Spec.setRefs s.dump) :
    ∃ o snap, Cond.set k.1 k.2 o snap ∈ s.conds := by
  simp only [Spec.setRefs, Stmt.dump, List.mem_filterMap, List.mem_map] at h
  obtain ⟨cfg, ⟨c, hc, rfl⟩, hk⟩ := h
  cases c with
  | plain p => simp [Cond.cfg] at hk
  | set k' n' o snap =>
      simp only [Cond.cfg, Option.some.injEq] at hk
      subst hk
      exact ⟨o, snap, hc⟩

theorem refsStable_of {t t' : Table} (hi : Inv ar t) (hi' : Inv ar t')
    (H1 : ∀ k n, setInUse t k n = true → alLookup (k, n) t'.sets = alLookup (k, n) t.sets)
    (H2 : ∀ m, stmtUsed t.pols m → stmtUsed t'.pols m → alLookup m t'.stmts = alLookup m t.stmts)
    (H3 : ∀ m, polUsed t m → alLookup m t'.pols = alLookup m t.pols) :
    Spec.refsStable t.dump t'.dump = true := by
  simp only [Spec.refsStable, Bool.and_eq_true]
  refine ⟨⟨?_, ?_⟩, ?_⟩
  · -- statements and the sets they refer to
    simp only [List.all_eq_true]
    intro s hs
    rw [lookupStmt_dump hi]
    cases hl : alLookup s.name t.stmts with
    | none => rfl
    | some s0 =>
        simp only [Option.map_some, List.all_eq_true]
        intro k hk
        by_cases hc : (Spec.setRefs s0.dump).contains k = true
        · have hmem : k ∈ Spec.setRefs s0.dump := by simpa using hc
          obtain ⟨o, snap, hcond⟩ := mem_setRefs hmem
          have hu : setInUse t k.1 k.2 = true := by
            simp only [setInUse, List.any_eq_true]
            exact ⟨(s.name, s0), alLookup_mem hl, _, hcond, by simp [Cond.refersTo]⟩
          obtain ⟨sn, hsn⟩ := setInUse_lookup hi hu
          have h1 := H1 k.1 k.2 hu
          simp [hc, lookupSet_dump, h1, hsn]
        · have : (Spec.setRefs s0.dump).contains k = false := by simpa using hc
          rw [this]; rfl
  · -- policies and the statements they name
    simp only [List.all_eq_true]
    intro p hp
    simp only [Table.dump, List.mem_map] at hp
    obtain ⟨e, he, rfl⟩ := hp
    rw [lookupPol_dump hi]
    cases hl : alLookup e.2.dump.name t.pols with
    | none => rfl
    | some p0 =>
        simp only [Option.map_some, List.all_eq_true]
        intro n hn
        by_cases hc : p0.dump.stmts.contains n = true
        · have hmem : n ∈ p0.dump.stmts := by simpa using hc
          simp only [Policy.dump, List.mem_map] at hmem hn
          obtain ⟨s1, hs1, hs1n⟩ := hmem
          obtain ⟨s2, hs2, hs2n⟩ := hn
          have hu : stmtUsed t.pols n := ⟨_, alLookup_mem hl, s1, hs1, hs1n⟩
          have hu' : stmtUsed t'.pols n := ⟨e, he, s2, hs2, hs2n⟩
          obtain ⟨sx, hsx⟩ := stmtUsed_lookup hi hu
          have h1 := H2 n hu hu'
          simp [hc, lookupStmt_dump hi, lookupStmt_dump hi', h1, hsx]
        · have : p0.dump.stmts.contains n = false := by simpa using hc
          rw [this]; rfl
  · -- assignments and the policies they name
    have key : ∀ (d : Dir) (a0 a1 : Assign), t.slot d = some a0 → t'.slot d = some a1 →
        (a1.dump.pols.all fun n => !a0.dump.pols.contains n ||
          (Spec.lookupPol t.dump n == Spec.lookupPol t'.dump n &&
            (Spec.lookupPol t'.dump n).isSome)) = true := by
      intro d a0 a1 h0 _
      simp only [List.all_eq_true]
      intro n _
      by_cases hc : a0.dump.pols.contains n = true
      · have hmem : n ∈ a0.dump.pols := by simpa using hc
        simp only [Assign.dump, List.mem_map] at hmem
        obtain ⟨p1, hp1, hp1n⟩ := hmem
        have hu : polUsed t n := by
          cases d
          · exact Or.inl ⟨a0, h0, p1, hp1, hp1n⟩
          · exact Or.inr ⟨a0, h0, p1, hp1, hp1n⟩
        obtain ⟨px, hpx⟩ := polUsed_lookup hi hu
        have h1 := H3 n hu
        simp [hc, lookupPol_dump hi, lookupPol_dump hi', h1, hpx]
      · have : a0.dump.pols.contains n = false := by simpa using hc
        rw [this]; rfl
    have dimp : ∀ (x : Table), x.dump.imp = x.imp.map Assign.dump := fun _ => rfl
    have dexp : ∀ (x : Table), x.dump.exp = x.exp.map Assign.dump := fun _ => rfl
    simp only [List.all_cons, List.all_nil, Bool.and_true, Bool.and_eq_true, dimp, dexp]
    constructor
    · cases h0 : t.imp with
      | none => rfl
      | some a0 =>
          cases h1 : t'.imp with
          | none => rfl
          | some a1 => exact key .imp a0 a1 h0 h1
    · cases h0 : t.exp with
      | none => rfl
      | some a0 =>
          cases h1 : t'.exp with
          | none => rfl
          | some a1 => exact key .exp a0 a1 h0 h1

theorem refsStable_ok (env : RegexEnv) {t : Table} (hi : Inv ar t) (op : Op) (hi' : Inv ar (t.step env op).1) :
    Spec.refsStable t.dump (t.step env op).1.dump = true :=
  refsStable_of hi hi' (fun k n h => step_sets_lookup env hi op k n h) (fun m h h' => step_stmts_lookup env hi op m h h')
    (fun m h => step_pols_lookup env hi op m h)

theorem refsStable_refl {t : Table} (hi : Inv ar t) : Spec.refsStable t.dump t.dump = true :=
  refsStable_of hi hi (fun _ _ _ => rfl) (fun _ _ _ => rfl) (fun _ _ => rfl)

end Rbgp.Policy
