/-
  Rbgp.Policy.ProofsEval — one evaluation of the model (`Assign.apply` on snapshots) against the
  reference chain (`Spec.refChain` on resolved statements): conditions, actions, chaining.
-/
import Rbgp.Policy.ProofsBytes
namespace Rbgp.Policy
open Rbgp.Policy

/-! ## resolved view of the model's snapshots -/

def Cond.toR : Cond → Spec.RCond
  | .set k _ o snap => .set k o snap
  | .plain p => .plain p

def Stmt.toR (s : Stmt) : Spec.RStmt := ⟨s.conds.map Cond.toR, s.disp, s.acts⟩

/-- what `add_statement` guarantees about a condition, plus the two restrictions under which the
    reference and the code agree: the stored set has the shape of its kind, ALL is not used on
    prefix/neighbor sets (rejected by `add_statement`), and an AS-path set holds no free-form
    pattern (those are never consulted by the code: known finding) -/
def Cond.ok : Cond → Bool
  | .set .prefix _ o (.prefix ..) => o != .all
  | .set .neighbor _ o (.neighbor _) => o != .all
  | .set .aspath _ _ (.aspath _ res) => res.isEmpty
  | .set .comm _ _ (.strs _) => true
  | .set .ext _ _ (.strs _) => true
  | .set .large _ _ (.strs _) => true
  | .set .. => false
  | .plain _ => true

/-! ## attribute lookups -/

theorem findAttr_eq (c : Nat) (l : List Attr) : findAttr c l = Spec.attrOf c l := rfl

theorem bind_binary_eq (c : Nat) (l : List Attr) : (findAttr c l).bind Attr.binary = Spec.binOf c l := by
  simp only [Spec.binOf, findAttr_eq]
  cases h : Spec.attrOf c l with
  | none => rfl
  | some a => obtain ⟨co, fl, d⟩ := a; cases d <;> rfl

theorem bind_value_eq (c : Nat) (l : List Attr) : (findAttr c l).bind Attr.value = Spec.valOf c l := by
  simp only [Spec.valOf, findAttr_eq]
  cases h : Spec.attrOf c l with
  | none => rfl
  | some a => obtain ⟨co, fl, d⟩ := a; cases d <;> rfl

theorem comms_eq (l : List Attr) : communitiesFromAttr l = Spec.commsOf l := by
  simp only [communitiesFromAttr, Spec.commsOf, bind_binary_eq]
  cases Spec.binOf COMMUNITY l <;> rfl

theorem exts_eq (l : List Attr) : extCommunitiesFromAttr l = Spec.extsOf l := by
  simp only [extCommunitiesFromAttr, Spec.extsOf, bind_binary_eq]
  cases Spec.binOf EXT_COMMUNITY l <;> rfl

theorem larges_eq (l : List Attr) : largeCommunitiesFromAttr l = Spec.largesOf l := by
  simp only [largeCommunitiesFromAttr, Spec.largesOf, bind_binary_eq]
  cases Spec.binOf LARGE_COMMUNITY l <;> rfl

theorem dropAttr_eq (c : Nat) (l : List Attr) : dropAttr c l = Spec.without c l := rfl

theorem attrOf_without_ne (c c' : Nat) (h : c' ≠ c) (l : List Attr) :
    Spec.attrOf c' (Spec.without c l) = Spec.attrOf c' l := by
  simp only [Spec.attrOf, Spec.without, List.find?_filter]
  congr 1
  funext a
  by_cases ha : a.code = c'
  · have : a.code ≠ c := by rw [ha]; exact h
    simp [ha, this, h]
  · simp [ha]

/-- an attribute appended for code `c` is invisible to a lookup of another code -/
theorem attrOf_put_ne (c c' : Nat) (h : c' ≠ c) (a : Attr) (ha : a.code = c) (l : List Attr) :
    Spec.attrOf c' (Spec.without c l ++ [a]) = Spec.attrOf c' l := by
  have h1 := attrOf_without_ne c c' h l
  simp only [Spec.attrOf] at h1 ⊢
  rw [List.find?_append, h1]
  have hcc : (a.code == c') = false := by rw [ha]; exact beq_false_of_ne (Ne.symm h)
  have : List.find? (fun a => a.code == c') [a] = none := by
    simp [List.find?, hcc]
  rw [this, Option.or_none]

theorem attrOf_code (c : Nat) (l : List Attr) (a : Attr) (h : Spec.attrOf c l = some a) : a.code = c := by
  simp only [Spec.attrOf] at h
  have := List.find?_some h
  simpa using this

/-! ## conditions -/

theorem cmpHolds_eq (c : Cmp) (l v : Nat) : cmpHolds c l v = Spec.cmpHolds c l v := by
  cases c <;> simp [cmpHolds, Spec.cmpHolds]

theorem single_eq (s : Single) (asns : List Nat) : s.isMatchList asns = Spec.singleHit asns s := by
  cases s <;> simp only [Single.isMatchList, Spec.singleHit]
  · cases asns.head? <;> rfl
  · cases asns.getLast? <;> rfl
  · cases asns with
    | nil => rfl
    | cons a t => cases t <;> rfl

theorem any_swap {α β} (f : α → β → Bool) (l : List α) (m : List β) :
    l.any (fun a => m.any (fun b => f a b)) = m.any (fun b => l.any (fun a => f a b)) := by
  rw [Bool.eq_iff_iff]
  simp only [List.any_eq_true]
  constructor
  · rintro ⟨a, ha, b, hb, h⟩; exact ⟨b, hb, a, ha, h⟩
  · rintro ⟨b, hb, a, ha, h⟩; exact ⟨a, ha, b, hb, h⟩

theorem matchStringSet_eq (env : RegexEnv) (strs pats : List String) (o : Opt) :
    matchStringSet env strs pats o = Spec.optHolds o pats (fun p => strs.any (fun s => env.matches p s)) := by
  cases o <;> simp only [matchStringSet, Spec.optHolds]
  · exact any_swap (fun s p => env.matches p s) strs pats
  · rw [any_swap (fun s p => env.matches p s) strs pats]

theorem prefixHit_eq (es : List PEntry) (z z6 : Option (Nat × Nat)) (net : Addr) (mask : Nat) :
    prefixHit es z z6 net mask = (Spec.prefixEntries es z z6).any (Spec.entryHit net mask) := by
  have hes : es.any (fun e => e.addr.v6 == net.v6 && e.addr.top e.mask == net.top e.mask &&
                        decide (e.mask ≤ mask) && decide (e.lo ≤ mask) && decide (mask ≤ e.hi)) = es.any (Spec.entryHit net mask) := by
    congr 1; funext e
    simp only [Spec.entryHit, Spec.covers]
    cases (e.addr.v6 == net.v6) <;> cases (e.addr.top e.mask == net.top e.mask) <;> cases (decide (e.mask ≤ mask)) <;> simp
  simp only [prefixHit, Spec.prefixEntries, List.any_append, hes]
  cases hv : net.v6 <;> cases z <;> cases z6 <;>
    simp [Option.elim, Spec.entryHit, Spec.covers, Addr.top, hv, Bool.or_comm]

/-- the AS_PATH of the route is decodable: what `Spec.pathOk` says, unfolded -/
theorem pathOk_cases (attrs : List Attr) (h : Spec.pathOk attrs = true) :
    Spec.attrOf AS_PATH attrs = none ∨
    ∃ co fl b segs, Spec.attrOf AS_PATH attrs = some ⟨co, fl, .bin b⟩ ∧ segsOf b = some segs ∧ ∀ x ∈ b, x < 256 := by
  simp only [Spec.pathOk] at h
  cases ha : Spec.attrOf AS_PATH attrs with
  | none => exact Or.inl rfl
  | some a =>
      obtain ⟨co, fl, d⟩ := a
      cases d with
      | val v => simp [ha] at h
      | bin b =>
          simp only [ha, Bool.and_eq_true, List.all_eq_true, decide_eq_true_eq] at h
          cases hs : segsOf b with
          | none => simp [hs] at h
          | some segs => exact Or.inr ⟨co, fl, b, segs, rfl, hs, h.2⟩

theorem evalSet_eq (env : RegexEnv) (cx : Ctx) (st : St) (k : SetKind) (n : String) (o : Opt) (snap : SetObj)
    (hok : (Cond.set k n o snap).ok = true) (hp : Spec.pathOk st.attrs = true) :
    evalSet env cx st k o snap = some (Spec.setHolds env {} cx st k o snap) := by
  cases k <;> cases snap <;> simp only [Cond.ok] at hok <;> try (simp at hok)
  · -- prefix
    rename_i es z z6
    simp only [evalSet, Spec.setHolds, prefixHit_eq]
    have hinv : (Opt.invert == Opt.any) = false := rfl
    have hany : (Opt.any == Opt.any) = true := rfl
    cases o
    · simp only [Spec.optHolds, hany]; split <;> simp_all
    · simp at hok
    · simp only [Spec.optHolds, hinv]; split <;> simp_all
  · -- neighbor
    rename_i nets
    simp only [evalSet, Spec.setHolds]
    have hn : (fun (n : Addr × Nat) => netContains n.1 n.2 cx.peerAddr) = (fun n => Spec.netContains n.1 n.2 cx.peerAddr) := rfl
    cases o <;> simp [Spec.optHolds, hn] at hok ⊢
  · -- aspath without free-form patterns
    rename_i singles res
    have hres : res = [] := by simpa using hok
    subst hres
    simp only [evalSet, Spec.setHolds, findAttr_eq, Spec.pathOf]
    rcases pathOk_cases st.attrs hp with hnone | ⟨co, fl, b, segs, ha, hs, _⟩
    · simp only [hnone]
      cases o <;> simp [Spec.optHolds, List.all_eq_true, List.isEmpty_iff]
      cases singles <;> simp
    · simp only [ha, Attr.binary, hs]
      have hit := iterSegs_segsOf b.length b segs (Nat.le_refl _) hs
      simp only [hit, Spec.flatAsns]
      have hs' : ∀ (s : Single), s.isMatchList (List.map (fun x => x.asns) segs).flatten
          = Spec.singleHit (List.map (fun x => x.asns) segs).flatten s := fun s => single_eq s _
      cases o <;> simp [Spec.optHolds, List.any_map, List.all_map, Function.comp_def, hs']
  · -- communities
    rename_i pats
    simp only [evalSet, Spec.setHolds, matchStringSet_eq, comms_eq]
    rfl
  · rename_i pats
    simp only [evalSet, Spec.setHolds, matchStringSet_eq, exts_eq]
  · rename_i pats
    simp only [evalSet, Spec.setHolds, matchStringSet_eq, larges_eq]
    rfl

theorem evalPlain_eq (cx : Ctx) (st : St) (p : Plain) (hp : Spec.pathOk st.attrs = true) :
    evalPlain cx st p = some (Spec.plainHolds cx st p) := by
  cases p with
  | nexthop l => simp only [evalPlain, Spec.plainHolds]; cases st.nh <;> rfl
  | asPathLen c v =>
      simp only [evalPlain, Spec.plainHolds, findAttr_eq, Spec.pathOf]
      rcases pathOk_cases st.attrs hp with hnone | ⟨co, fl, b, segs, ha, hs, _⟩
      · simp [hnone]
      · simp only [ha, Attr.binary, hs]
        rw [asPathLength_segsOf b.length b segs (Nat.le_refl _) hs]
        simp [cmpHolds_eq]
  | rpki s => rfl
  | localPrefEq v => simp only [evalPlain, Spec.plainHolds, bind_value_eq]
  | medEq v => simp only [evalPlain, Spec.plainHolds, bind_value_eq]
  | origin v => simp only [evalPlain, Spec.plainHolds, bind_value_eq]
  | routeType t => cases t <;> rfl
  | commCount c v => simp only [evalPlain, Spec.plainHolds, comms_eq, cmpHolds_eq]
  | afiSafiIn l => rfl

theorem evalCond_eq (env : RegexEnv) (cx : Ctx) (st : St) (c : Cond) (hok : c.ok = true)
    (hp : Spec.pathOk st.attrs = true) :
    evalCond env cx st c = some (Spec.condHolds env {} cx st c.toR) := by
  cases c with
  | set k n o snap => exact evalSet_eq env cx st k n o snap hok hp
  | plain p => exact evalPlain_eq cx st p hp

theorem evalConds_eq (env : RegexEnv) (cx : Ctx) (st : St) (cs : List Cond) (hok : ∀ c ∈ cs, c.ok = true)
    (hp : Spec.pathOk st.attrs = true) :
    evalConds env cx st cs = some ((cs.map Cond.toR).all (Spec.condHolds env {} cx st)) := by
  induction cs with
  | nil => rfl
  | cons c r ih =>
      have h1 := evalCond_eq env cx st c (hok c (by simp)) hp
      have h2 := ih (fun c hc => hok c (by simp [hc]))
      simp only [evalConds, h1, List.map_cons, List.all_cons]
      cases Spec.condHolds env {} cx st c.toR <;> simp [h2]

/-! ## actions -/

theorem applyCat_eq {α} [BEq α] (t : CAT) (a b : List α) : applyCat t a b = Spec.edit t a b := by
  cases t <;> rfl

theorem clamp_eq (i : Int) : clampU32 i = Spec.clampU32 i := rfl

/-- `pathOk` only looks at the AS_PATH attribute -/
theorem pathOk_congr (l l' : List Attr) (h : Spec.attrOf AS_PATH l' = Spec.attrOf AS_PATH l) :
    Spec.pathOk l' = Spec.pathOk l := by
  simp only [Spec.pathOk, h]

theorem pathOk_put (c : Nat) (hc : c ≠ AS_PATH) (d : AData) (l : List Attr) :
    Spec.pathOk (Spec.put c d l) = Spec.pathOk l :=
  pathOk_congr _ _ (attrOf_put_ne c AS_PATH (Ne.symm hc) _ rfl l)

theorem pathOk_without (c : Nat) (hc : c ≠ AS_PATH) (l : List Attr) :
    Spec.pathOk (Spec.without c l) = Spec.pathOk l :=
  pathOk_congr _ _ (attrOf_without_ne c AS_PATH (Ne.symm hc) l)

/-- prepending on equal encodings gives equal encodings -/
theorem encSegs_prependSeg_congr (ty x : Nat) (s1 s2 : List Seg) (h : encSegs s1 = encSegs s2) :
    encSegs (Spec.prependSeg ty x s1) = encSegs (Spec.prependSeg ty x s2) := by
  cases s1 with
  | nil =>
      cases s2 with
      | nil => rfl
      | cons b l2 => rw [encSegs_cons] at h; simp [encSegs] at h
  | cons a l1 =>
      cases s2 with
      | nil => rw [encSegs_cons] at h; simp [encSegs] at h
      | cons b l2 =>
          have h' := h
          rw [encSegs_cons, encSegs_cons] at h'
          simp only [List.cons.injEq] at h'
          obtain ⟨hty, hlen, htail⟩ := h'
          simp only [Spec.prependSeg, hty, hlen]
          split
          · simp only [encSegs_cons, List.length_cons, hlen, enc4_cons, List.append_assoc, htail]
          · rw [encSegs_cons ⟨ty, [x]⟩ (a :: l1), encSegs_cons ⟨ty, [x]⟩ (b :: l2), h]

theorem prependN_spec (ty x : Nat) (hty : 1 ≤ ty ∧ ty ≤ 4) : ∀ (n : Nat) (b : Bytes) (segs : List Seg),
    (segsOf b).isSome = true → (∀ y ∈ b, y < 256) → b = encSegs segs →
    prependN ty x n b = some (encSegs (Spec.prependSegN ty x n segs)) ∧
    (segsOf (encSegs (Spec.prependSegN ty x n segs))).isSome = true ∧
    (∀ y ∈ encSegs (Spec.prependSegN ty x n segs), y < 256)
  | 0, b, segs, hs, hlt, he => by
      subst he
      exact ⟨rfl, hs, hlt⟩
  | n + 1, b, segs, hs, hlt, he => by
      cases hs' : segsOf b with
      | none => simp [hs'] at hs
      | some s' =>
          have h6 := asPathPrepend_segsOf ty x hty b s' hs' hlt
          have henc := encSegs_segsOf b.length b s' (Nat.le_refl _) hs' hlt
          have hcong := encSegs_prependSeg_congr ty x s' segs (by rw [henc, he])
          rw [hcong] at h6
          have ih := prependN_spec ty x hty n (encSegs (Spec.prependSeg ty x segs)) (Spec.prependSeg ty x segs)
            h6.2.2 h6.2.1 rfl
          simp only [prependN, h6.1, Spec.prependSegN]
          exact ih

theorem actNexthop_eq (cx : Ctx) (a : Option NhAct) (st : St) :
    actNexthop cx a st = ⟨st.attrs, Spec.actNh cx a st.nh⟩ := by
  cases a with
  | none => rfl
  | some x =>
      cases x <;> simp only [actNexthop, Spec.actNh]
      cases cx.origNh <;> rfl

theorem actCommunity_eq (a : Option (CAT × List Nat)) (st : St) :
    actCommunity a st = ⟨Spec.actComm a st.attrs, st.nh⟩ := by
  cases a with
  | none => rfl
  | some x =>
      obtain ⟨t, l⟩ := x
      simp only [actCommunity, Spec.actComm, comms_eq, applyCat_eq, dropAttr_eq, Spec.put, newBin]
      all_goals (try (split <;> rfl))

theorem actLocalPref_eq (a : Option Nat) (st : St) :
    actLocalPref a st = ⟨Spec.actLp a st.attrs, st.nh⟩ := by
  cases a <;> rfl

theorem actMed_eq (a : Option (Bool × Int)) (st : St) :
    actMed a st = ⟨Spec.actMed a st.attrs, st.nh⟩ := by
  cases a with
  | none => rfl
  | some x =>
      obtain ⟨m, v⟩ := x
      simp only [actMed, Spec.actMed, bind_value_eq, dropAttr_eq, Spec.put, newVal, clamp_eq]

theorem actExt_eq (a : Option (CAT × List Bytes)) (st : St) :
    actExt a st = ⟨Spec.actExt a st.attrs, st.nh⟩ := by
  cases a with
  | none => rfl
  | some x =>
      obtain ⟨t, l⟩ := x
      simp only [actExt, Spec.actExt, exts_eq, applyCat_eq, dropAttr_eq, Spec.put, newBin]
      all_goals (try (split <;> rfl))

theorem actLarge_eq (a : Option (CAT × List (Nat × Nat × Nat))) (st : St) :
    actLarge a st = ⟨Spec.actLarge a st.attrs, st.nh⟩ := by
  cases a with
  | none => rfl
  | some x =>
      obtain ⟨t, l⟩ := x
      simp only [actLarge, Spec.actLarge, larges_eq, applyCat_eq, dropAttr_eq, Spec.put, newBin]
      all_goals (try (split <;> rfl))

theorem actOrigin_eq (a : Option Nat) (st : St) :
    actOrigin a st = ⟨Spec.actOrigin a st.attrs, st.nh⟩ := by
  cases a <;> rfl

theorem pathOk_actComm (a : Option (CAT × List Nat)) (l : List Attr) :
    Spec.pathOk (Spec.actComm a l) = Spec.pathOk l := by
  cases a with
  | none => rfl
  | some x =>
      obtain ⟨t, c⟩ := x
      simp only [Spec.actComm]
      split
      · exact pathOk_without COMMUNITY (by decide) l
      · exact pathOk_put COMMUNITY (by decide) _ l

theorem pathOk_actLp (a : Option Nat) (l : List Attr) : Spec.pathOk (Spec.actLp a l) = Spec.pathOk l := by
  cases a with
  | none => rfl
  | some v => exact pathOk_put LOCAL_PREF (by decide) _ l

theorem pathOk_actMed (a : Option (Bool × Int)) (l : List Attr) : Spec.pathOk (Spec.actMed a l) = Spec.pathOk l := by
  cases a with
  | none => rfl
  | some x => obtain ⟨m, v⟩ := x; exact pathOk_put MED (by decide) _ l

theorem pathOk_actExt (a : Option (CAT × List Bytes)) (l : List Attr) :
    Spec.pathOk (Spec.actExt a l) = Spec.pathOk l := by
  cases a with
  | none => rfl
  | some x =>
      obtain ⟨t, c⟩ := x
      simp only [Spec.actExt]
      split
      · exact pathOk_without EXT_COMMUNITY (by decide) l
      · exact pathOk_put EXT_COMMUNITY (by decide) _ l

theorem pathOk_actLarge (a : Option (CAT × List (Nat × Nat × Nat))) (l : List Attr) :
    Spec.pathOk (Spec.actLarge a l) = Spec.pathOk l := by
  cases a with
  | none => rfl
  | some x =>
      obtain ⟨t, c⟩ := x
      simp only [Spec.actLarge]
      split
      · exact pathOk_without LARGE_COMMUNITY (by decide) l
      · exact pathOk_put LARGE_COMMUNITY (by decide) _ l

theorem pathOk_actOrigin (a : Option Nat) (l : List Attr) : Spec.pathOk (Spec.actOrigin a l) = Spec.pathOk l := by
  cases a with
  | none => rfl
  | some v => exact pathOk_put ORIGIN (by decide) _ l

theorem attrOf_append_new (c : Nat) (l : List Attr) (a : Attr) (ha : a.code = c) :
    Spec.attrOf c (Spec.without c l ++ [a]) = some a := by
  simp only [Spec.attrOf, Spec.without, List.find?_append]
  have h1 : List.find? (fun a => a.code == c) (List.filter (fun a => a.code != c) l) = none := by
    rw [List.find?_eq_none]
    intro x hx
    simp only [List.mem_filter] at hx
    simpa using hx.2
  have h2 : List.find? (fun a => a.code == c) [a] = some a := by simp [List.find?, ha]
  rw [h1, h2]; rfl

/-- AS-path prepend: no panic, the reference's attribute list, AS_PATH still decodable -/
theorem actAsPrepend_eq (cx : Ctx) (a : Option (Nat × Nat × Bool)) (st : St) (hp : Spec.pathOk st.attrs = true) :
    actAsPrepend cx a st = some ⟨Spec.actPrep cx a st.attrs, st.nh⟩ ∧
    Spec.pathOk (Spec.actPrep cx a st.attrs) = true := by
  cases a with
  | none => exact ⟨rfl, hp⟩
  | some x =>
      obtain ⟨asn, rep, lm⟩ := x
      by_cases hrep : rep = 0
      · simp [actAsPrepend, Spec.actPrep, hrep, hp]
      · have hty : 1 ≤ (if cx.confed then 3 else 2) ∧ (if cx.confed then 3 else 2) ≤ 4 := by
          cases cx.confed <;> simp
        simp only [actAsPrepend, Spec.actPrep, hrep, if_false, findAttr_eq, Spec.pathOf]
        rcases pathOk_cases st.attrs hp with hnone | ⟨co, fl, b, segs, ha, hs, hlt⟩
        · -- no AS_PATH attribute: start from the empty path
          simp only [hnone, Option.getD_none, Attr.binary, Option.elim]
          have h := prependN_spec (if cx.confed then 3 else 2) (if lm then ((iterSegs []).flatten.head?).getD asn else asn)
            hty rep [] [] (by simp [segsOf_nil]) (by simp) rfl
          have hflat : (iterSegs ([] : Bytes)).flatten.head? = (Spec.flatAsns []).head? := by
            simp [iterSegs_nil, Spec.flatAsns]
          rw [hflat] at h
          simp only [hflat, h.1, dropAttr_eq]
          refine ⟨trivial, ?_⟩
          simp only [Spec.pathOk]
          rw [attrOf_append_new AS_PATH st.attrs _ rfl]
          simp only [Bool.and_eq_true, List.all_eq_true, decide_eq_true_eq]
          exact ⟨h.2.1, h.2.2⟩
        · have hbe := encSegs_segsOf b.length b segs (Nat.le_refl _) hs hlt
          have hit := iterSegs_segsOf b.length b segs (Nat.le_refl _) hs
          simp only [ha, Option.getD_some, Attr.binary, Option.elim, hs]
          have h := prependN_spec (if cx.confed then 3 else 2) (if lm then ((iterSegs b).flatten.head?).getD asn else asn)
            hty rep b segs (by simp [hs]) hlt hbe.symm
          have hflat : (iterSegs b).flatten.head? = (Spec.flatAsns segs).head? := by
            simp [hit, Spec.flatAsns]
          rw [hflat] at h
          have hco : co = AS_PATH := by
            have := attrOf_code AS_PATH st.attrs _ ha
            simpa using this
          simp only [hflat, h.1, dropAttr_eq, hco]
          refine ⟨trivial, ?_⟩
          simp only [Spec.pathOk]
          rw [attrOf_append_new AS_PATH st.attrs _ rfl]
          simp only [Bool.and_eq_true, List.all_eq_true, decide_eq_true_eq]
          exact ⟨h.2.1, h.2.2⟩

/-- the action block: same attribute list and next hop as the reference, no panic, and the
    AS_PATH stays decodable -/
theorem applyActions_eq (cx : Ctx) (a : Actions) (st : St) (hp : Spec.pathOk st.attrs = true) :
    applyActions cx a st = some (Spec.applyActs cx a st) ∧ Spec.pathOk (Spec.applyActs cx a st).attrs = true := by
  have h4 : Spec.pathOk (Spec.actMed a.med (Spec.actLp a.localPref (Spec.actComm a.community st.attrs))) = true := by
    rw [pathOk_actMed, pathOk_actLp, pathOk_actComm]; exact hp
  have h5 := actAsPrepend_eq cx a.asPrepend
    ⟨Spec.actMed a.med (Spec.actLp a.localPref (Spec.actComm a.community st.attrs)), Spec.actNh cx a.nexthop st.nh⟩ h4
  simp only [applyActions, actNexthop_eq, actCommunity_eq, actLocalPref_eq, actMed_eq, h5.1, actExt_eq,
    actLarge_eq, actOrigin_eq, Spec.applyActs]
  refine ⟨trivial, ?_⟩
  rw [pathOk_actOrigin, pathOk_actLarge, pathOk_actExt]
  exact h5.2

/-! ## statements, policies, assignment -/

theorem stmt_apply_eq (env : RegexEnv) (cx : Ctx) (s : Stmt) (st : St) (hok : ∀ c ∈ s.conds, c.ok = true)
    (hp : Spec.pathOk st.attrs = true) :
    s.apply env cx st =
      some (if s.toR.conds.all (Spec.condHolds env {} cx st) then (s.disp.getD .pass, Spec.applyActs cx s.acts st)
            else (.pass, st)) := by
  simp only [Stmt.apply, evalConds_eq env cx st s.conds hok hp, Stmt.toR]
  by_cases h : (s.conds.map Cond.toR).all (Spec.condHolds env {} cx st) = true
  · simp [h, (applyActions_eq cx s.acts st hp).1]
  · have h' : (s.conds.map Cond.toR).all (Spec.condHolds env {} cx st) = false := by simpa using h
    simp [h']

/-- one step of the reference chain, in the shape of `Stmt.apply` -/
theorem refChain_cons (env : RegexEnv) (cx : Ctx) (dflt : Disp) (s : Spec.RStmt) (r : List Spec.RStmt) (st : St) :
    Spec.refChain env {} cx dflt (s :: r) st =
      if s.conds.all (Spec.condHolds env {} cx st) then
        (if s.disp.getD .pass != .pass then (s.disp.getD .pass, Spec.applyActs cx s.acts st)
         else Spec.refChain env {} cx dflt r (Spec.applyActs cx s.acts st))
      else Spec.refChain env {} cx dflt r st := by
  simp only [Spec.refChain]
  split
  · cases hd : s.disp with
    | none => simp
    | some d => cases d <;> simp
  · rfl

theorem applyStmts_eq (env : RegexEnv) (cx : Ctx) (dflt : Disp) (rest : List Spec.RStmt) :
    ∀ (ss : List Stmt) (st : St), (∀ s ∈ ss, ∀ c ∈ s.conds, c.ok = true) → Spec.pathOk st.attrs = true →
    ∃ d st', applyStmts env cx ss st = some (d, st') ∧ Spec.pathOk st'.attrs = true ∧
      Spec.refChain env {} cx dflt (ss.map Stmt.toR ++ rest) st =
        (if d != .pass then (d, st') else Spec.refChain env {} cx dflt rest st')
  | [], st, _, hp => ⟨.pass, st, rfl, hp, by simp⟩
  | s :: ss, st, hok, hp => by
      have hs := stmt_apply_eq env cx s st (hok s (by simp)) hp
      have hact := applyActions_eq cx s.acts st hp
      simp only [applyStmts, hs, List.map_cons, List.cons_append, refChain_cons]
      by_cases hc : s.toR.conds.all (Spec.condHolds env {} cx st) = true
      · simp only [hc, if_true]
        by_cases hd : (s.disp.getD .pass != .pass) = true
        · exact ⟨s.disp.getD .pass, Spec.applyActs cx s.acts st, by simp [hd], hact.2, by simp [Stmt.toR, hd]⟩
        · have ih := applyStmts_eq env cx dflt rest ss (Spec.applyActs cx s.acts st)
            (fun s' hs' => hok s' (by simp [hs'])) hact.2
          obtain ⟨d, st', h1, h2, h3⟩ := ih
          exact ⟨d, st', by simp [hd, h1], h2, by simp [Stmt.toR, hd, h3]⟩
      · have hc' : s.toR.conds.all (Spec.condHolds env {} cx st) = false := by simpa using hc
        simp only [hc', Bool.false_eq_true, if_false]
        have ih := applyStmts_eq env cx dflt rest ss st (fun s' hs' => hok s' (by simp [hs'])) hp
        obtain ⟨d, st', h1, h2, h3⟩ := ih
        exact ⟨d, st', by simp [h1], h2, h3⟩

/-- `PolicyAssignment::apply` on snapshots = the reference chain over all their statements -/
theorem applyPols_eq (env : RegexEnv) (cx : Ctx) (dflt : Disp) :
    ∀ (ps : List Policy) (st : St), (∀ p ∈ ps, ∀ s ∈ p.stmts, ∀ c ∈ s.conds, c.ok = true) →
    Spec.pathOk st.attrs = true →
    applyPols env cx dflt ps st =
      some (Spec.refChain env {} cx dflt ((ps.map (fun p => p.stmts.map Stmt.toR)).flatten) st)
  | [], st, _, _ => rfl
  | p :: ps, st, hok, hp => by
      obtain ⟨d, st', h1, h2, h3⟩ := applyStmts_eq env cx dflt ((ps.map (fun p => p.stmts.map Stmt.toR)).flatten)
        p.stmts st (hok p (by simp)) hp
      simp only [applyPols, h1, List.map_cons, List.flatten_cons, h3]
      by_cases hd : (d != .pass) = true
      · simp [hd]
      · simp only [hd, Bool.false_eq_true, if_false]
        exact applyPols_eq env cx dflt ps st' (fun p' hp' => hok p' (by simp [hp'])) h2

end Rbgp.Policy
