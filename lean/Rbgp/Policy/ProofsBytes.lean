/-
  Rbgp.Policy.ProofsBytes — the byte-level AS_PATH helpers of the model (`iterSegs`,
  `asPathLength`, `asPathPrepend`) agree with the segment-level reading of the reference
  (`segsOf`, `Spec.pathLen`, `Spec.prependSeg`) on every payload the wire decoder accepts.
-/
import Rbgp.Policy.Model
import Rbgp.Policy.Spec
namespace Rbgp.Policy
open Rbgp.Policy

/-! ## u32 groups -/

theorem be32_lt (n : Nat) : ∀ x ∈ be32 n, x < 256 := by
  intro x hx
  simp only [be32, List.mem_cons, List.not_mem_nil, or_false] at hx
  rcases hx with h | h | h | h <;> subst h <;> omega

theorem rd32_be32 (a b c d : Nat) (ha : a < 256) (hb : b < 256) (hc : c < 256) (hd : d < 256) :
    be32 (a * 16777216 + b * 65536 + c * 256 + d) = [a, b, c, d] := by
  simp only [be32]
  congr 1
  · omega
  · congr 1
    · omega
    · congr 1
      · omega
      · congr 1; omega

/-- `readAsns` consumes exactly the encoding of what it returns -/
theorem readAsns_spec : ∀ (n : Nat) (b : Bytes) (v : List Nat) (r : Bytes),
    readAsns n b = some (v, r) → v.length = n ∧ ((∀ x ∈ b, x < 256) → b = enc4 v ++ r)
  | 0, b, v, r, h => by
      simp [readAsns] at h
      obtain ⟨rfl, rfl⟩ := h
      simp [enc4]
  | n + 1, b, v, r, h => by
      match b with
      | a :: b1 :: c :: d :: rest =>
          simp only [readAsns, rd32] at h
          split at h
          · rename_i xs r' hr
            have ih := readAsns_spec n rest xs r' hr
            simp at h
            obtain ⟨rfl, rfl⟩ := h
            refine ⟨by simp [ih.1], ?_⟩
            intro hlt
            have hrest : ∀ x ∈ rest, x < 256 := fun x hx => hlt x (by simp [hx])
            have e := ih.2 hrest
            have h4 := rd32_be32 a b1 c d (hlt a (by simp)) (hlt b1 (by simp)) (hlt c (by simp)) (hlt d (by simp))
            simp only [enc4, List.flatMap_cons, h4]
            simp only [enc4] at e
            rw [e]
            simp
          · simp at h
      | [] => simp [readAsns, rd32] at h
      | [_] => simp [readAsns, rd32] at h
      | [_, _] => simp [readAsns, rd32] at h
      | [_, _, _] => simp [readAsns, rd32] at h

/-! ## `segsOf` unfolding -/

theorem segsOf_nil : segsOf [] = some [] := by
  unfold segsOf; rfl

theorem segsOf_cons2 (t n : Nat) (r : Bytes) :
    segsOf (t :: n :: r) =
      if 1 ≤ t ∧ t ≤ 4 then
        match readAsns n r with
        | some (v, r') =>
            (match segsOf r' with
             | some rest => some (⟨t, v⟩ :: rest)
             | none => none)
        | none => none
      else none := by
  rw [segsOf]
  split
  · split
    · rename_i v r' h1; simp only [h1]; cases segsOf r' <;> rfl
    · rename_i h1; simp only [h1]
  · rfl

theorem segsOf_single (x : Nat) : segsOf [x] = none := by
  unfold segsOf; rfl

/-- a parsed payload made of bytes is the encoding of its segments -/
theorem encSegs_segsOf : ∀ (k : Nat) (b : Bytes) (segs : List Seg), b.length ≤ k →
    segsOf b = some segs → (∀ x ∈ b, x < 256) → encSegs segs = b
  | 0, b, segs, hk, h, _ => by
      have : b = [] := List.eq_nil_of_length_eq_zero (by omega)
      subst this
      rw [segsOf_nil] at h
      simp at h; subst h; rfl
  | k + 1, b, segs, hk, h, hlt => by
      match b with
      | [] => rw [segsOf_nil] at h; simp at h; subst h; rfl
      | [x] => rw [segsOf_single] at h; simp at h
      | t :: n :: r =>
          rw [segsOf_cons2] at h
          split at h
          · split at h
            · rename_i v r' hr
              split at h
              · rename_i rest hrest
                simp at h; subst h
                have hs := readAsns_spec n r v r' hr
                have hlen := readAsns_length n r v r' hr
                have hr256 : ∀ x ∈ r, x < 256 := fun x hx => hlt x (by simp [hx])
                have e := hs.2 hr256
                have hr'256 : ∀ x ∈ r', x < 256 := by
                  intro x hx; apply hr256; rw [e]; simp [hx]
                have ih := encSegs_segsOf k r' rest (by simp at hk; omega) hrest hr'256
                simp only [encSegs, List.flatMap_cons, encSeg]
                simp only [encSegs] at ih
                rw [ih, hs.1, e]
                simp
              · simp at h
            · simp at h
          · simp at h

/-! ## the model's readers against `segsOf` -/

theorem iterSegs_nil : iterSegs [] = [] := by unfold iterSegs; rfl
theorem iterSegs_single (x : Nat) : iterSegs [x] = [] := by unfold iterSegs; rfl
theorem iterSegs_cons2 (t n : Nat) (r : Bytes) :
    iterSegs (t :: n :: r) =
      match readAsns n r with
      | some (v, r') => v :: iterSegs r'
      | none => [] := by
  rw [iterSegs]
  split
  · rename_i h1; simp only [h1]
  · rename_i h1; simp only [h1]

/-- `AsPathIter` yields the members of each parsed segment -/
theorem iterSegs_segsOf : ∀ (k : Nat) (b : Bytes) (segs : List Seg), b.length ≤ k →
    segsOf b = some segs → iterSegs b = segs.map (·.asns)
  | 0, b, segs, hk, h => by
      have : b = [] := List.eq_nil_of_length_eq_zero (by omega)
      subst this
      rw [segsOf_nil] at h; simp at h; subst h; simp [iterSegs_nil]
  | k + 1, b, segs, hk, h => by
      match b with
      | [] => rw [segsOf_nil] at h; simp at h; subst h; simp [iterSegs_nil]
      | [x] => rw [segsOf_single] at h; simp at h
      | t :: n :: r =>
          rw [segsOf_cons2] at h
          rw [iterSegs_cons2]
          split at h
          · split at h
            · rename_i v r' hr
              split at h
              · rename_i rest hrest
                simp at h; subst h
                have hlen := readAsns_length n r v r' hr
                have ih := iterSegs_segsOf k r' rest (by simp at hk; omega) hrest
                simp [hr, ih]
              · simp at h
            · simp at h
          · simp at h

theorem asPathLength_nil : asPathLength [] = some 0 := by unfold asPathLength; rfl
theorem asPathLength_cons2 (t l : Nat) (r : Bytes) :
    asPathLength (t :: l :: r) =
      if t = 1 then (asPathLength (r.drop (4 * l))).map (· + 1)
      else if t = 2 then (asPathLength (r.drop (4 * l))).map (· + l)
      else if t = 3 ∨ t = 4 then asPathLength (r.drop (4 * l))
      else none := by
  rw [asPathLength]

theorem enc4_cons (a : Nat) (v : List Nat) : enc4 (a :: v) = be32 a ++ enc4 v := by
  simp [enc4]

theorem encSegs_cons (s : Seg) (l : List Seg) :
    encSegs (s :: l) = s.ty :: s.asns.length :: (enc4 s.asns ++ encSegs l) := by
  simp [encSegs, encSeg]

/-- `readAsns n` drops exactly `4 * n` bytes -/
theorem readAsns_drop : ∀ (n : Nat) (b : Bytes) (v : List Nat) (r : Bytes),
    readAsns n b = some (v, r) → b.drop (4 * n) = r
  | 0, b, v, r, h => by
      simp [readAsns] at h; obtain ⟨_, rfl⟩ := h; simp
  | n + 1, b, v, r, h => by
      match b with
      | a :: b1 :: c :: d :: rest =>
          simp only [readAsns, rd32] at h
          split at h
          · rename_i xs r' hr
            have ih := readAsns_drop n rest xs r' hr
            simp at h
            obtain ⟨_, rfl⟩ := h
            have : 4 * (n + 1) = 4 * n + 4 := by omega
            rw [this]
            simp [List.drop_succ_cons, ih]
          · simp at h
      | [] => simp [readAsns, rd32] at h
      | [_] => simp [readAsns, rd32] at h
      | [_, _] => simp [readAsns, rd32] at h
      | [_, _, _] => simp [readAsns, rd32] at h

/-- `as_path_length` does not panic on a decodable payload and returns the reference length -/
theorem asPathLength_segsOf : ∀ (k : Nat) (b : Bytes) (segs : List Seg), b.length ≤ k →
    segsOf b = some segs → asPathLength b = some (Spec.pathLen segs)
  | 0, b, segs, hk, h => by
      have : b = [] := List.eq_nil_of_length_eq_zero (by omega)
      subst this
      rw [segsOf_nil] at h; simp at h; subst h; simp [asPathLength_nil, Spec.pathLen]
  | k + 1, b, segs, hk, h => by
      match b with
      | [] => rw [segsOf_nil] at h; simp at h; subst h; simp [asPathLength_nil, Spec.pathLen]
      | [x] => rw [segsOf_single] at h; simp at h
      | t :: n :: r =>
          rw [segsOf_cons2] at h
          rw [asPathLength_cons2]
          split at h
          · rename_i ht
            split at h
            · rename_i v r' hr
              split at h
              · rename_i rest hrest
                simp at h; subst h
                have hlen := readAsns_length n r v r' hr
                have hd := readAsns_drop n r v r' hr
                have hs := readAsns_spec n r v r' hr
                have ih := asPathLength_segsOf k r' rest (by simp at hk; omega) hrest
                rw [hd, ih]
                simp only [Spec.pathLen, hs.1]
                by_cases h1 : t = 1
                · simp [h1]; omega
                · by_cases h2 : t = 2
                  · simp [h2]; omega
                  · have : t = 3 ∨ t = 4 := by omega
                    simp [h1, h2, this]
              · simp at h
            · simp at h
          · simp at h

/-! ## prepending -/

theorem readAsns_append_be32 (n asn : Nat) (r : Bytes) :
    readAsns (n + 1) (be32 asn ++ r) =
      match readAsns n r with
      | some (xs, r') =>
          some ((asn / 16777216 % 256 * 16777216 + asn / 65536 % 256 * 65536 + asn / 256 % 256 * 256 + asn % 256) :: xs, r')
      | none => none := by
  simp only [readAsns, be32, rd32, List.cons_append, List.nil_append]
  split <;> (rename_i h1; simp only [h1])

/-- one `as_path_prepend[_confed]` step on a decodable payload of bytes: no panic, the result is
    the encoding of the reference's segment-level step, and is again decodable -/
theorem asPathPrepend_segsOf (ty asn : Nat) (hty : 1 ≤ ty ∧ ty ≤ 4) (b : Bytes) (segs : List Seg)
    (h : segsOf b = some segs) (hlt : ∀ x ∈ b, x < 256) :
    asPathPrepend ty b asn = some (encSegs (Spec.prependSeg ty asn segs)) ∧
    (∀ x ∈ encSegs (Spec.prependSeg ty asn segs), x < 256) ∧
    (segsOf (encSegs (Spec.prependSeg ty asn segs))).isSome := by
  have henc := encSegs_segsOf b.length b segs (Nat.le_refl _) h hlt
  match b with
  | [] =>
      rw [segsOf_nil] at h; simp at h; subst h
      refine ⟨by simp [asPathPrepend, Spec.prependSeg, encSegs, encSeg, enc4], ?_, ?_⟩
      · intro x hx
        simp [Spec.prependSeg, encSegs, encSeg, enc4] at hx
        rcases hx with rfl | rfl | hx
        · omega
        · omega
        · exact be32_lt asn x hx
      · simp only [Spec.prependSeg, encSegs, List.flatMap_cons, List.flatMap_nil, encSeg, enc4,
          List.length_singleton, List.append_nil]
        rw [segsOf_cons2]
        simp [hty, readAsns, be32, rd32, segsOf_nil]
  | [x] => rw [segsOf_single] at h; simp at h
  | t :: n :: r =>
      rw [segsOf_cons2] at h
      split at h
      · rename_i ht
        split at h
        · rename_i v r' hr
          split at h
          · rename_i rest hrest
            simp at h; subst h
            have hs := readAsns_spec n r v r' hr
            have hr256 : ∀ x ∈ r, x < 256 := fun x hx => hlt x (by simp [hx])
            have hn : n < 256 := hlt n (by simp)
            have ht256 : t < 256 := hlt t (by simp)
            have e := hs.2 hr256
            by_cases hc : t = ty ∧ n < 255
            · -- room in a leading segment of the right type
              have hps : Spec.prependSeg ty asn (⟨t, v⟩ :: rest) = ⟨t, asn :: v⟩ :: rest := by
                simp [Spec.prependSeg, hc.1, hs.1, hc.2]
              rw [hps]
              have htail : enc4 v ++ encSegs rest = r := by
                have := henc
                rw [encSegs_cons] at this
                simp only [List.cons.injEq] at this
                exact this.2.2
              have hb' : encSegs (⟨t, asn :: v⟩ :: rest) = t :: (n + 1) :: (be32 asn ++ r) := by
                rw [encSegs_cons]
                simp only [List.length_cons, hs.1, enc4_cons, List.append_assoc, htail]
              refine ⟨by rw [hb']; simp [asPathPrepend, hc], ?_, ?_⟩
              · rw [hb']; intro x hx
                simp at hx
                rcases hx with rfl | rfl | hx | hx
                · exact ht256
                · omega
                · exact be32_lt asn x hx
                · exact hr256 x hx
              · rw [hb', segsOf_cons2, readAsns_append_be32]
                simp [ht, hr, hrest]
            · -- a new segment in front
              have hps : Spec.prependSeg ty asn (⟨t, v⟩ :: rest) = ⟨ty, [asn]⟩ :: ⟨t, v⟩ :: rest := by
                have : ¬ (t = ty ∧ v.length < 255) := by rw [hs.1]; exact hc
                simp [Spec.prependSeg, this]
              rw [hps]
              have hb' : encSegs (⟨ty, [asn]⟩ :: ⟨t, v⟩ :: rest) = ty :: 1 :: (be32 asn ++ t :: n :: r) := by
                rw [encSegs_cons, henc]
                simp [enc4]
              refine ⟨by rw [hb']; simp [asPathPrepend, hc], ?_, ?_⟩
              · rw [hb']; intro x hx
                simp at hx
                rcases hx with rfl | rfl | hx | rfl | rfl | hx
                · omega
                · omega
                · exact be32_lt asn x hx
                · exact ht256
                · exact hn
                · exact hr256 x hx
              · rw [hb', segsOf_cons2]
                have := readAsns_append_be32 0 asn (t :: n :: r)
                simp only [Nat.zero_add] at this
                rw [this]
                simp only [readAsns]
                rw [segsOf_cons2]
                simp [hty, ht, hr, hrest]
          · simp at h
        · simp at h
      · simp at h

end Rbgp.Policy
