/- Term encoding of C14 daemon-level cases and observations (harness/daemon/c14.rs). -/
import Rbgp.Policy.Codec
import Rbgp.Policy.DModel
namespace Rbgp.Policy.DCodec
open Rbgp Rbgp.Term Rbgp.Policy Rbgp.Policy.Codec

def holderOf? : Term → Option Holder
  | .atom "global" => some .global
  | t => (addrOf? t).map .peer

def dopOf? : Term → Option DOp
  | .list [.atom "tbl", t] => (opOf? t).map .tbl
  | .list [.atom "pol-add", .atom n, ss] => do pure (.polAdd n (← namesOf? ss))
  | .list [.atom "pol-del", .atom n, pr, all, ss] => do pure (.polDel n (← asBool? pr) (← asBool? all) (← namesOf? ss))
  | .list [.atom "asg-add", h, d, df, ps] => do pure (.asgAdd (← holderOf? h) (← dirOf? d) (← dispOf? df) (← namesOf? ps))
  | .list [.atom "asg-del", h, d, all, ps] => do pure (.asgDel (← holderOf? h) (← dirOf? d) (← asBool? all) (← namesOf? ps))
  | .list [.atom "asg-set", h, d, df, ps] => do pure (.asgSet (← holderOf? h) (← dirOf? d) (← dispOf? df) (← namesOf? ps))
  | .list [.atom "peer-add", a, .atom "none"] => (addrOf? a).map (fun a => .peerAdd a none)
  | .list [.atom "peer-add", a, .list [.atom "some", df, ps]] => do
      pure (.peerAdd (← addrOf? a) (some (← dispOf? df, ← namesOf? ps)))
  | .list [.atom "peer-del", a] => (addrOf? a).map .peerDel
  | .list [.atom "set-policies", .list ops] => (ops.mapM opOf?).map .setPolicies
  | _ => none

def dcaseOf? : Term → Option DCase
  | .list [.atom "dcase", .list (.atom "probes" :: rs), .list (.atom "peers" :: ps), .list (.atom "dops" :: ops)] => do
      pure ⟨← rs.mapM routeOf?, ← ps.mapM addrOf?, ← ops.mapM dopOf?⟩
  | _ => none

def hasgT (a : DAsg) : Term := tag "asg" [sym a.name, dispT a.dflt, list (a.pols.map sym), bool a.rpki]
def hasgOf? : Term → Option DAsg
  | .list [.atom "asg", .atom n, d, ps, r] => do pure ⟨n, ← dispOf? d, ← namesOf? ps, ← asBool? r⟩
  | _ => none

def hobsT (rs : List Route) : HObs → Term
  | none => sym "none"
  | some (a, ps) => list (hasgT a :: List.zipWith presT rs ps)
def hobsOf? (rs : List Route) : Term → Option HObs
  | .atom "none" => some none
  | .list (a :: ps) => do pure (some (← hasgOf? a, ← zipWithM? presOf? rs ps))
  | _ => none

def dstepsT (rs : List Route) : Option Term → DObs → List Term
  | _, [] => []
  | prev, .step res d hi he hp :: r =>
      let dt := dumpT d
      tag "dstep" [resT res, if prev == some dt then sym "=" else dt, tag "himp" [hobsT rs hi], tag "hexp" [hobsT rs he],
                   tag "hpeers" (hp.map (fun p => list [addrT p.1, hobsT rs p.2]))]
        :: dstepsT rs (some dt) r

def dobsT (rs : List Route) (o : DObs) : Term := tag "dobs" (dstepsT rs none o)

def hpeerOf? (rs : List Route) : Term → Option (Addr × HObs)
  | .list [a, h] => do pure (← addrOf? a, ← hobsOf? rs h)
  | _ => none

def dstepsOf? (rs : List Route) : Option Dump → List Term → Option DObs
  | _, [] => some []
  | prev, .list [.atom "dstep", res, d, .list [.atom "himp", hi], .list [.atom "hexp", he], .list (.atom "hpeers" :: hp)] :: r => do
      let dump ← (match d with
        | .atom "=" => prev
        | t => dumpOf? t)
      let rest ← dstepsOf? rs (some dump) r
      pure (.step (← resOf? res) dump (← hobsOf? rs hi) (← hobsOf? rs he) (← hp.mapM (hpeerOf? rs)) :: rest)
  | _, _ => none

def dobsOf? (rs : List Route) : Term → Option DObs
  | .list (.atom "dobs" :: steps) => dstepsOf? rs none steps
  | _ => none

end Rbgp.Policy.DCodec
