/-
  Rbgp.Policy.DSpec — the last sentence of C14 for the holders outside `PolicyTable`:
  "a defined set, statement or policy that is still referenced cannot be deleted or silently
  changed underneath its users", the users being the published import / export assignments
  (`TableManager`) and every peer's export override.

  Observed after every call: the table listing and, per holder, the assignment it holds (names)
  and the result of every probe through it.  Required:
  * every holder evaluates every probe as the reference chain over what the names of ITS
    assignment currently resolve to in the listing (no stale object, no dangling name);
  * nothing a surviving user referenced before and still references has changed — inside the
    table (`Spec.refsStable`) and for the policies of every holder;
  * a call that is not addressed to a holder leaves that holder's assignment and results alone.
    Addressed to a holder are: add / delete / set of the assignment NAMED for it (global + direction,
    or that peer), adding / deleting that peer, and a full `SetPolicies` reload (all holders);
  * the published copies are the assignments the table lists.
  Imports `Basic`, `Spec` and the case/observation *types* of `DModel`; no model function.
-/
import Rbgp.Policy.Spec
import Rbgp.Policy.DModel
namespace Rbgp.Policy.DSpec
open Rbgp.Policy

/-- is the call addressed to the published assignment of direction `d`? -/
def targetsPub (d : Dir) : DOp → Bool
  | .asgAdd .global d' .. => d' = d
  | .asgDel .global d' .. => d' = d
  | .asgSet .global d' .. => d' = d
  | .setPolicies _ => true
  | _ => false

/-- is the call addressed to peer `a`'s override? -/
def targetsPeer (a : Addr) : DOp → Bool
  | .asgAdd (.peer b) .. => b = a
  | .asgDel (.peer b) .. => b = a
  | .asgSet (.peer b) .. => b = a
  | .peerAdd b _ => b = a
  | .peerDel b => b = a
  | .setPolicies _ => true
  | _ => false

def isReload : DOp → Bool
  | .setPolicies _ => true
  | _ => false

/-- the policies a holder named before and still names are listed unchanged -/
def holderStable (prev cur : Dump) (ph ch : HObs) : Bool :=
  match ph, ch with
  | some (pa, _), some (ca, _) => ca.pols.all fun n =>
      !pa.pols.contains n || (Spec.lookupPol prev n == Spec.lookupPol cur n && (Spec.lookupPol cur n).isSome)
  | _, _ => true

/-- one holder against what its names resolve to: every probe is judged -/
def holderFails (env : RegexEnv) (d : Dir) (dump : Dump) (rs : List Route) : HObs → List (Nat × String)
  | none => []
  | some (a, ps) =>
      if ps.length ≠ rs.length then [(0, "assignment-listing")]
      else
        match Spec.resolveAsg dump a with
        | none => [(0, "dangling-reference")]
        | some stmts =>
            (if a.rpki != stmts.any (fun s => s.conds.any Spec.isRpkiCond) then [(0, "needs-rpki-flag")] else []) ++
            Spec.allFails (fun rp => Spec.checkProbe env d a.dflt stmts rp.1 rp.2) 0 (rs.zip ps)

def lookupPeer (a : Addr) (l : List (Addr × HObs)) : Option HObs := (l.find? (fun p => p.1 = a)).map (·.2)

def peersFails (env : RegexEnv) (dump : Dump) (rs : List Route) : List (Addr × HObs) → List (Nat × String)
  | [] => []
  | p :: r => holderFails env .exp dump rs p.2 ++ peersFails env dump rs r

/-- the table-level call a daemon call makes with the arguments it was given, if any: what was
    asked must then be listed -/
def requestOf : DOp → Option Op
  | .tbl op => some op
  | .polAdd n ss => some (.polAdd n ss)
  | _ => none

def listingOf : HObs → Option DAsg
  | none => none
  | some (a, _) => some a

def checkDSteps (env : RegexEnv) (rs : List Route) :
    Nat → Dump → HObs → HObs → List (Addr × HObs) → List DOp → DObs → Spec.Verdict
  | _, _, _, _, _, [], [] => .ok
  | i, prev, pi, pe, pp, op :: ops, .step res dump hi he hp :: obs =>
      if !isReload op && !Spec.refsStable prev dump then .fail i 0 "referenced-object-changed"
      else if !Spec.heldCurrent dump then .fail i 0 "held-object-stale"
      else if !((requestOf op).elim true (fun o => Spec.requestStored o res dump)) then .fail i 0 "stored-differs-from-request"
      else if !isReload op && !(holderStable prev dump pi hi && holderStable prev dump pe he &&
          hp.all (fun p => holderStable prev dump ((lookupPeer p.1 pp).getD none) p.2)) then
        .fail i 0 "holder-policy-changed"
      else if !targetsPub .imp op && hi ≠ pi then .fail i 0 "holder-changed"
      else if !targetsPub .exp op && he ≠ pe then .fail i 0 "holder-changed"
      else if !(hp.all (fun p => targetsPeer p.1 op || lookupPeer p.1 pp == lookupPeer p.1 hp) &&
                pp.all (fun p => targetsPeer p.1 op || (lookupPeer p.1 hp).isSome)) then
        .fail i 0 "holder-changed"
      else if listingOf hi ≠ dump.imp || listingOf he ≠ dump.exp then .fail i 0 "published-assignment-differs"
      else
        match Spec.pickFail (holderFails env .imp dump rs hi ++ holderFails env .exp dump rs he ++ peersFails env dump rs hp) with
        | some (j, c) => .fail i j c
        | none => checkDSteps env rs (i + 1) dump hi he hp ops obs
  | i, _, _, _, _, _, _ => .fail i 0 "observation-shape"

/-- the C14 reference checker for daemon-level cases -/
def dcheck (env : RegexEnv) (c : DCase) (o : DObs) : Spec.Verdict :=
  checkDSteps env c.probes 0 Spec.emptyDump none none (c.peers.map (fun a => (a, none))) c.ops o

end Rbgp.Policy.DSpec
