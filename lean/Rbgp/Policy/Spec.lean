/-
  Rbgp.Policy.Spec — C14 written from the property text as a reference checker over
  *observations*: the result codes of the CRUD calls, what the listing API shows after each call
  (names), and the results of `apply_import` / `apply_export` for the fixed probe routes.

  It imports only `Basic` (types and payload formats); it never sees the model's table, its
  snapshots, or any of its evaluation functions.

  Reading of the statement:
  * "statements are tried in order; a statement applies when all its conditions hold; the first
    non-pass disposition wins and actions of passed statements accumulate" — `refChain` over the
    statements of the assignment's policies in order, the assignment's default at the end;
  * "prefix sets match a route when a set entry covers the route's prefix and the route's length
    lies in the entry's range" — `prefixHit` (ANY entry, not the longest one);
  * "ANY/ALL/INVERT mean what they say" — `optHolds`: ANY = some member of the set matches the
    route, ALL = every member does, INVERT = not ANY;
  * AS-path patterns are read on the path's flat list of AS numbers (the eight anchored numeric
    forms) or, for free-form patterns, by the regular-expression engine on the rendered path;
  * "a defined set, statement or policy that is still referenced cannot be deleted or silently
    changed underneath its users" — after every call (a) every object that a surviving user
    referenced before and still references is listed with unchanged contents, (b) what a live
    assignment *does* on the probes is what the names it lists *currently resolve to* say, and
    (c) calls that are not assignment calls for a direction leave that direction's results alone.
-/
import Rbgp.Policy.Basic
namespace Rbgp.Policy.Spec
open Rbgp.Policy

/-! ## resolved policy objects (what the names in a listing stand for) -/

inductive RCond where
  | set (k : SetKind) (o : Opt) (obj : SetObj)
  | plain (p : Plain)
  deriving Repr, DecidableEq

structure RStmt where
  conds : List RCond
  disp : Option Disp
  acts : Actions
  deriving Repr, DecidableEq

def lookupSet (d : Dump) (k : SetKind) (n : String) : Option SetObj :=
  (d.sets.find? (fun s => s.1 = (k, n))).map (·.2)
def lookupStmt (d : Dump) (n : String) : Option DStmt := d.stmts.find? (fun s => s.name = n)
def lookupPol (d : Dump) (n : String) : Option DPol := d.pols.find? (fun p => p.name = n)

def resolveCond (d : Dump) : CondCfg → Option RCond
  | .set k n o => (lookupSet d k n).map (fun obj => .set k o obj)
  | .plain p => some (.plain p)

def resolveStmt (d : Dump) (n : String) : Option RStmt :=
  match lookupStmt d n with
  | none => none
  | some s => (s.conds.mapM (resolveCond d)).map (fun cs => ⟨cs, s.disp, s.acts⟩)

def resolvePol (d : Dump) (n : String) : Option (List RStmt) :=
  match lookupPol d n with
  | none => none
  | some p => p.stmts.mapM (resolveStmt d)

/-- all statements of the assignment's policies, in order; `none` = some name does not resolve -/
def resolveAsg (d : Dump) (a : DAsg) : Option (List RStmt) :=
  (a.pols.mapM (resolvePol d)).map List.flatten

/-! ## views of a route -/

def ctxOf (d : Dir) (r : Route) : Ctx :=
  match d with
  | .imp => ⟨r.src, r.net, r.mask, r.rpki, false, r.src.localAddr, r.src.remoteAddr, r.nh⟩
  | .exp => ⟨r.src, r.net, r.mask, r.rpki, r.confed, r.localAddr, r.peerAddr, r.origNh⟩

def attrOf (code : Nat) (attrs : List Attr) : Option Attr := attrs.find? (fun a => a.code == code)

def valOf (code : Nat) (attrs : List Attr) : Option Nat :=
  match attrOf code attrs with
  | some ⟨_, _, .val v⟩ => some v
  | _ => none

def binOf (code : Nat) (attrs : List Attr) : Option Bytes :=
  match attrOf code attrs with
  | some ⟨_, _, .bin b⟩ => some b
  | _ => none

def commsOf (attrs : List Attr) : List Nat := (binOf COMMUNITY attrs).elim [] chunks4
def extsOf (attrs : List Attr) : List Bytes := (binOf EXT_COMMUNITY attrs).elim [] chunks8
def largesOf (attrs : List Attr) : List (Nat × Nat × Nat) := (binOf LARGE_COMMUNITY attrs).elim [] chunks12

/-- the AS_PATH as segments: `none` = no AS_PATH attribute, `some none` = not a decodable one -/
def pathOf (attrs : List Attr) : Option (Option (List Seg)) :=
  match attrOf AS_PATH attrs with
  | none => none
  | some ⟨_, _, .bin b⟩ => some (segsOf b)
  | some _ => some none

/-- the reference speaks only about routes whose AS_PATH (if any) is one the wire decoder
    produces: a byte string that parses as segments -/
def pathOk (attrs : List Attr) : Bool :=
  match attrOf AS_PATH attrs with
  | none => true
  | some ⟨_, _, .bin b⟩ => (segsOf b).isSome && b.all (· < 256)
  | some _ => false

def flatAsns (segs : List Seg) : List Nat := (segs.map (·.asns)).flatten

/-- RFC 4271 §9.1.2.2 / RFC 5065: an AS_SET counts 1, a sequence its members, confederation
    segments nothing -/
def pathLen : List Seg → Nat
  | [] => 0
  | s :: r => (if s.ty = 1 then 1 else if s.ty = 2 then s.asns.length else 0) + pathLen r

/-! ## strings for the regular-expression patterns -/

def communityStr (c : Nat) : String := s!"{c / 65536}:{c % 65536}"
def largeStr (c : Nat × Nat × Nat) : String := s!"{c.1}:{c.2.1}:{c.2.2}"

def joinWith (sep : String) : List String → String
  | [] => ""
  | [a] => a
  | a :: r => a ++ sep ++ joinWith sep r

/-- GoBGP's rendering of a path: sequences space separated, sets `{a,b}`, confederation
    sequences `(a b)`, confederation sets `[a,b]` -/
def segStr (s : Seg) : String :=
  let ns := s.asns.map toString
  if s.ty = 1 then "{" ++ joinWith "," ns ++ "}"
  else if s.ty = 3 then "(" ++ joinWith " " ns ++ ")"
  else if s.ty = 4 then "[" ++ joinWith "," ns ++ "]"
  else joinWith " " ns
def pathStr (segs : List Seg) : String := joinWith " " (segs.map segStr)

/-! ## conditions -/

/-- ANY / ALL / INVERT over the members of a set -/
def optHolds {μ} (o : Opt) (members : List μ) (hit : μ → Bool) : Bool :=
  match o with
  | .any => members.any hit
  | .all => members.all hit
  | .invert => !(members.any hit)

/-- "a set entry covers the route's prefix" -/
def covers (e : PEntry) (net : Addr) (mask : Nat) : Bool :=
  e.addr.v6 == net.v6 && e.mask ≤ mask && e.addr.top e.mask == net.top e.mask

/-- "... and the route's length lies in the entry's range" -/
def entryHit (net : Addr) (mask : Nat) (e : PEntry) : Bool :=
  covers e net mask && e.lo ≤ mask && mask ≤ e.hi

/-- the entries of a prefix set; the two default-route entries are listed apart by the API -/
def prefixEntries (es : List PEntry) (z z6 : Option (Nat × Nat)) : List PEntry :=
  es ++ (z.elim [] (fun r => [⟨⟨false, 0⟩, 0, r.1, r.2⟩])) ++ (z6.elim [] (fun r => [⟨⟨true, 0⟩, 0, r.1, r.2⟩]))

def singleHit (asns : List Nat) : Single → Bool
  | .inc v => asns.contains v
  | .rinc lo hi => asns.any (fun a => lo ≤ a && a ≤ hi)
  | .left v => asns.head? == some v
  | .rleft lo hi => (asns.head?).elim false (fun a => lo ≤ a && a ≤ hi)
  | .orig v => asns.getLast? == some v
  | .rorig lo hi => (asns.getLast?).elim false (fun a => lo ≤ a && a ≤ hi)
  | .only v => asns == [v]
  | .ronly lo hi => (match asns with | [a] => lo ≤ a && a ≤ hi | _ => false)

def netContains (p : Addr) (mask : Nat) (a : Addr) : Bool := p.v6 == a.v6 && p.top mask == a.top mask

/-- reference configuration: `asRegex = false` is the *deviation* "free-form AS-path patterns are
    never consulted", used only to classify a failure -/
structure RefCfg where
  asRegex : Bool := true

def setHolds (env : RegexEnv) (cfg : RefCfg) (cx : Ctx) (st : St) (k : SetKind) (o : Opt) (obj : SetObj) : Bool :=
  match k, obj with
  | .prefix, .prefix es z z6 => optHolds o (prefixEntries es z z6) (entryHit cx.net cx.mask)
  | .neighbor, .neighbor nets => optHolds o nets (fun n => netContains n.1 n.2 cx.peerAddr)
  | .aspath, .aspath singles res =>
      (match pathOf st.attrs with
       | some (some segs) =>
           let members : List (Single ⊕ String) := singles.map .inl ++ (if cfg.asRegex then res.map .inr else [])
           optHolds o members (fun m => match m with
             | .inl s => singleHit (flatAsns segs) s
             | .inr p => env.matches p (pathStr segs))
       | _ =>
           let members : List (Single ⊕ String) := singles.map .inl ++ (if cfg.asRegex then res.map .inr else [])
           optHolds o members (fun _ => false))
  | .comm, .strs pats =>
      let strs := (commsOf st.attrs).map communityStr
      optHolds o pats (fun p => strs.any (fun s => env.matches p s))
  | .ext, .strs pats =>
      let strs := (extsOf st.attrs).filterMap env.extStr
      optHolds o pats (fun p => strs.any (fun s => env.matches p s))
  | .large, .strs pats =>
      let strs := (largesOf st.attrs).map largeStr
      optHolds o pats (fun p => strs.any (fun s => env.matches p s))
  | _, _ => false

def cmpHolds : Cmp → Nat → Nat → Bool
  | .eq, l, v => l == v
  | .ge, l, v => l ≥ v
  | .le, l, v => l ≤ v

def plainHolds (cx : Ctx) (st : St) : Plain → Bool
  | .nexthop l => st.nh.elim false (fun a => l.contains a)
  | .asPathLen c v => (match pathOf st.attrs with | some (some segs) => cmpHolds c (pathLen segs) v | _ => false)
  | .rpki s => cx.rpki == some s
  | .localPrefEq v => valOf LOCAL_PREF st.attrs == some v
  | .medEq v => valOf MED st.attrs == some v
  | .origin v => valOf ORIGIN st.attrs == some v
  | .routeType .local => cx.src.isLocal
  | .routeType .internal => !cx.src.isLocal && cx.src.remoteAsn == cx.src.localAsn
  | .routeType .external => !cx.src.isLocal && cx.src.remoteAsn != cx.src.localAsn
  | .commCount c v => cmpHolds c (commsOf st.attrs).length v
  | .afiSafiIn l => l.contains (if cx.net.v6 then (2, 1) else (1, 1))

def condHolds (env : RegexEnv) (cfg : RefCfg) (cx : Ctx) (st : St) : RCond → Bool
  | .set k o obj => setHolds env cfg cx st k o obj
  | .plain p => plainHolds cx st p

/-! ## actions -/

def without (code : Nat) (attrs : List Attr) : List Attr := attrs.filter (fun a => a.code != code)
def put (code : Nat) (d : AData) (attrs : List Attr) : List Attr :=
  without code attrs ++ [⟨code, canonicalFlags code, d⟩]

def edit {α} [BEq α] : CAT → List α → List α → List α
  | .add, old, l => old ++ l
  | .remove, old, l => old.filter (fun c => !l.contains c)
  | .replace, _, l => l

def clampU32 (i : Int) : Nat := if i < 0 then 0 else if i > 4294967295 then 4294967295 else i.toNat

/-- RFC 4271 §5.1.2: prepend to a leading sequence that has room, otherwise open a new one -/
def prependSeg (ty asn : Nat) : List Seg → List Seg
  | [] => [⟨ty, [asn]⟩]
  | s :: r => if s.ty = ty ∧ s.asns.length < 255 then ⟨s.ty, asn :: s.asns⟩ :: r else ⟨ty, [asn]⟩ :: s :: r

def prependSegN (ty asn : Nat) : Nat → List Seg → List Seg
  | 0, l => l
  | n + 1, l => prependSegN ty asn n (prependSeg ty asn l)

/-- next-hop action: a given address, the local address, the peer's address, or the next hop the
    route had before any pre-policy defaulting (left alone when there was none) -/
def actNh (cx : Ctx) (a : Option NhAct) (nh : Option Addr) : Option Addr :=
  match a with
  | none => nh
  | some (.addr x) => some x
  | some .self => some cx.localAddr
  | some .peer => some cx.peerAddr
  | some .unchanged => (match cx.origNh with | some o => some o | none => nh)

/-- add / remove / replace standard communities; an empty result removes the attribute -/
def actComm (a : Option (CAT × List Nat)) (attrs : List Attr) : List Attr :=
  match a with
  | none => attrs
  | some (t, l) =>
      let n := edit t (commsOf attrs) l
      if n.isEmpty then without COMMUNITY attrs else put COMMUNITY (.bin (enc4 n)) attrs

def actLp (a : Option Nat) (attrs : List Attr) : List Attr :=
  match a with
  | none => attrs
  | some v => put LOCAL_PREF (.val v) attrs

/-- MED: add the signed value to the current MED (0 if absent) or set it, kept within u32 -/
def actMed (a : Option (Bool × Int)) (attrs : List Attr) : List Attr :=
  match a with
  | none => attrs
  | some (isMod, v) =>
      put MED (.val (if isMod then clampU32 (((valOf MED attrs).getD 0 : Nat) + v) else clampU32 v)) attrs

/-- AS-path prepend: `rep` times the given AS, or the leftmost AS of the path if asked for and
    there is one; a sequence towards ordinary peers, a confederation sequence towards members -/
def actPrep (cx : Ctx) (a : Option (Nat × Nat × Bool)) (attrs : List Attr) : List Attr :=
  match a with
  | none => attrs
  | some (asn, rep, leftMost) =>
      if rep = 0 then attrs
      else
        let segs := match pathOf attrs with | some (some s) => s | _ => []
        let flags := (attrOf AS_PATH attrs).elim 64 (·.flags)
        let x := if leftMost then (flatAsns segs).head?.getD asn else asn
        without AS_PATH attrs ++ [⟨AS_PATH, flags, .bin (encSegs (prependSegN (if cx.confed then 3 else 2) x rep segs))⟩]

def actExt (a : Option (CAT × List Bytes)) (attrs : List Attr) : List Attr :=
  match a with
  | none => attrs
  | some (t, l) =>
      let n := edit t (extsOf attrs) l
      if n.isEmpty then without EXT_COMMUNITY attrs else put EXT_COMMUNITY (.bin (enc8 n)) attrs

def actLarge (a : Option (CAT × List (Nat × Nat × Nat))) (attrs : List Attr) : List Attr :=
  match a with
  | none => attrs
  | some (t, l) =>
      let n := edit t (largesOf attrs) l
      if n.isEmpty then without LARGE_COMMUNITY attrs else put LARGE_COMMUNITY (.bin (enc12 n)) attrs

def actOrigin (a : Option Nat) (attrs : List Attr) : List Attr :=
  match a with
  | none => attrs
  | some v => put ORIGIN (.val v) attrs

/-- all actions of one statement (they rewrite different attributes) -/
def applyActs (cx : Ctx) (a : Actions) (st : St) : St :=
  ⟨actOrigin a.origin (actLarge a.large (actExt a.ext (actPrep cx a.asPrepend
      (actMed a.med (actLp a.localPref (actComm a.community st.attrs)))))),
   actNh cx a.nexthop st.nh⟩

/-! ## the chain -/

/-- statements in order; one applies when all its conditions hold; its actions are applied; its
    disposition, unless pass/unset, ends the walk; otherwise the default -/
def refChain (env : RegexEnv) (cfg : RefCfg) (cx : Ctx) (dflt : Disp) : List RStmt → St → Disp × St
  | [], st => (dflt, st)
  | s :: r, st =>
      if s.conds.all (condHolds env cfg cx st) then
        let st' := applyActs cx s.acts st
        match s.disp with
        | some .accept => (.accept, st')
        | some .reject => (.reject, st')
        | _ => refChain env cfg cx dflt r st'
      else refChain env cfg cx dflt r st

/-! ## comparing an observed result with the reference -/

def insertByCode (a : Attr) : List Attr → List Attr
  | [] => [a]
  | x :: r => if a.code < x.code then a :: x :: r else x :: insertByCode a r
def sortByCode (l : List Attr) : List Attr := l.foldr insertByCode []

/-- `none` = agrees; `some clause` otherwise -/
def compareRes (d : Dir) (want : Disp × St) : PRes → Option String
  | .panic => some "panic"
  | .r disp attrs nh =>
      let wd := match d with
        | .imp => if want.1 = .reject then Disp.reject else Disp.accept
        | .exp => want.1
      if disp ≠ wd then some "disposition"
      else if wd = .reject then none
      else if sortByCode attrs ≠ sortByCode want.2.attrs then some "attributes"
      else if nh ≠ want.2.nh then some "nexthop"
      else none

inductive Verdict where
  | ok
  | fail (step idx : Nat) (clause : String)
  deriving Repr, DecidableEq

/-- one probe of one direction against what the listing resolves to -/
def checkProbe (env : RegexEnv) (d : Dir) (dflt : Disp) (stmts : List RStmt) (r : Route) (p : PRes) : Option String :=
  if !pathOk r.attrs then none
  else
    match compareRes d (refChain env {} (ctxOf d r) dflt stmts ⟨r.attrs, r.nh⟩) p with
    | none => none
    | some c =>
        -- classification only: is the observation what the known deviation would produce?
        match compareRes d (refChain env { asRegex := false } (ctxOf d r) dflt stmts ⟨r.attrs, r.nh⟩) p with
        | none => some "aspath-regex-ignored"
        | some _ => some c

def isRpkiCond : RCond → Bool
  | .plain (.rpki _) => true
  | _ => false

/-- every failing probe of a list, with its index -/
def allFails {α} (f : α → Option String) : Nat → List α → List (Nat × String)
  | _, [] => []
  | i, a :: r => (match f a with | some c => [(i, c)] | none => []) ++ allFails f (i + 1) r

/-- clauses of findings that are recorded as open: such a failure must not hide another one -/
def openClass (c : String) : Bool := c == "aspath-regex-ignored"

/-- the failure reported for a step: the first one that is not of an open class, else the first -/
def pickFail (l : List (Nat × String)) : Option (Nat × String) :=
  match l.find? (fun f => !openClass f.2) with
  | some f => some f
  | none => l.head?

/-- all failures of one direction: every probe is judged -/
def dirFails (env : RegexEnv) (d : Dir) (dump : Dump) (asg : Option DAsg) (rs : List Route) (obs : Option (List PRes)) : List (Nat × String) :=
  match asg, obs with
  | none, none => []
  | some a, some ps =>
      if ps.length ≠ rs.length then [(0, "assignment-listing")]
      else
        match resolveAsg dump a with
        | none => [(0, "dangling-reference")]
        | some stmts =>
            (if a.rpki != stmts.any (fun s => s.conds.any isRpkiCond) then [(0, "needs-rpki-flag")] else []) ++
            allFails (fun rp => checkProbe env d a.dflt stmts rp.1 rp.2) 0 (rs.zip ps)
  | _, _ => [(0, "assignment-listing")]

/-! ## referenced objects stay what they were -/

def setRefs (s : DStmt) : List (SetKind × String) :=
  s.conds.filterMap (fun c => match c with | .set k n _ => some (k, n) | _ => none)

/-- every object that a user listed before *and* after the call references both times is listed
    with the same contents -/
def refsStable (prev cur : Dump) : Bool :=
  (cur.stmts.all fun s =>
    match lookupStmt prev s.name with
    | none => true
    | some ps => (setRefs s).all fun k =>
        !(setRefs ps).contains k || (lookupSet prev k.1 k.2 == lookupSet cur k.1 k.2 && (lookupSet cur k.1 k.2).isSome)) &&
  (cur.pols.all fun p =>
    match lookupPol prev p.name with
    | none => true
    | some pp => p.stmts.all fun n =>
        !pp.stmts.contains n || (lookupStmt prev n == lookupStmt cur n && (lookupStmt cur n).isSome)) &&
  ([(prev.imp, cur.imp), (prev.exp, cur.exp)].all fun pc =>
    match pc with
    | (some pa, some ca) => ca.pols.all fun n =>
        !pa.pols.contains n || (lookupPol prev n == lookupPol cur n && (lookupPol cur n).isSome)
    | _ => true)

def mapOpt {α β} (f : α → Option β) : List α → Option (List β)
  | [] => some []
  | a :: r =>
      match f a, mapOpt f r with
      | some b, some bs => some (b :: bs)
      | _, _ => none

/-- what the names in a statement resolve to, in condition order -/
def expectedHeldSets (d : Dump) (st : DStmt) : Option (List SetObj) := mapOpt (fun k => lookupSet d k.1 k.2) (setRefs st)

/-- the statement listed under a name, with the sets its names resolve to -/
def heldStmtOf (d : Dump) (n : String) : Option (DStmt × List SetObj) :=
  match lookupStmt d n with
  | none => none
  | some st => (expectedHeldSets d st).map (fun objs => (st, objs))

def expectedHeldStmts (d : Dump) (p : DPol) : Option (List (DStmt × List SetObj)) := mapOpt (heldStmtOf d) p.stmts

def zipAll {α β} (f : α → β → Bool) : List α → List β → Bool
  | [], [] => true
  | a :: as, b :: bs => f a b && zipAll f as bs
  | _, _ => false

/-- no stale object: the set objects every listed statement holds, the statements every listed
    policy holds, and the sets those hold, are the objects currently listed under their names -/
def heldCurrent (d : Dump) : Bool :=
  zipAll (fun st objs => expectedHeldSets d st == some objs) d.stmts d.heldSets &&
  zipAll (fun p hs => expectedHeldStmts d p == some hs) d.pols d.heldStmts

def isAsgOp (d : Dir) : Op → Bool
  | .asgAdd d' .. => d' = d
  | .asgSet d' .. => d' = d
  | .asgDel d' .. => d' = d
  | _ => false

/-- the community a well-known name stands for (RFC 1997, 3765, 7611, 7999, 8326, 9494) -/
def wellKnownValue (s : String) : Option Nat :=
  if s = "graceful-shutdown" then some 0xffff0000
  else if s = "accept-own" then some 0xffff0001
  else if s = "llgr-stale" then some 0xffff0006
  else if s = "no-llgr" then some 0xffff0007
  else if s = "blackhole" then some 0xffff029a
  else if s = "no-export" then some 0xffffff01
  else if s = "no-advertise" then some 0xffffff02
  else if s = "no-export-subconfed" then some 0xffffff03
  else if s = "no-peer" then some 0xffffff04
  else none

/-- after a successful add/replace of a community set, a member given by a well-known name is the
    pattern for that community's value -/
def wellKnownOk (op : Op) (res : Res) (cur : Dump) : Bool :=
  match op, res with
  | .setAdd .comm n es, .ok | .setReplace .comm n es, .ok =>
      es.all fun e =>
        match e with
        | .pat s =>
            (match wellKnownValue s.toLower with
             | some v =>
                 (match lookupSet cur .comm n with
                  | some (.strs pats) => pats.contains s!"^{v / 65536}:{v % 65536}$"
                  | _ => false)
             | none => true)
        | _ => true
  | _, _ => true

/-! ## what was asked is what is listed -/

/-- the patterns a community-set member may be listed as: itself, itself anchored, or — for a
    decimal number or a well-known name — the anchored `high:low` form of that community -/
def commForms (s : String) : List String :=
  [s, "^" ++ s ++ "$"] ++
  (match decimalU32? s with | some v => [s!"^{v / 65536}:{v % 65536}$"] | none => []) ++
  (match wellKnownValue s.toLower with | some v => [s!"^{v / 65536}:{v % 65536}$"] | none => [])

/-- a requested element (of the set's kind) is a member of the listed set -/
def elemStored (k : SetKind) (obj : SetObj) (e : Elem) : Bool :=
  match k, e, obj with
  | .prefix, .pfx p, .prefix es z z6 =>
      if p.addr.val == 0 && p.mask == 0 then (if p.addr.v6 then z6 else z) == some (p.lo, p.hi)
      else es.contains p
  | .prefix, .pfx _, _ => false
  | .neighbor, .nbr a m, .neighbor l => l.contains (a, m)
  | .neighbor, .nbr _ _, _ => false
  | .aspath, .single x, .aspath ss _ => ss.contains x
  | .aspath, .single _, _ => false
  | .aspath, .pat s, .aspath _ rs => rs.contains s
  | .aspath, .pat _, _ => false
  | .comm, .pat s, .strs l => (commForms s).any (fun f => l.contains f)
  | .comm, .pat _, _ => false
  | .ext, .pat s, .strs l => l.contains s
  | .ext, .pat _, _ => false
  | .large, .pat s, .strs l => l.contains s
  | .large, .pat _, _ => false
  | _, _, _ => true

/-- the listed global assignment of a direction -/
def slotOf (d : Dump) : Dir → Option DAsg
  | .imp => d.imp
  | .exp => d.exp

def isZeroReq (v6 : Bool) (r : Nat × Nat) : Elem → Bool
  | .pfx p => p.addr.v6 == v6 && p.addr.val == 0 && p.mask == 0 && p.lo == r.1 && p.hi == r.2
  | _ => false

/-- every member of the listed set was asked for (what a REPLACE must leave: nothing of the old
    contents) -/
def onlyRequested (k : SetKind) (es : List Elem) (obj : SetObj) : Bool :=
  match k, obj with
  | .prefix, .prefix l z z6 =>
      l.all (fun p => es.contains (.pfx p)) && (z.all fun r => es.any (isZeroReq false r)) && (z6.all fun r => es.any (isZeroReq true r))
  | .neighbor, .neighbor l => l.all (fun x => es.contains (.nbr x.1 x.2))
  | .aspath, .aspath ss rs => ss.all (fun x => es.contains (.single x)) && rs.all (fun x => es.contains (.pat x))
  | .comm, .strs l => l.all (fun f => es.any (fun e => match e with | .pat x => (commForms x).contains f | _ => false))
  | .ext, .strs l => l.all (fun x => es.contains (.pat x))
  | .large, .strs l => l.all (fun x => es.contains (.pat x))
  | _, _ => false

def actsStored (a listed : Actions) : Bool :=
  (a.nexthop.isNone || listed.nexthop == a.nexthop) && (a.community.isNone || listed.community == a.community) &&
  (a.localPref.isNone || listed.localPref == a.localPref) && (a.med.isNone || listed.med == a.med) &&
  (a.asPrepend.isNone || listed.asPrepend == a.asPrepend) && (a.ext.isNone || listed.ext == a.ext) &&
  (a.large.isNone || listed.large == a.large) && (a.origin.isNone || listed.origin == a.origin)

/-- after a successful add / replace, everything that was asked for is listed: every element of
    the set (for a prefix set every (prefix, range)), every condition, action and the disposition
    of the statement, the statements of the policy (at its end), the assignment's name, default
    and policies (new ones first) -/
def requestStored (op : Op) (res : Res) (cur : Dump) : Bool :=
  match op, res with
  | .setAdd k n es, .ok =>
      (match lookupSet cur k n with
       | some obj => es.all (elemStored k obj)
       | none => false)
  | .setReplace k n es, .ok =>
      (match lookupSet cur k n with
       | some obj => es.all (elemStored k obj) && onlyRequested k es obj
       | none => false)
  | .stmtAdd n cs d a, .ok =>
      (match lookupStmt cur n with
       | some st => cs.all (fun c => st.conds.contains c) && (d.isNone || st.disp == d) && actsStored a st.acts
       | none => false)
  | .polAdd n ss, .ok =>
      (match lookupPol cur n with
       | some p => ss.isSuffixOf p.stmts
       | none => false)
  | .asgAdd d n df ps, .ok =>
      (match slotOf cur d with
       | some a => a.name == n && a.dflt == df && ps.isPrefixOf a.pols
       | none => false)
  | .asgSet d n df ps, .ok =>
      (match slotOf cur d with
       | some a => a.name == n && a.dflt == df && a.pols == ps
       | none => false)
  | _, _ => true

def emptyDump : Dump := ⟨[], [], [], none, none, [], []⟩

def checkSteps (env : RegexEnv) (rs : List Route) :
    Nat → Dump → Option (List PRes) → Option (List PRes) → List Op → Obs → Verdict
  | _, _, _, _, [], [] => .ok
  | i, _, _, _, _ :: _, [.panic] => .fail i 0 "crud-panic"
  | i, prev, pi, pe, op :: ops, .step res dump oi oe :: obs =>
      if !refsStable prev dump then .fail i 0 "referenced-object-changed"
      else if !heldCurrent dump then .fail i 0 "held-object-stale"
      else if !requestStored op res dump then .fail i 0 "stored-differs-from-request"
      else if !wellKnownOk op res dump then .fail i 0 "wellknown-community-value"
      else if !isAsgOp .imp op && oi ≠ pi then .fail i 0 "probe-changed"
      else if !isAsgOp .exp op && oe ≠ pe then .fail i 0 "probe-changed"
      else
        match pickFail (dirFails env .imp dump dump.imp rs oi ++ dirFails env .exp dump dump.exp rs oe) with
        | some (j, c) => .fail i j c
        | none => checkSteps env rs (i + 1) dump oi oe ops obs
  | i, _, _, _, _, _ => .fail i 0 "observation-shape"

/-- the C14 reference checker -/
def check (env : RegexEnv) (c : Case) (o : Obs) : Verdict :=
  checkSteps env c.probes 0 emptyDump none none c.ops o

end Rbgp.Policy.Spec
