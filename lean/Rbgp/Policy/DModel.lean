/-
  Rbgp.Policy.DModel — the daemon-side holders of policy objects on top of the `PolicyTable`
  model: the copies published in `TableManager.{import_policy, export_policy}` and every peer's
  `PeerState.export_policy` override, maintained by
    daemon/src/event/mod.rs  Global::{add_policy, delete_policy, add_policy_assignment,
                             delete_policy_assignment, add_peer}
    daemon/src/event/grpc.rs set_policy_assignment, set_policies, delete_peer, and the set /
                             statement handlers (which call `global.ptable` directly).
  One Lean function per Rust function, same branch order.
-/
import Rbgp.Policy.Model
namespace Rbgp.Policy

/-- whose assignment a call names: `""`/`"global"` or a peer address -/
inductive Holder where
  | global
  | peer (a : Addr)
  deriving DecidableEq, Repr, Inhabited

/-- the `name` string of the API message, as the harness prints it back (a peer address is
    rendered `@4:<u32>` / `@6:<u128>`) -/
def Holder.name : Holder → String
  | .global => "global"
  | .peer a => (if a.v6 then "@6:" else "@4:") ++ toString a.val

inductive DOp where
  /-- add/replace/delete defined set, add/delete statement: `global.ptable.<call>` -/
  | tbl (op : Op)
  | polAdd (name : String) (stmts : List String)
  | polDel (name : String) (preserve all : Bool) (stmts : List String)
  | asgAdd (h : Holder) (d : Dir) (dflt : Disp) (pols : List String)
  | asgDel (h : Holder) (d : Dir) (all : Bool) (pols : List String)
  | asgSet (h : Holder) (d : Dir) (dflt : Disp) (pols : List String)
  | peerAdd (a : Addr) (exp : Option (Disp × List String))
  | peerDel (a : Addr)
  /-- `SetPolicies`: the message contents as the sequence of table calls the handler makes on a
      fresh table -/
  | setPolicies (ops : List Op)
  deriving Repr, Inhabited

structure DCase where
  probes : List Route
  peers : List Addr
  ops : List DOp
  deriving Repr, Inhabited

/-- `Global.ptable`, the two published copies, the per-peer overrides (sorted by address) -/
structure DState where
  t : Table := {}
  pubImp : Option Assign := none
  pubExp : Option Assign := none
  peers : List (Addr × Option Assign) := []
  deriving Repr, Inhabited

/-- the calls the set / statement gRPC handlers make on `global.ptable` -/
def isSetStmtOp : Op → Bool
  | .setAdd .. | .setReplace .. | .setDel .. | .stmtAdd .. | .stmtDel .. => true
  | _ => false

def addrLt (a b : Addr) : Bool := (!a.v6 && b.v6) || (a.v6 == b.v6 && a.val < b.val)

/-- `disposition_and_policies_from_api`: ACCEPT stays, everything else is REJECT -/
def apiDflt (d : Disp) : Disp := if d = .accept then .accept else .reject

/-- `self.peers.values().any(|p| p.references_policy(name))` -/
def peerRefs (s : DState) (name : String) : Bool :=
  s.peers.any (fun p => match p.2 with | some a => a.pols.any (fun q => q.name == name) | none => false)

def DState.publish (s : DState) (d : Dir) (t' : Table) : DState :=
  match d with
  | .imp => { s with t := t', pubImp := t'.imp }
  | .exp => { s with t := t', pubExp := t'.exp }

/-- default actions of assignments arrive through the API message -/
def apiOp : Op → Op
  | .asgAdd d n df p => .asgAdd d n (apiDflt df) p
  | o => o

/-- the table calls of `set_policies`, each of which must succeed for the sequence to go on (`?`) -/
def runAll (env : RegexEnv) : Table → List Op → Table × Res
  | t, [] => (t, .ok)
  | t, op :: ops =>
      if (t.step env (apiOp op)).2 = .ok then runAll env (t.step env (apiOp op)).1 ops
      else (t, (t.step env (apiOp op)).2)

def DState.step (env : RegexEnv) (s : DState) : DOp → DState × Res
  | .tbl op =>
      if isSetStmtOp op then
        let (t', r) := s.t.step env op
        ({ s with t := t' }, r)
      else (s, .invalid)
  | .polAdd n ss =>
      if peerRefs s n then (s, .inUse)
      else
        let (t', r) := s.t.addPolicy n ss
        ({ s with t := t' }, r)
  | .polDel n pr all ss =>
      if peerRefs s n then (s, .inUse)
      else
        let (t', r) := s.t.deletePolicy n pr all ss
        if r = .ok then ({ s with t := t', pubImp := t'.imp, pubExp := t'.exp }, r) else (s, r)
  | .asgAdd .global d df ps =>
      let (t', r) := s.t.addAssignment d "global" (apiDflt df) ps
      if r = .ok then (s.publish d t', r) else (s, r)
  | .asgAdd (.peer a) d df ps =>
      if d ≠ .exp then (s, .invalid)
      else
        match alLookup a s.peers with
        | none => (s, .invalid)
        | some existing =>
            match buildAssignment s.t existing (Holder.peer a).name .exp (apiDflt df) ps with
            | none => (s, .invalid)
            | some asg => ({ s with peers := alInsert addrLt a (some asg) s.peers }, .ok)
  | .asgDel .global d all ps =>
      let (t', r) := s.t.deleteAssignment d all ps
      if r = .ok then (s.publish d t', r) else (s, r)
  | .asgDel (.peer a) d all ps =>
      if d ≠ .exp then (s, .invalid)
      else
        match alLookup a s.peers with
        | none => (s, .invalid)
        | some existing =>
            if all then ({ s with peers := alInsert addrLt a none s.peers }, .ok)
            else
              match existing with
              | none => (s, .notFound)
              | some old =>
                  let upd : Assign := { old with pols := old.pols.filter (fun p => !ps.contains p.name) }
                  ({ s with peers := alInsert addrLt a (some upd) s.peers }, .ok)
  | .asgSet .global d df ps =>
      let (t', r) := s.t.setAssignment d "global" (apiDflt df) ps
      if r = .ok then (s.publish d t', r) else (s, r)
  | .asgSet (.peer a) d df ps =>
      -- per-peer SetPolicyAssignment replaces that peer's export override
      if d ≠ .exp then (s, .invalid)
      else
        match alLookup a s.peers with
        | none => (s, .invalid)
        | some _ =>
            match buildAssignment s.t none (Holder.peer a).name .exp (apiDflt df) ps with
            | none => (s, .invalid)
            | some asg => ({ s with peers := alInsert addrLt a (some asg) s.peers }, .ok)
  | .peerAdd a ex =>
      match alLookup a s.peers with
      | some _ => (s, .exists_)
      | none =>
          match ex with
          | none => ({ s with peers := alInsert addrLt a none s.peers }, .ok)
          | some (df, ps) =>
              match buildAssignment s.t none (Holder.peer a).name .exp df ps with
              | none => (s, .invalid)
              | some asg => ({ s with peers := alInsert addrLt a (some asg) s.peers }, .ok)
  | .peerDel a =>
      match alLookup a s.peers with
      | some _ => ({ s with peers := alErase a s.peers }, .ok)
      | none => (s, .exists_)       -- the handler answers `AlreadyExists` ("doesn't exists")
  | .setPolicies ops =>
      let (t', r) := runAll env {} ops
      if r = .ok then
        ({ t := t', pubImp := t'.imp, pubExp := t'.exp, peers := s.peers.map (fun p => (p.1, none)) }, r)
      else (s, r)

/-! ## observations -/

/-- one holder: the assignment it holds (names) and every probe through it -/
abbrev HObs := Option (DAsg × List PRes)

inductive DStepObs where
  | step (res : Res) (dump : Dump) (himp hexp : HObs) (hpeers : List (Addr × HObs))
  deriving Repr, Inhabited

abbrev DObs := List DStepObs

def holderObs (env : RegexEnv) (d : Dir) (rs : List Route) (a : Option Assign) : HObs :=
  a.map (fun a => (a.dump, rs.map (probe env d a)))

def DState.obs (env : RegexEnv) (rs : List Route) (s : DState) (r : Res) : DStepObs :=
  .step r s.t.dump (holderObs env .imp rs s.pubImp) (holderObs env .exp rs s.pubExp)
    (s.peers.map (fun p => (p.1, holderObs env .exp rs p.2)))

def drunOps (env : RegexEnv) (rs : List Route) : DState → List DOp → DObs
  | _, [] => []
  | s, op :: ops =>
      let (s', r) := s.step env op
      s'.obs env rs r :: drunOps env rs s' ops

def initStep (acc : List (Addr × Option Assign)) (a : Addr) : List (Addr × Option Assign) :=
  match alLookup a acc with
  | some _ => acc
  | none => alInsert addrLt a none acc

def DState.init (peers : List Addr) : DState := { peers := peers.foldl initStep [] }

def drun (env : RegexEnv) (c : DCase) : DObs := drunOps env c.probes (DState.init c.peers) c.ops

end Rbgp.Policy
