/-
  Rbgp.Policy.Stats — evidence only: which exact boundaries and switch settings of the anchored
  functions a generated case exercises (driver mode `stats`; `./check` sums the tokens into
  `oracle_clause_counts` and lists every name of CONFIG.expect_judged that stayed at zero under
  `coverage_gaps`).  Nothing here is used by the model, the reference or a theorem.

  For every step of the model run, every assignment that is live after the step (the table's two
  slots; on the daemon level the two published copies and every peer override) and every probe,
  all conditions and actions of all statements are classified against the probe as it enters the
  evaluation (no short-circuit: a bucket says "this comparison was set up with these operands").
-/
import Rbgp.Policy.Model
import Rbgp.Policy.Spec
import Rbgp.Policy.DModel
import Rbgp.Policy.Regex
namespace Rbgp.Policy.Stats
open Rbgp.Policy

def fam (a : Addr) : String := if a.v6 then "6" else "4"

/-- position of `x` relative to the boundary `y` -/
def rel (tag : String) (x y : Nat) : List String :=
  if x = y then [tag ++ "-eq"] else if x + 1 = y then [tag ++ "-below1"] else if x = y + 1 then [tag ++ "-above1"] else []

def kindStr : SetKind → String
  | .prefix => "prefix" | .neighbor => "neighbor" | .aspath => "aspath" | .comm => "comm" | .ext => "ext" | .large => "large"

def optStr : Opt → String
  | .any => "any" | .all => "all" | .invert => "invert"

def resStr : Res → String
  | .ok => "ok" | .invalid => "invalid" | .exists_ => "exists" | .notFound => "notfound" | .inUse => "inuse"

/-! ## conditions -/

def prefixBuckets (es : List PEntry) (z z6 : Option (Nat × Nat)) (net : Addr) (mask : Nat) : List String :=
  let f := fam net
  let cov := es.filter (fun e => e.addr.v6 == net.v6 && e.addr.top e.mask == net.top e.mask && e.mask ≤ mask)
  let inr := fun (e : PEntry) => e.lo ≤ mask && mask ≤ e.hi
  (match (if net.v6 then z6 else z) with
   | some (lo, hi) => rel ("pz" ++ f ++ "-lo") mask lo ++ rel ("pz" ++ f ++ "-hi") mask hi
   | none => []) ++
  (if mask = net.width then ["pn" ++ f ++ "-mask-max"] else if mask = 0 then ["pn" ++ f ++ "-mask-0"] else []) ++
  es.flatMap (fun e =>
    if e.addr.v6 == net.v6 && e.addr.top e.mask == net.top e.mask then
      rel ("pe" ++ f ++ "-len") e.mask mask ++
      (if e.mask ≤ mask then rel ("pe" ++ f ++ "-lo") mask e.lo ++ rel ("pe" ++ f ++ "-hi") mask e.hi else []) ++
      (if e.mask > mask && inr e then ["pe" ++ f ++ "-longer-inrange"] else []) ++
      (if e.hi > net.width then ["pe" ++ f ++ "-hi-gt-width"] else []) ++
      (if e.lo > e.hi then ["pe" ++ f ++ "-range-inverted"] else []) ++
      (if e.lo < e.mask then ["pe" ++ f ++ "-lo-lt-len"] else [])
    else []) ++
  -- several covering entries, one in range, the longest one not (longest-match-only would miss it)
  (match cov.foldl (fun (b : Option PEntry) e => match b with | some x => if e.mask > x.mask then some e else some x | none => some e) none with
   | some l => if !inr l && cov.any inr then ["pe" ++ f ++ "-nested-longest-out"] else []
   | none => []) ++
  (if cov.length ≥ 2 then ["pe" ++ f ++ "-nested"] else [])

def singleBuckets (s : Single) (asns : List Nat) : List String :=
  let range := fun (tag : String) (subj : List Nat) (lo hi : Nat) =>
    subj.flatMap (fun a => (rel (tag ++ "-lo") a lo).filter (· != tag ++ "-lo-above1") ++
                           (rel (tag ++ "-hi") a hi).filter (· != tag ++ "-hi-below1")) ++
    (if lo > hi then [tag ++ "-inverted"] else if lo = hi then [tag ++ "-point"] else []) ++
    (if subj.isEmpty then [tag ++ "-subject-empty"] else [])
  let value := fun (tag : String) (subj : List Nat) (v : Nat) =>
    subj.flatMap (fun a => rel tag a v) ++ (if subj.isEmpty then [tag ++ "-subject-empty"] else [])
  match s with
  | .inc v => value "as-inc" asns v
  | .left v => value "as-left" asns.head?.toList v
  | .orig v => value "as-orig" asns.getLast?.toList v
  | .only v => value "as-only" asns.head?.toList v ++ (if asns.length = 1 then ["as-only-len1"] else if asns.length = 2 then ["as-only-len2"] else [])
  | .rinc lo hi => range "ar-inc" asns lo hi
  | .rleft lo hi => range "ar-left" asns.head?.toList lo hi
  | .rorig lo hi => range "ar-orig" asns.getLast?.toList lo hi
  | .ronly lo hi => range "ar-only" asns.head?.toList lo hi ++ (if asns.length = 1 then ["ar-only-len1"] else if asns.length = 2 then ["ar-only-len2"] else [])

def neighborBuckets (nets : List (Addr × Nat)) (p : Addr) : List String :=
  (if nets.isEmpty then ["nb-empty-set"] else []) ++
  nets.flatMap (fun n =>
    if n.1.v6 != p.v6 then ["nb-fam-mismatch"]
    else
      let size := 2 ^ (n.1.width - n.2)
      (if p.val = n.1.val then ["nb-first"] else []) ++
      (if p.val + 1 = n.1.val + size then ["nb-last"] else []) ++
      (if p.val = n.1.val + size then ["nb-after"] else []) ++
      (if p.val + 1 = n.1.val then ["nb-before"] else []) ++
      (if n.2 = n.1.width then ["nb-host-net"] else if n.2 = 0 then ["nb-zero-net"] else []))

def strsBuckets (env : RegexEnv) (k : String) (o : Opt) (strs pats : List String) : List String :=
  let hits := pats.filter (fun p => strs.any (fun s => env.matches p s))
  (if strs.isEmpty then ["cs-" ++ k ++ "-route-has-none"] else []) ++
  (if pats.isEmpty then ["cs-" ++ k ++ "-set-empty"] else []) ++
  (if o == .all && 0 < hits.length && hits.length < pats.length then ["cs-" ++ k ++ "-all-mixed"] else []) ++
  (if o == .all && hits.length = pats.length && pats.length ≥ 2 then ["cs-" ++ k ++ "-all-every"] else [])

def setBuckets (env : RegexEnv) (cx : Ctx) (st : St) (k : SetKind) (o : Opt) (snap : SetObj) : List String :=
  ["opt-" ++ kindStr k ++ "-" ++ optStr o] ++
  match k, snap with
  | .prefix, .prefix es z z6 => prefixBuckets es z z6 cx.net cx.mask
  | .neighbor, .neighbor nets => neighborBuckets nets cx.peerAddr
  | .aspath, .aspath ss rs =>
      (if !rs.isEmpty then ["as-set-has-regex"] else []) ++
      (match Spec.pathOf st.attrs with
       | some (some segs) =>
           let fl := Spec.flatAsns segs
           let hits := ss.filter (fun s => s.isMatchList fl)
           ss.flatMap (fun s => singleBuckets s fl) ++
           (if o == .all && 0 < hits.length && hits.length < ss.length then ["as-all-mixed"] else [])
       | _ => ["as-noattr"])
  | .comm, .strs pats => strsBuckets env "comm" o ((Spec.commsOf st.attrs).map Spec.communityStr) pats
  | .ext, .strs pats => strsBuckets env "ext" o ((Spec.extsOf st.attrs).filterMap env.extStr) pats
  | .large, .strs pats => strsBuckets env "large" o ((Spec.largesOf st.attrs).map Spec.largeStr) pats
  | _, _ => []

def valueBuckets (tag : String) (cur : Option Nat) (v : Nat) : List String :=
  match cur with
  | none => [tag ++ "-absent"] ++ (if v = 0 then [tag ++ "-absent-vs-0"] else [])
  | some x => (if x = 0 then [tag ++ "-present-0"] else []) ++ rel tag x v

def plainBuckets (cx : Ctx) (st : St) : Plain → List String
  | .nexthop l =>
      (match st.nh with
       | none => ["nhc-none"]
       | some a => if l.contains a then ["nhc-hit"] else if l.any (fun x => x.v6 != a.v6) then ["nhc-fam-mismatch"] else ["nhc-miss"])
  | .asPathLen c v =>
      (match Spec.pathOf st.attrs with
       | some (some segs) =>
           rel "al" (Spec.pathLen segs) v ++ (if Spec.pathLen segs ≥ 256 then ["al-len-ge-256"] else []) ++
           [match c with | .eq => "al-cmp-eq" | .ge => "al-cmp-ge" | .le => "al-cmp-le"]
       | _ => ["al-noattr"])
  | .rpki s => (match cx.rpki with | none => ["rp-none"] | some x => if x = s then ["rp-eq"] else ["rp-ne"])
  | .localPrefEq v => valueBuckets "lp" (Spec.valOf LOCAL_PREF st.attrs) v
  | .medEq v => valueBuckets "me" (Spec.valOf MED st.attrs) v
  | .origin v => valueBuckets "or" (Spec.valOf ORIGIN st.attrs) v ++ (if v ≥ 3 then ["or-cond-out-of-range"] else [])
  | .routeType _ =>
      if cx.src.isLocal then ["rt-src-local"] else if cx.src.remoteAsn = cx.src.localAsn then ["rt-asn-eq"] else ["rt-asn-ne"]
  | .commCount c v =>
      rel "cc" (Spec.commsOf st.attrs).length v ++ [match c with | .eq => "cc-cmp-eq" | .ge => "cc-cmp-ge" | .le => "cc-cmp-le"]
  | .afiSafiIn l => if l.contains (if cx.net.v6 then (2, 1) else (1, 1)) then ["af-hit"] else ["af-miss"]

/-! ## actions -/

def medBuckets (a : Bool × Int) (attrs : List Attr) : List String :=
  let cur := Spec.valOf MED attrs
  let c : Int := (cur.getD 0 : Nat)
  let v := a.2
  (if cur.isNone then ["md-absent"] else []) ++
  (if a.1 then
     let s := c + v
     (if s = 0 then ["md-sum-0"] else if s = -1 then ["md-sum-m1"] else if s = 4294967295 then ["md-sum-max"]
      else if s = 4294967296 then ["md-sum-max1"] else []) ++
     (if v = 2147483647 then ["md-v-i32max"] else if v = 2147483648 then ["md-v-i32max1"]
      else if v = -2147483648 then ["md-v-i32min"] else if v = -2147483649 then ["md-v-i32min1"]
      else if v = 9223372036854775807 then ["md-v-i64max"] else if v = -9223372036854775808 then ["md-v-i64min"]
      else if v = 0 then ["md-v-0"] else if v > 4294967295 ∨ v < -4294967295 then ["md-v-wide"] else [])
   else
     (if v < 0 then ["mr-neg"] else if v = 0 then ["mr-0"] else if v = 4294967295 then ["mr-max"]
      else if v = 4294967296 then ["mr-max1"] else if v > 4294967296 then ["mr-wide"] else []))

def prependBuckets (cx : Ctx) (a : Nat × Nat × Bool) (attrs : List Attr) : List String :=
  let ty := if cx.confed then 3 else 2
  (if a.2.1 = 0 then ["pp-rep0"] else if a.2.1 = 1 then ["pp-rep1"] else []) ++
  (if cx.confed then ["pp-confed"] else []) ++
  (match Spec.pathOf attrs with
   | none => ["pp-noattr"]
   | some none => []
   | some (some segs) =>
       (match segs with
        | [] => ["pp-empty-path"]
        | s :: _ =>
            if s.ty = ty then
              (if s.asns.length = 255 then ["pp-first-full"] else []) ++
              (if s.asns.length + a.2.1 = 255 then ["pp-fill-255"] else if s.asns.length + a.2.1 = 256 then ["pp-cross-by1"] else [])
            else ["pp-first-othertype"]) ++
       (if a.2.2 then
          (match segs with
           | [] => ["pp-lm-empty-path"]
           | s :: _ => if s.asns.isEmpty then (if (Spec.flatAsns segs).isEmpty then ["pp-lm-flat-empty"] else ["pp-lm-first-seg-empty"]) else ["pp-lm"])
        else []))

def catStr : CAT → String
  | .add => "add" | .remove => "remove" | .replace => "replace"

def listBuckets {α} [BEq α] (tag : String) (unit : Nat) (t : CAT) (existing l : List α) : List String :=
  let res := Spec.edit t existing l
  [tag ++ "-" ++ catStr t] ++
  (if l.isEmpty then [tag ++ "-list-empty"] else []) ++
  (if existing.isEmpty then [tag ++ "-existing-none"] else []) ++
  (if res.isEmpty && !existing.isEmpty then [tag ++ "-result-empty"] else []) ++
  (if res.length * unit > 255 then [tag ++ "-result-gt255B"] else [])

def actionBuckets (cx : Ctx) (a : Actions) (st : St) : List String :=
  (match a.nexthop with
   | some .unchanged => if cx.origNh.isNone then ["nha-unchanged-none"] else ["nha-unchanged-some"]
   | some .self => ["nha-self" ++ fam cx.localAddr]
   | some .peer => ["nha-peer" ++ fam cx.peerAddr]
   | some (.addr x) => ["nha-addr" ++ fam x]
   | none => []) ++
  (match a.community with | some (t, l) => listBuckets "ca" 4 t (Spec.commsOf st.attrs) l | none => []) ++
  (match a.localPref with | some v => (if v = 0 then ["lpa-0"] else if v = 4294967295 then ["lpa-max"] else []) | none => []) ++
  (match a.med with | some m => medBuckets m st.attrs | none => []) ++
  (match a.asPrepend with | some p => prependBuckets cx p st.attrs | none => []) ++
  (match a.ext with | some (t, l) => listBuckets "ea" 8 t (Spec.extsOf st.attrs) l | none => []) ++
  (match a.large with | some (t, l) => listBuckets "la" 12 t (Spec.largesOf st.attrs) l | none => []) ++
  (match a.origin with | some v => (if v ≥ 3 then ["oa-out-of-range"] else ["oa-" ++ toString v]) | none => [])

/-! ## the probe itself -/

def extKind (c : Bytes) : String :=
  match c with
  | [0, 2, _, _, _, _, _, _] => "ex-rt2" | [0, 3, _, _, _, _, _, _] => "ex-soo2"
  | [2, 2, _, _, _, _, _, _] => "ex-rt4" | [2, 3, _, _, _, _, _, _] => "ex-soo4"
  | [1, 2, _, _, _, _, _, _] => "ex-rtip" | [1, 3, _, _, _, _, _, _] => "ex-sooip"
  | [3, 12, _, _, _, _, _, _] => "ex-encap" | [64, 4, _, _, _, _, _, _] => "ex-lb"
  | [67, 0, _, _, _, _, _, b] => if b ≤ 2 then "ex-validation" else "ex-validation-unknown"
  | _ => "ex-other"

def routeBuckets (r : Route) : List String :=
  (match Spec.pathOf r.attrs with
   | none => ["path-absent"]
   | some none => []
   | some (some segs) =>
       (if segs.isEmpty then ["path-empty"] else []) ++
       (if (Spec.flatAsns segs).isEmpty && !segs.isEmpty then ["path-flat-empty"] else []) ++
       (match segs with | s :: _ => if s.asns.isEmpty && !(Spec.flatAsns segs).isEmpty then ["path-first-seg-empty"] else [] | [] => []) ++
       (if segs.any (fun s => s.ty = 1) then ["path-has-set"] else []) ++
       (if segs.any (fun s => s.ty = 3) then ["path-has-confed-seq"] else []) ++
       (if segs.any (fun s => s.ty = 4) then ["path-has-confed-set"] else []) ++
       (if segs.any (fun s => s.asns.length = 255) then ["path-seg-255"] else []) ++
       (if segs.any (fun s => s.asns.length = 254) then ["path-seg-254"] else [])) ++
  (if (Spec.attrOf ORIGIN r.attrs).isNone then ["origin-absent"] else []) ++
  (Spec.extsOf r.attrs).map extKind ++
  (if r.src.isLocal then ["src-local"] else []) ++
  (if r.nh.isNone then ["nh-none"] else []) ++
  (match r.rpki with | none => ["rpki-none"] | some .valid => ["rpki-valid"] | some .invalid => ["rpki-invalid"] | some .notFound => ["rpki-notfound"])

def assignBuckets (env : RegexEnv) (d : Dir) (a : Assign) (r : Route) : List String :=
  let cx := ctxOf d r
  let st : St := ⟨r.attrs, r.nh⟩
  a.pols.flatMap (fun p => p.stmts.flatMap (fun s =>
    s.conds.flatMap (fun c => match c with
      | .set k _ o snap => setBuckets env cx st k o snap
      | .plain p => plainBuckets cx st p) ++
    actionBuckets cx s.acts st)) ++
  (if a.pols.isEmpty then ["asg-no-policies"] else []) ++
  (if a.pols.any (fun p => p.stmts.isEmpty) then ["asg-policy-no-statements"] else []) ++
  (if needsRpki a.pols then ["asg-needs-rpki"] else [])

/-! ## calls -/

def wellKnownBuckets (es : List Elem) : List String :=
  es.flatMap (fun e => match e with
    | .pat s => (match Spec.wellKnownValue s.toLower with
                 | some _ => ["wk-" ++ s.toLower] ++ (if s != s.toLower then ["wk-mixed-case"] else [])
                 | none => [])
    | _ => [])

def otherKindInUse (t : Table) (k : SetKind) (n : String) : Bool :=
  t.sets.any (fun e => e.1.2 == n && e.1.1 != k && setInUse t e.1.1 n)

def delBuckets (k : SetKind) (ex : Option SetObj) (es : List Elem) : List String :=
  match ex with
  | none => []
  | some obj =>
      es.flatMap (fun e => match e, obj with
        | .pfx p, .prefix l z z6 =>
            if p.addr.val == 0 && p.mask == 0 then
              (if p.addr.v6 then (if z6.isSome then ["sd-partial-zero6"] else ["sd-partial-zero6-missing"])
               else (if z.isSome then ["sd-partial-zero4"] else ["sd-partial-zero4-missing"]))
            else if l.any (fun x => x.key = p.key) then ["sd-partial-pfx" ++ fam p.addr] ++ (if l.contains p then [] else ["sd-partial-pfx-other-range"])
            else ["sd-partial-pfx-missing"]
        | .nbr a m, .neighbor l => if l.contains (a, m) then ["sd-partial-nbr"] else ["sd-partial-nbr-missing"]
        | .single s, .aspath ss _ => if ss.contains s then ["sd-partial-single"] else ["sd-partial-single-missing"]
        | .pat _, .aspath .. => ["sd-partial-aspath-regex"]
        | .pat _, .strs _ => ["sd-partial-" ++ kindStr k]
        | _, _ => [])

/-- a prefix / neighbor string that does not parse, in front of / behind / between good elements -/
def rawBuckets (tag : String) (existed : Bool) (es : List Elem) (r : String) : List String :=
  if es.any Elem.isRaw then
    ["raw-" ++ tag ++ "-" ++ r] ++ (if existed then ["raw-" ++ tag ++ "-set-existed"] else []) ++
    (match es with
     | .raw :: _ :: _ => ["raw-first-of-many"]
     | _ :: _ :: _ => ["raw-after-good-elements"]
     | _ => [])
  else []

def opBuckets (env : RegexEnv) (t : Table) (op : Op) (res : Res) : List String :=
  let r := resStr res
  (match op with
   | .setAdd k n es => rawBuckets "setadd" (alLookup (k, n) t.sets).isSome es r
   | .setReplace k n es => rawBuckets "setreplace" (alLookup (k, n) t.sets).isSome es r
   | .setDel k n all es => rawBuckets (if all then "setdel-all" else "setdel-partial") (alLookup (k, n) t.sets).isSome es r
   | _ => []) ++
  match op with
  | .setAdd k n es =>
      ["op-setadd-" ++ kindStr k ++ "-" ++ r] ++
      (match alLookup (k, n) t.sets with
       | some _ => if setInUse t k n then ["sa-existing-inuse"] else ["sa-merge-" ++ kindStr k ++ "-" ++ r]
       | none => []) ++
      (if es.isEmpty then ["sa-no-elems-" ++ r] else []) ++
      (if k == .comm then wellKnownBuckets es else []) ++
      (if otherKindInUse t k n then ["name-shared-other-kind-inuse-" ++ r] else [])
  | .setReplace k n es =>
      ["op-setreplace-" ++ kindStr k ++ "-" ++ r] ++
      (match alLookup (k, n) t.sets with
       | some _ => if setInUse t k n then ["sr-existing-inuse"] else ["sr-existing-unref-" ++ r]
       | none => ["sr-fresh-" ++ r]) ++
      (if k == .comm then wellKnownBuckets es else []) ++
      (if otherKindInUse t k n then ["name-shared-other-kind-inuse-" ++ r] else [])
  | .setDel k n all es =>
      ["op-setdel-" ++ kindStr k ++ "-" ++ (if all then "all-" else "partial-") ++ r] ++
      (if !all && res == .ok then
         delBuckets k (alLookup (k, n) t.sets) es ++
         (match alLookup (k, n) (t.step env op).1.sets with
          | some o => if o.isEmpty then ["sd-partial-to-empty"] else []
          | none => ["sd-partial-removed-set"])
       else []) ++
      (if otherKindInUse t k n then ["name-shared-other-kind-inuse-" ++ r] else [])
  | .stmtAdd n _ _ _ =>
      ["op-stmtadd-" ++ r] ++ (match alLookup n t.stmts with | some _ => ["st-merge-" ++ r] | none => [])
  | .stmtDel _ all _ _ _ => ["op-stmtdel-" ++ (if all then "all-" else "partial-") ++ r]
  | .polAdd n ss =>
      ["op-poladd-" ++ r] ++ (match alLookup n t.pols with | some _ => ["pa-append-" ++ r] | none => []) ++
      (if ss.isEmpty then ["pa-no-statements"] else [])
  | .polDel _ pr all _ => ["op-poldel-" ++ (if all then "all-" else "partial-") ++ (if pr then "preserve-" else "cleanup-") ++ r]
  | .asgAdd d _ _ ps =>
      ["op-asgadd-" ++ r] ++ (if (t.slot d).isSome then ["aa-accumulate-" ++ r] else []) ++ (if ps.isEmpty then ["aa-no-policies"] else [])
  | .asgSet d _ _ ps =>
      ["op-asgset-" ++ r] ++ (if (t.slot d).isSome then ["as-over-existing-" ++ r] else []) ++ (if ps.isEmpty then ["as-no-policies"] else [])
  | .asgDel _ all _ => ["op-asgdel-" ++ (if all then "all-" else "partial-") ++ r]

def liveBuckets (env : RegexEnv) (rs : List Route) (t : Table) : List String :=
  rs.flatMap (fun r =>
    (match t.imp with | some a => assignBuckets env .imp a r | none => []) ++
    (match t.exp with | some a => assignBuckets env .exp a r | none => []))

def caseBucketsGo (env : RegexEnv) (rs : List Route) : Table → List Op → List String
  | _, [] => []
  | t, op :: ops =>
      let (t', res) := t.step env op
      opBuckets env t op res ++ liveBuckets env rs t' ++ caseBucketsGo env rs t' ops

def dedup (l : List String) : List String := l.foldl (fun acc x => if acc.contains x then acc else x :: acc) []

/-- buckets are counted once per case: the number in the evidence is "cases that hit it" -/
def caseBuckets (env : RegexEnv) (c : Case) : List String :=
  dedup (["cases-table"] ++ c.probes.flatMap routeBuckets ++ caseBucketsGo env c.probes {} c.ops)

def holderStr : Holder → String
  | .global => "global" | .peer _ => "peer"

def dopBuckets (env : RegexEnv) (s : DState) (op : DOp) (res : Res) : List String :=
  let r := resStr res
  match op with
  | .tbl o => opBuckets env s.t o res
  | .polAdd n _ => ["dop-poladd-" ++ r] ++ (if peerRefs s n then ["dop-poladd-peer-referenced"] else [])
  | .polDel n _ _ _ => ["dop-poldel-" ++ r] ++ (if peerRefs s n then ["dop-poldel-peer-referenced"] else [])
  | .asgAdd h d _ _ =>
      ["dop-asgadd-" ++ holderStr h ++ "-" ++ r] ++
      (match h with
       | .peer a => (match alLookup a s.peers with
                     | some (some _) => ["dop-asgadd-peer-accumulate-" ++ r]
                     | some none => []
                     | none => ["dop-asgadd-unknown-peer"]) ++ (if d == .imp then ["dop-peer-import-refused"] else [])
       | .global => [])
  | .asgDel h _ all _ =>
      ["dop-asgdel-" ++ holderStr h ++ "-" ++ (if all then "all-" else "partial-") ++ r]
  | .asgSet h _ _ _ =>
      ["dop-asgset-" ++ holderStr h ++ "-" ++ r] ++
      (match h with
       | .peer a => (match alLookup a s.peers with | some (some _) => ["dop-asgset-peer-over-existing-" ++ r] | _ => [])
       | .global => [])
  | .peerAdd _ ex => ["dop-peeradd-" ++ (if ex.isSome then "with-policy-" else "plain-") ++ r]
  | .peerDel a =>
      ["dop-peerdel-" ++ r] ++ (match alLookup a s.peers with | some (some _) => ["dop-peerdel-with-override"] | _ => [])
  | .setPolicies _ =>
      ["dop-setpolicies-" ++ r] ++ (if s.peers.any (fun p => p.2.isSome) then ["dop-setpolicies-clears-override-" ++ r] else [])

def dliveBuckets (env : RegexEnv) (rs : List Route) (s : DState) : List String :=
  rs.flatMap (fun r =>
    (match s.pubImp with | some a => assignBuckets env .imp a r | none => []) ++
    (match s.pubExp with | some a => assignBuckets env .exp a r | none => []) ++
    s.peers.flatMap (fun p => match p.2 with | some a => assignBuckets env .exp a r | none => [])) ++
  (if s.peers.any (fun p => p.2.isSome) && s.pubExp.isSome then ["d-override-and-global-export"] else []) ++
  (if s.peers.any (fun p => p.1.v6 && p.2.isSome) then ["d-override-v6-peer"] else [])

def dcaseBucketsGo (env : RegexEnv) (rs : List Route) : DState → List DOp → List String
  | _, [] => []
  | s, op :: ops =>
      let (s', res) := s.step env op
      dopBuckets env s op res ++ dliveBuckets env rs s' ++ dcaseBucketsGo env rs s' ops

def dcaseBuckets (env : RegexEnv) (c : DCase) : List String :=
  dedup (["cases-daemon"] ++ c.probes.flatMap routeBuckets ++ dcaseBucketsGo env c.probes (DState.init c.peers) c.ops)

def render (l : List String) : String := " ".intercalate (l.map (· ++ "=1"))

end Rbgp.Policy.Stats
