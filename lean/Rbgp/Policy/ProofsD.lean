/-
  Rbgp.Policy.ProofsD — the CRUD invariant extended to the holders outside `PolicyTable`
  (`DInv`: the published copies ARE the table's assignments, every peer override's policies are
  the table's current objects) and `dcheck_run_ok`: the daemon-level reference checker accepts
  every run of the daemon-level model.
-/
import Rbgp.Policy.ProofsCheck
import Rbgp.Policy.DSpec
namespace Rbgp.Policy
open Rbgp.Policy

variable {ar : Bool}

structure DInv (ar : Bool) (s : DState) : Prop where
  inv : Inv ar s.t
  pimp : s.pubImp = s.t.imp
  pexp : s.pubExp = s.t.exp
  peers : ∀ e ∈ s.peers, ∀ a, e.2 = some a → ∀ p ∈ a.pols, alLookup p.name s.t.pols = some p

def DOp.noAsRegex : DOp → Bool
  | .tbl op => op.noAsRegex
  | .setPolicies ops => ops.all Op.noAsRegex
  | _ => true

theorem DInv.init (ar : Bool) (peers : List Addr) : DInv ar (DState.init peers) := by
  refine ⟨Inv.empty ar, rfl, rfl, ?_⟩
  simp only [DState.init]
  suffices ∀ (l : List Addr) (acc : List (Addr × Option Assign)), (∀ e ∈ acc, e.2 = none) →
      ∀ e ∈ l.foldl initStep acc,
        e.2 = none by
    intro e he a ha
    have := this peers [] (by simp) e he
    rw [this] at ha; cases ha
  intro l
  induction l with
  | nil => intro acc h e he; exact h e he
  | cons a r ih =>
      intro acc h e he
      simp only [List.foldl] at he
      apply ih _ _ e he
      intro e' he'
      simp only [initStep] at he'
      split at he'
      · exact h e' he'
      · rcases mem_alInsert _ he' with rfl | h'
        · rfl
        · exact h e' h'

/-! ## what a set / statement call leaves alone -/

theorem setStmt_other (env : RegexEnv) (t : Table) (op : Op) (h : isSetStmtOp op = true) :
    (t.step env op).1.pols = t.pols ∧ (t.step env op).1.imp = t.imp ∧ (t.step env op).1.exp = t.exp := by
  cases op <;> simp [isSetStmtOp] at h
  · exact ⟨(addDefinedSet_other env t _ _ _).2.1, (addDefinedSet_other env t _ _ _).2.2.1, (addDefinedSet_other env t _ _ _).2.2.2⟩
  · exact ⟨(replaceDefinedSet_other env t _ _ _).2.1, (replaceDefinedSet_other env t _ _ _).2.2.1, (replaceDefinedSet_other env t _ _ _).2.2.2⟩
  · exact ⟨(deleteDefinedSet_other env t _ _ _ _).2.1, (deleteDefinedSet_other env t _ _ _ _).2.2.1, (deleteDefinedSet_other env t _ _ _ _).2.2.2⟩
  · exact ⟨(addStatement_other t _ _ _ _).2.1, (addStatement_other t _ _ _ _).2.2.1, (addStatement_other t _ _ _ _).2.2.2⟩
  · exact ⟨(deleteStatement_other t _ _ _ _ _).2.1, (deleteStatement_other t _ _ _ _ _).2.2.1, (deleteStatement_other t _ _ _ _ _).2.2.2⟩

/-- a policy some peer override uses -/
def peerUsed (s : DState) (m : String) : Prop := ∃ e ∈ s.peers, ∃ a, e.2 = some a ∧ ∃ p ∈ a.pols, p.name = m

theorem peerRefs_iff (s : DState) (m : String) : peerRefs s m = true ↔ peerUsed s m := by
  simp only [peerRefs, peerUsed, List.any_eq_true]
  constructor
  · rintro ⟨e, he, h⟩
    cases ha : e.2 with
    | none => simp [ha] at h
    | some a =>
        simp only [ha, List.any_eq_true, beq_iff_eq] at h
        exact ⟨e, he, a, ha, h⟩
  · rintro ⟨e, he, a, ha, h⟩
    refine ⟨e, he, ?_⟩
    simp only [ha, List.any_eq_true, beq_iff_eq]
    exact h

/-- changing only the table, with every holder-used policy resolving as before -/
theorem DInv.set_table {s : DState} (hd : DInv ar s) (t' : Table) (hi' : Inv ar t')
    (himp : t'.imp = s.t.imp) (hexp : t'.exp = s.t.exp)
    (hp : ∀ m, peerUsed s m → alLookup m t'.pols = alLookup m s.t.pols) :
    DInv ar { s with t := t' } := by
  refine ⟨hi', by rw [himp]; exact hd.pimp, by rw [hexp]; exact hd.pexp, ?_⟩
  intro e he a ha p hpp
  show alLookup p.name t'.pols = some p
  rw [hp p.name ⟨e, he, a, ha, p, hpp, rfl⟩]
  exact hd.peers e he a ha p hpp

theorem DInv.set_peers {s : DState} (hd : DInv ar s) (peers' : List (Addr × Option Assign))
    (h : ∀ e ∈ peers', ∀ a, e.2 = some a → ∀ p ∈ a.pols, alLookup p.name s.t.pols = some p) :
    DInv ar { s with peers := peers' } :=
  ⟨hd.inv, hd.pimp, hd.pexp, h⟩

theorem DInv.insert_peer {s : DState} (hd : DInv ar s) (a : Addr) (o : Option Assign)
    (h : ∀ x, o = some x → ∀ p ∈ x.pols, alLookup p.name s.t.pols = some p) :
    DInv ar { s with peers := alInsert addrLt a o s.peers } := by
  refine hd.set_peers _ ?_
  intro e he x hx
  rcases mem_alInsert _ he with rfl | he'
  · exact h x hx
  · exact hd.peers e he' x hx

theorem DInv.publish {s : DState} (hd : DInv ar s) (d : Dir) (t' : Table) (hi' : Inv ar t')
    (hother : ∀ d', d' ≠ d → t'.slot d' = s.t.slot d') (hpols : t'.pols = s.t.pols) :
    DInv ar (s.publish d t') := by
  cases d
  · refine ⟨hi', rfl, ?_, ?_⟩
    · show s.pubExp = t'.exp
      have := hother .exp (by decide)
      simp only [Table.slot] at this
      rw [this]; exact hd.pexp
    · intro e he a ha p hp
      show alLookup p.name t'.pols = some p
      rw [hpols]; exact hd.peers e he a ha p hp
  · refine ⟨hi', ?_, rfl, ?_⟩
    · show s.pubImp = t'.imp
      have := hother .imp (by decide)
      simp only [Table.slot] at this
      rw [this]; exact hd.pimp
    · intro e he a ha p hp
      show alLookup p.name t'.pols = some p
      rw [hpols]; exact hd.peers e he a ha p hp

theorem apiOp_noAsRegex (op : Op) : (apiOp op).noAsRegex = op.noAsRegex := by
  cases op <;> rfl

theorem runAll_inv (env : RegexEnv) : ∀ (ops : List Op) (t : Table), Inv ar t →
    (ar = true ∨ ops.all Op.noAsRegex = true) → Inv ar (runAll env t ops).1
  | [], _, hi, _ => hi
  | op :: ops, t, hi, hno => by
      have hno1 : ar = true ∨ (apiOp op).noAsRegex = true := by
        rcases hno with h | h
        · exact Or.inl h
        · right
          simp only [List.all_cons, Bool.and_eq_true] at h
          rw [apiOp_noAsRegex]; exact h.1
      have hi' : Inv ar (t.step env (apiOp op)).1 := hi.step env _ hno1
      by_cases hr : (t.step env (apiOp op)).2 = .ok
      · simp only [runAll, hr, if_true]
        exact runAll_inv env ops _ hi' (hno.imp id (fun h => by simp only [List.all_cons, Bool.and_eq_true] at h; exact h.2))
      · simp only [runAll, hr, if_false]
        exact hi

theorem lookup_addPolicy_peer {s : DState} (hd : DInv ar s) (n : String) (ss : List String)
    (hg : peerRefs s n = false) : ∀ m, peerUsed s m → alLookup m (s.t.addPolicy n ss).1.pols = alLookup m s.t.pols := by
  intro m hm
  have : m ≠ n := by
    intro e; subst e
    have := (peerRefs_iff s m).2 hm
    rw [this] at hg; cases hg
  exact addPolicy_lookup_ne s.t n ss m this

theorem lookup_deletePolicy_peer {s : DState} (n : String) (pr all : Bool) (ss : List String)
    (hg : peerRefs s n = false) : ∀ m, peerUsed s m → alLookup m (s.t.deletePolicy n pr all ss).1.pols = alLookup m s.t.pols := by
  intro m hm
  have : m ≠ n := by
    intro e; subst e
    have := (peerRefs_iff s m).2 hm
    rw [this] at hg; cases hg
  exact deletePolicy_lookup_ne s.t n pr all ss m this

theorem slot_setSlot_ne (t : Table) (d d' : Dir) (a : Option Assign) (h : d' ≠ d) : (t.setSlot d a).slot d' = t.slot d' :=
  setSlot_slot t d d' a h

/-- table-level assignment calls: everything but the named slot is left alone -/
theorem asgStep_frame (t : Table) (d : Dir) (t' : Table)
    (h : (∃ n df ps, t' = (t.addAssignment d n df ps).1) ∨ (∃ n df ps, t' = (t.setAssignment d n df ps).1) ∨
         (∃ all ps, t' = (t.deleteAssignment d all ps).1)) :
    (∀ d', d' ≠ d → t'.slot d' = t.slot d') ∧ t'.pols = t.pols := by
  rcases h with ⟨n, df, ps, rfl⟩ | ⟨n, df, ps, rfl⟩ | ⟨all, ps, rfl⟩
  · simp only [Table.addAssignment]
    split
    · exact ⟨fun _ _ => rfl, rfl⟩
    · exact ⟨fun d' hd => setSlot_slot _ _ _ _ hd, (setSlot_other _ _ _).2.2⟩
  · simp only [Table.setAssignment]
    split
    · exact ⟨fun _ _ => rfl, rfl⟩
    · exact ⟨fun d' hd => setSlot_slot _ _ _ _ hd, (setSlot_other _ _ _).2.2⟩
  · simp only [Table.deleteAssignment]
    repeat' split
    all_goals first | exact ⟨fun _ _ => rfl, rfl⟩ | exact ⟨fun d' hd => setSlot_slot _ _ _ _ hd, (setSlot_other _ _ _).2.2⟩

/-- every daemon call keeps the extended invariant -/
theorem DInv.step (env : RegexEnv) {s : DState} (hd : DInv ar s) (op : DOp) (hno : ar = true ∨ op.noAsRegex = true) :
    DInv ar (s.step env op).1 := by
  cases op with
  | tbl op =>
      simp only [DState.step]
      split
      · rename_i hs
        have hf := setStmt_other env s.t op hs
        have hi' := hd.inv.step env op (hno.imp id (fun h => h))
        have := hd.set_table (s.t.step env op).1 hi' hf.2.1 hf.2.2 (fun m _ => by rw [hf.1])
        exact this
      · exact hd
  | polAdd n ss =>
      simp only [DState.step]
      split
      · exact hd
      · rename_i hg
        have hg' : peerRefs s n = false := by simpa using hg
        have ho := addPolicy_other s.t n ss
        exact hd.set_table (s.t.addPolicy n ss).1 (hd.inv.addPolicy n ss) ho.2.2.1 ho.2.2.2
          (lookup_addPolicy_peer hd n ss hg')
  | polDel n pr all ss =>
      simp only [DState.step]
      split
      · exact hd
      · rename_i hg
        have hg' : peerRefs s n = false := by simpa using hg
        have ho := deletePolicy_other s.t n pr all ss
        have h1 := hd.set_table (s.t.deletePolicy n pr all ss).1 (hd.inv.deletePolicy n pr all ss) ho.2.1 ho.2.2
          (lookup_deletePolicy_peer n pr all ss hg')
        split
        · exact ⟨h1.inv, rfl, rfl, h1.peers⟩
        · exact hd
  | asgAdd h d df ps =>
      cases h with
      | global =>
          simp only [DState.step]
          split
          · have hf := asgStep_frame s.t d (s.t.addAssignment d "global" (apiDflt df) ps).1 (Or.inl ⟨_, _, _, rfl⟩)
            exact hd.publish d _ (hd.inv.addAssignment d _ _ _) hf.1 hf.2
          · exact hd
      | peer a =>
          simp only [DState.step]
          split
          · exact hd
          · cases hl : alLookup a s.peers with
            | none => exact hd
            | some existing =>
                simp only []
                cases hb : buildAssignment s.t existing (Holder.peer a).name .exp (apiDflt df) ps with
                | none => exact hd
                | some asg =>
                    refine hd.insert_peer a (some asg) ?_
                    intro x hx; cases hx
                    refine buildAssignment_spec hd.inv existing ?_ _ _ _ _ asg hb
                    intro x hx
                    exact hd.peers _ (alLookup_mem hl) x hx
  | asgDel h d all ps =>
      cases h with
      | global =>
          simp only [DState.step]
          split
          · have hf := asgStep_frame s.t d (s.t.deleteAssignment d all ps).1 (Or.inr (Or.inr ⟨_, _, rfl⟩))
            exact hd.publish d _ (hd.inv.deleteAssignment d _ _) hf.1 hf.2
          · exact hd
      | peer a =>
          simp only [DState.step]
          split
          · exact hd
          · cases hl : alLookup a s.peers with
            | none => exact hd
            | some existing =>
                simp only []
                split
                · exact hd.insert_peer a none (fun x hx => by cases hx)
                · cases existing with
                  | none => exact hd
                  | some old =>
                      refine hd.insert_peer a _ ?_
                      intro x hx; cases hx
                      intro p hp
                      exact hd.peers _ (alLookup_mem hl) old rfl p (List.mem_filter.1 hp).1
  | asgSet h d df ps =>
      cases h with
      | global =>
          simp only [DState.step]
          split
          · have hf := asgStep_frame s.t d (s.t.setAssignment d "global" (apiDflt df) ps).1 (Or.inr (Or.inl ⟨_, _, _, rfl⟩))
            exact hd.publish d _ (hd.inv.setAssignment d _ _ _) hf.1 hf.2
          · exact hd
      | peer a =>
          simp only [DState.step]
          split
          · exact hd
          · cases hl : alLookup a s.peers with
            | none => exact hd
            | some existing =>
                simp only []
                cases hb : buildAssignment s.t none (Holder.peer a).name .exp (apiDflt df) ps with
                | none => exact hd
                | some asg =>
                    refine hd.insert_peer a (some asg) ?_
                    intro x hx; cases hx
                    exact buildAssignment_spec hd.inv none (fun x hx => by cases hx) _ _ _ _ asg hb
  | peerAdd a ex =>
      simp only [DState.step]
      cases hl : alLookup a s.peers with
      | some _ => exact hd
      | none =>
          simp only []
          cases ex with
          | none => exact hd.insert_peer a none (fun x hx => by cases hx)
          | some e =>
              obtain ⟨df, ps⟩ := e
              simp only []
              cases hb : buildAssignment s.t none (Holder.peer a).name .exp df ps with
              | none => exact hd
              | some asg =>
                  refine hd.insert_peer a (some asg) ?_
                  intro x hx; cases hx
                  exact buildAssignment_spec hd.inv none (fun x hx => by cases hx) _ _ _ _ asg hb
  | peerDel a =>
      simp only [DState.step]
      cases hl : alLookup a s.peers with
      | none => exact hd
      | some _ => exact hd.set_peers _ (fun e he => hd.peers e (mem_alErase he))
  | setPolicies ops =>
      by_cases hr : (runAll env {} ops).2 = .ok
      · simp only [DState.step, hr, if_true]
        refine ⟨?_, rfl, rfl, ?_⟩
        · exact runAll_inv (ar := ar) env ops {} (Inv.empty ar) (hno.imp id (fun h => h))
        · intro e he a ha
          simp only [List.mem_map] at he
          obtain ⟨e0, _, rfl⟩ := he
          cases ha
      · simp only [DState.step, hr, if_false]
        exact hd

def drunState (env : RegexEnv) : DState → List DOp → DState
  | s, [] => s
  | s, op :: ops => drunState env (s.step env op).1 ops

theorem DInv.run (env : RegexEnv) : ∀ (ops : List DOp) {s : DState}, DInv ar s →
    (ar = true ∨ ∀ op ∈ ops, op.noAsRegex = true) → DInv ar (drunState env s ops)
  | [], _, hd, _ => hd
  | op :: ops, _, hd, hno =>
      DInv.run env ops (hd.step env op (hno.imp id (fun h => h op (by simp))))
        (hno.imp id (fun h o ho => h o (by simp [ho])))

end Rbgp.Policy
