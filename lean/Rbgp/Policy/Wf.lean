/-
  Rbgp.Policy.Wf — which case lines are *cases* (the harness answers `(bad-case)` to the others,
  e.g. to what the shrinker produces).  A probe's attribute list must be a value the wire decoder
  produces (`Attribute::decode` + the UPDATE attribute loop) or that minus ORIGIN / AS_PATH (a
  vector the API builds for a locally originated route), prefix/neighbor elements carry no
  host bits, and patterns are inside the fragment the driver's regex engine implements.
-/
import Rbgp.Policy.Model
import Rbgp.Policy.DModel
import Rbgp.Policy.Regex
namespace Rbgp.Policy.Wf
open Rbgp.Policy

def allowedCodes : List Nat := [1, 2, 4, 5, 6, 8, 9, 10, 16, 32, 99]

/-- transitive/optional bits `Attribute::canonical_flags` demands -/
def canonTO (code : Nat) : Nat :=
  if code = 4 ∨ code = 9 ∨ code = 10 then 128
  else if code = 8 ∨ code = 16 ∨ code = 32 ∨ code = 99 then 192
  else 64

def payloadLen (a : Attr) : Nat :=
  match a.data with
  | .val _ => if a.code = 1 then 1 else 4
  | .bin b => b.length


def wfAttr (a : Attr) : Bool :=
  allowedCodes.contains a.code && a.flags < 256 && (a.flags / 64) % 4 == canonTO a.code / 64 &&
  (payloadLen a ≤ 255 || (a.flags / 16) % 2 == 1) &&
  (match a.code, a.data with
   | 1, .val v => v ≤ 2
   | 4, .val v => v < 4294967296
   | 5, .val v => v < 4294967296
   | 9, .val v => v < 4294967296
   | 2, .bin b =>
       (match segsOf b with
        | some segs => !(segs.any (fun s => s.asns.isEmpty)) || a.flags == 64   -- zero-count segments: API-built
        | none => false)
   | 6, .bin b => b.isEmpty
   | 8, .bin b => b.length % 4 == 0
   | 10, .bin b => b.length % 4 == 0
   | 16, .bin b => b.length % 8 == 0 && (chunks8 b).all Regex.lbOk
   | 32, .bin b => b.length % 12 == 0
   | 99, .bin _ => true
   | _, _ => false)

def distinctCodes : List Attr → Bool
  | [] => true
  | a :: r => !(r.any (fun x => x.code == a.code)) && distinctCodes r

def wfNet (a : Addr) (mask : Nat) : Bool :=
  mask ≤ a.width && a.val < 2 ^ a.width && a.val % 2 ^ (a.width - 8 * ((mask + 7) / 8)) == 0

/-- `rpki valid` is only declared for paths that end in a non-empty AS_SEQUENCE whose last member
    is not AS 0 (the harness builds the VRP from that member) -/
def validOriginOk (r : Route) : Bool :=
  match r.rpki with
  | some .valid =>
      (match (findAttr AS_PATH r.attrs).bind Attr.binary with
       | some b =>
           (match segsOf b with
            | some segs =>
                (match segs.getLast? with
                 | some ⟨2, asns⟩ => (match asns.getLast? with | some a => a != 0 | none => false)
                 | _ => false)
            | none => false)
       | none => false)
  | _ => true

def wfRoute (r : Route) : Bool :=
  wfNet r.net r.mask && r.attrs.all wfAttr && distinctCodes r.attrs &&
  (r.attrs.map payloadLen).sum ≤ 60000 && validOriginOk r &&
  (r.rpki.isNone || r.attrs.any (fun a => a.code == 2))   -- a validation state only with an AS_PATH

def wfPat (p : String) : Bool := Regex.supported p

def wfCommPat (s : String) : Bool :=
  match parseU32 s with
  | some _ => true
  | none =>
      if hasDigitColonDigit s.toList then wfPat ("^" ++ s ++ "$")
      else if (wellKnownCommunity s.toLower).isSome then true
      else wfPat s

def wfElem (k : SetKind) : Elem → Bool
  | .pfx e => k == .prefix && e.addr.normalized e.mask
  | .nbr a m => k == .neighbor && a.normalized m
  | .single _ => k == .aspath
  | .pat s =>
      match k with
      | .aspath => !s.toList.contains '_' && wfPat s
      | .comm => wfCommPat s
      | .ext | .large => wfPat s
      | _ => false
  | .raw => k == .prefix || k == .neighbor

def wfActions (a : Actions) : Bool :=
  (match a.med with | some (_, v) => -9223372036854775808 ≤ v && v ≤ 9223372036854775807 | none => true) &&
  (match a.asPrepend with | some (_, n, _) => n ≤ 1000 | none => true) &&
  (match a.ext with | some (_, l) => l.all (fun c => c.length == 8 && Regex.lbOk c) | none => true)

def wfOp : Op → Bool
  | .setAdd k _ es => es.all (wfElem k)
  | .setReplace k _ es => es.all (wfElem k)
  | .setDel k _ _ es => es.all (wfElem k)
  | .stmtAdd _ _ _ a => wfActions a
  | .stmtDel _ _ _ _ a => wfActions a
  | _ => true

def wfCase (c : Case) : Bool := c.probes.all wfRoute && c.ops.all wfOp

/-! ## daemon-level cases -/

/-- position of a condition in the API message (`conditions_from_api` emits them in this order);
    `none` = not expressible in the generated messages -/
def apiCondIdx : CondCfg → Option Nat
  | .set k _ _ => some (match k with | .prefix => 0 | .neighbor => 1 | .aspath => 2 | .comm => 4 | .ext => 5 | .large => 6)
  | .plain (.asPathLen ..) => some 3
  | .plain (.nexthop l) => if l.isEmpty then none else some 7
  | .plain (.rpki _) => some 8
  | .plain (.localPrefEq _) => some 9
  | .plain (.medEq _) => some 10
  | .plain (.origin n) => if n ≤ 2 then some 11 else none
  | .plain (.routeType _) => some 12
  | .plain (.commCount ..) => some 13
  | .plain (.afiSafiIn l) => if l.isEmpty then none else some 14

def increasing : List Nat → Bool
  | a :: b :: r => a < b && increasing (b :: r)
  | _ => true

/-- a statement the harness can say in an `api::Statement` (everything but extended-community
    actions, `pass`, out-of-range origins; conditions once per kind in message order) -/
def apiStmtOk (conds : List CondCfg) (disp : Option Disp) (a : Actions) : Bool :=
  (conds.all (fun c => (apiCondIdx c).isSome)) && increasing (conds.filterMap apiCondIdx) &&
  disp != some .pass && a.ext.isNone && (match a.origin with | some n => n ≤ 2 | none => true)

/-- shape of a `SetPolicies` message: sets, then statements / policies (every statement defined
    once, before the policies that list it, and listed by some policy), then global assignments -/
def spShape : Nat → List String → List String → List Op → Bool
  | _, defined, used, [] => defined.all (fun n => used.contains n)
  | ph, defined, used, op :: r =>
      match op with
      | .setAdd .. => ph == 0 && spShape 0 defined used r
      | .stmtAdd n c d a => ph ≤ 1 && !defined.contains n && apiStmtOk c d a && spShape 1 (n :: defined) used r
      | .polAdd _ ss => ph ≤ 1 && ss.all (fun s => defined.contains s) && spShape 1 defined (ss ++ used) r
      | .asgAdd _ n _ _ => n == "global" && spShape 2 defined used r
      | _ => false

def distinctAddrs : List Addr → Bool
  | [] => true
  | a :: r => !r.contains a && distinctAddrs r

def wfDOp : DOp → Bool
  | .tbl op => isSetStmtOp op && wfOp op
  | .setPolicies ops => ops.all wfOp && spShape 0 [] [] ops
  | _ => true

def wfDCase (c : DCase) : Bool := c.probes.all wfRoute && distinctAddrs c.peers && c.ops.all wfDOp
