/-
  Rbgp.Policy.ProofsStored — after a successful add / replace call of the model, everything that
  was asked for is listed (`Spec.requestStored`): in particular a prefix set never loses a
  requested (prefix, range) silently.
-/
import Rbgp.Policy.ProofsCheck
namespace Rbgp.Policy
open Rbgp.Policy

variable {ar : Bool}

/-! ## prefix tables -/

theorem PEntry.ext_of_key {a b : PEntry} (hk : a.key = b.key) (hlo : a.lo = b.lo) (hhi : a.hi = b.hi) : a = b := by
  obtain ⟨⟨v, x⟩, m, lo, hi⟩ := a
  obtain ⟨⟨v', x'⟩, m', lo', hi'⟩ := b
  simp only [PEntry.key, Prod.mk.injEq] at hk
  obtain ⟨h1, h2, h3⟩ := hk
  simp only at hlo hhi
  subst h1 h2 h3 hlo hhi
  rfl

theorem mem_pInsert_self (e : PEntry) : ∀ (l : List PEntry), e ∈ pInsert e l
  | [] => by simp [pInsert]
  | x :: r => by
      simp only [pInsert]
      split
      · simp
      · split
        · simp
        · exact List.mem_cons_of_mem _ (mem_pInsert_self e r)

/-- inserting `e` where the stored entry for its prefix (if any) has the same range keeps every
    member -/
theorem mem_pInsert_of_mem (e p : PEntry) : ∀ (l : List PEntry), p ∈ l →
    (∀ old, pLookup e.key l = some old → old.lo = e.lo ∧ old.hi = e.hi) → p ∈ pInsert e l
  | [], h, _ => by simp at h
  | x :: r, h, hc => by
      simp only [pInsert]
      by_cases hx : x.key = e.key
      · simp only [hx, if_true]
        have hold := hc x (by simp [pLookup, List.find?, hx])
        have : x = e := PEntry.ext_of_key hx hold.1 hold.2
        subst this
        exact h
      · simp only [hx, if_false]
        split
        · exact List.mem_cons_of_mem _ h
        · simp only [List.mem_cons] at h ⊢
          rcases h with h | h
          · exact Or.inl h
          · right
            apply mem_pInsert_of_mem e p r h
            intro old ho
            apply hc old
            simp only [pLookup, List.find?] at ho ⊢
            have : decide (x.key = e.key) = false := by simp [hx]
            simp only [this]
            exact ho

theorem pInsertC_some {acc : Option (List PEntry)} {e : PEntry} {l : List PEntry} (h : pInsertC acc e = some l) :
    ∃ l0, acc = some l0 ∧ l = pInsert e l0 ∧ ∀ old, pLookup e.key l0 = some old → old.lo = e.lo ∧ old.hi = e.hi := by
  cases acc with
  | none => simp [pInsertC] at h
  | some l0 =>
      simp only [pInsertC] at h
      cases hl : pLookup e.key l0 with
      | none => simp [hl] at h; exact ⟨l0, rfl, h.symm, by intro old ho; rw [hl] at ho; cases ho⟩
      | some old =>
          simp only [hl] at h
          split at h
          · rename_i hr
            simp at h
            simp only [Bool.and_eq_true, beq_iff_eq] at hr
            exact ⟨l0, rfl, h.symm, by intro o ho; rw [hl] at ho; cases ho; exact hr⟩
          · simp at h

theorem foldl_pInsertC_none : ∀ (ns : List PEntry), ns.foldl pInsertC none = none
  | [] => rfl
  | e :: r => by simp [List.foldl, pInsertC, foldl_pInsertC_none r]

/-- a successful sequence of checked inserts contains everything it started with and everything
    that was inserted -/
theorem foldl_pInsertC_mem : ∀ (ns : List PEntry) (l0 l : List PEntry), ns.foldl pInsertC (some l0) = some l →
    (∀ p ∈ l0, p ∈ l) ∧ (∀ p ∈ ns, p ∈ l)
  | [], l0, l, h => by simp at h; subst h; exact ⟨fun _ h => h, by simp⟩
  | e :: r, l0, l, h => by
      simp only [List.foldl] at h
      cases hs : pInsertC (some l0) e with
      | none => rw [hs, foldl_pInsertC_none] at h; cases h
      | some l1 =>
          rw [hs] at h
          obtain ⟨l0', h0, h1, hc⟩ := pInsertC_some hs
          cases h0
          have ih := foldl_pInsertC_mem r l1 l h
          subst h1
          refine ⟨fun p hp => ih.1 p (mem_pInsert_of_mem e p l0 hp hc), ?_⟩
          intro p hp
          simp only [List.mem_cons] at hp
          rcases hp with rfl | hp
          · exact ih.1 _ (mem_pInsert_self _ _)
          · exact ih.2 p hp

theorem zeroRange_mem : ∀ (l : List PEntry) (z : Option (Nat × Nat)), zeroRange l = some z → ∀ p ∈ l, z = some (p.lo, p.hi)
  | [], z, _, p, hp => by simp at hp
  | e :: r, z, h, p, hp => by
      simp only [zeroRange] at h
      split at h
      · rename_i hall
        simp at h; subst h
        simp only [List.mem_cons] at hp
        rcases hp with rfl | hp
        · rfl
        · have := (List.all_eq_true.1 hall) p hp
          simp only [Bool.and_eq_true, beq_iff_eq] at this
          rw [this.1, this.2]
      · simp at h

/-! ## community patterns -/

theorem decimal_eq (s : String) : decimalU32? s = parseU32 s := rfl

theorem wellKnown_eq (s : String) : wellKnownCommunity s = Spec.wellKnownValue s := by
  simp only [wellKnownCommunity, Spec.wellKnownValue]

theorem parseCommunity_forms (env : RegexEnv) (s r : String) (h : parseCommunity env s = some r) : r ∈ Spec.commForms s := by
  simp only [parseCommunity] at h
  simp only [Spec.commForms, decimal_eq, ← wellKnown_eq]
  cases hp : parseU32 s with
  | some v =>
      simp only [hp] at h ⊢
      simp at h
      simp [h]
  | none =>
      simp only [hp] at h ⊢
      split at h
      · split at h
        · simp at h; simp [← h]
        · simp at h
      · cases hw : wellKnownCommunity s.toLower with
        | some v => simp only [hw] at h ⊢; simp at h; simp [h]
        | none =>
            simp only [hw] at h ⊢
            split at h
            · simp at h; simp [← h]
            · simp at h

theorem mapM_mem {α β} (f : α → Option β) : ∀ (l : List α) (rs : List β), l.mapM f = some rs → ∀ a ∈ l, ∃ b ∈ rs, f a = some b
  | [], rs, h, a, ha => by simp at ha
  | x :: r, rs, h, a, ha => by
      simp only [List.mapM_cons] at h
      cases hx : f x with
      | none => simp [hx] at h
      | some b =>
          cases hr : List.mapM f r with
          | none => simp [hx, hr] at h
          | some bs =>
              simp [hx, hr] at h
              subst h
              simp only [List.mem_cons] at ha
              rcases ha with rfl | ha
              · exact ⟨b, by simp, hx⟩
              · obtain ⟨b', hb', hf⟩ := mapM_mem f r bs hr a ha
                exact ⟨b', by simp [hb'], hf⟩

/-! ## defined sets -/

theorem mem_filterMap_pfx {es : List Elem} {p : PEntry} (h : Elem.pfx p ∈ es) : p ∈ es.filterMap Elem.pfx? := by
  simp only [List.mem_filterMap]; exact ⟨_, h, rfl⟩
theorem mem_filterMap_nbr {es : List Elem} {a : Addr} {m : Nat} (h : Elem.nbr a m ∈ es) : (a, m) ∈ es.filterMap Elem.nbr? := by
  simp only [List.mem_filterMap]; exact ⟨_, h, rfl⟩
theorem mem_filterMap_single {es : List Elem} {x : Single} (h : Elem.single x ∈ es) : x ∈ es.filterMap Elem.single? := by
  simp only [List.mem_filterMap]; exact ⟨_, h, rfl⟩
theorem mem_filterMap_pat {es : List Elem} {x : String} (h : Elem.pat x ∈ es) : x ∈ es.filterMap Elem.pat? := by
  simp only [List.mem_filterMap]; exact ⟨_, h, rfl⟩

theorem optOr_some_eq {α} (a b : Option α) (h : a.isSome = true) : optOr a b = a := by
  cases a with
  | none => cases h
  | some x => rfl

/-- what a stored set must contain for the parsed request `new` to count as stored -/
def covers (_k : SetKind) (new obj : SetObj) : Prop :=
  match new, obj with
  | .prefix ns nz nz6, .prefix l z z6 => (∀ p ∈ ns, p ∈ l) ∧ (nz.isSome → z = nz) ∧ (nz6.isSome → z6 = nz6)
  | .neighbor n, .neighbor l => ∀ x ∈ n, x ∈ l
  | .aspath ns nr, .aspath s r => (∀ x ∈ ns, x ∈ s) ∧ (∀ x ∈ nr, x ∈ r)
  | .strs n, .strs l => ∀ x ∈ n, x ∈ l
  | _, _ => False

theorem parse_stored (env : RegexEnv) (k : SetKind) (es : List Elem) (new obj : SetObj)
    (hp : parseElems env k es = some new) (hc : covers k new obj) : es.all (Spec.elemStored k obj) = true := by
  simp only [List.all_eq_true]
  intro e he
  replace hp := parseElems_some hp
  cases k <;> simp only [parseElems0] at hp
  · -- prefix
    split at hp
    · rename_i zero zero6 hz hz6
      simp at hp; subst hp
      cases e with
      | pfx p => ?_
      | _ => simp [Spec.elemStored]
      cases obj with
      | «prefix» l z z6 => ?_
      | _ => exact hc.elim
      simp only [covers] at hc
      simp only [Spec.elemStored]
      have hpm := mem_filterMap_pfx he
      by_cases h0 : (p.addr.val == 0 && p.mask == 0) = true
      · simp only [h0, if_true]
        simp only [Bool.and_eq_true, beq_iff_eq] at h0
        cases hv : p.addr.v6
        · have hmem : p ∈ (es.filterMap Elem.pfx?).filter PEntry.isZero4 := by
            simp [List.mem_filter, hpm, PEntry.isZero4, hv, h0.1, h0.2]
          have := zeroRange_mem _ _ hz p hmem
          subst this
          simp [hc.2.1 rfl]
        · have hmem : p ∈ (es.filterMap Elem.pfx?).filter PEntry.isZero6 := by
            simp [List.mem_filter, hpm, PEntry.isZero6, hv, h0.1, h0.2]
          have := zeroRange_mem _ _ hz6 p hmem
          subst this
          simp [hc.2.2 rfl]
      · have h0' : (p.addr.val == 0 && p.mask == 0) = false := by simpa using h0
        simp only [h0', Bool.false_eq_true, if_false, List.contains_iff_mem]
        apply hc.1
        simp only [List.mem_filter, hpm, true_and, Bool.and_eq_true, Bool.not_eq_true', PEntry.isZero4, PEntry.isZero6]
        simp only [Bool.and_eq_false_iff] at h0' ⊢
        rcases h0' with h | h
        · exact ⟨Or.inl (Or.inr h), Or.inl (Or.inr h)⟩
        · exact ⟨Or.inr h, Or.inr h⟩
    · simp at hp
  · -- neighbor
    simp at hp; subst hp
    cases e with
    | nbr a m => ?_
    | _ => simp [Spec.elemStored]
    cases obj with
    | neighbor l => ?_
    | _ => exact hc.elim
    simp only [covers] at hc
    simp only [Spec.elemStored, List.contains_iff_mem]
    exact hc _ (mem_filterMap_nbr he)
  · -- aspath
    split at hp
    · simp at hp; subst hp
      cases obj with
      | aspath ss rs => ?_
      | _ => exact hc.elim
      simp only [covers] at hc
      cases e with
      | single x => simp only [Spec.elemStored, List.contains_iff_mem]; exact hc.1 _ (mem_filterMap_single he)
      | pat x => simp only [Spec.elemStored, List.contains_iff_mem]; exact hc.2 _ (mem_filterMap_pat he)
      | _ => simp [Spec.elemStored]
    · simp at hp
  · -- comm
    cases hm : List.mapM (parseCommunity env) (es.filterMap Elem.pat?) with
    | none => simp [hm] at hp
    | some rs =>
        simp [hm] at hp; subst hp
        cases obj with
        | strs l => ?_
        | _ => exact hc.elim
        simp only [covers] at hc
        cases e with
        | pat s =>
            obtain ⟨r, hr, hf⟩ := mapM_mem _ _ _ hm s (mem_filterMap_pat he)
            simp only [Spec.elemStored, List.any_eq_true, List.contains_iff_mem]
            exact ⟨r, parseCommunity_forms env s r hf, hc r hr⟩
        | _ => simp [Spec.elemStored]
  · split at hp
    · simp at hp; subst hp
      cases obj with
      | strs l => ?_
      | _ => exact hc.elim
      simp only [covers] at hc
      cases e with
      | pat s => simp only [Spec.elemStored, List.contains_iff_mem]; exact hc _ (mem_filterMap_pat he)
      | _ => simp [Spec.elemStored]
    · simp at hp
  · split at hp
    · simp at hp; subst hp
      cases obj with
      | strs l => ?_
      | _ => exact hc.elim
      simp only [covers] at hc
      cases e with
      | pat s => simp only [Spec.elemStored, List.contains_iff_mem]; exact hc _ (mem_filterMap_pat he)
      | _ => simp [Spec.elemStored]
    · simp at hp

theorem fresh_covers (k : SetKind) (new f : SetObj) (hs : shapeOk ar k new = true) (h : new.fresh = some f) : covers k new f := by
  cases new with
  | «prefix» ns z z6 =>
      simp only [SetObj.fresh, Option.map_eq_some_iff] at h
      obtain ⟨l, hl, rfl⟩ := h
      exact ⟨(foldl_pInsertC_mem ns [] l hl).2, fun _ => rfl, fun _ => rfl⟩
  | neighbor n => simp [SetObj.fresh] at h; subst h; exact fun _ h => h
  | aspath a b => simp [SetObj.fresh] at h; subst h; exact ⟨fun _ h => h, fun _ h => h⟩
  | strs n => simp [SetObj.fresh] at h; subst h; exact fun _ h => h

theorem merge_covers (k : SetKind) (ex new m : SetObj) (h1 : shapeOk ar k ex = true) (h2 : shapeOk ar k new = true)
    (h : ex.merge new = some m) : covers k new m := by
  cases k <;> cases ex <;> cases new <;> simp [shapeOk] at h1 h2 <;> simp only [SetObj.merge] at h
  · split at h
    · simp at h
    · rename_i l hl
      split at h
      · simp at h
      · simp at h; subst h
        exact ⟨(foldl_pInsertC_mem _ _ l hl).2, fun hz => optOr_some_eq _ _ hz, fun hz => optOr_some_eq _ _ hz⟩
  · simp at h; subst h; exact fun x hx => List.mem_append_right _ hx
  · simp at h; subst h; exact ⟨fun x hx => List.mem_append_right _ hx, fun x hx => List.mem_append_right _ hx⟩
  · simp at h; subst h; exact fun x hx => List.mem_append_right _ hx
  · simp at h; subst h; exact fun x hx => List.mem_append_right _ hx
  · simp at h; subst h; exact fun x hx => List.mem_append_right _ hx

/-! ## a replace leaves nothing of the old contents -/

theorem mem_pInsert_sub (e x : PEntry) : ∀ (l : List PEntry), x ∈ pInsert e l → x = e ∨ x ∈ l
  | [], h => by simp [pInsert] at h; exact Or.inl h
  | y :: r, h => by
      simp only [pInsert] at h
      split at h
      · simp at h; rcases h with h | h
        · exact Or.inl h
        · exact Or.inr (List.mem_cons_of_mem _ h)
      · split at h
        · simp at h; rcases h with h | h | h
          · exact Or.inl h
          · exact Or.inr (by simp [h])
          · exact Or.inr (List.mem_cons_of_mem _ h)
        · simp at h; rcases h with h | h
          · exact Or.inr (by simp [h])
          · rcases mem_pInsert_sub e x r h with h | h
            · exact Or.inl h
            · exact Or.inr (List.mem_cons_of_mem _ h)

theorem foldl_pInsertC_sub : ∀ (ns l0 l : List PEntry), ns.foldl pInsertC (some l0) = some l → ∀ x ∈ l, x ∈ l0 ∨ x ∈ ns
  | [], l0, l, h, x, hx => by simp at h; subst h; exact Or.inl hx
  | e :: r, l0, l, h, x, hx => by
      simp only [List.foldl] at h
      cases hs : pInsertC (some l0) e with
      | none => rw [hs, foldl_pInsertC_none] at h; cases h
      | some l1 =>
          rw [hs] at h
          obtain ⟨l0', h0, h1, _⟩ := pInsertC_some hs
          cases h0
          subst h1
          rcases foldl_pInsertC_sub r _ l h x hx with h' | h'
          · rcases mem_pInsert_sub e x l0 h' with h'' | h''
            · exact Or.inr (by simp [h''])
            · exact Or.inl h''
          · exact Or.inr (by simp [h'])

theorem zeroRange_some : ∀ (l : List PEntry) (r : Nat × Nat), zeroRange l = some (some r) → ∃ p ∈ l, p.lo = r.1 ∧ p.hi = r.2
  | [], r, h => by simp [zeroRange] at h
  | e :: rest, r, h => by
      simp only [zeroRange] at h
      split at h
      · simp at h; subst h; exact ⟨e, by simp, rfl, rfl⟩
      · simp at h

theorem mapM_mem_rev {α β} (f : α → Option β) : ∀ (l : List α) (rs : List β), l.mapM f = some rs → ∀ b ∈ rs, ∃ a ∈ l, f a = some b
  | [], rs, h, b, hb => by simp at h; subst h; simp at hb
  | x :: r, rs, h, b, hb => by
      simp only [List.mapM_cons] at h
      cases hx : f x with
      | none => simp [hx] at h
      | some y =>
          cases hr : List.mapM f r with
          | none => simp [hx, hr] at h
          | some bs =>
              simp [hx, hr] at h
              subst h
              simp only [List.mem_cons] at hb
              rcases hb with rfl | hb
              · exact ⟨x, by simp, hx⟩
              · obtain ⟨a, ha, hf⟩ := mapM_mem_rev f r bs hr b hb
                exact ⟨a, by simp [ha], hf⟩

theorem pfx_of_filterMap {es : List Elem} {p : PEntry} (h : p ∈ es.filterMap Elem.pfx?) : Elem.pfx p ∈ es := by
  simp only [List.mem_filterMap] at h
  obtain ⟨e, he, hp⟩ := h
  cases e <;> simp [Elem.pfx?] at hp
  subst hp; exact he
theorem nbr_of_filterMap {es : List Elem} {x : Addr × Nat} (h : x ∈ es.filterMap Elem.nbr?) : Elem.nbr x.1 x.2 ∈ es := by
  simp only [List.mem_filterMap] at h
  obtain ⟨e, he, hp⟩ := h
  cases e <;> simp [Elem.nbr?] at hp
  subst hp; exact he
theorem single_of_filterMap {es : List Elem} {x : Single} (h : x ∈ es.filterMap Elem.single?) : Elem.single x ∈ es := by
  simp only [List.mem_filterMap] at h
  obtain ⟨e, he, hp⟩ := h
  cases e <;> simp [Elem.single?] at hp
  subst hp; exact he
theorem pat_of_filterMap {es : List Elem} {x : String} (h : x ∈ es.filterMap Elem.pat?) : Elem.pat x ∈ es := by
  simp only [List.mem_filterMap] at h
  obtain ⟨e, he, hp⟩ := h
  cases e <;> simp [Elem.pat?] at hp
  subst hp; exact he

theorem zero_requested (es : List Elem) (v6 : Bool) (l : List PEntry) (hl : ∀ p ∈ l, Elem.pfx p ∈ es ∧ p.addr.v6 = v6 ∧ p.addr.val = 0 ∧ p.mask = 0)
    (z : Option (Nat × Nat)) (hz : zeroRange l = some z) : (z.all fun r => es.any (Spec.isZeroReq v6 r)) = true := by
  cases z with
  | none => rfl
  | some r =>
      obtain ⟨p, hp, h1, h2⟩ := zeroRange_some l r hz
      obtain ⟨he, hv, h0, hm⟩ := hl p hp
      simp only [Option.all_some, List.any_eq_true]
      exact ⟨_, he, by simp [Spec.isZeroReq, hv, h0, hm, h1, h2]⟩

/-- a set created from a request holds nothing but what was asked for -/
theorem parse_only (env : RegexEnv) (k : SetKind) (es : List Elem) (new f : SetObj)
    (hp : parseElems env k es = some new) (hf : new.fresh = some f) : Spec.onlyRequested k es f = true := by
  replace hp := parseElems_some hp
  cases k <;> simp only [parseElems0] at hp
  · split at hp
    · rename_i zero zero6 hz hz6
      simp at hp; subst hp
      simp only [SetObj.fresh, Option.map_eq_some_iff] at hf
      obtain ⟨l, hl, rfl⟩ := hf
      simp only [Spec.onlyRequested, Bool.and_eq_true, List.all_eq_true, List.contains_iff_mem]
      refine ⟨⟨?_, ?_⟩, ?_⟩
      · intro p hp
        rcases foldl_pInsertC_sub _ [] l hl p hp with h | h
        · simp at h
        · exact pfx_of_filterMap (List.mem_filter.1 h).1
      · refine zero_requested es false _ ?_ zero hz
        intro p hp
        have := List.mem_filter.1 hp
        have h2 := this.2
        simp only [PEntry.isZero4, Bool.and_eq_true, Bool.not_eq_true', beq_iff_eq] at h2
        exact ⟨pfx_of_filterMap this.1, h2.1.1, h2.1.2, h2.2⟩
      · refine zero_requested es true _ ?_ zero6 hz6
        intro p hp
        have := List.mem_filter.1 hp
        have h2 := this.2
        simp only [PEntry.isZero6, Bool.and_eq_true, beq_iff_eq] at h2
        exact ⟨pfx_of_filterMap this.1, h2.1.1, h2.1.2, h2.2⟩
    · simp at hp
  · simp at hp; subst hp
    simp [SetObj.fresh] at hf; subst hf
    simp only [Spec.onlyRequested, List.all_eq_true, List.contains_iff_mem]
    intro x hx; exact nbr_of_filterMap hx
  · split at hp
    · simp at hp; subst hp
      simp [SetObj.fresh] at hf; subst hf
      simp only [Spec.onlyRequested, Bool.and_eq_true, List.all_eq_true, List.contains_iff_mem]
      exact ⟨fun x hx => single_of_filterMap hx, fun x hx => pat_of_filterMap hx⟩
    · simp at hp
  · cases hm : List.mapM (parseCommunity env) (es.filterMap Elem.pat?) with
    | none => simp [hm] at hp
    | some rs =>
        simp [hm] at hp; subst hp
        simp [SetObj.fresh] at hf; subst hf
        simp only [Spec.onlyRequested, List.all_eq_true, List.any_eq_true]
        intro r hr
        obtain ⟨x, hx, hfx⟩ := mapM_mem_rev _ _ _ hm r hr
        refine ⟨_, pat_of_filterMap hx, ?_⟩
        simp only [List.contains_iff_mem]
        exact parseCommunity_forms env x r hfx
  · split at hp
    · simp at hp; subst hp
      simp [SetObj.fresh] at hf; subst hf
      simp only [Spec.onlyRequested, List.all_eq_true, List.contains_iff_mem]
      intro x hx; exact pat_of_filterMap hx
    · simp at hp
  · split at hp
    · simp at hp; subst hp
      simp [SetObj.fresh] at hf; subst hf
      simp only [Spec.onlyRequested, List.all_eq_true, List.contains_iff_mem]
      intro x hx; exact pat_of_filterMap hx
    · simp at hp

theorem addDefinedSet_fresh_only (env : RegexEnv) {t : Table} (k : SetKind) (name : String) (es : List Elem)
    (hl : alLookup (k, name) t.sets = none) (hok : (t.addDefinedSet env k name es).2 = .ok) :
    ∃ obj, alLookup (k, name) (t.addDefinedSet env k name es).1.sets = some obj ∧ Spec.onlyRequested k es obj = true := by
  cases hp : parseElems env k es with
  | none => simp [Table.addDefinedSet, hp] at hok
  | some new =>
      by_cases he : new.isEmpty = true
      · simp [Table.addDefinedSet, hp, hl, he] at hok
      · cases hf : new.fresh with
        | none => simp [Table.addDefinedSet, hp, hl, he, hf] at hok
        | some f =>
            exact ⟨f, by simp [Table.addDefinedSet, hp, hl, he, hf, alLookup_insert_self], parse_only env k es new f hp hf⟩

/-- after a successful `add_defined_set`, every requested element is a member of the stored set -/
theorem addDefinedSet_stored (env : RegexEnv) {t : Table} (hsh : ∀ e ∈ t.sets, shapeOk true e.1.1 e.2 = true)
    (k : SetKind) (name : String) (es : List Elem) (hok : (t.addDefinedSet env k name es).2 = .ok) :
    ∃ obj, alLookup (k, name) (t.addDefinedSet env k name es).1.sets = some obj ∧ es.all (Spec.elemStored k obj) = true := by
  cases hp : parseElems env k es with
  | none => simp [Table.addDefinedSet, hp] at hok
  | some new =>
      have hns := parseElems_shape (ar := true) env k es new (Or.inl rfl) hp
      cases hl : alLookup (k, name) t.sets with
      | none =>
          by_cases he : new.isEmpty = true
          · simp [Table.addDefinedSet, hp, hl, he] at hok
          · cases hf : new.fresh with
            | none => simp [Table.addDefinedSet, hp, hl, he, hf] at hok
            | some f =>
                refine ⟨f, by simp [Table.addDefinedSet, hp, hl, he, hf, alLookup_insert_self], ?_⟩
                exact parse_stored env k es new f hp (fresh_covers k new f hns hf)
      | some ex =>
          by_cases hu : setInUse t k name = true
          · simp [Table.addDefinedSet, hp, hl, hu] at hok
          · have hu' : setInUse t k name = false := by simpa using hu
            cases hm : ex.merge new with
            | none => simp [Table.addDefinedSet, hp, hl, hu', hm] at hok
            | some m =>
                refine ⟨m, by simp [Table.addDefinedSet, hp, hl, hu', hm, alLookup_insert_self], ?_⟩
                exact parse_stored env k es new m hp (merge_covers k ex new m (hsh _ (alLookup_mem hl)) hns hm)

/-! ## statements, policies, assignments -/

theorem resolveConds_cfg (t : Table) : ∀ (cfgs : List CondCfg) (v : List Cond), resolveConds t cfgs = some v → v.map Cond.cfg = cfgs
  | [], v, h => by simp [resolveConds] at h; subst h; rfl
  | .plain p :: r, v, h => by
      simp only [resolveConds, Option.map_eq_some_iff] at h
      obtain ⟨cs, hcs, rfl⟩ := h
      simp [Cond.cfg, resolveConds_cfg t r cs hcs]
  | .set k name o :: r, v, h => by
      simp only [resolveConds] at h
      split at h
      · simp at h
      · cases hl : alLookup (k, name) t.sets with
        | none => simp [hl] at h
        | some snap =>
            simp only [hl, Option.map_eq_some_iff] at h
            obtain ⟨cs, hcs, rfl⟩ := h
            simp [Cond.cfg, resolveConds_cfg t r cs hcs]

theorem mergeConds_sub : ∀ (cur new cs : List Cond), mergeConds cur new = some cs → (∀ c ∈ cur, c ∈ cs) ∧ (∀ c ∈ new, c ∈ cs)
  | cur, [], cs, h => by simp [mergeConds] at h; subst h; exact ⟨fun _ h => h, by simp⟩
  | cur, x :: r, cs, h => by
      simp only [mergeConds] at h
      split at h
      · simp at h
      · have ih := mergeConds_sub (cur ++ [x]) r cs h
        refine ⟨fun c hc => ih.1 c (by simp [hc]), ?_⟩
        intro c hc
        simp only [List.mem_cons] at hc
        rcases hc with rfl | hc
        · exact ih.1 _ (by simp)
        · exact ih.2 c hc

theorem actsStored_self (a : Actions) : Spec.actsStored a a = true := by
  simp [Spec.actsStored]

theorem actsStored_union (old new : Actions) : Spec.actsStored new (old.union new) = true := by
  simp only [Spec.actsStored, Actions.union]
  cases new.nexthop <;> cases new.community <;> cases new.localPref <;> cases new.med <;> cases new.asPrepend <;>
    cases new.ext <;> cases new.large <;> cases new.origin <;> simp [optOr]

theorem addStatement_stored {t : Table} (name : String) (cs : List CondCfg) (d : Option Disp) (a : Actions)
    (hok : (t.addStatement name cs d a).2 = .ok) :
    ∃ st, alLookup name (t.addStatement name cs d a).1.stmts = some st ∧
      (∀ c ∈ cs, c ∈ st.conds.map Cond.cfg) ∧ (d.isSome → st.disp = d) ∧ Spec.actsStored a st.acts = true := by
  cases hr : resolveConds t cs with
  | none => simp [Table.addStatement, hr] at hok
  | some v =>
      have hv := resolveConds_cfg t cs v hr
      cases hl : alLookup name t.stmts with
      | none =>
          refine ⟨⟨name, v, d, a⟩, by simp [Table.addStatement, hr, hl, alLookup_insert_self], ?_, fun _ => rfl, actsStored_self a⟩
          intro c hc; simp only [hv]; exact hc
      | some ex =>
          by_cases hu : stmtInUse t name = true
          · simp [Table.addStatement, hr, hl, hu] at hok
          · have hu' : stmtInUse t name = false := by simpa using hu
            cases hm : mergeConds ex.conds v with
            | none => simp [Table.addStatement, hr, hl, hu', hm] at hok
            | some cs' =>
                by_cases h1 : (d.isSome && ex.disp.isSome) = true
                · simp only [Table.addStatement, hr, hl, hu', hm, h1] at hok; simp at hok
                · by_cases h2 : ex.acts.conflicts a = true
                  · simp only [Table.addStatement, hr, hl, hu', hm, h1, h2] at hok; simp at hok
                  · refine ⟨Stmt.mk ex.name cs' (optOr d ex.disp) (ex.acts.union a), ?_, ?_, ?_, actsStored_union _ _⟩
                    · simp only [Table.addStatement, hr, hl, hu', hm, h1, h2]; simp [alLookup_insert_self]
                    · intro c hc
                      rw [← hv] at hc
                      simp only [List.mem_map] at hc ⊢
                      obtain ⟨x, hx, rfl⟩ := hc
                      exact ⟨x, (mergeConds_sub _ _ _ hm).2 x hx, rfl⟩
                    · intro hd; exact optOr_some_eq _ _ hd

theorem resolveStmts_names {t : Table} (hi : Inv ar t) : ∀ (names : List String) (v : List Stmt),
    resolveStmts t names = some v → v.map (·.name) = names
  | [], v, h => by simp [resolveStmts] at h; subst h; rfl
  | n :: r, v, h => by
      simp only [resolveStmts] at h
      cases hl : alLookup n t.stmts with
      | none => simp [hl] at h
      | some s0 =>
          simp only [hl, Option.map_eq_some_iff] at h
          obtain ⟨ss, hss, rfl⟩ := h
          have := (hi.stmts _ (alLookup_mem hl)).1
          simp only at this
          simp [this, resolveStmts_names hi r ss hss]

theorem resolvePols_names {t : Table} (hi : Inv ar t) : ∀ (names : List String) (v : List Policy),
    resolvePols t names = some v → v.map (·.name) = names
  | [], v, h => by simp [resolvePols] at h; subst h; rfl
  | n :: r, v, h => by
      simp only [resolvePols] at h
      cases hl : alLookup n t.pols with
      | none => simp [hl] at h
      | some p0 =>
          simp only [hl, Option.map_eq_some_iff] at h
          obtain ⟨ps, hps, rfl⟩ := h
          have := (hi.pols _ (alLookup_mem hl)).1
          simp only at this
          simp [this, resolvePols_names hi r ps hps]

theorem addPolicy_stored {t : Table} (hi : Inv ar t) (name : String) (ss : List String) (hok : (t.addPolicy name ss).2 = .ok) :
    ∃ p, alLookup name (t.addPolicy name ss).1.pols = some p ∧ ss.isSuffixOf (p.stmts.map (·.name)) = true := by
  cases hr : resolveStmts t ss with
  | none => simp [Table.addPolicy, hr] at hok
  | some v =>
      have hv := resolveStmts_names hi ss v hr
      cases hl : alLookup name t.pols with
      | none =>
          refine ⟨⟨name, v⟩, by simp [Table.addPolicy, hr, hl, alLookup_insert_self], ?_⟩
          simp only [hv, List.isSuffixOf_iff_suffix]; exact List.suffix_refl _
      | some ex =>
          by_cases hu : polInUse t name = true
          · simp [Table.addPolicy, hr, hl, hu] at hok
          · have hu' : polInUse t name = false := by simpa using hu
            refine ⟨Policy.mk ex.name (ex.stmts ++ v), by simp [Table.addPolicy, hr, hl, hu', alLookup_insert_self], ?_⟩
            simp only [List.map_append, hv, List.isSuffixOf_iff_suffix]
            exact List.suffix_append _ _

theorem buildAssignment_stored {t : Table} (hi : Inv ar t) (existing : Option Assign) (name : String) (d : Dir) (df : Disp)
    (ps : List String) (a : Assign) (h : buildAssignment t existing name d df ps = some a) :
    a.name = name ∧ a.dflt = df ∧ ps.isPrefixOf (a.pols.map (·.name)) = true ∧ (existing = none → a.pols.map (·.name) = ps) := by
  simp only [buildAssignment] at h
  cases hr : resolvePols t ps with
  | none => simp [hr] at h
  | some v =>
      have hv := resolvePols_names hi ps v hr
      simp only [hr] at h
      split at h
      · simp at h
      · cases existing with
        | none =>
            simp at h; subst h
            refine ⟨rfl, rfl, ?_, fun _ => hv⟩
            simp only [hv, List.isPrefixOf_iff_prefix]; exact List.prefix_refl _
        | some old =>
            simp only at h
            split at h
            · simp at h
            · simp at h; subst h
              refine ⟨rfl, rfl, ?_, fun h => by cases h⟩
              simp only [List.map_append, hv, List.isPrefixOf_iff_prefix]
              exact List.prefix_append _ _

theorem slot_setSlot (t : Table) (d : Dir) (a : Option Assign) : (t.setSlot d a).slot d = a := by
  cases d <;> rfl

theorem dump_slot_eq (t : Table) (d : Dir) : Spec.slotOf t.dump d = (t.slot d).map Assign.dump := by
  cases d <;> rfl

/-- after a successful call of the model everything that was asked for is listed -/
theorem requestStored_ok (env : RegexEnv) {t : Table} (hi : Inv ar t) (op : Op) (hi' : Inv ar (t.step env op).1) :
    Spec.requestStored op (t.step env op).2 (t.step env op).1.dump = true := by
  have hsh : ∀ {t0 : Table}, Inv ar t0 → ∀ e ∈ t0.sets, shapeOk true e.1.1 e.2 = true := by
    intro t0 h0 e he
    have := h0.sets e he
    revert this
    cases e.1.1 <;> cases e.2 <;> simp [shapeOk]
  cases op with
  | setAdd k n es =>
      simp only [Table.step, Spec.requestStored] at hi' ⊢
      cases hr : (t.addDefinedSet env k n es).2 <;> try rfl
      obtain ⟨obj, hl, hall⟩ := addDefinedSet_stored env (hsh hi) k n es hr
      simp only [lookupSet_dump, hl, hall]
  | setReplace k n es =>
      simp only [Table.step, Spec.requestStored] at hi' ⊢
      cases hr : (t.replaceDefinedSet env k n es).2 <;> try rfl
      by_cases hu : setInUse t k n = true
      · simp [Table.replaceDefinedSet, hu] at hr
      · have hu' : setInUse t k n = false := by simpa using hu
        have e : t.replaceDefinedSet env k n es =
            Table.addDefinedSet env { t with sets := alErase (k, n) t.sets } k n es := by
          simp [Table.replaceDefinedSet, hu']
        rw [e] at hr ⊢
        obtain ⟨obj, hl, hall⟩ := addDefinedSet_stored env (hsh (hi.eraseSet k n hu')) k n es hr
        obtain ⟨obj', hl', honly⟩ := addDefinedSet_fresh_only env (t := { t with sets := alErase (k, n) t.sets }) k n es
          (alLookup_erase_self _ _) hr
        rw [hl] at hl'
        cases hl'
        simp only [lookupSet_dump, hl, hall, honly, Bool.and_self]
  | stmtAdd n cs d a =>
      simp only [Table.step, Spec.requestStored] at hi' ⊢
      cases hr : (t.addStatement n cs d a).2 <;> try rfl
      obtain ⟨st, hl, h1, h2, h3⟩ := addStatement_stored n cs d a hr
      simp only [lookupStmt_dump hi', hl, Option.map_some, Stmt.dump, h3, Bool.and_true, Bool.and_eq_true,
        List.all_eq_true, List.contains_iff_mem]
      refine ⟨fun c hc => h1 c hc, ?_⟩
      cases d with
      | none => rfl
      | some x => simp [h2 rfl]
  | polAdd n ss =>
      simp only [Table.step, Spec.requestStored] at hi' ⊢
      cases hr : (t.addPolicy n ss).2 <;> try rfl
      obtain ⟨p, hl, h1⟩ := addPolicy_stored hi n ss hr
      simp only [lookupPol_dump hi', hl, Option.map_some, Policy.dump, h1]
  | asgAdd d n df ps =>
      simp only [Table.step, Spec.requestStored]
      cases hr : (t.addAssignment d n df ps).2 <;> try rfl
      dsimp only
      rw [dump_slot_eq]
      simp only [Table.addAssignment] at hr ⊢
      cases hb : buildAssignment t (t.slot d) n d df ps with
      | none => simp [hb] at hr
      | some a =>
          have hs := buildAssignment_stored hi _ n d df ps a hb
          simp only [slot_setSlot, Option.map_some, Assign.dump, hs.1, hs.2.1, hs.2.2.1, beq_self_eq_true, Bool.and_self]
  | asgSet d n df ps =>
      simp only [Table.step, Spec.requestStored]
      cases hr : (t.setAssignment d n df ps).2 <;> try rfl
      dsimp only
      rw [dump_slot_eq]
      simp only [Table.setAssignment] at hr ⊢
      cases hb : buildAssignment t none n d df ps with
      | none => simp [hb] at hr
      | some a =>
          have hs := buildAssignment_stored hi none n d df ps a hb
          simp only [slot_setSlot, Option.map_some, Assign.dump, hs.1, hs.2.1, hs.2.2.2 rfl, beq_self_eq_true, Bool.and_self]
  | setDel k n all es => cases hr : (t.step env (.setDel k n all es)).2 <;> rfl
  | stmtDel n all c d a => cases hr : (t.step env (.stmtDel n all c d a)).2 <;> rfl
  | polDel n pr all s => cases hr : (t.step env (.polDel n pr all s)).2 <;> rfl
  | asgDel d all p => cases hr : (t.step env (.asgDel d all p)).2 <;> rfl

/-! ## no stale object -/

theorem zipAll_map {γ α β} (f : α → β → Bool) (g : γ → α) (h : γ → β) : ∀ (l : List γ),
    Spec.zipAll f (l.map g) (l.map h) = l.all (fun x => f (g x) (h x))
  | [] => rfl
  | x :: r => by simp [Spec.zipAll, zipAll_map f g h r]

theorem heldSets_closed {t : Table} : ∀ (cs : List Cond), (∀ c ∈ cs, condClosed t c) →
    Spec.mapOpt (fun k => Spec.lookupSet t.dump k.1 k.2)
      ((cs.map Cond.cfg).filterMap (fun c => match c with | .set k n _ => some (k, n) | _ => none))
      = some (cs.filterMap Cond.snap?)
  | [], _ => rfl
  | c :: r, h => by
      have ih := heldSets_closed r (fun c hc => h c (by simp [hc]))
      have hc := h c (by simp)
      cases c with
      | plain p => simpa [Cond.cfg, Cond.snap?, List.filterMap] using ih
      | set k n o snap =>
          simp only [condClosed] at hc
          have hk : Spec.lookupSet t.dump k n = some snap := by rw [lookupSet_dump]; exact hc
          simp only [List.map_cons, Cond.cfg, List.filterMap_cons, Cond.snap?, Spec.mapOpt, hk, ih]

theorem expectedHeldSets_ok {t : Table} (s : Stmt) (h : ∀ c ∈ s.conds, condClosed t c) :
    Spec.expectedHeldSets t.dump s.dump = some s.held := by
  simp only [Spec.expectedHeldSets, Spec.setRefs, Stmt.dump, Stmt.held]
  exact heldSets_closed s.conds h

theorem expectedHeldStmts_ok {t : Table} (hi : Inv ar t) : ∀ (ss : List Stmt), (∀ s ∈ ss, alLookup s.name t.stmts = some s) →
    Spec.mapOpt (Spec.heldStmtOf t.dump) (ss.map (·.name)) = some (ss.map (fun s => (s.dump, s.held)))
  | [], _ => rfl
  | s :: r, h => by
      have ih := expectedHeldStmts_ok hi r (fun s hs => h s (by simp [hs]))
      have hl := h s (by simp)
      have hc := expectedHeldSets_ok s (fun c hc => ((hi.stmts _ (alLookup_mem hl)).2 c hc).1)
      have hh : Spec.heldStmtOf t.dump s.name = some (s.dump, s.held) := by
        simp only [Spec.heldStmtOf, lookupStmt_dump hi, hl, Option.map_some, hc]
      simp only [List.map_cons, Spec.mapOpt, hh, ih]

theorem heldCurrent_ok {t : Table} (hi : Inv ar t) : Spec.heldCurrent t.dump = true := by
  have e1 : t.dump.stmts = t.stmts.map (fun s => s.2.dump) := rfl
  have e2 : t.dump.heldSets = t.stmts.map (fun s => s.2.held) := rfl
  have e3 : t.dump.pols = t.pols.map (fun p => p.2.dump) := rfl
  have e4 : t.dump.heldStmts = t.pols.map (fun p => p.2.stmts.map (fun s => (s.dump, s.held))) := rfl
  simp only [Spec.heldCurrent, Bool.and_eq_true, e1, e2, e3, e4, zipAll_map, List.all_eq_true]
  constructor
  · intro e he
    have := expectedHeldSets_ok (t := t) e.2 (fun c hc => ((hi.stmts e he).2 c hc).1)
    simp [this]
  · intro e he
    have := expectedHeldStmts_ok hi e.2.stmts (hi.pols e he).2
    simp only [Spec.expectedHeldStmts, Policy.dump]
    simp [this]

/-! ## the run -/

/-! ### well-known community names (`parse_community`: `to_lowercase` + table look-up) -/

/-- ASCII lowering maps a digit to itself -/
theorem toLower_digit (c : Char) (h : c.isDigit = true) : c.toLower = c := by
  simp only [Char.isDigit, Bool.and_eq_true, decide_eq_true_eq] at h
  unfold Char.toLower
  have h9 : ¬ (c.val ≥ 'A'.val ∧ c.val ≤ 'Z'.val) := by
    intro ⟨ha, _⟩
    have h1 := h.2
    have : ('9'.val : UInt32) < 'A'.val := by decide
    exact absurd (UInt32.le_trans ha h1) (by exact UInt32.not_le.mpr this)
  rw [dif_neg h9]

/-- a string whose lower-cased form has no digit has no digit -/
theorem noDigit_of_lower (l : List Char) (h : (l.map Char.toLower).all (fun c => !c.isDigit) = true) :
    l.all (fun c => !c.isDigit) = true := by
  induction l with
  | nil => rfl
  | cons c r ih =>
      simp only [List.map_cons, List.all_cons, Bool.and_eq_true] at h ⊢
      refine ⟨?_, ih h.2⟩
      cases hd : c.isDigit
      · rfl
      · have := toLower_digit c hd
        rw [this, hd] at h
        simp at h

theorem hasDCD_noDigit : ∀ (l : List Char), l.all (fun c => !c.isDigit) = true → hasDigitColonDigit l = false
  | [], _ => rfl
  | [_], _ => rfl
  | [_, _], _ => rfl
  | a :: b :: c :: r, h => by
      simp only [List.all_cons, Bool.and_eq_true, Bool.not_eq_true'] at h
      simp only [hasDigitColonDigit, h.1, Bool.false_and, Bool.false_or]
      exact hasDCD_noDigit (b :: c :: r) (by simp only [List.all_cons, h.2.1, h.2.2.1, h.2.2.2, Bool.not_false, Bool.and_self])

theorem decimal_noDigit (s : String) (h : s.toList.all (fun c => !c.isDigit) = true) : decimalU32? s = none := by
  unfold decimalU32?
  simp only
  split
  · rename_i r hr
    -- s = '+' :: r
    have hr' : r.all (fun c => !c.isDigit) = true := by
      rw [hr] at h; simp only [List.all_cons, Bool.and_eq_true] at h; exact h.2
    cases r with
    | nil => simp
    | cons c r' =>
        simp only [List.all_cons, Bool.and_eq_true, Bool.not_eq_true'] at hr'
        simp [hr'.1]
  · cases hs : s.toList with
    | nil =>
        have : s = "" := by
          have := congrArg String.ofList hs
          simpa using this
        simp [this]
    | cons c r' =>
        rw [hs] at h
        simp only [List.all_cons, Bool.and_eq_true, Bool.not_eq_true'] at h
        simp [h.1]

theorem wellKnown_noDigit (s : String) (v : Nat) (h : Spec.wellKnownValue s.toLower = some v) :
    s.toList.all (fun c => !c.isDigit) = true := by
  apply noDigit_of_lower
  have e : s.toList.map Char.toLower = s.toLower.toList := by simp [String.toLower]
  rw [e]
  unfold Spec.wellKnownValue at h
  repeat' split at h
  all_goals first
    | (rename_i hh; rw [hh]; decide)
    | cases h

/-- a well-known name is compiled to the pattern of the community it stands for, whatever its case -/
theorem parseCommunity_wellKnown (env : RegexEnv) (s : String) (v : Nat) (h : Spec.wellKnownValue s.toLower = some v) :
    parseCommunity env s = some s!"^{v / 65536}:{v % 65536}$" := by
  have hn := wellKnown_noDigit s v h
  simp only [parseCommunity, parseU32, decimal_noDigit s hn, hasDCD_noDigit _ hn, wellKnown_eq, h]
  simp

/-- the stored set holds, for every member given by a well-known name, the pattern of its value -/
def wkStored (obj : SetObj) (e : Elem) : Bool :=
  match e with
  | .pat s =>
      (match Spec.wellKnownValue s.toLower with
       | some v => (match obj with | .strs pats => pats.contains s!"^{v / 65536}:{v % 65536}$" | _ => false)
       | none => true)
  | _ => true

theorem parse_wkStored (env : RegexEnv) (es : List Elem) (new obj : SetObj)
    (hp : parseElems env .comm es = some new) (hc : covers .comm new obj) : es.all (wkStored obj) = true := by
  simp only [List.all_eq_true]
  intro e he
  replace hp := parseElems_some hp
  simp only [parseElems0] at hp
  cases hm : List.mapM (parseCommunity env) (es.filterMap Elem.pat?) with
  | none => simp [hm] at hp
  | some rs =>
      simp [hm] at hp; subst hp
      cases obj with
      | strs l => ?_
      | _ => exact hc.elim
      simp only [covers] at hc
      cases e with
      | pat s =>
          simp only [wkStored]
          cases hw : Spec.wellKnownValue s.toLower with
          | none => rfl
          | some v =>
              obtain ⟨r, hr, hf⟩ := mapM_mem _ _ _ hm s (mem_filterMap_pat he)
              rw [parseCommunity_wellKnown env s v hw] at hf
              cases hf
              simp only [List.contains_iff_mem]
              exact hc _ hr
      | _ => rfl

theorem addDefinedSet_wk (env : RegexEnv) {t : Table} (hsh : ∀ e ∈ t.sets, shapeOk true e.1.1 e.2 = true)
    (name : String) (es : List Elem) (hok : (t.addDefinedSet env .comm name es).2 = .ok) :
    ∃ obj, alLookup (SetKind.comm, name) (t.addDefinedSet env .comm name es).1.sets = some obj ∧ es.all (wkStored obj) = true := by
  cases hp : parseElems env .comm es with
  | none => simp [Table.addDefinedSet, hp] at hok
  | some new =>
      have hns := parseElems_shape (ar := true) env .comm es new (Or.inl rfl) hp
      cases hl : alLookup (SetKind.comm, name) t.sets with
      | none =>
          by_cases he : new.isEmpty = true
          · simp [Table.addDefinedSet, hp, hl, he] at hok
          · cases hf : new.fresh with
            | none => simp [Table.addDefinedSet, hp, hl, he, hf] at hok
            | some f =>
                refine ⟨f, by simp [Table.addDefinedSet, hp, hl, he, hf, alLookup_insert_self], ?_⟩
                exact parse_wkStored env es new f hp (fresh_covers .comm new f hns hf)
      | some ex =>
          by_cases hu : setInUse t .comm name = true
          · simp [Table.addDefinedSet, hp, hl, hu] at hok
          · have hu' : setInUse t .comm name = false := by simpa using hu
            cases hm : ex.merge new with
            | none => simp [Table.addDefinedSet, hp, hl, hu', hm] at hok
            | some m =>
                refine ⟨m, by simp [Table.addDefinedSet, hp, hl, hu', hm, alLookup_insert_self], ?_⟩
                exact parse_wkStored env es new m hp (merge_covers .comm ex new m (hsh _ (alLookup_mem hl)) hns hm)

theorem wkStored_all (es : List Elem) (n : String) (cur : Dump) (obj : SetObj)
    (hl : Spec.lookupSet cur .comm n = some obj) (h : es.all (wkStored obj) = true) :
    (es.all fun e =>
        match e with
        | .pat s =>
            (match Spec.wellKnownValue s.toLower with
             | some v =>
                 (match Spec.lookupSet cur .comm n with
                  | some (.strs pats) => pats.contains s!"^{v / 65536}:{v % 65536}$"
                  | _ => false)
             | none => true)
        | _ => true) = true := by
  simp only [List.all_eq_true] at h ⊢
  intro e he
  have := h e he
  cases e with
  | pat s =>
      simp only [wkStored] at this
      cases hw : Spec.wellKnownValue s.toLower with
      | none => simp only [hw]
      | some v =>
          simp only [hw] at this
          simp only [hw, hl]
          cases obj with
          | strs pats => exact this
          | _ => simp at this
  | _ => rfl

/-- the well-known-community clause holds for every call of the model -/
theorem wellKnownOk_ok (env : RegexEnv) {t : Table} (hi : Inv ar t) (op : Op) :
    Spec.wellKnownOk op (t.step env op).2 (t.step env op).1.dump = true := by
  have hsh : ∀ {t0 : Table}, Inv ar t0 → ∀ e ∈ t0.sets, shapeOk true e.1.1 e.2 = true := by
    intro t0 h0 e he
    have := h0.sets e he
    revert this
    cases e.1.1 <;> cases e.2 <;> simp [shapeOk]
  cases op with
  | setAdd k n es =>
      cases k <;> try (cases hr : (t.step env (.setAdd _ n es)).2 <;> rfl)
      simp only [Table.step, Spec.wellKnownOk]
      cases hr : (t.addDefinedSet env .comm n es).2 <;> try rfl
      obtain ⟨obj, hl, hall⟩ := addDefinedSet_wk env (hsh hi) n es hr
      exact wkStored_all es n _ obj (by simp only [lookupSet_dump, hl]) hall
  | setReplace k n es =>
      cases k <;> try (cases hr : (t.step env (.setReplace _ n es)).2 <;> rfl)
      simp only [Table.step, Spec.wellKnownOk]
      cases hr : (t.replaceDefinedSet env .comm n es).2 <;> try rfl
      by_cases hu : setInUse t .comm n = true
      · simp [Table.replaceDefinedSet, hu] at hr
      · have hu' : setInUse t .comm n = false := by simpa using hu
        have e : t.replaceDefinedSet env .comm n es =
            Table.addDefinedSet env { t with sets := alErase (SetKind.comm, n) t.sets } .comm n es := by
          simp [Table.replaceDefinedSet, hu']
        rw [e] at hr ⊢
        obtain ⟨obj, hl, hall⟩ := addDefinedSet_wk env (hsh (hi.eraseSet .comm n hu')) n es hr
        exact wkStored_all es n _ obj (by simp only [lookupSet_dump, hl]) hall
  | setDel k n all es => cases hr : (t.step env (.setDel k n all es)).2 <;> rfl
  | stmtAdd n cs d a => cases hr : (t.step env (.stmtAdd n cs d a)).2 <;> rfl
  | stmtDel n all c d a => cases hr : (t.step env (.stmtDel n all c d a)).2 <;> rfl
  | polAdd n ss => cases hr : (t.step env (.polAdd n ss)).2 <;> rfl
  | polDel n pr all s => cases hr : (t.step env (.polDel n pr all s)).2 <;> rfl
  | asgAdd d n df ps => cases hr : (t.step env (.asgAdd d n df ps)).2 <;> rfl
  | asgSet d n df ps => cases hr : (t.step env (.asgSet d n df ps)).2 <;> rfl
  | asgDel d all p => cases hr : (t.step env (.asgDel d all p)).2 <;> rfl

theorem probesOf_step (env : RegexEnv) (t : Table) (op : Op) (d : Dir) (rs : List Route)
    (h : Spec.isAsgOp d op = false) : probesOf env d (t.step env op).1 rs = probesOf env d t rs := by
  simp only [probesOf, step_slot env t op d h]

theorem dump_slot (t : Table) (d : Dir) :
    (match d with | .imp => t.dump.imp | .exp => t.dump.exp) = (t.slot d).map Assign.dump := by
  cases d <;> rfl

theorem checkSteps_ok (env : RegexEnv) (rs : List Route) : ∀ (ops : List Op) (t : Table) (i : Nat), Inv false t →
    (∀ op ∈ ops, op.noAsRegex = true) →
    Spec.checkSteps env rs i t.dump (probesOf env .imp t rs) (probesOf env .exp t rs) ops (runOps env rs t ops) = .ok
  | [], t, i, _, _ => by simp [runOps, Spec.checkSteps]
  | op :: ops, t, i, hi, hop => by
      have hi' : Inv false (t.step env op).1 := hi.step env op (Or.inr (hop op (by simp)))
      have h1 := refsStable_ok env hi op hi'
      have h2 := wellKnownOk_ok env hi op
      have h3 : (!Spec.isAsgOp .imp op && decide (probesOf env .imp (t.step env op).1 rs ≠ probesOf env .imp t rs)) = false := by
        cases ha : Spec.isAsgOp .imp op
        · simp [probesOf_step env t op .imp rs ha]
        · rfl
      have h4 : (!Spec.isAsgOp .exp op && decide (probesOf env .exp (t.step env op).1 rs ≠ probesOf env .exp t rs)) = false := by
        cases ha : Spec.isAsgOp .exp op
        · simp [probesOf_step env t op .exp rs ha]
        · rfl
      have h0 := requestStored_ok env hi op hi'
      have h00 := heldCurrent_ok hi'
      have h5 := dirFails_ok env hi' .imp rs
      have h6 := dirFails_ok env hi' .exp rs
      have ih := checkSteps_ok env rs ops (t.step env op).1 (i + 1) hi' (fun o ho => hop o (by simp [ho]))
      simp only [runOps, Spec.checkSteps, h0, h00, h1, h2, Bool.not_true, Bool.false_eq_true, if_false]
      simp only [h3, h4, Bool.false_eq_true, if_false]
      have e1 : (t.step env op).1.dump.imp = ((t.step env op).1.slot .imp).map Assign.dump := rfl
      have e2 : (t.step env op).1.dump.exp = ((t.step env op).1.slot .exp).map Assign.dump := rfl
      rw [e1, e2, h5, h6]
      simp only [List.append_nil, Spec.pickFail, List.find?, List.head?]
      exact ih

/-- master lemma: the C14 reference checker accepts every run of the model -/
theorem check_run_ok (env : RegexEnv) (c : Case)
    (h : ∀ op ∈ c.ops, op.noAsRegex = true) : Spec.check env c (run env c) = .ok :=
  checkSteps_ok env c.probes c.ops {} 0 (Inv.empty false) h


end Rbgp.Policy
