/-
  Rbgp.Policy.Model — hand-written model of table/src/policy.rs
  (`Condition::evalute`, `SingleAsPathMatch::is_match`, `match_string_set`,
  `Statement/Policy/PolicyAssignment::apply`, `apply_import/apply_export`, all `Actions`,
  `PolicyTable` CRUD) and of the AS_PATH helpers of packet/src/bgp.rs it calls
  (`AsPathIter`, `as_path_length`, `as_path_prepend[_confed]`).

  One Lean function per Rust function, same branch order.  A Rust panic
  (`unwrap`, slice index, `unreachable!`, `assert_eq!`) is the outcome `none` of the
  `Option`-valued evaluation functions — it is never totalised away.

  `Arc<T>` of an immutable object is modelled as a *value snapshot* of the object: a statement
  carries the contents of the sets it was built with, a policy the statements, an assignment the
  policies — exactly what the `Arc` clones keep alive in Rust.
-/
import Rbgp.Policy.Basic
namespace Rbgp.Policy

/-! ## objects holding snapshots -/

/-- `Condition` (set conditions carry the `Arc<…Set>` they were resolved to) -/
inductive Cond where
  | set (k : SetKind) (name : String) (o : Opt) (snap : SetObj)
  | plain (p : Plain)
  deriving DecidableEq, Repr, Inhabited

structure Stmt where
  name : String
  conds : List Cond
  disp : Option Disp
  acts : Actions
  deriving DecidableEq, Repr, Inhabited

structure Policy where
  name : String
  stmts : List Stmt
  deriving DecidableEq, Repr, Inhabited

structure Assign where
  name : String
  dflt : Disp
  pols : List Policy
  deriving DecidableEq, Repr, Inhabited

abbrev SetKey := SetKind × String

structure Table where
  sets : List (SetKey × SetObj) := []
  stmts : List (String × Stmt) := []
  pols : List (String × Policy) := []
  imp : Option Assign := none
  exp : Option Assign := none
  deriving DecidableEq, Repr, Inhabited

/-! ## attribute access (`Attribute::value/binary`, `attr.iter().find(code)`) -/

def Attr.value (a : Attr) : Option Nat :=
  match a.data with
  | .val v => some v
  | .bin _ => none

def Attr.binary (a : Attr) : Option Bytes :=
  match a.data with
  | .val _ => none
  | .bin b => some b

def findAttr (code : Nat) (attrs : List Attr) : Option Attr := attrs.find? (fun a => a.code == code)

/-- `attrs.retain(|a| a.code() != code)` -/
def dropAttr (code : Nat) (attrs : List Attr) : List Attr := attrs.filter (fun a => a.code != code)

/-- `Attribute::new_with_value(code, v)` (always `Some` for the codes used here) -/
def newVal (code v : Nat) : Attr := ⟨code, canonicalFlags code, .val v⟩
def newBin (code : Nat) (b : Bytes) : Attr := ⟨code, canonicalFlags code, .bin b⟩

def communitiesFromAttr (attrs : List Attr) : List Nat :=
  match (findAttr COMMUNITY attrs).bind Attr.binary with
  | some b => chunks4 b
  | none => []

def extCommunitiesFromAttr (attrs : List Attr) : List Bytes :=
  match (findAttr EXT_COMMUNITY attrs).bind Attr.binary with
  | some b => chunks8 b
  | none => []

def largeCommunitiesFromAttr (attrs : List Attr) : List (Nat × Nat × Nat) :=
  match (findAttr LARGE_COMMUNITY attrs).bind Attr.binary with
  | some b => chunks12 b
  | none => []

/-! ## AS_PATH helpers of packet/src/bgp.rs (byte level) -/

/-- `AsPathIter` collected: each segment's members; a short read ends the iteration -/
def iterSegs (b : Bytes) : List (List Nat) :=
  match b with
  | [] => []
  | [_] => []
  | _ :: n :: r =>
      match h : readAsns n r with
      | some (v, r') => v :: iterSegs r'
      | none => []
termination_by b.length
decreasing_by have := readAsns_length _ _ _ _ h; simp; omega

/-- `Attribute::as_path_length` (accumulator is `usize` after the S1 repair): `none` = panic
    (`read_u8().unwrap()` on a 1-byte tail, `unreachable!()` on a segment type outside 1..4) -/
def asPathLength (b : Bytes) : Option Nat :=
  match b with
  | [] => some 0
  | [_] => none
  | t :: l :: r =>
      if t = 1 then (asPathLength (r.drop (4 * l))).map (· + 1)
      else if t = 2 then (asPathLength (r.drop (4 * l))).map (· + l)
      else if t = 3 ∨ t = 4 then asPathLength (r.drop (4 * l))
      else none
termination_by b.length
decreasing_by all_goals (simp; omega)

/-- `as_path_prepend` (ty = 2) / `as_path_prepend_confed` (ty = 3): `none` = index panic -/
def asPathPrepend (ty : Nat) (b : Bytes) (asn : Nat) : Option Bytes :=
  match b with
  | [] => some (ty :: 1 :: be32 asn)
  | [x] => if x = ty then none else some (ty :: 1 :: (be32 asn ++ [x]))
  | t :: n :: r =>
      if t = ty ∧ n < 255 then some (t :: (n + 1) :: (be32 asn ++ r))
      else some (ty :: 1 :: (be32 asn ++ t :: n :: r))

/-! ## `SingleAsPathMatch::is_match` (on the flat list of members, all segment types) -/

def Single.isMatchList (s : Single) (asns : List Nat) : Bool :=
  match s with
  | .inc v => asns.contains v
  | .rinc lo hi => asns.any (fun a => lo ≤ a && a ≤ hi)
  | .left v => asns.head? == some v
  | .rleft lo hi => match asns.head? with | some a => lo ≤ a && a ≤ hi | none => false
  | .orig v => asns.getLast? == some v
  | .rorig lo hi => match asns.getLast? with | some a => lo ≤ a && a ≤ hi | none => false
  | .only v => asns == [v]
  | .ronly lo hi => match asns with | [a] => lo ≤ a && a ≤ hi | _ => false

/-- `none` = `AsPathIter::new` unwrapping a non-binary AS_PATH -/
def Single.isMatch (s : Single) (a : Attr) : Option Bool :=
  match a.binary with
  | none => none
  | some b => some (s.isMatchList (iterSegs b).flatten)

/-! ## strings the regular expressions are matched against -/

def communityStr (c : Nat) : String := s!"{c / 65536}:{c % 65536}"
def largeStr (c : Nat × Nat × Nat) : String := s!"{c.1}:{c.2.1}:{c.2.2}"

/-- `match_string_set` -/
def matchStringSet (env : RegexEnv) (strs pats : List String) (o : Opt) : Bool :=
  match o with
  | .any => strs.any (fun s => pats.any (fun p => env.matches p s))
  | .all => pats.all (fun p => strs.any (fun s => env.matches p s))
  | .invert => !(strs.any (fun s => pats.any (fun p => env.matches p s)))

/-! ## `Condition::evalute` -/

def cmpHolds (c : Cmp) (l v : Nat) : Bool :=
  match c with
  | .eq => l == v
  | .ge => l ≥ v
  | .le => l ≤ v

/-- `IpNet::contains` for a net without host bits -/
def netContains (p : Addr) (mask : Nat) (a : Addr) : Bool :=
  p.v6 == a.v6 && p.top mask == a.top mask

/-- prefix-set lookup: the `zero`/`zero6` entry, then every stored entry whose bits match the
    route's address (`IpLookupTable::matches`) and that is not longer than the route's prefix -/
def prefixHit (entries : List PEntry) (zero zero6 : Option (Nat × Nat)) (net : Addr) (mask : Nat) : Bool :=
  (match (if net.v6 then zero6 else zero) with
   | some (lo, hi) => lo ≤ mask && mask ≤ hi
   | none => false) ||
  entries.any (fun e => e.addr.v6 == net.v6 && e.addr.top e.mask == net.top e.mask &&
                        e.mask ≤ mask && e.lo ≤ mask && mask ≤ e.hi)

def evalSet (env : RegexEnv) (cx : Ctx) (st : St) (k : SetKind) (o : Opt) (snap : SetObj) : Option Bool :=
  match k, snap with
  | .prefix, .prefix entries zero zero6 =>
      if prefixHit entries zero zero6 cx.net cx.mask then some (o == .any) else some (!(o == .any))
  | .aspath, .aspath singles _ =>
      match findAttr AS_PATH st.attrs with
      | none =>
          (match o with
           | .any => some false
           | .all => some singles.isEmpty
           | .invert => some true)
      | some a =>
          match a.binary with
          | none => if singles.isEmpty then (match o with | .any => some false | _ => some true) else none
          | some b =>
              let asns := (iterSegs b).flatten
              (match o with
               | .any => some (singles.any (fun s => s.isMatchList asns))
               | .all => some (singles.all (fun s => s.isMatchList asns))
               | .invert => some (!(singles.any (fun s => s.isMatchList asns))))
  | .neighbor, .neighbor nets =>
      let found := nets.any (fun n => netContains n.1 n.2 cx.peerAddr)
      some (if o == .invert then !found else found)
  | .comm, .strs pats =>
      some (matchStringSet env ((communitiesFromAttr st.attrs).map communityStr) pats o)
  | .ext, .strs pats =>
      some (matchStringSet env ((extCommunitiesFromAttr st.attrs).filterMap env.extStr) pats o)
  | .large, .strs pats =>
      some (matchStringSet env ((largeCommunitiesFromAttr st.attrs).map largeStr) pats o)
  | _, _ => some false

def evalPlain (cx : Ctx) (st : St) : Plain → Option Bool
  | .nexthop l => some (match st.nh with | some a => l.contains a | none => false)
  | .asPathLen c v =>
      match findAttr AS_PATH st.attrs with
      | none => some false
      | some a =>
          match a.binary with
          | none => none
          | some b => (asPathLength b).map (fun l => cmpHolds c l v)
  | .rpki s => some (cx.rpki == some s)
  | .localPrefEq v => some ((findAttr LOCAL_PREF st.attrs).bind Attr.value == some v)
  | .medEq v => some ((findAttr MED st.attrs).bind Attr.value == some v)
  | .origin v => some ((findAttr ORIGIN st.attrs).bind Attr.value == some v)
  | .routeType t =>
      some (match t with
        | .local => cx.src.isLocal
        | .internal => !cx.src.isLocal && cx.src.remoteAsn == cx.src.localAsn
        | .external => !cx.src.isLocal && cx.src.remoteAsn != cx.src.localAsn)
  | .commCount c v => some (cmpHolds c (communitiesFromAttr st.attrs).length v)
  | .afiSafiIn l => some (l.contains (if cx.net.v6 then (2, 1) else (1, 1)))

def evalCond (env : RegexEnv) (cx : Ctx) (st : St) : Cond → Option Bool
  | .set k _ o snap => evalSet env cx st k o snap
  | .plain p => evalPlain cx st p

/-- `self.conditions.iter().all(..)` : left to right, stops at the first `false` -/
def evalConds (env : RegexEnv) (cx : Ctx) (st : St) : List Cond → Option Bool
  | [] => some true
  | c :: cs =>
      match evalCond env cx st c with
      | none => none
      | some false => some false
      | some true => evalConds env cx st cs

/-! ## actions of `Statement::apply` -/

def applyCat {α} [BEq α] (t : CAT) (existing new : List α) : List α :=
  match t with
  | .add => existing ++ new
  | .remove => existing.filter (fun c => !new.contains c)
  | .replace => new

def actNexthop (cx : Ctx) (a : Option NhAct) (st : St) : St :=
  match a with
  | none => st
  | some (.addr x) => { st with nh := some x }
  | some .self => { st with nh := some cx.localAddr }
  | some .peer => { st with nh := some cx.peerAddr }
  | some .unchanged => (match cx.origNh with | some o => { st with nh := some o } | none => st)

def actCommunity (a : Option (CAT × List Nat)) (st : St) : St :=
  match a with
  | none => st
  | some (t, cs) =>
      let n := applyCat t (communitiesFromAttr st.attrs) cs
      let attrs := dropAttr COMMUNITY st.attrs
      { st with attrs := if n.isEmpty then attrs else attrs ++ [newBin COMMUNITY (enc4 n)] }

def actLocalPref (a : Option Nat) (st : St) : St :=
  match a with
  | none => st
  | some v => { st with attrs := dropAttr LOCAL_PREF st.attrs ++ [newVal LOCAL_PREF v] }

def clampU32 (i : Int) : Nat := if i < 0 then 0 else if i > 4294967295 then 4294967295 else i.toNat

/-- MED: `(current as i64).saturating_add(value).clamp(0, u32::MAX) as u32` / `value.clamp(..)` -/
def actMed (a : Option (Bool × Int)) (st : St) : St :=
  match a with
  | none => st
  | some (isMod, v) =>
      let cur := ((findAttr MED st.attrs).bind Attr.value).getD 0
      let n := if isMod then clampU32 ((cur : Int) + v) else clampU32 v
      { st with attrs := dropAttr MED st.attrs ++ [newVal MED n] }

/-- `for _ in 0..repeat { new_as_path = new_as_path.as_path_prepend[_confed](asn) }` -/
def prependN (ty : Nat) (asn : Nat) : Nat → Bytes → Option Bytes
  | 0, b => some b
  | n + 1, b =>
      match asPathPrepend ty b asn with
      | none => none
      | some b' => prependN ty asn n b'

def actAsPrepend (cx : Ctx) (a : Option (Nat × Nat × Bool)) (st : St) : Option St :=
  match a with
  | none => some st
  | some (asn, rep, leftMost) =>
      if rep = 0 then some st
      else
        let existing : Attr := (findAttr AS_PATH st.attrs).getD ⟨AS_PATH, 64, .bin []⟩
        match existing.binary with
        | none => none      -- `AsPathIter::new` / `as_path_prepend` unwrap a non-binary payload
        | some b =>
            let a' := if leftMost then ((iterSegs b).flatten.head?).getD asn else asn
            match prependN (if cx.confed then 3 else 2) a' rep b with
            | none => none
            | some b' =>
                some { st with attrs := dropAttr AS_PATH st.attrs ++ [⟨existing.code, existing.flags, .bin b'⟩] }

def actExt (a : Option (CAT × List Bytes)) (st : St) : St :=
  match a with
  | none => st
  | some (t, cs) =>
      let n := applyCat t (extCommunitiesFromAttr st.attrs) cs
      let attrs := dropAttr EXT_COMMUNITY st.attrs
      { st with attrs := if n.isEmpty then attrs else attrs ++ [newBin EXT_COMMUNITY (enc8 n)] }

def actLarge (a : Option (CAT × List (Nat × Nat × Nat))) (st : St) : St :=
  match a with
  | none => st
  | some (t, cs) =>
      let n := applyCat t (largeCommunitiesFromAttr st.attrs) cs
      let attrs := dropAttr LARGE_COMMUNITY st.attrs
      { st with attrs := if n.isEmpty then attrs else attrs ++ [newBin LARGE_COMMUNITY (enc12 n)] }

def actOrigin (a : Option Nat) (st : St) : St :=
  match a with
  | none => st
  | some v => { st with attrs := dropAttr ORIGIN st.attrs ++ [newVal ORIGIN v] }

/-- the action block of `Statement::apply`, in source order -/
def applyActions (cx : Ctx) (a : Actions) (st : St) : Option St :=
  let s1 := actNexthop cx a.nexthop st
  let s2 := actCommunity a.community s1
  let s3 := actLocalPref a.localPref s2
  let s4 := actMed a.med s3
  match actAsPrepend cx a.asPrepend s4 with
  | none => none
  | some s5 =>
      let s6 := actExt a.ext s5
      let s7 := actLarge a.large s6
      some (actOrigin a.origin s7)

/-- `Statement::apply` -/
def Stmt.apply (env : RegexEnv) (cx : Ctx) (s : Stmt) (st : St) : Option (Disp × St) :=
  match evalConds env cx st s.conds with
  | none => none
  | some false => some (.pass, st)
  | some true =>
      match applyActions cx s.acts st with
      | none => none
      | some st' => some (s.disp.getD .pass, st')

/-- `Policy::apply` : statements in order, the first non-pass disposition ends the walk -/
def applyStmts (env : RegexEnv) (cx : Ctx) : List Stmt → St → Option (Disp × St)
  | [], st => some (.pass, st)
  | s :: ss, st =>
      match s.apply env cx st with
      | none => none
      | some (d, st') => if d != .pass then some (d, st') else applyStmts env cx ss st'

/-- `PolicyAssignment::apply` -/
def applyPols (env : RegexEnv) (cx : Ctx) (dflt : Disp) : List Policy → St → Option (Disp × St)
  | [], st => some (dflt, st)
  | p :: ps, st =>
      match applyStmts env cx p.stmts st with
      | none => none
      | some (d, st') => if d != .pass then some (d, st') else applyPols env cx dflt ps st'

def Assign.apply (env : RegexEnv) (cx : Ctx) (a : Assign) (st : St) : Option (Disp × St) :=
  applyPols env cx a.dflt a.pols st

/-- arguments `apply_import` / `apply_export` derive from the probe -/
def ctxOf (d : Dir) (r : Route) : Ctx :=
  match d with
  | .imp => { src := r.src, net := r.net, mask := r.mask, rpki := r.rpki, confed := false,
              localAddr := r.src.localAddr, peerAddr := r.src.remoteAddr, origNh := r.nh }
  | .exp => { src := r.src, net := r.net, mask := r.mask, rpki := r.rpki, confed := r.confed,
              localAddr := r.localAddr, peerAddr := r.peerAddr, origNh := r.origNh }

/-- one `apply_import` (reports only "filtered or not") / `apply_export` call -/
def probe (env : RegexEnv) (d : Dir) (a : Assign) (r : Route) : PRes :=
  match a.apply env (ctxOf d r) ⟨r.attrs, r.nh⟩ with
  | none => .panic
  | some (disp, st) =>
      match d with
      | .imp => .r (if disp == .reject then .reject else .accept) st.attrs st.nh
      | .exp => .r disp st.attrs st.nh

/-! ## association lists kept sorted by key (the listing API's output is sorted by the harness) -/

section AL
variable {κ α : Type} [DecidableEq κ]

def alLookup (k : κ) : List (κ × α) → Option α
  | [] => none
  | (k', v) :: r => if k' = k then some v else alLookup k r

def alInsert (lt : κ → κ → Bool) (k : κ) (v : α) : List (κ × α) → List (κ × α)
  | [] => [(k, v)]
  | (k', v') :: r =>
      if k' = k then (k, v) :: r
      else if lt k k' then (k, v) :: (k', v') :: r
      else (k', v') :: alInsert lt k v r

/-- `HashMap::remove`: no entry with that key remains -/
def alErase (k : κ) : List (κ × α) → List (κ × α)
  | [] => []
  | (k', v) :: r => if k' = k then alErase k r else (k', v) :: alErase k r
end AL

def strLt (a b : String) : Bool := decide (a < b)
def setKeyLt (a b : SetKey) : Bool := a.1.idx < b.1.idx || (a.1.idx == b.1.idx && strLt a.2 b.2)

/-! ## prefix-set tables (`IpLookupTable` keyed by (address, mask), entries without host bits) -/

abbrev PKey := Bool × Nat × Nat
def PEntry.key (e : PEntry) : PKey := (e.addr.v6, e.addr.val, e.mask)
def pkeyLt (a b : PKey) : Bool :=
  (!a.1 && b.1) || (a.1 == b.1 && (a.2.1 < b.2.1 || (a.2.1 == b.2.1 && a.2.2 < b.2.2)))

/-- `table.insert(addr, mask, prefix)` : an existing entry with the same key is replaced -/
def pInsert (e : PEntry) : List PEntry → List PEntry
  | [] => [e]
  | x :: r =>
      if x.key = e.key then e :: r
      else if pkeyLt e.key x.key then e :: x :: r
      else x :: pInsert e r

def pErase (k : PKey) : List PEntry → List PEntry
  | [] => []
  | x :: r => if x.key = k then r else x :: pErase k r

def pLookup (k : PKey) (l : List PEntry) : Option PEntry := l.find? (fun x => x.key = k)

def PEntry.isZero4 (e : PEntry) : Bool := !e.addr.v6 && e.addr.val == 0 && e.mask == 0
def PEntry.isZero6 (e : PEntry) : Bool := e.addr.v6 && e.addr.val == 0 && e.mask == 0

/-! ## `parse_community` -/

/-- `s.parse::<u32>()` -/
def parseU32 (s : String) : Option Nat := decimalU32? s

/-- `Regex::new(r"(\d+.)*\d+:\d+").is_match(s)` : some digit, a colon, a digit -/
def hasDigitColonDigit : List Char → Bool
  | a :: b :: c :: r => (a.isDigit && b == ':' && c.isDigit) || hasDigitColonDigit (b :: c :: r)
  | _ => false

def wellKnownCommunity (s : String) : Option Nat :=
  if s = "graceful-shutdown" then some 0xffff0000
  else if s = "accept-own" then some 0xffff0001
  else if s = "llgr-stale" then some 0xffff0006
  else if s = "no-llgr" then some 0xffff0007
  else if s = "blackhole" then some 0xffff029a
  else if s = "no-export" then some 0xffffff01
  else if s = "no-advertise" then some 0xffffff02
  else if s = "no-export-subconfed" then some 0xffffff03
  else if s = "no-peer" then some 0xffffff04
  else none

/-- the source of the compiled regular expression, `none` = `InvalidArgument` -/
def parseCommunity (env : RegexEnv) (s : String) : Option String :=
  match parseU32 s with
  | some v => some s!"^{v / 65536}:{v % 65536}$"
  | none =>
      if hasDigitColonDigit s.toList then
        (let p := "^" ++ s ++ "$"; if env.valid p then some p else none)
      else
        match wellKnownCommunity s.toLower with
        | some v => some s!"^{v / 65536}:{v % 65536}$"
        | none => if env.valid s then some s else none

/-! ## defined sets -/

def optOr {α} (a b : Option α) : Option α := match a with | some x => some x | none => b

def Elem.pfx? : Elem → Option PEntry
  | .pfx p => some p
  | _ => none
def Elem.nbr? : Elem → Option (Addr × Nat)
  | .nbr a m => some (a, m)
  | _ => none
def Elem.single? : Elem → Option Single
  | .single s => some s
  | _ => none
def Elem.pat? : Elem → Option String
  | .pat s => some s
  | _ => none
def Elem.isPat : Elem → Bool
  | .pat _ => true
  | _ => false
def Elem.isRaw : Elem → Bool
  | .raw => true
  | _ => false

/-- the mask range of the default-route entries of one request: `none` = two different ranges
    (`InvalidArgument`), `some none` = no such entry -/
def zeroRange : List PEntry → Option (Option (Nat × Nat))
  | [] => some none
  | e :: r => if r.all (fun x => x.lo == e.lo && x.hi == e.hi) then some (some (e.lo, e.hi)) else none

/-- `table.insert(addr, mask, prefix)` followed by the conflict check: a different range already
    stored for that prefix is an error (`none`), the same entry again is harmless -/
def pInsertC (acc : Option (List PEntry)) (e : PEntry) : Option (List PEntry) :=
  match acc with
  | none => none
  | some l =>
      match pLookup e.key l with
      | some old => if old.lo == e.lo && old.hi == e.hi then some (pInsert e l) else none
      | none => some (pInsert e l)

/-- the new contents given to `add_defined_set`, in the shape of a stored set; `none` = a pattern
    did not compile (`InvalidArgument`).  Prefix entries are kept in call order. -/
def parseElems0 (env : RegexEnv) (k : SetKind) (elems : List Elem) : Option SetObj :=
  match k with
  | .prefix =>
      let es := elems.filterMap Elem.pfx?
      match zeroRange (es.filter PEntry.isZero4), zeroRange (es.filter PEntry.isZero6) with
      | some zero, some zero6 => some (.prefix (es.filter (fun e => !e.isZero4 && !e.isZero6)) zero zero6)
      | _, _ => none
  | .neighbor => some (.neighbor (elems.filterMap Elem.nbr?))
  | .aspath =>
      let res := elems.filterMap Elem.pat?
      if res.all env.valid then some (.aspath (elems.filterMap Elem.single?) res) else none
  | .comm =>
      ((elems.filterMap Elem.pat?).mapM (parseCommunity env)).map .strs
  | .ext | .large =>
      let ps := elems.filterMap Elem.pat?
      if ps.all env.valid then some (.strs ps) else none

/-- … and `none` as well when some prefix / neighbor string does not parse: every element is
    parsed before anything is stored -/
def parseElems (env : RegexEnv) (k : SetKind) (elems : List Elem) : Option SetObj :=
  if elems.any Elem.isRaw then none else parseElems0 env k elems

theorem parseElems_some {env : RegexEnv} {k : SetKind} {elems : List Elem} {n : SetObj}
    (h : parseElems env k elems = some n) : parseElems0 env k elems = some n := by
  unfold parseElems at h
  split at h
  · cases h
  · exact h

def SetObj.isEmpty : SetObj → Bool
  | .prefix es z z6 => es.isEmpty && z.isNone && z6.isNone
  | .neighbor l => l.isEmpty
  | .aspath s r => s.isEmpty && r.isEmpty
  | .strs l => l.isEmpty

/-- a freshly created set from parsed contents (prefix entries go through `insert`); `none` = one
    prefix with two different ranges -/
def SetObj.fresh : SetObj → Option SetObj
  | .prefix es z z6 => (es.foldl pInsertC (some [])).map (fun l => .prefix l z z6)
  | s => some s

/-- `existing` merged with new contents (GoBGP `Append`); `none` = a prefix (or the default
    route) would get a second, different range -/
def SetObj.merge (ex new : SetObj) : Option SetObj :=
  match ex, new with
  | .prefix es z z6, .prefix ns nz nz6 =>
      match ns.foldl pInsertC (some es) with
      | none => none
      | some l =>
          if (nz.isSome && z.isSome && nz != z) || (nz6.isSome && z6.isSome && nz6 != z6) then none
          else some (.prefix l (optOr nz z) (optOr nz6 z6))
  | .neighbor l, .neighbor n => some (.neighbor (l ++ n))
  | .aspath s r, .aspath ns nr => some (.aspath (s ++ ns) (r ++ nr))
  | .strs l, .strs n => some (.strs (l ++ n))
  | e, _ => some e

def Cond.refersTo (k : SetKind) (name : String) : Cond → Bool
  | .set k' n _ _ => k' == k && n == name
  | .plain _ => false

/-- `for stmt in self.statements.values() { if stmt.conditions.iter().any(matches!(..name)) }` -/
def setInUse (t : Table) (k : SetKind) (name : String) : Bool :=
  t.stmts.any (fun s => s.2.conds.any (Cond.refersTo k name))

def Table.addDefinedSet (env : RegexEnv) (t : Table) (k : SetKind) (name : String) (elems : List Elem) : Table × Res :=
  match parseElems env k elems with
  | none => (t, .invalid)
  | some new =>
      match alLookup (k, name) t.sets with
      | none =>
          if new.isEmpty then (t, .invalid)
          else
            match new.fresh with
            | none => (t, .invalid)
            | some f => ({ t with sets := alInsert setKeyLt (k, name) f t.sets }, .ok)
      | some ex =>
          if setInUse t k name then (t, .inUse)
          else
            match ex.merge new with
            | none => (t, .invalid)
            | some m => ({ t with sets := alInsert setKeyLt (k, name) m t.sets }, .ok)

/-- `replace_defined_set` : in-use check, remove, then `add_defined_set` (whose failure leaves the
    set removed) -/
def Table.replaceDefinedSet (env : RegexEnv) (t : Table) (k : SetKind) (name : String) (elems : List Elem) : Table × Res :=
  if setInUse t k name then (t, .inUse)
  else Table.addDefinedSet env { t with sets := alErase (k, name) t.sets } k name elems

/-- one element of a partial prefix-set delete: the `zero`/`zero6` entry if its range is the
    given one, a stored entry if it is exactly the given one -/
def removePfx (acc : SetObj) (e : Elem) : SetObj :=
  match acc, e with
  | .prefix es z z6, .pfx p =>
      if p.isZero4 then .prefix es (if z == some (p.lo, p.hi) then none else z) z6
      else if p.isZero6 then .prefix es z (if z6 == some (p.lo, p.hi) then none else z6)
      else if pLookup p.key es == some p then .prefix (pErase p.key es) z z6
      else .prefix es z z6
  | a, _ => a

def removeNbr (acc : List (Addr × Nat)) (e : Elem) : List (Addr × Nat) :=
  match e with
  | .nbr a m => acc.filter (fun s => s != (a, m))
  | _ => acc

def removeSingle (acc : List Single) (e : Elem) : List Single :=
  match e with
  | .single s => acc.filter (fun x => x != s)
  | _ => acc

def removePat (acc : List String) (p : String) : List String := acc.filter (fun x => x != p)

/-- the `all = false` arm of `delete_defined_set` on the stored set; `none` = `InvalidArgument` -/
def SetObj.remove0 (env : RegexEnv) (k : SetKind) (ex : SetObj) (elems : List Elem) : Option SetObj :=
  match ex with
  | .prefix es z z6 => some (elems.foldl removePfx (.prefix es z z6))
  | .neighbor l => some (.neighbor (elems.foldl removeNbr l))
  | .aspath ss rs =>
      let pats := elems.filterMap Elem.pat?
      if pats.all env.valid then some (.aspath (elems.foldl removeSingle ss) (pats.foldl removePat rs))
      else none
  | .strs l =>
      let pats := elems.filterMap Elem.pat?
      match k with
      | .comm => (pats.mapM (parseCommunity env)).map (fun rs => .strs (rs.foldl removePat l))
      | _ => if pats.all env.valid then some (.strs (pats.foldl removePat l)) else none

/-- an element string that does not parse fails the call before the new set is stored -/
def SetObj.remove (env : RegexEnv) (k : SetKind) (ex : SetObj) (elems : List Elem) : Option SetObj :=
  if elems.any Elem.isRaw then none else ex.remove0 env k elems

theorem SetObj.remove_some {env : RegexEnv} {k : SetKind} {ex : SetObj} {elems : List Elem} {n : SetObj}
    (h : ex.remove env k elems = some n) : ex.remove0 env k elems = some n := by
  unfold SetObj.remove at h
  split at h
  · cases h
  · exact h

def Table.deleteDefinedSet (env : RegexEnv) (t : Table) (k : SetKind) (name : String) (all : Bool) (elems : List Elem) : Table × Res :=
  if setInUse t k name then (t, .inUse)
  else if all then
    (match alLookup (k, name) t.sets with
     | none => (t, .notFound)
     | some _ => ({ t with sets := alErase (k, name) t.sets }, .ok))
  else
    match alLookup (k, name) t.sets with
    | none => (t, .notFound)
    | some ex =>
        match ex.remove env k elems with
        | none => (t, .invalid)
        | some n => ({ t with sets := alInsert setKeyLt (k, name) n t.sets }, .ok)

/-! ## statements -/

def Plain.kind : Plain → Nat
  | .nexthop _ => 6 | .asPathLen .. => 7 | .rpki _ => 8 | .localPrefEq _ => 9 | .medEq _ => 10
  | .origin _ => 11 | .routeType _ => 12 | .commCount .. => 13 | .afiSafiIn _ => 14

/-- `std::mem::discriminant` / `condition_kind_matches` -/
def Cond.kind : Cond → Nat
  | .set k _ _ _ => k.idx
  | .plain p => p.kind
def CondCfg.kind : CondCfg → Nat
  | .set k _ _ => k.idx
  | .plain p => p.kind

/-- the resolving loop at the top of `add_statement`; `none` = `InvalidArgument`
    (ALL on a prefix/neighbor set, or an unknown set name) -/
def resolveConds (t : Table) : List CondCfg → Option (List Cond)
  | [] => some []
  | .set k name o :: r =>
      if (k = .prefix ∨ k = .neighbor) ∧ o = .all then none
      else
        match alLookup (k, name) t.sets with
        | none => none
        | some snap => (resolveConds t r).map (fun cs => .set k name o snap :: cs)
  | .plain p :: r => (resolveConds t r).map (fun cs => .plain p :: cs)

def stmtInUse (t : Table) (name : String) : Bool :=
  t.pols.any (fun p => p.2.stmts.any (fun s => s.name == name))

/-- merge new conditions one by one; a kind that is already present is an error -/
def mergeConds : List Cond → List Cond → Option (List Cond)
  | cur, [] => some cur
  | cur, c :: r => if cur.any (fun x => x.kind == c.kind) then none else mergeConds (cur ++ [c]) r

def Actions.conflicts (old new : Actions) : Bool :=
  (new.nexthop.isSome && old.nexthop.isSome) || (new.community.isSome && old.community.isSome) ||
  (new.localPref.isSome && old.localPref.isSome) || (new.med.isSome && old.med.isSome) ||
  (new.asPrepend.isSome && old.asPrepend.isSome) || (new.ext.isSome && old.ext.isSome) ||
  (new.large.isSome && old.large.isSome) || (new.origin.isSome && old.origin.isSome)

def Actions.union (old new : Actions) : Actions :=
  { nexthop := optOr new.nexthop old.nexthop, community := optOr new.community old.community,
    localPref := optOr new.localPref old.localPref, med := optOr new.med old.med,
    asPrepend := optOr new.asPrepend old.asPrepend, ext := optOr new.ext old.ext,
    large := optOr new.large old.large, origin := optOr new.origin old.origin }

def Table.addStatement (t : Table) (name : String) (cfgs : List CondCfg) (disp : Option Disp) (acts : Actions) : Table × Res :=
  match resolveConds t cfgs with
  | none => (t, .invalid)
  | some v =>
      match alLookup name t.stmts with
      | none => ({ t with stmts := alInsert strLt name ⟨name, v, disp, acts⟩ t.stmts }, .ok)
      | some ex =>
          if stmtInUse t name then (t, .inUse)
          else
            match mergeConds ex.conds v with
            | none => (t, .invalid)
            | some cs =>
                if disp.isSome && ex.disp.isSome then (t, .invalid)
                else if ex.acts.conflicts acts then (t, .invalid)
                else
                  let s' : Stmt := ⟨ex.name, cs, optOr disp ex.disp, ex.acts.union acts⟩
                  ({ t with stmts := alInsert strLt name s' t.stmts }, .ok)

/-- remove the first condition of each requested kind; `none` = kind not set -/
def removeKinds : List Cond → List CondCfg → Option (List Cond)
  | cur, [] => some cur
  | cur, c :: r =>
      match cur.findIdx? (fun x => x.kind == c.kind) with
      | none => none
      | some i => removeKinds (cur.eraseIdx i) r

def Actions.missing (cur del : Actions) : Bool :=
  (del.nexthop.isSome && cur.nexthop.isNone) || (del.community.isSome && cur.community.isNone) ||
  (del.localPref.isSome && cur.localPref.isNone) || (del.med.isSome && cur.med.isNone) ||
  (del.asPrepend.isSome && cur.asPrepend.isNone) || (del.ext.isSome && cur.ext.isNone) ||
  (del.large.isSome && cur.large.isNone) || (del.origin.isSome && cur.origin.isNone)

def Actions.minus (cur del : Actions) : Actions :=
  { nexthop := if del.nexthop.isSome then none else cur.nexthop,
    community := if del.community.isSome then none else cur.community,
    localPref := if del.localPref.isSome then none else cur.localPref,
    med := if del.med.isSome then none else cur.med,
    asPrepend := if del.asPrepend.isSome then none else cur.asPrepend,
    ext := if del.ext.isSome then none else cur.ext,
    large := if del.large.isSome then none else cur.large,
    origin := if del.origin.isSome then none else cur.origin }

def Table.deleteStatement (t : Table) (name : String) (all : Bool) (cfgs : List CondCfg) (disp : Option Disp) (acts : Actions) : Table × Res :=
  if stmtInUse t name then (t, .inUse)
  else if all then
    (match alLookup name t.stmts with
     | none => (t, .notFound)
     | some _ => ({ t with stmts := alErase name t.stmts }, .ok))
  else
    match alLookup name t.stmts with
    | none => (t, .notFound)
    | some ex =>
        match removeKinds ex.conds cfgs with
        | none => (t, .invalid)
        | some cs =>
            if disp.isSome && ex.disp.isNone then (t, .invalid)
            else if ex.acts.missing acts then (t, .invalid)
            else
              let s' : Stmt := ⟨ex.name, cs, if disp.isSome then none else ex.disp, ex.acts.minus acts⟩
              ({ t with stmts := alInsert strLt name s' t.stmts }, .ok)

/-! ## policies -/

def resolveStmts (t : Table) : List String → Option (List Stmt)
  | [] => some []
  | n :: r =>
      match alLookup n t.stmts with
      | none => none
      | some s => (resolveStmts t r).map (fun ss => s :: ss)

/-- `policy_in_use_globally` -/
def polInUse (t : Table) (name : String) : Bool :=
  (match t.imp with | some a => a.pols.any (fun p => p.name == name) | none => false) ||
  (match t.exp with | some a => a.pols.any (fun p => p.name == name) | none => false)

def Table.addPolicy (t : Table) (name : String) (stmtNames : List String) : Table × Res :=
  match resolveStmts t stmtNames with
  | none => (t, .invalid)
  | some v =>
      match alLookup name t.pols with
      | none => ({ t with pols := alInsert strLt name ⟨name, v⟩ t.pols }, .ok)
      | some ex =>
          if polInUse t name then (t, .inUse)
          else ({ t with pols := alInsert strLt name ⟨ex.name, ex.stmts ++ v⟩ t.pols }, .ok)

/-- `if !preserve_statements { for stmt in removed { if !still_used { statements.remove } } }` -/
def cleanupStmts (pols : List (String × Policy)) (removed : List Stmt) (stmts : List (String × Stmt)) : List (String × Stmt) :=
  removed.foldl (fun acc s =>
    if pols.any (fun p => p.2.stmts.any (fun x => x.name == s.name)) then acc else alErase s.name acc) stmts

def Table.deletePolicy (t : Table) (name : String) (preserve all : Bool) (stmtNames : List String) : Table × Res :=
  if polInUse t name then (t, .inUse)
  else
    match alLookup name t.pols with
    | none => (t, .notFound)
    | some ex =>
        if all then
          let pols := alErase name t.pols
          ({ t with pols := pols,
                    stmts := if preserve then t.stmts else cleanupStmts pols ex.stmts t.stmts }, .ok)
        else
          let removed := ex.stmts.filter (fun s => stmtNames.contains s.name)
          let pols := alInsert strLt name ⟨ex.name, ex.stmts.filter (fun s => !stmtNames.contains s.name)⟩ t.pols
          ({ t with pols := pols,
                    stmts := if preserve then t.stmts else cleanupStmts pols removed t.stmts }, .ok)

/-! ## assignments -/

def resolvePols (t : Table) : List String → Option (List Policy)
  | [] => some []
  | n :: r =>
      match alLookup n t.pols with
      | none => none
      | some p => (resolvePols t r).map (fun ps => p :: ps)

def Table.slot (t : Table) : Dir → Option Assign
  | .imp => t.imp
  | .exp => t.exp

def Table.setSlot (t : Table) (d : Dir) (a : Option Assign) : Table :=
  match d with
  | .imp => { t with imp := a }
  | .exp => { t with exp := a }

/-- `build_assignment` -/
def buildAssignment (t : Table) (existing : Option Assign) (name : String) (d : Dir) (dflt : Disp) (names : List String) : Option Assign :=
  match resolvePols t names with
  | none => none
  | some v =>
      if d = .imp ∧ v.any (fun p => p.stmts.any (fun s => s.acts.nexthop.isSome)) then none
      else
        match existing with
        | none => some ⟨name, dflt, v⟩
        | some old =>
            if old.pols.any (fun p0 => v.any (fun p1 => p0.name == p1.name)) then none
            else some ⟨name, dflt, v ++ old.pols⟩

def Table.addAssignment (t : Table) (d : Dir) (name : String) (dflt : Disp) (names : List String) : Table × Res :=
  match buildAssignment t (t.slot d) name d dflt names with
  | none => (t, .invalid)
  | some a => (t.setSlot d (some a), .ok)

def Table.setAssignment (t : Table) (d : Dir) (name : String) (dflt : Disp) (names : List String) : Table × Res :=
  match buildAssignment t none name d dflt names with
  | none => (t, .invalid)
  | some a => (t.setSlot d (some a), .ok)

def Table.deleteAssignment (t : Table) (d : Dir) (all : Bool) (names : List String) : Table × Res :=
  if all then (t.setSlot d none, .ok)
  else
    match t.slot d with
    | none => (t, .notFound)
    | some old => (t.setSlot d (some { old with pols := old.pols.filter (fun p => !names.contains p.name) }), .ok)

def Table.step (env : RegexEnv) (t : Table) : Op → Table × Res
  | .setAdd k n e => t.addDefinedSet env k n e
  | .setReplace k n e => t.replaceDefinedSet env k n e
  | .setDel k n all e => t.deleteDefinedSet env k n all e
  | .stmtAdd n c d a => t.addStatement n c d a
  | .stmtDel n all c d a => t.deleteStatement n all c d a
  | .polAdd n s => t.addPolicy n s
  | .polDel n pr all s => t.deletePolicy n pr all s
  | .asgAdd d n df p => t.addAssignment d n df p
  | .asgSet d n df p => t.setAssignment d n df p
  | .asgDel d all p => t.deleteAssignment d all p

/-! ## the listing API -/

def Cond.cfg : Cond → CondCfg
  | .set k n o _ => .set k n o
  | .plain p => .plain p

def Stmt.dump (s : Stmt) : DStmt := ⟨s.name, s.conds.map Cond.cfg, s.disp, s.acts⟩
def Policy.dump (p : Policy) : DPol := ⟨p.name, p.stmts.map (·.name)⟩

def Cond.snap? : Cond → Option SetObj
  | .set _ _ _ snap => some snap
  | .plain _ => none

def Cond.isRpki : Cond → Bool
  | .plain (.rpki _) => true
  | _ => false

/-- the set objects a statement holds through its conditions -/
def Stmt.held (s : Stmt) : List SetObj := s.conds.filterMap Cond.snap?

/-- `PolicyAssignment::compute_needs_rpki` -/
def needsRpki (pols : List Policy) : Bool := pols.any (fun p => p.stmts.any (fun s => s.conds.any Cond.isRpki))

def Assign.dump (a : Assign) : DAsg := ⟨a.name, a.dflt, a.pols.map (·.name), needsRpki a.pols⟩

def Table.dump (t : Table) : Dump :=
  { sets := t.sets, stmts := t.stmts.map (fun s => s.2.dump), pols := t.pols.map (fun p => p.2.dump),
    imp := t.imp.map Assign.dump, exp := t.exp.map Assign.dump,
    heldSets := t.stmts.map (fun s => s.2.held),
    heldStmts := t.pols.map (fun p => p.2.stmts.map (fun s => (s.dump, s.held))) }

/-! ## running a case -/

def probesOf (env : RegexEnv) (d : Dir) (t : Table) (rs : List Route) : Option (List PRes) :=
  (t.slot d).map (fun a => rs.map (probe env d a))

def runOps (env : RegexEnv) (rs : List Route) : Table → List Op → Obs
  | _, [] => []
  | t, op :: ops =>
      let (t', res) := t.step env op
      .step res t'.dump (probesOf env .imp t' rs) (probesOf env .exp t' rs) :: runOps env rs t' ops

def run (env : RegexEnv) (c : Case) : Obs := runOps env c.probes {} c.ops

end Rbgp.Policy
