/-
  Rbgp.Policy.Regex — the instance of `RegexEnv` the C14 *driver* runs with.

  The theorems of C14 hold for every `RegexEnv` (the `regex` crate is an uninterpreted
  parameter).  To execute model and reference on generated cases the driver needs one concrete
  engine; this file implements the fragment the generator draws patterns from:

      pattern ::= '^'? item* '$'?        item ::= atom | atom '*' | atom '+'
      atom    ::= letter | digit | ':' | '-' | '.' (any char) | '\d'

  with the unanchored-search semantics of `Regex::is_match`.  Two forms are the designated
  *invalid* patterns (`Regex::new` fails on them): one that begins with a repetition operator,
  and one with a single, never closed `[` somewhere between items of the fragment (this form
  stays invalid when `parse_community` wraps it in `^…$`).  Anything else outside the fragment
  makes the case ill-formed (`(bad-case)` on both sides).
-/
import Rbgp.Policy.Basic
namespace Rbgp.Policy.Regex

inductive Atom where
  | ch (c : Char) | any | digit
  deriving Repr, DecidableEq

inductive Item where
  | one (a : Atom) | star (a : Atom) | plus (a : Atom)
  deriving Repr, DecidableEq

structure Re where
  bol : Bool
  items : List Item
  eol : Bool
  deriving Repr

inductive Class where
  | ok (r : Re) | invalid | unsupported
  deriving Repr

def litOk (c : Char) : Bool := c.isAlphanum || c == ':' || c == '-'

/-- items left to right; a postfix operator rewrites the item before it; `none` = outside the
    fragment -/
def parseGo : List Char → List Item → Option (List Item × Bool)
  | [], acc => some (acc.reverse, false)
  | ['$'], acc => some (acc.reverse, true)
  | '\\' :: 'd' :: r, acc => parseGo r (.one .digit :: acc)
  | '*' :: r, .one a :: acc => parseGo r (.star a :: acc)
  | '+' :: r, .one a :: acc => parseGo r (.plus a :: acc)
  | '.' :: r, acc => parseGo r (.one .any :: acc)
  | c :: r, acc => if litOk c then parseGo r (.one (.ch c) :: acc) else none

/-- `a [ b` with `a`, `b` item sequences of the fragment (`b` may end in `$`): an unclosed character class -/
def unclosedGroup (cs : List Char) : Bool :=
  match cs.span (· != '[') with
  | (a, '[' :: b) =>
      (match parseGo a [] with | some (_, e) => !e | none => false) && (parseGo b []).isSome
  | _ => false

def classify (s : String) : Class :=
  match s.toList with
  | '*' :: r => if (parseGo r []).isSome then .invalid else .unsupported
  | '+' :: r => if (parseGo r []).isSome then .invalid else .unsupported
  | '^' :: r =>
      (match parseGo r [] with
       | some (is, e) => .ok ⟨true, is, e⟩
       | none => if unclosedGroup r then .invalid else .unsupported)
  | cs =>
      (match parseGo cs [] with
       | some (is, e) => .ok ⟨false, is, e⟩
       | none => if unclosedGroup cs then .invalid else .unsupported)

def atomOk : Atom → Char → Bool
  | .ch c, x => c == x
  | .any, x => x != '\n'
  | .digit, x => x.isDigit

/-- does a match of `items` (then end of text if `eol`) start exactly here? -/
def matchHere (items : List Item) (eol : Bool) (s : List Char) : Bool :=
  match items, s with
  | [], s => !eol || s.isEmpty
  | .one _ :: _, [] => false
  | .one a :: r, c :: s' => atomOk a c && matchHere r eol s'
  | .star a :: r, [] => matchHere r eol []
  | .star a :: r, c :: s' => matchHere r eol (c :: s') || (atomOk a c && matchHere (.star a :: r) eol s')
  | .plus _ :: _, [] => false
  | .plus a :: r, c :: s' => atomOk a c && matchHere (.star a :: r) eol s'
termination_by (items.length, s.length)

def searchFrom (items : List Item) (eol : Bool) : List Char → Bool
  | [] => matchHere items eol []
  | c :: s => matchHere items eol (c :: s) || searchFrom items eol s

def Re.isMatch (r : Re) (s : String) : Bool :=
  if r.bol then matchHere r.items r.eol s.toList else searchFrom r.items r.eol s.toList

/-- the `f32` with these bits, if it is a whole number below 2^24 (`Display` of such a float is
    the plain decimal number: every shorter digit string denotes another integer, at least one
    away, while the rounding interval is at most one wide) -/
def f32Whole? (bits : Nat) : Option Nat :=
  let e := bits / 8388608
  let m := bits % 8388608
  if bits = 0 then some 0
  else if 127 ≤ e ∧ e ≤ 150 then
    let sig := 8388608 + m
    let sh := 150 - e
    if sig % 2 ^ sh = 0 then some (sig / 2 ^ sh) else none
  else none

/-- link-bandwidth communities the driver can render -/
def lbOk (c : Bytes) : Bool :=
  match c with
  | [64, 4, _, _, b4, b5, b6, b7] => (f32Whole? (b4 * 16777216 + b5 * 65536 + b6 * 256 + b7)).isSome
  | _ => true

/-- `ext_community_to_string`; the link-bandwidth form (0x40,0x04) prints an `f32`: well-formed
    cases carry only whole-number bandwidths below 2^24 (`lbOk`) -/
def extStr : Bytes → Option String
  | [t, s, b2, b3, b4, b5, b6, b7] =>
      let pre := if s = 2 then "rt" else "soo"
      if t = 0 ∧ (s = 2 ∨ s = 3) then
        some s!"{pre}:{b2 * 256 + b3}:{b4 * 16777216 + b5 * 65536 + b6 * 256 + b7}"
      else if t = 2 ∧ (s = 2 ∨ s = 3) then
        some s!"{pre}:{b2 * 16777216 + b3 * 65536 + b4 * 256 + b5}:{b6 * 256 + b7}"
      else if t = 1 ∧ (s = 2 ∨ s = 3) then
        some s!"{pre}:{b2}.{b3}.{b4}.{b5}:{b6 * 256 + b7}"
      else if t = 3 ∧ s = 12 then some s!"encap:{b6 * 256 + b7}"
      else if t = 64 ∧ s = 4 then
        (match f32Whole? (b4 * 16777216 + b5 * 65536 + b6 * 256 + b7) with
         | some n => some s!"lb:{b2 * 256 + b3}:{n}"
         | none => some s!"lb:{b2 * 256 + b3}:?")
      else if t = 67 ∧ s = 0 then
        (if b7 = 0 then some "validation:valid" else if b7 = 1 then some "validation:not-found"
         else if b7 = 2 then some "validation:invalid" else none)
      else none
  | _ => none

/-- the instance the driver runs with -/
def env : RegexEnv :=
  { valid := fun p => match classify p with | .ok _ => true | _ => false
    «matches» := fun p s => match classify p with | .ok r => r.isMatch s | _ => false
    extStr := extStr }

def supported (p : String) : Bool := match classify p with | .unsupported => false | _ => true

end Rbgp.Policy.Regex
