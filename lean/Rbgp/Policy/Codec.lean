/- Term encoding of C14 cases and observations (see harness/pt/src/bin/c14.rs for the grammar). -/
import Rbgp.Term
import Rbgp.Policy.Basic
import Rbgp.Policy.Spec
namespace Rbgp.Policy.Codec
open Rbgp Rbgp.Term Rbgp.Policy

/-! ## line parser

`Rbgp.Term.parse` re-builds the pending atom at every character (its `flush` is a strict `let`),
which is quadratic in the atom length; C14 lines carry long hex atoms, so the tokenizer is
repeated here with the flush done only at delimiters.  Same token grammar, same `Term`. -/

def tokFast : List Char → List Char → List Tok → List Tok
  | [], cur, acc =>
      (if cur.isEmpty then acc else Tok.at (String.ofList cur.reverse) :: acc).reverse
  | c :: cs, cur, acc =>
      if c == '(' then
        tokFast cs [] (Tok.lp :: (if cur.isEmpty then acc else Tok.at (String.ofList cur.reverse) :: acc))
      else if c == ')' then
        tokFast cs [] (Tok.rp :: (if cur.isEmpty then acc else Tok.at (String.ofList cur.reverse) :: acc))
      else if c == ' ' || c == '\t' || c == '\n' || c == '\r' then
        tokFast cs [] (if cur.isEmpty then acc else Tok.at (String.ofList cur.reverse) :: acc)
      else tokFast cs (c :: cur) acc

def parseFast (s : String) : Option Term := parseAux (tokFast s.toList [] []) [] none

def parseManyFast (s : String) : Option (List Term) := (s.splitOn "\t").mapM parseFast

/-! ## atoms -/

def addrOf? : Term → Option Addr
  | .list [.atom "4", n] => do let v ← asNat? n; if v < 4294967296 then pure ⟨false, v⟩ else none
  | .list [.atom "6", n] => do let v ← asNat? n; if v < 2 ^ 128 then pure ⟨true, v⟩ else none
  | _ => none
def addrT (a : Addr) : Term := list [sym (if a.v6 then "6" else "4"), nat a.val]

def u32Of? (t : Term) : Option Nat := do let v ← asNat? t; if v < 4294967296 then pure v else none
def u8Of? (t : Term) : Option Nat := do let v ← asNat? t; if v < 256 then pure v else none

def intOf? : Term → Option Int
  | .atom s =>
      match s.toList with
      | '-' :: r => (String.ofList r).toNat?.map (fun n => - (n : Int))
      | _ => s.toNat?.map (fun n => (n : Int))
  | _ => none
def intT (i : Int) : Term := sym (toString i)

def optAddrOf? : Term → Option (Option Addr) := asOpt? addrOf?

def dispOf? : Term → Option Disp
  | .atom "accept" => some .accept | .atom "reject" => some .reject | .atom "pass" => some .pass
  | _ => none
def dispT : Disp → Term
  | .accept => sym "accept" | .reject => sym "reject" | .pass => sym "pass"
def odispOf? : Term → Option (Option Disp)
  | .atom "none" => some none
  | t => (dispOf? t).map some
def odispT : Option Disp → Term
  | none => sym "none"
  | some d => dispT d

def dirOf? : Term → Option Dir
  | .atom "imp" => some .imp | .atom "exp" => some .exp | _ => none

def optOf? : Term → Option Opt
  | .atom "any" => some .any | .atom "all" => some .all | .atom "invert" => some .invert | _ => none
def optT : Opt → Term
  | .any => sym "any" | .all => sym "all" | .invert => sym "invert"

def cmpOf? : Term → Option Cmp
  | .atom "eq" => some .eq | .atom "ge" => some .ge | .atom "le" => some .le | _ => none
def cmpT : Cmp → Term
  | .eq => sym "eq" | .ge => sym "ge" | .le => sym "le"

def kindOf? : Term → Option SetKind
  | .atom "prefix" => some .prefix | .atom "neighbor" => some .neighbor | .atom "aspath" => some .aspath
  | .atom "comm" => some .comm | .atom "ext" => some .ext | .atom "large" => some .large | _ => none
def kindT : SetKind → Term
  | .prefix => sym "prefix" | .neighbor => sym "neighbor" | .aspath => sym "aspath"
  | .comm => sym "comm" | .ext => sym "ext" | .large => sym "large"

def rpkiOf? : Term → Option RpkiSt
  | .atom "nf" => some .notFound | .atom "valid" => some .valid | .atom "invalid" => some .invalid | _ => none
def rpkiT : RpkiSt → Term
  | .notFound => sym "nf" | .valid => sym "valid" | .invalid => sym "invalid"

/-! ## routes -/

def attrOf? : Term → Option Attr
  | .list [.atom "a", c, f, .list [.atom "v", v]] => do pure ⟨← u8Of? c, ← u8Of? f, .val (← u32Of? v)⟩
  | .list [.atom "a", c, f, b] => do
      let bs ← asBytes? b
      pure ⟨← u8Of? c, ← u8Of? f, .bin bs⟩
  | _ => none
def attrT (a : Attr) : Term :=
  tag "a" [nat a.code, nat a.flags,
    match a.data with
    | .val v => tag "v" [nat v]
    | .bin b => bytes b]

def srcOf? : Term → Option Source
  | .list [.atom "src", .atom "local"] => some ⟨true, 0, 0, ⟨false, 0⟩, ⟨false, 0⟩⟩
  | .list [.atom "src", .list [.atom "peer", ra, la, radr, ladr]] => do
      pure ⟨false, ← u32Of? ra, ← u32Of? la, ← addrOf? radr, ← addrOf? ladr⟩
  | _ => none

def routeOf? : Term → Option Route
  | .list [.atom "route", src, .list [.atom "net", a, m], .list (.atom "attrs" :: al),
           .list [.atom "nh", nh], .list [.atom "onh", onh], .list [.atom "confed", cf],
           .list [.atom "laddr", la], .list [.atom "paddr", pa], .list [.atom "rpki", rp]] => do
      let rpki ← (match rp with
        | .atom "none" => some none
        | t => (rpkiOf? t).map some)
      pure { src := ← srcOf? src, net := ← addrOf? a, mask := ← u8Of? m, attrs := ← al.mapM attrOf?,
             nh := ← optAddrOf? nh, origNh := ← optAddrOf? onh, confed := ← asBool? cf,
             localAddr := ← addrOf? la, peerAddr := ← addrOf? pa, rpki := rpki }
  | _ => none

/-! ## set elements, conditions, actions -/

def singleOf? : Term → Option Single
  | .list [.atom "inc", a] => (u32Of? a).map .inc
  | .list [.atom "left", a] => (u32Of? a).map .left
  | .list [.atom "orig", a] => (u32Of? a).map .orig
  | .list [.atom "only", a] => (u32Of? a).map .only
  | .list [.atom "rinc", a, b] => do pure (.rinc (← u32Of? a) (← u32Of? b))
  | .list [.atom "rleft", a, b] => do pure (.rleft (← u32Of? a) (← u32Of? b))
  | .list [.atom "rorig", a, b] => do pure (.rorig (← u32Of? a) (← u32Of? b))
  | .list [.atom "ronly", a, b] => do pure (.ronly (← u32Of? a) (← u32Of? b))
  | _ => none
def singleT : Single → Term
  | .inc a => tag "inc" [nat a] | .left a => tag "left" [nat a] | .orig a => tag "orig" [nat a]
  | .only a => tag "only" [nat a] | .rinc a b => tag "rinc" [nat a, nat b]
  | .rleft a b => tag "rleft" [nat a, nat b] | .rorig a b => tag "rorig" [nat a, nat b]
  | .ronly a b => tag "ronly" [nat a, nat b]

def pentryOf? : Term → Option PEntry
  | .list [.atom "p", a, m, lo, hi] => do pure ⟨← addrOf? a, ← u8Of? m, ← u8Of? lo, ← u8Of? hi⟩
  | _ => none
def pentryT (e : PEntry) : Term := tag "p" [addrT e.addr, nat e.mask, nat e.lo, nat e.hi]

def elemOf? (k : SetKind) (t : Term) : Option Elem :=
  match k with
  | .prefix => (match t with | .atom "raw" => some .raw | t => (pentryOf? t).map .pfx)
  | .neighbor =>
      (match t with
       | .atom "raw" => some .raw
       | .list [.atom "n", a, m] => do pure (.nbr (← addrOf? a) (← u8Of? m))
       | _ => none)
  | .aspath =>
      (match t with
       | .list [.atom "re", .atom s] => some (.pat s)
       | t => (singleOf? t).map .single)
  | _ => (asSym? t).map .pat

def famOf? : Term → Option (Nat × Nat)
  | .list [a, s] => do
      let afi ← asNat? a
      if afi < 65536 then pure (afi, ← u8Of? s) else none
  | _ => none

def rtypeOf? : Term → Option RouteType
  | .atom "internal" => some .internal | .atom "external" => some .external | .atom "local" => some .local
  | _ => none
def rtypeT : RouteType → Term
  | .internal => sym "internal" | .external => sym "external" | .local => sym "local"

def condOf? : Term → Option CondCfg
  | .list [.atom "cset", k, .atom n, o] => do pure (.set (← kindOf? k) n (← optOf? o))
  | .list (.atom "nexthop" :: l) => (l.mapM addrOf?).map (fun l => .plain (.nexthop l))
  | .list [.atom "aslen", c, n] => do pure (.plain (.asPathLen (← cmpOf? c) (← u32Of? n)))
  | .list [.atom "rpki", s] => (rpkiOf? s).map (fun s => .plain (.rpki s))
  | .list [.atom "lpeq", n] => (u32Of? n).map (fun n => .plain (.localPrefEq n))
  | .list [.atom "medeq", n] => (u32Of? n).map (fun n => .plain (.medEq n))
  | .list [.atom "origin", n] => (u8Of? n).map (fun n => .plain (.origin n))
  | .list [.atom "rtype", t] => (rtypeOf? t).map (fun t => .plain (.routeType t))
  | .list [.atom "ccount", c, n] => do pure (.plain (.commCount (← cmpOf? c) (← u32Of? n)))
  | .list (.atom "afi" :: l) => (l.mapM famOf?).map (fun l => .plain (.afiSafiIn l))
  | _ => none
def condT : CondCfg → Term
  | .set k n o => tag "cset" [kindT k, sym n, optT o]
  | .plain (.nexthop l) => tag "nexthop" (l.map addrT)
  | .plain (.asPathLen c n) => tag "aslen" [cmpT c, nat n]
  | .plain (.rpki s) => tag "rpki" [rpkiT s]
  | .plain (.localPrefEq n) => tag "lpeq" [nat n]
  | .plain (.medEq n) => tag "medeq" [nat n]
  | .plain (.origin n) => tag "origin" [nat n]
  | .plain (.routeType t) => tag "rtype" [rtypeT t]
  | .plain (.commCount c n) => tag "ccount" [cmpT c, nat n]
  | .plain (.afiSafiIn l) => tag "afi" (l.map (fun f => list [nat f.1, nat f.2]))

def catOf? : Term → Option CAT
  | .atom "add" => some .add | .atom "remove" => some .remove | .atom "replace" => some .replace | _ => none
def catT : CAT → Term
  | .add => sym "add" | .remove => sym "remove" | .replace => sym "replace"

def tripleOf? : Term → Option (Nat × Nat × Nat)
  | .list [a, b, c] => do pure (← u32Of? a, ← u32Of? b, ← u32Of? c)
  | _ => none

def bytes8Of? (t : Term) : Option Bytes := do
  let b ← asBytes? t
  if b.length = 8 then pure b else none

/-- one action item folded into the action record (a later item of the same kind wins, as in the
    harness) -/
def actionInto (acc : Actions) : Term → Option Actions
  | .list [.atom "nh", .list [.atom "addr", a]] => (addrOf? a).map (fun a => { acc with nexthop := some (.addr a) })
  | .list [.atom "nh", .atom "self"] => some { acc with nexthop := some .self }
  | .list [.atom "nh", .atom "peer"] => some { acc with nexthop := some .peer }
  | .list [.atom "nh", .atom "unchanged"] => some { acc with nexthop := some .unchanged }
  | .list [.atom "comm", t, l] => do pure { acc with community := some (← catOf? t, ← asListOf? u32Of? l) }
  | .list [.atom "lp", n] => (u32Of? n).map (fun n => { acc with localPref := some n })
  | .list [.atom "med", .atom "mod", v] => (intOf? v).map (fun v => { acc with med := some (true, v) })
  | .list [.atom "med", .atom "replace", v] => (intOf? v).map (fun v => { acc with med := some (false, v) })
  | .list [.atom "prep", a, n, b] => do pure { acc with asPrepend := some (← u32Of? a, ← u32Of? n, ← asBool? b) }
  | .list [.atom "ext", t, l] => do pure { acc with ext := some (← catOf? t, ← asListOf? bytes8Of? l) }
  | .list [.atom "large", t, l] => do pure { acc with large := some (← catOf? t, ← asListOf? tripleOf? l) }
  | .list [.atom "origin", n] => (u8Of? n).map (fun n => { acc with origin := some n })
  | _ => none

def actionsOf? : Term → Option Actions
  | .list l => l.foldlM actionInto {}
  | _ => none

def actionsT (a : Actions) : Term :=
  list (
    (match a.nexthop with
     | none => []
     | some (.addr x) => [tag "nh" [tag "addr" [addrT x]]]
     | some .self => [tag "nh" [sym "self"]]
     | some .peer => [tag "nh" [sym "peer"]]
     | some .unchanged => [tag "nh" [sym "unchanged"]]) ++
    (match a.community with | none => [] | some (t, l) => [tag "comm" [catT t, list (l.map nat)]]) ++
    (match a.localPref with | none => [] | some v => [tag "lp" [nat v]]) ++
    (match a.med with
     | none => []
     | some (m, v) => [tag "med" [sym (if m then "mod" else "replace"), intT v]]) ++
    (match a.asPrepend with | none => [] | some (x, n, b) => [tag "prep" [nat x, nat n, bool b]]) ++
    (match a.ext with | none => [] | some (t, l) => [tag "ext" [catT t, list (l.map bytes)]]) ++
    (match a.large with
     | none => []
     | some (t, l) => [tag "large" [catT t, list (l.map (fun c => list [nat c.1, nat c.2.1, nat c.2.2]))]]) ++
    (match a.origin with | none => [] | some v => [tag "origin" [nat v]]))

def namesOf? (t : Term) : Option (List String) := asListOf? asSym? t

/-! ## ops and cases -/

def opOf? : Term → Option Op
  | .list [.atom "set-add", k, .atom n, .list es] => do
      let k ← kindOf? k
      pure (.setAdd k n (← es.mapM (elemOf? k)))
  | .list [.atom "set-replace", k, .atom n, .list es] => do
      let k ← kindOf? k
      pure (.setReplace k n (← es.mapM (elemOf? k)))
  | .list [.atom "set-del", k, .atom n, all, .list es] => do
      let k ← kindOf? k
      pure (.setDel k n (← asBool? all) (← es.mapM (elemOf? k)))
  | .list [.atom "stmt-add", .atom n, .list cs, d, a] => do
      pure (.stmtAdd n (← cs.mapM condOf?) (← odispOf? d) (← actionsOf? a))
  | .list [.atom "stmt-del", .atom n, all, .list cs, d, a] => do
      pure (.stmtDel n (← asBool? all) (← cs.mapM condOf?) (← odispOf? d) (← actionsOf? a))
  | .list [.atom "pol-add", .atom n, ss] => do pure (.polAdd n (← namesOf? ss))
  | .list [.atom "pol-del", .atom n, pr, all, ss] => do
      pure (.polDel n (← asBool? pr) (← asBool? all) (← namesOf? ss))
  | .list [.atom "asg-add", d, .atom n, df, ps] => do
      pure (.asgAdd (← dirOf? d) n (← dispOf? df) (← namesOf? ps))
  | .list [.atom "asg-set", d, .atom n, df, ps] => do
      pure (.asgSet (← dirOf? d) n (← dispOf? df) (← namesOf? ps))
  | .list [.atom "asg-del", d, all, ps] => do pure (.asgDel (← dirOf? d) (← asBool? all) (← namesOf? ps))
  | _ => none

def caseOf? : Term → Option Case
  | .list [.atom "case", .list (.atom "probes" :: rs), .list (.atom "ops" :: ops)] => do
      pure ⟨← rs.mapM routeOf?, ← ops.mapM opOf?⟩
  | _ => none

/-! ## dumps -/

def zeroT (z : Option (Nat × Nat)) : Term := opt (fun p => list [nat p.1, nat p.2]) z
def zeroOf? : Term → Option (Option (Nat × Nat)) :=
  asOpt? (fun t => match t with
    | .list [a, b] => do pure (← u8Of? a, ← u8Of? b)
    | _ => none)

def setT (key : SetKind × String) (s : SetObj) : Term :=
  match s with
  | .prefix es z z6 => tag "set" [kindT key.1, sym key.2, list (es.map pentryT), zeroT z, zeroT z6]
  | .neighbor l => tag "set" [kindT key.1, sym key.2, list (l.map (fun n => tag "n" [addrT n.1, nat n.2]))]
  | .aspath ss rs => tag "set" [kindT key.1, sym key.2, list (ss.map singleT), list (rs.map sym)]
  | .strs l => tag "set" [kindT key.1, sym key.2, list (l.map sym)]

def nbrOf? : Term → Option (Addr × Nat)
  | .list [.atom "n", a, m] => do pure (← addrOf? a, ← u8Of? m)
  | _ => none

def setOf? : Term → Option ((SetKind × String) × SetObj)
  | .list [.atom "set", .atom "prefix", .atom n, es, z, z6] => do
      pure ((.prefix, n), .prefix (← asListOf? pentryOf? es) (← zeroOf? z) (← zeroOf? z6))
  | .list [.atom "set", .atom "neighbor", .atom n, l] => do
      pure ((.neighbor, n), .neighbor (← asListOf? nbrOf? l))
  | .list [.atom "set", .atom "aspath", .atom n, ss, rs] => do
      pure ((.aspath, n), .aspath (← asListOf? singleOf? ss) (← asListOf? asSym? rs))
  | .list [.atom "set", k, .atom n, l] => do
      let k ← kindOf? k
      if k = .comm ∨ k = .ext ∨ k = .large then pure ((k, n), .strs (← asListOf? asSym? l)) else none
  | _ => none

/-- `=` = "exactly the objects the names resolve to in this listing" -/
def heldSetsT (d : Dump) (st : DStmt) (objs : List SetObj) : Term :=
  if Spec.expectedHeldSets d st == some objs then sym "=" else list (List.zipWith setT (Spec.setRefs st) objs)

def dstmtT (d : Dump) (s : DStmt) (objs : List SetObj) : Term :=
  tag "stmt" [sym s.name, list (s.conds.map condT), odispT s.disp, actionsT s.acts, heldSetsT d s objs]

def heldSetsOf? (d : Dump) (st : DStmt) : Term → Option (List SetObj)
  | .atom "=" => Spec.expectedHeldSets d st
  | t => (asListOf? setOf? t).map (fun l => l.map (·.2))

def dstmtOf? (d : Dump) : Term → Option (DStmt × List SetObj)
  | .list [.atom "stmt", .atom n, .list cs, dd, a, h] => do
      let st : DStmt := ⟨n, ← cs.mapM condOf?, ← odispOf? dd, ← actionsOf? a⟩
      pure (st, ← heldSetsOf? d st h)
  | _ => none

def dpolT (d : Dump) (p : DPol) (hs : List (DStmt × List SetObj)) : Term :=
  tag "pol" [sym p.name, list (p.stmts.map sym),
    if Spec.expectedHeldStmts d p == some hs then sym "=" else list (hs.map (fun h => dstmtT d h.1 h.2))]

def dpolOf? (d : Dump) : Term → Option (DPol × List (DStmt × List SetObj))
  | .list [.atom "pol", .atom n, ss, h] => do
      let p : DPol := ⟨n, ← namesOf? ss⟩
      let hs ← (match h with
        | .atom "=" => Spec.expectedHeldStmts d p
        | t => asListOf? (dstmtOf? d) t)
      pure (p, hs)
  | _ => none

def dasgT : Option DAsg → Term
  | none => sym "none"
  | some a => tag "asg" [sym a.name, dispT a.dflt, list (a.pols.map sym), bool a.rpki]
def dasgOf? : Term → Option (Option DAsg)
  | .atom "none" => some none
  | .list [.atom "asg", .atom n, d, ps, r] => do pure (some ⟨n, ← dispOf? d, ← namesOf? ps, ← asBool? r⟩)
  | _ => none

def zipWith3T {α β} (f : α → β → Term) : List α → List β → List Term
  | a :: as, b :: bs => f a b :: zipWith3T f as bs
  | _, _ => []

def dumpT (d : Dump) : Term :=
  tag "dump" [list (d.sets.map (fun s => setT s.1 s.2)), list (zipWith3T (dstmtT d) d.stmts d.heldSets),
              list (zipWith3T (dpolT d) d.pols d.heldStmts), dasgT d.imp, dasgT d.exp]
def dumpOf? : Term → Option Dump
  | .list [.atom "dump", ss, st, ps, i, e] => do
      let sets ← asListOf? setOf? ss
      let d0 : Dump := ⟨sets, [], [], none, none, [], []⟩
      let stmts ← asListOf? (dstmtOf? d0) st
      let d1 : Dump := { d0 with stmts := stmts.map (·.1) }
      let pols ← asListOf? (dpolOf? d1) ps
      pure ⟨sets, stmts.map (·.1), pols.map (·.1), ← dasgOf? i, ← dasgOf? e, stmts.map (·.2), pols.map (·.2)⟩
  | _ => none

/-! ## observations (`=` stands for "same as the input" / "same dump as the step before") -/

def resT : Res → Term
  | .ok => sym "ok" | .invalid => tag "err" [sym "invalid"] | .exists_ => tag "err" [sym "exists"]
  | .notFound => tag "err" [sym "notfound"] | .inUse => tag "err" [sym "inuse"]
def resOf? : Term → Option Res
  | .atom "ok" => some .ok
  | .list [.atom "err", .atom "invalid"] => some .invalid
  | .list [.atom "err", .atom "exists"] => some .exists_
  | .list [.atom "err", .atom "notfound"] => some .notFound
  | .list [.atom "err", .atom "inuse"] => some .inUse
  | _ => none

def presT (r : Route) : PRes → Term
  | .panic => sym "panic"
  | .r d attrs nh =>
      tag "r" [dispT d,
        if attrs = r.attrs then sym "=" else list (attrs.map attrT),
        if nh = r.nh then sym "=" else opt addrT nh]
def presOf? (r : Route) : Term → Option PRes
  | .atom "panic" => some .panic
  | .list [.atom "r", d, a, n] => do
      let attrs ← (match a with
        | .atom "=" => some r.attrs
        | t => asListOf? attrOf? t)
      let nh ← (match n with
        | .atom "=" => some r.nh
        | t => optAddrOf? t)
      pure (.r (← dispOf? d) attrs nh)
  | _ => none

def zipWithM? {α β γ} (f : α → β → Option γ) : List α → List β → Option (List γ)
  | [], [] => some []
  | a :: as, b :: bs => do pure ((← f a b) :: (← zipWithM? f as bs))
  | _, _ => none

def probesT (tg : String) (rs : List Route) : Option (List PRes) → Term
  | none => tag tg [sym "none"]
  | some l => tag tg (List.zipWith presT rs l)
def probesOf? (tg : String) (rs : List Route) : Term → Option (Option (List PRes))
  | .list [.atom t, .atom "none"] => if t = tg then some none else none
  | .list (.atom t :: l) => if t = tg then (zipWithM? presOf? rs l).map some else none
  | _ => none

def obsStepsT (rs : List Route) : Option Term → Obs → List Term
  | _, [] => []
  | _, .panic :: _ => [tag "step" [sym "panic"]]
  | prev, .step res d i e :: r =>
      let dt := dumpT d
      tag "step" [resT res, if prev == some dt then sym "=" else dt, probesT "imp" rs i, probesT "exp" rs e]
        :: obsStepsT rs (some dt) r

def obsT (rs : List Route) (o : Obs) : Term := tag "obs" (obsStepsT rs none o)

def obsStepsOf? (rs : List Route) : Option Dump → List Term → Option Obs
  | _, [] => some []
  | _, [.list [.atom "step", .atom "panic"]] => some [.panic]
  | prev, .list [.atom "step", res, d, i, e] :: r => do
      let dump ← (match d with
        | .atom "=" => prev
        | t => dumpOf? t)
      let rest ← obsStepsOf? rs (some dump) r
      pure (.step (← resOf? res) dump (← probesOf? "imp" rs i) (← probesOf? "exp" rs e) :: rest)
  | _, _ => none

def obsOf? (rs : List Route) : Term → Option Obs
  | .list (.atom "obs" :: steps) => obsStepsOf? rs none steps
  | _ => none

end Rbgp.Policy.Codec
