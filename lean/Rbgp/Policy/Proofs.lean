/-
  Rbgp.Policy.Proofs — helper lemmas for C14 (the statements are in `Props.lean`):
    * `ProofsBytes` : byte-level AS_PATH helpers vs. the segment-level reading;
    * `ProofsEval`  : conditions, actions and chaining of one evaluation vs. the reference chain;
    * `ProofsCrud`  : the reference-closure invariant `Inv` under every CRUD call;
    * `ProofsCheck` : `check_run_ok` — the reference checker accepts every run of the model;
    * `ProofsD`, `ProofsDCheck` : the invariant extended to the daemon-side holders (`DInv`) and
      `dcheck_run_ok` for daemon-level cases.
-/
import Rbgp.Policy.ProofsBytes
import Rbgp.Policy.ProofsEval
import Rbgp.Policy.ProofsCrud
import Rbgp.Policy.ProofsCheck
import Rbgp.Policy.ProofsStored
import Rbgp.Policy.ProofsD
import Rbgp.Policy.ProofsDCheck
