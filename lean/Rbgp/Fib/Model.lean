/-
  Rbgp.Fib.Model — executable model of the kernel-FIB / next-hop-tracking side of
  daemon/src/table_manager.rs (C20):

    insert_route / remove_route / unregister_peer (drop + mark_stale) /
    drop_stale_families / soft_reset_in / update_nexthop_validity,
    nht_register, TableShard::distribute_update (FIB part incl. VRF import),

  on top of a small model of the table functions they call
  (table/src/lib.rs: insert, remove, drop, drop_stale, restale,
  update_nexthop_validity, lookup_nexthop, collect_adj_in_paths,
  NlriChange::{new_best, ecmp_paths}), and of the `watched` reference counts of
  kernel/src/lib.rs run_service_loop.

  Abstractions (checked only by the correspondence stream):
  * a path carries just the decision attributes the histories vary
    (LOCAL_PREF, eBGP/iBGP, GR-stale, CLUSTER_LIST length, router id); the other
    steps of `impl Ord for RibEntry` are constant in every generated path;
  * `Arc` identities are numbers: `sid` (the `Source` allocation), `aid` (the
    attribute vector allocation), `uid` (stands for `local_path_id`: kept on
    replacement, fresh otherwise);
  * the GR-stale flag of a `Source` is stored per path: a source that was marked
    is never used for a later insertion (a new session gets a new `Source`) and
    `mark_stale` is applied to all families of the peer in one operation;
  * hash maps are lists; iteration order only shows in the order of requests
    *between different keys*, which the observation canonicalises.
  Import-free (core only).
-/
namespace Rbgp.Fib

/-- A prefix: family tag (0 = IPv4, 1 = IPv6, 2 = VPNv4, 3 = VPNv6) and an index. -/
structure Pfx where
  fam : Nat
  id : Nat
  deriving DecidableEq, Repr, Inhabited

/-- VPN prefix as seen inside a VRF (`vpn_to_local_nlri`). -/
def Pfx.local (p : Pfx) : Pfx := ⟨if p.fam == 2 then 0 else 1, p.id⟩
def Pfx.isVpn (p : Pfx) : Bool := p.fam == 2 || p.fam == 3

abbrev Addr := Nat

def srcLocal : Nat := 100
def srcKernel : Nat := 101
/-- `Source::is_local() || Source::is_kernel()` negated. -/
def isPeer (src : Nat) : Bool := !(src == srcLocal || src == srcKernel)
/-- What `Source.remote_addr` is compared by: the local and the kernel source both use 0.0.0.0. -/
def addrKey (src : Nat) : Nat := if isPeer src then src else srcLocal

structure Path where
  src : Nat          -- peer index, `srcLocal` or `srcKernel`
  sid : Nat          -- identity of the `Arc<Source>`
  pid : Nat          -- remote path id
  nh : Addr          -- `Nexthop::addr()`
  ll : Bool          -- the next hop is the `V6LinkLocal` variant (same `addr()`, different `Nexthop`)
  flt : Bool         -- FLAG_FILTERED
  inv : Bool         -- FLAG_NEXTHOP_INVALID
  stale : Bool       -- source.is_stale()
  llgr : Bool        -- source.is_llgr_stale()
  aid : Nat          -- identity of the attribute `Arc`
  uid : Nat          -- local_path_id
  lc : Bool          -- LLGR_STALE community present
  nollgr : Bool      -- NO_LLGR community present
  lp : Nat
  asl : Nat          -- AS_PATH length
  org : Nat          -- ORIGIN
  eb : Bool          -- role.prefers_over_ibgp()
  cl : Nat           -- CLUSTER_LIST length
  rid : Nat          -- originator id / router id
  rts : List Nat     -- route targets in EXTENDED_COMMUNITY
  deriving DecidableEq, Repr, Inhabited

structure Dest where
  pfx : Pfx
  paths : List Path
  deriving DecidableEq, Repr, Inhabited

inductive Cond where
  | any
  | peer (k : Nat)
  | nh (a : Addr)
  deriving DecidableEq, Repr

inductive Act where
  | set (a : Addr)
  | rej
  | acc
  deriving DecidableEq, Repr

structure Rule where
  cond : Cond
  act : Act
  deriving DecidableEq, Repr

/-- `[]` = no import policy installed. -/
abbrev Policy := List Rule

/-- what an announcement carries besides prefix, path id and next hop address -/
structure Attrs where
  lp : Nat
  cl : Nat
  rts : List Nat
  asl : Nat
  org : Nat
  lc : Bool        -- LLGR_STALE community
  nollgr : Bool    -- NO_LLGR community
  ll : Bool        -- next hop sent as global + link-local pair
  deriving DecidableEq, Repr

inductive Op where
  | ins (src : Nat) (p : Pfx) (pid : Nat) (nh : Addr) (att : Attrs)
  | rm (src : Nat) (p : Pfx) (pid : Nat)
  | down (k : Nat)       -- unregister_peer(drop all families)
  | drop (k : Nat)       -- drop_families(all families)
  | stale (k : Nat)      -- unregister_peer(stale all families)
  | purge (k : Nat)      -- drop_stale_families
  | llgr (k : Nat)       -- mark_llgr_stale
  | lpurge (k : Nat)     -- drop_llgr_stale_families
  | soft (k : Nat)
  | pol (rules : Policy)
  | nh (a : Addr) (reachable : Bool)
  | undefer (f : Nat)    -- end_deferral_families([f])
  | insl (src : Nat) (p : Pfx) (pid : Nat) (nh : Addr) (att : Attrs)
                         -- insert_route with the per-peer prefix limit reached (max 0)
  | gdown (k : Nat) (m : Nat)  -- unregister_peer: family f staled when bit f of m is set, dropped otherwise
  | purgef (k : Nat) (f : Nat) -- drop_stale_families([f])  (End-of-RIB of one family)
  deriving DecidableEq, Repr

structure Vrf where
  tid : Nat
  imp : List Nat
  deriving DecidableEq, Repr

structure Cfg where
  peers : List (Nat × Nat)   -- (router id, role: 0 = eBGP, 1 = iBGP, 2 = iBGP route-reflector client)
  vrfs : List Vrf
  defer : List Nat           -- families in restarting-speaker deferral from the start
  deriving DecidableEq, Repr

/-- Requests sent through the `KernelHandle` (table 0 = main table). -/
inductive Req where
  | apply (table : Nat) (p : Pfx) (nhs : List Addr)
  | reg (a : Addr)
  | unreg (a : Addr)
  deriving DecidableEq, Repr

structure St where
  dests : List Dest
  cur : List Nat        -- sid of the current `Source` of each peer
  next : Nat            -- fresh identities
  invalid : List Addr   -- TableManager.nexthop_invalid
  policy : Policy
  deferring : List Nat  -- families whose `Rib.deferring` is set
  deriving DecidableEq, Repr

-- ---------------------------------------------------------------- ranking (impl Ord for RibEntry)

def b2n (b : Bool) : Nat := if b then 1 else 0

/-- `RibEntry::is_llgr_stale` -/
def Path.isLl (p : Path) : Bool := p.llgr || p.lc

/-- `RibEntry::cmp`: not LLGR-stale first, higher LOCAL_PREF, shorter AS_PATH, lower ORIGIN, eBGP
    over iBGP, not stale over stale, shorter CLUSTER_LIST, lower router id. -/
def cmpPath (e a : Path) : Ordering :=
  (compare (b2n e.isLl) (b2n a.isLl)).then
  ((compare a.lp e.lp).then
  ((compare e.asl a.asl).then
  ((compare e.org a.org).then
  ((compare (b2n a.eb) (b2n e.eb)).then
  ((compare (b2n e.stale) (b2n a.stale)).then
  ((compare e.cl a.cl).then
   (compare e.rid a.rid)))))))

/-- `entry.cmp(a).is_ge()` -/
def cmpGe (e a : Path) : Bool := cmpPath e a != .lt

/-- `partition_point(|a| entry.cmp(a).is_ge())` followed by `insert(idx, entry)` on a sorted list:
    after every element that is not worse. -/
def insertSorted (e : Path) : List Path → List Path
  | [] => [e]
  | a :: t => if cmpGe e a then a :: insertSorted e t else e :: a :: t

/-- `sort_unstable` on at most 20 elements is an insertion sort; equal elements keep their order. -/
def sortPaths (l : List Path) : List Path := l.foldl (fun acc p => insertSorted p acc) []

/-- `Destination::unfiltered_iter` -/
def eligible (l : List Path) : List Path := l.filter (fun p => !p.flt && !p.inv)

/-- `(Arc::as_ptr(source), Arc::as_ptr(attr), nexthop)` of `unfiltered_best()` -/
def bestKey (l : List Path) : Option (Nat × Nat × Addr × Bool) :=
  (eligible l).head?.map (fun p => (p.sid, p.aid, p.nh, p.ll))

/-- `unfiltered_best().map(|e| e.path.local_path_id)` -/
def bestId (l : List Path) : Option Nat := (eligible l).head?.map (·.uid)

-- ---------------------------------------------------------------- NlriChange

structure Change where
  pfx : Pfx
  bestChanged : Bool
  anyChanged : Bool
  paths : List Path      -- current_paths
  deriving DecidableEq, Repr

/-- the tuple compared by `NlriChange::ecmp_paths` -/
def ecmpKey (p : Path) : Bool × Nat × Nat × Nat × Bool × Bool × Nat :=
  (p.isLl, p.lp, p.asl, p.org, p.eb, p.stale, p.cl)

/-- `NlriChange::ecmp_paths` -/
def ecmpPaths (cur : List Path) : List Path :=
  match cur with
  | [] => []
  | b :: _ => cur.takeWhile (fun p => ecmpKey p == ecmpKey b)

/-- `Vrf::can_import` -/
def canImport (v : Vrf) (rts : List Nat) : Bool := rts.any (fun r => v.imp.contains r)

/-- `if update.new_best().is_none() { vec![] } else { ecmp_paths().filter_map(|p| p.nexthop) }` -/
def changeNhs (c : Change) : List Addr :=
  match c.paths.head? with
  | none => []
  | some _ => (ecmpPaths c.paths).map (·.nh)

/-- `update.new_best().is_some_and(|p| vrf.can_import(&p.attr))` -/
def bestImports (v : Vrf) (c : Change) : Bool :=
  match c.paths.head? with
  | some b => canImport v b.rts
  | none => false

/-- FIB part of `TableShard::distribute_update` (with a kernel handle installed): the main-table
    request, and for a VPN prefix one request per VRF with a table: install where the best path is
    imported, withdraw elsewhere. -/
def distribute (cfg : Cfg) (c : Change) : List Req :=
  if c.bestChanged || (c.anyChanged && c.paths.head?.isSome) then
    Req.apply 0 c.pfx (changeNhs c) ::
      (if c.pfx.isVpn then
        cfg.vrfs.filterMap (fun v =>
          if v.tid == 0 then none
          else some (Req.apply v.tid c.pfx.local (if bestImports v c then changeNhs c else [])))
      else [])
  else []

/-- `nht_register` -/
def nhtRegister (src : Nat) (newNh : Addr) (oldNh : Option Addr) : List Req :=
  if !isPeer src then []
  else Req.reg newNh :: (match oldNh with | some o => [Req.unreg o] | none => [])

-- ---------------------------------------------------------------- import policy

def condMatch (c : Cond) (src : Nat) (nh : Addr) : Bool :=
  match c with
  | .any => true
  | .peer k => isPeer src && src == k
  | .nh a => nh == a

/-- `apply_import`: (filtered, next hop after policy).  Every statement has a disposition, so the
    first matching one decides; the default action is accept. -/
def applyImport : Policy → Nat → Addr → Bool × Addr
  | [], _, nh => (false, nh)
  | r :: rs, src, nh =>
      if condMatch r.cond src nh then
        match r.act with
        | .set a => (false, a)
        | .rej => (true, nh)
        | .acc => (false, nh)
      else applyImport rs src nh

/-- the deciding statement rewrites the next hop (`NexthopAction::Address` yields a plain `V4`/`V6`
    next hop, never the link-local pair) -/
def importSets : Policy → Nat → Addr → Bool
  | [], _, _ => false
  | r :: rs, src, nh =>
      if condMatch r.cond src nh then
        match r.act with
        | .set _ => true
        | _ => false
      else importSets rs src nh

-- ---------------------------------------------------------------- table functions on one destination

def samePath (src pid : Nat) (a : Path) : Bool := addrKey a.src == addrKey src && a.pid == pid
def fromAddr (k : Nat) (a : Path) : Bool := addrKey a.src == k

/-- The stored path matching a predicate, and the list without it.  (`Table::insert`/`remove`
    match on (remote address, path id), which identifies at most one stored path.) -/
def extract (f : Path → Bool) : List Path → Option (Path × List Path)
  | [] => none
  | a :: t =>
    if f a then some (a, t)
    else match extract f t with
      | some (r, t') => some (r, a :: t')
      | none => none

/-- `Table::lookup_nexthop` -/
def lookupNexthop (paths : List Path) (src pid : Nat) : Option Addr :=
  match extract (samePath src pid) paths with
  | some (r, _) => some r.nh
  | none => none

def mkChange (pfx : Pfx) (bc ac : Bool) (paths : List Path) : Change :=
  ⟨pfx, bc, ac, eligible paths⟩

/-- `Table::insert` on the destination's path list.  `e.uid` holds a fresh id, used when nothing is
    replaced. -/
def insertPaths (pfx : Pfx) (paths : List Path) (e : Path) : List Path × Option Change :=
  let oldKey := bestKey paths
  match extract (samePath e.src e.pid) paths with
  | some (r, rest) =>
    let paths' := insertSorted { e with uid := r.uid } rest
    let bc := oldKey != bestKey paths'
    let ac := !e.flt || !r.flt
    (paths', if !bc && !ac then none else some (mkChange pfx bc ac paths'))
  | none =>
    let paths' := insertSorted e paths
    let bc := oldKey != bestKey paths'
    let ac := !e.flt
    (paths', if !bc && !ac then none else some (mkChange pfx bc ac paths'))

/-- `Table::remove`: (new list, change, next hop of the removed path); `none` when nothing matches. -/
def removePaths (pfx : Pfx) (paths : List Path) (src pid : Nat) :
    Option (List Path × Option Change × Addr) :=
  match extract (samePath src pid) paths with
  | none => none
  | some (r, rest) =>
    let oldKey := bestKey paths
    if rest.isEmpty then
      some (rest, (if !r.flt then some ⟨pfx, true, true, []⟩ else none), r.nh)
    else
      let bc := oldKey != bestKey rest
      let ac := !r.flt
      some (rest, (if !bc && !ac then none else some (mkChange pfx bc ac rest)), r.nh)

/-- one destination of `Table::drop` / `Table::drop_stale` (`sel` = the paths to remove):
    (new list, change, next hops of the removed paths) -/
def dropPaths (pfx : Pfx) (paths : List Path) (sel : Path → Bool) :
    List Path × Option Change × List Addr :=
  if !paths.any sel then (paths, none, [])
  else
    let oldId := bestId paths
    let removedAnyUnfiltered := paths.any (fun e => sel e && (!e.flt && !e.inv))
    let nhs := (paths.filter sel).map (·.nh)
    let rest := paths.filter (fun e => !sel e)
    if !removedAnyUnfiltered then (rest, none, nhs)
    else if rest.isEmpty then (rest, some ⟨pfx, true, true, []⟩, nhs)
    else (rest, some (mkChange pfx (oldId != bestId rest) true rest), nhs)

/-- one destination of `Table::restale` (`mark` sets the stale flag) / `Table::restale_llgr`
    (`mark` sets the LLGR-stale flag) -/
def restalePaths (pfx : Pfx) (paths : List Path) (k : Nat) (mark : Path → Path) : List Path × Option Change :=
  if !paths.any (fromAddr k) then (paths, none)
  else
    let oldId := bestId paths
    let anyUnf := paths.any (fun e => fromAddr k e && !e.flt)
    let marked := paths.map (fun e => if fromAddr k e then mark e else e)
    let sorted := sortPaths marked
    let bc := oldId != bestId sorted
    (sorted, if bc || anyUnf then some (mkChange pfx bc anyUnf sorted) else none)

def markStale (e : Path) : Path := { e with stale := true }
def markLlgr (e : Path) : Path := { e with llgr := true }

def headFrom (k : Nat) (cur : List Path) : Bool :=
  match cur.head? with
  | some b => fromAddr k b
  | none => false

/-- the changes `Table::restale_llgr` reports for a re-sorted destination: as `restale`, but a best
    path of the peer that keeps its rank also counts as a changed best, and every eligible path of
    the peer is reported as replaced in a change of its own (all carrying the same path list). -/
def llgrChanges (pfx : Pfx) (oldId : Option Nat) (anyUnf : Bool) (sorted : List Path) (k : Nat) : List Change :=
  let cur := eligible sorted
  let bc := oldId != bestId sorted || headFrom k cur
  if !(bc || anyUnf) then []
  else
    let n := (cur.filter (fromAddr k)).length
    if n == 0 then [⟨pfx, bc, anyUnf, cur⟩]
    else (List.range n).map (fun i => ⟨pfx, bc && i == 0, true, cur⟩)

/-- one destination of `Table::restale_llgr` -/
def restaleLlgrPaths (pfx : Pfx) (paths : List Path) (k : Nat) : List Path × List Change :=
  if !paths.any (fromAddr k) then (paths, [])
  else
    let sorted := sortPaths (paths.map (fun e => if fromAddr k e then markLlgr e else e))
    (sorted, llgrChanges pfx (bestId paths) (paths.any (fun e => fromAddr k e && !e.flt)) sorted k)

/-- one destination of `Table::update_nexthop_validity` -/
def validityPaths (pfx : Pfx) (paths : List Path) (a : Addr) (reachable : Bool) :
    List Path × Option Change :=
  let oldKey := bestKey paths
  let anyFlip := paths.any (fun e => e.nh == a && e.inv != !reachable)
  let paths' := paths.map (fun e => if e.nh == a then { e with inv := !reachable } else e)
  if !anyFlip then (paths, none)
  else (paths', some (mkChange pfx (oldKey != bestKey paths') true paths'))

-- ---------------------------------------------------------------- destinations

def lookupDest (ds : List Dest) (p : Pfx) : List Path :=
  match ds.find? (fun d => d.pfx == p) with
  | some d => d.paths
  | none => []

/-- replace (or create, or delete when empty) the destination of `p` -/
def setDest (ds : List Dest) (p : Pfx) (paths : List Path) : List Dest :=
  if paths.isEmpty then ds.filter (fun d => !(d.pfx == p))
  else if ds.any (fun d => d.pfx == p) then ds.map (fun d => if d.pfx == p then ⟨p, paths⟩ else d)
  else ds ++ [⟨p, paths⟩]

/-- Apply a per-destination function to every destination (the shard / family / hash-map loops of
    the `TableManager`); an emptied destination is deleted.  Requests of different destinations
    never share a key, so their relative order is immaterial. -/
def trav (f : Pfx → List Path → List Path × List Req) : List Dest → List Dest × List Req
  | [] => ([], [])
  | d :: ds =>
    let r := f d.pfx d.paths
    let rs := trav f ds
    ((if r.1.isEmpty then rs.1 else ⟨d.pfx, r.1⟩ :: rs.1), r.2 ++ rs.2)

-- ---------------------------------------------------------------- TableManager operations

def ridOf (cfg : Cfg) (src : Nat) : Nat := if isPeer src then ((cfg.peers[src]?).map (·.1)).getD 0 else 0
/-- `role.prefers_over_ibgp()`: eBGP peers only (the local and kernel sources are iBGP) -/
def ebOf (cfg : Cfg) (src : Nat) : Bool := isPeer src && ((cfg.peers[src]?).map (·.2)).getD 0 == 0
def sidOf (st : St) (src : Nat) : Nat :=
  if src == srcLocal then 0 else if src == srcKernel then 1 else (st.cur[src]?).getD 0
def validSrc (cfg : Cfg) (src : Nat) : Bool := src == srcLocal || src == srcKernel || src < cfg.peers.length

def distOpt (cfg : Cfg) : Option Change → List Req
  | some c => distribute cfg c
  | none => []

/-- while the family is deferring (`Rib.deferring`) the table functions report no change -/
def distD (cfg : Cfg) (dfr : Bool) (ch : Option Change) : List Req := if dfr then [] else distOpt cfg ch

def dfrOf (deferring : List Nat) (p : Pfx) : Bool := deferring.contains p.fam

/-- `TableManager::insert_route` on the destination of the prefix. -/
def insertDest (cfg : Cfg) (dfr : Bool) (policy : Policy) (invalid : List Addr) (p : Pfx) (paths : List Path)
    (src sid pid : Nat) (nh0 : Addr) (att : Attrs) (fresh : Nat) : List Path × List Req :=
  let oldNh := lookupNexthop paths src pid
  let pr := applyImport policy src nh0
  let e : Path := { src := src, sid := sid, pid := pid, nh := pr.2, ll := att.ll && !importSets policy src nh0, flt := pr.1,
                    inv := invalid.contains pr.2, stale := false, llgr := false, aid := fresh, uid := fresh + 1,
                    lc := att.lc, nollgr := att.nollgr, lp := att.lp, asl := att.asl, org := att.org,
                    eb := ebOf cfg src, cl := att.cl, rid := ridOf cfg src, rts := att.rts }
  let r := insertPaths p paths e
  (r.1, nhtRegister src pr.2 oldNh ++ distD cfg dfr r.2)

def insertRoute (cfg : Cfg) (st : St) (src : Nat) (p : Pfx) (pid : Nat) (nh0 : Addr) (att : Attrs) : St × List Req :=
  let r := insertDest cfg (dfrOf st.deferring p) st.policy st.invalid p (lookupDest st.dests p) src (sidOf st src)
    pid nh0 att st.next
  ({ st with dests := setDest st.dests p r.1, next := st.next + 2 }, r.2)

/-- `TableManager::remove_route` on the destination of the prefix. -/
def removeDest (cfg : Cfg) (dfr : Bool) (p : Pfx) (paths : List Path) (src pid : Nat) : List Path × List Req :=
  match removePaths p paths src pid with
  | none => (paths, [])
  | some (rest, ch, oldNh) =>
    (rest, distD cfg dfr ch ++ (if isPeer src then [Req.unreg oldNh] else []))

def removeRoute (cfg : Cfg) (st : St) (src : Nat) (p : Pfx) (pid : Nat) : St × List Req :=
  let r := removeDest cfg (dfrOf st.deferring p) p (lookupDest st.dests p) src pid
  ({ st with dests := setDest st.dests p r.1 }, r.2)

/-- `TableShard::disconnected` / `drop_stale` / `drop_llgr_stale` / the `drop_no_llgr` half of
    `mark_llgr_stale` on one destination. -/
def dropDest (cfg : Cfg) (deferring : List Nat) (sel : Path → Bool) (p : Pfx) (paths : List Path) :
    List Path × List Req :=
  let r := dropPaths p paths sel
  (r.1, distD cfg (dfrOf deferring p) r.2.1 ++ r.2.2.map Req.unreg)

/-- `TableShard::mark_stale` on one destination. -/
def restaleDest (cfg : Cfg) (deferring : List Nat) (k : Nat) (p : Pfx) (paths : List Path) :
    List Path × List Req :=
  let r := restalePaths p paths k markStale
  (r.1, distD cfg (dfrOf deferring p) r.2)

/-- `TableShard::mark_llgr_stale` on one destination: mark LLGR-stale and re-sort, then delete the
    paths that carry NO_LLGR. -/
def llgrDest (cfg : Cfg) (deferring : List Nat) (k : Nat) (p : Pfx) (paths : List Path) : List Path × List Req :=
  let r1 := restaleLlgrPaths p paths k
  let q1 := if dfrOf deferring p then [] else r1.2.flatMap (distribute cfg)
  let r2 := dropDest cfg deferring (fun e => fromAddr k e && e.nollgr) p r1.1
  (r2.1, q1 ++ r2.2)

/-- `TableManager::update_nexthop_validity` (table part) on one destination. -/
def validityDest (cfg : Cfg) (deferring : List Nat) (a : Addr) (reachable : Bool) (p : Pfx) (paths : List Path) :
    List Path × List Req :=
  let r := validityPaths p paths a reachable
  (r.1, distD cfg (dfrOf deferring p) r.2)

/-- One path of `TableShard::soft_reset_in`: re-apply the import policy to the stored path
    (`collect_adj_in_paths` hands over the stored next hop) and re-insert it. -/
def softOne (cfg : Cfg) (dfr : Bool) (policy : Policy) (invalid : List Addr) (pfx : Pfx)
    (paths : List Path) (old : Path) : List Path × List Req :=
  let oldNh := lookupNexthop paths old.src old.pid
  let pr := applyImport policy old.src old.nh
  let nht := if isPeer old.src && oldNh != some pr.2 then
      Req.reg pr.2 :: (match oldNh with | some o => [Req.unreg o] | none => [])
    else []
  let e : Path := { old with nh := pr.2, ll := old.ll && !importSets policy old.src old.nh, flt := pr.1, inv := invalid.contains pr.2 }
  let r := insertPaths pfx paths e
  (r.1, nht ++ distD cfg dfr r.2)

def softPaths (cfg : Cfg) (dfr : Bool) (policy : Policy) (invalid : List Addr) (pfx : Pfx) :
    List Path → List Path → List Path × List Req
  | [], paths => (paths, [])
  | o :: os, paths =>
    let r1 := softOne cfg dfr policy invalid pfx paths o
    let r2 := softPaths cfg dfr policy invalid pfx os r1.1
    (r2.1, r1.2 ++ r2.2)

/-- `TableShard::soft_reset_in` on one destination: the non-stale paths of the peer as collected
    before any re-insertion, processed in that order. -/
def softDest (cfg : Cfg) (deferring : List Nat) (policy : Policy) (invalid : List Addr) (k : Nat) (p : Pfx)
    (paths : List Path) : List Path × List Req :=
  softPaths cfg (dfrOf deferring p) policy invalid p (paths.filter (fun e => fromAddr k e && !e.stale)) paths

/-- `TableShard::end_deferral` on one destination of the released family: `collect_loc_rib_paths`
    reports every destination that has an eligible path as changed. -/
def undeferDest (cfg : Cfg) (f : Nat) (p : Pfx) (paths : List Path) : List Path × List Req :=
  (paths, if p.fam == f && !(eligible paths).isEmpty then distribute cfg ⟨p, true, true, eligible paths⟩ else [])

def setCur (cur : List Nat) (k v : Nat) : List Nat := cur.set k v

def famBit (m f : Nat) : Bool := (m / 2 ^ f) % 2 == 1

/-- `TableManager::unregister_peer` on one destination: its family is either dropped or staled -/
def gdownDest (cfg : Cfg) (deferring : List Nat) (k m : Nat) (p : Pfx) (paths : List Path) : List Path × List Req :=
  if famBit m p.fam then restaleDest cfg deferring k p paths else dropDest cfg deferring (fromAddr k) p paths

/-- `drop_stale_families` of a single family on one destination -/
def purgefDest (cfg : Cfg) (deferring : List Nat) (k f : Nat) (p : Pfx) (paths : List Path) : List Path × List Req :=
  if p.fam == f then dropDest cfg deferring (fun e => fromAddr k e && e.stale) p paths else (paths, [])

/-- `Table::insert` with the prefix limit reached refuses a prefix that is new for the SESSION (nothing
    is stored, nothing registered): the counter belongs to one `Source`, a path held stale from an
    earlier session of the peer does not count; another path for a prefix this session already
    announced is accepted -/
def limitAdmits (paths : List Path) (sid : Nat) : Bool := paths.any (fun a => a.sid == sid)

def Attrs.wf (a : Attrs) : Bool :=
  a.lp < 4294967296 && a.cl ≤ 3 && a.rts.all (· ≤ 1000) && a.asl ≤ 3 && a.org ≤ 2

/-- An op is well formed when the harness can execute it (otherwise both sides answer `(bad-case)`). -/
def Op.wf (cfg : Cfg) : Op → Bool
  | .ins src p pid nx att =>
      validSrc cfg src && p.fam ≤ 3 && p.id ≤ 250 && pid < 4294967296 && nx < 200 && att.wf && (!att.ll || 100 ≤ nx)
  | .rm src p pid => validSrc cfg src && p.fam ≤ 3 && p.id ≤ 250 && pid < 4294967296
  | .down k | .drop k | .stale k | .purge k | .llgr k | .lpurge k | .soft k => k < cfg.peers.length
  | .pol rules => rules.all (fun r =>
      (match r.cond with | .any => true | .peer k => k < 8 | .nh a => a < 200) &&
      (match r.act with | .set a => a < 200 | _ => true))
  | .nh a _ => a < 200
  | .undefer f => f ≤ 3
  | .insl src p pid nx att =>
      src < cfg.peers.length && p.fam ≤ 3 && p.id ≤ 250 && pid < 4294967296 && nx < 200 && att.wf && (!att.ll || 100 ≤ nx)
  | .gdown k m => k < cfg.peers.length && m < 16
  | .purgef k f => k < cfg.peers.length && f ≤ 3

/-- distinct VRFs use distinct kernel tables (table id 0 = no table) -/
def vrfsDistinct : List Vrf → Bool
  | [] => true
  | v :: vs => (v.tid == 0 || vs.all (fun w => w.tid != v.tid)) && vrfsDistinct vs

def Cfg.wf (cfg : Cfg) : Bool :=
  0 < cfg.peers.length && cfg.peers.length ≤ 8 && cfg.peers.all (fun p => p.1 < 4294967296 && p.2 ≤ 2) &&
  cfg.vrfs.all (fun v => v.tid ≤ 100000 && v.imp.all (· ≤ 1000)) && vrfsDistinct cfg.vrfs &&
  cfg.defer.all (· ≤ 3)

def St.init (cfg : Cfg) : St :=
  { dests := [], cur := (List.range cfg.peers.length).map (· + 2), next := cfg.peers.length + 2,
    invalid := [], policy := [], deferring := cfg.defer }

/-- One history step on the `TableManager`; requests in the order they are sent (up to the
    interleaving of different destinations). -/
def step (cfg : Cfg) (st : St) : Op → St × List Req
  | .ins src p pid nh att => insertRoute cfg st src p pid nh att
  | .rm src p pid => removeRoute cfg st src p pid
  | .down k =>
      let r := trav (dropDest cfg st.deferring (fromAddr k)) st.dests
      ({ st with dests := r.1, cur := setCur st.cur k st.next, next := st.next + 1 }, r.2)
  | .drop k =>
      let r := trav (dropDest cfg st.deferring (fromAddr k)) st.dests
      ({ st with dests := r.1 }, r.2)
  | .stale k =>
      let r := trav (restaleDest cfg st.deferring k) st.dests
      ({ st with dests := r.1, cur := setCur st.cur k st.next, next := st.next + 1 }, r.2)
  | .purge k =>
      let r := trav (dropDest cfg st.deferring (fun e => fromAddr k e && e.stale)) st.dests
      ({ st with dests := r.1 }, r.2)
  | .llgr k =>
      let r := trav (llgrDest cfg st.deferring k) st.dests
      ({ st with dests := r.1, cur := setCur st.cur k st.next, next := st.next + 1 }, r.2)
  | .lpurge k =>
      let r := trav (dropDest cfg st.deferring (fun e => fromAddr k e && e.llgr)) st.dests
      ({ st with dests := r.1 }, r.2)
  | .soft k =>
      let r := trav (softDest cfg st.deferring st.policy st.invalid k) st.dests
      ({ st with dests := r.1 }, r.2)
  | .pol rules => ({ st with policy := rules }, [])
  | .nh a reachable =>
      let invalid := if reachable then st.invalid.filter (· != a)
                     else if st.invalid.contains a then st.invalid else a :: st.invalid
      let r := trav (validityDest cfg st.deferring a reachable) st.dests
      ({ st with dests := r.1, invalid := invalid }, r.2)
  | .undefer f =>
      let r := trav (undeferDest cfg f) st.dests
      ({ st with dests := r.1, deferring := st.deferring.filter (· != f) }, r.2)
  | .insl src p pid nh att =>
      if limitAdmits (lookupDest st.dests p) (sidOf st src) then insertRoute cfg st src p pid nh att else (st, [])
  | .gdown k m =>
      let r := trav (gdownDest cfg st.deferring k m) st.dests
      ({ st with dests := r.1, cur := setCur st.cur k st.next, next := st.next + 1 }, r.2)
  | .purgef k f =>
      let r := trav (purgefDest cfg st.deferring k f) st.dests
      ({ st with dests := r.1 }, r.2)

/-- The run: after every op, the requests it caused and the table contents. -/
def runFrom (cfg : Cfg) : St → List Op → List (List Req × List Dest)
  | _, [] => []
  | st, op :: ops =>
    let r := step cfg st op
    (r.2, r.1.dests) :: runFrom cfg r.1 ops

def run (cfg : Cfg) (ops : List Op) : List (List Req × List Dest) := runFrom cfg (St.init cfg) ops

-- ---------------------------------------------------------------- run_service_loop refcounts

/-- The `watched` map of `run_service_loop`: address ↦ count (absent = not watched). -/
abbrev Watched := List (Addr × Nat)

def watchedGet (w : Watched) (a : Addr) : Nat :=
  match w.find? (fun e => e.1 == a) with
  | some e => e.2
  | none => 0

/-- `Request::RegisterNexthop`: new map and whether a NexthopUpdate is emitted (count became 1). -/
def svcRegister (w : Watched) (a : Addr) : Watched × Bool :=
  let c := watchedGet w a + 1
  ((a, c) :: w.filter (fun e => !(e.1 == a)), c == 1)

/-- `Request::UnregisterNexthop`: removed at `<= 1`, decremented otherwise, ignored when absent. -/
def svcUnregister (w : Watched) (a : Addr) : Watched :=
  if watchedGet w a ≤ 1 then w.filter (fun e => !(e.1 == a))
  else (a, watchedGet w a - 1) :: w.filter (fun e => !(e.1 == a))

/-- Service run over register (`true`) / unregister (`false`) requests: emission flag of every
    request (unregister never emits) and the final map. -/
def svcRun : Watched → List (Bool × Addr) → List Bool × Watched
  | w, [] => ([], w)
  | w, (true, a) :: rs =>
      let (w', e) := svcRegister w a
      let (es, wf) := svcRun w' rs
      (e :: es, wf)
  | w, (false, a) :: rs =>
      let (es, wf) := svcRun (svcUnregister w a) rs
      (false :: es, wf)

/-- Service run over register / unregister requests and route events (`none`).  A route event makes
    the loop look every watched address up again and emit a NexthopUpdate for those whose answer
    changed; the answers of the kernel are not modelled and are taken not to change, so nothing is
    emitted and the map stays. -/
def svcRunE : Watched → List (Option (Bool × Addr)) → List Bool × Watched
  | w, [] => ([], w)
  | w, none :: rs =>
      let (es, wf) := svcRunE w rs
      (false :: es, wf)
  | w, some (true, a) :: rs =>
      let (w', e) := svcRegister w a
      let (es, wf) := svcRunE w' rs
      (e :: es, wf)
  | w, some (false, a) :: rs =>
      let (es, wf) := svcRunE (svcUnregister w a) rs
      (false :: es, wf)

end Rbgp.Fib
