/-
  Rbgp.Fib.Model — executable model of the kernel-FIB / next-hop-tracking side of
  daemon/src/table_manager.rs (C20):

    insert_route / remove_route / unregister_peer (drop + mark_stale) /
    drop_stale_families / soft_reset_in / update_nexthop_validity,
    nht_register, TableShard::distribute_update (FIB part incl. VRF import),

  on top of a small model of the table functions they call
  (table/src/lib.rs: insert, remove, drop, drop_stale, restale,
  update_nexthop_validity, lookup_nexthop, collect_adj_in_paths,
  NlriChange::{new_best, ecmp_paths}), and of the `watched` reference counts of
  kernel/src/lib.rs run_service_loop.

  Abstractions (checked only by the correspondence stream):
  * a path carries just the decision attributes the histories vary
    (LOCAL_PREF, eBGP/iBGP, GR-stale, CLUSTER_LIST length, router id); the other
    steps of `impl Ord for RibEntry` are constant in every generated path;
  * `Arc` identities are numbers: `sid` (the `Source` allocation), `aid` (the
    attribute vector allocation), `uid` (stands for `local_path_id`: kept on
    replacement, fresh otherwise);
  * the GR-stale flag of a `Source` is stored per path: a source that was marked
    is never used for a later insertion (a new session gets a new `Source`) and
    `mark_stale` is applied to all families of the peer in one operation;
  * hash maps are lists; iteration order only shows in the order of requests
    *between different keys*, which the observation canonicalises.
  Import-free (core only).
-/
namespace Rbgp.Fib

/-- A prefix: family tag (0 = IPv4, 1 = IPv6, 2 = VPNv4) and an index. -/
structure Pfx where
  fam : Nat
  id : Nat
  deriving DecidableEq, Repr, Inhabited

/-- VPN prefix as seen inside a VRF (`vpn_to_local_nlri`). -/
def Pfx.local (p : Pfx) : Pfx := ⟨0, p.id⟩
def Pfx.isVpn (p : Pfx) : Bool := p.fam == 2

abbrev Addr := Nat

def srcLocal : Nat := 100
def srcKernel : Nat := 101
/-- `Source::is_local() || Source::is_kernel()` negated. -/
def isPeer (src : Nat) : Bool := !(src == srcLocal || src == srcKernel)
/-- What `Source.remote_addr` is compared by: the local and the kernel source both use 0.0.0.0. -/
def addrKey (src : Nat) : Nat := if isPeer src then src else srcLocal

structure Path where
  src : Nat          -- peer index, `srcLocal` or `srcKernel`
  sid : Nat          -- identity of the `Arc<Source>`
  pid : Nat          -- remote path id
  nh : Addr
  flt : Bool         -- FLAG_FILTERED
  inv : Bool         -- FLAG_NEXTHOP_INVALID
  stale : Bool       -- source.is_stale()
  aid : Nat          -- identity of the attribute `Arc`
  uid : Nat          -- local_path_id
  lp : Nat
  eb : Bool          -- role.prefers_over_ibgp()
  cl : Nat           -- CLUSTER_LIST length
  rid : Nat          -- originator id / router id
  rts : List Nat     -- route targets in EXTENDED_COMMUNITY
  deriving DecidableEq, Repr, Inhabited

structure Dest where
  pfx : Pfx
  paths : List Path
  deriving DecidableEq, Repr, Inhabited

inductive Cond where
  | any
  | peer (k : Nat)
  | nh (a : Addr)
  deriving DecidableEq, Repr

inductive Act where
  | set (a : Addr)
  | rej
  | acc
  deriving DecidableEq, Repr

structure Rule where
  cond : Cond
  act : Act
  deriving DecidableEq, Repr

/-- `[]` = no import policy installed. -/
abbrev Policy := List Rule

inductive Op where
  | ins (src : Nat) (p : Pfx) (pid : Nat) (nh : Addr) (lp cl : Nat) (rts : List Nat)
  | rm (src : Nat) (p : Pfx) (pid : Nat)
  | down (k : Nat)
  | stale (k : Nat)
  | purge (k : Nat)
  | soft (k : Nat)
  | pol (rules : Policy)
  | nh (a : Addr) (reachable : Bool)
  deriving DecidableEq, Repr

structure Vrf where
  tid : Nat
  imp : List Nat
  deriving DecidableEq, Repr

structure Cfg where
  rids : List Nat
  vrfs : List Vrf
  deriving DecidableEq, Repr

/-- Requests sent through the `KernelHandle` (table 0 = main table). -/
inductive Req where
  | apply (table : Nat) (p : Pfx) (nhs : List Addr)
  | reg (a : Addr)
  | unreg (a : Addr)
  deriving DecidableEq, Repr

structure St where
  dests : List Dest
  cur : List Nat        -- sid of the current `Source` of each peer
  next : Nat            -- fresh identities
  invalid : List Addr   -- TableManager.nexthop_invalid
  policy : Policy
  deriving DecidableEq, Repr

-- ---------------------------------------------------------------- ranking (impl Ord for RibEntry)

def b2n (b : Bool) : Nat := if b then 1 else 0

/-- `RibEntry::cmp` on the attributes that vary: higher LOCAL_PREF, eBGP over iBGP,
    not stale over stale, shorter CLUSTER_LIST, lower router id. -/
def cmpPath (e a : Path) : Ordering :=
  (compare a.lp e.lp).then
  ((compare (b2n a.eb) (b2n e.eb)).then
  ((compare (b2n e.stale) (b2n a.stale)).then
  ((compare e.cl a.cl).then
   (compare e.rid a.rid))))

/-- `entry.cmp(a).is_ge()` -/
def cmpGe (e a : Path) : Bool := cmpPath e a != .lt

/-- `partition_point(|a| entry.cmp(a).is_ge())` followed by `insert(idx, entry)` on a sorted list:
    after every element that is not worse. -/
def insertSorted (e : Path) : List Path → List Path
  | [] => [e]
  | a :: t => if cmpGe e a then a :: insertSorted e t else e :: a :: t

/-- `sort_unstable` on at most 20 elements is an insertion sort; equal elements keep their order. -/
def sortPaths (l : List Path) : List Path := l.foldl (fun acc p => insertSorted p acc) []

/-- `Destination::unfiltered_iter` -/
def eligible (l : List Path) : List Path := l.filter (fun p => !p.flt && !p.inv)

/-- `(Arc::as_ptr(source), Arc::as_ptr(attr), nexthop)` of `unfiltered_best()` -/
def bestKey (l : List Path) : Option (Nat × Nat × Addr) :=
  (eligible l).head?.map (fun p => (p.sid, p.aid, p.nh))

/-- `unfiltered_best().map(|e| e.path.local_path_id)` -/
def bestId (l : List Path) : Option Nat := (eligible l).head?.map (·.uid)

-- ---------------------------------------------------------------- NlriChange

structure Change where
  pfx : Pfx
  bestChanged : Bool
  anyChanged : Bool
  paths : List Path      -- current_paths
  deriving DecidableEq, Repr

/-- the tuple compared by `NlriChange::ecmp_paths` -/
def ecmpKey (p : Path) : Nat × Bool × Bool × Nat := (p.lp, p.eb, p.stale, p.cl)

/-- `NlriChange::ecmp_paths` -/
def ecmpPaths (cur : List Path) : List Path :=
  match cur with
  | [] => []
  | b :: _ => cur.takeWhile (fun p => ecmpKey p == ecmpKey b)

/-- `Vrf::can_import` -/
def canImport (v : Vrf) (rts : List Nat) : Bool := rts.any (fun r => v.imp.contains r)

/-- `if update.new_best().is_none() { vec![] } else { ecmp_paths().filter_map(|p| p.nexthop) }` -/
def changeNhs (c : Change) : List Addr :=
  match c.paths.head? with
  | none => []
  | some _ => (ecmpPaths c.paths).map (·.nh)

/-- `update.new_best().is_some_and(|p| vrf.can_import(&p.attr))` -/
def bestImports (v : Vrf) (c : Change) : Bool :=
  match c.paths.head? with
  | some b => canImport v b.rts
  | none => false

/-- FIB part of `TableShard::distribute_update` (with a kernel handle installed). -/
def distribute (cfg : Cfg) (c : Change) : List Req :=
  if c.bestChanged || (c.anyChanged && c.paths.head?.isSome) then
    Req.apply 0 c.pfx (changeNhs c) ::
      (if c.pfx.isVpn then
        cfg.vrfs.filterMap (fun v =>
          if v.tid == 0 then none
          else if (changeNhs c).isEmpty || bestImports v c
          then some (Req.apply v.tid c.pfx.local (changeNhs c)) else none)
      else [])
  else []

/-- `nht_register` -/
def nhtRegister (src : Nat) (newNh : Addr) (oldNh : Option Addr) : List Req :=
  if !isPeer src then []
  else Req.reg newNh :: (match oldNh with | some o => [Req.unreg o] | none => [])

-- ---------------------------------------------------------------- import policy

def condMatch (c : Cond) (src : Nat) (nh : Addr) : Bool :=
  match c with
  | .any => true
  | .peer k => isPeer src && src == k
  | .nh a => nh == a

/-- `apply_import`: (filtered, next hop after policy).  Every statement has a disposition, so the
    first matching one decides; the default action is accept. -/
def applyImport : Policy → Nat → Addr → Bool × Addr
  | [], _, nh => (false, nh)
  | r :: rs, src, nh =>
      if condMatch r.cond src nh then
        match r.act with
        | .set a => (false, a)
        | .rej => (true, nh)
        | .acc => (false, nh)
      else applyImport rs src nh

-- ---------------------------------------------------------------- table functions on one destination

def samePath (src pid : Nat) (a : Path) : Bool := addrKey a.src == addrKey src && a.pid == pid
def fromAddr (k : Nat) (a : Path) : Bool := addrKey a.src == k

/-- The stored path matching a predicate, and the list without it.  (`Table::insert`/`remove`
    match on (remote address, path id), which identifies at most one stored path.) -/
def extract (f : Path → Bool) : List Path → Option (Path × List Path)
  | [] => none
  | a :: t =>
    if f a then some (a, t)
    else match extract f t with
      | some (r, t') => some (r, a :: t')
      | none => none

/-- `Table::lookup_nexthop` -/
def lookupNexthop (paths : List Path) (src pid : Nat) : Option Addr :=
  match extract (samePath src pid) paths with
  | some (r, _) => some r.nh
  | none => none

def mkChange (pfx : Pfx) (bc ac : Bool) (paths : List Path) : Change :=
  ⟨pfx, bc, ac, eligible paths⟩

/-- `Table::insert` on the destination's path list.  `e.uid` holds a fresh id, used when nothing is
    replaced. -/
def insertPaths (pfx : Pfx) (paths : List Path) (e : Path) : List Path × Option Change :=
  let oldKey := bestKey paths
  match extract (samePath e.src e.pid) paths with
  | some (r, rest) =>
    let paths' := insertSorted { e with uid := r.uid } rest
    let bc := oldKey != bestKey paths'
    let ac := !e.flt || !r.flt
    (paths', if !bc && !ac then none else some (mkChange pfx bc ac paths'))
  | none =>
    let paths' := insertSorted e paths
    let bc := oldKey != bestKey paths'
    let ac := !e.flt
    (paths', if !bc && !ac then none else some (mkChange pfx bc ac paths'))

/-- `Table::remove`: (new list, change, next hop of the removed path); `none` when nothing matches. -/
def removePaths (pfx : Pfx) (paths : List Path) (src pid : Nat) :
    Option (List Path × Option Change × Addr) :=
  match extract (samePath src pid) paths with
  | none => none
  | some (r, rest) =>
    let oldKey := bestKey paths
    if rest.isEmpty then
      some (rest, (if !r.flt then some ⟨pfx, true, true, []⟩ else none), r.nh)
    else
      let bc := oldKey != bestKey rest
      let ac := !r.flt
      some (rest, (if !bc && !ac then none else some (mkChange pfx bc ac rest)), r.nh)

/-- one destination of `Table::drop` / `Table::drop_stale` (`sel` = the paths to remove):
    (new list, change, next hops of the removed paths) -/
def dropPaths (pfx : Pfx) (paths : List Path) (sel : Path → Bool) :
    List Path × Option Change × List Addr :=
  if !paths.any sel then (paths, none, [])
  else
    let oldId := bestId paths
    let removedAnyUnfiltered := paths.any (fun e => sel e && (!e.flt && !e.inv))
    let nhs := (paths.filter sel).map (·.nh)
    let rest := paths.filter (fun e => !sel e)
    if !removedAnyUnfiltered then (rest, none, nhs)
    else if rest.isEmpty then (rest, some ⟨pfx, true, true, []⟩, nhs)
    else (rest, some (mkChange pfx (oldId != bestId rest) true rest), nhs)

/-- one destination of `Table::restale` -/
def restalePaths (pfx : Pfx) (paths : List Path) (k : Nat) : List Path × Option Change :=
  if !paths.any (fromAddr k) then (paths, none)
  else
    let oldId := bestId paths
    let anyUnf := paths.any (fun e => fromAddr k e && !e.flt)
    let marked := paths.map (fun e => if fromAddr k e then { e with stale := true } else e)
    let sorted := sortPaths marked
    let bc := oldId != bestId sorted
    (sorted, if bc || anyUnf then some (mkChange pfx bc anyUnf sorted) else none)

/-- one destination of `Table::update_nexthop_validity` -/
def validityPaths (pfx : Pfx) (paths : List Path) (a : Addr) (reachable : Bool) :
    List Path × Option Change :=
  let oldKey := bestKey paths
  let anyFlip := paths.any (fun e => e.nh == a && e.inv != !reachable)
  let paths' := paths.map (fun e => if e.nh == a then { e with inv := !reachable } else e)
  if !anyFlip then (paths, none)
  else (paths', some (mkChange pfx (oldKey != bestKey paths') true paths'))

-- ---------------------------------------------------------------- destinations

def lookupDest (ds : List Dest) (p : Pfx) : List Path :=
  match ds.find? (fun d => d.pfx == p) with
  | some d => d.paths
  | none => []

/-- replace (or create, or delete when empty) the destination of `p` -/
def setDest (ds : List Dest) (p : Pfx) (paths : List Path) : List Dest :=
  if paths.isEmpty then ds.filter (fun d => !(d.pfx == p))
  else if ds.any (fun d => d.pfx == p) then ds.map (fun d => if d.pfx == p then ⟨p, paths⟩ else d)
  else ds ++ [⟨p, paths⟩]

/-- Apply a per-destination function to every destination (the shard / family / hash-map loops of
    the `TableManager`); an emptied destination is deleted.  Requests of different destinations
    never share a key, so their relative order is immaterial. -/
def trav (f : Pfx → List Path → List Path × List Req) : List Dest → List Dest × List Req
  | [] => ([], [])
  | d :: ds =>
    let r := f d.pfx d.paths
    let rs := trav f ds
    ((if r.1.isEmpty then rs.1 else ⟨d.pfx, r.1⟩ :: rs.1), r.2 ++ rs.2)

-- ---------------------------------------------------------------- TableManager operations

def ridOf (cfg : Cfg) (src : Nat) : Nat := if isPeer src then (cfg.rids[src]?).getD 0 else 0
def sidOf (st : St) (src : Nat) : Nat :=
  if src == srcLocal then 0 else if src == srcKernel then 1 else (st.cur[src]?).getD 0
def validSrc (cfg : Cfg) (src : Nat) : Bool := src == srcLocal || src == srcKernel || src < cfg.rids.length

def distOpt (cfg : Cfg) : Option Change → List Req
  | some c => distribute cfg c
  | none => []

/-- `TableManager::insert_route` on the destination of the prefix. -/
def insertDest (cfg : Cfg) (policy : Policy) (invalid : List Addr) (p : Pfx) (paths : List Path)
    (src sid pid : Nat) (nh0 : Addr) (lp cl : Nat) (rts : List Nat) (fresh : Nat) : List Path × List Req :=
  let oldNh := lookupNexthop paths src pid
  let pr := applyImport policy src nh0
  let e : Path := { src := src, sid := sid, pid := pid, nh := pr.2, flt := pr.1,
                    inv := invalid.contains pr.2, stale := false, aid := fresh, uid := fresh + 1,
                    lp := lp, eb := isPeer src, cl := cl, rid := ridOf cfg src, rts := rts }
  let r := insertPaths p paths e
  (r.1, nhtRegister src pr.2 oldNh ++ distOpt cfg r.2)

def insertRoute (cfg : Cfg) (st : St) (src : Nat) (p : Pfx) (pid : Nat) (nh0 : Addr)
    (lp cl : Nat) (rts : List Nat) : St × List Req :=
  let r := insertDest cfg st.policy st.invalid p (lookupDest st.dests p) src (sidOf st src) pid nh0 lp cl rts st.next
  ({ st with dests := setDest st.dests p r.1, next := st.next + 2 }, r.2)

/-- `TableManager::remove_route` on the destination of the prefix. -/
def removeDest (cfg : Cfg) (p : Pfx) (paths : List Path) (src pid : Nat) : List Path × List Req :=
  match removePaths p paths src pid with
  | none => (paths, [])
  | some (rest, ch, oldNh) =>
    (rest, distOpt cfg ch ++ (if isPeer src then [Req.unreg oldNh] else []))

def removeRoute (cfg : Cfg) (st : St) (src : Nat) (p : Pfx) (pid : Nat) : St × List Req :=
  let r := removeDest cfg p (lookupDest st.dests p) src pid
  ({ st with dests := setDest st.dests p r.1 }, r.2)

/-- `TableShard::disconnected` / `TableShard::drop_stale` on one destination. -/
def dropDest (cfg : Cfg) (sel : Path → Bool) (p : Pfx) (paths : List Path) : List Path × List Req :=
  let r := dropPaths p paths sel
  (r.1, distOpt cfg r.2.1 ++ r.2.2.map Req.unreg)

/-- `TableShard::mark_stale` on one destination. -/
def restaleDest (cfg : Cfg) (k : Nat) (p : Pfx) (paths : List Path) : List Path × List Req :=
  let r := restalePaths p paths k
  (r.1, distOpt cfg r.2)

/-- `TableManager::update_nexthop_validity` (table part) on one destination. -/
def validityDest (cfg : Cfg) (a : Addr) (reachable : Bool) (p : Pfx) (paths : List Path) :
    List Path × List Req :=
  let r := validityPaths p paths a reachable
  (r.1, distOpt cfg r.2)

/-- One path of `TableShard::soft_reset_in`: re-apply the import policy to the stored path
    (`collect_adj_in_paths` hands over the stored next hop) and re-insert it. -/
def softOne (cfg : Cfg) (policy : Policy) (invalid : List Addr) (pfx : Pfx)
    (paths : List Path) (old : Path) : List Path × List Req :=
  let oldNh := lookupNexthop paths old.src old.pid
  let pr := applyImport policy old.src old.nh
  let nht := if isPeer old.src && oldNh != some pr.2 then
      Req.reg pr.2 :: (match oldNh with | some o => [Req.unreg o] | none => [])
    else []
  let e : Path := { old with nh := pr.2, flt := pr.1, inv := invalid.contains pr.2 }
  let r := insertPaths pfx paths e
  (r.1, nht ++ distOpt cfg r.2)

def softPaths (cfg : Cfg) (policy : Policy) (invalid : List Addr) (pfx : Pfx) :
    List Path → List Path → List Path × List Req
  | [], paths => (paths, [])
  | o :: os, paths =>
    let r1 := softOne cfg policy invalid pfx paths o
    let r2 := softPaths cfg policy invalid pfx os r1.1
    (r2.1, r1.2 ++ r2.2)

/-- `TableShard::soft_reset_in` on one destination: the non-stale paths of the peer as collected
    before any re-insertion, processed in that order. -/
def softDest (cfg : Cfg) (policy : Policy) (invalid : List Addr) (k : Nat) (p : Pfx)
    (paths : List Path) : List Path × List Req :=
  softPaths cfg policy invalid p (paths.filter (fun e => fromAddr k e && !e.stale)) paths

def setCur (cur : List Nat) (k v : Nat) : List Nat := cur.set k v

/-- An op is well formed when the harness can execute it (otherwise both sides answer `(bad-case)`). -/
def Op.wf (cfg : Cfg) : Op → Bool
  | .ins src p pid nx lp cl rts =>
      validSrc cfg src && p.fam ≤ 2 && p.id ≤ 250 && pid ≤ 1000 && nx < 200 && lp ≤ 1000 && cl ≤ 1 &&
      rts.all (· ≤ 1000)
  | .rm src p pid => validSrc cfg src && p.fam ≤ 2 && p.id ≤ 250 && pid ≤ 1000
  | .down k | .stale k | .purge k | .soft k => k < cfg.rids.length
  | .pol rules => rules.all (fun r =>
      (match r.cond with | .any => true | .peer k => k < 8 | .nh a => a < 200) &&
      (match r.act with | .set a => a < 200 | _ => true))
  | .nh a _ => a < 200

def Cfg.wf (cfg : Cfg) : Bool :=
  0 < cfg.rids.length && cfg.rids.length ≤ 8 && cfg.rids.all (· < 4294967296) &&
  cfg.vrfs.all (fun v => v.tid ≤ 100000 && v.imp.all (· ≤ 1000))

def St.init (cfg : Cfg) : St :=
  { dests := [], cur := (List.range cfg.rids.length).map (· + 2), next := cfg.rids.length + 2,
    invalid := [], policy := [] }

/-- One history step on the `TableManager`; requests in the order they are sent (up to the
    interleaving of different destinations). -/
def step (cfg : Cfg) (st : St) : Op → St × List Req
  | .ins src p pid nh lp cl rts => insertRoute cfg st src p pid nh lp cl rts
  | .rm src p pid => removeRoute cfg st src p pid
  | .down k =>
      let r := trav (dropDest cfg (fromAddr k)) st.dests
      ({ st with dests := r.1, cur := setCur st.cur k st.next, next := st.next + 1 }, r.2)
  | .stale k =>
      let r := trav (restaleDest cfg k) st.dests
      ({ st with dests := r.1, cur := setCur st.cur k st.next, next := st.next + 1 }, r.2)
  | .purge k =>
      let r := trav (dropDest cfg (fun e => fromAddr k e && e.stale)) st.dests
      ({ st with dests := r.1 }, r.2)
  | .soft k =>
      let r := trav (softDest cfg st.policy st.invalid k) st.dests
      ({ st with dests := r.1 }, r.2)
  | .pol rules => ({ st with policy := rules }, [])
  | .nh a reachable =>
      let invalid := if reachable then st.invalid.filter (· != a)
                     else if st.invalid.contains a then st.invalid else a :: st.invalid
      let r := trav (validityDest cfg a reachable) st.dests
      ({ st with dests := r.1, invalid := invalid }, r.2)

/-- The run: after every op, the requests it caused and the table contents. -/
def runFrom (cfg : Cfg) : St → List Op → List (List Req × List Dest)
  | _, [] => []
  | st, op :: ops =>
    let r := step cfg st op
    (r.2, r.1.dests) :: runFrom cfg r.1 ops

def run (cfg : Cfg) (ops : List Op) : List (List Req × List Dest) := runFrom cfg (St.init cfg) ops

-- ---------------------------------------------------------------- run_service_loop refcounts

/-- The `watched` map of `run_service_loop`: address ↦ count (absent = not watched). -/
abbrev Watched := List (Addr × Nat)

def watchedGet (w : Watched) (a : Addr) : Nat :=
  match w.find? (fun e => e.1 == a) with
  | some e => e.2
  | none => 0

/-- `Request::RegisterNexthop`: new map and whether a NexthopUpdate is emitted (count became 1). -/
def svcRegister (w : Watched) (a : Addr) : Watched × Bool :=
  let c := watchedGet w a + 1
  ((a, c) :: w.filter (fun e => !(e.1 == a)), c == 1)

/-- `Request::UnregisterNexthop`: removed at `<= 1`, decremented otherwise, ignored when absent. -/
def svcUnregister (w : Watched) (a : Addr) : Watched :=
  if watchedGet w a ≤ 1 then w.filter (fun e => !(e.1 == a))
  else (a, watchedGet w a - 1) :: w.filter (fun e => !(e.1 == a))

/-- Service run over register (`true`) / unregister (`false`) requests: emission flag of every
    request (unregister never emits) and the final map. -/
def svcRun : Watched → List (Bool × Addr) → List Bool × Watched
  | w, [] => ([], w)
  | w, (true, a) :: rs =>
      let (w', e) := svcRegister w a
      let (es, wf) := svcRun w' rs
      (e :: es, wf)
  | w, (false, a) :: rs =>
      let (es, wf) := svcRun (svcUnregister w a) rs
      (false :: es, wf)

end Rbgp.Fib
