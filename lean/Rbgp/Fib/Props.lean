/-
  Rbgp.Fib.Props — C20: kernel FIB requests and next-hop tracking stay in step with the RIB.

  Statements only; proofs are in Rbgp.Fib.Proofs.  A *history* is any list of operations
  (route insert / replace / remove, peer drop, GR stale marking, stale purge, soft reset IN,
  import-policy change, next-hop reachability report) that the harness can execute (`Op.wf`);
  since every prefix of a history is a history, "for all histories" is "after every step".

    fib   = replay of every `apply` request issued so far        (Spec.fibReplay)
    refs  = replay of every register / unregister request so far  (Spec.refReplay)
    unr   = addresses whose last reachability report said "unreachable"
    rib   = what the table's query API shows after the history
-/
import Rbgp.Fib.Proofs
namespace Rbgp.Fib.Props
open Rbgp.Fib Rbgp.Fib.Spec Rbgp.Fib.Codec

/-- all requests of a history, the table contents and the reports after it -/
def reqs (cfg : Cfg) (ops : List Op) : List Req := allReqs cfg (St.init cfg) ops
def fibOf (cfg : Cfg) (ops : List Op) : Fib := fibReplay [] (fibReqs (reqs cfg ops))
def ribOf (cfg : Cfg) (ops : List Op) : List DestObs := (stAfter cfg (St.init cfg) ops).dests.map destObs
def unrOf (ops : List Op) : List Addr := reports [] ops

/-- a well-formed case -/
def WF (cfg : Cfg) (ops : List Op) : Prop := cfg.wf = true ∧ ops.all (Op.wf cfg) = true
instance (cfg : Cfg) (ops : List Op) : Decidable (WF cfg ops) := by unfold WF; infer_instance

/-- **Master theorem**: the C20 reference checker accepts every run of the model. -/
theorem check_run_ok (cfg : Cfg) (ops : List Op) (h : WF cfg ops) :
    Spec.check cfg ops (obsOfRun (run cfg ops)) = .ok :=
  checkFrom_run h.1 ops _ _ _ _ _ h.2 (inv_init cfg)

/-- ... also in the canonical form that is printed and compared with the implementation (requests
    of one step that concern different FIB cells / addresses re-ordered, destinations by prefix). -/
theorem check_canon_ok (cfg : Cfg) (ops : List Op) (h : WF cfg ops) :
    Spec.check cfg ops ((obsOfRun (run cfg ops)).map canonStep) = .ok :=
  checkFrom_run_canon h.1 ops _ _ _ _ _ h.2 (inv_init cfg)

/-- After any history the replayed main-table FIB entry of every IPv4/IPv6 prefix is exactly the
    next-hop list of the best path and the paths tied with it before the router-id step, computed
    from the stored paths and the reachability reports alone (nothing if no path is eligible). -/
theorem fib_eq_ecmp (cfg : Cfg) (ops : List Op) (h : WF cfg ops) (p : Pfx) :
    fibGet (fibOf cfg ops) 0 p =
      (Spec.ecmp (Spec.eligible (unrOf ops) (ribGet (ribOf cfg ops) p))).map (·.nh) := by
  obtain ⟨_, _, hinv⟩ := inv_after h.1 ops _ _ _ _ h.2 (inv_init cfg)
  unfold fibOf reqs ribOf unrOf
  rw [ribGet_map, want_spec (hinv.sorted_lookup p) (hinv.flags_lookup p)]
  exact (hinv.cells p).main

/-- For a VPN prefix the same holds in every VRF (with a kernel table) whose import targets match
    the best path, and the VRF entry is gone when no path is eligible. -/
theorem vrf_fib_eq (cfg : Cfg) (ops : List Op) (h : WF cfg ops) (p : Pfx) (hp : p.isVpn = true)
    (v : Vrf) (hv : v ∈ cfg.vrfs) (ht : v.tid ≠ 0) :
    let el := Spec.eligible (unrOf ops) (ribGet (ribOf cfg ops) p)
    (el = [] → fibGet (fibOf cfg ops) v.tid p.local = []) ∧
    (el ≠ [] → (Spec.bests el).all (rtMatch v) = true →
      fibGet (fibOf cfg ops) v.tid p.local = (Spec.ecmp el).map (·.nh)) := by
  obtain ⟨_, _, hinv⟩ := inv_after h.1 ops _ _ _ _ h.2 (inv_init cfg)
  have hok := checkVrfPfx_ok hinv v hv p
  intro el
  have hel : el = (eligible (lookupDest (stAfter cfg (St.init cfg) ops).dests p)).map pathObs := by
    show Spec.eligible _ (ribGet (ribOf cfg ops) p) = _
    unfold ribOf unrOf
    rw [ribGet_map, spec_eligible_map (hinv.flags_lookup p)]
  constructor
  · intro he
    have : eligible (lookupDest (stAfter cfg (St.init cfg) ops).dests p) = [] := by
      rw [hel] at he; simpa using he
    exact (hinv.cells p).vrfNil hp this v hv ht
  · intro hne hall
    cases he : eligible (lookupDest (stAfter cfg (St.init cfg) ops).dests p) with
    | nil => rw [hel, he] at hne; simp at hne
    | cons b t =>
      have hs := (hinv.sorted_lookup p).eligible
      rw [he] at hs
      have hb : rtMatch v (pathObs b) = true := by
        rw [hel, he] at hall
        exact List.all_eq_true.mp hall (pathObs b) (head_mem_bests hs)
      have himp : canImport v b.rts = true := by simpa [rtMatch, canImport, pathObs] using hb
      have hcell := (hinv.cells p).vrfImp hp b t he v hv ht himp
      have hw := want_spec (hinv.sorted_lookup p) (hinv.flags_lookup p)
      rw [spec_eligible_map (hinv.flags_lookup p)] at hw
      rw [hel, hw]; exact hcell

/-- The tracking requests never unregister an address without outstanding registration, and the
    number of outstanding registrations of every address equals the number of peer-learned stored
    paths using it as next hop. -/
theorem refcount_eq_uses (cfg : Cfg) (ops : List Op) (h : WF cfg ops) :
    ∃ refs, refReplay [] (nhtReqs (reqs cfg ops)) = some refs ∧
      ∀ a, refGet refs a = Spec.uses (ribOf cfg ops) a := by
  obtain ⟨refs, e, hinv⟩ := inv_after h.1 ops _ _ _ _ h.2 (inv_init cfg)
  exact ⟨refs, e, fun a => by unfold ribOf; rw [uses_map]; exact hinv.refs a⟩

/-- The `watched` reference counts of the kernel service loop refine the reference fold: fed any
    request sequence it emits the initial reachability exactly on a first registration and ends
    with the reference counts (the C20 service checker accepts every model run). -/
theorem service_refcount_refines (log : List (Bool × Addr)) :
    (svcRun [] log).1 = (svcExpect [] log).1 ∧
    ∀ a, watchedGet (svcRun [] log).2 a = refGet (svcExpect [] log).2 a :=
  svcRun_refines log [] [] (fun _ => rfl)

/-- ... and fed the tracking requests of any history, the `watched` count of every address is the
    number of peer-learned stored paths using it. -/
theorem service_watched_eq_uses (cfg : Cfg) (ops : List Op) (h : WF cfg ops) (a : Addr) :
    watchedGet (svcRun [] (nhtReqs (reqs cfg ops))).2 a = Spec.uses (ribOf cfg ops) a := by
  obtain ⟨refs, e, hu⟩ := refcount_eq_uses cfg ops h
  rw [(service_refcount_refines _).2 a, svcExpect_of_replay _ _ _ e a, hu a]

/-- A path whose next hop's last report said "unreachable" is not eligible (by the definition the
    other theorems use), and no such address occurs in any replayed FIB entry that the property
    speaks about: the main-table entry of every prefix ... -/
theorem invalid_excluded (cfg : Cfg) (ops : List Op) (h : WF cfg ops) (p : Pfx) (a : Addr)
    (ha : a ∈ fibGet (fibOf cfg ops) 0 p) : (unrOf ops).contains a = false := by
  obtain ⟨_, _, hinv⟩ := inv_after h.1 ops _ _ _ _ h.2 (inv_init cfg)
  have hm : fibGet (fibOf cfg ops) 0 p = want (eligible (lookupDest (stAfter cfg (St.init cfg) ops).dests p)) :=
    (hinv.cells p).main
  rw [hm] at ha
  have := want_reachable (hinv.flags_lookup p)
  cases hc : (unrOf ops).contains a
  · rfl
  · exfalso
    have hany : (want (eligible (lookupDest (stAfter cfg (St.init cfg) ops).dests p))).any
        (fun a => (reports [] ops).contains a) = true := List.any_eq_true.mpr ⟨a, ha, hc⟩
    rw [this] at hany; exact absurd hany (by simp)

/-- ... and every stored path's NEXTHOP_INVALID flag is the last report about its next hop, so it
    re-enters selection exactly when the address is reported reachable again. -/
theorem invalid_flag_eq_report (cfg : Cfg) (ops : List Op) (h : WF cfg ops) (d : Dest)
    (hd : d ∈ (stAfter cfg (St.init cfg) ops).dests) (x : Path) (hx : x ∈ d.paths) :
    x.inv = (unrOf ops).contains x.nh := by
  obtain ⟨_, _, hinv⟩ := inv_after h.1 ops _ _ _ _ h.2 (inv_init cfg)
  exact hinv.flags d hd x hx

-- ---------------------------------------------------------------- non-vacuity and witnesses

/-- S30 history: two peers tied before the router-id step announce the same prefix. -/
def s30cfg : Cfg := ⟨[1, 2], []⟩
def s30ops : List Op := [.ins 0 ⟨0, 1⟩ 0 1 100 0 [], .ins 1 ⟨0, 1⟩ 0 2 100 0 []]

example : WF s30cfg s30ops := by decide
/-- with the repaired `distribute_update` the second insertion (best unchanged) re-issues the request -/
example : fibGet (fibOf s30cfg s30ops) 0 ⟨0, 1⟩ = [1, 2] := by decide
/-- the reference checker rejects what the unrepaired code did on this history (no request for the
    second insertion): observation recorded from the tree before the repair -/
example : Spec.check s30cfg s30ops
    [⟨[⟨0, ⟨0, 1⟩, [1]⟩], [(true, 1)], [⟨⟨0, 1⟩, [⟨0, 0, 1, false, false, 100, true, 0, 1, []⟩]⟩]⟩,
     ⟨[], [(true, 2)], [⟨⟨0, 1⟩, [⟨0, 0, 1, false, false, 100, true, 0, 1, []⟩,
                                   ⟨1, 0, 2, false, false, 100, true, 0, 2, []⟩]⟩]⟩]
    = .fail 1 "fib-ne-ecmp" := by decide

/-- a richer well-formed history: VPN route imported into a VRF, next hop reported unreachable
    and reachable again, GR stale + purge, soft reset after a policy that rewrites the next hop -/
def demoCfg : Cfg := ⟨[1, 2, 2], [⟨10, [1]⟩, ⟨11, [2]⟩]⟩
def demoOps : List Op :=
  [.ins 0 ⟨2, 3⟩ 0 1 100 0 [1], .ins 1 ⟨2, 3⟩ 0 2 100 0 [1], .nh 1 false, .nh 1 true,
   .pol [⟨.peer 1, .set 3⟩], .soft 1, .stale 0, .ins 0 ⟨2, 3⟩ 0 1 100 0 [1], .purge 0, .down 1]

example : WF demoCfg demoOps := by decide
example : fibGet (fibOf demoCfg demoOps) 10 ⟨0, 3⟩ = [1] := by decide
example : fibGet (fibOf demoCfg (demoOps.take 6)) 10 ⟨0, 3⟩ = [1, 3] := by decide
example : fibGet (fibOf demoCfg (demoOps.take 3)) 10 ⟨0, 3⟩ = [2] := by decide
/-- after the soft reset peer 0 still uses next hop 1, peer 1 now uses 3 (was 2) -/
example : (refReplay [] (nhtReqs (reqs demoCfg (demoOps.take 6)))).map (fun r => (refGet r 1, refGet r 2, refGet r 3))
    = some (1, 0, 1) := by decide
example : svcRun [] [(true, 1), (true, 1), (false, 1), (false, 2), (true, 2)] = ([true, false, false, false, true], [(2, 1), (1, 1)]) := by
  decide

end Rbgp.Fib.Props
