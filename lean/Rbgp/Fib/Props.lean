/-
  Rbgp.Fib.Props — C20: kernel FIB requests and next-hop tracking stay in step with the RIB.

  Statements only; proofs are in Rbgp.Fib.Proofs.  A *history* is any list of operations
  (route insert / replace / remove, peer drop through either entry point, GR stale marking and
  purge, LLGR stale marking and purge, soft reset IN, import-policy change, next-hop reachability
  report, end of restarting-speaker deferral) that the harness can execute (`Op.wf`); since every
  prefix of a history is a history, "for all histories" is "after every step".

    fib   = replay of every `apply` request issued so far        (Spec.fibReplay)
    refs  = replay of every register / unregister request so far  (Spec.refReplay)
    unr   = addresses whose last reachability report said "unreachable"
    rib   = what the table's query API shows after the history
    dfr   = families still in restarting-speaker deferral (their FIB entries are not claimed)
-/
import Rbgp.Fib.Proofs
namespace Rbgp.Fib.Props
open Rbgp.Fib Rbgp.Fib.Spec Rbgp.Fib.Codec

/-- all requests of a history, the table contents and the reports after it -/
def reqs (cfg : Cfg) (ops : List Op) : List Req := allReqs cfg (St.init cfg) ops
def fibOf (cfg : Cfg) (ops : List Op) : Fib := fibReplay [] (fibReqs (reqs cfg ops))
def ribOf (cfg : Cfg) (ops : List Op) : List DestObs := (stAfter cfg (St.init cfg) ops).dests.map destObs
def unrOf (ops : List Op) : List Addr := reports [] ops
/-- the family of `p` is still deferring after the history -/
def deferringOf (cfg : Cfg) (ops : List Op) (p : Pfx) : Bool :=
  dfrOf (stAfter cfg (St.init cfg) ops).deferring p

/-- a well-formed case -/
def WF (cfg : Cfg) (ops : List Op) : Prop := cfg.wf = true ∧ ops.all (Op.wf cfg) = true
instance (cfg : Cfg) (ops : List Op) : Decidable (WF cfg ops) := by unfold WF; infer_instance

/-- **Master theorem**: the C20 reference checker accepts every run of the model. -/
theorem check_run_ok (cfg : Cfg) (ops : List Op) (h : WF cfg ops) :
    Spec.check cfg ops (obsOfRun (run cfg ops)) = .ok :=
  checkFrom_run h.1 ops _ _ _ _ _ h.2 (inv_init cfg)

/-- ... also in the canonical form that is printed and compared with the implementation (requests
    of one step that concern different FIB cells / addresses re-ordered, destinations by prefix),
    and together with the service-feed observation. -/
theorem check_canon_ok (cfg : Cfg) (ops : List Op) (h : WF cfg ops) :
    Spec.check cfg ops ((obsOfRun (run cfg ops)).map canonStep) = .ok :=
  checkFrom_run_canon h.1 ops _ _ _ _ _ h.2 (inv_init cfg)

/-- After any history the replayed main-table FIB entry of every prefix whose family is not
    deferring is exactly the next-hop list of the best path and the paths tied with it before the
    router-id step, computed from the stored paths and the reachability reports alone (nothing if
    no path is eligible). -/
theorem fib_eq_ecmp (cfg : Cfg) (ops : List Op) (h : WF cfg ops) (p : Pfx) (hd : deferringOf cfg ops p = false) :
    fibGet (fibOf cfg ops) 0 p =
      (Spec.ecmp (Spec.eligible (unrOf ops) (ribGet (ribOf cfg ops) p))).map (·.nh) := by
  obtain ⟨_, _, hinv⟩ := inv_after h.1 ops _ _ _ _ h.2 (inv_init cfg)
  unfold fibOf reqs ribOf unrOf
  rw [ribGet_map, want_spec (hinv.sorted_lookup p) (hinv.flags_lookup p)]
  have := (hinv.cells p).main
  unfold deferringOf at hd
  simpa [visE, hd] using this

/-- For a VPN prefix, every VRF with a kernel table holds the same next hops when its import
    targets match the best path, and nothing when they do not (or no path is eligible): an entry
    never outlives the best path it was imported from. -/
theorem vrf_fib_eq (cfg : Cfg) (ops : List Op) (h : WF cfg ops) (p : Pfx) (hp : p.isVpn = true)
    (hd : deferringOf cfg ops p = false) (v : Vrf) (hv : v ∈ cfg.vrfs) (ht : v.tid ≠ 0) :
    let el := Spec.eligible (unrOf ops) (ribGet (ribOf cfg ops) p)
    (el = [] → fibGet (fibOf cfg ops) v.tid p.local = []) ∧
    (el ≠ [] → (Spec.bests el).all (rtMatch v) = true →
      fibGet (fibOf cfg ops) v.tid p.local = (Spec.ecmp el).map (·.nh)) ∧
    (el ≠ [] → (Spec.bests el).any (rtMatch v) = false → fibGet (fibOf cfg ops) v.tid p.local = []) := by
  obtain ⟨_, _, hinv⟩ := inv_after h.1 ops _ _ _ _ h.2 (inv_init cfg)
  intro el
  have hel : el = (eligible (lookupDest (stAfter cfg (St.init cfg) ops).dests p)).map pathObs := by
    show Spec.eligible _ (ribGet (ribOf cfg ops) p) = _
    unfold ribOf unrOf
    rw [ribGet_map, spec_eligible_map (hinv.flags_lookup p)]
  have hcell : fibGet (fibOf cfg ops) v.tid p.local =
      vrfWant v (eligible (lookupDest (stAfter cfg (St.init cfg) ops).dests p)) := by
    have := (hinv.cells p).vrf hp v hv ht
    unfold deferringOf at hd
    unfold fibOf reqs
    simpa [visE, hd] using this
  have hs := (hinv.sorted_lookup p).eligible
  have hw := want_spec (hinv.sorted_lookup p) (hinv.flags_lookup p)
  rw [spec_eligible_map (hinv.flags_lookup p)] at hw
  cases he : eligible (lookupDest (stAfter cfg (St.init cfg) ops).dests p) with
  | nil =>
    rw [he] at hel hcell
    refine ⟨fun _ => hcell, fun hne => ?_, fun hne => ?_⟩ <;> (rw [hel] at hne; simp at hne)
  | cons b t =>
    rw [he] at hel hcell hs hw
    have hrm : rtMatch v (pathObs b) = canImport v b.rts := by simp [rtMatch, canImport, pathObs]
    have hbm := head_mem_bests hs
    refine ⟨fun e => ?_, fun _ hall => ?_, fun _ hany => ?_⟩
    · rw [hel] at e; simp at e
    · have : canImport v b.rts = true := by
        rw [← hrm]; rw [hel] at hall; exact List.all_eq_true.mp hall _ hbm
      rw [hcell, hel, hw]; simp [vrfWant, this]
    · have : canImport v b.rts = false := by
        rw [← hrm]
        cases hc : rtMatch v (pathObs b)
        · rfl
        · exfalso
          rw [hel] at hany
          have : (bests (List.map pathObs (b :: t))).any (rtMatch v) = true :=
            List.any_eq_true.mpr ⟨_, hbm, hc⟩
          rw [this] at hany; simp at hany
      rw [hcell]; simp [vrfWant, this]

/-- The tracking requests never unregister an address without outstanding registration, and the
    number of outstanding registrations of every address equals the number of peer-learned stored
    paths using it as next hop. -/
theorem refcount_eq_uses (cfg : Cfg) (ops : List Op) (h : WF cfg ops) :
    ∃ refs, refReplay [] (nhtReqs (reqs cfg ops)) = some refs ∧
      ∀ a, refGet refs a = Spec.uses (ribOf cfg ops) a := by
  obtain ⟨refs, e, hinv⟩ := inv_after h.1 ops _ _ _ _ h.2 (inv_init cfg)
  exact ⟨refs, e, fun a => by unfold ribOf; rw [uses_map]; exact hinv.refs a⟩

/-- The `watched` reference counts of the kernel service loop refine the reference fold: fed any
    sequence of requests and route events it emits the initial reachability exactly on a first
    registration and ends with the reference counts (the C20 service checker accepts every model
    run). -/
theorem service_refcount_refines (log : List (Option (Bool × Addr))) :
    (svcRunE [] log).1 = (svcExpectE [] log).1 ∧
    ∀ a, watchedGet (svcRunE [] log).2 a = refGet (svcExpectE [] log).2 a :=
  svcRunE_refines log [] [] (fun _ => rfl)

/-- ... and fed the tracking requests of any history, the `watched` count of every address is the
    number of peer-learned stored paths using it. -/
theorem service_watched_eq_uses (cfg : Cfg) (ops : List Op) (h : WF cfg ops) (a : Addr) :
    watchedGet (svcRun [] (nhtReqs (reqs cfg ops))).2 a = Spec.uses (ribOf cfg ops) a := by
  obtain ⟨refs, e, hu⟩ := refcount_eq_uses cfg ops h
  rw [(svcRun_refines _ [] [] (fun _ => rfl)).2 a, svcExpect_of_replay _ _ _ e a, hu a]

/-- the reference checker accepts the service-feed observation of every model run -/
theorem feed_ok (cfg : Cfg) (ops : List Op) (h : WF cfg ops) :
    Spec.checkFeed (ribOf cfg ops) (feedOfRun (run cfg ops)) = .ok := by
  unfold Spec.checkFeed feedOfRun
  have : ∀ a, watchedGet (svcRun [] (nhtOfRun (run cfg ops))).2 a = Spec.uses (ribOf cfg ops) a := by
    intro a
    have := service_watched_eq_uses cfg ops h a
    unfold run
    rw [nhtOfRun_eq]; exact this
  simp [this]

/-- the full reference checker (trace + service feed) accepts the canonical observation of every
    model run -/
theorem check_all_ok (cfg : Cfg) (ops : List Op) (h : WF cfg ops) :
    Spec.checkAll cfg ops ((obsOfRun (run cfg ops)).map canonStep) (orderOfRun (run cfg ops))
      (some (feedOfRun (run cfg ops))) = .ok := by
  have hord : orderOfRun (run cfg ops) = true := by
    obtain ⟨refs, e, _⟩ := refcount_eq_uses cfg ops h
    unfold orderOfRun run
    rw [nhtOfRun_eq]
    unfold reqs at e
    rw [e]; rfl
  unfold Spec.checkAll
  rw [hord]
  simp only [Bool.not_true, Bool.false_eq_true, if_false]
  rw [check_canon_ok cfg ops h]
  have hf := feed_ok cfg ops h
  unfold Spec.checkFeed at hf ⊢
  have huse : ∀ a, Spec.uses (lastRib ((obsOfRun (run cfg ops)).map canonStep)) a = Spec.uses (ribOf cfg ops) a := by
    intro a
    cases hops : ops with
    | nil => simp [run, runFrom, obsOfRun, lastRib, ribOf, stAfter, St.init]
    | cons op rest =>
      have hl := lastRib_run cfg ops (St.init cfg) (by rw [hops]; simp)
      have : lastRib ((obsOfRun (run cfg ops)).map canonStep) = sortBy destLe (lastRib (obsOfRun (run cfg ops))) := by
        unfold lastRib
        rw [List.getLast?_map]
        cases (obsOfRun (run cfg ops)).getLast? <;> simp [canonStep, sortBy]
      rw [← hops, this, uses_perm (sortBy_perm destLe _)]
      unfold run ribOf
      rw [hl]
  simp only [huse]
  exact hf

/-- No address whose last report said "unreachable" occurs in a replayed main-table entry ... -/
theorem invalid_excluded (cfg : Cfg) (ops : List Op) (h : WF cfg ops) (p : Pfx) (a : Addr)
    (ha : a ∈ fibGet (fibOf cfg ops) 0 p) : (unrOf ops).contains a = false := by
  obtain ⟨_, _, hinv⟩ := inv_after h.1 ops _ _ _ _ h.2 (inv_init cfg)
  have hm := (hinv.cells p).main
  have hmem : a ∈ want (visE (dfrOf (stAfter cfg (St.init cfg) ops).deferring p)
      (lookupDest (stAfter cfg (St.init cfg) ops).dests p)) := by rw [← hm]; exact ha
  cases hdf : dfrOf (stAfter cfg (St.init cfg) ops).deferring p with
  | true => simp [visE, hdf, want, ecmpPaths] at hmem
  | false =>
    simp only [visE, hdf, Bool.false_eq_true, if_false] at hmem
    have := want_reachable (hinv.flags_lookup p)
    cases hc : (unrOf ops).contains a
    · rfl
    · exfalso
      have hany : (want (eligible (lookupDest (stAfter cfg (St.init cfg) ops).dests p))).any
          (fun a => (reports [] ops).contains a) = true := List.any_eq_true.mpr ⟨a, hmem, hc⟩
      rw [this] at hany; exact absurd hany (by simp)

/-- ... nor in the entry of any VRF table. -/
theorem invalid_excluded_vrf (cfg : Cfg) (ops : List Op) (h : WF cfg ops) (p : Pfx) (hp : p.isVpn = true)
    (v : Vrf) (hv : v ∈ cfg.vrfs) (ht : v.tid ≠ 0) (a : Addr)
    (ha : a ∈ fibGet (fibOf cfg ops) v.tid p.local) : (unrOf ops).contains a = false := by
  obtain ⟨_, _, hinv⟩ := inv_after h.1 ops _ _ _ _ h.2 (inv_init cfg)
  have hm := (hinv.cells p).vrf hp v hv ht
  have hmem : a ∈ vrfWant v (visE (dfrOf (stAfter cfg (St.init cfg) ops).deferring p)
      (lookupDest (stAfter cfg (St.init cfg) ops).dests p)) := by rw [← hm]; exact ha
  cases hdf : dfrOf (stAfter cfg (St.init cfg) ops).deferring p with
  | true => simp [visE, hdf, vrfWant] at hmem
  | false =>
    simp only [visE, hdf, Bool.false_eq_true, if_false] at hmem
    have := vrfWant_reachable (hinv.flags_lookup p) v
    cases hc : (unrOf ops).contains a
    · rfl
    · exfalso
      have hany : (vrfWant v (eligible (lookupDest (stAfter cfg (St.init cfg) ops).dests p))).any
          (fun a => (reports [] ops).contains a) = true := List.any_eq_true.mpr ⟨a, hmem, hc⟩
      rw [this] at hany; exact absurd hany (by simp)

/-- Every replayed FIB entry is in the main table or in the table of a configured VRF. -/
theorem fib_cells_known (cfg : Cfg) (ops : List Op) (h : WF cfg ops) :
    ∀ e ∈ fibOf cfg ops, checkCell cfg e = none := by
  obtain ⟨_, _, hinv⟩ := inv_after h.1 ops _ _ _ _ h.2 (inv_init cfg)
  exact fun e he => checkCell_ok hinv e he

/-- Every stored path's NEXTHOP_INVALID flag is the last report about its next hop, so it
    re-enters selection exactly when the address is reported reachable again. -/
theorem invalid_flag_eq_report (cfg : Cfg) (ops : List Op) (h : WF cfg ops) (d : Dest)
    (hd : d ∈ (stAfter cfg (St.init cfg) ops).dests) (x : Path) (hx : x ∈ d.paths) :
    x.inv = (unrOf ops).contains x.nh := by
  obtain ⟨_, _, hinv⟩ := inv_after h.1 ops _ _ _ _ h.2 (inv_init cfg)
  exact hinv.flags d hd x hx

-- ---------------------------------------------------------------- non-vacuity and witnesses

def at0 : Attrs := ⟨100, 0, [], 0, 0, false, false, false⟩
def atRt (rts : List Nat) : Attrs := ⟨100, 0, rts, 0, 0, false, false, false⟩

/-- S30 history: two peers tied before the router-id step announce the same prefix. -/
def s30cfg : Cfg := ⟨[(1, 0), (2, 0)], [], []⟩
def s30ops : List Op := [.ins 0 ⟨0, 1⟩ 0 1 at0, .ins 1 ⟨0, 1⟩ 0 2 at0]

example : WF s30cfg s30ops := by decide
/-- with the repaired `distribute_update` the second insertion (best unchanged) re-issues the request -/
example : fibGet (fibOf s30cfg s30ops) 0 ⟨0, 1⟩ = [1, 2] := by decide
/-- the reference checker rejects what the unrepaired code did on this history (no request for the
    second insertion): observation recorded from the tree before the repair -/
example : Spec.check s30cfg s30ops
    [⟨[⟨0, ⟨0, 1⟩, [1]⟩], [(true, 1)], [⟨⟨0, 1⟩, [⟨0, 0, 1, false, false, false, 100, 0, 0, true, 0, 1, []⟩]⟩]⟩,
     ⟨[], [(true, 2)], [⟨⟨0, 1⟩, [⟨0, 0, 1, false, false, false, 100, 0, 0, true, 0, 1, []⟩,
                                   ⟨1, 0, 2, false, false, false, 100, 0, 0, true, 0, 2, []⟩]⟩]⟩]
    = .fail 1 "fib-ne-ecmp" := by decide

/-- VRF history: the best path stops matching the VRF (a better path with another route target
    arrives), then the old next hop is reported unreachable. -/
def vrfCfg : Cfg := ⟨[(1, 0), (2, 0)], [⟨10, [1]⟩], []⟩
def vrfOps : List Op :=
  [.ins 0 ⟨2, 3⟩ 0 1 (atRt [1]), .ins 1 ⟨2, 3⟩ 0 2 ⟨200, 0, [2], 0, 0, false, false, false⟩, .nh 1 false]

example : WF vrfCfg vrfOps := by decide
/-- with the repaired `distribute_update` the VRF entry is withdrawn when the best stops matching -/
example : fibGet (fibOf vrfCfg (vrfOps.take 1)) 10 ⟨0, 3⟩ = [1] := by decide
example : fibGet (fibOf vrfCfg vrfOps) 10 ⟨0, 3⟩ = [] := by decide
/-- the reference checker rejects what the unrepaired code did (the VRF kept next hop 1): -/
example : Spec.check vrfCfg (vrfOps.take 2)
    [⟨[⟨0, ⟨2, 3⟩, [1]⟩, ⟨10, ⟨0, 3⟩, [1]⟩], [(true, 1)],
      [⟨⟨2, 3⟩, [⟨0, 0, 1, false, false, false, 100, 0, 0, true, 0, 1, [1]⟩]⟩]⟩,
     ⟨[⟨0, ⟨2, 3⟩, [2]⟩], [(true, 2)],
      [⟨⟨2, 3⟩, [⟨1, 0, 2, false, false, false, 200, 0, 0, true, 0, 2, [2]⟩,
                 ⟨0, 0, 1, false, false, false, 100, 0, 0, true, 0, 1, [1]⟩]⟩]⟩]
    = .fail 1 "vrf-stale-entry" := by decide

/-- a richer well-formed history: VPN route imported into a VRF, next hop reported unreachable
    and reachable again, GR stale + purge, soft reset after a policy that rewrites the next hop,
    LLGR, deferral of the IPv4 family -/
def demoCfg : Cfg := ⟨[(1, 0), (2, 0), (2, 1)], [⟨10, [1]⟩, ⟨11, [2]⟩], [0]⟩
def demoOps : List Op :=
  [.ins 0 ⟨2, 3⟩ 0 1 (atRt [1]), .ins 1 ⟨2, 3⟩ 0 2 (atRt [1]), .nh 1 false, .nh 1 true,
   .pol [⟨.peer 1, .set 3⟩], .soft 1, .stale 0, .ins 0 ⟨2, 3⟩ 0 1 (atRt [1]), .purge 0,
   .ins 2 ⟨0, 1⟩ 0 2 at0, .undefer 0, .llgr 1, .lpurge 1, .down 0]

example : WF demoCfg demoOps := by decide
example : fibGet (fibOf demoCfg (demoOps.take 6)) 10 ⟨0, 3⟩ = [1, 3] := by decide
example : fibGet (fibOf demoCfg (demoOps.take 3)) 10 ⟨0, 3⟩ = [2] := by decide
example : fibGet (fibOf demoCfg (demoOps.take 10)) 0 ⟨0, 1⟩ = [] := by decide      -- still deferring
example : fibGet (fibOf demoCfg (demoOps.take 11)) 0 ⟨0, 1⟩ = [2] := by decide     -- released
example : fibGet (fibOf demoCfg demoOps) 10 ⟨0, 3⟩ = [] := by decide
/-- after the soft reset peer 0 still uses next hop 1, peer 1 now uses 3 (was 2) -/
example : (refReplay [] (nhtReqs (reqs demoCfg (demoOps.take 6)))).map (fun r => (refGet r 1, refGet r 2, refGet r 3))
    = some (1, 0, 1) := by decide
example : svcRunE [] [some (true, 1), some (true, 1), none, some (false, 1), some (false, 2), some (true, 2)] =
    ([true, false, false, false, false, true], [(2, 1), (1, 1)]) := by
  decide

end Rbgp.Fib.Props
